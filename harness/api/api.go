// Package api turns a primitive, JSON-serialisable description of an API call (spec.Call plus a
// Variant that says how the Go arguments are represented) into a real call on an IUHPPOTE and
// canonicalises the result into a spec.Rec by means of accessor methods.
package api

import (
	"fmt"
	"net"
	"net/netip"
	"time"

	"github.com/uhppoted/uhppote-core/types"
	"github.com/uhppoted/uhppote-core/uhppote"

	"verif/harness/spec"
)

// Variant describes *how* the arguments are represented on the Go side. It never changes the
// protocol-level meaning of a call (the generator keeps spec.Call consistent with it).
type Variant struct {
	DoorsNil      bool      `json:"doors_nil,omitempty"`     // nil map (all permissions 0)
	DoorsPresent  [4]bool   `json:"doors_present"`           // which of keys 1..4 are in the map
	ForeignDoors  []uint8   `json:"foreign_doors,omitempty"` // extra keys (0, 5..255) with value 0x5a
	WeekdaysNil   bool      `json:"weekdays_nil,omitempty"`
	ExtraWeekdays []int     `json:"extra_weekdays,omitempty"` // weekday map: extra keys (7 = ISO Sunday, 8, -1 ...) set to true
	WeekPresent   [7]bool   `json:"week_present"`             // which weekday keys are in the map (monday..sunday)
	ReadersNil    bool      `json:"readers_nil,omitempty"`
	ReadPresent   [4]bool   `json:"read_present"`
	ForeignRead   []uint8   `json:"foreign_read,omitempty"`
	IP16          [3]bool   `json:"ip16"`               // address/mask/gateway given as 16-byte net.IP
	DateLoc       [2]string `json:"date_loc"`           // "" = types.ToDate; otherwise Date(time.Date(.., loc)) with DateClock
	DateClock     [2][3]int `json:"date_clock"`         // hour, minute, second for from/to when DateLoc is set
	TimeLoc       string    `json:"time_loc,omitempty"` // SetTime: location name ("" = UTC, "fixed:+hhmm" = fixed offset)
	TimeNanos     int       `json:"time_nanos,omitempty"`
	RawPasscodes  []uint32  `json:"raw_passcodes,omitempty"`  // SetDoorPasscodes: the passcodes as passed
	Formats       []uint8   `json:"formats,omitempty"`        // PutCard: card formats as passed
	ExtraSegments []uint8   `json:"extra_segments,omitempty"` // SetTimeProfile: extra (foreign) segment keys
	// out-of-domain representations (C04 / C07)
	ListenerRaw     string    `json:"listener_raw,omitempty"`     // SetListener: netip.ParseAddrPort text; "invalid" = zero value AddrPort
	RawIPs          [][]byte  `json:"raw_ips,omitempty"`          // SetAddress: address, mask, gateway as raw net.IP bytes (nil entry = nil IP)
	MissingSegments []uint8   `json:"missing_segments,omitempty"` // SetTimeProfile: segment keys left out of the map
	SegmentsNil     bool      `json:"segments_nil,omitempty"`     // SetTimeProfile: nil segments map
	ExtremeDate     [2]string `json:"extreme_date"`               // from/to: "" | zero | y10000 | negative | max | min
	ExtremeTime     string    `json:"extreme_time,omitempty"`     // SetTime: "" | zero | y10000 | negative | max | min
}

// Extreme returns hostile time.Time values (C04).
func Extreme(kind string) (time.Time, bool) {
	switch kind {
	case "zero":
		return time.Time{}, true
	case "zero-local": // the zero instant carried in a non-nil location
		return time.Time{}.In(time.FixedZone("X", 0)), true
	case "zero-east": // the zero instant carried in a location east of Greenwich: its wall clock is 0001-01-01 05:30:00
		return time.Time{}.In(time.FixedZone("", 19800)), true
	case "zero-east-14":
		return time.Time{}.In(time.FixedZone("LINT", 14*3600)), true
	case "epoch-east":
		return time.Unix(0, 0).In(time.FixedZone("", 3600)), true
	case "zero-unix":
		return time.Unix(-62135596800, 0).UTC(), true
	case "y10000":
		return time.Date(10000, 1, 1, 0, 0, 0, 0, time.UTC), true
	case "negative":
		return time.Date(-5, 12, 31, 23, 59, 59, 0, time.UTC), true
	case "max":
		return time.Unix(1<<55, 999999999), true
	case "min":
		return time.Unix(-1<<55, 0), true
	}
	return time.Time{}, false
}

type Case struct {
	Call spec.Call `json:"call"`
	V    Variant   `json:"variant"`
}

type Result struct {
	Err   error
	Nil   bool
	Rec   spec.Rec
	Value any // the returned object (for String()/JSON rendering), nil if none
	Panic any // recovered panic value
}

func (r Result) String() string {
	switch {
	case r.Panic != nil:
		return fmt.Sprintf("PANIC(%v)", r.Panic)
	case r.Err != nil:
		return fmt.Sprintf("error(%v)", r.Err)
	case r.Nil:
		return "nil"
	}
	return r.Rec.String()
}

func LoadLocation(name string) *time.Location {
	if name == "" || name == "UTC" {
		return time.UTC
	}
	if len(name) > 6 && name[:6] == "fixed:" {
		var sign byte
		var hh, mm int
		fmt.Sscanf(name[6:], "%c%02d%02d", &sign, &hh, &mm)
		off := hh*3600 + mm*60
		if sign == '-' {
			off = -off
		}
		return time.FixedZone(name[6:], off)
	}
	if loc, err := time.LoadLocation(name); err == nil {
		return loc
	}
	return time.UTC
}

func mkDate(c spec.Civil, loc string, clock [3]int) types.Date {
	if c.IsZero() {
		return types.Date{}
	}
	if loc == "" {
		return types.ToDate(c.Y, time.Month(c.M), c.D)
	}
	t := time.Date(c.Y, time.Month(c.M), c.D, clock[0], clock[1], clock[2], 0, LoadLocation(loc))
	if y, m, d := t.Date(); y != c.Y || int(m) != c.M || d != c.D {
		// the requested wall clock does not exist on that day in that zone: use noon UTC
		t = time.Date(c.Y, time.Month(c.M), c.D, 12, 0, 0, 0, time.UTC)
	}
	return types.Date(t)
}

func mkIP(b [4]byte, as16 bool) net.IP {
	ip := net.IPv4(b[0], b[1], b[2], b[3]) // 16-byte form
	if !as16 {
		return ip.To4()
	}
	return ip
}

func Weekdays(c spec.Call, v Variant) types.Weekdays {
	if v.WeekdaysNil {
		return nil
	}
	days := []time.Weekday{time.Monday, time.Tuesday, time.Wednesday, time.Thursday, time.Friday, time.Saturday, time.Sunday}
	w := types.Weekdays{}
	for i, d := range days {
		if v.WeekPresent[i] {
			w[d] = c.Weekdays[i]
		}
	}
	for _, k := range v.ExtraWeekdays {
		if k < 0 || k > 6 {
			w[time.Weekday(k)] = true
		}
	}
	return w
}

func dates(c spec.Call, v Variant) (types.Date, types.Date) {
	from, to := mkDate(c.From, v.DateLoc[0], v.DateClock[0]), mkDate(c.To, v.DateLoc[1], v.DateClock[1])
	if t, ok := Extreme(v.ExtremeDate[0]); ok {
		from = types.Date(t)
	}
	if t, ok := Extreme(v.ExtremeDate[1]); ok {
		to = types.Date(t)
	}
	return from, to
}

func Card(c spec.Call, v Variant) types.Card {
	from, to := dates(c, v)
	card := types.Card{CardNumber: c.Card, From: from, To: to, PIN: types.PIN(c.PIN)}
	if !v.DoorsNil {
		card.Doors = map[uint8]uint8{}
		for i := 0; i < 4; i++ {
			if v.DoorsPresent[i] {
				card.Doors[uint8(i+1)] = c.Doors[i]
			}
		}
		for _, k := range v.ForeignDoors {
			if k < 1 || k > 4 {
				card.Doors[k] = 0x5a
			}
		}
	}
	return card
}

func Profile(c spec.Call, v Variant) types.TimeProfile {
	from, to := dates(c, v)
	p := types.TimeProfile{ID: c.Profile, LinkedProfileID: c.Linked, From: from, To: to, Weekdays: Weekdays(c, v)}
	p.Segments = types.Segments{}
	for i := 0; i < 3; i++ {
		p.Segments[uint8(i+1)] = types.Segment{Start: types.NewHHmm(c.Segments[2*i].H, c.Segments[2*i].M), End: types.NewHHmm(c.Segments[2*i+1].H, c.Segments[2*i+1].M)}
	}
	for _, k := range v.ExtraSegments {
		if k < 1 || k > 3 {
			p.Segments[k] = types.Segment{Start: types.NewHHmm(1, 2), End: types.NewHHmm(3, 4)}
		}
	}
	for _, k := range v.MissingSegments {
		delete(p.Segments, k)
	}
	if v.SegmentsNil {
		p.Segments = nil
	}
	return p
}

func Task(c spec.Call, v Variant) types.Task {
	from, to := dates(c, v)
	return types.Task{Task: types.TaskType(c.Task), Door: c.Door, From: from, To: to,
		Weekdays: Weekdays(c, v), Start: types.NewHHmm(c.Start.H, c.Start.M), Cards: c.Cards}
}

func Readers(c spec.Call, v Variant) map[uint8]bool {
	if v.ReadersNil {
		return nil
	}
	m := map[uint8]bool{}
	for i := 0; i < 4; i++ {
		if v.ReadPresent[i] {
			m[uint8(i+1)] = c.Readers[i]
		}
	}
	for _, k := range v.ForeignRead {
		if k < 1 || k > 4 {
			m[k] = true
		}
	}
	return m
}

// SetTimeArg builds the time.Time for SetTime and returns it with its own civil fields (Go's
// time package is the trusted base for what the civil fields of a time.Time are).
func SetTimeArg(c spec.Call, v Variant) (time.Time, spec.CivilDT) {
	d := c.DateTime
	t := time.Date(d.Y, time.Month(d.M), d.D, d.H, d.Mi, d.S, v.TimeNanos, LoadLocation(v.TimeLoc))
	if x, ok := Extreme(v.ExtremeTime); ok {
		t = x
	}
	y, m, dd := t.Date()
	h, mi, s := t.Clock()
	return t, spec.CivilDT{Y: y, M: int(m), D: dd, H: h, Mi: mi, S: s}
}

func Listener(c spec.Call) netip.AddrPort {
	return netip.AddrPortFrom(netip.AddrFrom4(c.Listener), c.Port)
}

// ListenerArg honours the raw (possibly non-IPv4 / invalid) representation of the variant.
func ListenerArg(c spec.Call, v Variant) netip.AddrPort {
	switch {
	case v.ListenerRaw == "":
		return Listener(c)
	case v.ListenerRaw == "invalid":
		return netip.AddrPort{}
	}
	if a, err := netip.ParseAddrPort(v.ListenerRaw); err == nil {
		return a
	}
	return netip.AddrPort{}
}

func ipArg(b [4]byte, as16 bool, raw [][]byte, i int) net.IP {
	if raw != nil && i < len(raw) {
		if raw[i] == nil {
			return nil
		}
		return net.IP(append([]byte(nil), raw[i]...))
	}
	return mkIP(b, as16)
}

// Text canonicalisation of library values ---------------------------------------------------------

func DateText(d types.Date) string {
	if d.IsZero() {
		return ""
	}
	y, m, dd := time.Time(d).Date()
	return fmt.Sprintf("%04d-%02d-%02d", y, int(m), dd)
}

func DateTimeText(d types.DateTime) string {
	if d.IsZero() {
		return ""
	}
	t := time.Time(d)
	y, m, dd := t.Date()
	h, mi, s := t.Clock()
	text := fmt.Sprintf("%04d-%02d-%02d %02d:%02d:%02d", y, int(m), dd, h, mi, s)
	// the value is an INSTANT: read in the process zone it must show the same wall clock (a date-time carried in some
	// other zone with the right digits is a different instant: it compares, sorts and serialises differently)
	l := t.In(time.Local)
	if ly, lm, ld := l.Date(); ly != y || lm != m || ld != dd || l.Hour() != h || l.Minute() != mi || l.Second() != s {
		text += fmt.Sprintf(" [instant reads %s in the process zone]", l.Format("2006-01-02 15:04:05 -0700"))
	}
	return text
}

func IPText(ip net.IP) string {
	if v4 := ip.To4(); v4 != nil {
		return fmt.Sprintf("%d.%d.%d.%d", v4[0], v4[1], v4[2], v4[3])
	}
	return fmt.Sprintf("?ip(%x)", []byte(ip))
}

func AddrPortText(a netip.AddrPort) string {
	if !a.Addr().Is4() {
		return fmt.Sprintf("?addrport(%v)", a)
	}
	b := a.Addr().As4()
	return fmt.Sprintf("%d.%d.%d.%d:%d", b[0], b[1], b[2], b[3], a.Port())
}

func MACText(m types.MacAddress) string {
	if len(m) != 6 {
		return fmt.Sprintf("?mac(%x)", []byte(m))
	}
	return fmt.Sprintf("%02x:%02x:%02x:%02x:%02x:%02x", m[0], m[1], m[2], m[3], m[4], m[5])
}

func b2s(b bool) string {
	if b {
		return "true"
	}
	return "false"
}

func DeviceRec(d types.Device) spec.Rec {
	return spec.Rec{"serial": fmt.Sprint(uint32(d.SerialNumber)), "address": IPText(d.IpAddress), "mask": IPText(d.SubnetMask), "gateway": IPText(d.Gateway),
		"mac": MACText(d.MacAddress), "version": fmt.Sprintf("%04x", uint16(d.Version)), "date": DateText(d.Date), "endpoint": AddrPortText(d.Address), "name": d.Name}
}

func CardRec(c types.Card) spec.Rec {
	return spec.Rec{"card": fmt.Sprint(c.CardNumber), "from": DateText(c.From), "to": DateText(c.To), "door1": fmt.Sprint(c.Doors[1]), "door2": fmt.Sprint(c.Doors[2]),
		"door3": fmt.Sprint(c.Doors[3]), "door4": fmt.Sprint(c.Doors[4]), "pin": fmt.Sprint(uint32(c.PIN))}
}

func StatusRec(s types.Status) spec.Rec {
	r := spec.Rec{"serial": fmt.Sprint(uint32(s.SerialNumber)), "system.error": fmt.Sprint(s.SystemError), "system.datetime": DateTimeText(s.SystemDateTime),
		"sequence": fmt.Sprint(s.SequenceId), "special": fmt.Sprint(s.SpecialInfo), "relays": fmt.Sprint(s.RelayState), "inputs": fmt.Sprint(s.InputState),
		"event.index": fmt.Sprint(s.Event.Index), "event.type": fmt.Sprint(s.Event.Type), "event.granted": b2s(s.Event.Granted), "event.door": fmt.Sprint(s.Event.Door),
		"event.direction": fmt.Sprint(s.Event.Direction), "event.card": fmt.Sprint(s.Event.CardNumber), "event.timestamp": DateTimeText(s.Event.Timestamp), "event.reason": fmt.Sprint(s.Event.Reason)}
	for i := uint8(1); i <= 4; i++ {
		st, ok1 := s.DoorState[i]
		bt, ok2 := s.DoorButton[i]
		r[fmt.Sprintf("door%d.state", i)] = b2s(st)
		r[fmt.Sprintf("door%d.button", i)] = b2s(bt)
		if !ok1 || !ok2 {
			r[fmt.Sprintf("door%d.state", i)] = "missing"
		}
	}
	if len(s.DoorState) != 4 || len(s.DoorButton) != 4 {
		r["door1.state"] = fmt.Sprintf("?maps(%d,%d)", len(s.DoorState), len(s.DoorButton))
	}
	return r
}

func ProfileRec(p types.TimeProfile) spec.Rec {
	r := spec.Rec{"profile": fmt.Sprint(p.ID), "linked": fmt.Sprint(p.LinkedProfileID), "from": DateText(p.From), "to": DateText(p.To)}
	for i, d := range []time.Weekday{time.Monday, time.Tuesday, time.Wednesday, time.Thursday, time.Friday, time.Saturday, time.Sunday} {
		r[[]string{"monday", "tuesday", "wednesday", "thursday", "friday", "saturday", "sunday"}[i]] = b2s(p.Weekdays[d])
	}
	for i := uint8(1); i <= 3; i++ {
		seg, ok := p.Segments[i]
		r[fmt.Sprintf("segment%d.start", i)] = seg.Start.String()
		r[fmt.Sprintf("segment%d.end", i)] = seg.End.String()
		if !ok {
			r[fmt.Sprintf("segment%d.start", i)] = "missing"
		}
	}
	return r
}

// Invoke performs the call and canonicalises the result. A panic is recovered and reported.
func Invoke(u uhppote.IUHPPOTE, cs Case) (res Result) {
	defer func() {
		if r := recover(); r != nil {
			res = Result{Panic: r}
		}
	}()
	c, v := cs.Call, cs.V
	okRec := func(b bool, err error) Result {
		if err != nil {
			return Result{Err: err}
		}
		return Result{Rec: spec.Rec{"ok": b2s(b)}, Value: b}
	}
	ser := func(s types.SerialNumber) string { return fmt.Sprint(uint32(s)) }

	switch c.Op {
	case "GetDevices":
		panic("api.Invoke: GetDevices returns a list - use InvokeGetDevices")
	case "GetDevice":
		d, err := u.GetDevice(c.Serial)
		if err != nil {
			return Result{Err: err}
		} else if d == nil {
			return Result{Nil: true}
		}
		return Result{Rec: DeviceRec(*d), Value: d}
	case "SetAddress":
		r, err := u.SetAddress(c.Serial, ipArg(c.Address, v.IP16[0], v.RawIPs, 0), ipArg(c.Mask, v.IP16[1], v.RawIPs, 1), ipArg(c.Gateway, v.IP16[2], v.RawIPs, 2))
		if err != nil {
			return Result{Err: err}
		} else if r == nil {
			return Result{Nil: true}
		}
		return Result{Rec: spec.Rec{"serial": ser(r.SerialNumber), "ok": b2s(r.Succeeded)}, Value: r}
	case "GetListener":
		a, i, err := u.GetListener(c.Serial)
		if err != nil {
			return Result{Err: err}
		}
		return Result{Rec: spec.Rec{"listener": AddrPortText(a), "interval": fmt.Sprint(i)}, Value: a}
	case "SetListener":
		return okRec(u.SetListener(c.Serial, ListenerArg(c, v), c.Interval))
	case "GetTime":
		t, err := u.GetTime(c.Serial)
		if err != nil {
			return Result{Err: err}
		} else if t == nil {
			return Result{Nil: true}
		}
		return Result{Rec: spec.Rec{"serial": ser(t.SerialNumber), "datetime": DateTimeText(t.DateTime)}, Value: t}
	case "SetTime":
		arg, _ := SetTimeArg(c, v)
		t, err := u.SetTime(c.Serial, arg)
		if err != nil {
			return Result{Err: err}
		} else if t == nil {
			return Result{Nil: true}
		}
		return Result{Rec: spec.Rec{"serial": ser(t.SerialNumber), "datetime": DateTimeText(t.DateTime)}, Value: t}
	case "GetDoorControlState", "SetDoorControlState":
		var d *types.DoorControlState
		var err error
		if c.Op == "GetDoorControlState" {
			d, err = u.GetDoorControlState(c.Serial, c.Door)
		} else {
			d, err = u.SetDoorControlState(c.Serial, c.Door, types.ControlState(c.State), c.Delay)
		}
		if err != nil {
			return Result{Err: err}
		} else if d == nil {
			return Result{Nil: true}
		}
		return Result{Rec: spec.Rec{"serial": ser(d.SerialNumber), "door": fmt.Sprint(d.Door), "state": fmt.Sprint(int(d.ControlState)), "delay": fmt.Sprint(d.Delay)}, Value: d}
	case "GetStatus":
		s, err := u.GetStatus(c.Serial)
		if err != nil {
			return Result{Err: err}
		} else if s == nil {
			return Result{Nil: true}
		}
		return Result{Rec: StatusRec(*s), Value: s}
	case "GetCards":
		n, err := u.GetCards(c.Serial)
		if err != nil {
			return Result{Err: err}
		}
		return Result{Rec: spec.Rec{"records": fmt.Sprint(n)}, Value: n}
	case "GetCardByIndex", "GetCardByID":
		var card *types.Card
		var err error
		if c.Op == "GetCardByIndex" {
			card, err = u.GetCardByIndex(c.Serial, c.Index)
		} else {
			card, err = u.GetCardByID(c.Serial, c.Card)
		}
		if err != nil {
			return Result{Err: err}
		} else if card == nil {
			return Result{Nil: true}
		}
		return Result{Rec: CardRec(*card), Value: card}
	case "PutCard":
		formats := make([]types.CardFormat, len(v.Formats))
		for i, f := range v.Formats {
			formats[i] = types.CardFormat(f)
		}
		return okRec(u.PutCard(c.Serial, Card(c, v), formats...))
	case "DeleteCard":
		return okRec(u.DeleteCard(c.Serial, c.Card))
	case "DeleteCards":
		return okRec(u.DeleteCards(c.Serial))
	case "GetTimeProfile":
		p, err := u.GetTimeProfile(c.Serial, c.Profile)
		if err != nil {
			return Result{Err: err}
		} else if p == nil {
			return Result{Nil: true}
		}
		return Result{Rec: ProfileRec(*p), Value: p}
	case "SetTimeProfile":
		return okRec(u.SetTimeProfile(c.Serial, Profile(c, v)))
	case "ClearTimeProfiles":
		return okRec(u.ClearTimeProfiles(c.Serial))
	case "ClearTaskList":
		return okRec(u.ClearTaskList(c.Serial))
	case "AddTask":
		return okRec(u.AddTask(c.Serial, Task(c, v)))
	case "RefreshTaskList":
		return okRec(u.RefreshTaskList(c.Serial))
	case "RecordSpecialEvents":
		return okRec(u.RecordSpecialEvents(c.Serial, c.Enable))
	case "GetEvent":
		e, err := u.GetEvent(c.Serial, c.Index)
		if err != nil {
			return Result{Err: err}
		} else if e == nil {
			return Result{Nil: true}
		}
		return Result{Rec: spec.Rec{"serial": ser(e.SerialNumber), "index": fmt.Sprint(e.Index), "type": fmt.Sprint(e.Type), "granted": b2s(e.Granted), "door": fmt.Sprint(e.Door),
			"direction": fmt.Sprint(e.Direction), "card": fmt.Sprint(e.CardNumber), "timestamp": DateTimeText(e.Timestamp), "reason": fmt.Sprint(e.Reason)}, Value: e}
	case "GetEventIndex":
		e, err := u.GetEventIndex(c.Serial)
		if err != nil {
			return Result{Err: err}
		} else if e == nil {
			return Result{Nil: true}
		}
		return Result{Rec: spec.Rec{"serial": ser(e.SerialNumber), "index": fmt.Sprint(e.Index)}, Value: e}
	case "SetEventIndex":
		e, err := u.SetEventIndex(c.Serial, c.Index)
		if err != nil {
			return Result{Err: err}
		} else if e == nil {
			return Result{Nil: true}
		}
		return Result{Rec: spec.Rec{"serial": ser(e.SerialNumber), "index": fmt.Sprint(e.Index), "ok": b2s(e.Changed)}, Value: e}
	case "SetDoorPasscodes":
		return okRec(u.SetDoorPasscodes(c.Serial, c.Door, v.RawPasscodes...))
	case "OpenDoor":
		r, err := u.OpenDoor(c.Serial, c.Door)
		if err != nil {
			return Result{Err: err}
		} else if r == nil {
			return Result{Nil: true}
		}
		return Result{Rec: spec.Rec{"serial": ser(r.SerialNumber), "ok": b2s(r.Succeeded)}, Value: r}
	case "SetPCControl":
		return okRec(u.SetPCControl(c.Serial, c.Enable))
	case "SetInterlock":
		return okRec(u.SetInterlock(c.Serial, types.Interlock(c.Interlock)))
	case "ActivateKeypads":
		return okRec(u.ActivateKeypads(c.Serial, Readers(c, v)))
	case "RestoreDefaultParameters":
		return okRec(u.RestoreDefaultParameters(c.Serial))
	}
	panic("api.Invoke: unknown operation " + c.Op)
}

// Compare checks an API result against the outcome prescribed by the model. It returns ""
// when the result is acceptable, otherwise a description.
func Compare(res Result, want spec.Outcome) string {
	if res.Panic != nil {
		return fmt.Sprintf("call panicked: %v", res.Panic)
	}
	switch {
	case want.MustFail:
		if res.Err == nil {
			return fmt.Sprintf("call must fail (%s) but returned %v", want.Why, res)
		}
		return ""
	case want.NilOrFail:
		if res.Err == nil && !res.Nil {
			return fmt.Sprintf("call must fail or return nil (%s) but returned %v", want.Why, res)
		}
		return ""
	}
	if res.Err != nil {
		if want.MayFail {
			return ""
		}
		return fmt.Sprintf("call failed on a well-formed reply: %v", res.Err)
	}
	if want.Nil {
		if !res.Nil {
			return fmt.Sprintf("call must return nil (%s) but returned %v", want.Why, res)
		}
		return ""
	}
	if res.Nil {
		return fmt.Sprintf("call returned nil, want %v", want.Rec)
	}
	for k, w := range want.Rec {
		if want.Skip[k] {
			continue
		}
		if g, ok := res.Rec[k]; !ok {
			return fmt.Sprintf("result has no field %q (harness canonicalisation)", k)
		} else if g != w {
			return fmt.Sprintf("field %s = %q, protocol decoding is %q", k, g, w)
		}
	}
	return ""
}

// Recanon recomputes the canonical record from a live returned object (pointer / slice results): used to verify that a
// result does not change after it was returned (later calls, reused buffers). Returns nil for plain values.
func Recanon(v any) spec.Rec {
	switch x := v.(type) {
	case *types.Device:
		return DeviceRec(*x)
	case []types.Device:
		r := spec.Rec{}
		for i, dv := range x {
			for k, v := range DeviceRec(dv) {
				r[fmt.Sprintf("%d.%s", i, k)] = v
			}
		}
		return r
	case *types.Status:
		return StatusRec(*x)
	case *types.Card:
		return CardRec(*x)
	case *types.TimeProfile:
		return ProfileRec(*x)
	case *types.Time:
		return spec.Rec{"serial": fmt.Sprint(uint32(x.SerialNumber)), "datetime": DateTimeText(x.DateTime)}
	case *types.Event:
		return spec.Rec{"serial": fmt.Sprint(uint32(x.SerialNumber)), "index": fmt.Sprint(x.Index), "type": fmt.Sprint(x.Type), "granted": b2s(x.Granted), "door": fmt.Sprint(x.Door),
			"direction": fmt.Sprint(x.Direction), "card": fmt.Sprint(x.CardNumber), "timestamp": DateTimeText(x.Timestamp), "reason": fmt.Sprint(x.Reason)}
	case *types.DoorControlState:
		return spec.Rec{"serial": fmt.Sprint(uint32(x.SerialNumber)), "door": fmt.Sprint(x.Door), "state": fmt.Sprint(int(x.ControlState)), "delay": fmt.Sprint(x.Delay)}
	case *types.EventIndex:
		return spec.Rec{"serial": fmt.Sprint(uint32(x.SerialNumber)), "index": fmt.Sprint(x.Index)}
	case *types.Result:
		return spec.Rec{"serial": fmt.Sprint(uint32(x.SerialNumber)), "ok": b2s(x.Succeeded)}
	}
	return nil
}
