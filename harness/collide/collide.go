// Package collide finds pairs of distinct short strings that collide under well-known non-cryptographic hashes and cheap
// keys (FNV-1/1a, CRC-32, Adler-32, djb2, sdbm, Java's 31-hash, Jenkins one-at-a-time, Murmur3-32, byte sum / xor, numeric
// value). A memo or cache that is keyed on such a hash INSTEAD of the string itself confuses exactly these pairs; random
// inputs meet one with probability about 2^-28 per call, a birthday search over a few hundred thousand candidates finds a
// handful per hash in well under a second. The candidate sets are enumerations (no randomness).
package collide

import (
	"hash/adler32"
	"hash/crc32"
	"hash/fnv"
	"sort"
)

type Pair struct {
	Hash string `json:"hash"`
	A    string `json:"a"`
	B    string `json:"b"`
}

type hashFn struct {
	name string
	f    func(s string) uint64
}

var castagnoli = crc32.MakeTable(crc32.Castagnoli)

func murmur3(s string) uint32 {
	const c1, c2 = 0xcc9e2d51, 0x1b873593
	h := uint32(0)
	b := []byte(s)
	n := len(b) / 4
	for i := 0; i < n; i++ {
		k := uint32(b[4*i]) | uint32(b[4*i+1])<<8 | uint32(b[4*i+2])<<16 | uint32(b[4*i+3])<<24
		k *= c1
		k = k<<15 | k>>17
		k *= c2
		h ^= k
		h = h<<13 | h>>19
		h = h*5 + 0xe6546b64
	}
	var k uint32
	tail := b[4*n:]
	switch len(tail) {
	case 3:
		k ^= uint32(tail[2]) << 16
		fallthrough
	case 2:
		k ^= uint32(tail[1]) << 8
		fallthrough
	case 1:
		k ^= uint32(tail[0])
		k *= c1
		k = k<<15 | k>>17
		k *= c2
		h ^= k
	}
	h ^= uint32(len(b))
	h ^= h >> 16
	h *= 0x85ebca6b
	h ^= h >> 13
	h *= 0xc2b2ae35
	h ^= h >> 16
	return h
}

var hashes = []hashFn{
	{"fnv1a-32", func(s string) uint64 { h := fnv.New32a(); h.Write([]byte(s)); return uint64(h.Sum32()) }},
	{"fnv1-32", func(s string) uint64 { h := fnv.New32(); h.Write([]byte(s)); return uint64(h.Sum32()) }},
	{"crc32-ieee", func(s string) uint64 { return uint64(crc32.ChecksumIEEE([]byte(s))) }},
	{"crc32-castagnoli", func(s string) uint64 { return uint64(crc32.Checksum([]byte(s), castagnoli)) }},
	{"adler32", func(s string) uint64 { return uint64(adler32.Checksum([]byte(s))) }},
	{"djb2", func(s string) uint64 {
		h := uint32(5381)
		for i := 0; i < len(s); i++ {
			h = h*33 + uint32(s[i])
		}
		return uint64(h)
	}},
	{"djb2-xor", func(s string) uint64 {
		h := uint32(5381)
		for i := 0; i < len(s); i++ {
			h = h*33 ^ uint32(s[i])
		}
		return uint64(h)
	}},
	{"sdbm", func(s string) uint64 {
		h := uint32(0)
		for i := 0; i < len(s); i++ {
			h = uint32(s[i]) + h<<6 + h<<16 - h
		}
		return uint64(h)
	}},
	{"java31", func(s string) uint64 {
		h := uint32(0)
		for i := 0; i < len(s); i++ {
			h = h*31 + uint32(s[i])
		}
		return uint64(h)
	}},
	{"jenkins-oaat", func(s string) uint64 {
		h := uint32(0)
		for i := 0; i < len(s); i++ {
			h += uint32(s[i])
			h += h << 10
			h ^= h >> 6
		}
		h += h << 3
		h ^= h >> 11
		h += h << 15
		return uint64(h)
	}},
	{"murmur3-32", func(s string) uint64 { return uint64(murmur3(s)) }},
	{"fnv1a-32-folded-16", func(s string) uint64 {
		h := fnv.New32a()
		h.Write([]byte(s))
		v := h.Sum32()
		return uint64(v>>16 ^ v&0xffff)
	}},
	{"packed-low-nibbles", func(s string) uint64 { // what 'key = key<<4 + (c - '0')' style packing computes (with carries)
		var k uint64
		for i := 0; i < len(s); i++ {
			k = k<<4 + uint64(uint32(s[i])-'0')
		}
		return k<<8 | uint64(len(s))
	}},
	{"packed-decimal", func(s string) uint64 { // 'key = key*10 + (c - '0')'
		var k uint64
		for i := 0; i < len(s); i++ {
			k = k*10 + uint64(uint32(s[i])-'0')
		}
		return k<<8 | uint64(len(s))
	}},
}

// Pairs returns up to perHash colliding pairs per hash among the candidates (distinct strings only).
func Pairs(cands []string, perHash int) []Pair {
	var out []Pair
	for _, h := range hashes {
		seen := make(map[uint64]string, len(cands))
		n := 0
		for _, c := range cands {
			k := h.f(c)
			if prev, ok := seen[k]; ok {
				if prev != c && n < perHash {
					out = append(out, Pair{h.name, prev, c})
					n++
				}
				continue
			}
			seen[k] = c
		}
	}
	sort.SliceStable(out, func(i, j int) bool { return out[i].Hash < out[j].Hash })
	return out
}
