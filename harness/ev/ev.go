// Package ev is the evidence recorder shared by every check: counters, class histograms,
// distinct-case hashes, samples, violations (with replay files) and known-finding hits.
// One process = one shard; the driver (cmd/verif) merges the shard files.
package ev

import (
	"encoding/binary"
	"encoding/json"
	"flag"
	"fmt"
	"hash/fnv"
	"os"
	"path/filepath"
	"runtime"
	"sort"
	"strconv"
	"sync"
	"testing"
	"time"

	"verif/harness/known"
)

type Violation struct {
	Check   string `json:"check"`
	Message string `json:"message"`
	Replay  string `json:"replay"`
}

type Out struct {
	Property     string            `json:"property"`
	Tier         string            `json:"tier"`
	Seed         int64             `json:"seed"`
	Shard        int               `json:"shard"`
	Shards       int               `json:"shards"`
	Evaluations  int64             `json:"evaluations"`
	Nontrivial   int64             `json:"nontrivial"`
	BulkDistinct int64             `json:"bulk_distinct"`
	HashFile     string            `json:"hash_file"`
	Classes      map[string]int64  `json:"classes"`
	Samples      []any             `json:"samples"`
	Violations   []Violation       `json:"violations"`
	Known        map[string]int64  `json:"known"`
	KnownWhat    map[string]string `json:"known_what"`
	Excluded     map[string]int64  `json:"excluded"`
	Notes        map[string]any    `json:"notes"`
	Rule         string            `json:"rule"`
	Assumptions  []string          `json:"assumptions"`
	Exhaustive   bool              `json:"exhaustive"`
	Inconclusive int64             `json:"inconclusive"`
	Harness      []string          `json:"harness_errors"`
	WallS        float64           `json:"wall_s"`
	Complete     bool              `json:"complete"`
}

var (
	mu         sync.Mutex
	out        = Out{Classes: map[string]int64{}, Known: map[string]int64{}, KnownWhat: map[string]string{}, Excluded: map[string]int64{}, Notes: map[string]any{}}
	hashes     = map[uint64]struct{}{}
	perClass   = map[string]int{}
	pending    = map[string]*pendingViolation{}
	pendingOrd []string
	started    = time.Now()
)

type pendingViolation struct {
	msg string
	c   any
}

const maxHashes = 6_000_000
const samplesPerClass = 2
const maxSamples = 24

// Environment -------------------------------------------------------------------------

func Tier() string {
	if t := os.Getenv("VERIF_TIER"); t == "thorough" {
		return "thorough"
	}
	return "quick"
}

func Thorough() bool { return Tier() == "thorough" }

// Pick returns q in the quick tier and t in the thorough tier.
func Pick(q, t int) int {
	if Thorough() {
		return t
	}
	return q
}

func Seed() int64 {
	s, _ := strconv.ParseInt(os.Getenv("VERIF_SEED"), 10, 64)
	if s == 0 {
		s = 20260927
	}
	return s
}

func Shard() int {
	s, _ := strconv.Atoi(os.Getenv("VERIF_SHARD"))
	return s
}

func Shards() int {
	s, _ := strconv.Atoi(os.Getenv("VERIF_SHARDS"))
	if s < 1 {
		s = 1
	}
	return s
}

// Mine reports whether enumeration index i belongs to this shard.
func Mine(i int) bool { return i%Shards() == Shard() }

func Root() string {
	if r := os.Getenv("VERIF_ROOT"); r != "" {
		return r
	}
	return "/verif"
}

// RapidSeed is the PRNG value given to rapid for the n-th rapid.Check call of this shard.
func RapidSeed(salt string) uint64 {
	h := fnv.New64a()
	fmt.Fprintf(h, "%d/%d/%s", Seed(), Shard(), salt)
	v := h.Sum64() & 0x7fffffffffffffff
	if v == 0 {
		v = 1
	}
	return v
}

// Rapid configures rapid's flags (rapid reads them on every Check call).
func Rapid(salt string, checks int) {
	flag.Set("rapid.checks", strconv.Itoa(checks))
	flag.Set("rapid.seed", strconv.FormatUint(RapidSeed(salt), 10))
	flag.Set("rapid.nofailfile", "true")
	flag.Set("rapid.shrinktime", "20s")
}

// Recording -----------------------------------------------------------------------------

func Describe(rule string, assumptions ...string) {
	mu.Lock()
	defer mu.Unlock()
	out.Rule = rule
	out.Assumptions = assumptions
}

func hash(key string) uint64 {
	h := fnv.New64a()
	h.Write([]byte(key))
	return h.Sum64()
}

// Case records one generated case. key identifies the case for distinctness (only used
// when nontrivial).
func Case(class string, nontrivial bool, key string) {
	mu.Lock()
	out.Evaluations++
	out.Classes[class]++
	if nontrivial {
		out.Nontrivial++
		if len(hashes) < maxHashes {
			hashes[hash(class+"\x00"+key)] = struct{}{}
		}
	}
	mu.Unlock()
}

// Bulk records n enumerated cases that are pairwise distinct by construction (sweeps), of
// which nt are non-trivial. They are not hashed.
func Bulk(class string, n, nt int64) {
	mu.Lock()
	out.Evaluations += n
	out.Classes[class] += n
	out.Nontrivial += nt
	out.BulkDistinct += nt
	mu.Unlock()
}

// Class bumps a histogram class without counting an evaluation.
func Class(class string, n int64) {
	mu.Lock()
	out.Classes[class] += n
	mu.Unlock()
}

// WantSample reports whether another sample of this class is still wanted (cheap guard so
// that callers only build the sample value when needed).
func WantSample(class string) bool {
	mu.Lock()
	defer mu.Unlock()
	return perClass[class] < samplesPerClass && len(out.Samples) < maxSamples
}

func Sample(class string, v any) {
	mu.Lock()
	defer mu.Unlock()
	if perClass[class] < samplesPerClass && len(out.Samples) < maxSamples {
		perClass[class]++
		out.Samples = append(out.Samples, map[string]any{"class": class, "case": v})
	}
}

func Note(k string, v any) {
	mu.Lock()
	out.Notes[k] = v
	mu.Unlock()
}

func NoteAdd(k string, n int64) {
	mu.Lock()
	if v, ok := out.Notes[k].(int64); ok {
		out.Notes[k] = v + n
	} else {
		out.Notes[k] = n
	}
	mu.Unlock()
}

func Exhaustive(b bool) {
	mu.Lock()
	out.Exhaustive = b
	mu.Unlock()
}

func Inconclusive(n int64) {
	mu.Lock()
	out.Inconclusive += n
	mu.Unlock()
}

func Excluded(what string, n int64) {
	mu.Lock()
	out.Excluded[what] += n
	mu.Unlock()
}

// HarnessError records trouble that is the harness's own (exit 2), never a violation.
func HarnessError(format string, args ...any) {
	mu.Lock()
	out.Harness = append(out.Harness, fmt.Sprintf(format, args...))
	mu.Unlock()
}

// Failure is called by a check that observed a failing case. fingerprint names the call
// site and failure class; when it matches an *open* entry of known_findings.json the case
// is counted as a known finding and Failure returns false (the check must go on without
// failing); otherwise the violation is recorded (last one per check wins, so that after
// shrinking the minimal case is what is kept) and Failure returns true.
func Failure(check, fingerprint, msg string, replayCase any) bool {
	if f := known.Open(out.Property, fingerprint); f != nil {
		mu.Lock()
		out.Known[f.ID]++
		out.KnownWhat[f.ID] = f.What
		mu.Unlock()
		return false
	}
	mu.Lock()
	if _, ok := pending[check]; !ok {
		pendingOrd = append(pendingOrd, check)
	}
	pending[check] = &pendingViolation{msg: "[" + fingerprint + "] " + msg, c: replayCase}
	mu.Unlock()
	return true
}

// ClearFailure drops the pending violation of a check (used by re-run logic that decides a
// failure was timing noise).
func ClearFailure(check string) {
	mu.Lock()
	delete(pending, check)
	mu.Unlock()
}

func HasFailure(check string) bool {
	mu.Lock()
	defer mu.Unlock()
	_, ok := pending[check]
	return ok
}

// Replay support --------------------------------------------------------------------------

type ReplayFile struct {
	Property string          `json:"property"`
	Check    string          `json:"check"`
	Message  string          `json:"message"`
	Seed     int64           `json:"seed"`
	Tier     string          `json:"tier"`
	Arch     string          `json:"arch,omitempty"`      // GOARCH of the process that found it (the driver replays 386 findings with the 32-bit build)
	BuildTag string          `json:"build_tag,omitempty"` // the library's own build tag the finding process was built with, if any
	Case     json.RawMessage `json:"case"`
}

// LoadReplay returns the replay file named by VERIF_REPLAY (nil when not replaying).
func LoadReplay() *ReplayFile {
	p := os.Getenv("VERIF_REPLAY")
	if p == "" {
		return nil
	}
	b, err := os.ReadFile(p)
	if err != nil {
		fmt.Printf("HARNESS: cannot read replay file: %v\n", err)
		os.Exit(2)
	}
	var r ReplayFile
	if err := json.Unmarshal(b, &r); err != nil {
		fmt.Printf("HARNESS: cannot parse replay file: %v\n", err)
		os.Exit(2)
	}
	return &r
}

func Replaying() bool { return os.Getenv("VERIF_REPLAY") != "" }

func writeReplays() {
	for _, check := range pendingOrd {
		p, ok := pending[check]
		if !ok {
			continue
		}
		raw, err := json.Marshal(p.c)
		if err != nil {
			raw, _ = json.Marshal(fmt.Sprintf("%#v", p.c))
		}
		rf := ReplayFile{Property: out.Property, Check: check, Message: p.msg, Seed: Seed(), Tier: Tier(), Arch: runtime.GOARCH, BuildTag: os.Getenv("VERIF_BUILD_TAG"), Case: raw}
		b, _ := json.MarshalIndent(rf, "", " ")
		dir := filepath.Join(Root(), "replays", out.Property)
		os.MkdirAll(dir, 0o755)
		name := fmt.Sprintf("%s-%016x.json", check, hash(string(raw)))
		path := filepath.Join(dir, name)
		if Replaying() {
			path = os.Getenv("VERIF_REPLAY")
		} else if err := os.WriteFile(path, b, 0o644); err != nil {
			out.Harness = append(out.Harness, "cannot write replay file: "+err.Error())
		}
		out.Violations = append(out.Violations, Violation{Check: check, Message: p.msg, Replay: path})
	}
}

// realStdout is the process's standard output as it was at start-up; MuteLibraryStdout points os.Stdout at /dev/null
// so that clients built with debug=true (the library prints hex dumps with fmt.Printf) do not flood the shard log.
var realStdout = os.Stdout
var muteOnce sync.Once

// MuteLibraryStdout must be called before any goroutine that may print is started (it is called at the top of every
// test through rp.RunAll / hook.Mem / hook.Real); the testing package has captured the real stdout by then.
func MuteLibraryStdout() {
	muteOnce.Do(func() {
		if f, err := os.OpenFile(os.DevNull, os.O_WRONLY, 0); err == nil {
			os.Stdout = f
		}
	})
}

// EnvHook, when set by a package that knows which environment variables the library reads (harness/gen), runs before the
// tests: it sets those variables, differently per shard - nothing the listed properties promise depends on the environment.
var EnvHook func()

// Main is the TestMain body of every check package.
func Main(m *testing.M, property string) {
	out.Property = property
	out.Tier = Tier()
	out.Seed = Seed()
	out.Shard = Shard()
	out.Shards = Shards()
	if err := known.Load(filepath.Join(Root(), "known_findings.json")); err != nil {
		fmt.Printf("HARNESS: %v\n", err)
		os.Exit(2)
	}
	flag.Parse()
	if EnvHook != nil {
		EnvHook()
	}
	finish(m.Run())
}

// Fatal records a violation like Failure and then ends the process at once (replay file and evidence are written, exit code 1):
// for failures that leave the process unusable - a deadlock on process-wide locks of the library, say - where neither shrinking
// nor any later case could run. Returns normally only when the fingerprint is an open known finding.
func Fatal(check, fingerprint, msg string, replayCase any) {
	if Failure(check, fingerprint, msg, replayCase) {
		fmt.Fprintf(realStdout, "--- FAIL: %s: %s (process ended at once: it cannot go on after this failure)\n", check, msg)
		finish(1)
	}
}

func finish(code int) {
	mu.Lock()
	writeReplays()
	out.WallS = time.Since(started).Seconds()
	out.Complete = true
	if path := os.Getenv("VERIF_OUT"); path != "" {
		hs := make([]uint64, 0, len(hashes))
		for h := range hashes {
			hs = append(hs, h)
		}
		sort.Slice(hs, func(i, j int) bool { return hs[i] < hs[j] })
		buf := make([]byte, 8*len(hs))
		for i, h := range hs {
			binary.LittleEndian.PutUint64(buf[8*i:], h)
		}
		out.HashFile = path + ".hashes"
		os.WriteFile(out.HashFile, buf, 0o644)
		b, _ := json.MarshalIndent(out, "", " ")
		os.WriteFile(path, b, 0o644)
	}
	for _, v := range out.Violations {
		fmt.Fprintf(realStdout, "CHECK-VIOLATION check=%s replay=%s :: %s\n", v.Check, v.Replay, v.Message)
	}
	mu.Unlock()
	os.Exit(code)
}
