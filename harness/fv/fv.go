// Package fv: primitive, JSON-serialisable field values for the field types the codec supports,
// with a reflection-driven filler, a canonical (observable-equality) rendering, a rapid
// generator per field type and an independent reference encoding of each kind.
package fv

import (
	"fmt"
	"net"
	"net/netip"
	"reflect"
	"time"

	"github.com/uhppoted/uhppote-core/types"
	"pgregory.net/rapid"

	"verif/harness/api"
	"verif/harness/gen"
	"verif/harness/spec"
	"verif/harness/zones"
)

// FV is a primitive field value; the filler uses the parts relevant for the field type.
type FV struct {
	U    uint64 `json:"u,omitempty"`
	Y    int    `json:"y,omitempty"`
	M    int    `json:"m,omitempty"`
	D    int    `json:"d,omitempty"`
	H    int    `json:"h,omitempty"`
	Mi   int    `json:"mi,omitempty"`
	S    int    `json:"s,omitempty"`
	Zero bool   `json:"zero,omitempty"`
	Nil  bool   `json:"nil,omitempty"`
	Gap  bool   `json:"gap,omitempty"` // date whose local midnight does not exist in the zone
}

var (
	TDate        = reflect.TypeOf(types.Date{})
	TDateTime    = reflect.TypeOf(types.DateTime{})
	TSysDate     = reflect.TypeOf(types.SystemDate{})
	TSysTime     = reflect.TypeOf(types.SystemTime{})
	THHmm        = reflect.TypeOf(types.HHmm{})
	THHmmPtr     = reflect.TypeOf(&types.HHmm{})
	TDatePtr     = reflect.TypeOf(&types.Date{})
	TDateTimePtr = reflect.TypeOf(&types.DateTime{})
	TPIN         = reflect.TypeOf(types.PIN(0))
	TIP          = reflect.TypeOf(net.IP{})
	TAddrPort    = reflect.TypeOf(netip.AddrPort{})
	TMAC         = reflect.TypeOf(types.MacAddress{})
	TRawMAC      = reflect.TypeOf(net.HardwareAddr{})
	TVersion     = reflect.TypeOf(types.Version(0))
	TSerial      = reflect.TypeOf(types.SerialNumber(0))
	TMsgType     = reflect.TypeOf(types.MsgType(0))
	TSOM         = reflect.TypeOf(types.SOM(0))
	TU8          = reflect.TypeOf(uint8(0))
	TU16         = reflect.TypeOf(uint16(0))
	TU32         = reflect.TypeOf(uint32(0))
	TBool        = reflect.TypeOf(false)
)

// Gen draws an in-domain value for a field of type typ with zone as the process-local zone.
func Gen(t *rapid.T, typ reflect.Type, zone string) FV {
	loc := zones.Loc(zone)
	switch typ {
	case TDate, TDatePtr:
		if typ == TDatePtr && rapid.IntRange(0, 5).Draw(t, "ptr.nil") == 0 {
			return FV{Nil: true}
		}
		if rapid.IntRange(0, 7).Draw(t, "date.zero") == 0 {
			return FV{Zero: true}
		}
		if gaps := zones.MidnightGaps(zone, 1950, 2050); len(gaps) > 0 && rapid.IntRange(0, 3).Draw(t, "date.gapday") == 0 {
			g := gaps[rapid.IntRange(0, len(gaps)-1).Draw(t, "date.gap")]
			if zones.DayExists(loc, g.Y, g.M, g.D) {
				return FV{Y: g.Y, M: g.M, D: g.D, Gap: true}
			}
		}
		for i := 0; ; i++ {
			c := gen.Civil(t, "date")
			if zones.DayExists(loc, c.Y, c.M, c.D) || i > 3 {
				if i > 3 {
					c = spec.Civil{Y: 2024, M: 6, D: 15}
				}
				return FV{Y: c.Y, M: c.M, D: c.D}
			}
		}
	case TDateTime, TDateTimePtr:
		if typ == TDateTimePtr && rapid.IntRange(0, 5).Draw(t, "ptr.nil") == 0 {
			return FV{Nil: true}
		}
		if rapid.IntRange(0, 7).Draw(t, "datetime.zero") == 0 {
			return FV{Zero: true}
		}
		if rapid.IntRange(0, 5).Draw(t, "datetime.boundary") == 0 {
			// the first and last seconds of the usual epochs and eras (clock-reset values, 32-bit limits, century turns)
			b := rapid.SampledFrom([][6]int{{2000, 1, 1, 0, 0, 0}, {2000, 1, 1, 0, 0, 1}, {1999, 12, 31, 23, 59, 59}, {1970, 1, 1, 0, 0, 0}, {1969, 12, 31, 23, 59, 59}, {2038, 1, 19, 3, 14, 7},
				{2038, 1, 19, 3, 14, 8}, {2099, 12, 31, 23, 59, 59}, {2100, 1, 1, 0, 0, 0}, {1, 1, 1, 0, 0, 1}, {1, 1, 2, 0, 0, 0}, {9999, 12, 31, 23, 59, 59}, {1900, 1, 1, 0, 0, 0}, {1601, 1, 1, 0, 0, 0},
				{1980, 1, 1, 0, 0, 0}, {2001, 1, 1, 0, 0, 0}, {2000, 2, 29, 0, 0, 0}, {2020, 1, 1, 0, 0, 0}, {2106, 2, 7, 6, 28, 15}, {2000, 1, 1, 12, 0, 0}, {2000, 1, 2, 0, 0, 0}}).Draw(t, "datetime.edge")
			if zones.CivilExists(loc, b[0], b[1], b[2], b[3], b[4], b[5]) {
				return FV{Y: b[0], M: b[1], D: b[2], H: b[3], Mi: b[4], S: b[5]}
			}
		}
		for i := 0; ; i++ {
			c := gen.Civil(t, "datetime")
			v := FV{Y: c.Y, M: c.M, D: c.D, H: rapid.IntRange(0, 23).Draw(t, "h"), Mi: rapid.IntRange(0, 59).Draw(t, "mi"), S: rapid.IntRange(0, 59).Draw(t, "s")}
			switch rapid.IntRange(0, 9).Draw(t, "clock.edge") {
			case 0:
				v.H, v.Mi, v.S = 0, 0, 0
			case 1:
				v.H, v.Mi, v.S = 23, 59, 59
			}
			if zones.CivilExists(loc, v.Y, v.M, v.D, v.H, v.Mi, v.S) {
				return v
			}
			if i > 3 {
				return FV{Y: 2024, M: 6, D: 15, H: 12, Mi: 30, S: 45}
			}
		}
	case TSysDate:
		// (the zero SystemDate is not in the judged domain: the statement names the zero date and date-time only)
		y := rapid.IntRange(2000, 2068).Draw(t, "y")
		m := rapid.IntRange(1, 12).Draw(t, "m")
		d := rapid.IntRange(1, spec.DaysIn(y, m)).Draw(t, "d")
		if !zones.DayExists(loc, y, m, d) {
			d = 15
		}
		return FV{Y: y, M: m, D: d}
	case TSysTime:
		return FV{H: rapid.IntRange(0, 23).Draw(t, "h"), Mi: rapid.IntRange(0, 59).Draw(t, "mi"), S: rapid.IntRange(0, 59).Draw(t, "s")}
	case THHmm:
		h := gen.HM(t, "hhmm")
		return FV{H: h.H, Mi: h.M}
	case THHmmPtr:
		if rapid.IntRange(0, 5).Draw(t, "ptr.nil") == 0 {
			return FV{Nil: true}
		}
		h := gen.HM(t, "hhmm")
		return FV{H: h.H, Mi: h.M}
	case TPIN:
		return FV{U: uint64(rapid.IntRange(0, 999999).Draw(t, "pin"))}
	case TIP:
		ip := gen.IPv4(t, "ip")
		return FV{U: uint64(spec.LE32(ip[:]))}
	case TAddrPort:
		ip := gen.IPv4(t, "ip")
		return FV{U: uint64(spec.LE32(ip[:])) | uint64(rapid.IntRange(0, 65535).Draw(t, "port"))<<32}
	case TMAC, TRawMAC:
		return FV{U: rapid.Uint64Range(0, 1<<48-1).Draw(t, "mac")}
	}
	switch typ.Kind() {
	case reflect.Bool:
		return FV{U: uint64(rapid.IntRange(0, 1).Draw(t, "bool"))}
	case reflect.Uint8:
		return FV{U: uint64(gen.U8(t, "u8"))}
	case reflect.Uint16:
		return FV{U: uint64(rapid.IntRange(0, 65535).Draw(t, "u16"))}
	case reflect.Uint32:
		return FV{U: uint64(gen.U32(t, "u32"))}
	}
	panic(fmt.Sprintf("HARNESS: no generator for field type %v", typ))
}

func le4(u uint64) []byte { return []byte{byte(u), byte(u >> 8), byte(u >> 16), byte(u >> 24)} }
func mac6(u uint64) []byte {
	return []byte{byte(u), byte(u >> 8), byte(u >> 16), byte(u >> 24), byte(u >> 32), byte(u >> 40)}
}

// Fill sets the reflect value f (settable) from v using the library's public constructors.
func Fill(f reflect.Value, v FV) {
	switch f.Type() {
	case TDate:
		if !v.Zero {
			f.Set(reflect.ValueOf(types.ToDate(v.Y, time.Month(v.M), v.D)))
		}
		return
	case TDatePtr:
		if !v.Nil {
			d := types.Date{}
			if !v.Zero {
				d = types.ToDate(v.Y, time.Month(v.M), v.D)
			}
			f.Set(reflect.ValueOf(&d))
		}
		return
	case TDateTime:
		if !v.Zero {
			f.Set(reflect.ValueOf(types.DateTime(time.Date(v.Y, time.Month(v.M), v.D, v.H, v.Mi, v.S, 0, time.Local))))
		}
		return
	case TDateTimePtr:
		if !v.Nil {
			d := types.DateTime{}
			if !v.Zero {
				d = types.DateTime(time.Date(v.Y, time.Month(v.M), v.D, v.H, v.Mi, v.S, 0, time.Local))
			}
			f.Set(reflect.ValueOf(&d))
		}
		return
	case TSysDate:
		if !v.Zero {
			// noon: the system date type has no public constructor; any instant of the day carries the civil date
			f.Set(reflect.ValueOf(types.SystemDate(time.Date(v.Y, time.Month(v.M), v.D, 12, 0, 0, 0, time.Local))))
		}
		return
	case TSysTime:
		f.Set(reflect.ValueOf(types.SystemTime(time.Date(2000, 1, 1, v.H, v.Mi, v.S, 0, time.UTC))))
		return
	case THHmm:
		f.Set(reflect.ValueOf(types.NewHHmm(v.H, v.Mi)))
		return
	case THHmmPtr:
		if !v.Nil {
			h := types.NewHHmm(v.H, v.Mi)
			f.Set(reflect.ValueOf(&h))
		}
		return
	case TIP:
		f.Set(reflect.ValueOf(net.IP(le4(v.U))))
		return
	case TAddrPort:
		b := le4(v.U)
		f.Set(reflect.ValueOf(netip.AddrPortFrom(netip.AddrFrom4([4]byte{b[0], b[1], b[2], b[3]}), uint16(v.U>>32))))
		return
	case TMAC:
		f.Set(reflect.ValueOf(types.MacAddress(mac6(v.U))))
		return
	case TRawMAC:
		f.Set(reflect.ValueOf(net.HardwareAddr(mac6(v.U))))
		return
	}
	switch f.Kind() {
	case reflect.Bool:
		f.SetBool(v.U == 1)
	case reflect.Uint8, reflect.Uint16, reflect.Uint32:
		f.SetUint(v.U)
	default:
		panic(fmt.Sprintf("HARNESS: cannot fill field type %v", f.Type()))
	}
}

// Want is the canonical text the field must have after construction / decoding, computed from
// the primitives alone.
func Want(typ reflect.Type, v FV) string {
	switch typ {
	case TDate, TDatePtr:
		if v.Zero || v.Nil {
			return "date:"
		}
		return fmt.Sprintf("date:%04d-%02d-%02d", v.Y, v.M, v.D)
	case TDateTime, TDateTimePtr:
		if v.Zero || v.Nil {
			return "datetime:"
		}
		return fmt.Sprintf("datetime:%04d-%02d-%02d %02d:%02d:%02d", v.Y, v.M, v.D, v.H, v.Mi, v.S)
	case TSysDate:
		if v.Zero {
			return "sysdate:"
		}
		return fmt.Sprintf("sysdate:%04d-%02d-%02d", v.Y, v.M, v.D)
	case TSysTime:
		return fmt.Sprintf("systime:%02d:%02d:%02d", v.H, v.Mi, v.S)
	case THHmm, THHmmPtr:
		if v.Nil {
			return "hhmm:00:00"
		}
		return fmt.Sprintf("hhmm:%02d:%02d", v.H, v.Mi)
	case TIP:
		b := le4(v.U)
		return fmt.Sprintf("ip:%d.%d.%d.%d", b[0], b[1], b[2], b[3])
	case TAddrPort:
		b := le4(v.U)
		return fmt.Sprintf("addrport:%d.%d.%d.%d:%d", b[0], b[1], b[2], b[3], uint16(v.U>>32))
	case TMAC, TRawMAC:
		b := mac6(v.U)
		return fmt.Sprintf("mac:%02x:%02x:%02x:%02x:%02x:%02x", b[0], b[1], b[2], b[3], b[4], b[5])
	}
	switch typ.Kind() {
	case reflect.Bool:
		return fmt.Sprintf("bool:%v", v.U == 1)
	}
	return fmt.Sprintf("uint:%d", v.U)
}

// Canon renders a field value under the observable (civil-field) equality.
func Canon(f reflect.Value) string {
	switch v := f.Interface().(type) {
	case types.Date:
		return "date:" + api.DateText(v)
	case *types.Date:
		if v == nil {
			return "date:"
		}
		return "date:" + api.DateText(*v)
	case types.DateTime:
		return "datetime:" + api.DateTimeText(v)
	case *types.DateTime:
		if v == nil {
			return "datetime:"
		}
		return "datetime:" + api.DateTimeText(*v)
	case types.SystemDate:
		if v.IsZero() {
			return "sysdate:"
		}
		y, m, d := time.Time(v).Date()
		return fmt.Sprintf("sysdate:%04d-%02d-%02d", y, int(m), d)
	case types.SystemTime:
		h, mi, s := time.Time(v).Clock()
		return fmt.Sprintf("systime:%02d:%02d:%02d", h, mi, s)
	case types.HHmm:
		return "hhmm:" + v.String()
	case *types.HHmm:
		if v == nil {
			return "hhmm:00:00"
		}
		return "hhmm:" + v.String()
	case net.IP:
		return "ip:" + api.IPText(v)
	case netip.AddrPort:
		return "addrport:" + api.AddrPortText(v)
	case types.MacAddress:
		return "mac:" + api.MACText(v)
	case net.HardwareAddr:
		return "mac:" + api.MACText(types.MacAddress(v))
	case bool:
		return fmt.Sprintf("bool:%v", v)
	}
	switch f.Kind() {
	case reflect.Uint8, reflect.Uint16, reflect.Uint32:
		return fmt.Sprintf("uint:%d", f.Uint())
	}
	return fmt.Sprintf("%v:%v", f.Type().Name(), f.Interface())
}

// Ref is the independent reference encoding of the field (nil pointer / zero date = zero bytes).
func Ref(typ reflect.Type, v FV) []byte {
	switch typ {
	case TDate, TDatePtr:
		b := make([]byte, 4)
		if !v.Zero && !v.Nil {
			spec.PutDate(b, spec.Civil{Y: v.Y, M: v.M, D: v.D})
		}
		return b
	case TDateTime, TDateTimePtr:
		b := make([]byte, 7)
		if v.Nil {
			return b
		}
		if v.Zero {
			return []byte{0x00, 0x01, 0x01, 0x01, 0, 0, 0} // the zero date-time is transmitted as 0001-01-01 00:00:00
		}
		spec.PutDateTime(b, spec.CivilDT{Y: v.Y, M: v.M, D: v.D, H: v.H, Mi: v.Mi, S: v.S})
		return b
	case TSysDate:
		return []byte{byte(((v.Y%100)/10)<<4 | v.Y%10), byte((v.M/10)<<4 | v.M%10), byte((v.D/10)<<4 | v.D%10)}
	case TSysTime:
		return []byte{byte((v.H/10)<<4 | v.H%10), byte((v.Mi/10)<<4 | v.Mi%10), byte((v.S/10)<<4 | v.S%10)}
	case THHmm, THHmmPtr:
		b := make([]byte, 2)
		if !v.Nil {
			spec.PutHM(b, spec.HM{H: v.H, M: v.Mi})
		}
		return b
	case TPIN:
		return []byte{byte(v.U), byte(v.U >> 8), byte(v.U >> 16)}
	case TIP:
		return le4(v.U)
	case TAddrPort:
		return append(le4(v.U), byte(v.U>>32), byte(v.U>>40))
	case TMAC, TRawMAC:
		return mac6(v.U)
	case TVersion:
		return []byte{byte(v.U >> 8), byte(v.U)}
	}
	switch typ.Kind() {
	case reflect.Bool, reflect.Uint8:
		return []byte{byte(v.U)}
	case reflect.Uint16:
		return []byte{byte(v.U), byte(v.U >> 8)}
	case reflect.Uint32:
		return le4(v.U)
	}
	panic(fmt.Sprintf("HARNESS: no reference encoding for %v", typ))
}

// Leaves lists the settable leaf fields of a message struct (embedded structs are flattened;
// MsgType and SOM header fields are skipped).
func Leaves(v reflect.Value) []reflect.Value {
	var out []reflect.Value
	for i := 0; i < v.NumField(); i++ {
		f, t := v.Field(i), v.Type().Field(i)
		if t.Anonymous && f.Kind() == reflect.Struct {
			out = append(out, Leaves(f)...)
			continue
		}
		if t.Type == TMsgType || t.Type == TSOM {
			continue
		}
		if t.Tag.Get("uhppote") == "" {
			continue // a field without a codec tag is not part of the message
		}
		out = append(out, f)
	}
	return out
}

func CanonAll(v reflect.Value) []string {
	var out []string
	for _, f := range Leaves(v) {
		out = append(out, Canon(f))
	}
	return out
}

func FirstDiff(a, b []string) string {
	for i := range a {
		if i >= len(b) || a[i] != b[i] {
			other := "<missing>"
			if i < len(b) {
				other = b[i]
			}
			return fmt.Sprintf("leaf %d: %s vs %s", i, a[i], other)
		}
	}
	if len(a) != len(b) {
		return "different number of leaves"
	}
	return ""
}

// AppendAll appends a few bytes to every slice-valued leaf of a decoded message (and to the 4-byte form of every IP address),
// discarding the results - what a caller does who builds something out of a decoded address (`append(reply.Address.To4(),
// port...)`). It only ever writes into spare capacity, which a value the caller owns may have but must not share with a
// neighbour. Returns how many appends were made.
func AppendAll(v reflect.Value) int {
	n := 0
	junk := []byte{0xee, 0xed, 0xec, 0xeb, 0xea, 0xe9, 0xe8, 0xe7, 0xe6, 0xe5, 0xe4, 0xe3, 0xe2, 0xe1, 0xe0, 0xdf}
	for _, f := range Leaves(v) {
		if f.Kind() != reflect.Slice || f.Type().Elem().Kind() != reflect.Uint8 || f.IsNil() {
			continue
		}
		b := f.Bytes()
		_ = append(b, junk...)
		n++
		if ip, ok := f.Interface().(net.IP); ok {
			if v4 := ip.To4(); v4 != nil {
				_ = append(v4, junk[:6]...)
				n++
			}
		}
	}
	return n
}
