// Package guard places byte slices (and strings) flush against unreadable memory: the value ends exactly at the end of a
// readable page that is followed by a PROT_NONE page (AtEnd), or starts exactly at the beginning of a readable page that is
// preceded by one (AtStart). Code that reads even one byte beyond the value it was given - word-at-a-time loops, look-ahead
// parsers - faults there, while it would silently succeed on ordinary heap memory. With debug.SetPanicOnFault the fault is a
// run-time panic that the checks recover and report like any other panic in library code.
//
// The mappings are small (three pages each) and recycled through a fixed pool, so a check can place millions of values.
package guard

import (
	"runtime/debug"
	"sync"
	"syscall"
	"unsafe"
)

var page = syscall.Getpagesize()

type region struct {
	mem []byte // [guard page][data page][guard page]
}

var (
	mu    sync.Mutex
	pool  []*region
	next  int
	limit = 64
	ok    = true
)

func get() *region {
	mu.Lock()
	defer mu.Unlock()
	if !ok {
		return nil
	}
	if len(pool) < limit {
		mem, err := syscall.Mmap(-1, 0, 3*page, syscall.PROT_READ|syscall.PROT_WRITE, syscall.MAP_ANON|syscall.MAP_PRIVATE)
		if err != nil {
			ok = false
			return nil
		}
		if syscall.Mprotect(mem[:page], syscall.PROT_NONE) != nil || syscall.Mprotect(mem[2*page:], syscall.PROT_NONE) != nil {
			ok = false
			return nil
		}
		r := &region{mem: mem}
		pool = append(pool, r)
		return r
	}
	r := pool[next%len(pool)]
	next++
	return r
}

var free []*region // regions handed out by Place and given back by their release function

// Place is AtEnd / AtStart for concurrent use: the returned slice stays untouched until release is called.
func Place(b []byte, atEnd bool) (placed []byte, release func()) {
	if len(b) == 0 || len(b) > page {
		return append([]byte(nil), b...), func() {}
	}
	mu.Lock()
	var r *region
	if n := len(free); n > 0 {
		r, free = free[n-1], free[:n-1]
	}
	usable := ok
	mu.Unlock()
	if r == nil && usable {
		mem, err := syscall.Mmap(-1, 0, 3*page, syscall.PROT_READ|syscall.PROT_WRITE, syscall.MAP_ANON|syscall.MAP_PRIVATE)
		if err == nil && syscall.Mprotect(mem[:page], syscall.PROT_NONE) == nil && syscall.Mprotect(mem[2*page:], syscall.PROT_NONE) == nil {
			r = &region{mem: mem}
		}
	}
	if r == nil {
		return append([]byte(nil), b...), func() {}
	}
	if atEnd {
		placed = r.mem[2*page-len(b) : 2*page : 2*page]
	} else {
		placed = r.mem[page : page+len(b) : page+len(b)]
	}
	copy(placed, b)
	return placed, func() {
		mu.Lock()
		free = append(free, r)
		mu.Unlock()
	}
}

// Available reports whether guarded placement works on this system.
func Available() bool { return get() != nil }

// AtEnd returns a copy of b (len == cap == len(b)) whose last byte is the last byte of a readable page; the next page is
// unreadable. Values longer than a page are returned as an ordinary copy. The memory is recycled after 64 further
// placements: use the result at once.
func AtEnd(b []byte) []byte {
	r := get()
	if r == nil || len(b) > page || len(b) == 0 {
		return append([]byte(nil), b...)
	}
	dst := r.mem[2*page-len(b) : 2*page : 2*page]
	copy(dst, b)
	return dst
}

// AtStart returns a copy of b whose first byte is the first byte of a readable page; the page before it is unreadable.
func AtStart(b []byte) []byte {
	r := get()
	if r == nil || len(b) > page || len(b) == 0 {
		return append([]byte(nil), b...)
	}
	dst := r.mem[page : page+len(b) : page+len(b)]
	copy(dst, b)
	return dst
}

// StringAtEnd returns a string with the bytes of s that ends at the end of a readable page.
func StringAtEnd(s string) string {
	if len(s) == 0 {
		return s
	}
	b := AtEnd([]byte(s))
	return unsafe.String(&b[0], len(b))
}

// Do runs f with faults turned into panics and returns what it panicked with (nil if it did not).
func Do(f func()) (p any) {
	old := debug.SetPanicOnFault(true)
	defer debug.SetPanicOnFault(old)
	defer func() { p = recover() }()
	f()
	return nil
}
