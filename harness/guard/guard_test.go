package guard

import (
	"testing"
	"unsafe"
)

var sink byte

func TestGuard(t *testing.T) {
	if !Available() {
		t.Skip("no mmap")
	}
	b := AtEnd([]byte{1, 2, 3})
	if p := Do(func() { sink = b[0] + b[2] }); p != nil {
		t.Fatalf("reading the value faulted: %v", p)
	}
	if p := Do(func() { sink = *(*byte)(unsafe.Add(unsafe.Pointer(&b[2]), 1)) }); p == nil {
		t.Fatalf("reading one byte past the value did not fault")
	}
	c := AtStart([]byte{1, 2, 3})
	if p := Do(func() { sink = *(*byte)(unsafe.Add(unsafe.Pointer(&c[0]), -1)) }); p == nil {
		t.Fatalf("reading one byte before the value did not fault")
	}
	s := StringAtEnd("hello")
	if s != "hello" {
		t.Fatalf("string %q", s)
	}
	for i := 0; i < 1000; i++ {
		AtEnd(make([]byte, 1+i%200))
	}
}
