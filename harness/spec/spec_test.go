package spec

import (
	"bytes"
	"encoding/hex"
	"strings"
	"testing"
)

// Self-test of the protocol model against message vectors from the UHPPOTE SDK documentation (the same vectors the
// library's own tests use, copied here as hex so that the model does not depend on the library). A transcription error
// in the tables shows up here - as a harness error - and not as a "violation" of the library.

func unhex(s string) []byte {
	b, err := hex.DecodeString(strings.Join(strings.Fields(s), ""))
	if err != nil {
		panic(err)
	}
	return b
}

func TestRequestVectors(t *testing.T) {
	zeros := strings.Repeat("00", 64)
	pad := func(s string) []byte {
		h := strings.Join(strings.Fields(s), "")
		return unhex(h + zeros[len(h):])
	}
	vectors := []struct {
		call Call
		want []byte
	}{
		{Call{Op: "PutCard", Serial: 423187757, Card: 6154412, From: Civil{2019, 1, 2}, To: Civil{2019, 12, 31}, Doors: [4]uint8{1, 0, 29, 1}},
			pad("17500000 2d553919 ace85d00 20190102 20191231 01001d01")},
		{Call{Op: "PutCard", Serial: 423187757, Card: 6154412, From: Civil{2019, 1, 2}, To: Civil{2019, 12, 31}, Doors: [4]uint8{1, 0, 29, 1}, PIN: 975319},
			pad("17500000 2d553919 ace85d00 20190102 20191231 01001d01 d7e10e")},
		{Call{Op: "GetTimeProfile", Serial: 423187757, Profile: 4}, pad("17980000 2d553919 04")},
		{Call{Op: "GetStatus", Serial: 423187757}, pad("17200000 2d553919")},
		{Call{Op: "GetDevices"}, pad("17940000")},
		{Call{Op: "DeleteCards", Serial: 423187757}, pad("17540000 2d553919 55aaaa55")},
		{Call{Op: "SetAddress", Serial: 423187757, Address: [4]byte{192, 168, 1, 125}, Mask: [4]byte{255, 255, 255, 0}, Gateway: [4]byte{192, 168, 1, 1}},
			pad("17960000 2d553919 c0a8017d ffffff00 c0a80101 55aaaa55")},
		{Call{Op: "SetTime", Serial: 423187757, DateTime: CivilDT{2019, 4, 19, 12, 34, 56}}, pad("17300000 2d553919 20190419123456")},
		{Call{Op: "SetListener", Serial: 423187757, Listener: [4]byte{192, 168, 1, 100}, Port: 40000, Interval: 17}, pad("17900000 2d553919 c0a80164 409c 11")},
		{Call{Op: "SetEventIndex", Serial: 423187757, Index: 17}, pad("17b20000 2d553919 11000000 55aaaa55")},
		{Call{Op: "SetPCControl", Serial: 423187757, Enable: true}, pad("17a00000 2d553919 55aaaa55 01")},
		{Call{Op: "SetDoorPasscodes", Serial: 423187757, Door: 3, Passcodes: [4]uint32{12345, 999999, 0, 54321}},
			pad("178c0000 2d553919 03000000 39300000 3f420f00 00000000 31d40000")},
		{Call{Op: "AddTask", Serial: 423187757, From: Civil{2021, 4, 1}, To: Civil{2021, 12, 29}, Weekdays: [7]bool{true, false, true, false, true, false, false}, Start: HM{8, 30}, Door: 3, Task: 4, Cards: 13},
			pad("17a80000 2d553919 20210401 20211229 01000100010000 0830 03 04 0d")},
		{Call{Op: "SetTimeProfile", Serial: 423187757, Profile: 4, Linked: 19, From: Civil{2021, 4, 1}, To: Civil{2021, 12, 29}, Weekdays: [7]bool{true, true, false, true, false, true, true},
			Segments: [6]HM{{8, 30}, {9, 45}, {11, 35}, {13, 15}, {14, 1}, {17, 59}}},
			pad("17880000 2d553919 04 20210401 20211229 01010001000101 0830 0945 1135 1315 1401 1759 13")},
	}
	for _, v := range vectors {
		if got := Request(v.call); !bytes.Equal(got, v.want) {
			t.Errorf("%s:\n got  %x\n want %x", v.call.Op, got, v.want)
		}
	}
}

func TestReplyVectors(t *testing.T) {
	status := unhex(`17200000 2d553919 39000000 01000301 aae85d00 20190419170009 06 01000101 00000101 09 143702 11000000 21000000 2b 04 01 190420 0000932604880892 0000`)
	if len(status) != 64 {
		t.Fatalf("vector length %d", len(status))
	}
	out := Decode(Call{Op: "GetStatus", Serial: 423187757}, Config{}, status)
	want := Rec{"serial": "423187757", "event.index": "57", "event.type": "1", "event.granted": "false", "event.door": "3", "event.direction": "1", "event.card": "6154410",
		"event.timestamp": "2019-04-19 17:00:09", "event.reason": "6", "door1.state": "true", "door2.state": "false", "door3.state": "true", "door4.state": "true",
		"door1.button": "false", "door2.button": "false", "door3.button": "true", "door4.button": "true", "system.error": "9", "system.datetime": "2019-04-20 14:37:02",
		"sequence": "17", "special": "43", "relays": "4", "inputs": "1"}
	if out.MayFail || out.MustFail || out.Nil {
		t.Errorf("status vector: unexpected outcome %+v", out)
	}
	for k, v := range want {
		if out.Rec[k] != v {
			t.Errorf("status vector: %s = %q, want %q", k, out.Rec[k], v)
		}
	}
	profile := unhex(`17980000 2d553919 04 20210401 20211229 01010001000101 0830 0945 1135 1315 1401 1759 13` + strings.Repeat("00", 27))
	out = Decode(Call{Op: "GetTimeProfile", Serial: 423187757, Profile: 4}, Config{}, profile)
	wantP := Rec{"profile": "4", "linked": "19", "from": "2021-04-01", "to": "2021-12-29", "monday": "true", "tuesday": "true", "wednesday": "false", "thursday": "true", "friday": "false",
		"saturday": "true", "sunday": "true", "segment1.start": "08:30", "segment1.end": "09:45", "segment2.start": "11:35", "segment2.end": "13:15", "segment3.start": "14:01", "segment3.end": "17:59"}
	for k, v := range wantP {
		if out.Rec[k] != v {
			t.Errorf("profile vector: %s = %q, want %q", k, out.Rec[k], v)
		}
	}
	device := unhex(`17940000 2d553919 c0a80064 ffffff00 c0a80001 0066193955 2d 0892 20180816` + strings.Repeat("00", 32))
	out = Decode(Call{Op: "GetDevice", Serial: 423187757}, Config{}, device)
	wantD := Rec{"serial": "423187757", "address": "192.168.0.100", "mask": "255.255.255.0", "gateway": "192.168.0.1", "mac": "00:66:19:39:55:2d", "version": "0892", "date": "2018-08-16", "endpoint": "192.168.0.100:60000"}
	for k, v := range wantD {
		if out.Rec[k] != v {
			t.Errorf("device vector: %s = %q, want %q", k, out.Rec[k], v)
		}
	}
	// sentinels
	if o := Decode(Call{Op: "GetCardByIndex", Serial: 1, Index: 3}, Config{}, append(unhex("175c0000 01000000 ffffffff"), make([]byte, 52)...)); !o.Nil {
		t.Errorf("deleted card: %+v", o)
	}
	if o := Decode(Call{Op: "GetEvent", Serial: 1, Index: 3}, Config{}, append(unhex("17b00000 01000000 03000000 ff"), make([]byte, 51)...)); !o.MustFail {
		t.Errorf("overwritten event: %+v", o)
	}
	for _, op := range ReplyOps {
		l := Responses[op]
		seen := map[int]string{}
		for _, f := range l.Fields {
			for i := 0; i < f.Kind.Width(); i++ {
				if prev, ok := seen[f.Off+i]; ok {
					t.Errorf("%s reply: fields %s and %s overlap at offset %d", op, prev, f.Name, f.Off+i)
				}
				seen[f.Off+i] = f.Name
			}
			if f.Off+f.Kind.Width() > 64 {
				t.Errorf("%s reply: field %s ends beyond byte 63", op, f.Name)
			}
		}
	}
}
