// Package spec is an independent, table-driven model of the UT0311-L0x wire protocol as used
// by uhppote-core's API. It is a transcription of the protocol (function codes, field offsets,
// encodings, sentinels), written without importing the library's messages, codec, bcd or
// types packages, so that it can serve as the oracle for requests (C01, C07), replies (C02,
// C03, C11), events (C10) and layouts (C05).
package spec

import (
	"fmt"
	"sort"
	"strings"
)

type Kind int

const (
	U8 Kind = iota
	U16
	U32
	Bool
	IPv4
	AddrPort // 4 bytes IPv4 + 2 bytes port little-endian
	MAC      // 6 bytes
	Version  // 2 bytes, major then minor
	Date     // 4 bytes BCD yyyymmdd
	DateTime // 7 bytes BCD yyyymmddHHMMSS
	SysDate  // 3 bytes BCD yymmdd
	SysTime  // 3 bytes BCD HHMMSS
	HHmm     // 2 bytes BCD HHMM
	PIN      // 3 bytes little-endian
	Serial   // 4 bytes little-endian (the controller serial number)
)

func (k Kind) Width() int {
	switch k {
	case U8, Bool:
		return 1
	case U16, Version, HHmm:
		return 2
	case U32, IPv4, Date, Serial:
		return 4
	case AddrPort, MAC:
		return 6
	case DateTime:
		return 7
	case SysDate, SysTime, PIN:
		return 3
	}
	panic("unknown kind")
}

func (k Kind) String() string {
	return [...]string{"u8", "u16", "u32", "bool", "ipv4", "addrport", "mac", "version", "date", "datetime", "sysdate", "systime", "hhmm", "pin", "serial"}[k]
}

type Field struct {
	Name string
	Off  int
	Kind Kind
}

type Layout struct {
	Code   byte
	Fields []Field
}

const Magic = 0x55aaaa55

func f(name string, off int, k Kind) Field { return Field{name, off, k} }

var ser = f("serial", 4, Serial)

var weekdays17 = []Field{f("monday", 17, Bool), f("tuesday", 18, Bool), f("wednesday", 19, Bool), f("thursday", 20, Bool), f("friday", 21, Bool), f("saturday", 22, Bool), f("sunday", 23, Bool)}

var statusFields = []Field{ser,
	f("event.index", 8, U32), f("event.type", 12, U8), f("event.granted", 13, Bool), f("event.door", 14, U8), f("event.direction", 15, U8),
	f("event.card", 16, U32), f("event.timestamp", 20, DateTime), f("event.reason", 27, U8),
	f("door1.state", 28, Bool), f("door2.state", 29, Bool), f("door3.state", 30, Bool), f("door4.state", 31, Bool),
	f("door1.button", 32, Bool), f("door2.button", 33, Bool), f("door3.button", 34, Bool), f("door4.button", 35, Bool),
	f("system.error", 36, U8), f("system.time", 37, SysTime), f("sequence", 40, U32), f("special", 48, U8), f("relays", 49, U8), f("inputs", 50, U8),
	f("system.date", 51, SysDate)}

var cardFields = []Field{ser, f("card", 8, U32), f("from", 12, Date), f("to", 16, Date), f("door1", 20, U8), f("door2", 21, U8), f("door3", 22, U8), f("door4", 23, U8), f("pin", 24, PIN)}

var profileFields = append(append([]Field{ser, f("profile", 8, U8), f("from", 9, Date), f("to", 13, Date)}, weekdays17...),
	f("segment1.start", 24, HHmm), f("segment1.end", 26, HHmm), f("segment2.start", 28, HHmm), f("segment2.end", 30, HHmm), f("segment3.start", 32, HHmm), f("segment3.end", 34, HHmm), f("linked", 36, U8))

var ok = []Field{ser, f("ok", 8, Bool)}

// Ops lists the 32 request-issuing API operations in a fixed order.
var Ops = []string{"GetDevices", "GetDevice", "SetAddress", "GetListener", "SetListener", "GetTime", "SetTime", "GetDoorControlState", "SetDoorControlState",
	"GetStatus", "GetCards", "GetCardByIndex", "GetCardByID", "PutCard", "DeleteCard", "DeleteCards", "GetTimeProfile", "SetTimeProfile", "ClearTimeProfiles",
	"ClearTaskList", "AddTask", "RefreshTaskList", "RecordSpecialEvents", "GetEvent", "GetEventIndex", "SetEventIndex", "SetDoorPasscodes", "OpenDoor",
	"SetPCControl", "SetInterlock", "ActivateKeypads", "RestoreDefaultParameters"}

// Requests: the request layout of each API operation. A field named "magic" always carries 0x55aaaa55.
var Requests = map[string]Layout{
	"GetDevices":          {0x94, []Field{}}, // discovery: serial number 0
	"GetDevice":           {0x94, []Field{ser}},
	"SetAddress":          {0x96, []Field{ser, f("address", 8, IPv4), f("mask", 12, IPv4), f("gateway", 16, IPv4), f("magic", 20, U32)}},
	"GetListener":         {0x92, []Field{ser}},
	"SetListener":         {0x90, []Field{ser, f("listener", 8, AddrPort), f("interval", 14, U8)}},
	"GetTime":             {0x32, []Field{ser}},
	"SetTime":             {0x30, []Field{ser, f("datetime", 8, DateTime)}},
	"GetDoorControlState": {0x82, []Field{ser, f("door", 8, U8)}},
	"SetDoorControlState": {0x80, []Field{ser, f("door", 8, U8), f("state", 9, U8), f("delay", 10, U8)}},
	"GetStatus":           {0x20, []Field{ser}},
	"GetCards":            {0x58, []Field{ser}},
	"GetCardByIndex":      {0x5c, []Field{ser, f("index", 8, U32)}},
	"GetCardByID":         {0x5a, []Field{ser, f("card", 8, U32)}},
	"PutCard":             {0x50, cardFields},
	"DeleteCard":          {0x52, []Field{ser, f("card", 8, U32)}},
	"DeleteCards":         {0x54, []Field{ser, f("magic", 8, U32)}},
	"GetTimeProfile":      {0x98, []Field{ser, f("profile", 8, U8)}},
	"SetTimeProfile":      {0x88, profileFields},
	"ClearTimeProfiles":   {0x8a, []Field{ser, f("magic", 8, U32)}},
	"ClearTaskList":       {0xa6, []Field{ser, f("magic", 8, U32)}},
	"AddTask": {0xa8, []Field{ser, f("from", 8, Date), f("to", 12, Date), f("monday", 16, Bool), f("tuesday", 17, Bool), f("wednesday", 18, Bool), f("thursday", 19, Bool),
		f("friday", 20, Bool), f("saturday", 21, Bool), f("sunday", 22, Bool), f("start", 23, HHmm), f("door", 25, U8), f("task", 26, U8), f("cards", 27, U8)}},
	"RefreshTaskList":          {0xac, []Field{ser, f("magic", 8, U32)}},
	"RecordSpecialEvents":      {0x8e, []Field{ser, f("enable", 8, Bool)}},
	"GetEvent":                 {0xb0, []Field{ser, f("index", 8, U32)}},
	"GetEventIndex":            {0xb4, []Field{ser}},
	"SetEventIndex":            {0xb2, []Field{ser, f("index", 8, U32), f("magic", 12, U32)}},
	"SetDoorPasscodes":         {0x8c, []Field{ser, f("door", 8, U8), f("passcode1", 12, U32), f("passcode2", 16, U32), f("passcode3", 20, U32), f("passcode4", 24, U32)}},
	"OpenDoor":                 {0x40, []Field{ser, f("door", 8, U8)}},
	"SetPCControl":             {0xa0, []Field{ser, f("magic", 8, U32), f("enable", 12, Bool)}},
	"SetInterlock":             {0xa2, []Field{ser, f("interlock", 8, U8)}},
	"ActivateKeypads":          {0xa4, []Field{ser, f("reader1", 8, Bool), f("reader2", 9, Bool), f("reader3", 10, Bool), f("reader4", 11, Bool)}},
	"RestoreDefaultParameters": {0xc8, []Field{ser, f("magic", 8, U32)}},
}

// Responses: the reply layout of each reply-bearing operation (SetAddress has none).
var Responses = map[string]Layout{
	"GetDevices":               {0x94, []Field{ser, f("address", 8, IPv4), f("mask", 12, IPv4), f("gateway", 16, IPv4), f("mac", 20, MAC), f("version", 26, Version), f("date", 28, Date)}},
	"GetDevice":                {0x94, []Field{ser, f("address", 8, IPv4), f("mask", 12, IPv4), f("gateway", 16, IPv4), f("mac", 20, MAC), f("version", 26, Version), f("date", 28, Date)}},
	"GetListener":              {0x92, []Field{ser, f("listener", 8, AddrPort), f("interval", 14, U8)}},
	"SetListener":              {0x90, ok},
	"GetTime":                  {0x32, []Field{ser, f("datetime", 8, DateTime)}},
	"SetTime":                  {0x30, []Field{ser, f("datetime", 8, DateTime)}},
	"GetDoorControlState":      {0x82, []Field{ser, f("door", 8, U8), f("state", 9, U8), f("delay", 10, U8)}},
	"SetDoorControlState":      {0x80, []Field{ser, f("door", 8, U8), f("state", 9, U8), f("delay", 10, U8)}},
	"GetStatus":                {0x20, statusFields},
	"GetCards":                 {0x58, []Field{ser, f("records", 8, U32)}},
	"GetCardByIndex":           {0x5c, cardFields},
	"GetCardByID":              {0x5a, cardFields},
	"PutCard":                  {0x50, ok},
	"DeleteCard":               {0x52, ok},
	"DeleteCards":              {0x54, ok},
	"GetTimeProfile":           {0x98, profileFields},
	"SetTimeProfile":           {0x88, ok},
	"ClearTimeProfiles":        {0x8a, ok},
	"ClearTaskList":            {0xa6, ok},
	"AddTask":                  {0xa8, ok},
	"RefreshTaskList":          {0xac, ok},
	"RecordSpecialEvents":      {0x8e, ok},
	"GetEvent":                 {0xb0, []Field{ser, f("index", 8, U32), f("type", 12, U8), f("granted", 13, Bool), f("door", 14, U8), f("direction", 15, U8), f("card", 16, U32), f("timestamp", 20, DateTime), f("reason", 27, U8)}},
	"GetEventIndex":            {0xb4, []Field{ser, f("index", 8, U32)}},
	"SetEventIndex":            {0xb2, ok},
	"SetDoorPasscodes":         {0x8c, ok},
	"OpenDoor":                 {0x40, ok},
	"SetPCControl":             {0xa0, ok},
	"SetInterlock":             {0xa2, ok},
	"ActivateKeypads":          {0xa4, ok},
	"RestoreDefaultParameters": {0xc8, ok},
}

// EventLayout is the layout of an event datagram received by the listener (same as the
// get-status reply; protocol id 0x17 or, for v6.62 firmware, 0x19).
var EventLayout = Layout{0x20, statusFields}

// ReplyOps lists the 31 reply-bearing operations in a fixed order.
var ReplyOps = func() []string {
	var l []string
	for _, op := range Ops {
		if _, ok := Responses[op]; ok {
			l = append(l, op)
		}
	}
	return l
}()

// Unused returns the offsets (2..63) that belong to no field of the layout.
func (l Layout) Unused() []int {
	used := map[int]bool{0: true, 1: true}
	for _, fl := range l.Fields {
		for i := 0; i < fl.Kind.Width(); i++ {
			used[fl.Off+i] = true
		}
	}
	var u []int
	for i := 2; i < 64; i++ {
		if !used[i] {
			u = append(u, i)
		}
	}
	return u
}

func (l Layout) Field(name string) Field {
	for _, fl := range l.Fields {
		if fl.Name == name {
			return fl
		}
	}
	panic("no field " + name)
}

// Primitive values ----------------------------------------------------------------------------

type Civil struct{ Y, M, D int }

func (c Civil) IsZero() bool { return c == Civil{} }
func (c Civil) String() string {
	if c.IsZero() {
		return ""
	}
	return fmt.Sprintf("%04d-%02d-%02d", c.Y, c.M, c.D)
}

type CivilDT struct{ Y, M, D, H, Mi, S int }

func (c CivilDT) IsZero() bool { return c == CivilDT{} }
func (c CivilDT) String() string {
	if c.IsZero() {
		return ""
	}
	return fmt.Sprintf("%04d-%02d-%02d %02d:%02d:%02d", c.Y, c.M, c.D, c.H, c.Mi, c.S)
}

type HM struct{ H, M int }

func (h HM) String() string { return fmt.Sprintf("%02d:%02d", h.H, h.M) }

func IsLeap(y int) bool { return y%4 == 0 && (y%100 != 0 || y%400 == 0) }

func DaysIn(y, m int) int {
	switch m {
	case 1, 3, 5, 7, 8, 10, 12:
		return 31
	case 4, 6, 9, 11:
		return 30
	case 2:
		if IsLeap(y) {
			return 29
		}
		return 28
	}
	return 0
}

func ValidDate(y, m, d int) bool {
	return y >= 0 && y <= 9999 && m >= 1 && m <= 12 && d >= 1 && d <= DaysIn(y, m)
}

func ValidHM(h, m int) bool { return (h >= 0 && h <= 23 && m >= 0 && m <= 59) || (h == 24 && m == 0) }

func bcd2(v int) byte { return byte((v/10)<<4 | v%10) }

func PutLE16(b []byte, v uint16) { b[0], b[1] = byte(v), byte(v>>8) }
func PutLE32(b []byte, v uint32) {
	b[0], b[1], b[2], b[3] = byte(v), byte(v>>8), byte(v>>16), byte(v>>24)
}
func LE16(b []byte) uint16 { return uint16(b[0]) | uint16(b[1])<<8 }
func LE32(b []byte) uint32 {
	return uint32(b[0]) | uint32(b[1])<<8 | uint32(b[2])<<16 | uint32(b[3])<<24
}

func PutDate(b []byte, c Civil) {
	if c.IsZero() {
		b[0], b[1], b[2], b[3] = 0, 0, 0, 0
		return
	}
	b[0], b[1], b[2], b[3] = bcd2(c.Y/100), bcd2(c.Y%100), bcd2(c.M), bcd2(c.D)
}

func PutDateTime(b []byte, c CivilDT) {
	b[0], b[1], b[2], b[3], b[4], b[5], b[6] = bcd2(c.Y/100), bcd2(c.Y%100), bcd2(c.M), bcd2(c.D), bcd2(c.H), bcd2(c.Mi), bcd2(c.S)
}

func PutHM(b []byte, h HM) { b[0], b[1] = bcd2(h.H), bcd2(h.M) }

func PutBool(b []byte, v bool) {
	if v {
		b[0] = 1
	} else {
		b[0] = 0
	}
}

// dec2 decodes one BCD byte; ok=false when a nibble is not decimal.
func dec2(b byte) (int, bool) {
	hi, lo := int(b>>4), int(b&0x0f)
	if hi > 9 || lo > 9 {
		return 0, false
	}
	return hi*10 + lo, true
}

// Requests ------------------------------------------------------------------------------------

// Call holds the protocol-level (primitive) arguments of one API call. The harness derives
// both the library call and the expected request from it.
type Call struct {
	Op        string    `json:"op"`
	Serial    uint32    `json:"serial"`
	Card      uint32    `json:"card,omitempty"`
	Index     uint32    `json:"index,omitempty"`
	Door      uint8     `json:"door,omitempty"`
	Profile   uint8     `json:"profile,omitempty"`
	Linked    uint8     `json:"linked,omitempty"`
	Delay     uint8     `json:"delay,omitempty"`
	Interval  uint8     `json:"interval,omitempty"`
	State     uint8     `json:"state,omitempty"`
	Task      uint8     `json:"task,omitempty"`
	Interlock uint8     `json:"interlock,omitempty"`
	Cards     uint8     `json:"cards,omitempty"`
	From      Civil     `json:"from"`
	To        Civil     `json:"to"`
	Start     HM        `json:"start"`
	Segments  [6]HM     `json:"segments"` // s1.start s1.end s2.start ...
	Weekdays  [7]bool   `json:"weekdays"` // monday .. sunday
	PIN       uint32    `json:"pin,omitempty"`
	Doors     [4]uint8  `json:"doors"`
	Readers   [4]bool   `json:"readers"`
	Address   [4]byte   `json:"address"`
	Mask      [4]byte   `json:"mask"`
	Gateway   [4]byte   `json:"gateway"`
	Listener  [4]byte   `json:"listener"`
	Port      uint16    `json:"port,omitempty"`
	Enable    bool      `json:"enable,omitempty"`
	Passcodes [4]uint32 `json:"passcodes"` // effective passcodes (after the documented clamping)
	DateTime  CivilDT   `json:"datetime"`
}

// Request returns the 64 bytes the protocol prescribes for the call.
func Request(c Call) []byte {
	l, okk := Requests[c.Op]
	if !okk {
		panic("spec: unknown operation " + c.Op)
	}
	b := make([]byte, 64)
	b[0] = 0x17
	b[1] = l.Code
	for _, fl := range l.Fields {
		p := b[fl.Off : fl.Off+fl.Kind.Width()]
		switch fl.Name {
		case "serial":
			PutLE32(p, c.Serial)
		case "magic":
			PutLE32(p, Magic)
		case "address":
			copy(p, c.Address[:])
		case "mask":
			copy(p, c.Mask[:])
		case "gateway":
			copy(p, c.Gateway[:])
		case "listener":
			copy(p, c.Listener[:])
			PutLE16(p[4:], c.Port)
		case "interval":
			p[0] = c.Interval
		case "datetime":
			PutDateTime(p, c.DateTime)
		case "door":
			p[0] = c.Door
		case "state":
			p[0] = c.State
		case "delay":
			p[0] = c.Delay
		case "index":
			PutLE32(p, c.Index)
		case "card":
			PutLE32(p, c.Card)
		case "from":
			PutDate(p, c.From)
		case "to":
			PutDate(p, c.To)
		case "door1", "door2", "door3", "door4":
			p[0] = c.Doors[int(fl.Name[4]-'1')]
		case "pin":
			p[0], p[1], p[2] = byte(c.PIN), byte(c.PIN>>8), byte(c.PIN>>16)
		case "profile":
			p[0] = c.Profile
		case "linked":
			p[0] = c.Linked
		case "monday", "tuesday", "wednesday", "thursday", "friday", "saturday", "sunday":
			PutBool(p, c.Weekdays[weekdayIndex(fl.Name)])
		case "segment1.start", "segment1.end", "segment2.start", "segment2.end", "segment3.start", "segment3.end":
			ix := 2 * int(fl.Name[7]-'1')
			if strings.HasSuffix(fl.Name, ".end") {
				ix++
			}
			PutHM(p, c.Segments[ix])
		case "start":
			PutHM(p, c.Start)
		case "task":
			p[0] = c.Task
		case "cards":
			p[0] = c.Cards
		case "enable":
			PutBool(p, c.Enable)
		case "passcode1", "passcode2", "passcode3", "passcode4":
			PutLE32(p, c.Passcodes[int(fl.Name[8]-'1')])
		case "interlock":
			p[0] = c.Interlock
		case "reader1", "reader2", "reader3", "reader4":
			PutBool(p, c.Readers[int(fl.Name[6]-'1')])
		default:
			panic("spec: request field without a source: " + fl.Name)
		}
	}
	return b
}

func weekdayIndex(name string) int {
	for i, n := range []string{"monday", "tuesday", "wednesday", "thursday", "friday", "saturday", "sunday"} {
		if n == name {
			return i
		}
	}
	panic(name)
}

// Replies -------------------------------------------------------------------------------------

// Rec is a canonical record: field name -> canonical text of the value.
type Rec map[string]string

func (r Rec) String() string {
	keys := make([]string, 0, len(r))
	for k := range r {
		keys = append(keys, k)
	}
	sort.Strings(keys)
	var sb strings.Builder
	for _, k := range keys {
		fmt.Fprintf(&sb, "%s=%s ", k, r[k])
	}
	return strings.TrimSpace(sb.String())
}

// FieldValue is the protocol decoding of one field. Domain tells whether the bytes were in
// the field's domain; when they are not, Text holds the field's zero ("no value") text, which
// is the only value the library may report besides failing the call.
type FieldValue struct {
	Text     string
	InDomain bool
	Judge    bool // false: outside every stated domain - not judged (text is unreliable)
}

func ipText(b []byte) string { return fmt.Sprintf("%d.%d.%d.%d", b[0], b[1], b[2], b[3]) }

// DecodeField gives the protocol decoding of the field at p (len >= width).
func DecodeField(k Kind, p []byte) FieldValue {
	switch k {
	case U8:
		return FieldValue{fmt.Sprint(p[0]), true, true}
	case U16:
		return FieldValue{fmt.Sprint(LE16(p)), true, true}
	case U32, Serial:
		return FieldValue{fmt.Sprint(LE32(p)), true, true}
	case Bool:
		switch p[0] {
		case 0:
			return FieldValue{"false", true, true}
		case 1:
			return FieldValue{"true", true, true}
		}
		return FieldValue{"false", false, true}
	case IPv4:
		return FieldValue{ipText(p), true, true}
	case AddrPort:
		return FieldValue{fmt.Sprintf("%s:%d", ipText(p), LE16(p[4:])), true, true}
	case MAC:
		return FieldValue{fmt.Sprintf("%02x:%02x:%02x:%02x:%02x:%02x", p[0], p[1], p[2], p[3], p[4], p[5]), true, true}
	case Version:
		return FieldValue{fmt.Sprintf("%02x%02x", p[0], p[1]), true, true}
	case PIN:
		v := uint32(p[0]) | uint32(p[1])<<8 | uint32(p[2])<<16
		return FieldValue{fmt.Sprint(v), true, v <= 999999}
	case HHmm:
		h, ok1 := dec2(p[0])
		m, ok2 := dec2(p[1])
		if ok1 && ok2 && ValidHM(h, m) {
			return FieldValue{HM{h, m}.String(), true, true}
		}
		return FieldValue{"00:00", false, true}
	case Date:
		if p[0] == 0 && p[1] == 0 && p[2] == 0 && p[3] == 0 {
			return FieldValue{"", true, true}
		}
		cc, ok1 := dec2(p[0])
		yy, ok2 := dec2(p[1])
		m, ok3 := dec2(p[2])
		d, ok4 := dec2(p[3])
		if !(ok1 && ok2 && ok3 && ok4) {
			return FieldValue{"", false, true}
		}
		y := cc*100 + yy
		if y == 0 || (y == 1 && m == 1 && d == 1) {
			return FieldValue{"", false, false} // year 0000 and 0001-01-01: outside every stated domain
		}
		if !ValidDate(y, m, d) {
			return FieldValue{"", false, true}
		}
		return FieldValue{Civil{y, m, d}.String(), true, true}
	case DateTime:
		zero := true
		for i := 0; i < 7; i++ {
			if p[i] != 0 {
				zero = false
			}
		}
		if zero {
			return FieldValue{"", true, true}
		}
		if p[0] == 0x20 && p[1] == 0 && p[2] == 0 && p[3] == 0 && p[4] == 0 && p[5] == 0 && p[6] == 0 {
			return FieldValue{"", true, true} // uninitialised controllers: 2000-00-00 00:00:00 is 'no value'
		}
		var v [7]int
		for i := 0; i < 7; i++ {
			x, okk := dec2(p[i])
			if !okk {
				return FieldValue{"", false, true}
			}
			v[i] = x
		}
		y := v[0]*100 + v[1]
		if y == 0 || (y == 1 && v[2] == 1 && v[3] == 1 && v[4] == 0 && v[5] == 0 && v[6] == 0) {
			// (0001-01-01 00:00:00 is Go's zero time: a date-time and 'no date/time' at once, not judged; with a time of day it is
			// a date-time like any other)
			return FieldValue{"", false, false}
		}
		if !ValidDate(y, v[2], v[3]) || v[4] > 23 || v[5] > 59 || v[6] > 59 {
			return FieldValue{"", false, true}
		}
		return FieldValue{CivilDT{y, v[2], v[3], v[4], v[5], v[6]}.String(), true, true}
	case SysDate:
		if p[0] == 0 && p[1] == 0 && p[2] == 0 {
			return FieldValue{"", true, true}
		}
		yy, ok1 := dec2(p[0])
		m, ok2 := dec2(p[1])
		d, ok3 := dec2(p[2])
		if !(ok1 && ok2 && ok3) || !ValidDate(2000+yy, m, d) {
			// (a day that only exists in 19yy but not 20yy cannot occur: leap years coincide except 1900/2000, and yy=00 -> 2000 is leap)
			return FieldValue{"", false, true}
		}
		// two-digit years 69..99: the century is not defined by the protocol documentation
		return FieldValue{Civil{2000 + yy, m, d}.String(), true, yy <= 68}
	case SysTime:
		h, ok1 := dec2(p[0])
		m, ok2 := dec2(p[1])
		s, ok3 := dec2(p[2])
		if !(ok1 && ok2 && ok3) || h > 23 || m > 59 || s > 59 {
			return FieldValue{"", false, true}
		}
		return FieldValue{fmt.Sprintf("%02d:%02d:%02d", h, m, s), true, true}
	}
	panic("unknown kind")
}

// Outcome is what the protocol says an API call must return for a given reply.
type Outcome struct {
	// MustFail: the call must return an error (sentinel 'overwritten', echo mismatch).
	MustFail bool
	// Nil: the call must succeed with a nil result ('no card', 'no event', 'no profile').
	Nil bool
	// NilOrFail: either of the two (sentinel combinations the statement leaves open).
	NilOrFail bool
	// MayFail: at least one field is outside its domain: the call may fail; if it does not,
	// Rec (with the zero value in those fields) is what must come back.
	MayFail bool
	// Rec: expected record when the call succeeds with a value. Fields listed in Skip are
	// not judged.
	Rec  Rec
	Skip map[string]bool
	Why  string
}

// Raw decodes every field of the layout.
func (l Layout) Raw(reply []byte) map[string]FieldValue {
	m := map[string]FieldValue{}
	for _, fl := range l.Fields {
		m[fl.Name] = DecodeField(fl.Kind, reply[fl.Off:])
	}
	return m
}

// Config is the part of the client configuration that flows into results.
type Config struct {
	Name           string // configured name of the addressed controller ("" if not configured)
	ControllerPort uint16 // configured controller port (0 if none / not usable)
	BroadcastPort  uint16 // configured broadcast port (0 if no broadcast address configured)
}

// Decode gives the outcome the protocol prescribes for op(call) when the accepted reply is
// `reply` (64 bytes, correct protocol id, function code and serial number).
func Decode(c Call, cfg Config, reply []byte) Outcome {
	l := Responses[c.Op]
	raw := l.Raw(reply)
	out := Outcome{Rec: Rec{}, Skip: map[string]bool{}}
	for name, v := range raw {
		if !v.InDomain {
			out.MayFail = true
		}
		if !v.Judge {
			out.Skip[name] = true
		}
	}
	get := func(n string) string { return raw[n].Text }
	cp := func(names ...string) {
		for _, n := range names {
			out.Rec[n] = get(n)
		}
	}
	u32 := func(n string) uint32 { return LE32(reply[l.Field(n).Off:]) }
	u8 := func(n string) uint8 { return reply[l.Field(n).Off] }

	switch c.Op {
	case "GetDevice", "GetDevices":
		cp("serial", "address", "mask", "gateway", "mac", "version", "date")
		port := uint16(60000)
		if cfg.BroadcastPort != 0 {
			port = cfg.BroadcastPort
		}
		if c.Op == "GetDevice" && cfg.ControllerPort != 0 {
			port = cfg.ControllerPort
		}
		out.Rec["endpoint"] = fmt.Sprintf("%s:%d", get("address"), port)
		out.Rec["name"] = cfg.Name
	case "GetListener":
		cp("listener", "interval")
	case "GetTime", "SetTime":
		cp("serial", "datetime")
	case "GetDoorControlState", "SetDoorControlState":
		cp("serial", "door", "state", "delay")
	case "GetCards":
		cp("records")
	case "GetEventIndex":
		cp("serial", "index")
	case "SetEventIndex":
		cp("serial", "ok")
		out.Rec["index"] = fmt.Sprint(c.Index)
	case "OpenDoor":
		cp("serial", "ok")
	case "GetCardByIndex", "GetCardByID":
		card := u32("card")
		switch {
		case card == 0:
			out.Nil, out.Why = true, "card number 0 means no card"
		case card == 0xffffffff && c.Op == "GetCardByIndex":
			out.Nil, out.Why = true, "card number 0xffffffff means no card"
		case card == 0xffffffff:
			if c.Card == card {
				out.Nil, out.Why = true, "card number 0xffffffff means no card"
			} else {
				out.NilOrFail, out.Why = true, "card number 0xffffffff means no card, and it does not match the requested card"
			}
		case c.Op == "GetCardByID" && card != c.Card:
			out.MustFail, out.Why = true, "echoed card number differs from the requested one"
		}
		cp("card", "from", "to", "door1", "door2", "door3", "door4", "pin")
	case "GetTimeProfile":
		p := u8("profile")
		switch {
		case p == 0:
			out.Nil, out.Why = true, "profile id 0 means no profile"
		case p != c.Profile:
			out.MustFail, out.Why = true, "echoed profile id differs from the requested one"
		}
		cp("profile", "linked", "from", "to", "monday", "tuesday", "wednesday", "thursday", "friday", "saturday", "sunday",
			"segment1.start", "segment1.end", "segment2.start", "segment2.end", "segment3.start", "segment3.end")
	case "GetEvent":
		switch {
		case u8("type") == 0xff && u32("index") == 0:
			out.NilOrFail, out.Why = true, "event type 0xff (overwritten) with index 0 (no event)"
		case u8("type") == 0xff:
			out.MustFail, out.Why = true, "event type 0xff is the 'overwritten' error"
		case u32("index") == 0:
			out.Nil, out.Why = true, "event index 0 means no event"
		}
		cp("serial", "index", "type", "granted", "door", "direction", "card", "timestamp", "reason")
	case "GetStatus":
		StatusRec(raw, reply, out.Rec, out.Skip)
	default:
		// every remaining operation returns the boolean at offset 8
		cp("ok")
	}
	return out
}

// StatusRec fills rec with the canonical status for a get-status reply / event datagram.
func StatusRec(raw map[string]FieldValue, msg []byte, rec Rec, skip map[string]bool) {
	for _, n := range []string{"serial", "door1.state", "door2.state", "door3.state", "door4.state", "door1.button", "door2.button", "door3.button", "door4.button",
		"system.error", "sequence", "special", "relays", "inputs"} {
		rec[n] = raw[n].Text
	}
	// controller date + time are combined; an all-zero date means 'no value'
	if raw["system.date"].Text == "" {
		rec["system.datetime"] = ""
	} else {
		rec["system.datetime"] = raw["system.date"].Text + " " + raw["system.time"].Text
		if !raw["system.time"].InDomain {
			rec["system.datetime"] = ""
		}
	}
	if !raw["system.date"].Judge {
		skip["system.datetime"] = true
	}
	// the event is present exactly when its index is non-zero
	present := LE32(msg[8:]) != 0
	for _, n := range []string{"event.index", "event.type", "event.granted", "event.door", "event.direction", "event.card", "event.timestamp", "event.reason"} {
		if present {
			rec[n] = raw[n].Text
		} else {
			rec[n] = zeroText(n)
			delete(skip, n)
		}
	}
}

func zeroText(n string) string {
	switch n {
	case "event.granted":
		return "false"
	case "event.timestamp":
		return ""
	}
	return "0"
}

// Header writes protocol id, function code and serial number.
func Header(b []byte, som, code byte, serial uint32) {
	b[0], b[1] = som, code
	PutLE32(b[4:], serial)
}

// SetFirstCard has request/response message types but no API operation in this library.
var setFirstCardRequest = Layout{0xaa, []Field{ser, f("door", 8, U8), f("start", 9, HHmm), f("start.control", 11, U8), f("end", 12, HHmm), f("end.control", 14, U8),
	f("monday", 15, Bool), f("tuesday", 16, Bool), f("wednesday", 17, Bool), f("thursday", 18, Bool), f("friday", 19, Bool), f("saturday", 20, Bool), f("sunday", 21, Bool)}}
var setFirstCardResponse = Layout{0xaa, ok}

// RequestByCode returns the request layout registered for a function code.
func RequestByCode(code byte) (Layout, bool) {
	if code == 0xaa {
		return setFirstCardRequest, true
	}
	for _, op := range Ops {
		if op == "GetDevices" {
			continue
		}
		if l := Requests[op]; l.Code == code {
			return l, true
		}
	}
	return Layout{}, false
}

// ResponseByCode returns the reply layout registered for a function code (none for 0x96).
func ResponseByCode(code byte) (Layout, bool) {
	if code == 0xaa {
		return setFirstCardResponse, true
	}
	for _, op := range ReplyOps {
		if op == "GetDevices" {
			continue
		}
		if l := Responses[op]; l.Code == code {
			return l, true
		}
	}
	return Layout{}, false
}

// Sample builds a well-formed message of layout l: correct header, every field in its domain and non-zero (values vary
// with salt), zero in every byte that belongs to no field. Fields named "magic" carry the magic word.
func Sample(l Layout, som byte, serial uint32, salt int) []byte {
	b := make([]byte, 64)
	Header(b, som, l.Code, serial)
	for i, fl := range l.Fields {
		p := b[fl.Off:]
		k := i + salt
		switch fl.Kind {
		case U8:
			p[0] = byte(1 + (3+k)%250)
		case U16, Version:
			PutLE16(p, uint16(0x0892+k))
		case U32:
			if fl.Name == "magic" {
				PutLE32(p, Magic)
			} else {
				PutLE32(p, uint32(0x01020304+k*0x01010101))
			}
		case Bool:
			p[0] = byte((k + 1) % 2)
		case IPv4:
			copy(p, []byte{192, 168, byte(1 + k%200), 100})
		case AddrPort:
			copy(p, []byte{192, 168, 1, byte(1 + k%200), 0x61, 0xea})
		case MAC:
			copy(p, []byte{0x00, 0x66, 0x19, 0x39, 0x55, byte(0x2d + k)})
		case PIN:
			v := uint32(100000 + (k*7919)%899999)
			p[0], p[1], p[2] = byte(v), byte(v>>8), byte(v>>16)
		case HHmm:
			PutHM(p, HM{H: (8 + k) % 24, M: (30 + k) % 60})
		case Date:
			PutDate(p, Civil{Y: 2024, M: 1 + k%12, D: 1 + (19+k)%28})
		case DateTime:
			PutDateTime(p, CivilDT{Y: 2023, M: 1 + (10+k)%12, D: 1 + (29+k)%28, H: (13 + k) % 24, Mi: (14 + k) % 60, S: (15 + k) % 60})
		case SysDate:
			p[0], p[1], p[2] = 0x24, bcd2(1+(11+k)%12), bcd2(1+(30+k)%28)
		case SysTime:
			p[0], p[1], p[2] = bcd2((23+k)%24), bcd2((59+k)%60), bcd2((58+k)%60)
		}
	}
	return b
}
