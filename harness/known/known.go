// Package known matches failures against /verif/known_findings.json (committed, read-only
// at run time). Only entries with status "open" suppress anything; "fixed" entries are
// documentation.
package known

import (
	"encoding/json"
	"os"
	"strings"
	"sync"
)

type Finding struct {
	ID          string `json:"id"`
	Property    string `json:"property"`
	Status      string `json:"status"` // open | fixed
	Fingerprint string `json:"fingerprint"`
	What        string `json:"what"`
	Commit      string `json:"commit,omitempty"`
}

type File struct {
	Findings []Finding `json:"findings"`
}

var (
	mu     sync.Mutex
	loaded File
)

func Load(path string) error {
	mu.Lock()
	defer mu.Unlock()
	b, err := os.ReadFile(path)
	if err != nil {
		if os.IsNotExist(err) {
			loaded = File{}
			return nil
		}
		return err
	}
	return json.Unmarshal(b, &loaded)
}

// Open returns the open finding whose property and fingerprint match exactly. A
// fingerprint in the file ending in '*' matches by prefix.
func Open(property, fingerprint string) *Finding {
	mu.Lock()
	defer mu.Unlock()
	for i := range loaded.Findings {
		f := &loaded.Findings[i]
		if f.Status != "open" || f.Property != property {
			continue
		}
		if f.Fingerprint == fingerprint {
			return f
		}
		if strings.HasSuffix(f.Fingerprint, "*") && strings.HasPrefix(fingerprint, strings.TrimSuffix(f.Fingerprint, "*")) {
			return f
		}
	}
	return nil
}

func All() []Finding {
	mu.Lock()
	defer mu.Unlock()
	return append([]Finding(nil), loaded.Findings...)
}
