// Package hold keeps byte slices that the library returned the way callers keep them - the slice itself, nothing else - across
// garbage collections (finalizers run in between) and later library calls, and tells when one of them no longer holds what it
// held when it was returned: a result belongs to the caller for good, whatever pools, free lists or finalizers do behind it.
package hold

import (
	"bytes"
	"fmt"
	"runtime"
	"sync"
	"time"
)

type Keeper struct {
	Every int // look at the kept slices after this many Keep calls (and at 1024 kept slices)
	mu    sync.Mutex
	kept  [][]byte
	copy_ [][]byte
	what  []string
	n     int
	Kept  int64 // total number of slices looked at so far
}

// Keep records b (with a private copy and a description). Now and then it forces garbage collections, calls churn (other
// library calls of the same kind), compares every kept slice with its copy and forgets them. It returns a description of
// the first slice that changed, or "".
func (k *Keeper) Keep(b []byte, what string, churn func()) string {
	k.mu.Lock()
	defer k.mu.Unlock()
	k.kept = append(k.kept, b)
	k.copy_ = append(k.copy_, append([]byte(nil), b...))
	k.what = append(k.what, what)
	k.n++
	every := k.Every
	if every <= 0 {
		every = 3000
	}
	if k.n%every != 0 && len(k.kept) < 1024 {
		return ""
	}
	for round := 0; round < 2; round++ {
		runtime.GC()
		time.Sleep(2 * time.Millisecond)
		if churn != nil {
			churn()
		}
	}
	defer func() { k.kept, k.copy_, k.what = k.kept[:0], k.copy_[:0], k.what[:0] }()
	k.Kept += int64(len(k.kept))
	for i := range k.kept {
		if !bytes.Equal(k.kept[i], k.copy_[i]) {
			return fmt.Sprintf("%s was %x when it was returned and is %x after garbage collections and later calls", k.what[i], k.copy_[i], k.kept[i])
		}
	}
	return ""
}
