// Package farm is the loopback "controller farm": UDP and TCP endpoints on 127.0.0.x with
// ephemeral ports that log what they receive (when, from where, which bytes) and answer with
// scripted datagram sequences, delays, floods, stalls and resets. It is what the socket-layer
// checks (C01, C03, C06, C08, C09, C10, C11) observe the real UDP/TCP driver with.
package farm

import (
	"errors"
	"fmt"
	"net"
	"net/netip"
	"os"
	"runtime"
	"strings"
	"sync"
	"sync/atomic"
	"syscall"
	"time"
)

type Received struct {
	At   time.Time
	From netip.AddrPort
	Data []byte
	Conn net.Conn // TCP only: the connection the request arrived on
}

// Action is one thing an endpoint does in answer to a request.
type Action struct {
	Delay time.Duration // before this action (relative to the previous one)
	Data  []byte        // datagram / TCP write; nil = nothing
	Via   *UDP          // send from this (third-party) endpoint instead of the addressed one
	Close bool          // TCP: close the connection
	// RepeatFor (UDP): after the first send keep sending Data back to back (a dense stream, a datagram every few
	// microseconds) for this long
	RepeatFor time.Duration
	// Stop, when set and returning true, ends the script before this action (and a RepeatFor stream in progress)
	Stop  func() bool
	Reset bool // TCP: reset the connection (SO_LINGER 0)
	// Hold (TCP): after this action the endpoint keeps the connection open for this long WITHOUT reading from it or reacting to
	// the peer's FIN (a controller that is slow to close, a middlebox that holds half-closed connections), then closes it
	Hold time.Duration
	// HalfClose (TCP): after this action the endpoint shuts down its SENDING side only (FIN after the reply) and goes on reading
	// whatever the client still sends on the connection
	HalfClose bool
}

type UDP struct {
	Conn    *net.UDPConn
	Addr    netip.AddrPort
	mu      sync.Mutex
	log     []Received
	Handler func(e *UDP, r Received) // runs in its own goroutine per datagram
	wg      sync.WaitGroup
	closed  chan struct{}
}

type TCP struct {
	L       *net.TCPListener
	Addr    netip.AddrPort
	mu      sync.Mutex
	log     []Received // one entry per connection (Data = bytes read until 64 or quiet)
	conns   int
	Handler func(e *TCP, r Received)
	wg      sync.WaitGroup
	closed  chan struct{}
	open    []net.Conn
}

type Farm struct {
	mu   sync.Mutex
	udps []*UDP
	tcps []*TCP
}

func New() *Farm { return &Farm{} }

// UDP opens a UDP endpoint on ip:0 (or ip:port when port != 0).
func (f *Farm) UDP(ip [4]byte, port uint16, handler func(e *UDP, r Received)) (*UDP, error) {
	conn, err := net.ListenUDP("udp4", &net.UDPAddr{IP: net.IP(ip[:]), Port: int(port)})
	if err != nil {
		return nil, err
	}
	conn.SetReadBuffer(4 << 20)
	conn.SetWriteBuffer(4 << 20)
	e := &UDP{Conn: conn, Addr: conn.LocalAddr().(*net.UDPAddr).AddrPort(), Handler: handler, closed: make(chan struct{})}
	e.Addr = netip.AddrPortFrom(netip.AddrFrom4(ip), e.Addr.Port())
	f.mu.Lock()
	f.udps = append(f.udps, e)
	f.mu.Unlock()
	e.wg.Add(1)
	go e.loop()
	return e, nil
}

func (e *UDP) loop() {
	defer e.wg.Done()
	buf := make([]byte, 4096)
	for {
		n, from, err := e.Conn.ReadFromUDPAddrPort(buf)
		if err != nil {
			return
		}
		r := Received{At: time.Now(), From: netip.AddrPortFrom(from.Addr().Unmap(), from.Port()), Data: append([]byte(nil), buf[:n]...)}
		e.mu.Lock()
		e.log = append(e.log, r)
		h := e.Handler
		e.mu.Unlock()
		if h != nil {
			e.wg.Add(1)
			go func() {
				defer e.wg.Done()
				h(e, r)
			}()
		}
	}
}

func (e *UDP) Log() []Received {
	e.mu.Lock()
	defer e.mu.Unlock()
	return append([]Received(nil), e.log...)
}

func (e *UDP) ClearLog() {
	e.mu.Lock()
	e.log = nil
	e.mu.Unlock()
}

func (e *UDP) SetHandler(h func(e *UDP, r Received)) {
	e.mu.Lock()
	e.Handler = h
	e.mu.Unlock()
}

// Send writes one datagram from this endpoint.
func (e *UDP) Send(to netip.AddrPort, b []byte) error {
	_, err := e.Conn.WriteToUDPAddrPort(b, to)
	return err
}

// sleepOrClosed sleeps d unless the endpoint is closed first.
func sleepOrClosed(closed chan struct{}, d time.Duration) bool {
	if d <= 0 {
		select {
		case <-closed:
			return false
		default:
			return true
		}
	}
	t := time.NewTimer(d)
	defer t.Stop()
	select {
	case <-closed:
		return false
	case <-t.C:
		return true
	}
}

// Play performs the actions in order towards `to`.
func (e *UDP) Play(to netip.AddrPort, actions []Action) {
	for _, a := range actions {
		if !sleepOrClosed(e.closed, a.Delay) {
			return
		}
		if a.Stop != nil && a.Stop() {
			return
		}
		if a.Data != nil {
			src := e
			if a.Via != nil {
				src = a.Via
			}
			src.Send(to, a.Data)
			if a.RepeatFor > 0 {
				end := time.Now().Add(a.RepeatFor)
				for i := 0; time.Now().Before(end); i++ {
					src.Send(to, a.Data)
					if a.Stop != nil && i%8 == 7 && a.Stop() {
						return
					}
					if i%64 == 63 {
						select {
						case <-e.closed:
							return
						default:
						}
					}
				}
			}
		}
	}
}

// Script returns a handler that answers every request with actions(request).
func Script(actions func(r Received) []Action) func(e *UDP, r Received) {
	return func(e *UDP, r Received) { e.Play(r.From, actions(r)) }
}

func (e *UDP) Close() {
	select {
	case <-e.closed:
	default:
		close(e.closed)
	}
	e.Conn.Close()
	e.wg.Wait()
}

// TCP opens a TCP endpoint on ip:0.
func (f *Farm) TCP(ip [4]byte, port uint16, handler func(e *TCP, r Received)) (*TCP, error) {
	l, err := net.ListenTCP("tcp4", &net.TCPAddr{IP: net.IP(ip[:]), Port: int(port)})
	if err != nil {
		return nil, err
	}
	e := &TCP{L: l, Handler: handler, closed: make(chan struct{})}
	e.Addr = netip.AddrPortFrom(netip.AddrFrom4(ip), uint16(l.Addr().(*net.TCPAddr).Port))
	f.mu.Lock()
	f.tcps = append(f.tcps, e)
	f.mu.Unlock()
	e.wg.Add(1)
	go e.loop()
	return e, nil
}

func (e *TCP) loop() {
	defer e.wg.Done()
	for {
		c, err := e.L.AcceptTCP()
		if err != nil {
			return
		}
		e.mu.Lock()
		e.conns++
		e.open = append(e.open, c)
		e.mu.Unlock()
		e.wg.Add(1)
		go func() {
			defer e.wg.Done()
			from := c.RemoteAddr().(*net.TCPAddr).AddrPort()
			// read the request: up to 64 bytes, or whatever arrived when the peer goes quiet / closes
			buf := make([]byte, 0, 256)
			tmp := make([]byte, 256)
			for len(buf) < 64 {
				c.SetReadDeadline(time.Now().Add(2 * time.Second))
				n, err := c.Read(tmp)
				buf = append(buf, tmp[:n]...)
				if err != nil {
					break
				}
			}
			r := Received{At: time.Now(), From: netip.AddrPortFrom(from.Addr().Unmap(), from.Port()), Data: buf, Conn: c}
			e.mu.Lock()
			e.log = append(e.log, r)
			h := e.Handler
			e.mu.Unlock()
			if h != nil {
				h(e, r)
			}
		}()
	}
}

func (e *TCP) Log() []Received {
	e.mu.Lock()
	defer e.mu.Unlock()
	return append([]Received(nil), e.log...)
}

func (e *TCP) Connections() int {
	e.mu.Lock()
	defer e.mu.Unlock()
	return e.conns
}

func (e *TCP) ClearLog() {
	e.mu.Lock()
	e.log = nil
	e.conns = 0
	e.mu.Unlock()
}

func (e *TCP) SetHandler(h func(e *TCP, r Received)) {
	e.mu.Lock()
	e.Handler = h
	e.mu.Unlock()
}

// PlayTCP performs the actions on the connection of r and leaves it open (the client closes it)
// unless an action says otherwise; it then waits for the peer to close so that the endpoint
// observes whether anything else is sent on the connection.
func (e *TCP) PlayTCP(r Received, actions []Action) {
	c := r.Conn
	defer c.Close()
	for _, a := range actions {
		if !sleepOrClosed(e.closed, a.Delay) {
			return
		}
		if a.Data != nil {
			c.Write(a.Data)
		}
		if a.Reset {
			if tc, ok := c.(*net.TCPConn); ok {
				tc.SetLinger(0)
			}
			return
		}
		if a.Close {
			return
		}
		if a.HalfClose {
			if tc, ok := c.(*net.TCPConn); ok {
				tc.CloseWrite()
			}
		}
		if a.Hold > 0 {
			sleepOrClosed(e.closed, a.Hold)
			return
		}
	}
	// wait (bounded) for the client to close; anything it still sends is appended to the log entry
	extra := make([]byte, 256)
	for {
		c.SetReadDeadline(time.Now().Add(250 * time.Millisecond))
		n, err := c.Read(extra)
		if n > 0 {
			e.mu.Lock()
			for i := range e.log {
				if e.log[i].Conn == c {
					e.log[i].Data = append(e.log[i].Data, extra[:n]...)
				}
			}
			e.mu.Unlock()
		}
		if err != nil {
			var ne net.Error
			if errors.As(err, &ne) && ne.Timeout() {
				select {
				case <-e.closed:
					return
				default:
					continue
				}
			}
			return
		}
	}
}

func ScriptTCP(actions func(r Received) []Action) func(e *TCP, r Received) {
	return func(e *TCP, r Received) { e.PlayTCP(r, actions(r)) }
}

func (e *TCP) Close() {
	select {
	case <-e.closed:
	default:
		close(e.closed)
	}
	e.L.Close()
	e.mu.Lock()
	for _, c := range e.open {
		c.Close()
	}
	e.mu.Unlock()
	e.wg.Wait()
}

func (f *Farm) Close() {
	f.mu.Lock()
	us, ts := f.udps, f.tcps
	f.udps, f.tcps = nil, nil
	f.mu.Unlock()
	for _, u := range us {
		u.Close()
	}
	for _, t := range ts {
		t.Close()
	}
}

// FreePort finds a currently free port on ip for both UDP and TCP (bind-and-release).
// FreePort returns a port that is free for UDP and TCP on ip. The port is taken from BELOW the range the operating system
// assigns to outgoing sockets (read from /proc; 10000..32767 by default): a port from that range could be handed to an
// unrelated socket of any process on the machine the moment it is released, and "the address can be bound again" would then
// fail for reasons that have nothing to do with the library.
func FreePort(ip [4]byte) (uint16, error) {
	lo, hi := 10000, 32767
	if b, err := os.ReadFile("/proc/sys/net/ipv4/ip_local_port_range"); err == nil {
		var a, z int
		if n, _ := fmt.Sscanf(string(b), "%d %d", &a, &z); n == 2 && a > 12000 {
			hi = a - 1
		}
	}
	for i := 0; i < 200; i++ {
		port := lo + int((portCounter.Add(7919)+uint64(os.Getpid())*104729+uint64(time.Now().UnixNano()>>10))%uint64(hi-lo))
		c, err := net.ListenUDP("udp4", &net.UDPAddr{IP: net.IP(ip[:]), Port: port})
		if err != nil {
			if i > 150 {
				return 0, err
			}
			continue
		}
		l, err := net.ListenTCP("tcp4", &net.TCPAddr{IP: net.IP(ip[:]), Port: port})
		c.Close()
		if err == nil {
			l.Close()
			return uint16(port), nil
		}
	}
	return 0, fmt.Errorf("no free port on %v", ip)
}

var portCounter atomic.Uint64

// FreePortAt reports whether `port` is free (UDP and TCP) on ip; it returns the port if so.
func FreePortAt(ip [4]byte, port uint16) (uint16, error) {
	c, err := net.ListenUDP("udp4", &net.UDPAddr{IP: net.IP(ip[:]), Port: int(port)})
	if err != nil {
		return 0, err
	}
	defer c.Close()
	l, err := net.ListenTCP("tcp4", &net.TCPAddr{IP: net.IP(ip[:]), Port: int(port)})
	if err != nil {
		return 0, err
	}
	l.Close()
	return port, nil
}

// Process-level resource probes -------------------------------------------------------------------------

// Sockets counts the socket descriptors of this process.
func Sockets() int {
	entries, err := os.ReadDir("/proc/self/fd")
	if err != nil {
		return -1
	}
	n := 0
	for _, e := range entries {
		if target, err := os.Readlink("/proc/self/fd/" + e.Name()); err == nil && strings.HasPrefix(target, "socket:") {
			n++
		}
	}
	return n
}

// LibraryGoroutines counts goroutines that have a uhppote-core frame on their stack, not counting
// goroutines that are (also) inside the harness' own calls into the library.
func LibraryGoroutines() (int, string) {
	buf := make([]byte, 1<<20)
	for {
		n := runtime.Stack(buf, true)
		if n < len(buf) {
			buf = buf[:n]
			break
		}
		buf = make([]byte, 2*len(buf))
	}
	count := 0
	var sample string
	for _, g := range strings.Split(string(buf), "\n\n") {
		if strings.Contains(g, "github.com/uhppoted/uhppote-core/") {
			count++
			if sample == "" {
				sample = g
			}
		}
	}
	return count, sample
}

// Blackhole opens a TCP endpoint on ip whose connection attempts neither complete nor get refused: a listening socket
// with backlog 0 whose accept queue is kept full by filler connections, so further SYNs are silently dropped (what a
// powered-off host behind a router looks like). Returns the port and a closer; ok=false if the platform does not
// produce a stalled connect this way.
func Blackhole(ip [4]byte) (port uint16, closer func(), ok bool) {
	fd, err := syscall.Socket(syscall.AF_INET, syscall.SOCK_STREAM, 0)
	if err != nil {
		return 0, nil, false
	}
	sa := &syscall.SockaddrInet4{Port: 0, Addr: ip}
	if err := syscall.Bind(fd, sa); err != nil {
		syscall.Close(fd)
		return 0, nil, false
	}
	if err := syscall.Listen(fd, 0); err != nil {
		syscall.Close(fd)
		return 0, nil, false
	}
	lsa, err := syscall.Getsockname(fd)
	if err != nil {
		syscall.Close(fd)
		return 0, nil, false
	}
	port = uint16(lsa.(*syscall.SockaddrInet4).Port)
	addr := fmt.Sprintf("%d.%d.%d.%d:%d", ip[0], ip[1], ip[2], ip[3], port)
	var fillers []net.Conn
	closer = func() {
		for _, c := range fillers {
			c.Close()
		}
		syscall.Close(fd)
	}
	// fill the accept queue until a connect stalls
	for i := 0; i < 8; i++ {
		c, err := net.DialTimeout("tcp4", addr, 150*time.Millisecond)
		if err != nil {
			var ne net.Error
			if errors.As(err, &ne) && ne.Timeout() {
				return port, closer, true
			}
			closer()
			return 0, nil, false
		}
		fillers = append(fillers, c)
	}
	closer()
	return 0, nil, false
}

// SlowAccept is a Blackhole that opens up after a while: connection attempts made before `drainAfter` has passed are
// silently dropped (the client's SYN is lost and retransmitted after about a second); then the accept queue is drained and
// every connection that completes from then on is handed to handler. What a controller behind a congested link looks like:
// the connect succeeds, late.
func SlowAccept(ip [4]byte, drainAfter time.Duration, handler func(c net.Conn)) (port uint16, closer func(), ok bool) {
	fd, err := syscall.Socket(syscall.AF_INET, syscall.SOCK_STREAM, 0)
	if err != nil {
		return 0, nil, false
	}
	if err := syscall.Bind(fd, &syscall.SockaddrInet4{Port: 0, Addr: ip}); err != nil {
		syscall.Close(fd)
		return 0, nil, false
	}
	if err := syscall.Listen(fd, 0); err != nil {
		syscall.Close(fd)
		return 0, nil, false
	}
	lsa, err := syscall.Getsockname(fd)
	if err != nil {
		syscall.Close(fd)
		return 0, nil, false
	}
	port = uint16(lsa.(*syscall.SockaddrInet4).Port)
	addr := fmt.Sprintf("%d.%d.%d.%d:%d", ip[0], ip[1], ip[2], ip[3], port)
	var mu sync.Mutex
	var conns []net.Conn
	closed := false
	closer = func() {
		mu.Lock()
		closed = true
		for _, c := range conns {
			c.Close()
		}
		mu.Unlock()
		syscall.Shutdown(fd, syscall.SHUT_RDWR)
		syscall.Close(fd)
	}
	stalled := false
	for i := 0; i < 8; i++ {
		c, err := net.DialTimeout("tcp4", addr, 150*time.Millisecond)
		if err != nil {
			var ne net.Error
			if errors.As(err, &ne) && ne.Timeout() {
				stalled = true
				break
			}
			closer()
			return 0, nil, false
		}
		mu.Lock()
		conns = append(conns, c)
		mu.Unlock()
	}
	if !stalled {
		closer()
		return 0, nil, false
	}
	go func() {
		time.Sleep(drainAfter)
		for {
			nfd, _, err := syscall.Accept(fd)
			if err != nil {
				return
			}
			f := os.NewFile(uintptr(nfd), "slow-accept")
			c, err := net.FileConn(f)
			f.Close()
			if err != nil {
				continue
			}
			mu.Lock()
			if closed {
				mu.Unlock()
				c.Close()
				return
			}
			conns = append(conns, c)
			mu.Unlock()
			go handler(c) // the fillers come first and never send anything: the handler must cope with silent connections
		}
	}()
	return port, closer, true
}
