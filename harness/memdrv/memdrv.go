// Package memdrv is an in-memory replacement for the library's UDP/TCP transport driver
// (installed through the `verif` hook). It records every driver invocation and plays a
// scripted sequence of incoming datagrams with the semantics of the real driver:
// BroadcastTo offers datagrams to the filter callback until one is accepted or the script
// is exhausted (= timeout), SendUDP/SendTCP return the first datagram (or time out),
// Broadcast returns all of them, and function 0x96 (set-address) never reads.
package memdrv

import (
	"net"
	"os"
	"sync"
	"time"

	"github.com/uhppoted/uhppote-core/uhppote"
)

type Sent struct {
	Method  string // Broadcast | BroadcastTo | SendUDP | SendTCP
	Addr    string
	Request []byte
}

// ErrTimeout is what the real driver returns when the deadline passes: a *net.OpError that
// wraps os.ErrDeadlineExceeded and reports Timeout() == true.
var ErrTimeout error = &net.OpError{Op: "read", Net: "udp", Err: os.ErrDeadlineExceeded}

type Driver struct {
	mu        sync.Mutex
	Sent      []Sent
	Script    [][]byte // incoming datagrams, in order
	Consumed  int      // how many datagrams of the script were read by the last call
	Delivered [][]byte // the buffers handed to the library (so that a test can scribble over them later)
	SendErr   error    // if set, every send fails with this error
	// Auto, when set, answers every request by itself (the script is not used): for checks in which several goroutines share
	// one client, where a script could not tell whose reply is whose
	Auto func(request []byte) []byte
	// Shared, when set, makes Broadcast answer every call with fresh copies of the WHOLE script (nothing is consumed): for
	// discoveries that run at the same time. Dwell is how long Broadcast takes (the real driver collects for the whole timeout).
	Shared bool
	Dwell  time.Duration

	listenCB func([]byte)
	signal   chan any
	done     chan any
	inflight sync.RWMutex
	closed   bool
}

var _ uhppote.Driver = (*Driver)(nil)

func New() *Driver { return &Driver{} }

func (d *Driver) Reset(script ...[]byte) {
	d.mu.Lock()
	d.Sent = nil
	d.Script = script
	d.Consumed = 0
	d.Delivered = nil
	d.mu.Unlock()
}

func (d *Driver) record(method, addr string, req []byte) error {
	d.mu.Lock()
	defer d.mu.Unlock()
	d.Sent = append(d.Sent, Sent{method, addr, append([]byte(nil), req...)})
	d.Consumed = 0
	return d.SendErr
}

func (d *Driver) next() ([]byte, bool) {
	d.mu.Lock()
	defer d.mu.Unlock()
	if d.Consumed >= len(d.Script) {
		return nil, false
	}
	src := d.Script[d.Consumed]
	d.Consumed++
	// like the real driver: a fresh (larger) receive buffer, sliced to the datagram length
	buf := make([]byte, len(src), len(src)+64)
	copy(buf, src)
	d.Delivered = append(d.Delivered, buf)
	return buf, true
}

func (d *Driver) Broadcast(addr *net.UDPAddr, request []byte) ([][]byte, error) {
	if err := d.record("Broadcast", addr.String(), request); err != nil {
		return nil, err
	}
	replies := [][]byte{}
	if len(request) > 1 && request[1] == 0x96 {
		return replies, nil
	}
	if d.Dwell > 0 {
		time.Sleep(d.Dwell)
	}
	if d.Shared {
		d.mu.Lock()
		defer d.mu.Unlock()
		for _, src := range d.Script {
			buf := make([]byte, len(src), len(src)+64)
			copy(buf, src)
			d.Delivered = append(d.Delivered, buf)
			replies = append(replies, buf)
		}
		return replies, nil
	}
	for {
		b, ok := d.next()
		if !ok {
			return replies, nil
		}
		replies = append(replies, b)
	}
}

func (d *Driver) BroadcastTo(addr *net.UDPAddr, request []byte, callback func([]byte) bool) ([]byte, error) {
	if err := d.record("BroadcastTo", addr.String(), request); err != nil {
		return nil, err
	}
	if len(request) > 1 && request[1] == 0x96 {
		return nil, nil
	}
	if d.Auto != nil {
		if b := d.Auto(request); b != nil && callback(b) {
			return b, nil
		}
		return nil, ErrTimeout
	}
	for {
		b, ok := d.next()
		if !ok {
			return nil, ErrTimeout
		}
		if callback(b) {
			return b, nil
		}
	}
}

func (d *Driver) direct(method, addr string, request []byte) ([]byte, error) {
	if err := d.record(method, addr, request); err != nil {
		return nil, err
	}
	if len(request) > 1 && request[1] == 0x96 {
		return nil, nil
	}
	if d.Auto != nil {
		if b := d.Auto(request); b != nil {
			return b, nil
		}
		return nil, ErrTimeout
	}
	b, ok := d.next()
	if !ok {
		return nil, ErrTimeout
	}
	if len(b) > 1024 { // the real driver reads into a 1024-byte buffer
		b = b[:1024]
	}
	return b, nil
}

func (d *Driver) SendUDP(addr *net.UDPAddr, request []byte) ([]byte, error) {
	return d.direct("SendUDP", addr.String(), request)
}

func (d *Driver) SendTCP(addr *net.TCPAddr, request []byte) ([]byte, error) {
	return d.direct("SendTCP", addr.String(), request)
}

// Listen stores the callback; Push delivers datagrams to it synchronously (reusing one
// receive buffer, like the real driver does).
func (d *Driver) Listen(signal chan any, done chan any, callback func([]byte)) error {
	d.mu.Lock()
	d.listenCB = callback
	d.signal = signal
	d.done = done
	d.closed = false
	d.mu.Unlock()
	go func() {
		<-signal
		// like the real driver: 'done' is closed only after the read loop has left the callback
		d.inflight.Lock()
		close(done)
		d.closed = true
		d.inflight.Unlock()
	}()
	return nil
}

var listenBuf = make([]byte, 2048)

// Listening reports whether the library has called the driver's Listen (Push panics before that).
func (d *Driver) Listening() bool {
	d.mu.Lock()
	defer d.mu.Unlock()
	return d.listenCB != nil
}

func (d *Driver) Push(datagram []byte) {
	d.mu.Lock()
	cb := d.listenCB
	d.mu.Unlock()
	if cb == nil {
		panic("memdrv: Push without Listen")
	}
	d.inflight.RLock()
	defer d.inflight.RUnlock()
	if d.closed {
		return // the listener has been stopped: the datagram is never read
	}
	n := copy(listenBuf, datagram)
	cb(listenBuf[:n])
}

// Scribble overwrites every buffer handed to the library so far.
func (d *Driver) Scribble(v byte) {
	d.mu.Lock()
	defer d.mu.Unlock()
	for _, b := range d.Delivered {
		b = b[:cap(b)]
		for i := range b {
			b[i] = v
		}
	}
}

func (d *Driver) Sends() []Sent {
	d.mu.Lock()
	defer d.mu.Unlock()
	return append([]Sent(nil), d.Sent...)
}
