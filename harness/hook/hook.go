// Package hook builds library clients from a primitive, JSON-serialisable configuration,
// either on the in-memory driver (hook layer) or on the real UDP/TCP driver (socket layer).
package hook

import (
	"net"
	"net/netip"
	"time"

	"github.com/uhppoted/uhppote-core/types"
	"github.com/uhppoted/uhppote-core/uhppote"

	"verif/harness/ev"
	"verif/harness/memdrv"
)

type DeviceCfg struct {
	Name     string   `json:"name,omitempty"`
	Serial   uint32   `json:"serial"`
	IP       [4]byte  `json:"ip"`
	Port     uint16   `json:"port"`
	HasAddr  bool     `json:"has_addr"` // false: zero-value ControllerAddr (not configured with an address)
	Protocol string   `json:"protocol"`
	Doors    []string `json:"doors,omitempty"`
	ViaNew   bool     `json:"via_new,omitempty"` // build with uhppote.NewDevice (normalises the protocol) instead of a struct literal
	// TZ is the controller's configured time zone: "" = as before (time.UTC in a literal, nil through NewDevice), "nil",
	// "Local", "UTC", a fixed offset "+hh:mm" / "-hh:mm", or an IANA name. No listed property lets the wire bytes, the
	// routing or a decoded value depend on it.
	TZ string `json:"tz,omitempty"`
	// RawIP, when set, replaces IP by an arbitrary IP literal ("fe80::1", "::ffff:10.0.0.1", "::1", "fe80::1%eth0"): a
	// configuration value the library must survive (C04); which route it gets is not judged.
	RawIP string `json:"raw_ip,omitempty"`
}

// Loc resolves a TZ string ("" -> def).
func Loc(tz string, def *time.Location) *time.Location {
	switch tz {
	case "":
		return def
	case "nil":
		return nil
	case "Local":
		return time.Local
	case "UTC":
		return time.UTC
	}
	if len(tz) == 6 && (tz[0] == '+' || tz[0] == '-') && tz[3] == ':' {
		h := int(tz[1]-'0')*10 + int(tz[2]-'0')
		m := int(tz[4]-'0')*10 + int(tz[5]-'0')
		secs := h*3600 + m*60
		if tz[0] == '-' {
			secs = -secs
		}
		return time.FixedZone(tz, secs)
	}
	if loc, err := time.LoadLocation(tz); err == nil {
		return loc
	}
	return def
}

type ClientCfg struct {
	BindIP [4]byte `json:"bind_ip"`
	// BindNoIP: the bind address has a port but no IP address at all (netip.AddrPortFrom(netip.Addr{}, port) - what a
	// configuration that only names the port yields); sockets bind to <any>:port
	BindNoIP bool `json:"bind_without_ip,omitempty"`
	// NoBind: no bind address at all (the zero types.BindAddr{}): the library falls back to <any>:0
	NoBind        bool        `json:"no_bind_address,omitempty"`
	BindPort      uint16      `json:"bind_port"`
	HasBroadcast  bool        `json:"has_broadcast"`
	BroadcastIP   [4]byte     `json:"broadcast_ip"`
	BroadcastPort uint16      `json:"broadcast_port"`
	HasListen     bool        `json:"has_listen"`
	ListenIP      [4]byte     `json:"listen_ip"`
	ListenPort    uint16      `json:"listen_port"`
	TimeoutMs     int         `json:"timeout_ms"`
	Devices       []DeviceCfg `json:"devices"`
	Debug         bool        `json:"debug,omitempty"` // debug=true: the library prints hex dumps (stdout is muted)
	// TimeoutNs, when non-zero, is the timeout in nanoseconds (degenerate values: 1, 7, negative); ZeroTimeout asks for a
	// timeout of exactly 0. A client may be built with any time.Duration.
	TimeoutNs   int64 `json:"timeout_ns,omitempty"`
	ZeroTimeout bool  `json:"zero_timeout,omitempty"`
}

func (d DeviceCfg) Device() uhppote.Device {
	addr := types.ControllerAddr{}
	if d.HasAddr {
		addr = types.ControllerAddrFrom(netip.AddrFrom4(d.IP), d.Port)
		if d.RawIP != "" {
			if a, err := netip.ParseAddr(d.RawIP); err == nil {
				addr = types.ControllerAddrFrom(a, d.Port)
			}
		}
	}
	doors := append([]string(nil), d.Doors...)
	if d.ViaNew {
		return uhppote.NewDevice(d.Name, d.Serial, addr, d.Protocol, doors, Loc(d.TZ, nil))
	}
	return uhppote.Device{Name: d.Name, DeviceID: d.Serial, Address: addr, Doors: doors, TimeZone: Loc(d.TZ, time.UTC), Protocol: d.Protocol}
}

func (c ClientCfg) Devices_() []uhppote.Device {
	devices := make([]uhppote.Device, 0, len(c.Devices))
	for _, d := range c.Devices {
		devices = append(devices, d.Device())
	}
	return devices
}

func (c ClientCfg) addrs() (types.BindAddr, types.BroadcastAddr, types.ListenAddr, time.Duration) {
	bind := types.BindAddrFrom(netip.AddrFrom4(c.BindIP), c.BindPort)
	if c.BindNoIP {
		bind = types.BindAddrFrom(netip.Addr{}, c.BindPort)
	}
	if c.NoBind {
		bind = types.BindAddr{}
	}
	bcast := types.BroadcastAddr{}
	if c.HasBroadcast {
		bcast = types.BroadcastAddrFrom(netip.AddrFrom4(c.BroadcastIP), c.BroadcastPort)
	}
	listen := types.ListenAddr{}
	if c.HasListen {
		listen = types.ListenAddrFrom(netip.AddrFrom4(c.ListenIP), c.ListenPort)
	}
	timeout := time.Duration(c.TimeoutMs) * time.Millisecond
	if timeout == 0 {
		timeout = 500 * time.Millisecond
	}
	if c.TimeoutNs != 0 {
		timeout = time.Duration(c.TimeoutNs)
	}
	if c.ZeroTimeout {
		timeout = 0
	}
	return bind, bcast, listen, timeout
}

// Mem builds a client whose transport is the in-memory driver.
func Mem(c ClientCfg) (uhppote.IUHPPOTE, *memdrv.Driver) {
	return MemWith(c, c.Devices_())
}

// MemWith is Mem with a caller-owned device slice (C17 mutates it afterwards).
// MemConcurrent is Mem with a driver that acknowledges every request by itself (same header, 'succeeded'), so that several
// goroutines can share the client.
func MemConcurrent(c ClientCfg) (uhppote.IUHPPOTE, *memdrv.Driver) {
	u, d := Mem(c)
	d.Auto = func(req []byte) []byte {
		if len(req) != 64 {
			return nil
		}
		b := make([]byte, 64)
		copy(b[:8], req[:8])
		b[8] = 1
		return b
	}
	return u, d
}

func MemWith(c ClientCfg, devices []uhppote.Device) (uhppote.IUHPPOTE, *memdrv.Driver) {
	ev.MuteLibraryStdout()
	d := memdrv.New()
	bind, bcast, listen, timeout := c.addrs()
	u := uhppote.NewUHPPOTEWithDriver(bind, bcast, listen, timeout, devices, c.Debug, func(uhppote.Driver) uhppote.Driver { return d })
	return u, d
}

// Real builds a client on the library's own UDP/TCP driver.
func Real(c ClientCfg) uhppote.IUHPPOTE {
	ev.MuteLibraryStdout()
	bind, bcast, listen, timeout := c.addrs()
	return uhppote.NewUHPPOTE(bind, bcast, listen, timeout, c.Devices_(), c.Debug)
}

// Route is the reference routing decision (C06): which driver method and destination the
// protocol documentation prescribes for a request to `serial`.
func (c ClientCfg) Route(serial uint32, discovery bool) (method, addr string) {
	bcast := "255.255.255.255:60000"
	if c.HasBroadcast {
		bcast = netip.AddrPortFrom(netip.AddrFrom4(c.BroadcastIP), c.BroadcastPort).String()
	}
	if discovery {
		return "Broadcast", bcast
	}
	// the last configured entry for a serial number wins (later entries replace earlier ones)
	var dev *DeviceCfg
	for i := range c.Devices {
		if c.Devices[i].Serial == serial {
			dev = &c.Devices[i]
		}
	}
	if dev == nil || !dev.HasAddr || dev.Port == 0 || dev.IP == [4]byte{} {
		return "BroadcastTo", bcast
	}
	dest := netip.AddrPortFrom(netip.AddrFrom4(dev.IP), dev.Port).String()
	if dev.Protocol == "tcp" {
		return "SendTCP", dest
	}
	return "SendUDP", dest
}

// Lookup returns the configured entry that is in effect for serial (nil if none).
func (c ClientCfg) Lookup(serial uint32) *DeviceCfg {
	var dev *DeviceCfg
	for i := range c.Devices {
		if c.Devices[i].Serial == serial {
			dev = &c.Devices[i]
		}
	}
	return dev
}

// Paused wraps the library's own UDP/TCP driver so that every driver call returns to the library only after `pause(method)`
// has run (it may sleep, yield or do nothing): the moment between "the driver has the replies" and "the library decodes them"
// is stretched, which is where a buffer that was recycled too early is handed to somebody else. Everything else - sockets,
// deadlines, the read loops - is the real driver's.
type paused struct {
	inner uhppote.Driver
	pause func(method string)
}

func (p paused) Broadcast(a *net.UDPAddr, r []byte) ([][]byte, error) {
	out, err := p.inner.Broadcast(a, r)
	p.pause("Broadcast")
	return out, err
}
func (p paused) BroadcastTo(a *net.UDPAddr, r []byte, cb func([]byte) bool) ([]byte, error) {
	out, err := p.inner.BroadcastTo(a, r, cb)
	p.pause("BroadcastTo")
	return out, err
}
func (p paused) SendUDP(a *net.UDPAddr, r []byte) ([]byte, error) {
	out, err := p.inner.SendUDP(a, r)
	p.pause("SendUDP")
	return out, err
}
func (p paused) SendTCP(a *net.TCPAddr, r []byte) ([]byte, error) {
	out, err := p.inner.SendTCP(a, r)
	p.pause("SendTCP")
	return out, err
}
func (p paused) Listen(s chan any, d chan any, cb func([]byte)) error {
	return p.inner.Listen(s, d, cb)
}

// RealPaused builds a client on the library's own driver with a pause hook between the driver and the library.
func RealPaused(c ClientCfg, pause func(method string)) uhppote.IUHPPOTE {
	ev.MuteLibraryStdout()
	bind, bcast, listen, timeout := c.addrs()
	return uhppote.NewUHPPOTEWithDriver(bind, bcast, listen, timeout, c.Devices_(), c.Debug, func(inner uhppote.Driver) uhppote.Driver { return paused{inner, pause} })
}
