// Package cold runs "first use in a fresh process" scenarios. Lazily initialised state (a table built on first call, a
// per-type layout cache, a memo) is cold exactly once per process, so a defect in its publication needs many fresh
// processes to be met: the parent test re-executes its own test binary n times, each child runs only TestColdChild,
// which releases a group of goroutines at the same instant into the very first use and judges every result with the
// check's ordinary oracle. Children report failures on stdout; the parent turns them into ordinary check failures.
package cold

import (
	"bufio"
	"bytes"
	"encoding/json"
	"fmt"
	"os"
	"os/exec"
	"runtime"
	"strconv"
	"strings"
	"sync"
	"sync/atomic"
	"time"
)

type Fail struct {
	Fingerprint string          `json:"fingerprint"`
	Msg         string          `json:"msg"`
	Case        json.RawMessage `json:"case,omitempty"`
	Child       int             `json:"child"`
}

const marker = "COLD-FAIL "
const okMarker = "COLD-DONE "

// Scenario is the scenario this process has to run as a child ("" in the parent).
func Scenario() string { return os.Getenv("VERIF_COLD") }

// Index is the child's number (children vary their inputs and group sizes with it).
func Index() int {
	n, _ := strconv.Atoi(os.Getenv("VERIF_COLD_INDEX"))
	return n
}

var out = os.Stdout // captured before anything mutes os.Stdout

// Report is called by a child for a failing case.
func Report(fingerprint, msg string, c any) {
	raw, _ := json.Marshal(c)
	b, _ := json.Marshal(Fail{Fingerprint: fingerprint, Msg: msg, Case: raw, Child: Index()})
	fmt.Fprintf(out, "%s%s\n", marker, b)
}

// Done is called by a child when it has finished; n = number of judged first-use results.
func Done(n int) { fmt.Fprintf(out, "%s%d\n", okMarker, n) }

// Release starts g goroutines that spin on a flag and are released together; it returns when all have finished.
func Release(g int, f func(worker int)) {
	if max := runtime.GOMAXPROCS(0) - 1; g > max && max >= 2 {
		g = max // every goroutine needs a processor of its own to spin on, and the releasing goroutine needs one too
	}
	var ready sync.WaitGroup
	var wg sync.WaitGroup
	var flag atomic.Bool
	for w := 0; w < g; w++ {
		ready.Add(1)
		wg.Add(1)
		go func(w int) {
			defer wg.Done()
			runtime.LockOSThread()
			ready.Done()
			for spins := 1; !flag.Load(); spins++ {
				if spins%4096 == 0 {
					runtime.Gosched()
				}
			}
			f(w)
		}(w)
	}
	ready.Wait()
	time.Sleep(200 * time.Microsecond) // let every goroutine reach its spin loop
	flag.Store(true)
	wg.Wait()
}

// Stagger busy-waits for about n x 100ns (children stagger their goroutines by a few microseconds so that some
// arrive while the first one is still initialising).
func Stagger(n int) {
	t0 := time.Now()
	for time.Since(t0) < time.Duration(n)*100*time.Nanosecond {
	}
}

// Children runs n children, `parallel` at a time. It returns the failures they reported, the number of children
// that finished properly, the total of their judged results, and the output of children that died.
func Children(scenario string, n, parallel int) (fails []Fail, finished int, judged int64, crashes []string) {
	var mu sync.Mutex
	sem := make(chan struct{}, parallel)
	var wg sync.WaitGroup
	for i := 0; i < n; i++ {
		wg.Add(1)
		sem <- struct{}{}
		go func(i int) {
			defer wg.Done()
			defer func() { <-sem }()
			cmd := exec.Command(os.Args[0], "-test.run", "^TestColdChild$", "-test.count=1", "-test.timeout=300s")
			env := make([]string, 0, len(os.Environ())+3)
			for _, e := range os.Environ() {
				if strings.HasPrefix(e, "VERIF_OUT=") || strings.HasPrefix(e, "VERIF_COLD") || strings.HasPrefix(e, "GORACE=") {
					continue
				}
				env = append(env, e)
			}
			env = append(env, "VERIF_COLD="+scenario, "VERIF_COLD_INDEX="+strconv.Itoa(i))
			cmd.Env = env
			var buf bytes.Buffer
			cmd.Stdout = &buf
			cmd.Stderr = &buf
			err := cmd.Run()
			mu.Lock()
			defer mu.Unlock()
			done := false
			sc := bufio.NewScanner(bytes.NewReader(buf.Bytes()))
			sc.Buffer(make([]byte, 1<<20), 1<<24)
			for sc.Scan() {
				line := sc.Text()
				if strings.HasPrefix(line, marker) {
					var f Fail
					if json.Unmarshal([]byte(line[len(marker):]), &f) == nil {
						fails = append(fails, f)
					}
				} else if strings.HasPrefix(line, okMarker) {
					k, _ := strconv.ParseInt(line[len(okMarker):], 10, 64)
					judged += k
					done = true
				}
			}
			if done {
				finished++
			} else {
				s := buf.String()
				if len(s) > 6000 {
					s = s[:3000] + "\n...\n" + s[len(s)-3000:]
				}
				crashes = append(crashes, fmt.Sprintf("child %d (%v):\n%s", i, err, s))
			}
		}(i)
	}
	wg.Wait()
	return
}
