package cold

import (
	"encoding/json"
	"strings"
	"testing"

	"verif/harness/ev"
	"verif/harness/rp"
)

// Prop is the parent side of a cold-start scenario as an rp.Prop: Run starts N fresh processes; Replay starts them again
// (a cold-start failure is schedule-dependent, the saved case names the scenario and the failing input, and replaying
// means meeting the first use again in fresh processes).
type Prop struct {
	Name     string // check name in evidence and replay files
	Scenario string
	N        int // fresh processes for this shard
}

func (p Prop) PropName() string { return p.Name }

type replayCase struct {
	Scenario string          `json:"scenario"`
	Child    int             `json:"child"`
	Case     json.RawMessage `json:"case,omitempty"`
}

func (p Prop) run(n int) *rp.Fail {
	fails, finished, judged, crashes := Children(p.Scenario, n, 8)
	ev.Bulk("cold/"+p.Scenario+"/first-use-results", judged, judged)
	ev.NoteAdd("cold/"+p.Scenario+"/fresh-processes", int64(finished))
	for _, c := range crashes {
		if strings.Contains(c, "github.com/uhppoted/uhppote-core/") && (strings.Contains(c, "panic:") || strings.Contains(c, "fatal error:")) {
			return &rp.Fail{Fingerprint: "cold/" + p.Scenario + "/crash", Msg: "a fresh process crashed inside the library during concurrent first use:\n" + c}
		}
		// a child that did not finish for any other reason (killed, out of time on an overloaded machine) says nothing about
		// the library: it is counted as not run; only when no child at all finished is that the harness' problem
		ev.Excluded("cold-start child that did not finish (overloaded machine)", 1)
		if finished == 0 {
			ev.HarnessError("no cold-start child of scenario %s finished; last: %s", p.Scenario, c)
		}
	}
	if len(fails) > 0 {
		f := fails[0]
		return &rp.Fail{Fingerprint: f.Fingerprint + "/cold-start", Msg: f.Msg + "  (concurrent first use in a fresh process; " + itoa(len(fails)) + " failing results in " + itoa(n) + " processes)"}
	}
	return nil
}

func itoa(n int) string {
	b, _ := json.Marshal(n)
	return string(b)
}

func (p Prop) Run(t *testing.T) {
	if Scenario() != "" || p.N <= 0 {
		return
	}
	if f := p.run(p.N); f != nil {
		if ev.Failure(p.Name, f.Fingerprint, f.Msg, replayCase{Scenario: p.Scenario}) {
			t.Errorf("%s: [%s] %s", p.Name, f.Fingerprint, f.Msg)
		}
	}
}

func (p Prop) Replay(raw json.RawMessage) *rp.Fail {
	n := p.N * 4
	if n < 32 {
		n = 32
	}
	return p.run(n)
}
