package gen

import (
	"pgregory.net/rapid"

	"verif/harness/spec"
)

func bcdByte(v int) byte { return byte((v/10)<<4 | v%10) }

func badNibble(t *rapid.T, b []byte, label string) {
	i := rapid.IntRange(0, 2*len(b)-1).Draw(t, label+".nibble")
	v := byte(rapid.IntRange(10, 15).Draw(t, label+".value"))
	if i%2 == 0 {
		b[i/2] = b[i/2]&0x0f | v<<4
	} else {
		b[i/2] = b[i/2]&0xf0 | v
	}
}

// FieldBytes draws the wire bytes of one field. With bad=false the bytes are in the field's
// domain; with bad=true they are outside it (for kinds whose every byte pattern is in-domain
// bad is ignored).
func FieldBytes(t *rapid.T, k spec.Kind, bad bool, label string) []byte {
	b := make([]byte, k.Width())
	switch k {
	case spec.U8:
		b[0] = U8(t, label)
	case spec.U16, spec.Version:
		spec.PutLE16(b, uint16(rapid.IntRange(0, 65535).Draw(t, label)))
	case spec.U32, spec.Serial:
		spec.PutLE32(b, U32(t, label))
	case spec.Bool:
		if bad {
			b[0] = byte(rapid.IntRange(2, 255).Draw(t, label))
		} else {
			b[0] = byte(rapid.IntRange(0, 1).Draw(t, label))
		}
	case spec.IPv4:
		ip := IPv4(t, label)
		copy(b, ip[:])
	case spec.AddrPort:
		ip := IPv4(t, label)
		copy(b, ip[:])
		spec.PutLE16(b[4:], uint16(rapid.IntRange(0, 65535).Draw(t, label+".port")))
	case spec.MAC:
		for i := range b {
			b[i] = rapid.Byte().Draw(t, label)
		}
	case spec.PIN:
		v := uint32(rapid.IntRange(0, 999999).Draw(t, label))
		if rapid.IntRange(0, 15).Draw(t, label+".big") == 0 {
			v = uint32(rapid.IntRange(1000000, 0xffffff).Draw(t, label))
		}
		b[0], b[1], b[2] = byte(v), byte(v>>8), byte(v>>16)
	case spec.HHmm:
		if !bad {
			spec.PutHM(b, HM(t, label))
		} else {
			switch rapid.IntRange(0, 4).Draw(t, label+".bad") {
			case 0:
				spec.PutHM(b, spec.HM{H: 24, M: rapid.IntRange(1, 59).Draw(t, label+".m")})
			case 1:
				spec.PutHM(b, spec.HM{H: rapid.IntRange(0, 23).Draw(t, label+".h"), M: rapid.IntRange(60, 99).Draw(t, label+".m")})
			case 2:
				spec.PutHM(b, spec.HM{H: rapid.IntRange(25, 99).Draw(t, label+".h"), M: rapid.IntRange(0, 59).Draw(t, label+".m")})
			case 3:
				spec.PutHM(b, spec.HM{H: 23, M: 60})
			default:
				spec.PutHM(b, HM(t, label))
				badNibble(t, b, label)
			}
		}
	case spec.Date:
		if !bad {
			if rapid.IntRange(0, 7).Draw(t, label+".zero") == 0 {
				return b // all-zero: no date
			}
			if rapid.IntRange(0, 19).Draw(t, label+".leap") == 0 {
				// 29 February where the rules differ: century years divisible by 400, ordinary leap years
				spec.PutDate(b, spec.Civil{Y: rapid.SampledFrom([]int{2000, 2400, 1600, 400, 2024, 2096, 4, 9996}).Draw(t, label+".leap.year"), M: 2, D: 29})
				return b
			}
			spec.PutDate(b, Civil(t, label))
		} else {
			c := Civil(t, label)
			if c.Y < 2 {
				c.Y = 2024
			}
			switch rapid.IntRange(0, 4).Draw(t, label+".bad") {
			case 0:
				c.M = rapid.SampledFrom([]int{0, 13, 19, 20, 99}).Draw(t, label+".m")
			case 1:
				c.D = rapid.SampledFrom([]int{0, 32, 39, 40, 99}).Draw(t, label+".d")
			case 2:
				c.M, c.D = rapid.SampledFrom([]int{2, 4, 6, 9, 11}).Draw(t, label+".m"), 31
			case 3:
				// 29 February of a non-leap year
				for spec.IsLeap(c.Y) {
					c.Y++
				}
				if c.Y > 9999 {
					c.Y = 2023
				}
				if rapid.Bool().Draw(t, label+".century") {
					// divisible by 4 and by 100, not by 400
					c.Y = rapid.SampledFrom([]int{1900, 2100, 2200, 2300, 2500, 1800, 1700, 100, 200, 300, 9900}).Draw(t, label+".century.year")
				}
				c.M, c.D = 2, 29
			default:
				spec.PutDate(b, c)
				badNibble(t, b, label)
				return b
			}
			spec.PutDate(b, c)
		}
	case spec.DateTime:
		if !bad {
			switch rapid.IntRange(0, 9).Draw(t, label+".zero") {
			case 0:
				return b
			case 1:
				b[0] = 0x20
				return b
			case 2:
				// next to the 'no date/time' encodings: the same date with a time of day, the same time on the neighbouring days
				x := rapid.SampledFrom([]spec.CivilDT{{Y: 1, M: 1, D: 1}, {Y: 1, M: 1, D: 2}, {Y: 1, M: 2, D: 1}, {Y: 2, M: 1, D: 1}, {Y: 2000, M: 1, D: 1}, {Y: 1, M: 12, D: 31}, {Y: 100, M: 1, D: 1}}).Draw(t, label+".near-zero")
				if rapid.Bool().Draw(t, label+".near-zero.time") || (x.Y == 1 && x.M == 1 && x.D == 1) {
					x.H, x.Mi, x.S = rapid.SampledFrom([]int{0, 0, 1, 12, 23}).Draw(t, label+".h"), rapid.SampledFrom([]int{0, 0, 1, 59}).Draw(t, label+".mi"), rapid.SampledFrom([]int{0, 1, 59}).Draw(t, label+".s")
				}
				spec.PutDateTime(b, x)
				return b
			}
			c := Civil(t, label)
			spec.PutDateTime(b, spec.CivilDT{Y: c.Y, M: c.M, D: c.D, H: rapid.IntRange(0, 23).Draw(t, label+".h"), Mi: rapid.IntRange(0, 59).Draw(t, label+".mi"), S: rapid.IntRange(0, 59).Draw(t, label+".s")})
		} else {
			c := Civil(t, label)
			if c.Y < 2 {
				c.Y = 2024
			}
			dt := spec.CivilDT{Y: c.Y, M: c.M, D: c.D, H: rapid.IntRange(0, 23).Draw(t, label+".h"), Mi: rapid.IntRange(0, 59).Draw(t, label+".mi"), S: rapid.IntRange(0, 59).Draw(t, label+".s")}
			switch rapid.IntRange(0, 7).Draw(t, label+".bad") {
			case 7: // the out-of-domain times of day closest to the domain: 24:00:00 (the END of a day in HH:mm terms, but no time of
				// day of a date-time), 23:59:60, 23:60:00
				x := rapid.SampledFrom([][3]int{{24, 0, 0}, {24, 0, 0}, {23, 59, 60}, {23, 60, 0}, {24, 0, 1}, {24, 1, 0}}).Draw(t, label+".edge")
				dt.H, dt.Mi, dt.S = x[0], x[1], x[2]
			case 0:
				dt.H = rapid.SampledFrom([]int{24, 25, 30, 99}).Draw(t, label+".hh")
			case 1:
				dt.Mi = rapid.SampledFrom([]int{60, 61, 99}).Draw(t, label+".mm")
			case 2:
				dt.S = rapid.SampledFrom([]int{60, 61, 99}).Draw(t, label+".ss")
			case 3:
				dt.M = rapid.SampledFrom([]int{0, 13, 99}).Draw(t, label+".mo")
			case 4:
				dt.D = rapid.SampledFrom([]int{0, 32, 99}).Draw(t, label+".dd")
			case 5:
				dt.M, dt.D = 2, 30
			default:
				spec.PutDateTime(b, dt)
				badNibble(t, b, label)
				return b
			}
			spec.PutDateTime(b, dt)
		}
	case spec.SysDate:
		if !bad {
			if rapid.IntRange(0, 9).Draw(t, label+".zero") == 0 {
				return b
			}
			y := rapid.IntRange(0, 68).Draw(t, label+".yy")
			if rapid.IntRange(0, 19).Draw(t, label+".late") == 0 {
				y = rapid.IntRange(69, 99).Draw(t, label+".yy")
			}
			m := rapid.IntRange(1, 12).Draw(t, label+".m")
			d := rapid.IntRange(1, spec.DaysIn(2000+y, m)).Draw(t, label+".d")
			b[0], b[1], b[2] = bcdByte(y), bcdByte(m), bcdByte(d)
		} else {
			y, m, d := rapid.IntRange(0, 68).Draw(t, label+".yy"), rapid.IntRange(1, 12).Draw(t, label+".m"), rapid.IntRange(1, 28).Draw(t, label+".d")
			switch rapid.IntRange(0, 3).Draw(t, label+".bad") {
			case 0:
				m = rapid.SampledFrom([]int{0, 13, 99}).Draw(t, label+".mo")
			case 1:
				d = rapid.SampledFrom([]int{0, 32, 99}).Draw(t, label+".dd")
			case 2:
				m, d = 2, 30
			default:
				b[0], b[1], b[2] = bcdByte(y), bcdByte(m), bcdByte(d)
				badNibble(t, b, label)
				return b
			}
			b[0], b[1], b[2] = bcdByte(y), bcdByte(m), bcdByte(d)
		}
	case spec.SysTime:
		h, m, s := rapid.IntRange(0, 23).Draw(t, label+".h"), rapid.IntRange(0, 59).Draw(t, label+".m"), rapid.IntRange(0, 59).Draw(t, label+".s")
		if bad {
			switch rapid.IntRange(0, 3).Draw(t, label+".bad") {
			case 0:
				h = rapid.SampledFrom([]int{24, 25, 99}).Draw(t, label+".hh")
			case 1:
				m = rapid.SampledFrom([]int{60, 99}).Draw(t, label+".mm")
			case 2:
				s = rapid.SampledFrom([]int{60, 99}).Draw(t, label+".ss")
			default:
				b[0], b[1], b[2] = bcdByte(h), bcdByte(m), bcdByte(s)
				badNibble(t, b, label)
				return b
			}
		}
		b[0], b[1], b[2] = bcdByte(h), bcdByte(m), bcdByte(s)
	}
	return b
}

// HasBad reports whether a kind has byte patterns outside its domain.
func HasBad(k spec.Kind) bool {
	switch k {
	case spec.Bool, spec.HHmm, spec.Date, spec.DateTime, spec.SysDate, spec.SysTime:
		return true
	}
	return false
}

// Payload draws a full message for the layout: correct header, every field from its class
// generator (nBad of the fields that have an out-of-domain side are drawn out of domain), and
// optionally noise in the bytes that belong to no field.
func Payload(t *rapid.T, l spec.Layout, som byte, serial uint32, nBad int, noise bool) []byte {
	b := make([]byte, 64)
	spec.Header(b, som, l.Code, serial)
	var candidates []int
	for i, f := range l.Fields {
		if HasBad(f.Kind) {
			candidates = append(candidates, i)
		}
	}
	badSet := map[int]bool{}
	for n := 0; n < nBad && len(candidates) > 0; n++ {
		badSet[candidates[rapid.IntRange(0, len(candidates)-1).Draw(t, "bad.field")]] = true
	}
	for i, f := range l.Fields {
		if f.Kind == spec.Serial {
			continue
		}
		copy(b[f.Off:], FieldBytes(t, f.Kind, badSet[i], f.Name))
	}
	if noise {
		for _, off := range l.Unused() {
			b[off] = rapid.Byte().Draw(t, "noise")
		}
	}
	// now and then two fields of the same kind carry the SAME value (from = to, door 1 = door 2), or a whole group of adjacent
	// fields is repeated (segment 2 = segment 1): values that were drawn independently practically never coincide
	if len(l.Fields) >= 3 && rapid.IntRange(0, 5).Draw(t, "same.value") == 0 {
		i := rapid.IntRange(0, len(l.Fields)-2).Draw(t, "same.from")
		for j := i + 1; j < len(l.Fields); j++ {
			if l.Fields[j].Kind != l.Fields[i].Kind || l.Fields[i].Kind == spec.Serial || badSet[i] || badSet[j] {
				continue
			}
			if rapid.IntRange(0, 2).Draw(t, "same.skip") == 0 {
				continue
			}
			w := l.Fields[i].Kind.Width()
			copy(b[l.Fields[j].Off:l.Fields[j].Off+w], b[l.Fields[i].Off:l.Fields[i].Off+w])
			// the neighbour too, when the layout repeats a group (start / end pairs)
			if d := j - i; i+1 < j && j+1 < len(l.Fields) && l.Fields[i+1].Kind == l.Fields[j+1].Kind && !badSet[i+1] && !badSet[j+1] && d >= 2 {
				w2 := l.Fields[i+1].Kind.Width()
				copy(b[l.Fields[j+1].Off:l.Fields[j+1].Off+w2], b[l.Fields[i+1].Off:l.Fields[i+1].Off+w2])
			}
			break
		}
	}
	// a 32-bit field that holds the controller's own serial number (a card number, an index: numbers drawn independently never
	// coincide with it)
	if rapid.IntRange(0, 7).Draw(t, "field.equals.serial") == 0 {
		for i, f := range l.Fields {
			if f.Kind == spec.U32 && !badSet[i] && rapid.Bool().Draw(t, "which.field") {
				spec.PutLE32(b[f.Off:], serial)
				break
			}
		}
	}
	// one clock, several notations: a layout that carries a full date-time next to a two-digit-year system date and a system time
	// (the status record) now and then shows the SAME moment in both - to the second, also with the date-time's century one off
	var dt, sd, st *spec.Field
	for i := range l.Fields {
		f := &l.Fields[i]
		switch {
		case f.Kind == spec.DateTime && dt == nil && !badSet[i]:
			dt = f
		case f.Kind == spec.SysDate && sd == nil && !badSet[i]:
			sd = f
		case f.Kind == spec.SysTime && st == nil && !badSet[i]:
			st = f
		}
	}
	if dt != nil && sd != nil && st != nil && rapid.IntRange(0, 3).Draw(t, "one.clock") == 0 {
		p := b[dt.Off:]
		if p[2] != 0 && p[3] != 0 { // (a date-time that is a date-time)
			copy(b[sd.Off:], p[1:4])
			copy(b[st.Off:], p[4:7])
			switch rapid.IntRange(0, 3).Draw(t, "century") {
			case 0:
				p[0] = 0x19
			case 1:
				p[0] = 0x21
			case 2:
				p[0] = 0x20
			}
			if rapid.IntRange(0, 3).Draw(t, "one.second.off") == 0 && b[st.Off+2]&0x0f < 9 {
				b[st.Off+2]++
			}
		}
	}
	return b
}

// Reply draws a reply for op(call): in-domain, sentinel and out-of-domain classes.
func Reply(t *rapid.T, call spec.Call) []byte {
	l := spec.Responses[call.Op]
	nBad := 0
	if rapid.IntRange(0, 9).Draw(t, "reply.mode") >= 6 {
		nBad = rapid.IntRange(1, 2).Draw(t, "reply.nbad")
	}
	som := byte(0x17)
	if call.Op == "GetStatus" && rapid.IntRange(0, 4).Draw(t, "som19") == 0 {
		som = 0x19
	}
	b := Payload(t, l, som, call.Serial, nBad, rapid.Bool().Draw(t, "noise"))
	put32 := func(name string, v uint32) { spec.PutLE32(b[l.Field(name).Off:], v) }
	switch call.Op {
	case "GetCardByID", "GetCardByIndex":
		switch k := rapid.IntRange(0, 19).Draw(t, "card.kind"); {
		case k < 12 && call.Op == "GetCardByID":
			put32("card", call.Card)
		case k == 12:
			put32("card", 0)
		case k == 13:
			put32("card", 0xffffffff)
		case k == 14:
			put32("card", call.Card)
		case k >= 15 && k <= 17:
			// another number that a person would call 'the same card': the requested number in another notation or arithmetic form
			put32("card", RelatedCard(call.Card, rapid.IntRange(0, 11).Draw(t, "card.related")))
		}
	case "GetTimeProfile":
		switch k := rapid.IntRange(0, 9).Draw(t, "profile.kind"); {
		case k < 7:
			b[l.Field("profile").Off] = call.Profile
		case k == 7:
			b[l.Field("profile").Off] = 0
		}
	case "GetEvent":
		switch rapid.IntRange(0, 9).Draw(t, "event.kind") {
		case 0:
			b[l.Field("type").Off] = 0xff
		case 1:
			put32("index", 0)
		case 2:
			b[l.Field("type").Off] = 0xff
			put32("index", 0)
		}
	case "GetStatus":
		if rapid.IntRange(0, 4).Draw(t, "status.noevent") == 0 {
			put32("event.index", 0)
		}
	}
	return b
}

// RelatedCard returns a card number that stands in a simple relation to c: the Wiegand-26 decimal form FFFNNNNN (facility code
// 0..255, number 0..65535) <-> the raw 24-bit form F<<16|N, byte orders, the low 24 / 16 bits, the decimal digits read as
// hexadecimal and back, neighbours. A reply that echoes such a number is a reply about ANOTHER card.
func RelatedCard(c uint32, k int) uint32 {
	f, n := c/100000, c%100000
	switch k % 12 {
	case 0: // decimal Wiegand form -> raw
		return (f&0xff)<<16 | n&0xffff
	case 1: // raw -> decimal Wiegand form
		return (c>>16&0xff)*100000 + c&0xffff
	case 2:
		return c<<24 | c>>24 | c<<8&0x00ff0000 | c>>8&0x0000ff00
	case 3:
		return c & 0x00ffffff
	case 4:
		return c & 0xffff
	case 5:
		return c | 0x01000000
	case 6: // decimal digits read as hexadecimal
		var v uint32
		for d, x := uint32(1), c; x > 0 && d != 0; d, x = d<<4, x/10 {
			v += x % 10 * d
		}
		return v
	case 7: // hexadecimal digits read as decimal (where they are all decimal digits)
		var v, m uint32 = 0, 1
		for x := c; x > 0; x >>= 4 {
			v += (x & 0xf) % 10 * m
			m *= 10
		}
		return v
	case 8:
		return c + 1
	case 9:
		return c - 1
	case 10: // number and facility code swapped
		return n%256*100000 + f%65536
	default:
		return c ^ 0x80000000
	}
}
