package gen

import (
	"go/ast"
	"go/parser"
	"go/token"
	"os"
	"path/filepath"
	"sort"
	"strconv"
	"strings"
	"sync"
	"time"

	"pgregory.net/rapid"
)

// The dictionary: every integer and string literal that occurs in the library's own (non-test) sources, read from the tree
// the check is built against. A value that the code compares against, masks with or special-cases is exactly the value a
// random draw from 2^32 never produces; coverage-guided fuzzers harvest such constants from the binary, here they are
// harvested from the source. The dictionary is a function of the code under test alone (sorted, de-duplicated), so runs
// stay reproducible.
var dictOnce sync.Once
var dictInts []uint64
var dictStrs []string

func repoRoot() string {
	if r := os.Getenv("VERIF_REPO"); r != "" {
		return r
	}
	return "/repo"
}

func loadDict() {
	ints := map[uint64]bool{}
	strs := map[string]bool{}
	filepath.Walk(repoRoot(), func(p string, info os.FileInfo, err error) error {
		if err != nil {
			return nil
		}
		if info.IsDir() && (info.Name() == ".git" || info.Name() == "documentation") {
			return filepath.SkipDir
		}
		if !strings.HasSuffix(p, ".go") || strings.HasSuffix(p, "_test.go") {
			return nil
		}
		f, err := parser.ParseFile(token.NewFileSet(), p, nil, 0)
		if err != nil {
			return nil
		}
		ast.Inspect(f, func(n ast.Node) bool {
			if _, ok := n.(*ast.ImportSpec); ok {
				return false
			}
			if fld, ok := n.(*ast.Field); ok && fld.Tag != nil {
				return true // struct tags are visited as literals below but are long; filtered by length
			}
			if l, ok := n.(*ast.BasicLit); ok {
				switch l.Kind {
				case token.INT:
					if v, err := strconv.ParseUint(strings.ReplaceAll(l.Value, "_", ""), 0, 64); err == nil {
						ints[v] = true
					}
				case token.CHAR:
					if s, err := strconv.Unquote(l.Value); err == nil && len(s) > 0 {
						ints[uint64([]rune(s)[0])] = true
					}
				case token.STRING:
					if s, err := strconv.Unquote(l.Value); err == nil && len(s) > 0 && len(s) <= 24 && !strings.Contains(s, "%") {
						strs[s] = true
					}
				}
			}
			return true
		})
		return nil
	})
	for v := range ints {
		dictInts = append(dictInts, v)
		// and the neighbours of anything that looks like a bound
		if v > 0 {
			dictInts = append(dictInts, v-1)
		}
		dictInts = append(dictInts, v+1)
	}
	sort.Slice(dictInts, func(i, j int) bool { return dictInts[i] < dictInts[j] })
	out := dictInts[:0]
	for i, v := range dictInts {
		if i == 0 || v != dictInts[i-1] {
			out = append(out, v)
		}
	}
	dictInts = out
	for s := range strs {
		dictStrs = append(dictStrs, s)
	}
	sort.Strings(dictStrs)
	if len(dictInts) == 0 {
		dictInts = []uint64{0}
	}
	if len(dictStrs) == 0 {
		dictStrs = []string{""}
	}
}

// DictInt draws an integer literal of the library's source (or a neighbour of one) that is at most max.
func DictInt(t *rapid.T, label string, max uint64) uint64 {
	dictOnce.Do(loadDict)
	n := sort.Search(len(dictInts), func(i int) bool { return dictInts[i] > max })
	if n == 0 {
		return 0
	}
	return dictInts[rapid.IntRange(0, n-1).Draw(t, label+".dict")]
}

// DictString draws a short string literal of the library's source.
func DictString(t *rapid.T, label string) string {
	dictOnce.Do(loadDict)
	return dictStrs[rapid.IntRange(0, len(dictStrs)-1).Draw(t, label+".dict")]
}

// DictSize reports how many integers and strings the dictionary holds (for the evidence).
func DictSize() (int, int) {
	dictOnce.Do(loadDict)
	return len(dictInts), len(dictStrs)
}

// DictDurations returns the time constants that occur in the library's source as products with a time unit
// (30 * time.Second, time.Duration(n) * time.Millisecond with a literal n, 2500 * time.Millisecond ...), sorted.
func DictDurations() []time.Duration {
	durOnce.Do(func() {
		units := map[string]time.Duration{"Nanosecond": time.Nanosecond, "Microsecond": time.Microsecond, "Millisecond": time.Millisecond, "Second": time.Second, "Minute": time.Minute, "Hour": time.Hour}
		seen := map[time.Duration]bool{}
		filepath.Walk(repoRoot(), func(p string, info os.FileInfo, err error) error {
			if err != nil {
				return nil
			}
			if info.IsDir() && info.Name() == ".git" {
				return filepath.SkipDir
			}
			if !strings.HasSuffix(p, ".go") || strings.HasSuffix(p, "_test.go") {
				return nil
			}
			f, err := parser.ParseFile(token.NewFileSet(), p, nil, 0)
			if err != nil {
				return nil
			}
			unitOf := func(e ast.Expr) (time.Duration, bool) {
				if sel, ok := e.(*ast.SelectorExpr); ok {
					if x, ok := sel.X.(*ast.Ident); ok && x.Name == "time" {
						u, ok := units[sel.Sel.Name]
						return u, ok
					}
				}
				return 0, false
			}
			var litOf func(e ast.Expr) (int64, bool)
			litOf = func(e ast.Expr) (int64, bool) {
				switch x := e.(type) {
				case *ast.BasicLit:
					if x.Kind == token.INT || x.Kind == token.FLOAT {
						if v, err := strconv.ParseFloat(strings.ReplaceAll(x.Value, "_", ""), 64); err == nil {
							return int64(v), true
						}
					}
				case *ast.CallExpr: // time.Duration(30)
					if len(x.Args) == 1 {
						return litOf(x.Args[0])
					}
				case *ast.ParenExpr:
					return litOf(x.X)
				}
				return 0, false
			}
			ast.Inspect(f, func(n ast.Node) bool {
				if b, ok := n.(*ast.BinaryExpr); ok && b.Op == token.MUL {
					for _, pair := range [][2]ast.Expr{{b.X, b.Y}, {b.Y, b.X}} {
						if u, ok := unitOf(pair[1]); ok {
							if v, ok := litOf(pair[0]); ok && v > 0 {
								seen[time.Duration(v)*u] = true
							}
						}
					}
				}
				return true
			})
			return nil
		})
		for d := range seen {
			dictDurs = append(dictDurs, d)
		}
		sort.Slice(dictDurs, func(i, j int) bool { return dictDurs[i] < dictDurs[j] })
	})
	return dictDurs
}

var durOnce sync.Once
var dictDurs []time.Duration

// DictEnv returns the names of environment variables that the library's source reads (os.Getenv / os.LookupEnv with a
// literal name). None at the pinned commit; a change that makes behaviour depend on the environment shows up here.
func DictEnv() []string {
	envOnce.Do(func() {
		seen := map[string]bool{}
		filepath.Walk(repoRoot(), func(p string, info os.FileInfo, err error) error {
			if err != nil {
				return nil
			}
			if info.IsDir() && info.Name() == ".git" {
				return filepath.SkipDir
			}
			if !strings.HasSuffix(p, ".go") || strings.HasSuffix(p, "_test.go") {
				return nil
			}
			f, err := parser.ParseFile(token.NewFileSet(), p, nil, 0)
			if err != nil {
				return nil
			}
			ast.Inspect(f, func(n ast.Node) bool {
				c, ok := n.(*ast.CallExpr)
				if !ok || len(c.Args) == 0 {
					return true
				}
				if sel, ok := c.Fun.(*ast.SelectorExpr); ok && (sel.Sel.Name == "Getenv" || sel.Sel.Name == "LookupEnv") {
					if l, ok := c.Args[0].(*ast.BasicLit); ok && l.Kind == token.STRING {
						if s, err := strconv.Unquote(l.Value); err == nil && s != "" {
							seen[s] = true
						}
					}
				}
				return true
			})
			return nil
		})
		for s := range seen {
			dictEnv = append(dictEnv, s)
		}
		sort.Strings(dictEnv)
	})
	return dictEnv
}

var envOnce sync.Once
var dictEnv []string
