// Package gen holds the rapid generators shared by the checks. Every random choice goes
// through rapid draws so that shrinking and replay work.
package gen

import (
	"fmt"
	"strings"

	"pgregory.net/rapid"

	"verif/harness/api"
	"verif/harness/spec"
	"verif/harness/zones"
)

// U32 draws a uint32 biased towards byte patterns that expose endianness / truncation bugs.
func U32(t *rapid.T, label string) uint32 {
	switch rapid.IntRange(0, 10).Draw(t, label+".kind") {
	case 10: // a constant that occurs in the library's source (or its neighbour)
		return uint32(DictInt(t, label, 0xffffffff))
	case 0:
		return rapid.SampledFrom([]uint32{1, 0xff, 0x100, 0xffff, 0x10000, 0xffffff, 0x1000000, 0x7fffffff, 0x80000000, 0xfffffffe, 0xffffffff, 0x01020304, 0xa1b2c3d4, 0x55aaaa55}).Draw(t, label)
	case 1, 2, 3:
		// all four bytes different and non-zero
		b := [4]byte{}
		for i := range b {
			b[i] = byte(rapid.IntRange(1, 255).Draw(t, label+".b"))
		}
		return spec.LE32(b[:])
	case 4:
		return uint32(rapid.IntRange(0, 70000).Draw(t, label))
	default:
		return rapid.Uint32().Draw(t, label)
	}
}

// Serial draws a controller serial number 1..2^32-1.
func Serial(t *rapid.T) uint32 {
	s := U32(t, "serial")
	if s == 0 {
		s = 405419896
	}
	return s
}

func U8(t *rapid.T, label string) uint8 {
	if rapid.IntRange(0, 11).Draw(t, label+".dict?") == 0 {
		return uint8(DictInt(t, label, 0xff))
	}
	if rapid.IntRange(0, 5).Draw(t, label+".edge") == 0 {
		return rapid.SampledFrom([]uint8{0, 1, 2, 3, 4, 5, 9, 10, 0x0f, 0x10, 0x7f, 0x80, 0x99, 0xa0, 0xfe, 0xff}).Draw(t, label)
	}
	return rapid.Uint8().Draw(t, label)
}

// Civil draws a calendar date 0001-01-02..9999-12-31.
func Civil(t *rapid.T, label string) spec.Civil {
	// leap days, incl. the century rule (1600, 2000, 2400 are leap years; 1900, 2100 are not: their last February day is the 28th)
	switch rapid.IntRange(0, 29).Draw(t, label+".leap") {
	case 0:
		return spec.Civil{Y: rapid.SampledFrom([]int{4, 400, 1600, 1904, 1996, 2000, 2004, 2024, 2096, 2400, 9996}).Draw(t, label+".leapyear"), M: 2, D: 29}
	case 1:
		return spec.Civil{Y: rapid.SampledFrom([]int{100, 1700, 1800, 1900, 2100, 2200, 2023}).Draw(t, label+".commonyear"), M: rapid.SampledFrom([]int{2, 3}).Draw(t, label+".febmar"), D: rapid.SampledFrom([]int{28, 1}).Draw(t, label+".d28")}
	}
	var y int
	switch rapid.IntRange(0, 5).Draw(t, label+".ykind") {
	case 0:
		y = rapid.SampledFrom([]int{1, 2, 99, 100, 999, 1000, 1582, 1899, 1900, 1969, 1970, 1999, 2000, 2038, 2099, 2100, 2400, 9999}).Draw(t, label+".y")
	case 1:
		y = rapid.IntRange(1, 9999).Draw(t, label+".y")
	default:
		y = rapid.IntRange(1990, 2060).Draw(t, label+".y")
	}
	m := rapid.IntRange(1, 12).Draw(t, label+".m")
	var d int
	if rapid.IntRange(0, 3).Draw(t, label+".dkind") == 0 {
		d = rapid.SampledFrom([]int{1, spec.DaysIn(y, m), 9, 10, 28}).Draw(t, label+".d")
		if d > spec.DaysIn(y, m) {
			d = spec.DaysIn(y, m)
		}
	} else {
		d = rapid.IntRange(1, spec.DaysIn(y, m)).Draw(t, label+".d")
	}
	if y == 1 && m == 1 && d == 1 {
		d = 2
	}
	return spec.Civil{Y: y, M: m, D: d}
}

// HM draws an HH:mm 00:00..24:00.
func HM(t *rapid.T, label string) spec.HM {
	if rapid.IntRange(0, 7).Draw(t, label+".edge") == 0 {
		return rapid.SampledFrom([]spec.HM{{0, 0}, {24, 0}, {23, 59}, {9, 59}, {10, 0}, {19, 9}, {0, 1}, {12, 30}}).Draw(t, label)
	}
	return spec.HM{H: rapid.IntRange(0, 23).Draw(t, label+".h"), M: rapid.IntRange(0, 59).Draw(t, label+".m")}
}

func IPv4(t *rapid.T, label string) [4]byte {
	if rapid.IntRange(0, 4).Draw(t, label+".edge") == 0 {
		return rapid.SampledFrom([][4]byte{{0, 0, 0, 0}, {255, 255, 255, 255}, {192, 168, 1, 100}, {10, 0, 0, 1}, {127, 0, 0, 1}, {255, 255, 255, 0}, {1, 2, 3, 4}, {169, 254, 0, 255}}).Draw(t, label)
	}
	if rapid.IntRange(0, 3).Draw(t, label+".range") == 0 {
		// an address from one of the ranges for which the standard library has a predicate of its own (IsLinkLocalUnicast,
		// IsMulticast, IsLoopback, IsPrivate, IsUnspecified ...) or that network code likes to treat specially
		r := rapid.SampledFrom([][2][4]byte{
			{{169, 254, 0, 0}, {255, 255, 0, 0}}, {{224, 0, 0, 0}, {255, 255, 255, 0}}, {{224, 0, 0, 0}, {240, 0, 0, 0}}, {{239, 255, 0, 0}, {255, 255, 0, 0}}, {{127, 0, 0, 0}, {255, 0, 0, 0}},
			{{10, 0, 0, 0}, {255, 0, 0, 0}}, {{172, 16, 0, 0}, {255, 240, 0, 0}}, {{192, 168, 0, 0}, {255, 255, 0, 0}}, {{100, 64, 0, 0}, {255, 192, 0, 0}}, {{0, 0, 0, 0}, {255, 0, 0, 0}},
			{{240, 0, 0, 0}, {240, 0, 0, 0}}, {{192, 0, 2, 0}, {255, 255, 255, 0}}, {{198, 18, 0, 0}, {255, 254, 0, 0}}, {{192, 88, 99, 0}, {255, 255, 255, 0}}}).Draw(t, label+".which")
		var ip [4]byte
		for i := range ip {
			ip[i] = r[0][i] | (rapid.Byte().Draw(t, label+".host") &^ r[1][i])
		}
		switch rapid.IntRange(0, 5).Draw(t, label+".host.kind") {
		case 0: // the range's own broadcast address
			for i := range ip {
				ip[i] = r[0][i] | ^r[1][i]
			}
		case 1: // its network address
			ip = r[0]
		}
		return ip
	}
	return [4]byte{rapid.Byte().Draw(t, label+".a"), rapid.Byte().Draw(t, label+".b"), rapid.Byte().Draw(t, label+".c"), rapid.Byte().Draw(t, label+".d")}
}

func Port(t *rapid.T, label string) uint16 {
	if rapid.IntRange(0, 11).Draw(t, label+".dict?") == 0 {
		if p := uint16(DictInt(t, label, 0xffff)); p != 0 {
			return p
		}
	}
	if rapid.IntRange(0, 3).Draw(t, label+".edge") == 0 {
		return rapid.SampledFrom([]uint16{1, 80, 255, 256, 59999, 60000, 60001, 60002, 65535, 0x1234}).Draw(t, label)
	}
	return uint16(rapid.IntRange(1, 65535).Draw(t, label))
}

func ZoneName(t *rapid.T, label string) string {
	names := zones.Names()
	switch rapid.IntRange(0, 3).Draw(t, label+".kind") {
	case 0:
		return "UTC"
	case 1:
		sign := rapid.SampledFrom([]string{"+", "-"}).Draw(t, label+".sign")
		return fmt.Sprintf("fixed:%s%02d%02d", sign, rapid.IntRange(0, 14).Draw(t, label+".hh"), rapid.SampledFrom([]int{0, 0, 30, 45}).Draw(t, label+".mm"))
	default:
		return names[rapid.IntRange(0, len(names)-1).Draw(t, label)]
	}
}

func bools(t *rapid.T, label string, n int) []bool {
	out := make([]bool, n)
	for i := range out {
		out[i] = rapid.Bool().Draw(t, label)
	}
	return out
}

// near moves `to` next to `from` in a share of the cases (same day, next day, same month) - sequences of nearly equal
// values are what caches and memos get wrong.
func near(t *rapid.T, from spec.Civil, to spec.Civil) spec.Civil {
	switch rapid.IntRange(0, 7).Draw(t, "date.near") {
	case 0:
		return from
	case 1: // the next day
		d := from
		d.D++
		if d.D > spec.DaysIn(d.Y, d.M) {
			d.D, d.M = 1, d.M+1
			if d.M > 12 {
				d.M, d.Y = 1, d.Y+1
			}
		}
		if d.Y > 9999 {
			return from
		}
		return d
	case 2: // same year, another month and day
		m := rapid.IntRange(1, 12).Draw(t, "date.near.m")
		c := spec.Civil{Y: from.Y, M: m, D: rapid.IntRange(1, spec.DaysIn(from.Y, m)).Draw(t, "date.near.d")}
		if c.Y == 1 && c.M == 1 && c.D == 1 {
			c.D = 2 // 0001-01-01 is outside the stated domain
		}
		return c
	}
	return to
}

func dateVariant(t *rapid.T, v *api.Variant, i int, label string) {
	if rapid.IntRange(0, 2).Draw(t, label+".repr") == 0 {
		v.DateLoc[i] = ZoneName(t, label+".loc")
		if v.DateLoc[i] == "" {
			v.DateLoc[i] = "UTC"
		}
		v.DateClock[i] = [3]int{rapid.IntRange(0, 23).Draw(t, label+".h"), rapid.IntRange(0, 59).Draw(t, label+".mi"), rapid.IntRange(0, 59).Draw(t, label+".s")}
	}
}

func weekdays(t *rapid.T, c *spec.Call, v *api.Variant) {
	switch rapid.IntRange(0, 5).Draw(t, "weekdays.kind") {
	case 0: // nil map
		v.WeekdaysNil = true
	case 4:
		// keys that are no weekday of package time (7 is Sunday to ISO 8601, to cron, to many a database): the protocol has seven
		// flags, the extra entries are the caller's own
		v.ExtraWeekdays = rapid.SampledFrom([][]int{{7}, {7}, {8}, {-1}, {7, 8}, {100}}).Draw(t, "weekdays.extra")
		for i := 0; i < 7; i++ {
			v.WeekPresent[i] = rapid.Bool().Draw(t, "weekdays.present")
			c.Weekdays[i] = v.WeekPresent[i] && rapid.Bool().Draw(t, "weekdays.value")
		}
	case 1: // partial map
		for i := 0; i < 7; i++ {
			v.WeekPresent[i] = rapid.Bool().Draw(t, "weekdays.present")
			c.Weekdays[i] = v.WeekPresent[i] && rapid.Bool().Draw(t, "weekdays.value")
		}
	default:
		for i := 0; i < 7; i++ {
			v.WeekPresent[i] = true
			c.Weekdays[i] = rapid.Bool().Draw(t, "weekdays.value")
		}
	}
}

// Call draws one API call of operation op with arguments from the accepted domain (C01's
// quantifier), together with a representation variant.
func Call(t *rapid.T, op string) api.Case {
	c := spec.Call{Op: op}
	v := api.Variant{}
	if op != "GetDevices" {
		c.Serial = Serial(t)
	}
	switch op {
	case "SetAddress":
		c.Address, c.Mask, c.Gateway = IPv4(t, "address"), IPv4(t, "mask"), IPv4(t, "gateway")
		for i := range v.IP16 {
			v.IP16[i] = rapid.Bool().Draw(t, "ip16")
		}
	case "SetListener":
		if rapid.IntRange(0, 5).Draw(t, "listener.none") == 0 {
			c.Listener, c.Port = [4]byte{}, 0 // 0.0.0.0:0 = no listener
		} else {
			c.Listener, c.Port = IPv4(t, "listener"), Port(t, "port")
		}
		c.Interval = U8(t, "interval")
	case "SetTime":
		d := Civil(t, "date")
		c.DateTime = spec.CivilDT{Y: d.Y, M: d.M, D: d.D, H: rapid.IntRange(0, 23).Draw(t, "h"), Mi: rapid.IntRange(0, 59).Draw(t, "mi"), S: rapid.IntRange(0, 59).Draw(t, "s")}
		v.TimeLoc = ZoneName(t, "loc")
		if rapid.Bool().Draw(t, "subsecond") {
			v.TimeNanos = rapid.IntRange(0, 999_999_999).Draw(t, "nanos")
		}
		if rapid.IntRange(0, 11).Draw(t, "special.instant") == 0 {
			// an instant that means something to a program, carried in a location where its wall clock is an ordinary civil time
			v.ExtremeTime = rapid.SampledFrom([]string{"zero-east", "zero-east-14", "epoch-east"}).Draw(t, "instant")
		}
		// the civil fields of the constructed time.Time (gap normalisation is Go's business)
		_, c.DateTime = api.SetTimeArg(c, v)
	case "GetDoorControlState", "OpenDoor":
		c.Door = U8(t, "door")
	case "SetDoorControlState":
		c.Door, c.State, c.Delay = U8(t, "door"), U8(t, "state"), U8(t, "delay")
	case "GetCardByIndex", "GetEvent", "SetEventIndex":
		c.Index = U32(t, "index")
	case "GetCardByID", "DeleteCard":
		c.Card = U32(t, "card")
	case "PutCard":
		c.Card = U32(t, "card")
		for c.Card == 0 || c.Card == 0xffffffff || c.Card == 0x00ffffff {
			c.Card = 8165538
		}
		c.From, c.To = Civil(t, "from"), Civil(t, "to")
		c.To = near(t, c.From, c.To)
		if rapid.IntRange(0, 9).Draw(t, "zerodate") == 0 {
			c.To = spec.Civil{}
		}
		dateVariant(t, &v, 0, "from")
		dateVariant(t, &v, 1, "to")
		switch rapid.IntRange(0, 5).Draw(t, "pin.kind") {
		case 0:
			c.PIN = 0
		case 1:
			c.PIN = rapid.SampledFrom([]uint32{1, 255, 256, 65535, 65536, 999999, 123456}).Draw(t, "pin")
		default:
			c.PIN = uint32(rapid.IntRange(0, 999999).Draw(t, "pin"))
		}
		switch rapid.IntRange(0, 5).Draw(t, "doors.kind") {
		case 0:
			v.DoorsNil = true
		case 1:
			for i := 0; i < 4; i++ {
				v.DoorsPresent[i] = rapid.Bool().Draw(t, "doors.present")
				if v.DoorsPresent[i] {
					c.Doors[i] = U8(t, "doors.value")
				}
			}
			v.ForeignDoors = rapid.SliceOfN(rapid.Uint8(), 0, 3).Draw(t, "doors.foreign")
		default:
			for i := 0; i < 4; i++ {
				v.DoorsPresent[i] = true
				c.Doors[i] = U8(t, "doors.value")
			}
		}
	case "GetTimeProfile":
		c.Profile = U8(t, "profile")
	case "SetTimeProfile":
		c.Profile, c.Linked = U8(t, "profile"), U8(t, "linked")
		c.From, c.To = Civil(t, "from"), Civil(t, "to")
		c.To = near(t, c.From, c.To)
		dateVariant(t, &v, 0, "from")
		dateVariant(t, &v, 1, "to")
		weekdays(t, &c, &v)
		for i := 0; i < 3; i++ {
			a, b := HM(t, "seg.a"), HM(t, "seg.b")
			if b.H < a.H || (b.H == a.H && b.M < a.M) {
				a, b = b, a
			}
			c.Segments[2*i], c.Segments[2*i+1] = a, b
		}
		v.ExtraSegments = rapid.SliceOfN(rapid.Uint8(), 0, 2).Draw(t, "segments.foreign")
	case "AddTask":
		c.From, c.To = Civil(t, "from"), Civil(t, "to")
		c.To = near(t, c.From, c.To)
		if rapid.IntRange(0, 9).Draw(t, "zerodate") == 0 {
			c.From = spec.Civil{}
		}
		dateVariant(t, &v, 0, "from")
		dateVariant(t, &v, 1, "to")
		weekdays(t, &c, &v)
		c.Start = HM(t, "start")
		c.Door, c.Task, c.Cards = U8(t, "door"), U8(t, "task"), U8(t, "cards")
	case "RecordSpecialEvents", "SetPCControl":
		c.Enable = rapid.Bool().Draw(t, "enable")
	case "SetDoorPasscodes":
		c.Door = uint8(rapid.IntRange(1, 4).Draw(t, "door"))
		n := rapid.IntRange(0, 7).Draw(t, "passcodes.n")
		if rapid.IntRange(0, 19).Draw(t, "passcodes.many") == 0 {
			// very long lists: the codes beyond the fourth are ignored however many there are (indices that wrap at 256 / 65536)
			n = rapid.SampledFrom([]int{255, 256, 257, 258, 260, 261, 512, 516, 65537, 65540}).Draw(t, "passcodes.len")
		}
		for i := 0; i < n; i++ {
			var p uint32
			if i >= 8 {
				p = uint32(100000 + i%800000)
				v.RawPasscodes = append(v.RawPasscodes, p)
				continue
			}
			switch rapid.IntRange(0, 4).Draw(t, "passcode.kind") {
			case 0:
				p = rapid.SampledFrom([]uint32{0, 1, 999999, 1000000, 0xffffffff, 65536, 16777216}).Draw(t, "passcode")
			case 1:
				p = U32(t, "passcode")
			default:
				p = uint32(rapid.IntRange(0, 999999).Draw(t, "passcode"))
			}
			v.RawPasscodes = append(v.RawPasscodes, p)
			if i < 4 && p <= 999999 {
				c.Passcodes[i] = p
			}
		}
	case "SetInterlock":
		c.Interlock = U8(t, "interlock")
	case "ActivateKeypads":
		switch rapid.IntRange(0, 5).Draw(t, "readers.kind") {
		case 0:
			v.ReadersNil = true
		case 1:
			for i := 0; i < 4; i++ {
				v.ReadPresent[i] = rapid.Bool().Draw(t, "readers.present")
				c.Readers[i] = v.ReadPresent[i] && rapid.Bool().Draw(t, "readers.value")
			}
			v.ForeignRead = rapid.SliceOfN(rapid.Uint8(), 0, 3).Draw(t, "readers.foreign")
		default:
			for i := 0; i < 4; i++ {
				v.ReadPresent[i] = true
				c.Readers[i] = rapid.Bool().Draw(t, "readers.value")
			}
		}
	}
	return api.Case{Call: c, V: v}
}

// Op draws an operation name (all 32, GetDevices included when withDiscovery).
func Op(t *rapid.T, withDiscovery bool) string {
	for {
		op := rapid.SampledFrom(spec.Ops).Draw(t, "op")
		if op != "GetDevices" || withDiscovery {
			return op
		}
	}
}

// DeviceTZ draws a controller time zone for a configured controller (hook.DeviceCfg.TZ). The zone is configuration
// that none of the listed properties lets influence wire bytes, routing or decoded values.
func DeviceTZ(t *rapid.T, label string) string {
	return rapid.SampledFrom([]string{"", "", "nil", "Local", "UTC", "+03:00", "-08:00", "+05:45", "-03:30", "+13:00", "Asia/Tokyo", "America/New_York", "Europe/London", "Pacific/Apia"}).Draw(t, label)
}

// Debug draws the client's debug flag (true in about a quarter of the cases; stdout is muted).
func Debug(t *rapid.T, label string) bool {
	return rapid.IntRange(0, 3).Draw(t, label) == 0
}

// Doors draws the door-name list of a configured controller (nil, empty, 1..5 names, blank names). The library keeps the
// names for its users; no listed property lets them influence a request, a route or a result.
func Doors(t *rapid.T, label string) []string {
	return rapid.SampledFrom([][]string{nil, nil, {}, {"D1"}, {"D1", "D2"}, {"D1", "D2", "D3"}, {"Front", "Back", "Garage", "Attic"}, {"D1", "D2", "D3", "D4", "D5"}, {"", "", "", ""}}).Draw(t, label)
}

// Name draws a configured controller name: empty, plain, blank-padded, long, and names in other scripts of every length
// (so that the length in bytes and the length in characters differ by every factor up to four), with combining marks,
// characters outside the BMP, control characters and bytes that are not UTF-8.
func Name(t *rapid.T, label string) string {
	switch rapid.IntRange(0, 9).Draw(t, label+".kind") {
	case 0:
		return ""
	case 1, 2:
		return rapid.SampledFrom([]string{"Alpha", "A", "  spaced   name ", "ünï côde", "tab\tname", "line\nbreak", "q\"uote", "nul\x00byte", "\xff\xfe not utf-8", "   "}).Draw(t, label)
	case 3:
		return strings.Repeat(rapid.SampledFrom([]string{"x", "Main entrance ", "ab "}).Draw(t, label+".unit"), rapid.IntRange(1, 80).Draw(t, label+".n"))
	default:
		unit := []rune(rapid.SampledFrom([]string{"Контроллер главного входа ", "Είσοδος προσωπικού ", "正面玄関コントローラー", "دروازه اصلی ", "é", "e\u0301", "😀", "𝔘𝔫𝔦", "प्रवेश द्वार ", "a\u200bb"}).Draw(t, label+".script"))
		n := rapid.IntRange(1, 90).Draw(t, label+".runes")
		out := make([]rune, 0, n)
		for len(out) < n {
			out = append(out, unit...)
		}
		return string(out[:n])
	}
}

// ProcessZone draws the zone of the process for checks that render or compare values: mostly UTC (""), else a zone
// from the tz database, the synthetic one, or a fixed zone with an odd abbreviation (zones.Odd).
func ProcessZone(t *rapid.T, label string) string {
	switch rapid.IntRange(0, 5).Draw(t, label+".kind") {
	case 0:
		return rapid.SampledFrom(zones.Odd()).Draw(t, label+".odd")
	case 1:
		return rapid.SampledFrom(append(zones.Spread(24), zones.Synthetic)).Draw(t, label+".iana")
	}
	return ""
}
