package gen

import (
	"os"

	"verif/harness/ev"
)

// Every environment variable that the library's source reads is set before the tests run - to a different value in every
// shard ("1", "true", "0", "", "yes", a long string ...), unset in shard 0: no listed property lets the process environment
// influence a request, a route, a decoded value or a verdict.
func init() {
	ev.EnvHook = func() {
		names := DictEnv()
		values := []string{"", "1", "true", "0", "yes", "false", "debug", "udp", "tcp", "UTC", "2", "on"}
		for i, n := range names {
			if _, set := os.LookupEnv(n); set {
				continue // set by the caller of the check: leave it
			}
			if k := ev.Shard(); k > 0 {
				os.Setenv(n, values[(k+i)%len(values)])
			}
		}
		ev.Note("environment_variables_read_by_the_library", len(names))
	}
}
