// Package rp glues rapid, systematic sweeps, replay files and the evidence recorder together.
// A property is a generator (random, via rapid) and/or a sweep (systematic enumeration) of
// JSON-serialisable cases plus a pure decision function over one case. The same decision
// function serves generated cases, enumerated cases and saved replay files.
package rp

import (
	"encoding/json"
	"fmt"
	"runtime/debug"
	"testing"

	"pgregory.net/rapid"

	"verif/harness/ev"
)

// Fail describes a failed case. Fingerprint names call site and failure class (it is what
// known_findings.json entries are matched against); Msg is for the reader.
type Fail struct {
	Fingerprint string
	Msg         string
}

func Failf(fingerprint, format string, args ...any) *Fail {
	return &Fail{Fingerprint: fingerprint, Msg: fmt.Sprintf(format, args...)}
}

type Prop interface {
	PropName() string
	Run(t *testing.T)
	Replay(raw json.RawMessage) *Fail
}

type P[T any] struct {
	Name   string
	Checks int                      // number of rapid cases for this shard (0 = no random part)
	Gen    func(t *rapid.T) T       // random generator
	Sweep  func(yield func(T) bool) // systematic enumeration; yield returns false to stop
	Check  func(c T) *Fail          // decision function
}

func (p P[T]) PropName() string { return p.Name }

func (p P[T]) Run(t *testing.T) {
	if p.Sweep != nil {
		stopped := false
		p.Sweep(func(c T) bool {
			if f := safe(p.Check, c); f != nil {
				if ev.Failure(p.Name, f.Fingerprint, f.Msg, c) {
					t.Errorf("%s: sweep case failed: [%s] %s", p.Name, f.Fingerprint, f.Msg)
					stopped = true
					return false
				}
			}
			return true
		})
		if stopped {
			return
		}
	}
	if p.Gen != nil && p.Checks > 0 {
		ev.Rapid(p.Name, p.Checks)
		rapid.Check(t, func(rt *rapid.T) {
			c := p.Gen(rt)
			if f := safe(p.Check, c); f != nil {
				if ev.Failure(p.Name, f.Fingerprint, f.Msg, c) {
					rt.Fatalf("[%s] %s", f.Fingerprint, f.Msg)
				}
			}
		})
	}
}

// safe turns a panic that escapes the decision function into a failure of its own class
// (decision functions recover library panics themselves where the property is about
// panics; anything arriving here is either a library panic in an unexpected place or a
// harness bug - both must surface).
func safe[T any](check func(T) *Fail, c T) (f *Fail) {
	defer func() {
		if r := recover(); r != nil {
			f = &Fail{Fingerprint: "panic-in-check", Msg: fmt.Sprintf("panic while checking case: %v\n%s", r, debug.Stack())}
		}
	}()
	return check(c)
}

func (p P[T]) Replay(raw json.RawMessage) *Fail {
	var c T
	if err := json.Unmarshal(raw, &c); err != nil {
		return &Fail{Fingerprint: "harness/replay", Msg: "cannot decode replay case: " + err.Error()}
	}
	return safe(p.Check, c)
}

// RunAll runs every property as a sub-test.
func RunAll(t *testing.T, props ...Prop) {
	ev.MuteLibraryStdout()
	if ev.Replaying() {
		t.Skip("replaying")
	}
	for _, p := range props {
		p := p
		t.Run(p.PropName(), func(t *testing.T) { p.Run(t) })
	}
}

// ReplayAll is the body of TestReplay: re-executes the case in $VERIF_REPLAY.
func ReplayAll(t *testing.T, props ...Prop) {
	ev.MuteLibraryStdout()
	r := ev.LoadReplay()
	if r == nil {
		t.Skip("no VERIF_REPLAY")
	}
	for _, p := range props {
		if p.PropName() == r.Check {
			if f := p.Replay(r.Case); f != nil {
				ev.Failure(p.PropName(), f.Fingerprint, f.Msg, r.Case)
				t.Errorf("replayed case still fails: [%s] %s", f.Fingerprint, f.Msg)
			} else {
				t.Logf("replayed case passes")
			}
			return
		}
	}
	t.Fatalf("HARNESS: no property named %q in this package", r.Check)
}
