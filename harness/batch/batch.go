// Package batch holds the relations every batch decoder (codec.UnmarshalArray) must satisfy for a message type, library-made
// or generated: an element of a batch is what the message decodes to alone (value and nil-ness of every pointer field,
// whatever the elements before it were), elements share no memory with one another, and a batch that was decoded earlier is
// still the caller's - decoding the next batch into the same variable, or into an empty window of a larger array, leaves it
// alone.
package batch

import (
	"fmt"
	"reflect"

	codec "github.com/uhppoted/uhppote-core/encoding/UTO311-L0x"

	"verif/harness/fv"
	"verif/harness/rp"
)

func try(f func()) (p any) {
	defer func() { p = recover() }()
	f()
	return nil
}

func clone(b []byte) []byte { return append([]byte(nil), b...) }

// nilness lists, per leaf, whether a pointer leaf is nil ('-' for leaves of other kinds).
func nilness(v reflect.Value) string {
	s := ""
	for _, f := range fv.Leaves(v) {
		switch {
		case f.Kind() != reflect.Ptr:
			s += "-"
		case f.IsNil():
			s += "n"
		default:
			s += "p"
		}
	}
	return s
}

// Check: typ is the message struct type, msgs are well-formed messages of that type (at least two; the more they differ in
// which fields carry 'no value' the better), what describes the type for the report.
func Check(typ reflect.Type, msgs [][]byte, what string) *rp.Fail {
	if len(msgs) < 2 {
		return nil
	}
	// what each message decodes to alone
	type single struct {
		canon []string
		nils  string
		err   error
	}
	alone := make([]single, len(msgs))
	for i, m := range msgs {
		v := reflect.New(typ)
		var err error
		if p := try(func() { err = codec.Unmarshal(clone(m), v.Interface()) }); p != nil {
			return rp.Failf("codec.Unmarshal/panic", "%s: Unmarshal(%x) panicked: %v", what, m, p)
		}
		alone[i] = single{fv.CanonAll(v.Elem()), nilness(v.Elem()), err}
		if err != nil {
			return nil // (only batches of messages that decode alone are judged here)
		}
	}
	// 1. [m0, m1, ..., m0]: every element is what its message decodes to alone
	order := make([]int, 0, len(msgs)+1)
	for i := range msgs {
		order = append(order, i)
	}
	order = append(order, 0)
	in := make([][]byte, len(order))
	for i, k := range order {
		in[i] = clone(msgs[k])
	}
	dst := reflect.New(reflect.SliceOf(typ))
	var err error
	if p := try(func() { err = codec.UnmarshalArray(in, dst.Interface()) }); p != nil {
		return rp.Failf("codec.UnmarshalArray/panic", "%s: UnmarshalArray panicked: %v", what, p)
	}
	if err != nil {
		return rp.Failf("codec.UnmarshalArray/error", "%s: UnmarshalArray of %d messages that decode alone failed: %v", what, len(in), err)
	}
	if dst.Elem().Len() != len(order) {
		return rp.Failf("codec.UnmarshalArray/length", "%s: UnmarshalArray of %d messages gave %d elements", what, len(order), dst.Elem().Len())
	}
	for i, k := range order {
		e := dst.Elem().Index(i)
		if d := fv.FirstDiff(alone[k].canon, fv.CanonAll(e)); d != "" {
			return rp.Failf("codec.UnmarshalArray/element-depends-on-neighbours", "%s: element %d of a batch of %d differs from its message (%x) decoded alone: %s", what, i, len(order), msgs[k], d)
		}
		if n := nilness(e); n != alone[k].nils {
			return rp.Failf("codec.UnmarshalArray/element-depends-on-neighbours", "%s: element %d of a batch of %d: pointer fields nil/set %s, the message (%x) decoded alone gives %s", what, i, len(order), n, msgs[k], alone[k].nils)
		}
	}
	// 2. elements share no memory: no pointer leaf of one element points where a pointer leaf of another points
	seen := map[uintptr]int{}
	for i := 0; i < dst.Elem().Len(); i++ {
		for _, f := range fv.Leaves(dst.Elem().Index(i)) {
			if f.Kind() == reflect.Ptr && !f.IsNil() && f.Type().Elem().Size() > 0 {
				if j, ok := seen[f.Pointer()]; ok && j != i {
					return rp.Failf("codec.UnmarshalArray/elements-share-memory", "%s: a %s field of element %d and one of element %d of the same batch point to the same variable", what, f.Type(), j, i)
				}
				seen[f.Pointer()] = i
			}
		}
	}
	// 3. the batch stays the caller's: keep the slice header, decode a shorter batch into the same variable
	kept := dst.Elem().Slice(0, dst.Elem().Len()) // a copy of the header, like `page1 := replies`
	before := make([][]string, kept.Len())
	for i := range before {
		before[i] = fv.CanonAll(kept.Index(i))
	}
	second := [][]byte{clone(msgs[len(msgs)-1]), clone(msgs[len(msgs)-1])}
	if p := try(func() { err = codec.UnmarshalArray(second, dst.Interface()) }); p != nil || err != nil {
		return rp.Failf("codec.UnmarshalArray/error", "%s: the second UnmarshalArray into the same variable failed: %v %v", what, p, err)
	}
	for i := range before {
		if d := fv.FirstDiff(before[i], fv.CanonAll(kept.Index(i))); d != "" {
			return rp.Failf("codec.UnmarshalArray/earlier-batch-overwritten", "%s: element %d of a batch the caller still holds changed when the next (shorter) batch was decoded into the same variable: %s", what, i, d)
		}
	}
	// 3a. UnmarshalAs takes the TYPE of its template: a pointer to a struct that holds an earlier message is a template like any
	// other - the result is what the message decodes to alone, the template is left as it was
	{
		tmpl := reflect.New(typ)
		if codec.Unmarshal(clone(msgs[0]), tmpl.Interface()) == nil {
			for k := 1; k < len(msgs); k++ {
				var got any
				if p := try(func() { got, err = codec.UnmarshalAs(clone(msgs[k]), tmpl.Interface()) }); p != nil {
					return rp.Failf("codec.UnmarshalAs/panic", "%s: UnmarshalAs with a pointer template panicked: %v", what, p)
				}
				if err != nil || got == nil {
					return rp.Failf("codec.UnmarshalAs/error", "%s: UnmarshalAs(%x) with a pointer template failed: %v", what, msgs[k], err)
				}
				gv := reflect.New(typ).Elem()
				if rv := reflect.ValueOf(got); rv.Type() == typ {
					gv.Set(rv)
				} else if rv.Kind() == reflect.Ptr && rv.Elem().Type() == typ {
					gv.Set(rv.Elem())
				} else {
					return rp.Failf("codec.UnmarshalAs/type", "%s: UnmarshalAs with a *%v template returned a %T", what, typ, got)
				}
				if d := fv.FirstDiff(alone[k].canon, fv.CanonAll(gv)); d != "" {
					return rp.Failf("codec.UnmarshalAs/result-depends-on-template", "%s: UnmarshalAs(%x) through a pointer template that holds an earlier message differs from the message decoded alone: %s", what, msgs[k], d)
				}
				if n := nilness(gv); n != alone[k].nils {
					return rp.Failf("codec.UnmarshalAs/result-depends-on-template", "%s: UnmarshalAs(%x) through a pointer template that holds an earlier message: pointer fields nil/set %s, decoded alone %s", what, msgs[k], n, alone[k].nils)
				}
				if d := fv.FirstDiff(alone[0].canon, fv.CanonAll(tmpl.Elem())); d != "" {
					return rp.Failf("codec.UnmarshalAs/template-modified", "%s: the template passed to UnmarshalAs was modified: %s", what, d)
				}
			}
		}
	}
	// 3b. an EMPTY batch decoded into the variable that holds the last one gives an empty result (a discovery nobody answered)
	for _, empty := range [][][]byte{{}, nil} {
		used := reflect.New(reflect.SliceOf(typ))
		if p := try(func() { err = codec.UnmarshalArray([][]byte{clone(msgs[0]), clone(msgs[1])}, used.Interface()) }); p != nil || err != nil {
			break
		}
		if p := try(func() { err = codec.UnmarshalArray(empty, used.Interface()) }); p != nil {
			return rp.Failf("codec.UnmarshalArray/panic", "%s: UnmarshalArray of an empty batch panicked: %v", what, p)
		}
		if err == nil && used.Elem().Len() != 0 {
			return rp.Failf("codec.UnmarshalArray/empty-batch-keeps-old-elements", "%s: an empty batch (nil: %v) decoded into a variable that held 2 elements left %d elements there", what, empty == nil, used.Elem().Len())
		}
	}
	// 4. ... and into an empty window of a larger array: the rest of the array is not the decoder's
	store := reflect.MakeSlice(reflect.SliceOf(typ), len(msgs)+1, len(msgs)+1)
	for i := 0; i <= len(msgs); i++ {
		codec.Unmarshal(clone(msgs[i%len(msgs)]), store.Index(i).Addr().Interface())
	}
	snapshot := make([][]string, store.Len())
	for i := range snapshot {
		snapshot[i] = fv.CanonAll(store.Index(i))
	}
	win := reflect.New(reflect.SliceOf(typ))
	win.Elem().Set(store.Slice(1, 1))
	if p := try(func() { err = codec.UnmarshalArray([][]byte{clone(msgs[0]), clone(msgs[0])}, win.Interface()) }); p != nil || err != nil {
		return rp.Failf("codec.UnmarshalArray/error", "%s: UnmarshalArray into an empty window of a larger array failed: %v %v", what, p, err)
	}
	for i := range snapshot {
		if d := fv.FirstDiff(snapshot[i], fv.CanonAll(store.Index(i))); d != "" {
			return rp.Failf("codec.UnmarshalArray/writes-beyond-destination", "%s: element %d of the caller's array changed when a batch was decoded into the empty window array[1:1]: %s", what, i, d)
		}
	}
	if win.Elem().Len() != 2 {
		return rp.Failf("codec.UnmarshalArray/length", "%s: UnmarshalArray of 2 messages into an empty window gave %d elements", what, win.Elem().Len())
	}
	return nil
}

var _ = fmt.Sprint
