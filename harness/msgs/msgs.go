// Package msgs enumerates the library's registered message types through its own dispatchers.
package msgs

import (
	"reflect"

	"github.com/uhppoted/uhppote-core/messages"

	"verif/harness/spec"
)

type Proto struct {
	Kind   string // request | response | event | event-v6.62
	Code   byte
	Type   reflect.Type
	Layout spec.Layout
}

func (p Proto) New() any { return reflect.New(p.Type).Interface() }

var all []Proto

// All returns every registered request and response type (found by probing all 256 function
// codes through UnmarshalRequest / UnmarshalResponse) plus the two event types.
func All() []Proto {
	if all != nil {
		return all
	}
	for code := 0; code < 256; code++ {
		b := make([]byte, 64)
		b[0], b[1] = 0x17, byte(code)
		if v, err := messages.UnmarshalRequest(b); err == nil && v != nil {
			l, _ := spec.RequestByCode(byte(code))
			all = append(all, Proto{"request", byte(code), reflect.TypeOf(v).Elem(), l})
		}
		if v, err := messages.UnmarshalResponse(b); err == nil && v != nil {
			l, _ := spec.ResponseByCode(byte(code))
			all = append(all, Proto{"response", byte(code), reflect.TypeOf(v).Elem(), l})
		}
	}
	all = append(all, Proto{"event", 0x20, reflect.TypeOf(messages.Event{}), spec.EventLayout}, Proto{"event-v6.62", 0x20, reflect.TypeOf(messages.EventV6_62{}), spec.EventLayout})
	return all
}
