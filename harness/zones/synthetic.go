package zones

import (
	"encoding/binary"
	"time"
)

// JumpsDaily builds a synthetic time zone whose clock springs forward (02:00 -> 03:00) and falls back (14:00 -> 13:00)
// on EVERY day from `from` to `to` (UTC dates). With the window laid around the current date it makes "today" a day with a
// missing and a repeated hour - which is what code that anchors a time of day on the current date (time.Now()) meets on
// two days of the year in an ordinary zone. Nothing the library is asked to do may depend on the date it is asked on.
func JumpsDaily(from, to time.Time) *time.Location {
	var times []int64
	var idx []byte
	day := time.Date(from.Year(), from.Month(), from.Day(), 0, 0, 0, 0, time.UTC)
	end := time.Date(to.Year(), to.Month(), to.Day(), 0, 0, 0, 0, time.UTC)
	for ; !day.After(end); day = day.AddDate(0, 0, 1) {
		times = append(times, day.Unix()+2*3600) // 02:00 standard -> 03:00 summer
		idx = append(idx, 1)
		times = append(times, day.Unix()+13*3600) // 14:00 summer -> 13:00 standard
		idx = append(idx, 0)
	}
	abbrev := []byte("SYN\x00SYD\x00")
	b := []byte("TZif")
	b = append(b, 0)                   // version 1
	b = append(b, make([]byte, 15)...) // reserved
	put32 := func(v uint32) { b = binary.BigEndian.AppendUint32(b, v) }
	put32(0)                   // isutcnt
	put32(0)                   // isstdcnt
	put32(0)                   // leapcnt
	put32(uint32(len(times)))  // timecnt
	put32(2)                   // typecnt
	put32(uint32(len(abbrev))) // charcnt
	for _, t := range times {
		put32(uint32(int32(t)))
	}
	b = append(b, idx...)
	put32(0) // type 0: utoff 0
	b = append(b, 0, 0)
	put32(3600) // type 1: utoff +1h, dst, abbreviation at 4
	b = append(b, 1, 4)
	b = append(b, abbrev...)
	loc, err := time.LoadLocationFromTZData("Synthetic/JumpsDaily", b)
	if err != nil {
		return nil
	}
	return loc
}

// JumpsToday is JumpsDaily for the week around the current date.
func JumpsToday() *time.Location {
	now := time.Now().UTC()
	return JumpsDaily(now.AddDate(0, 0, -3), now.AddDate(0, 0, 4))
}

// FallsBackAt builds a synthetic zone whose clock falls back by one hour (from UTC+1, 'SYD', to UTC, 'SYN') at the given
// instant - and has been on UTC+1 for thirty days before it. With the instant laid a few minutes before or after the current
// time, "now" lies in or next to the repeated hour.
func FallsBackAt(at time.Time) *time.Location {
	times := []int64{at.Unix() - 30*86400, at.Unix()}
	idx := []byte{1, 0}
	abbrev := []byte("SYN\x00SYD\x00")
	b := []byte("TZif")
	b = append(b, 0)
	b = append(b, make([]byte, 15)...)
	put32 := func(v uint32) { b = binary.BigEndian.AppendUint32(b, v) }
	put32(0)
	put32(0)
	put32(0)
	put32(uint32(len(times)))
	put32(2)
	put32(uint32(len(abbrev)))
	for _, t := range times {
		put32(uint32(int32(t)))
	}
	b = append(b, idx...)
	put32(0)
	b = append(b, 0, 0)
	put32(3600)
	b = append(b, 1, 4)
	b = append(b, abbrev...)
	loc, err := time.LoadLocationFromTZData("Synthetic/FallsBack", b)
	if err != nil {
		return nil
	}
	return loc
}

// SkipsMidnightAt builds a synthetic zone west of Greenwich (UTC-4, 'SYN') whose clock goes from 00:00 to 01:00 (UTC-3, 'SYD')
// on the given calendar day - that day has no local midnight - and has been on UTC-4 for a year before it.
func SkipsMidnightAt(y int, m time.Month, d int) *time.Location {
	at := time.Date(y, m, d, 4, 0, 0, 0, time.UTC) // 00:00 at UTC-4
	times := []int64{at.Unix() - 365*86400, at.Unix()}
	idx := []byte{0, 1}
	abbrev := []byte("SYN\x00SYD\x00")
	b := []byte("TZif")
	b = append(b, 0)
	b = append(b, make([]byte, 15)...)
	put32 := func(v uint32) { b = binary.BigEndian.AppendUint32(b, v) }
	put32(0)
	put32(0)
	put32(0)
	put32(uint32(len(times)))
	put32(2)
	put32(uint32(len(abbrev)))
	for _, t := range times {
		put32(uint32(int32(t)))
	}
	b = append(b, idx...)
	west4, west3 := int32(-4*3600), int32(-3*3600)
	put32(uint32(west4))
	b = append(b, 0, 0)
	put32(uint32(west3))
	b = append(b, 1, 4)
	b = append(b, abbrev...)
	loc, err := time.LoadLocationFromTZData("Synthetic/SkipsMidnight", b)
	if err != nil {
		return nil
	}
	return loc
}
