// Package zones provides the IANA zone list (committed zones.txt, filtered to what the tz
// database of this machine - or Go's embedded copy - can load), in-process switching of the
// process-local zone, and finders for days whose local midnight does not exist.
package zones

import (
	_ "embed"
	"sort"
	"strings"
	"sync"
	"time"
	_ "time/tzdata"
)

//go:embed zones.txt
var zonesTxt string

var (
	once  sync.Once
	names []string
	locs  = map[string]*time.Location{}
)

func load() {
	for _, n := range strings.Split(zonesTxt, "\n") {
		n = strings.TrimSpace(n)
		if n == "" {
			continue
		}
		if loc, err := time.LoadLocation(n); err == nil {
			names = append(names, n)
			locs[n] = loc
		}
	}
	sort.Strings(names)
}

// Names returns every loadable zone name, sorted.
func Names() []string {
	once.Do(load)
	return names
}

// Synthetic names the zone built by JumpsToday (a missing and a repeated hour on every day of the current week).
const Synthetic = "Synthetic/JumpsToday"

var fbMu sync.Mutex
var fbZones = map[string]*time.Location{}
var synthOnce sync.Once
var synth *time.Location

func Loc(name string) *time.Location {
	once.Do(load)
	if l, ok := locs[name]; ok {
		return l
	}
	if name == "UTC" || name == "" {
		return time.UTC
	}
	if strings.HasPrefix(name, "Fixed/") {
		// "Fixed/<abbreviation>/<offset in seconds>": a fixed zone as a host without tz database entry (or a time parsed with
		// a numeric offset) has it - the abbreviation may be empty or anything else
		rest := name[len("Fixed/"):]
		if i := strings.LastIndex(rest, "/"); i >= 0 {
			off := 0
			neg := false
			for _, ch := range rest[i+1:] {
				if ch == '-' {
					neg = true
				} else if ch >= '0' && ch <= '9' {
					off = off*10 + int(ch-'0')
				}
			}
			if neg {
				off = -off
			}
			return time.FixedZone(rest[:i], off)
		}
	}
	if strings.HasPrefix(name, "Synthetic/SkipsMidnightInDays/") {
		// "Synthetic/SkipsMidnightInDays/<n>": a zone at UTC-4 whose NEXT clock change removes the local midnight of the day n days
		// from today (n may be negative: it already happened)
		fbMu.Lock()
		defer fbMu.Unlock()
		if l, ok := fbZones[name]; ok {
			return l
		}
		n, neg := 0, false
		for _, ch := range name[len("Synthetic/SkipsMidnightInDays/"):] {
			if ch == '-' {
				neg = true
			} else if ch >= '0' && ch <= '9' {
				n = n*10 + int(ch-'0')
			}
		}
		if neg {
			n = -n
		}
		day := time.Now().UTC().AddDate(0, 0, n)
		l := SkipsMidnightAt(day.Year(), day.Month(), day.Day())
		if l == nil {
			l = time.UTC
		}
		fbZones[name] = l
		return l
	}
	if strings.HasPrefix(name, "Synthetic/FallsBackIn/") {
		// "Synthetic/FallsBackIn/<minutes>": the clock falls back <minutes> from now (negative: it did so that many minutes ago);
		// built once per process and name
		fbMu.Lock()
		defer fbMu.Unlock()
		if l, ok := fbZones[name]; ok {
			return l
		}
		minutes, neg := 0, false
		for _, ch := range name[len("Synthetic/FallsBackIn/"):] {
			if ch == '-' {
				neg = true
			} else if ch >= '0' && ch <= '9' {
				minutes = minutes*10 + int(ch-'0')
			}
		}
		if neg {
			minutes = -minutes
		}
		l := FallsBackAt(time.Now().Add(time.Duration(minutes) * time.Minute).Truncate(time.Minute))
		if l == nil {
			l = time.UTC
		}
		fbZones[name] = l
		return l
	}
	if name == Synthetic {
		synthOnce.Do(func() { synth = JumpsToday() })
		if synth != nil {
			return synth
		}
		return time.UTC
	}
	l, err := time.LoadLocation(name)
	if err != nil {
		panic("zones: cannot load " + name)
	}
	return l
}

// Odd returns the names of process zones no tz database has: fixed zones whose abbreviation is empty, numeric, blank,
// non-ASCII or long, with ordinary, extreme and odd offsets.
func Odd() []string {
	return []string{"Fixed//19800", "Fixed//0", "Fixed//-10800", "Fixed/+0530/19800", "Fixed/-03/-10800", "Fixed/ /3600", "Fixed/Ω/7200", "Fixed/Mitteleuropäische Sommerzeit/7200",
		"Fixed/Z/0", "Fixed/a b/-34200", "Fixed//50400", "Fixed//-43200", "Fixed/X/86399", "Fixed//1", "Fixed/\"/3600", "Fixed/UTC/3600"}
}

// Spread returns a fixed selection of n zones: the known trouble-makers first (midnight DST
// gaps, half-hour and 45-minute offsets, date-line zones, fixed Etc zones), then an even
// spread over the sorted list.
func Spread(n int) []string {
	all := Names()
	pref := []string{"UTC", "America/Santiago", "America/Havana", "America/Asuncion", "Asia/Beirut", "Africa/Cairo", "Asia/Tehran", "America/Sao_Paulo", "Asia/Amman",
		"Asia/Gaza", "Atlantic/Azores", "America/Scoresbysund", "Pacific/Apia", "Pacific/Kiritimati", "Pacific/Chatham", "Asia/Kathmandu", "Australia/Lord_Howe",
		"Etc/GMT-14", "Etc/GMT+12", "America/New_York", "Europe/London", "Asia/Kolkata", "America/St_Johns", "Pacific/Kwajalein", "Asia/Damascus", "America/Godthab",
		"America/Campo_Grande", "Asia/Pyongyang", "Antarctica/Troll", "Africa/Casablanca", "Europe/Dublin", "Pacific/Tongatapu", "America/Bahia", "Asia/Dhaka"}
	seen := map[string]bool{}
	var out []string
	for _, p := range pref {
		if len(out) < n && !seen[p] {
			if _, ok := locs[p]; ok || p == "UTC" {
				seen[p] = true
				out = append(out, p)
			}
		}
	}
	for i := 0; len(out) < n && i < len(all); i++ {
		c := all[(i*37)%len(all)]
		if !seen[c] {
			seen[c] = true
			out = append(out, c)
		}
	}
	return out
}

// With runs f with the process-local zone set to loc. Only to be used while no library
// goroutine is running (single-threaded checks).
func With(loc *time.Location, f func()) {
	old := time.Local
	time.Local = loc
	defer func() { time.Local = old }()
	f()
}

type Day struct{ Y, M, D int }

// DayExists reports whether the calendar day has at least one instant in loc (checked on
// every quarter hour).
func DayExists(loc *time.Location, y, m, d int) bool {
	for q := 0; q < 96; q++ {
		t := time.Date(y, time.Month(m), d, q/4, (q%4)*15, 0, 0, loc)
		if yy, mm, dd := t.Date(); yy == y && int(mm) == m && dd == d && t.Hour() == q/4 && t.Minute() == (q%4)*15 {
			return true
		}
	}
	return false
}

// MidnightExists reports whether 00:00:00 of the day exists in loc.
func MidnightExists(loc *time.Location, y, m, d int) bool {
	t := time.Date(y, time.Month(m), d, 0, 0, 0, 0, loc)
	yy, mm, dd := t.Date()
	return yy == y && int(mm) == m && dd == d && t.Hour() == 0 && t.Minute() == 0 && t.Second() == 0
}

// CivilExists reports whether the civil date-time exists in loc.
func CivilExists(loc *time.Location, y, m, d, h, mi, s int) bool {
	t := time.Date(y, time.Month(m), d, h, mi, s, 0, loc)
	yy, mm, dd := t.Date()
	hh, mmi, ss := t.Clock()
	return yy == y && int(mm) == m && dd == d && hh == h && mmi == mi && ss == s
}

var (
	gapMu    sync.Mutex
	gapCache = map[string][]Day{}
	trCache  = map[string][]time.Time{}
)

// Transitions returns the instants between fromYear and toYear at which the UTC offset of loc
// changes (found by a 6-hour scan followed by bisection to the second).
func Transitions(name string, fromYear, toYear int) []time.Time {
	key := name + "/" + itoa(fromYear) + "/" + itoa(toYear)
	gapMu.Lock()
	if v, ok := trCache[key]; ok {
		gapMu.Unlock()
		return v
	}
	gapMu.Unlock()
	loc := Loc(name)
	var out []time.Time
	start := time.Date(fromYear, 1, 1, 0, 0, 0, 0, time.UTC)
	end := time.Date(toYear+1, 1, 1, 0, 0, 0, 0, time.UTC)
	step := 6 * time.Hour
	_, prev := start.In(loc).Zone()
	for t := start; t.Before(end); t = t.Add(step) {
		_, off := t.Add(step).In(loc).Zone()
		if off != prev {
			lo, hi := t, t.Add(step)
			for hi.Sub(lo) > time.Second {
				mid := lo.Add(hi.Sub(lo) / 2).Truncate(time.Second)
				if _, o := mid.In(loc).Zone(); o == prev {
					lo = mid
				} else {
					hi = mid
				}
			}
			out = append(out, hi)
			_, prev = hi.In(loc).Zone()
			// several changes inside one step are rare; rescan the remainder of the step
			if _, o2 := t.Add(step).In(loc).Zone(); o2 != prev {
				prev = o2
			}
		}
	}
	gapMu.Lock()
	trCache[key] = out
	gapMu.Unlock()
	return out
}

// MidnightGaps returns every day between fromYear and toYear whose local midnight does not
// exist in the zone (days that do not exist at all are included; use DayExists to tell).
func MidnightGaps(name string, fromYear, toYear int) []Day {
	key := name + "/" + itoa(fromYear) + "/" + itoa(toYear)
	gapMu.Lock()
	if v, ok := gapCache[key]; ok {
		gapMu.Unlock()
		return v
	}
	gapMu.Unlock()
	loc := Loc(name)
	seen := map[Day]bool{}
	var out []Day
	for _, tr := range Transitions(name, fromYear, toYear) {
		// candidates: the local days around the transition
		for delta := -2; delta <= 2; delta++ {
			l := tr.In(loc).AddDate(0, 0, delta)
			y, m, d := l.Date()
			for _, c := range []Day{{y, int(m), d}} {
				if !seen[c] && !MidnightExists(loc, c.Y, c.M, c.D) {
					seen[c] = true
					out = append(out, c)
				}
			}
		}
		// the civil day right after the pre-transition wall clock
		before := tr.Add(-time.Second).In(loc)
		for delta := 0; delta <= 2; delta++ {
			y, m, d := before.Date()
			nd := time.Date(y, m, d+delta, 12, 0, 0, 0, time.UTC)
			c := Day{nd.Year(), int(nd.Month()), nd.Day()}
			if !seen[c] && !MidnightExists(loc, c.Y, c.M, c.D) {
				seen[c] = true
				out = append(out, c)
			}
		}
	}
	sort.Slice(out, func(i, j int) bool {
		a, b := out[i], out[j]
		if a.Y != b.Y {
			return a.Y < b.Y
		}
		if a.M != b.M {
			return a.M < b.M
		}
		return a.D < b.D
	})
	gapMu.Lock()
	gapCache[key] = out
	gapMu.Unlock()
	return out
}

func itoa(i int) string {
	if i == 0 {
		return "0"
	}
	neg := i < 0
	if neg {
		i = -i
	}
	var b []byte
	for i > 0 {
		b = append([]byte{byte('0' + i%10)}, b...)
		i /= 10
	}
	if neg {
		b = append([]byte{'-'}, b...)
	}
	return string(b)
}
