package zones

import (
	"testing"
	"time"
)

func TestGaps(t *testing.T) {
	if len(Names()) < 400 {
		t.Fatalf("only %d zones", len(Names()))
	}
	g := MidnightGaps("America/Santiago", 2020, 2024)
	t.Logf("Santiago: %v", g)
	found := false
	for _, d := range g {
		if d == (Day{2022, 9, 11}) {
			found = true
		}
	}
	if !found {
		t.Fatalf("2022-09-11 not found as a midnight gap in America/Santiago")
	}
	a := MidnightGaps("Pacific/Apia", 2010, 2012)
	t.Logf("Apia: %v exists(2011-12-30)=%v", a, DayExists(Loc("Pacific/Apia"), 2011, 12, 30))
	if DayExists(Loc("Pacific/Apia"), 2011, 12, 30) {
		t.Fatalf("2011-12-30 should not exist in Pacific/Apia")
	}
	total := 0
	for _, n := range Names() {
		total += len(MidnightGaps(n, 1900, 2100))
	}
	t.Logf("midnight gaps 1900-2100 over all zones: %d", total)
}

func TestJumpsDaily(t *testing.T) {
	loc := JumpsToday()
	if loc == nil {
		t.Fatal("cannot build the synthetic zone")
	}
	now := time.Now().UTC()
	gap := time.Date(now.Year(), now.Month(), now.Day(), 2, 30, 0, 0, loc)
	if gap.Hour() == 2 {
		t.Errorf("02:30 today exists in the synthetic zone: %v", gap)
	}
	ok := time.Date(now.Year(), now.Month(), now.Day(), 12, 30, 0, 0, loc)
	if ok.Hour() != 12 {
		t.Errorf("12:30 today: %v", ok)
	}
}
