// Package render invokes String() and JSON encoding of a value and of every value nested in
// it *directly* (never through fmt, which swallows panics raised by String methods) and
// reports the first panic.
package render

import (
	"encoding/json"
	"fmt"
	"reflect"
)

type stringer interface{ String() string }

// Panics returns a description of the first panic raised by String()/MarshalJSON on v or on
// any value reachable from it, or "".
func Panics(v any) string {
	if v == nil {
		return ""
	}
	if msg := call("String()", v); msg != "" {
		return msg
	}
	if msg := try(func() { json.Marshal(v) }, fmt.Sprintf("json.Marshal(%T)", v)); msg != "" {
		return msg
	}
	return walk(reflect.ValueOf(v), 0)
}

func try(f func(), what string) (msg string) {
	defer func() {
		if r := recover(); r != nil {
			msg = fmt.Sprintf("%s panicked: %v", what, r)
		}
	}()
	f()
	return ""
}

func call(what string, v any) string {
	if s, ok := v.(stringer); ok {
		rv := reflect.ValueOf(v)
		if rv.Kind() == reflect.Ptr && rv.IsNil() {
			return ""
		}
		return try(func() { _ = s.String() }, fmt.Sprintf("(%T).%s", v, what))
	}
	return ""
}

func walk(v reflect.Value, depth int) string {
	if depth > 6 || !v.IsValid() {
		return ""
	}
	if v.CanInterface() {
		if msg := call("String()", v.Interface()); msg != "" {
			return msg
		}
		if m, ok := v.Interface().(json.Marshaler); ok && !(v.Kind() == reflect.Ptr && v.IsNil()) {
			if msg := try(func() { m.MarshalJSON() }, fmt.Sprintf("(%T).MarshalJSON()", v.Interface())); msg != "" {
				return msg
			}
		}
		if v.CanAddr() && v.Addr().CanInterface() {
			if msg := call("String()", v.Addr().Interface()); msg != "" {
				return msg
			}
		}
	}
	switch v.Kind() {
	case reflect.Ptr, reflect.Interface:
		if !v.IsNil() {
			return walk(v.Elem(), depth+1)
		}
	case reflect.Struct:
		if v.Type().PkgPath() == "time" || v.Type().PkgPath() == "net/netip" {
			return ""
		}
		for i := 0; i < v.NumField(); i++ {
			if v.Type().Field(i).IsExported() {
				if msg := walk(v.Field(i), depth+1); msg != "" {
					return msg
				}
			}
		}
	case reflect.Slice, reflect.Array:
		if v.Type().Elem().Kind() == reflect.Uint8 {
			return ""
		}
		for i := 0; i < v.Len() && i < 16; i++ {
			if msg := walk(v.Index(i), depth+1); msg != "" {
				return msg
			}
		}
	case reflect.Map:
		iter := v.MapRange()
		for n := 0; iter.Next() && n < 16; n++ {
			if msg := walk(iter.Value(), depth+1); msg != "" {
				return msg
			}
		}
	}
	return ""
}
