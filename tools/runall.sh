#!/bin/sh
# runs every check of a tier sequentially and prints a summary (development helper)
tier=${1:-quick}
cd "$(dirname "$0")/.." || exit 2
for id in C01 C02 C03 C04 C05 C06 C07 C08 C09 C10 C11 C12 C13 C14 C15 C16 C17 C18; do
  start=$(date +%s)
  out=$(./verif.sh $id $tier 2>&1); code=$?
  end=$(date +%s)
  echo "$id exit=$code $((end-start))s :: $(echo "$out" | grep -E "^$id |VIOLATION|HARNESS-ERROR|KNOWN" | head -3 | tr '\n' ' ')"
done
