#!/usr/bin/env python3
"""Evaluates one seeded change: confirms it (compiles, suite passes, demo fails with / passes without it) in
scratch worktrees under /tmp, runs the named checks against the changed copy (VERIF_REPO), records the outcome.

usage: seedeval.py <seed-dir> [--checks C01,C02] [--tier quick] [--keep]
<seed-dir> holds patch.diff, meta.json and the demonstration (demo_test.go or demo/main.go)."""
import json, os, shutil, subprocess, sys, time, hashlib

ENV = dict(os.environ, GOFLAGS="-mod=mod", GOPROXY="off", GOSUMDB="off", GOTOOLCHAIN="local")

def sh(cmd, cwd=None, timeout=1800, env=None):
    p = subprocess.run(cmd, shell=True, cwd=cwd, env=env or ENV, stdout=subprocess.PIPE, stderr=subprocess.STDOUT, text=True, timeout=timeout)
    return p.returncode, p.stdout

def worktree(path):
    sh(f"git -C /repo worktree remove --force {path}")
    shutil.rmtree(path, ignore_errors=True)
    rc, out = sh(f"git -C /repo worktree add -q --detach {path} HEAD")
    if rc != 0:
        raise SystemExit(f"cannot create worktree {path}: {out}")

def run_demo(tree, seed, meta):
    demo = meta.get("demo", {})
    kind = demo.get("kind", "test")
    if kind == "test" or os.path.exists(os.path.join(seed, "demo_test.go")):
        d = demo.get("dir", "").strip("/") or "uhppote"
        if d.startswith("./"):
            d = d[2:]
        dst = os.path.join(tree, d, "zz_seed_demo_test.go")
        shutil.copy(os.path.join(seed, "demo_test.go"), dst)
        import re
        names = re.findall(r"^func (Test\w+)\(", open(dst).read(), re.M)
        pattern = "^(" + "|".join(names) + ")$"
        race = "-race" if "-race" in demo.get("run", "") else ""
        m = re.search(r"-tags[ =]([\w,]+)", demo.get("run", ""))
        if m:  # a demonstration that needs a build configuration of its own
            race += " -tags " + m.group(1)
        rc, out = sh(f"bash -c 'set -o pipefail; go test -count=1 {race} -run \"{pattern}\" ./{d}/ 2>&1 | tail -40'", cwd=tree)
        os.remove(dst)
        return rc, out
    # program
    ddir = os.path.join(tree, "zz_seed_demo")
    shutil.rmtree(ddir, ignore_errors=True)
    shutil.copytree(os.path.join(seed, "demo"), ddir)
    rc, out = sh("bash -c 'set -o pipefail; go run ./zz_seed_demo 2>&1 | tail -40'", cwd=tree)
    shutil.rmtree(ddir, ignore_errors=True)
    return rc, out

def run_checks(result, checks, tier, mutated):
    result["checks"] = {}
    for c in checks:
        t0 = time.time()
        rc, out = sh(f"./verif.sh {c} {tier}", cwd=os.environ.get("VERIF_DIR", "/verif"), env=dict(ENV, VERIF_REPO=mutated, VERIF_SEED=os.environ.get("VERIF_SEED", "1")), timeout=7200)
        lines = [l for l in out.splitlines() if l.startswith("VIOLATION") or l.startswith("  [") or l.startswith("HARNESS-ERROR")]
        result["checks"][c] = {"exit": rc, "seconds": round(time.time() - t0, 1), "lines": lines[:6]}
    result["caught_by"] = [c for c, r in result["checks"].items() if r["exit"] == 1]
    return result

def main():
    seed = os.path.abspath(sys.argv[1])
    args = sys.argv[2:]
    tier = "quick"
    checks = None
    keep = "--keep" in args
    reuse = None
    for i, a in enumerate(args):
        if a == "--checks":
            checks = args[i + 1].split(",")
        if a == "--reuse":
            # an earlier evaluation of the SAME patch against the SAME /repo commit: its confirmation (patch applies, suite
            # passes, demonstration fails with / passes without the change) is taken over instead of being repeated
            reuse = json.load(open(args[i + 1]))
        if a == "--tier":
            tier = args[i + 1]
    meta = json.load(open(os.path.join(seed, "meta.json")))
    prop = meta["property"]
    checks = checks or [prop]
    tag = hashlib.sha1(seed.encode()).hexdigest()[:10]
    mutated, clean = f"/tmp/ev-{tag}-m", f"/tmp/ev-{tag}-c"
    result = {"seed": os.path.basename(seed), "property": prop}
    try:
        worktree(mutated)
        worktree(clean)
        rc, out = sh(f"git apply {seed}/patch.diff", cwd=mutated)
        if rc != 0:
            result["confirmed"] = False
            result["why"] = "patch does not apply: " + out[-400:]
            return result
        head = sh("git rev-parse HEAD", cwd="/repo")[1].strip()
        psha = hashlib.sha1(open(os.path.join(seed, "patch.diff"), "rb").read()).hexdigest()
        result["repo_commit"], result["patch_sha1"] = head, psha
        if reuse and reuse.get("confirmed") and reuse.get("patch_sha1", psha) == psha and reuse.get("repo_commit", head) == head:
            for k in ("suite_passes_with_change", "demo_fails_with_change", "demo_passes_without_change", "confirmed"):
                result[k] = reuse.get(k)
            result["confirmation_from"] = "the first evaluation of this change (same patch, same /repo commit)"
            return run_checks(result, checks, tier, mutated)
        # the library's own suite binds fixed ports (127.0.0.1:12345 ...): serialise it and retry on a busy port
        for attempt in range(8):
            rc2, out2 = sh("flock /tmp/uhppote-suite.lock bash -c 'go build ./... && go vet ./... && go test -count=1 ./... 2>&1'", cwd=mutated)
            if rc2 == 0 or "address already in use" not in out2:
                break
            time.sleep(7)
        out2 = "\n".join(l for l in out2.splitlines() if "FAIL" in l or "rror" in l)[-900:]
        result["suite_passes_with_change"] = rc2 == 0
        if rc2 != 0:
            result["confirmed"] = False
            result["why"] = "existing suite fails with the change: " + out2[-600:]
            return result
        rcm, outm = run_demo(mutated, seed, meta)
        rcc, outc = run_demo(clean, seed, meta)
        result["demo_fails_with_change"] = rcm != 0
        result["demo_passes_without_change"] = rcc == 0
        result["confirmed"] = rcm != 0 and rcc == 0
        if not result["confirmed"]:
            result["why"] = f"demo with change rc={rcm}: {outm[-300:]} | demo clean rc={rcc}: {outc[-300:]}"
            return result
        return run_checks(result, checks, tier, mutated)
    finally:
        if not keep:
            for t in (mutated, clean):
                sh(f"git -C /repo worktree remove --force {t}")
                shutil.rmtree(t, ignore_errors=True)
            # remove the private build output of this evaluation
            import glob
            for d in glob.glob("/verif/.build/alt/*"):
                try:
                    mod = open(os.path.join(d, "alt.mod")).read()
                    if mutated in mod:
                        shutil.rmtree(d, ignore_errors=True)
                except Exception:
                    pass
        print(json.dumps(result, indent=1))

if __name__ == "__main__":
    main()
