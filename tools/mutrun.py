#!/usr/bin/env python3
"""Mutation sweep (sensitivity experiment, DESIGN.md section 7.3): for every mutant produced by tools/mutgen
  1. apply it to a scratch worktree of /repo (under /tmp, never /repo itself),
  2. build; run the library's own unedited test suite in a private network namespace (the suite binds fixed ports);
     a mutant that does not compile is 'stillborn', one that fails the suite is 'killed-by-suite';
  3. for a survivor run the quick checks (VERIF_REPO=<worktree>), most relevant first, until one reports a violation.
Results are appended to /verif/mutation/results.jsonl (resumable). Nothing is ever written to /repo.

usage: mutrun.py <mutants.jsonl> [--workers N] [--only-file substr] [--stage1-only] [--limit N]"""
import json, os, subprocess, sys, threading, queue, time, shutil

ENV = dict(os.environ, GOFLAGS="-mod=mod", GOPROXY="off", GOSUMDB="off", GOTOOLCHAIN="local")
OUT = os.environ.get("MUT_OUT", "/verif/mutation/results.jsonl")
VERIF = os.environ.get("MUT_VERIF", "/verif")
ALL = ["C%02d" % i for i in range(1, 19)]

def order_for(path):
    if os.environ.get("MUT_ONLY"):
        # an explicit list of checks (a pass over survivors with the checks that the per-file mapping leaves out)
        return os.environ["MUT_ONLY"].split(",")
    def rest(first):
        # only the checks that observe the mutated file (MUT_ALL=1: every check, most relevant first)
        if os.environ.get("MUT_ALL"):
            return first + [c for c in ALL if c not in first]
        return first
    if path.startswith("encoding/bcd"):
        return rest(["C12", "C05", "C02", "C01", "C18"])
    if path.startswith("encoding/UTO311"):
        return rest(["C18", "C05", "C04", "C01", "C02", "C03", "C17", "C11", "C10"])
    if path.startswith("messages/"):
        return rest(["C05", "C01", "C02", "C04", "C10", "C11", "C03"])
    if path.startswith("types/"):
        b = os.path.basename(path)
        if b in ("date.go", "datetime.go", "systemdate.go", "systemtime.go"):
            return rest(["C13", "C14", "C16", "C05", "C02", "C01", "C07", "C04"])
        if b == "HHmm.go":
            return rest(["C16", "C14", "C02", "C01", "C05", "C07"])
        if b.endswith("_addr.go"):
            return rest(["C15", "C14", "C06", "C17"])
        return rest(["C14", "C04", "C17", "C02", "C01", "C05", "C07", "C10"])
    if path == "uhppote/UT0311.go":
        return rest(["C03", "C06", "C09", "C11", "C10", "C08", "C01"])
    if path == "uhppote/uhppote.go":
        return rest(["C03", "C06", "C07", "C11", "C10", "C17", "C01", "C04", "C09"])
    if path == "uhppote/listen.go":
        return rest(["C10", "C04", "C13", "C08"])
    if path.startswith("uhppote/"):
        return rest(["C01", "C02", "C07", "C04", "C17", "C16", "C11", "C13", "C06", "C03"])
    return ALL

def sh(cmd, cwd=None, timeout=1800, env=None):
    try:
        p = subprocess.run(cmd, shell=True, cwd=cwd, env=env or ENV, stdout=subprocess.PIPE, stderr=subprocess.STDOUT, text=True, timeout=timeout)
        return p.returncode, p.stdout
    except subprocess.TimeoutExpired as e:
        return 124, (e.stdout or "") if isinstance(e.stdout, str) else ""

lock = threading.Lock()

def record(r):
    with lock:
        with open(OUT, "a") as f:
            f.write(json.dumps(r) + "\n")
        tag = r.get("status")
        print(r["id"], r["file"], r["line"], r["kind"], repr(r["orig"][:30]), "->", repr(r["repl"][:30]), "::", tag, r.get("caught_by", ""), flush=True)

def worker(k, q, stage1_only):
    wt = f"/tmp/mut/{os.environ.get('MUT_TAG', 'w')}{k}"
    sh(f"git -C /repo worktree remove --force {wt}")
    shutil.rmtree(wt, ignore_errors=True)
    rc, out = sh(f"git -C /repo worktree add -q --detach {wt} HEAD")
    if rc != 0:
        print("cannot create worktree", out)
        return
    while True:
        try:
            m = q.get_nowait()
        except queue.Empty:
            break
        path = os.path.join(wt, m["file"])
        src = open(path, "rb").read()
        r = dict(m)
        try:
            if src[m["start"]:m["end"]].decode() != m["orig"]:
                r["status"] = "stale"
                record(r)
                continue
            open(path, "wb").write(src[:m["start"]] + m["repl"].encode() + src[m["end"]:])
            rc, out = sh("go build ./... && go vet ./... 2>&1", cwd=wt, timeout=300)
            if rc != 0:
                r["status"] = "stillborn"
                record(r)
                continue
            rc, out = sh("unshare -n sh -c 'ip link set lo up; go test -timeout 120s ./... 2>&1'", cwd=wt, timeout=400)
            if rc != 0:
                r["status"] = "killed-by-suite"
                record(r)
                continue
            if stage1_only:
                r["status"] = "survived-suite"
                record(r)
                continue
            r["checks"] = {}
            caught = None
            for c in order_for(m["file"]):
                t0 = time.time()
                rc, out = sh(f"./verif.sh {c} quick", cwd=VERIF, env=dict(ENV, VERIF_REPO=wt, VERIF_SEED="1"), timeout=1500)
                lines = [l for l in out.splitlines() if l.startswith("VIOLATION") or l.startswith("  [") or l.startswith("HARNESS-ERROR")]
                r["checks"][c] = {"exit": rc, "s": round(time.time() - t0, 1), "lines": lines[:3]}
                if rc == 1:
                    caught = c
                    break
            r["status"] = "caught" if caught else "survived-all"
            r["caught_by"] = caught
            record(r)
        finally:
            open(path, "wb").write(src)
    sh(f"git -C /repo worktree remove --force {wt}")
    shutil.rmtree(wt, ignore_errors=True)
    import glob
    for d in glob.glob(VERIF + "/.build/alt/*"):
        try:
            if wt in open(os.path.join(d, "alt.mod")).read():
                shutil.rmtree(d, ignore_errors=True)
        except Exception:
            pass

def main():
    args = sys.argv[1:]
    ms = [json.loads(l) for l in open(args[0])]
    workers, only, stage1, limit = 4, None, False, None
    ids = None
    for i, a in enumerate(args):
        if a == "--workers": workers = int(args[i + 1])
        if a == "--only-file": only = args[i + 1]
        if a == "--stage1-only": stage1 = True
        if a == "--limit": limit = int(args[i + 1])
        if a == "--ids": ids = set(args[i + 1].split(","))
    os.makedirs(os.path.dirname(OUT), exist_ok=True)
    done = set()
    if os.path.exists(OUT):
        for l in open(OUT):
            try:
                d = json.loads(l)
                done.add((d["file"], d["start"], d["end"], d["repl"]))
            except Exception:
                pass
    q = queue.Queue()
    n = 0
    for m in ms:
        if (m["file"], m["start"], m["end"], m["repl"]) in done:
            continue
        if only and only not in m["file"]:
            continue
        if ids is not None and m["id"] not in ids:
            continue
        q.put(m)
        n += 1
        if limit and n >= limit:
            break
    print("to do:", n, flush=True)
    ts = [threading.Thread(target=worker, args=(k, q, stage1)) for k in range(workers)]
    for t in ts: t.start()
    for t in ts: t.join()

if __name__ == "__main__":
    main()
