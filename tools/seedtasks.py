#!/usr/bin/env python3
"""Prepares a round of seeded-change tasks for independent sub-agents: one clone of /repo and one TASK.md per property under
/tmp/seedwork/<id>/ (nothing from /verif except the property text and the TITLES of earlier changes, so as not to get them again).
usage: seedtasks.py <k1> <k2>      (seed numbers of this round, e.g. 7 8)"""
import json, os, subprocess, sys, glob
k1, k2 = sys.argv[1], sys.argv[2]
props = {json.loads(l)['id']: json.loads(l) for l in open('/verif/properties.jsonl')}
os.makedirs('/tmp/seed-out', exist_ok=True)
for pid, p in props.items():
    prior = []
    for d in sorted(glob.glob(f'/verif/seeded/{pid}-*')):
        prior.append(json.load(open(d + '/meta.json'))['title'])
    for d in sorted(glob.glob(f'/tmp/seed-out/{pid}-*')):  # a round that is evaluated but not archived yet
        k = d.rsplit('-', 1)[1]
        if k not in (k1, k2) and not os.path.exists(f'/verif/seeded/{pid}-{k}') and os.path.exists(d + '/meta.json'):
            prior.append(json.load(open(d + '/meta.json'))['title'])
    wt = f'/tmp/seedwork/{pid}/repo'
    os.makedirs(f'/tmp/seedwork/{pid}', exist_ok=True)
    subprocess.run(f'rm -rf {wt} && git clone -q /repo {wt}', shell=True, check=True)
    for k in (k1, k2):
        os.makedirs(f'/tmp/seed-out/{pid}-{k}', exist_ok=True)
    task = f"""# Task: write two subtle, property-breaking changes to a Go library

You are working on a scratch clone of the Go library uhppoted/uhppote-core (a client library for UHPPOTE
UT0311-L0x access controllers: 64-byte UDP/TCP message codec, BCD encoding, request/response API):

    {wt}

Work ONLY inside that directory, /tmp/seedwork/{pid}/ (scratch files) and the two output directories named below. Do not read
or write anything under /verif or /repo (another team owns those); do not look at other directories under /tmp/seedwork or
/tmp/seed-out. There is no network. Every shell call needs:  export GOFLAGS=-mod=mod GOPROXY=off GOSUMDB=off GOTOOLCHAIN=local
The machine is busy: be patient with builds and tests.

## The property

The library is supposed to satisfy this semantic property (id {pid}):

**{p['title']}**

Statement: {p['statement']}

It is meant to hold: {p['quantifier']['text']}

## What to produce

Two DIFFERENT changes (call them {pid}-{k1} and {pid}-{k2}) to the library's non-test source code, each of which

1. BREAKS the property above (a user relying on the property would get wrong behaviour),
2. still compiles (`go build ./... && go vet ./...`) and still passes the library's existing test suite, unedited
   (`flock /tmp/uhppote-suite.lock go test -count=1 ./...` - use the flock, the suite binds fixed ports and other
   people run it at the same time; if it fails with 'address already in use', wait and retry),
3. looks like something a maintainer might plausibly write (a refactoring, an optimisation, a cache, a tidy-up, a
   'simplification', a feature, a portability fix) - not sabotage with an obviously magic constant,
4. is HARD TO DETECT: it must need something specific in order to manifest - for example one particular interleaving
   or timing, a fault at one particular point, a multi-step sequence of operations (state carried from an earlier call),
   one unusual input or narrow input region, one particular configuration/time zone/path, or two cooperating edits in
   different places that each look fine alone. A change that ordinary use or a handful of random inputs would expose
   at once is NOT wanted. Assume the people testing the library already run large numbers of random inputs and random call
   sequences (incl. read-modify-write sequences and arguments that coincide with configured values), every IANA time zone
   (incl. zones with skipped days and a synthetic zone that changes its clock today), concurrent callers (incl. identical
   concurrent calls and cold-start concurrency in fresh processes), debug mode on/off, every kind of client configuration
   (controller time zones, door names, IPv4-mapped / IPv6 addresses, equal port numbers), all stop-signal kinds, common
   network faults (silence, floods, streams across the deadline, refused / reset / closed / trickling / slowly connecting
   peers, ICMP errors), hash-colliding and carry-aliased inputs for caches, constants harvested from the source code,
   results that are modified by the caller and re-read later, slice arguments with spare capacity, input buffers that are
   reused and changed in place, idle periods longer than any time constant in the source code, listener events interleaved
   with requests, error-callback return values, pauses injected between the network driver and the decoding code, degenerate
   timeouts, very long argument lists, numbers that wrap modulo 2^8..2^64, decoding into variables that were used before,
   calls that wait seconds for a shared bind port while carrying clock-derived arguments, controllers that turn slow after
   many prompt answers, wrong-function replies late in the timeout window, the reply to the previous call arriving again,
   clients warmed up by earlier replies that echo the very arguments of the next call, listeners that are running (and have
   heard events from elsewhere) while requests are routed, Listen called twice, callbacks that stop the listener and wait,
   results carrying well-known shared addresses (0.0.0.0, 255.255.255.255) that the caller modifies in place, the
   configuration re-read through DeviceList after the caller changed its own data, controllers listed twice, writes through
   decoded pointer fields, process time zones without abbreviation or with odd ones, controller names in non-Latin scripts,
   dates that wrap a time of day in another location, replies that are byte-identical to their request, equal bind and
   destination ports, message layouts embedding structs of unexported types, inputs placed flush against unmapped memory
   pages, results held across garbage collections, struct copies of decoded values kept while the variable is reused, card
   numbers echoed in related notations (Wiegand decimal / raw 24 bit), century leap days, arguments built from parts of the
   client configuration, undefined enum values in argument lists, dates before the common era, 8- and 20-octet MAC
   addresses, struct tags written in other orders, same-named local types of different sizes, any subset of message fields
   blanked combined with noise in unused bytes, the network watched for unsolicited traffic during long idle periods,
   consumers that block for longer than any constant in the source, TCP peers that never close, firmware versions learnt
   from earlier replies, consecutive events whose clocks are a calendar step apart, rival processes binding the same port
   with SO_REUSEADDR, reply bursts as large as the socket receive queue with stalled debug output, ICMP errors for
   requests that expect no reply, bind addresses without an IP, hundreds of concurrent calls to one controller (also under
   a low limit on open files, also in fresh processes), 32-bit builds of the library, inputs of millions of digits,
   controller / bind / sender addresses derived from the host's own interfaces and subnets, addresses the host does not own,
   one argument slice kept and passed again call after call, different argument tuples validated concurrently on one client,
   listeners restarted while the old one's callback is busy, two listeners on one port number of two local addresses,
   hundreds of events queued behind a slow callback, discovery before / during / after listening, clients created between
   parses, fresh processes that use the parsers in every order, a rejected message decoded right before a valid one,
   field-level encodings written into by the caller, byte-identical consecutive events and replies with in-place edits,
   replies of every class inside request histories, values made through every constructor, time profiles that start on
   daylight-saving change days, partial door maps, fractional numbers, weekday ranges, over-long datagrams made of whole
   frames, empty datagrams, descriptor exhaustion, values of other locations / zones handled right before the value under
   test (also after enough other values to flush small memos), decoding into variables that hold values of other locations,
   different days without a local midnight handled by several goroutines at once, concurrent different calls on one client,
   argument slices overwritten in place between calls, debug output that stalls at any chosen line for longer than the
   timeout, TCP peers that keep the connection open after a request that expects no reply, deadlocks between concurrent
   calls of different transport paths (reported as such), raw ICMP observation, IPv6 senders, multicast broadcast addresses,
   real process signals, TZ changed at run time, address text with escapes and environment references, case mappings that
   change byte lengths, decorated text (fractional seconds) whose decoded value must survive its own JSON form, out-of-range
   times in ordered segments, special-purpose IPv4 ranges, instants centuries apart, layouts of up to 62 fields, processes
   that have started tens of millions of goroutines and hold thousands of descriptors, GOMAXPROCS 1..3, discoveries with
   dozens of replies, timeouts of days .. years .. for ever, time.Local reassigned while events are in flight, calls made
   while the client's listener runs, builds under every custom build tag found in the source, batch decoding (elements
   compared with single decodes, destination slices and windows reused), appends to decoded address fields, overlapping
   discoveries, real sockets watching the addresses named in arguments, HH:mm values with three-digit / negative / extreme
   components, the zero date-time and date-times before 1970, each zone's reading of the Unix epoch and 2^31 / 2^32 seconds,
   meaningful MAC addresses (zero, broadcast), numbers with leading zeros, door lists of any length, any signal number, stray
   replies and 0x19 status replies on the broadcast path, decoding address text into variables that hold a value, inputs
   of more than 2^32 digits, discoveries queued behind a held bind port, a closed port that opens between two calls, clients
   without a bind address after clients with one, several kinds of network fault met by one client in a row, consecutive valid
   calls with cross-referring arguments, clients rebuilt from an edited list, results kept as struct copies across garbage
   collections, strings that die right after a call, pointer templates, empty batches, status replies whose clocks coincide
   (also a century apart), zones that fall back minutes from now, zero instants in eastern locations, same-named zones with
   different rules, storms of 10^5 datagrams within one call, discoveries with thousands of datagrams, floods that run
   before the call starts, bind port = controller port = listen port, segment maps with extra keys, concurrent comparisons
   and concurrent client construction, malformed datagrams while a stopping callback is busy, addresses wrapped in URL / CIDR
   syntax, every JSON leaf replaced by null and other shapes, socket counts with the garbage collector off, windows at every
   alignment, decodes right after a recovered codec panic, raw time.Now() readings as operands, stop requests queued before
   Listen is called, replies carrying the serial number of another known controller, broadcast address = controller address,
   tens of thousands of calls so that every ephemeral port turns up, unprivileged child processes, IP / mask arguments in
   every net.IP form, names padded with every kind of white space, digits of other scripts, bulk values right after
   rejected bulk values:
   look for what such testing still would NOT reach.

Changes of earlier rounds - do NOT repeat these or close variants of them; find a different mechanism, a different
code site or a different triggering condition:
""" + "".join(f"- {t}\n" for t in prior) + f"""
For each change also write a DEMONSTRATION: a Go test file `demo_test.go` (package of the directory it is to be dropped
into, test function names starting with `TestSeed`) that FAILS with your change applied and PASSES on the unchanged
library. It must be deterministic enough to fail at least 9 times out of 10 with the change, and it must never fail on the
unchanged library (also not on a heavily loaded machine). It must not depend on anything outside the library and the Go
standard library.

## Deliverables (exact layout)

For k in {k1}, {k2} write into /tmp/seed-out/{pid}-k/ :

- `patch.diff`   : output of `git diff` in the clone with ONLY that change applied (must apply with `git apply` to a
                   clean checkout of the same commit; no test files, no demo in it)
- `demo_test.go` : the demonstration
- `meta.json`    : {{"property": "{pid}", "title": "<one line: what the change is>", "files_changed": [...],
                   "what_it_breaks": "<how the property is violated>",
                   "needs_to_manifest": "<the specific input / sequence / interleaving / configuration needed>",
                   "demo": {{"kind": "test", "dir": "<package dir relative to the repo root, e.g. uhppote or types>",
                            "run": "go test -count=1 -run '^TestSeed' ./<dir>/"}},
                   "verified": "<what you ran and what came out>"}}
                   (add "-race" inside "run" if the demonstration needs the race detector)

Procedure for each change: make the edit; build, vet and run the whole existing suite; drop the demo into the package
directory, see it FAIL; save the edit with `git diff > /tmp/seedwork/{pid}/edit.diff`, revert it with `git checkout -- .`,
see the demo PASS on the clean tree; re-apply with `git apply` if you need it again. Do not use `git stash`. Save `git diff`
of the edit alone as patch.diff; then `git checkout -- . && git clean -fdq` so the clone is clean before the next change.
Verify at the end that each patch.diff applies to the clean clone with `git apply --check`.

Finish by replying with a five-line summary per change (title, trigger, how the demo shows it). Leave the clone clean.
"""
    open(f'/tmp/seedwork/{pid}/TASK.md', 'w').write(task)
print("prepared", len(props), "tasks")
