#!/usr/bin/env python3
"""Copies an evaluated seed from <src>/<seed>/ (patch.diff, demo_test.go, meta.json, eval.json [, eval-x.json]) to
/verif/seeded/<seed>/ and merges the evaluation into meta.json. Re-runnable: the first evaluation is preserved as
first_eval, the latest one is checks_run / caught_by_quick_tier.
usage: seedkeep.py <src> <seed> [--note "<strengthening note>"] [--origin "<text>"]"""
import json, os, shutil, sys
src, seed = sys.argv[1], sys.argv[2]
note = origin = None
for i, a in enumerate(sys.argv):
    if a == "--note": note = sys.argv[i + 1]
    if a == "--origin": origin = sys.argv[i + 1]
s = os.path.join(src, seed)
d = os.path.join("/verif/seeded", seed)
os.makedirs(d, exist_ok=True)
shutil.copy(os.path.join(s, "patch.diff"), os.path.join(d, "patch.diff"))
shutil.copy(os.path.join(s, "demo_test.go"), os.path.join(d, "demo_test.go.txt"))
meta = json.load(open(os.path.join(s, "meta.json")))
old = {}
if os.path.exists(os.path.join(d, "meta.json")):
    old = json.load(open(os.path.join(d, "meta.json")))
for k in ("origin", "first_eval", "strengthened"):
    if k in old: meta[k] = old[k]
if origin: meta["origin"] = origin
checks = {}
confirmed = None
for name in ("eval.json", "eval-x.json"):
    p = os.path.join(s, name)
    if os.path.exists(p):
        e = json.load(open(p))
        if name == "eval.json" or confirmed is None:
            confirmed = e
        for c, r in (e.get("checks") or {}).items():
            checks[c] = {"exit": r["exit"], "seconds": r["seconds"], "first_lines": r["lines"][:2]}
meta["confirmed_by_me"] = {
    "how": "tools/seedeval.py in scratch worktrees under /tmp (removed afterwards): patch applies to /repo HEAD, go build + go vet + unedited go test ./... pass with the change, the demonstration fails with the change and passes on the clean tree",
    "suite_passes_with_change": confirmed.get("suite_passes_with_change"),
    "demo_fails_with_change": confirmed.get("demo_fails_with_change"),
    "demo_passes_without_change": confirmed.get("demo_passes_without_change"),
}
caught = sorted(c for c, r in checks.items() if r["exit"] == 1)
if "first_eval" not in meta:
    meta["first_eval"] = {"caught_by": caught, "checks": {c: r["exit"] for c, r in checks.items()}}
meta["checks_run"] = checks
meta["caught_by_quick_tier"] = caught
if note: meta["strengthened"] = note
json.dump(meta, open(os.path.join(d, "meta.json"), "w"), indent=1)
print(seed, "caught by", caught, "| first:", meta["first_eval"]["caught_by"])
