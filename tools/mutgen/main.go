// Command mutgen enumerates small syntactic mutants of the library's non-test sources (sensitivity sweep, DESIGN.md
// section 7.3). It prints one JSON object per line: {id, file, start, end, repl, orig, line, kind, fn}. A mutant is
// applied by replacing bytes [start,end) of file with repl; nothing is written by this tool.
//
//	go run ./tools/mutgen <repo-root> > mutants.jsonl
package main

import (
	"encoding/json"
	"fmt"
	"go/ast"
	"go/parser"
	"go/token"
	"os"
	"path/filepath"
	"regexp"
	"sort"
	"strconv"
	"strings"
)

type mutant struct {
	ID    string `json:"id"`
	File  string `json:"file"`
	Start int    `json:"start"`
	End   int    `json:"end"`
	Repl  string `json:"repl"`
	Orig  string `json:"orig"`
	Line  int    `json:"line"`
	Kind  string `json:"kind"`
	Fn    string `json:"fn"`
}

var binops = map[token.Token][]string{
	token.LSS: {"<=", ">"}, token.LEQ: {"<"}, token.GTR: {">=", "<"}, token.GEQ: {">"},
	token.EQL: {"!="}, token.NEQ: {"=="}, token.LAND: {"||"}, token.LOR: {"&&"},
	token.ADD: {"-"}, token.SUB: {"+"}, token.MUL: {"/"}, token.QUO: {"*"}, token.REM: {"/"},
	token.SHL: {">>"}, token.SHR: {"<<"}, token.AND: {"|"}, token.OR: {"&"},
}

var tagNum = regexp.MustCompile(`(offset|value):(0[xX][0-9a-fA-F]+|[0-9]+)`)

func main() {
	root := os.Args[1]
	var files []string
	filepath.Walk(root, func(p string, info os.FileInfo, err error) error {
		if err != nil {
			return nil
		}
		if info.IsDir() && (info.Name() == ".git" || info.Name() == "zz_seed_demo") {
			return filepath.SkipDir
		}
		if strings.HasSuffix(p, ".go") && !strings.HasSuffix(p, "_test.go") && !strings.HasSuffix(p, "verif_hooks.go") {
			files = append(files, p)
		}
		return nil
	})
	sort.Strings(files)
	enc := json.NewEncoder(os.Stdout)
	n := 0
	for _, f := range files {
		src, err := os.ReadFile(f)
		if err != nil {
			continue
		}
		fset := token.NewFileSet()
		af, err := parser.ParseFile(fset, f, src, parser.ParseComments)
		if err != nil {
			fmt.Fprintln(os.Stderr, "parse", f, err)
			continue
		}
		rel, _ := filepath.Rel(root, f)
		emit := func(start, end token.Pos, repl, kind, fn string) {
			s, e := fset.Position(start).Offset, fset.Position(end).Offset
			if s < 0 || e > len(src) || s > e {
				return
			}
			n++
			enc.Encode(mutant{ID: fmt.Sprintf("M%05d", n), File: rel, Start: s, End: e, Repl: repl, Orig: string(src[s:e]),
				Line: fset.Position(start).Line, Kind: kind, Fn: fn})
		}
		for _, d := range af.Decls {
			fd, ok := d.(*ast.FuncDecl)
			if !ok {
				// struct tags in type declarations
				ast.Inspect(d, func(nd ast.Node) bool {
					if fld, ok := nd.(*ast.Field); ok && fld.Tag != nil {
						tagMutants(fset, src, fld.Tag, emit)
					}
					return true
				})
				continue
			}
			if fd.Body == nil {
				continue
			}
			name := fd.Name.Name
			if fd.Recv != nil && len(fd.Recv.List) > 0 {
				name = recvName(fd.Recv.List[0].Type) + "." + name
			}
			walk(fset, src, fd.Body, name, emit)
		}
	}
}

func recvName(e ast.Expr) string {
	switch t := e.(type) {
	case *ast.StarExpr:
		return recvName(t.X)
	case *ast.Ident:
		return t.Name
	}
	return "?"
}

func tagMutants(fset *token.FileSet, src []byte, tag *ast.BasicLit, emit func(token.Pos, token.Pos, string, string, string)) {
	text := tag.Value
	for _, m := range tagNum.FindAllStringSubmatchIndex(text, -1) {
		num := text[m[4]:m[5]]
		v, err := strconv.ParseInt(num, 0, 64)
		if err != nil {
			continue
		}
		for _, d := range []int64{1, -1} {
			if v+d < 0 {
				continue
			}
			var r string
			if strings.HasPrefix(num, "0x") || strings.HasPrefix(num, "0X") {
				r = fmt.Sprintf("0x%02x", v+d)
			} else {
				r = fmt.Sprintf("%d", v+d)
			}
			emit(tag.Pos()+token.Pos(m[4]), tag.Pos()+token.Pos(m[5]), r, "tag-"+text[m[2]:m[3]], "")
		}
	}
}

// isErrCtor reports whether the call builds an error / log text (mutants inside are not interesting).
func isErrCtor(c *ast.CallExpr) bool {
	if sel, ok := c.Fun.(*ast.SelectorExpr); ok {
		if x, ok := sel.X.(*ast.Ident); ok {
			switch x.Name + "." + sel.Sel.Name {
			case "fmt.Errorf", "errors.New", "fmt.Sprintf", "fmt.Printf", "fmt.Println", "log.Printf", "fmt.Fprintf", "fmt.Sprint":
				return true
			}
		}
		switch sel.Sel.Name {
		case "debugf", "Debugf", "Infof", "Warnf", "Errorf":
			return true
		}
	}
	if id, ok := c.Fun.(*ast.Ident); ok && id.Name == "panic" {
		return true
	}
	return false
}

func walk(fset *token.FileSet, src []byte, body ast.Node, fn string, emit func(token.Pos, token.Pos, string, string, string)) {
	var visit func(n ast.Node) bool
	visit = func(n ast.Node) bool {
		switch x := n.(type) {
		case *ast.CallExpr:
			if isErrCtor(x) {
				return false
			}
		case *ast.BinaryExpr:
			for _, r := range binops[x.Op] {
				emit(x.OpPos, x.OpPos+token.Pos(len(x.Op.String())), r, "binop", fn)
			}
		case *ast.BasicLit:
			if x.Kind == token.INT {
				if v, err := strconv.ParseInt(x.Value, 0, 64); err == nil {
					emit(x.Pos(), x.End(), fmt.Sprintf("%d", v+1), "int+1", fn)
					if v > 0 {
						emit(x.Pos(), x.End(), fmt.Sprintf("%d", v-1), "int-1", fn)
					}
				}
			}
		case *ast.Ident:
			if x.Name == "true" {
				emit(x.Pos(), x.End(), "false", "bool", fn)
			} else if x.Name == "false" {
				emit(x.Pos(), x.End(), "true", "bool", fn)
			}
		case *ast.UnaryExpr:
			if x.Op == token.NOT {
				emit(x.OpPos, x.OpPos+1, "", "drop-not", fn)
			}
		case *ast.IfStmt:
			if x.Cond != nil {
				emit(x.Cond.Pos(), x.Cond.End(), "!("+string(src[fset.Position(x.Cond.Pos()).Offset:fset.Position(x.Cond.End()).Offset])+")", "negate-if", fn)
			}
			if x.Else == nil && x.Init == nil {
				emit(x.Pos(), x.End(), "", "delete-if", fn)
			}
		case *ast.ForStmt:
			if x.Cond != nil {
				// handled through the binary expression inside
			}
		case *ast.BlockStmt:
			for _, s := range x.List {
				stmtMutants(s, fn, emit)
			}
		case *ast.CaseClause:
			for _, s := range x.Body {
				stmtMutants(s, fn, emit)
			}
		case *ast.CommClause:
			for _, s := range x.Body {
				stmtMutants(s, fn, emit)
			}
		}
		return true
	}
	ast.Inspect(body, visit)
}

func stmtMutants(s ast.Stmt, fn string, emit func(token.Pos, token.Pos, string, string, string)) {
	switch x := s.(type) {
	case *ast.ExprStmt:
		if c, ok := x.X.(*ast.CallExpr); ok && isErrCtor(c) {
			return
		}
		emit(x.Pos(), x.End(), "", "delete-call", fn)
	case *ast.AssignStmt:
		if x.Tok != token.DEFINE {
			emit(x.Pos(), x.End(), "", "delete-assign", fn)
		}
	case *ast.IncDecStmt:
		emit(x.Pos(), x.End(), "", "delete-incdec", fn)
	case *ast.DeferStmt:
		emit(x.Pos(), x.End(), "", "delete-defer", fn)
	case *ast.GoStmt:
		emit(x.Pos(), x.Pos()+2, "", "go-to-sync", fn)
	case *ast.BranchStmt:
		if x.Label == nil {
			emit(x.Pos(), x.End(), "", "delete-"+x.Tok.String(), fn)
			if x.Tok == token.CONTINUE {
				emit(x.Pos(), x.End(), "break", "continue-to-break", fn)
			} else if x.Tok == token.BREAK {
				emit(x.Pos(), x.End(), "continue", "break-to-continue", fn)
			}
		}
	case *ast.ReturnStmt:
		if len(x.Results) == 0 {
			emit(x.Pos(), x.End(), "", "delete-return", fn)
		}
	case *ast.SendStmt:
		emit(x.Pos(), x.End(), "", "delete-send", fn)
	}
}
