#!/usr/bin/env python3
"""Prints the markdown table of seeded changes (from seeded/*/meta.json) for DESIGN.md section 7."""
import json, glob, os
rows = []
for d in sorted(glob.glob(os.path.join(os.path.dirname(__file__), "..", "seeded", "*"))):
    m = json.load(open(os.path.join(d, "meta.json")))
    name = os.path.basename(d)
    caught = m.get("caught_by_quick_tier") or []
    first = ""
    for c, r in (m.get("checks_run") or {}).items():
        if r.get("first_lines"):
            l = [x for x in r["first_lines"] if x.strip().startswith("[")]
            if l:
                first = l[0].strip().split("]")[0] + "]"
    note = m.get("strengthened", "")
    rows.append(f"| {name} | {m.get('title','')[:110]} | {m.get('needs_to_manifest','')[:120]} | {', '.join(caught) or '**missed**'} {first} {note} |")
print("| seed | change | needs | caught by (quick tier), first fingerprint |")
print("|---|---|---|---|")
print("\n".join(rows))
