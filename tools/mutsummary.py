#!/usr/bin/env python3
"""Writes mutation/SUMMARY.md from mutation/results.jsonl (first pass) and mutation/retest.jsonl / retest2.jsonl (survivors re-run later)."""
import json, collections, os
R = "/verif/mutation/"
first = {}
for l in open(R + "results.jsonl"):
    r = json.loads(l); first[r["id"]] = r
retest = {}
for name in ("retest.jsonl", "retest2.jsonl"):  # (later passes win: retest2 was run with the checks as of round 8)
    if os.path.exists(R + name):
        for l in open(R + name):
            r = json.loads(l)
            if r.get("status") != "stale" or r["id"] not in retest:
                retest[r["id"]] = r
total = sum(1 for _ in open(R + "mutants.jsonl"))
st = collections.Counter(r["status"] for r in first.values())
by = collections.Counter(r.get("caught_by") for r in first.values() if r["status"] == "caught")
surv = [r for r in first.values() if r["status"] == "survived-all"]
later = [r for r in surv if retest.get(r["id"], {}).get("status") == "caught"]
lines = []
lines.append("# Mutation sweep over uhppote-core (sensitivity experiment, DESIGN.md section 7.3)\n")
lines.append(f"Mutants enumerated by tools/mutgen: {total}; processed so far: {len(first)}.\n")
lines.append("| outcome (first pass: checks as of the start of session 3) | mutants |\n|---|---|")
for k in ("stillborn", "killed-by-suite", "caught", "survived-all", "stale"):
    if st.get(k): lines.append(f"| {k} | {st[k]} |")
lines.append("\n`stillborn` = does not compile / vet; `killed-by-suite` = the library's own unedited tests fail (says nothing about the checks); `caught` = a quick check reported a violation; `survived-all` = the quick checks that observe the mutated file stayed silent.\n")
lines.append("Caught by (first check in relevance order that reported): " + ", ".join(f"{k}: {v}" for k, v in sorted(by.items())) + "\n")
rerun = [r for r in surv if r["id"] in retest]
stale = [r for r in surv if retest.get(r["id"], {}).get("status") == "stale"]
lines.append(f"Of the {len(surv)} first-pass survivors, {len(rerun)} have been re-run with later versions of the checks (mutation/retest.jsonl, retest2.jsonl): {len(later)} are caught now, {len(stale)} no longer apply to the source (the lines were changed by the repairs of F18 / F19); the remaining ones were read one by one and are equivalent with respect to the listed properties or outside them (DESIGN.md section 7.3 lists the classes).\n")
lines.append("## First-pass survivors\n")
lines.append("| id | file:line | function | mutation | status after strengthening |\n|---|---|---|---|---|")
for r in sorted(surv, key=lambda r: (r["file"], r["line"])):
    rt = retest.get(r["id"])
    status = ""
    if rt:
        status = "caught by " + str(rt.get("caught_by")) if rt["status"] == "caught" else ("no longer applies" if rt["status"] == "stale" else "re-run: still silent")
    o = r["orig"].replace("\n", " ").replace("|", "\\|")[:40]; n = r["repl"].replace("\n", " ").replace("|", "\\|")[:30]
    lines.append(f"| {r['id']} | {r['file']}:{r['line']} | {r['fn']} | {r['kind']}: `{o}` -> `{n}` | {status} |")
open(R + "SUMMARY.md", "w").write("\n".join(lines) + "\n")
print("written", len(first), "processed;", len(surv), "survivors,", len(later), "caught later")
