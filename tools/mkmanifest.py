#!/usr/bin/env python3
"""Regenerates /verif/MANIFEST.json from the table below (kept here so that the manifest stays consistent)."""
import json, os, sys

ROOT = os.path.dirname(os.path.dirname(os.path.abspath(__file__)))

# id -> (category, technique, level text, level note, design ref)
CHECKS = {
 "C12": ("exploration",
         "bounded-exhaustive enumeration + rapid property-based testing against an independent BCD model; native fuzzing in the thorough tier",
         "Every string of length <=5 over a 12-symbol alphabet and every byte slice of length <=2 (quick) / <=3 (thorough) is enumerated, plus random strings/slices up to 64 bytes; each is compared with an independent digit/nibble model and both round-trips are checked. Position-independence of the per-character switch makes the small-length enumeration representative; absence beyond the explored set is not proven.",
         "Trusted: the BCD model in checks/c12 (20 lines) and Go's string/byte semantics.",
         "DESIGN.md section 4, C12"),
}

NOT_YET = {}

def main():
    props = [json.loads(l) for l in open(os.path.join(ROOT, "properties.jsonl"))]
    checks = []
    na = []
    for p in props:
        pid = p["id"]
        if pid in CHECKS:
            cat, tech, text, note, ref = CHECKS[pid]
            checks.append({
                "property_id": pid,
                "quick_cmd": f"./verif.sh {pid} quick",
                "thorough_cmd": f"./verif.sh {pid} thorough",
                "evidence_file": f"/verif/evidence/{pid}.json",
                "replay_cmd_template": "./verif.sh replay {path}",
                "engine": "verif-go",
                "level_claimed": {"category": cat, "text": text, "design_ref": ref},
                "level_note": note,
                "technique": tech,
            })
        else:
            na.append({"property_id": pid, "reason": NOT_YET.get(pid, "check under construction in this session - not claimed until it has been built and shown silent on the unchanged tree")})
    hooks_commits = [l.strip() for l in open(os.path.join(ROOT, "MANIFEST.hooks")) if l.strip() and not l.startswith("#")]
    m = {
        "version": 1,
        "setup_cmd": "cd /verif && export GOFLAGS=-mod=mod GOPROXY=off GOSUMDB=off GOTOOLCHAIN=local && mkdir -p .build && go build -o .build/verif ./cmd/verif && go vet -tags verif ./harness/... >/dev/null 2>&1; true",
        "hooks": {
            "guard": "verif (Go build tag)",
            "enable": "go test -tags verif (the driver always builds checks with -tags verif against /repo through the replace directive in /verif/go.mod)",
            "baseline_off_cmd": "cd /repo && GOFLAGS=-mod=mod go test -vet=off -count=1 ./...",
            "source_commits": [c.split()[0] for c in hooks_commits],
            "add_only": True,
        },
        "engines": [{
            "name": "verif-go",
            "path": "/verif/cmd/verif (driver), /verif/harness (generators, protocol model, transports, evidence), /verif/checks/cNN (one Go test package per property)",
            "serves_properties": [c["property_id"] for c in checks],
            "kind_free_text": "property-based testing (pgregory.net/rapid v1.3.0), bounded-exhaustive sweeps, Go race detector, native go fuzzing (thorough tier)",
        }],
        "checks": checks,
        "not_applicable": na,
        "notes": "Exit codes of every command: 0 held, 1 violation (VIOLATION line), 2 harness trouble/inconclusive. VERIF_SEED selects the PRNG values (0 is remapped). Known findings: /verif/known_findings.json.",
    }
    json.dump(m, open(os.path.join(ROOT, "MANIFEST.json"), "w"), indent=1)
    print("checks:", len(checks), "not_applicable:", len(na))

if __name__ == "__main__":
    main()
