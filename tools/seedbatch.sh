#!/bin/bash
# evaluates every seed directory under $1 (default /tmp/seed-out) that has patch.diff+meta.json and no eval.json yet; $2 = parallelism
dir=${1:-/tmp/seed-out}; par=${2:-3}
cd /verif
ls -d $dir/C*-[0-9] 2>/dev/null | while read d; do
  [ -f $d/patch.diff ] && [ -f $d/meta.json ] && [ ! -f $d/eval.json ] && echo $d
done | xargs -r -P $par -I{} sh -c 'python3 tools/seedeval.py {} > {}/eval.json 2>{}/eval.err; python3 -c "
import json,sys
r=json.load(open(sys.argv[1]+\"/eval.json\"))
print(r[\"seed\"], \"confirmed=\",r.get(\"confirmed\"), \"caught_by=\",r.get(\"caught_by\"), (r.get(\"why\") or \"\")[:200])
" {}'
