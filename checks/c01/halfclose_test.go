package c01

import (
	"bytes"
	"fmt"
	"time"

	"verif/harness/api"
	"verif/harness/ev"
	"verif/harness/farm"
	"verif/harness/hook"
	"verif/harness/rp"
	"verif/harness/spec"
)

// A TCP controller that answers, shuts down its sending side (FIN) and goes on reading - as some embedded stacks do - asked
// several times in a row by one client: every call puts exactly its own 64 bytes on the wire, once, on whatever connection.
type halfCloseCase struct {
	Ops   []string `json:"ops"`
	Fixed bool     `json:"fixed_bind_port,omitempty"`
	GapMs int      `json:"gap_ms"`
}

func checkHalfClose(c halfCloseCase) *rp.Fail {
	ev.Case("wire/tcp/peer-half-closes-after-its-reply", true, fmt.Sprint(c))
	f := farm.New()
	defer f.Close()
	serial := uint32(405419896)
	e, err := f.TCP([4]byte{127, 0, 4, 9}, 0, farm.ScriptTCP(func(r farm.Received) []farm.Action {
		if len(r.Data) < 64 {
			return nil
		}
		b := make([]byte, 64)
		spec.Header(b, 0x17, r.Data[1], spec.LE32(r.Data[4:]))
		b[8] = 1
		return []farm.Action{{Data: b, HalfClose: true}}
	}))
	if err != nil {
		return nil
	}
	cfg := hook.ClientCfg{TimeoutMs: 2000, BindIP: [4]byte{127, 0, 0, 1}, Devices: []hook.DeviceCfg{{Serial: serial, HasAddr: true, IP: [4]byte{127, 0, 4, 9}, Port: e.Addr.Port(), Protocol: "tcp"}}}
	if c.Fixed {
		if p, err := farm.FreePort(cfg.BindIP); err == nil {
			cfg.BindPort = p
		}
	}
	u := hook.Real(cfg)
	var want [][]byte
	for i, op := range c.Ops {
		call := spec.Call{Op: op, Serial: serial, Door: uint8(1 + i%4), Card: uint32(8165538 + i), Index: uint32(i + 1)}
		want = append(want, spec.Request(call))
		res := api.Invoke(u, api.Case{Call: call})
		if res.Panic != nil {
			return rp.Failf("wire/tcp/panic", "%s panicked: %v", op, res.Panic)
		}
		time.Sleep(time.Duration(c.GapMs) * time.Millisecond)
	}
	time.Sleep(300 * time.Millisecond)
	var got []byte
	for _, r := range e.Log() {
		got = append(got, r.Data...)
	}
	if len(got) != 64*len(want) {
		return rp.Failf("wire/tcp/send-count/peer-half-closes", "%d calls in a row to a TCP controller that answers, closes its sending side and goes on reading: %d bytes (%d requests) arrived on %d connections, every call sends its own request once", len(want), len(got), len(got)/64, len(e.Log()))
	}
	// (connections are logged in the order they were accepted = the order of the calls; requests on one connection in the order sent)
	for i, w := range want {
		if !bytes.Contains(got, w) {
			return rp.Failf("wire/tcp/request-bytes/peer-half-closes", "the request of call %d (%x) is not among the bytes that arrived: %x", i+1, w, got)
		}
	}
	return nil
}

func sweepHalfClose(yield func(halfCloseCase) bool) {
	cases := []halfCloseCase{{Ops: []string{"OpenDoor", "OpenDoor"}, GapMs: 50}, {Ops: []string{"GetTime", "OpenDoor", "GetCardByID"}, GapMs: 0}, {Ops: []string{"OpenDoor", "GetEvent"}, Fixed: true, GapMs: 200}, {Ops: []string{"GetStatus", "GetStatus", "GetStatus", "GetStatus"}, GapMs: 10}}
	for i, c := range cases {
		if ev.Mine(i) && !yield(c) {
			return
		}
	}
}
