package c01

import (
	"bytes"
	"fmt"
	"testing"
	"time"

	"verif/harness/api"
	"verif/harness/ev"
	"verif/harness/gen"
	"verif/harness/hook"
	"verif/harness/rp"
	"verif/harness/spec"
)

// Elapsed time is part of the history too. A client that has put controllers into various modes (PC control, special
// events, interlock, keypads, listener, time) and has then been IDLE for longer than any time constant that occurs in the
// library's source (keep-alive / refresh / expiry periods would be such constants; capped at 40 s in the quick tier and 11
// minutes in the thorough tier, at least 2.5 s) must still put exactly the protocol encoding of the next call on the wire,
// once. The idle period runs alongside the other tests of this package.
type idleRun struct {
	done chan *rp.Fail
	idle time.Duration
}

func idleFor() time.Duration {
	limit := 40 * time.Second
	if ev.Thorough() {
		limit = 11 * time.Minute
	}
	d := 1 * time.Second
	for _, x := range gen.DictDurations() {
		if x > d && x <= limit {
			d = x
		}
	}
	return d + 1500*time.Millisecond
}

func startIdle() *idleRun {
	r := &idleRun{done: make(chan *rp.Fail, 1), idle: idleFor()}
	go func() {
		serials := []uint32{405419896, 303986753}
		cfg := hook.ClientCfg{Devices: []hook.DeviceCfg{{Name: "A", Serial: serials[0], HasAddr: true, IP: [4]byte{10, 0, 0, 7}, Port: 60000, Protocol: "udp"}}}
		u, d := hook.Mem(cfg)
		ok := func(op string, serial uint32) []byte {
			l := spec.Responses[op]
			b := make([]byte, 64)
			spec.Header(b, 0x17, l.Code, serial)
			b[8] = 1
			return b
		}
		one := func(cs api.Case, when string) *rp.Fail {
			d.Reset(ok(cs.Call.Op, cs.Call.Serial))
			res := api.Invoke(u, cs)
			if res.Panic != nil {
				return rp.Failf("uhppote."+cs.Call.Op+"/panic", "%s: %s panicked: %v", when, cs.Call.Op, res.Panic)
			}
			sends := d.Sends()
			want := spec.Request(cs.Call)
			if len(sends) != 1 {
				var first []byte
				if len(sends) > 0 {
					first = sends[0].Request
				}
				return rp.Failf("uhppote."+cs.Call.Op+"/send-count/after-idle", "%s: %s made %d transport calls, want exactly 1 (first: %x)", when, cs.Call.Op, len(sends), first)
			}
			if !bytes.Equal(sends[0].Request, want) {
				return rp.Failf("uhppote."+cs.Call.Op+"/request-bytes/after-idle", "%s: %s sent %x, protocol encoding is %x", when, cs.Call.Op, sends[0].Request, want)
			}
			return nil
		}
		var warm []api.Case
		for _, s := range serials {
			warm = append(warm,
				api.Case{Call: spec.Call{Op: "SetPCControl", Serial: s, Enable: true}},
				api.Case{Call: spec.Call{Op: "RecordSpecialEvents", Serial: s, Enable: true}},
				api.Case{Call: spec.Call{Op: "SetInterlock", Serial: s, Interlock: 1}},
				api.Case{Call: spec.Call{Op: "ActivateKeypads", Serial: s, Readers: [4]bool{true, false, true, false}}, V: api.Variant{ReadPresent: [4]bool{true, true, true, true}}},
				api.Case{Call: spec.Call{Op: "SetListener", Serial: s, Listener: [4]byte{192, 168, 1, 100}, Port: 60001, Interval: 15}},
				api.Case{Call: spec.Call{Op: "SetDoorControlState", Serial: s, Door: 1, State: 3, Delay: 5}},
				api.Case{Call: spec.Call{Op: "GetStatus", Serial: s}},
				api.Case{Call: spec.Call{Op: "SetEventIndex", Serial: s, Index: 17}},
			)
		}
		for _, cs := range warm {
			if f := one(cs, "before the idle period"); f != nil {
				r.done <- f
				return
			}
		}
		d.Reset()
		time.Sleep(r.idle)
		after := fmt.Sprintf("after %v without any call", r.idle)
		// nothing leaves the client without a call
		if sends := d.Sends(); len(sends) != 0 {
			r.done <- rp.Failf("uhppote/request-without-a-call", "%d request(s) reached the transport during %v in which no call was made (first: %s %x)", len(sends), r.idle, sends[0].Method, sends[0].Request)
			return
		}
		for _, s := range serials {
			for _, cs := range []api.Case{{Call: spec.Call{Op: "GetCards", Serial: s}}, {Call: spec.Call{Op: "OpenDoor", Serial: s, Door: 2}}, {Call: spec.Call{Op: "GetStatus", Serial: s}},
				{Call: spec.Call{Op: "SetPCControl", Serial: s, Enable: true}}, {Call: spec.Call{Op: "GetTime", Serial: s}}} {
				if f := one(cs, after); f != nil {
					r.done <- f
					return
				}
			}
		}
		r.done <- nil
	}()
	return r
}

func finishIdle(t *testing.T, r *idleRun) {
	f := <-r.done
	ev.Case("history/after-an-idle-period", true, fmt.Sprint(r.idle))
	ev.Note("idle_period_seconds", r.idle.Seconds())
	if f != nil && ev.Failure("idle", f.Fingerprint, f.Msg, map[string]any{"idle": r.idle.String()}) {
		t.Errorf("[%s] %s", f.Fingerprint, f.Msg)
	}
}
