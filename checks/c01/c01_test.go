// C01 - every request on the wire is exactly the protocol encoding of the call.
package c01

import (
	"bytes"
	"fmt"
	"os"
	"sync"
	"testing"
	"time"

	"github.com/uhppoted/uhppote-core/types"
	"github.com/uhppoted/uhppote-core/uhppote"
	"pgregory.net/rapid"

	"verif/harness/api"
	"verif/harness/ev"
	"verif/harness/gen"
	"verif/harness/hook"
	"verif/harness/memdrv"
	"verif/harness/rp"
	"verif/harness/spec"
	"verif/harness/zones"
)

func TestMain(m *testing.M) {
	time.Local = time.UTC
	ev.Describe("histories of 1..40 API calls (all 32 operations, arguments drawn by construction from the accepted domain incl. nil/partial/foreign-key maps, 4- and 16-byte IPs, dates as ToDate and as Date(time.Date(.., other zone)), SetTime in UTC/fixed/IANA zones with sub-seconds) on two clients that share the process (debug output on or off, configured controllers with every kind of configured time zone); after every call the recording in-memory driver must have seen exactly one invocation whose 64 bytes equal the independent protocol model's encoding of that call alone. Socket-layer sample (wire): the real UDP/TCP driver on each delivery path (broadcast, connected UDP, TCP), bind port 0 or fixed, debug off/on - the loopback controller must receive exactly one message, byte-for-byte the protocol encoding. Non-trivial = request with a non-zero byte at offset >= 8 or an operation without payload; distinct = distinct (operation, request bytes).",
		"hook layer: the transport is replaced through the `verif` build-tag hook, so the real sockets are covered by the socket-layer sample (TestWire) and by C06",
		"the protocol model (harness/spec) is a transcription cross-checked against SDK vectors in harness/spec tests")
	ev.Main(m, "C01")
}

type step struct {
	Client int `json:"client"`
	// Event, when set, is not a call: the datagram is delivered to the client's event listener (histories with Listen) -
	// what the listener hears must not influence any later request
	Event []byte   `json:"event,omitempty"`
	Case  api.Case `json:"case"`
	Reply int      `json:"reply"` // 0 valid all-zero reply, 1 no reply (timeout), 2 valid reply with 0xff noise payload, 3 mirror (below), 4 Raw
	// Raw (Reply == 4): the reply is drawn from every class the protocol knows for this operation - in-domain values, the
	// sentinels ('no such card', 'event overwritten' 0xff, 'no event', failure status) and out-of-domain fields. Whatever the
	// controller says, the call has put exactly its own request on the wire, once; whether it succeeds is C02's subject.
	Raw []byte `json:"raw_reply,omitempty"`
}

// read-modify-write: the application reads a record and writes the same record back. Reply kind 3 makes the reply to a 'get'
// carry exactly the values that the NEXT step (the matching 'set' on the same client and controller) is going to send: the
// set request must still go out, once, whatever the client has learnt from earlier replies.
var mirrorOf = map[string]string{"PutCard": "GetCardByID", "SetTimeProfile": "GetTimeProfile", "SetListener": "GetListener", "SetDoorControlState": "GetDoorControlState",
	"SetTime": "GetTime", "SetEventIndex": "GetEventIndex"}

func mirrorReply(get api.Case, set api.Case) [][]byte {
	l, ok := spec.Responses[get.Call.Op]
	if !ok {
		return nil
	}
	b := append([]byte(nil), spec.Request(set.Call)...)
	b[1] = l.Code
	switch set.Call.Op {
	case "SetEventIndex":
		for i := 12; i < 16; i++ {
			b[i] = 0 // the magic word is not part of the reply
		}
	}
	return [][]byte{b}
}

type history struct {
	Cfg   [2]hook.ClientCfg `json:"cfg"`
	Steps []step            `json:"steps"`
	Zone  string            `json:"zone,omitempty"` // process-local zone while the history runs ("" = UTC)
	// Listen: both clients run their event listener for the whole history
	Listen bool `json:"listen,omitempty"`
}

type nullListener struct{}

func (nullListener) OnConnected()           {}
func (nullListener) OnEvent(*types.Status)  {}
func (nullListener) OnError(err error) bool { return true }

func genCfg(t *rapid.T, serials []uint32) hook.ClientCfg {
	c := hook.ClientCfg{HasBroadcast: rapid.Bool().Draw(t, "has_broadcast"), BroadcastIP: [4]byte{192, 168, 1, 255}, BroadcastPort: 60005, Debug: gen.Debug(t, "debug")}
	if rapid.Bool().Draw(t, "bind") {
		c.BindIP, c.BindPort = rapid.SampledFrom([][4]byte{{192, 168, 1, 5}, {0, 0, 0, 0}}).Draw(t, "bind.ip"), uint16(rapid.SampledFrom([]int{0, 50000, 60000}).Draw(t, "bind.port"))
	}
	if rapid.Bool().Draw(t, "listen.addr") {
		c.HasListen, c.ListenIP, c.ListenPort = true, rapid.SampledFrom([][4]byte{{192, 168, 1, 5}, {0, 0, 0, 0}, {192, 168, 1, 100}}).Draw(t, "listen.ip"), uint16(rapid.SampledFrom([]int{60001, 60000, 60005}).Draw(t, "listen.port"))
	}
	for _, s := range serials {
		switch rapid.IntRange(0, 3).Draw(t, "device.kind") {
		case 0: // not configured
		case 1:
			c.Devices = append(c.Devices, hook.DeviceCfg{Serial: s, HasAddr: true, IP: [4]byte{10, 0, 0, 7}, Port: 60000, ViaNew: rapid.Bool().Draw(t, "via.new"), TZ: gen.DeviceTZ(t, "tz"), Doors: gen.Doors(t, "doors"),
				Protocol: rapid.SampledFrom([]string{"udp", "udp", "", "any", "UDP", "TCP", "auto"}).Draw(t, "protocol")})
		case 2:
			c.Devices = append(c.Devices, hook.DeviceCfg{Serial: s, HasAddr: true, IP: [4]byte{10, 0, 0, 8}, Port: 54321, Protocol: "tcp", ViaNew: rapid.Bool().Draw(t, "via.new"), TZ: gen.DeviceTZ(t, "tz")})
		default:
			c.Devices = append(c.Devices, hook.DeviceCfg{Serial: s, Protocol: "udp", TZ: gen.DeviceTZ(t, "tz")})
		}
	}
	return c
}

func genHistory(t *rapid.T) history {
	n := rapid.IntRange(1, 40).Draw(t, "steps")
	h := history{Listen: rapid.IntRange(0, 3).Draw(t, "listen") == 0}
	var serials []uint32
	for i := 0; i < n; i++ {
		op := gen.Op(t, true)
		cs := gen.Call(t, op)
		// reuse an earlier serial now and then so that several calls address the same controller
		if len(serials) > 0 && op != "GetDevices" && rapid.IntRange(0, 2).Draw(t, "reuse") == 0 {
			cs.Call.Serial = serials[rapid.IntRange(0, len(serials)-1).Draw(t, "reuse.ix")]
		}
		if op != "GetDevices" {
			serials = append(serials, cs.Call.Serial)
		}
		client := rapid.IntRange(0, 1).Draw(t, "client")
		if h.Listen && len(serials) > 0 && rapid.IntRange(0, 3).Draw(t, "event") == 0 {
			// an event from one of the controllers in play (or a stranger), old or v6.62 firmware, now and then malformed
			serial := serials[rapid.IntRange(0, len(serials)-1).Draw(t, "event.serial")]
			if rapid.IntRange(0, 5).Draw(t, "event.stranger") == 0 {
				serial = gen.Serial(t)
			}
			e := gen.Payload(t, spec.EventLayout, rapid.SampledFrom([]byte{0x17, 0x19, 0x19}).Draw(t, "event.som"), serial, rapid.IntRange(0, 6).Draw(t, "event.bad")/6, false)
			h.Steps = append(h.Steps, step{Client: client, Event: e})
		}
		if getOp, ok := mirrorOf[op]; ok && rapid.IntRange(0, 2).Draw(t, "read.first") == 0 {
			get := gen.Call(t, getOp)
			get.Call.Serial, get.Call.Card, get.Call.Profile, get.Call.Door = cs.Call.Serial, cs.Call.Card, cs.Call.Profile, cs.Call.Door
			h.Steps = append(h.Steps, step{Client: client, Case: get, Reply: 3})
			if rapid.Bool().Draw(t, "read.twice") {
				h.Steps = append(h.Steps, step{Client: client, Case: get, Reply: 3})
			}
		}
		st := step{Client: client, Case: cs, Reply: rapid.IntRange(0, 2).Draw(t, "reply")}
		if _, has := spec.Responses[op]; has && op != "GetDevices" && rapid.IntRange(0, 2).Draw(t, "reply.any") == 0 {
			st.Reply, st.Raw = 4, gen.Reply(t, cs.Call)
		}
		if l, has := spec.Responses[op]; has && op != "GetDevices" && len(serials) >= 2 && rapid.IntRange(0, 7).Draw(t, "reply.from.another") == 0 {
			// the answer comes from ANOTHER controller the client knows (swapped addresses, a NAT that forwards to the wrong board):
			// a well-formed reply with the serial number of a controller that was, or will be, addressed in this history
			if other := serials[rapid.IntRange(0, len(serials)-1).Draw(t, "reply.other")]; other != cs.Call.Serial {
				b := make([]byte, 64)
				spec.Header(b, 0x17, l.Code, other)
				st.Reply, st.Raw = 4, b
			}
		}
		h.Steps = append(h.Steps, st)
	}
	uniq := map[uint32]bool{}
	var us []uint32
	for _, s := range serials {
		if !uniq[s] {
			uniq[s] = true
			us = append(us, s)
		}
	}
	h.Cfg[0] = genCfg(t, us)
	h.Cfg[1] = genCfg(t, us)
	// address arguments assembled from PARTS of the client's own configuration (its listen, bind, broadcast and controller
	// addresses and port numbers, the unspecified address): the request carries the arguments, whatever they coincide with
	for i := range h.Steps {
		st := &h.Steps[i]
		if st.Event != nil || (st.Case.Call.Op != "SetListener" && st.Case.Call.Op != "SetAddress") || rapid.IntRange(0, 1).Draw(t, "from.config") != 0 {
			continue
		}
		cfg := h.Cfg[st.Client%2]
		ips := [][4]byte{{0, 0, 0, 0}, cfg.ListenIP, cfg.BindIP, cfg.BroadcastIP, {255, 255, 255, 255}, {127, 0, 0, 1}}
		ports := []uint16{cfg.ListenPort, cfg.BindPort, cfg.BroadcastPort, 60000, 60001, 60002}
		for _, d := range cfg.Devices {
			if d.HasAddr {
				ips, ports = append(ips, d.IP), append(ports, d.Port)
			}
		}
		ip := ips[rapid.IntRange(0, len(ips)-1).Draw(t, "config.ip")]
		port := ports[rapid.IntRange(0, len(ports)-1).Draw(t, "config.port")]
		if st.Case.Call.Op == "SetListener" {
			if port == 0 && ip != [4]byte{} {
				port = 60001 // (an IPv4 address with port 0 is rejected: C07's subject)
			}
			st.Case.Call.Listener, st.Case.Call.Port = ip, port
		} else {
			st.Case.Call.Address = ip
			if rapid.Bool().Draw(t, "config.gateway") {
				st.Case.Call.Gateway = ips[rapid.IntRange(0, len(ips)-1).Draw(t, "config.gw")]
			}
		}
	}
	if rapid.IntRange(0, 2).Draw(t, "zone.kind") == 0 {
		h.Zone = rapid.SampledFrom(zones.Spread(24)).Draw(t, "zone")
	}
	return h
}

func argClasses(cs api.Case) []string {
	c, v := cs.Call, cs.V
	var cl []string
	if c.Serial>>24 != 0 {
		cl = append(cl, "arg/serial-top-byte")
	}
	if v.DoorsNil || v.WeekdaysNil || v.ReadersNil {
		cl = append(cl, "arg/nil-map")
	}
	if v.IP16[0] || v.IP16[1] || v.IP16[2] {
		cl = append(cl, "arg/16-byte-ip")
	}
	if c.From.M >= 10 || c.To.M >= 10 || c.DateTime.M >= 10 {
		cl = append(cl, "arg/month>=10")
	}
	if v.DateLoc[0] != "" || v.DateLoc[1] != "" {
		cl = append(cl, "arg/date-in-other-location")
	}
	if v.TimeLoc != "" && v.TimeLoc != "UTC" {
		cl = append(cl, "arg/settime-non-utc")
	}
	if c.PIN >= 65536 {
		cl = append(cl, "arg/pin>=65536")
	}
	for _, s := range c.Segments {
		if s.H == 24 {
			cl = append(cl, "arg/24:00")
			break
		}
	}
	if len(v.RawPasscodes) > 4 {
		cl = append(cl, "arg/passcodes>4")
	}
	return cl
}

func reply(cs api.Case, kind int) [][]byte {
	l, ok := spec.Responses[cs.Call.Op]
	if !ok || kind == 1 {
		return nil
	}
	b := make([]byte, 64)
	spec.Header(b, 0x17, l.Code, cs.Call.Serial)
	if kind == 2 {
		for _, off := range l.Unused() {
			b[off] = 0xff
		}
	}
	return [][]byte{b}
}

func checkHistory(h history) (f *rp.Fail) {
	if h.Zone != "" && h.Zone != "UTC" {
		ev.Class("history/non-utc-process-zone", 1)
	}
	zones.With(zones.Loc(h.Zone), func() { f = checkHistoryZ(h) })
	return f
}

func checkHistoryZ(h history) *rp.Fail {
	ca, cb := h.Cfg[0], h.Cfg[1]
	if h.Listen && !ca.HasListen {
		ca.HasListen, ca.ListenIP, ca.ListenPort = true, [4]byte{127, 0, 0, 1}, 60001
	}
	if h.Listen && !cb.HasListen {
		cb.HasListen, cb.ListenIP, cb.ListenPort = true, [4]byte{127, 0, 0, 1}, 60002
	}
	ua, da := hook.Mem(ca)
	ub, db := hook.Mem(cb)
	if h.Listen {
		for _, x := range []struct {
			u uhppote.IUHPPOTE
			d *memdrv.Driver
		}{{ua, da}, {ub, db}} {
			q := make(chan os.Signal)
			done := make(chan struct{})
			go func() {
				defer close(done)
				defer func() { recover() }()
				x.u.Listen(nullListener{}, q)
			}()
			defer func() { close(q); <-done }()
			ready := false
			for k := 0; k < 20000 && !ready; k++ {
				func() {
					defer func() {
						if recover() != nil {
							time.Sleep(20 * time.Microsecond)
						}
					}()
					x.d.Push(nil)
					ready = true
				}()
			}
		}
		ev.Class("history/with-running-listeners", 1)
	}
	for i, s := range h.Steps {
		if s.Event != nil {
			if h.Listen {
				d := da
				if s.Client == 1 {
					d = db
				}
				func() {
					defer func() { recover() }()
					d.Push(s.Event)
				}()
				ev.Class("history/event-heard-by-the-listener", 1)
			}
			continue
		}
		u, d := ua, da
		if s.Client == 1 {
			u, d = ub, db
		}
		if !datesExist(s.Case) {
			ev.Excluded("calendar day that does not exist in the process zone", 1)
			continue
		}
		want := spec.Request(s.Case.Call)
		nt := s.Case.Call.Op != "" && (len(spec.Requests[s.Case.Call.Op].Fields) <= 1 || !bytes.Equal(want[8:], make([]byte, 56)))
		ev.Case("op/"+s.Case.Call.Op, nt, s.Case.Call.Op+string(want))
		for _, cl := range argClasses(s.Case) {
			ev.Class(cl, 1)
		}
		if i > 0 {
			ev.Class("history/call-after-earlier-calls", 1)
		}
		if ev.WantSample("op/" + s.Case.Call.Op) {
			ev.Sample("op/"+s.Case.Call.Op, map[string]any{"call": s.Case, "request": fmt.Sprintf("%x", want)})
		}
		da.Reset()
		db.Reset()
		if s.Reply == 3 {
			// find the set step this get mirrors (the next step that is not the same get again)
			var r [][]byte
			for j := i + 1; j < len(h.Steps); j++ {
				if h.Steps[j].Reply != 3 {
					if mirrorOf[h.Steps[j].Case.Call.Op] == s.Case.Call.Op {
						r = mirrorReply(s.Case, h.Steps[j].Case)
						ev.Class("history/read-then-write-back-the-same-record", 1)
					}
					break
				}
			}
			d.Reset(r...)
		} else if s.Reply == 4 && len(s.Raw) > 0 {
			d.Reset(s.Raw)
		} else {
			d.Reset(reply(s.Case, s.Reply)...)
		}
		var res api.Result
		if s.Case.Call.Op == "GetDevices" {
			func() {
				defer func() {
					if r := recover(); r != nil {
						res.Panic = r
					}
				}()
				_, res.Err = u.GetDevices()
			}()
		} else {
			res = api.Invoke(u, s.Case)
		}
		site := "uhppote." + s.Case.Call.Op
		if res.Panic != nil {
			return rp.Failf(site+"/panic", "step %d: %s panicked: %v", i, s.Case.Call.Op, res.Panic)
		}
		other := db
		if s.Client == 1 {
			other = da
		}
		if n := len(other.Sends()); n != 0 {
			return rp.Failf(site+"/sent-on-other-client", "step %d: %s on client %d caused %d transport call(s) on the other client", i, s.Case.Call.Op, s.Client, n)
		}
		sends := d.Sends()
		if len(sends) != 1 {
			return rp.Failf(site+"/send-count", "step %d: %s made %d transport calls, want exactly 1 (result: %v)", i, s.Case.Call.Op, len(sends), res)
		}
		got := sends[0].Request
		if len(got) != 64 {
			return rp.Failf(site+"/request-length", "step %d: %s sent %d bytes, want 64", i, s.Case.Call.Op, len(got))
		}
		if !bytes.Equal(got, want) {
			return rp.Failf(site+"/request-bytes", "step %d: %s sent\n  %x\nprotocol encoding of this call is\n  %x\n  (first difference at offset %d)", i, s.Case.Call.Op, got, want, firstDiff(got, want))
		}
		if s.Reply != 1 && s.Reply != 3 && s.Reply != 4 && res.Err != nil {
			return rp.Failf(site+"/accepted-call-failed", "step %d: %s failed although the controller answered with a well-formed reply: %v", i, s.Case.Call.Op, res.Err)
		}
	}
	return nil
}

// datesExist: a Date built with ToDate needs the civil day to exist in the process zone (Pacific/Apia 2011-12-30 does not).
func datesExist(cs api.Case) bool {
	for i, c := range []spec.Civil{cs.Call.From, cs.Call.To} {
		if !c.IsZero() && cs.V.DateLoc[i] == "" && !zones.DayExists(time.Local, c.Y, c.M, c.D) {
			return false
		}
	}
	return true
}

func firstDiff(a, b []byte) int {
	for i := range a {
		if i >= len(b) || a[i] != b[i] {
			return i
		}
	}
	return -1
}

// single-call sweep: every operation x every single-byte argument value, one call per client
func sweepBytes(yield func(history) bool) {
	idx := 0
	for _, op := range spec.Ops {
		for v := 0; v < 256; v++ {
			if !ev.Mine(idx) {
				idx++
				continue
			}
			idx++
			c := spec.Call{Op: op, Serial: 0x01000000 | uint32(v)<<8 | uint32(255-v)}
			if op == "GetDevices" {
				c.Serial = 0
			}
			b := uint8(v)
			va := api.Variant{DoorsPresent: [4]bool{true, true, true, true}, WeekPresent: [7]bool{true, true, true, true, true, true, true}, ReadPresent: [4]bool{true, true, true, true}}
			switch op {
			case "SetAddress":
				c.Address, c.Mask, c.Gateway = [4]byte{b, 1, 2, 3}, [4]byte{255, b, 0, 0}, [4]byte{9, 8, b, b}
			case "SetListener":
				c.Listener, c.Port, c.Interval = [4]byte{b, b ^ 0xff, 3, b}, uint16(v)<<8|uint16(v^0x5a)|1, b
			case "SetTime":
				c.DateTime = spec.CivilDT{Y: 1 + (v*39)%9999, M: 1 + v%12, D: 1 + v%28, H: v % 24, Mi: v % 60, S: (v * 7) % 60}
			case "GetDoorControlState", "OpenDoor":
				c.Door = b
			case "SetDoorControlState":
				c.Door, c.State, c.Delay = b, b^0x0f, b^0xf0
			case "GetCardByIndex", "GetEvent", "SetEventIndex":
				c.Index = uint32(v)<<24 | uint32(v^0xff)<<8 | 1
			case "GetCardByID", "DeleteCard":
				c.Card = uint32(v)<<16 | uint32(v)
			case "PutCard":
				c.Card = uint32(v)<<24 | 0x010203
				c.From, c.To = spec.Civil{Y: 2000 + v%100, M: 1 + v%12, D: 1 + v%28}, spec.Civil{Y: 1 + (v*37)%9999, M: 12 - v%12, D: 28 - v%28}
				c.Doors = [4]uint8{b, b + 1, b + 2, b + 3}
				c.PIN = uint32(v) * 3921 % 1000000
			case "GetTimeProfile":
				c.Profile = b
			case "SetTimeProfile":
				c.Profile, c.Linked = b, b^0xff
				c.From, c.To = spec.Civil{Y: 2000 + v%100, M: 1 + v%12, D: 1 + v%28}, spec.Civil{Y: 2100, M: 12, D: 31}
				for i := 0; i < 7; i++ {
					c.Weekdays[i] = v&(1<<i) != 0
				}
				c.Segments = [6]spec.HM{{v % 24, v % 60}, {v%24 + 0, 59}, {0, 0}, {24, 0}, {v % 12, 0}, {12 + v%12, v % 60}}
			case "AddTask":
				c.From, c.To = spec.Civil{Y: 2000 + v%100, M: 1 + v%12, D: 1 + v%28}, spec.Civil{Y: 2100, M: 12, D: 31}
				for i := 0; i < 7; i++ {
					c.Weekdays[i] = v&(1<<i) != 0
				}
				c.Start = spec.HM{H: v % 24, M: (v * 3) % 60}
				c.Door, c.Task, c.Cards = b, b^0x33, b^0xcc
			case "RecordSpecialEvents", "SetPCControl":
				c.Enable = v%2 == 1
			case "SetDoorPasscodes":
				c.Door = uint8(1 + v%4)
				va.RawPasscodes = []uint32{uint32(v), 999999 - uint32(v), uint32(v) * 3000, 1000000 + uint32(v)}
				c.Passcodes = [4]uint32{uint32(v), 999999 - uint32(v), uint32(v) * 3000, 0}
			case "SetInterlock":
				c.Interlock = b
			case "ActivateKeypads":
				for i := 0; i < 4; i++ {
					c.Readers[i] = v&(1<<i) != 0
				}
			}
			if !yield(history{Steps: []step{{Client: v % 2, Case: api.Case{Call: c, V: va}, Reply: 0}}}) {
				return
			}
		}
	}
}

func props() []rp.Prop {
	return []rp.Prop{
		rp.P[history]{Name: "history", Checks: ev.Pick(12000, 2000000) / ev.Shards(), Gen: genHistory, Sweep: sweepBytes, Check: checkHistory},
		rp.P[wireCase]{Name: "wire", Checks: ev.Pick(1200, 60000) / ev.Shards(), Gen: genWire, Check: checkWire},
		rp.P[sameCase]{Name: "wire-concurrent", Checks: ev.Pick(60, 4000) / ev.Shards(), Gen: genSame, Check: checkSame},
		rp.P[slowWire]{Name: "wire-slow", Sweep: sweepSlowWire, Check: checkSlowWire},
		rp.P[halfCloseCase]{Name: "wire-tcp-peer-half-closes", Sweep: sweepHalfClose, Check: checkHalfClose},
	}
}

// TestAAAColdStart runs FIRST in the process: many goroutines issue every operation at once on fresh clients, before
// anything in the library has been used (lazily initialised package state, first-use caches). Each request must
// still be the encoding of its own call.
func TestAAAColdStart(t *testing.T) {
	if ev.Replaying() {
		t.Skip()
	}
	ev.Rapid("coldstart", 1)
	var cases []api.Case
	rapid.Check(t, func(rt *rapid.T) {
		cases = nil
		for _, op := range spec.Ops {
			if op != "GetDevices" {
				cases = append(cases, gen.Call(rt, op))
			}
		}
	})
	const workers = 16
	type outcome struct {
		w, i int
		got  []byte
		n    int
	}
	results := make(chan outcome, workers*len(cases))
	// one operation at a time, all goroutines released together: the FIRST use of every request type in this process is
	// concurrent
	for i := range cases {
		start := make(chan struct{})
		var ready, wg sync.WaitGroup
		for w := 0; w < workers; w++ {
			ready.Add(1)
			wg.Add(1)
			go func(w int) {
				defer wg.Done()
				u, d := hook.Mem(hook.ClientCfg{})
				ready.Done()
				<-start
				api.Invoke(u, cases[i])
				o := outcome{w: w, i: i, n: len(d.Sends())}
				if o.n == 1 {
					o.got = d.Sends()[0].Request
				}
				results <- o
			}(w)
		}
		ready.Wait()
		close(start)
		wg.Wait()
	}
	close(results)
	for o := range results {
		want := spec.Request(cases[o.i].Call)
		ev.Case("coldstart/"+cases[o.i].Call.Op, true, fmt.Sprint(o.w, o.i))
		if o.n != 1 || !bytes.Equal(o.got, want) {
			msg := fmt.Sprintf("cold start, %d goroutines: %s sent %d request(s) %x, protocol encoding is %x", workers, cases[o.i].Call.Op, o.n, o.got, want)
			if ev.Failure("coldstart", "uhppote."+cases[o.i].Call.Op+"/concurrent-first-use", msg, cases[o.i]) {
				t.Errorf("%s", msg)
				return
			}
		}
	}
}

func TestC01(t *testing.T) {
	var idle *idleRun
	if !ev.Replaying() && ev.Shard() == 0 {
		idle = startIdle()
	}
	rp.RunAll(t, props()...)
	if idle != nil {
		finishIdle(t, idle)
	}
}
func TestReplay(t *testing.T) { rp.ReplayAll(t, props()...) }
