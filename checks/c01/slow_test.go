package c01

import (
	"bytes"
	"fmt"
	"net"
	"sync"
	"time"

	"verif/harness/api"
	"verif/harness/ev"
	"verif/harness/farm"
	"verif/harness/hook"
	"verif/harness/rp"
	"verif/harness/spec"
)

// Two situations in which time passes inside a call (real driver, loopback controllers). The request on the wire is the
// encoding of the call's arguments, once, however long the call had to wait and whatever happened before:
//
// queued: the client shares a fixed bind port with another client whose call to a silent controller holds the port for
// its whole timeout (more than a second); the judged call - made with arguments taken from the clock at the moment of the
// call, as production code does: SetTime(time.Now()), a card valid from today - waits for the port and is then sent.
//
// warm-then-slow: the client has had several prompt answers from the controller; then the controller takes longer than a
// second to answer (or does not answer at all) while the timeout is longer still. One call, one request.
type slowWire struct {
	Kind      string `json:"kind"`
	Op        string `json:"op"`
	Path      string `json:"path"`
	HoldMs    int    `json:"hold_ms,omitempty"`
	TimeoutMs int    `json:"timeout_ms"`
	Warm      int    `json:"warm_calls,omitempty"`
	ReplyMs   int    `json:"reply_after_ms,omitempty"` // 0 = never
	Debug     bool   `json:"debug,omitempty"`
}

func nowCall(op string, serial uint32) api.Case {
	now := time.Now().UTC()
	today := spec.Civil{Y: now.Year(), M: int(now.Month()), D: now.Day()}
	c := spec.Call{Op: op, Serial: serial, Door: 1, Card: 8165537, Profile: 29, Index: 17, From: today, To: today, Doors: [4]uint8{1, 0, 29, 1}, PIN: 7531,
		DateTime: spec.CivilDT{Y: now.Year(), M: int(now.Month()), D: now.Day(), H: now.Hour(), Mi: now.Minute(), S: now.Second()},
		Start:    spec.HM{H: now.Hour(), M: now.Minute()}, Task: 3}
	return api.Case{Call: c, V: api.Variant{WeekPresent: [7]bool{true, true, true, true, true, true, true}, DoorsPresent: [4]bool{true, true, true, true}}}
}

// closed-port: nothing listens at the controller's address (it is restarting): the host answers the request with ICMP port
// unreachable. A raw ICMP socket (root only; skipped otherwise) counts those answers - each one quotes the datagram it refuses
// - for the call's destination port: one call, one datagram, whether or not the bind port is fixed.
func runClosedPort(c slowWire) (*rp.Fail, bool) {
	ic, err := net.ListenIP("ip4:icmp", &net.IPAddr{IP: net.IPv4(127, 0, 0, 1)})
	if err != nil {
		return nil, true
	}
	defer ic.Close()
	ip := [4]byte{127, 0, 0, 1}
	port, err := farm.FreePort(ip)
	if err != nil {
		return nil, true
	}
	serial := uint32(405419896)
	cfg := hook.ClientCfg{TimeoutMs: c.TimeoutMs, BindIP: ip, Debug: c.Debug, Devices: []hook.DeviceCfg{{Name: "w", Serial: serial, HasAddr: true, IP: ip, Port: port, Protocol: "udp"}}}
	if c.Warm > 0 { // (used as the flag 'fixed bind port' here)
		bp, err := farm.FreePort(ip)
		if err != nil {
			return nil, true
		}
		cfg.BindPort = bp
	}
	var mu sync.Mutex
	refused := 0
	stop := make(chan struct{})
	go func() {
		buf := make([]byte, 1500)
		for {
			ic.SetReadDeadline(time.Now().Add(50 * time.Millisecond))
			n, _, err := ic.ReadFrom(buf)
			select {
			case <-stop:
				return
			default:
			}
			if err != nil || n < 8+20+8 {
				continue
			}
			// ICMP type 3 (destination unreachable) code 3 (port): the payload quotes the IP header and the UDP header
			if buf[0] != 3 || buf[1] != 3 {
				continue
			}
			ihl := int(buf[8]&0x0f) * 4
			if n < 8+ihl+4 || buf[8+9] != 17 {
				continue
			}
			if dst := int(buf[8+ihl+2])<<8 | int(buf[8+ihl+3]); dst == int(port) {
				mu.Lock()
				refused++
				mu.Unlock()
			}
		}
	}()
	client := hook.Real(cfg)
	cs := nowCall(c.Op, serial)
	res := api.Invoke(client, cs)
	time.Sleep(time.Duration(c.TimeoutMs)*time.Millisecond + 150*time.Millisecond) // (anything scheduled for later has happened by now)
	close(stop)
	if res.Panic != nil {
		return rp.Failf("wire/panic", "%s panicked: %v", c.Op, res.Panic), false
	}
	mu.Lock()
	n := refused
	mu.Unlock()
	if n == 0 {
		return nil, true // (the raw socket saw nothing at all: not judged)
	}
	ev.Class("wire/closed-port/refusals-counted-on-a-raw-icmp-socket", 1)
	if n != 1 {
		return rp.Failf("wire/udp/send-count/closed-port", "%s to a controller address where nothing listens (fixed bind port: %v): the host refused %d datagrams of this call (ICMP port unreachable, counted on a raw socket); exactly one request leaves per call", c.Op, cfg.BindPort != 0, n), false
	}
	return nil, false
}

func runSlowWire(c slowWire) (*rp.Fail, bool) {
	if c.Kind == "closed-port" {
		return runClosedPort(c)
	}
	f := farm.New()
	defer f.Close()
	serial := uint32(405419896)
	ip := [4]byte{127, 0, 4, 5}
	mode := make(chan int, 1) // the number of requests still to be answered promptly
	mode <- c.Warm
	answer := func(r farm.Received) []farm.Action {
		left := <-mode
		prompt := c.Kind == "queued" || left > 0
		if left > 0 {
			left--
		}
		mode <- left
		switch {
		case prompt:
			return []farm.Action{{Data: wireReply(r.Data)}}
		case c.ReplyMs > 0:
			return []farm.Action{{Delay: time.Duration(c.ReplyMs) * time.Millisecond, Data: wireReply(r.Data)}}
		}
		return nil
	}
	var u *farm.UDP
	var tc *farm.TCP
	for try := 0; try < 20 && (u == nil || tc == nil); try++ {
		port, err := farm.FreePort(ip)
		if err != nil {
			break
		}
		if u, err = f.UDP(ip, port, farm.Script(answer)); err != nil {
			u = nil
			continue
		}
		if tc, err = f.TCP(ip, port, farm.ScriptTCP(answer)); err != nil {
			u.Close()
			u, tc = nil, nil
		}
	}
	silent, err := f.UDP([4]byte{127, 0, 4, 6}, 0, nil)
	if u == nil || tc == nil || err != nil {
		return nil, true
	}
	cfg := hook.ClientCfg{TimeoutMs: c.TimeoutMs, BindIP: [4]byte{127, 0, 0, 1}, Debug: c.Debug, HasBroadcast: true, BroadcastIP: ip, BroadcastPort: u.Addr.Port()}
	if c.Path != "broadcast" {
		cfg.Devices = []hook.DeviceCfg{{Name: "w", Serial: serial, HasAddr: true, IP: ip, Port: u.Addr.Port(), Protocol: c.Path}}
	}
	received := func() [][]byte {
		var got [][]byte
		for _, r := range u.Log() {
			got = append(got, r.Data)
		}
		for _, r := range tc.Log() {
			got = append(got, r.Data)
		}
		return got
	}
	var cs api.Case
	switch c.Kind {
	case "queued":
		port, err := farm.FreePort(cfg.BindIP)
		if err != nil {
			return nil, true
		}
		cfg.BindPort = port
		blocker := hook.Real(hook.ClientCfg{TimeoutMs: c.HoldMs, BindIP: cfg.BindIP, BindPort: port,
			Devices: []hook.DeviceCfg{{Name: "silent", Serial: 303986753, HasAddr: true, IP: [4]byte{127, 0, 4, 6}, Port: silent.Addr.Port(), Protocol: "udp"}}})
		held := make(chan struct{})
		go func() {
			defer close(held)
			api.Invoke(blocker, api.Case{Call: spec.Call{Op: "GetTime", Serial: 303986753}})
		}()
		for deadline := time.Now().Add(time.Second); len(silent.Log()) == 0 && time.Now().Before(deadline); {
			time.Sleep(2 * time.Millisecond)
		}
		client := hook.Real(cfg)
		cs = nowCall(c.Op, serial)
		t0 := time.Now()
		res := api.Invoke(client, cs)
		waited := time.Since(t0)
		<-held
		if res.Panic != nil {
			return rp.Failf("wire/panic", "%s panicked: %v", c.Op, res.Panic), false
		}
		if waited < time.Duration(c.HoldMs)*time.Millisecond*8/10 {
			ev.Class("wire/queued/did-not-wait", 1) // (the calls did not take turns: nothing to judge about waiting)
		} else {
			ev.Class("wire/queued/waited-for-the-bind-port-over-a-second", 1)
		}
	case "warm-then-slow":
		client := hook.Real(cfg)
		cs = nowCall(c.Op, serial)
		for i := 0; i < c.Warm; i++ {
			if res := api.Invoke(client, cs); res.Panic != nil || res.Err != nil {
				return nil, true
			}
		}
		u.ClearLog()
		tc.ClearLog()
		if res := api.Invoke(client, cs); res.Panic != nil {
			return rp.Failf("wire/panic", "%s panicked: %v", c.Op, res.Panic), false
		}
	}
	time.Sleep(30 * time.Millisecond)
	want := spec.Request(cs.Call)
	got := received()
	if len(got) != 1 {
		return rp.Failf("wire/"+c.Path+"/send-count", "%s over %s (%+v): the controller received %d messages for one call; exactly one request must reach the network", c.Op, c.Path, c, len(got)), false
	}
	if !bytes.Equal(got[0], want) {
		return rp.Failf("wire/"+c.Path+"/request-bytes", "%s over %s (%+v): the controller received\n  %x, the protocol encoding of the call is\n  %x (first difference at offset %d)",
			c.Op, c.Path, c, got[0], want, firstDiff(want, got[0])), false
	}
	return nil, false
}

func checkSlowWire(c slowWire) *rp.Fail {
	ev.Case("wire/"+c.Kind+"/"+c.Path, true, fmt.Sprintf("%+v", c))
	f, skipped := runSlowWire(c)
	if skipped {
		ev.Excluded("socket scenario skipped (no free port / warm-up call failed)", 1)
		return nil
	}
	if f != nil {
		if f2, sk := runSlowWire(c); f2 == nil && !sk {
			ev.Inconclusive(1)
			return nil
		}
	}
	return f
}

func sweepSlowWire(yield func(slowWire) bool) {
	cases := []slowWire{
		{Kind: "closed-port", Op: "GetTime", Path: "udp", TimeoutMs: 400, Warm: 1},
		{Kind: "closed-port", Op: "OpenDoor", Path: "udp", TimeoutMs: 300, Warm: 0, Debug: true},
		{Kind: "queued", Op: "SetTime", Path: "udp", HoldMs: 1400, TimeoutMs: 400},
		{Kind: "warm-then-slow", Op: "GetStatus", Path: "udp", TimeoutMs: 2600, Warm: 5, ReplyMs: 1500},
		{Kind: "queued", Op: "SetTime", Path: "broadcast", HoldMs: 2300, TimeoutMs: 400, Debug: true},
		{Kind: "warm-then-slow", Op: "GetTime", Path: "udp", TimeoutMs: 2200, Warm: 8},
		{Kind: "queued", Op: "PutCard", Path: "tcp", HoldMs: 1200, TimeoutMs: 400},
		{Kind: "warm-then-slow", Op: "GetCardByIndex", Path: "broadcast", TimeoutMs: 2500, Warm: 6, ReplyMs: 1800},
		{Kind: "queued", Op: "SetTime", Path: "tcp", HoldMs: 1500, TimeoutMs: 400},
		{Kind: "warm-then-slow", Op: "GetStatus", Path: "tcp", TimeoutMs: 2500, Warm: 5, ReplyMs: 1300, Debug: true},
	}
	if ev.Thorough() {
		for i, op := range []string{"SetTime", "AddTask", "SetTimeProfile", "GetEvent", "GetDoorControlState", "GetListener", "GetTimeProfile", "GetCardByID", "GetEventIndex", "GetDevice"} {
			path := []string{"udp", "broadcast", "tcp"}[i%3]
			cases = append(cases, slowWire{Kind: "queued", Op: op, Path: path, HoldMs: 1100 + 700*(i%4), TimeoutMs: 500},
				slowWire{Kind: "warm-then-slow", Op: op, Path: "udp", TimeoutMs: 3000 + 1000*(i%3), Warm: 4 + i, ReplyMs: []int{0, 1100, 2500}[i%3]})
		}
	}
	for i, c := range cases {
		if ev.Mine(i) && !yield(c) {
			return
		}
	}
}
