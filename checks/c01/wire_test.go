package c01

import (
	"bytes"
	"fmt"
	"github.com/uhppoted/uhppote-core/uhppote"
	"time"

	"pgregory.net/rapid"

	"verif/harness/api"
	"verif/harness/ev"
	"verif/harness/farm"
	"verif/harness/gen"
	"verif/harness/hook"
	"verif/harness/rp"
	"verif/harness/spec"
)

// Socket-layer sample: the REAL UDP/TCP driver, on each of its delivery paths, with and without debug output, puts
// exactly the protocol encoding on the wire, once. The loopback controller answers with a header-correct reply so that
// the call returns at once.
type wireCase struct {
	Case  api.Case `json:"case"`
	Path  string   `json:"path"` // broadcast | udp | tcp
	Debug bool     `json:"debug"`
	TZ    string   `json:"tz,omitempty"`
	Fixed bool     `json:"fixed_bind_port,omitempty"`
}

func wireReply(req []byte) []byte {
	if len(req) != 64 {
		return nil
	}
	for _, op := range spec.ReplyOps {
		if l := spec.Responses[op]; l.Code == req[1] {
			b := make([]byte, 64)
			spec.Header(b, 0x17, l.Code, spec.LE32(req[4:]))
			if spec.LE32(req[4:]) == 0 {
				spec.PutLE32(b[4:], 423187757)
			}
			switch req[1] {
			case 0x5a:
				copy(b[8:12], req[8:12])
			case 0x98:
				b[8] = req[8]
			}
			return b
		}
	}
	return nil
}

func runWire(c wireCase) (*rp.Fail, bool) {
	f := farm.New()
	defer f.Close()
	answer := func(r farm.Received) []farm.Action { return []farm.Action{{Data: wireReply(r.Data)}} }
	ip := [4]byte{127, 0, 4, 1}
	var u *farm.UDP
	var tc *farm.TCP
	for try := 0; try < 20 && (u == nil || tc == nil); try++ {
		port, err := farm.FreePort(ip)
		if err != nil {
			break
		}
		if u, err = f.UDP(ip, port, farm.Script(answer)); err != nil {
			u = nil
			continue
		}
		if tc, err = f.TCP(ip, port, farm.ScriptTCP(answer)); err != nil {
			u.Close()
			u, tc = nil, nil
		}
	}
	if u == nil || tc == nil {
		ev.HarnessError("farm: cannot open an endpoint pair")
		return nil, true
	}
	serial := c.Case.Call.Serial
	discovery := c.Case.Call.Op == "GetDevices"
	cfg := hook.ClientCfg{TimeoutMs: 400, BindIP: [4]byte{127, 0, 0, 1}, Debug: c.Debug, HasBroadcast: true, BroadcastIP: [4]byte{127, 0, 4, 2}, BroadcastPort: 1}
	if c.Fixed {
		port, err := farm.FreePort(cfg.BindIP)
		if err != nil {
			return nil, true
		}
		cfg.BindPort = port
	}
	path := c.Path
	if discovery {
		path = "broadcast"
	}
	switch path {
	case "broadcast":
		cfg.BroadcastIP, cfg.BroadcastPort = ip, u.Addr.Port()
		if !discovery && c.TZ != "" {
			cfg.Devices = []hook.DeviceCfg{{Name: "w", Serial: serial, TZ: c.TZ}} // configured, but without an address
		}
	case "udp":
		cfg.Devices = []hook.DeviceCfg{{Name: "w", Serial: serial, HasAddr: true, IP: ip, Port: u.Addr.Port(), Protocol: "udp", TZ: c.TZ}}
	case "tcp":
		cfg.Devices = []hook.DeviceCfg{{Name: "w", Serial: serial, HasAddr: true, IP: ip, Port: u.Addr.Port(), Protocol: "tcp", TZ: c.TZ}}
	}
	client := hook.Real(cfg)
	var res api.Result
	if discovery {
		_, err := client.GetDevices()
		res.Err = err
	} else {
		res = api.Invoke(client, c.Case)
	}
	if res.Panic != nil {
		return rp.Failf("wire/panic", "%s panicked: %v", c.Case.Call.Op, res.Panic), false
	}
	time.Sleep(10 * time.Millisecond)
	want := spec.Request(c.Case.Call)
	var got [][]byte
	for _, r := range u.Log() {
		got = append(got, r.Data)
	}
	nu := len(got)
	for _, r := range tc.Log() {
		got = append(got, r.Data)
	}
	wantU, wantT := 1, 0
	if path == "tcp" {
		wantU, wantT = 0, 1
	}
	if nu != wantU || len(got)-nu != wantT || tc.Connections() != wantT {
		return rp.Failf("wire/"+path+"/send-count", "%s over %s (debug=%v): the controller received %d datagram(s) and %d TCP connection(s) with %d message(s); exactly one request must reach the network (result: %v)",
			c.Case.Call.Op, path, c.Debug, nu, tc.Connections(), len(got)-nu, res), false
	}
	if !bytes.Equal(got[0], want) {
		return rp.Failf("wire/"+path+"/request-bytes", "%s over %s (debug=%v): the controller received\n  %x, the protocol encoding of the call is\n  %x (first difference at offset %d)",
			c.Case.Call.Op, path, c.Debug, got[0], want, firstDiff(want, got[0])), false
	}
	return nil, false
}

func checkWire(c wireCase) *rp.Fail {
	want := spec.Request(c.Case.Call)
	nt := len(spec.Requests[c.Case.Call.Op].Fields) <= 1 || !bytes.Equal(want[8:], make([]byte, 56))
	ev.Case("wire/"+c.Path+map[bool]string{false: "", true: "/debug"}[c.Debug], nt, fmt.Sprintf("%+v", c))
	f, skipped := runWire(c)
	if skipped {
		ev.Excluded("socket scenario skipped (no free port)", 1)
		return nil
	}
	if f != nil {
		if f2, sk := runWire(c); f2 == nil && !sk {
			ev.Inconclusive(1)
			return nil
		}
	}
	return f
}

func genWire(t *rapid.T) wireCase {
	op := gen.Op(t, true)
	// operations with many encoded argument bytes are drawn more often
	if rapid.IntRange(0, 2).Draw(t, "heavy") == 0 {
		op = rapid.SampledFrom([]string{"PutCard", "SetDoorPasscodes", "SetTimeProfile", "AddTask", "SetTime", "SetAddress", "SetListener"}).Draw(t, "heavy.op")
	}
	cs := gen.Call(t, op)
	if op == "SetTime" {
		cs.V.TimeLoc = ""
		_, cs.Call.DateTime = api.SetTimeArg(cs.Call, cs.V)
	}
	return wireCase{Case: cs, Path: rapid.SampledFrom([]string{"broadcast", "broadcast", "udp", "tcp"}).Draw(t, "path"), Debug: rapid.Bool().Draw(t, "debug"),
		TZ: gen.DeviceTZ(t, "tz"), Fixed: rapid.IntRange(0, 3).Draw(t, "fixed") == 0}
}

// identical calls made at the same time: each call puts its OWN request on the wire (N calls - N requests), on every path,
// with bind port 0 or a fixed bind port (where the calls take turns)
type sameCase struct {
	Case  api.Case `json:"case"`
	Path  string   `json:"path"`
	N     int      `json:"n"`
	Fixed bool     `json:"fixed_bind_port,omitempty"`
	Debug bool     `json:"debug,omitempty"`
	// Silent: the controller does not answer at all - every call runs into its timeout, one after the other where they share a
	// bind port; each of them has still put its own request on the wire
	Silent bool `json:"silent_controller,omitempty"`
	// TwoClients (with a fixed bind port): the calls alternate between two clients of the process that share the port number,
	// one bound to 127.0.0.1 and one to 0.0.0.0 - their sockets collide all the same, so they take turns like one client's calls
	TwoClients bool `json:"two_clients,omitempty"`
	// Distinct: the concurrent calls differ (call i asks for card / index / door ... + i): every one of the N encodings
	// arrives exactly once. AfterSetAddress: the client has made a SetAddress call - the request without a reply, with code
	// paths of its own - just before.
	Distinct        bool `json:"distinct_calls,omitempty"`
	AfterSetAddress bool `json:"after_set_address,omitempty"`
}

func runSame(c sameCase, scale int) (*rp.Fail, bool) {
	f := farm.New()
	defer f.Close()
	answer := func(r farm.Received) []farm.Action {
		if c.Silent {
			return nil
		}
		return []farm.Action{{Data: wireReply(r.Data)}}
	}
	ip := [4]byte{127, 0, 4, 3}
	var u *farm.UDP
	var tc *farm.TCP
	for try := 0; try < 20 && (u == nil || tc == nil); try++ {
		port, err := farm.FreePort(ip)
		if err != nil {
			break
		}
		if u, err = f.UDP(ip, port, farm.Script(answer)); err != nil {
			u = nil
			continue
		}
		if tc, err = f.TCP(ip, port, farm.ScriptTCP(answer)); err != nil {
			u.Close()
			u, tc = nil, nil
		}
	}
	if u == nil || tc == nil {
		return nil, true
	}
	discovery := c.Case.Call.Op == "GetDevices"
	cfg := hook.ClientCfg{TimeoutMs: 150 * scale, BindIP: [4]byte{127, 0, 0, 1}, Debug: c.Debug, HasBroadcast: true, BroadcastIP: ip, BroadcastPort: u.Addr.Port()}
	if c.Fixed {
		port, err := farm.FreePort(cfg.BindIP)
		if err != nil {
			return nil, true
		}
		cfg.BindPort = port
	}
	path := c.Path
	if discovery {
		path = "broadcast"
	}
	switch path {
	case "udp":
		cfg.Devices = []hook.DeviceCfg{{Name: "w", Serial: c.Case.Call.Serial, HasAddr: true, IP: ip, Port: u.Addr.Port(), Protocol: "udp"}}
	case "tcp":
		cfg.Devices = []hook.DeviceCfg{{Name: "w", Serial: c.Case.Call.Serial, HasAddr: true, IP: ip, Port: u.Addr.Port(), Protocol: "tcp"}}
	}
	client := hook.Real(cfg)
	clients := []uhppote.IUHPPOTE{client}
	if c.TwoClients && c.Fixed {
		any := cfg
		any.BindIP = [4]byte{0, 0, 0, 0}
		clients = append(clients, hook.Real(any))
	}
	if c.AfterSetAddress && !discovery {
		sa := api.Case{Call: spec.Call{Op: "SetAddress", Serial: c.Case.Call.Serial, Address: [4]byte{192, 168, 1, 100}, Mask: [4]byte{255, 255, 255, 0}, Gateway: [4]byte{192, 168, 1, 1}}}
		if sa.Call.Serial == 0 {
			sa.Call.Serial = 405419896
		}
		for _, cl := range clients {
			api.Invoke(cl, sa)
		}
		time.Sleep(5 * time.Millisecond)
		u.ClearLog()
		tc.ClearLog()
	}
	each := make([]api.Case, c.N)
	for i := range each {
		each[i] = c.Case
		if c.Distinct {
			each[i].Call.Card += uint32(i)
			each[i].Call.Index += uint32(i)
			each[i].Call.Profile += uint8(i)
			each[i].Call.Door = uint8(1 + (int(c.Case.Call.Door)+i)%4)
		}
	}
	start := make(chan struct{})
	done := make(chan any, c.N)
	for i := 0; i < c.N; i++ {
		client := clients[i%len(clients)]
		mine := each[i]
		go func() {
			<-start
			if discovery {
				func() {
					defer func() { done <- recover() }()
					client.GetDevices()
				}()
				return
			}
			done <- api.Invoke(client, mine).Panic
		}()
	}
	close(start)
	for i := 0; i < c.N; i++ {
		select {
		case p := <-done:
			if p != nil {
				return rp.Failf("wire/panic", "%s panicked: %v", c.Case.Call.Op, p), false
			}
		case <-time.After(time.Duration(c.N*150*scale)*time.Millisecond + 10*time.Second):
			return rp.Failf("wire/"+path+"/hang", "%d concurrent %s calls have not all returned", c.N, c.Case.Call.Op), false
		}
	}
	time.Sleep(10 * time.Millisecond)
	want := spec.Request(c.Case.Call)
	var got [][]byte
	for _, r := range u.Log() {
		got = append(got, r.Data)
	}
	for _, r := range tc.Log() {
		got = append(got, r.Data)
	}
	if len(got) != c.N {
		return rp.Failf("wire/"+path+"/send-count/concurrent-identical-calls", "%d identical %s calls made at the same time over %s (fixed bind port: %v) put %d request(s) on the wire; every call sends its own request",
			c.N, c.Case.Call.Op, path, c.Fixed, len(got)), false
	}
	if c.Distinct && !discovery {
		// every call's own encoding arrives exactly once (in any order)
		left := map[string]int{}
		for _, cs := range each {
			left[string(spec.Request(cs.Call))]++
		}
		for _, g := range got {
			if left[string(g)] == 0 {
				return rp.Failf("wire/"+path+"/request-bytes/concurrent-distinct-calls", "%d different %s calls made at the same time over %s (fixed bind port: %v, after a SetAddress call: %v): the controller received %x - the encoding of none of the calls, or of one of them for the second time", c.N, c.Case.Call.Op, path, c.Fixed, c.AfterSetAddress, g), false
			}
			left[string(g)]--
		}
		return nil, false
	}
	for _, g := range got {
		if !bytes.Equal(g, want) {
			return rp.Failf("wire/"+path+"/request-bytes", "%s over %s: the controller received %x, the protocol encoding is %x", c.Case.Call.Op, path, g, want), false
		}
	}
	return nil, false
}

func checkSame(c sameCase) *rp.Fail {
	ev.Case("wire/concurrent-identical-calls/"+c.Path+map[bool]string{true: "/silent-controller"}[c.Silent], true, fmt.Sprintf("%+v", c))
	f, skipped := runSame(c, 1)
	if skipped {
		ev.Excluded("socket scenario skipped (no free port)", 1)
		return nil
	}
	if f != nil {
		if f2, sk := runSame(c, 4); f2 == nil && !sk {
			ev.Inconclusive(1)
			return nil
		}
	}
	return f
}

func genSame(t *rapid.T) sameCase {
	op := rapid.SampledFrom([]string{"GetDevices", "GetDevices", "GetTime", "GetStatus", "OpenDoor", "GetCards", "GetDevice"}).Draw(t, "op")
	cs := gen.Call(t, op)
	c := sameCase{Case: cs, Path: rapid.SampledFrom([]string{"broadcast", "udp", "tcp"}).Draw(t, "path"), N: rapid.IntRange(2, 4).Draw(t, "n"), Fixed: rapid.Bool().Draw(t, "fixed"), Debug: gen.Debug(t, "debug")}
	c.TwoClients = c.Fixed && rapid.Bool().Draw(t, "two.clients")
	if op != "GetDevices" && rapid.Bool().Draw(t, "distinct") {
		c.Distinct, c.AfterSetAddress = true, rapid.Bool().Draw(t, "after.set.address")
		c.Case = gen.Call(t, rapid.SampledFrom([]string{"GetCardByID", "GetCardByIndex", "GetEvent", "GetTimeProfile", "OpenDoor", "GetDoorControlState"}).Draw(t, "distinct.op"))
	}
	if rapid.IntRange(0, 3).Draw(t, "silent") == 0 {
		c.Silent, c.N = true, rapid.IntRange(3, 7).Draw(t, "silent.n")
		if rapid.Bool().Draw(t, "silent.directed") && op != "GetDevices" {
			c.Path, c.Fixed = "udp", rapid.IntRange(0, 3).Draw(t, "silent.fixed") != 0
		}
	}
	if c.Path == "tcp" && op != "GetDevices" {
		// a second TCP connection from one fixed local port to the same controller is refused by the operating system while
		// the first is in TIME_WAIT (before the controller is asked): not generated
		c.Fixed = false
	}
	return c
}
