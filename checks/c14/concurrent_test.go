package c14

import (
	"encoding/json"
	"fmt"
	"sync"
	"time"

	"pgregory.net/rapid"

	"github.com/uhppoted/uhppote-core/types"

	"verif/harness/api"
	"verif/harness/ev"
	"verif/harness/rp"
	"verif/harness/zones"
)

// (the JSON and text side of C13's concurrent-dates check)
// Several goroutines of an application decode DIFFERENT dates at the same time - among them days whose local midnight does not
// exist in the process time zone, for which the library has to search for the start of the day: every date is the one that was
// read, parsed or constructed, whatever the other goroutines are doing (anything the library keeps between calls on that path
// would be shared by them).
type concCase struct {
	Zone    string      `json:"zone"`
	Days    []zones.Day `json:"days"`
	Workers int         `json:"workers"`
	Rounds  int         `json:"rounds"`
}

var gapZones []string
var gapZonesOnce sync.Once

func zonesWithGaps() []string {
	gapZonesOnce.Do(func() {
		names := zones.Names()
		known := map[string]bool{}
		for _, z := range names {
			known[z] = true
		}
		if !ev.Thorough() {
			names = []string{"America/Santiago", "America/Havana", "Africa/Cairo", "America/Asuncion", "Asia/Beirut", "America/Sao_Paulo", "Asia/Tehran", "Asia/Amman", "Asia/Damascus", "Asia/Gaza",
				"America/Bahia", "America/Campo_Grande", "Atlantic/Azores", "America/Scoresbysund", "America/Godthab", "Asia/Jerusalem", "America/Punta_Arenas", "Pacific/Easter", "America/Cuiaba", "Pacific/Apia"}
		}
		for _, z := range names {
			if !known[z] {
				continue
			}
			if len(zones.MidnightGaps(z, 1900, 2100)) >= 2 {
				gapZones = append(gapZones, z)
			}
		}
	})
	return gapZones
}

func genConc(t *rapid.T) concCase {
	zl := zonesWithGaps()
	c := concCase{Zone: rapid.SampledFrom(zl).Draw(t, "zone"), Workers: rapid.IntRange(2, 8).Draw(t, "workers"), Rounds: rapid.SampledFrom([]int{50, 200, 1000}).Draw(t, "rounds")}
	gaps := zones.MidnightGaps(c.Zone, 1900, 2100)
	loc := zones.Loc(c.Zone)
	n := rapid.IntRange(2, 4).Draw(t, "days")
	for i := 0; i < n; i++ {
		if rapid.IntRange(0, 5).Draw(t, "ordinary") == 0 {
			c.Days = append(c.Days, zones.Day{Y: rapid.IntRange(1900, 2100).Draw(t, "y"), M: rapid.IntRange(1, 12).Draw(t, "m"), D: rapid.IntRange(1, 28).Draw(t, "d")})
			continue
		}
		g := gaps[rapid.IntRange(0, len(gaps)-1).Draw(t, "gap")]
		if !zones.DayExists(loc, g.Y, g.M, g.D) {
			g = gaps[0]
			if !zones.DayExists(loc, g.Y, g.M, g.D) {
				g = zones.Day{Y: 2024, M: 2, D: 29}
			}
		}
		c.Days = append(c.Days, g)
	}
	return c
}

func checkConc(c concCase) *rp.Fail {
	loc := zones.Loc(c.Zone)
	distinct := map[zones.Day]bool{}
	for _, d := range c.Days {
		if !zones.MidnightExists(loc, d.Y, d.M, d.D) {
			distinct[d] = true
		}
	}
	ev.Case("concurrent/different-days", len(distinct) >= 2, fmt.Sprint(c))
	if len(distinct) >= 2 && ev.WantSample("concurrent/different-days-without-midnight") {
		ev.Sample("concurrent/different-days-without-midnight", c)
	}
	var mu sync.Mutex
	var fail *rp.Fail
	report := func(f *rp.Fail) {
		mu.Lock()
		if fail == nil {
			fail = f
		}
		mu.Unlock()
	}
	failed := func() bool { mu.Lock(); defer mu.Unlock(); return fail != nil }
	old := time.Local
	time.Local = loc // (set before the goroutines start, restored after they are done: they only read it)
	defer func() { time.Local = old }()
	var wg sync.WaitGroup
	start := make(chan struct{})
	for w := 0; w < c.Workers; w++ {
		d := c.Days[w%len(c.Days)]
		form := w / len(c.Days) % 3
		wg.Add(1)
		go func() {
			defer wg.Done()
			defer func() {
				if p := recover(); p != nil {
					report(rp.Failf("concurrent/panic", "zone %s, date %04d-%02d-%02d: panic %v", c.Zone, d.Y, d.M, d.D, p))
				}
			}()
			want := fmt.Sprintf("%04d-%02d-%02d", d.Y, d.M, d.D)
			js, _ := json.Marshal(want)
			<-start
			for r := 0; r < c.Rounds && !failed(); r++ {
				var got types.Date
				var how string
				switch (form + r) % 3 {
				case 0:
					if err := json.Unmarshal(js, &got); err != nil {
						report(rp.Failf("concurrent/json/rejected", "zone %s: decoding %s failed while other goroutines handled other dates: %v", c.Zone, js, err))
						return
					}
					how = "types.Date.UnmarshalJSON"
				case 1:
					var err error
					if got, err = types.ParseDate(want); err != nil {
						report(rp.Failf("concurrent/ParseDate/rejected", "zone %s: ParseDate(%q) failed while other goroutines handled other dates: %v", c.Zone, want, err))
						return
					}
					how = "types.ParseDate"
				case 2:
					var card types.Card
					doc := fmt.Sprintf(`{"card-number":8165538,"start-date":%s,"end-date":"2099-12-31","doors":{"1":1,"2":0,"3":0,"4":0}}`, js)
					if err := json.Unmarshal([]byte(doc), &card); err != nil {
						report(rp.Failf("concurrent/json/rejected", "zone %s: decoding a card valid from %s failed while other goroutines handled other dates: %v", c.Zone, js, err))
						return
					}
					got, how = card.From, "types.Card.UnmarshalJSON"
				}
				if s := api.DateText(got); s != want {
					report(rp.Failf("concurrent/"+how+"/wrong-date", "zone %s: %s of %s gave %s while %d goroutines were handling the dates %v", c.Zone, how, want, s, c.Workers, c.Days))
					return
				}
				if out, err := json.Marshal(got); err != nil || string(out) != string(js) {
					report(rp.Failf("concurrent/encode/wrong-text", "zone %s: the date %s (%s) encodes as %s, %v while %d goroutines were handling the dates %v", c.Zone, want, how, out, err, c.Workers, c.Days))
					return
				}
			}
		}()
	}
	close(start)
	wg.Wait()
	return fail
}

func sweepConc(yield func(concCase) bool) {
	idx := 0
	for _, z := range []string{"America/Santiago", "America/Havana", "Africa/Cairo", "America/Asuncion", "Asia/Beirut", "America/Sao_Paulo", "Asia/Tehran", "Asia/Amman"} {
		ok := false
		for _, k := range zonesWithGaps() {
			ok = ok || k == z
		}
		if !ok {
			continue
		}
		gaps := zones.MidnightGaps(z, 1900, 2100)
		loc := zones.Loc(z)
		var days []zones.Day
		for i := len(gaps) - 1; i >= 0 && len(days) < 4; i-- {
			if zones.DayExists(loc, gaps[i].Y, gaps[i].M, gaps[i].D) {
				days = append(days, gaps[i])
			}
		}
		idx++
		if len(days) >= 2 && ev.Mine(idx) && !yield(concCase{Zone: z, Days: days, Workers: 8, Rounds: 2000}) {
			return
		}
	}
}
