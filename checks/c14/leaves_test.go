package c14

import (
	"encoding/json"
	"time"

	"github.com/uhppoted/uhppote-core/types"

	"verif/harness/ev"
)

// sweepLeaves: every primitive value of a card / time profile / task / weekdays / segments document, one at a time, replaced by
// null, true, a number, a fraction, an empty string, an empty list and an empty object - decoded by the ordinary malformed-text
// rule (no panic; what is listed as outside the domain is refused).
func sweepLeaves(yield func(badCase) bool) {
	d1, d2 := types.ToDate(2024, time.January, 5), types.ToDate(2025, time.December, 20)
	seg := types.Segment{Start: types.NewHHmm(8, 30), End: types.NewHHmm(17, 45)}
	segs := types.Segments{1: seg, 2: {Start: types.NewHHmm(0, 0), End: types.NewHHmm(24, 0)}, 3: {}}
	week := types.Weekdays{time.Monday: true, time.Tuesday: false, time.Wednesday: true, time.Thursday: true, time.Friday: false, time.Saturday: true, time.Sunday: false}
	docs := map[string]any{
		"Card":        types.Card{CardNumber: 8165538, From: d1, To: d2, Doors: map[uint8]uint8{1: 1, 2: 0, 3: 29, 4: 1}, PIN: 7531},
		"TimeProfile": types.TimeProfile{ID: 29, LinkedProfileID: 3, From: d1, To: d2, Weekdays: week, Segments: segs},
		"Task":        types.Task{Task: types.EnableTimeProfile, Door: 3, From: d1, To: d2, Weekdays: week, Start: types.NewHHmm(8, 30), Cards: 13},
		"Segments":    segs,
		"Segment":     seg,
	}
	idx := 0
	for _, typ := range structuredTypes {
		v, ok := docs[typ]
		if !ok {
			continue
		}
		js, err := json.Marshal(v)
		if err != nil {
			continue
		}
		// spans of primitive values: a string, number, true / false / null that follows a ':' or sits in a list
		type span struct{ from, to int }
		var spans []span
		for i := 0; i < len(js); i++ {
			if js[i] != ':' && js[i] != '[' && js[i] != ',' {
				if js[i] == '"' { // skip over a string (a key, or a value that was recorded below)
					for i++; i < len(js) && js[i] != '"'; i++ {
						if js[i] == '\\' {
							i++
						}
					}
				}
				continue
			}
			j := i + 1
			if j >= len(js) || js[j] == '{' || js[j] == '[' {
				continue
			}
			k := j
			if js[j] == '"' {
				for k++; k < len(js) && js[k] != '"'; k++ {
					if js[k] == '\\' {
						k++
					}
				}
				k++
				if k < len(js) && js[k] == ':' { // (that was a key)
					i = k - 1
					continue
				}
			} else {
				for k < len(js) && js[k] != ',' && js[k] != '}' && js[k] != ']' {
					k++
				}
			}
			spans = append(spans, span{j, k})
			i = k - 1
		}
		for _, sp := range spans {
			for _, alt := range []string{"null", "true", "0", "-1", "1.5", `""`, "[]", "{}", "1e3", `"null"`} {
				idx++
				if !ev.Mine(idx) {
					continue
				}
				text := string(js[:sp.from]) + alt + string(js[sp.to:])
				if !yield(badCase{Type: typ, Raw: true, Text: text}) {
					return
				}
			}
		}
	}
}
