// C14 - JSON and text forms of the public types round-trip; bad text is rejected.
package c14

import (
	"encoding/json"
	"fmt"
	"math/big"
	"net"
	"net/netip"
	"strings"
	"testing"
	"time"

	"github.com/uhppoted/uhppote-core/types"
	"pgregory.net/rapid"

	"verif/harness/api"
	"verif/harness/ev"
	"verif/harness/gen"
	"verif/harness/rp"
	"verif/harness/spec"
	"verif/harness/zones"
)

func TestMain(m *testing.M) {
	time.Local = time.UTC
	ev.Describe("malformed input: for every type with a text or JSON parser - valid texts with 1..3 character-level mutations (hostile inserts incl. NUL, non-ASCII digits, separators replaced, truncation), arbitrary strings, JSON values of another shape, and for the structured types (card, time profile, task, weekdays, segments) a valid document with one leaf replaced by another shape or a mutated text: the parser must not panic, and a text without any digit or letter must be rejected; per public type with a JSON form (date, date-time, HH:mm, PIN, card, time profile, weekdays, segments, task, task type, control state, version, MAC, bind/broadcast/listen/controller address): rapid-drawn in-domain values are marshalled and decoded into a FRESH zero-valued variable (nil maps), and compared under the type's observable equality (civil fields; same instant when the civil time is unambiguous; doors 1..4; weekday truth values); date and date-time cases are repeated under a spread of 40 zones (quick) / every zone (thorough). Reject side, exactly the listed classes: impossible dates and date-times, 24:01/23:60/25:00, PINs of 7+ digits, unknown control states, task types 0/14/unknown, addresses breaking the role's port rule - each must give an error and never a value. Text forms: String() fed back to ParseDate, HHmmFromString, TimeFromString, UnmarshalTSV (names and 1..13), CardFormatFromString. Non-trivial = value different from the type's zero, or a reject case; distinct = distinct (type, zone, value/text).",
		"cards are generated with valid (non-zero) dates and door keys 1..4 or a nil map; profiles with all three segments (the in-domain side of the statement)",
		"time.Local is switched in-process")
	ev.Main(m, "C14")
}

type jCase struct {
	Type     string       `json:"type"`
	Zone     string       `json:"zone,omitempty"`
	Reject   bool         `json:"reject,omitempty"`
	Text     string       `json:"text,omitempty"` // reject side: the text to decode
	U        uint64       `json:"u,omitempty"`
	A        spec.CivilDT `json:"a"`
	B        spec.Civil   `json:"b"`
	HM       [7]spec.HM   `json:"hm"`
	Doors    [4]uint8     `json:"doors"`
	DoorsNil bool         `json:"doors_nil,omitempty"`
	// DoorsMissing: bit i set = the card's door map has no entry for door i+1 (a card that grants two doors only); such a door
	// reads as 'no access' (0) after the round trip, and marshalling does not complete the caller's map
	DoorsMissing uint8    `json:"doors_missing,omitempty"`
	Week         [7]bool  `json:"week"`
	WeekMode     int      `json:"week_mode,omitempty"` // 0 all keys, 1 only true keys, 2 nil
	IP           [4]byte  `json:"ip"`
	Port         uint16   `json:"port,omitempty"`
	CardPIN      uint32   `json:"card_pin,omitempty"`
	MAC          [6]byte  `json:"mac"`
	N            [4]uint8 `json:"n"`
	InUTC        bool     `json:"in_utc,omitempty"` // DateTime: the value is held in UTC although the process zone is another one
	Later        bool     `json:"later,omitempty"`  // DateTime: for a civil time that occurs twice take the later occurrence
	// Date values (also inside cards, profiles, tasks): 0 = made by ToDate (midnight in the process zone); otherwise the public
	// conversion types.Date(t) of a time of day (Clock) in ANOTHER location (1 UTC, 2 UTC+14, 3 UTC-12, 4 Pacific/Kiritimati,
	// 5 America/Anchorage, 6 the process zone itself): the date is the calendar day of t where t is (Date.Equals compares that)
	Carrier int    `json:"date_carrier,omitempty"`
	Clock   [3]int `json:"date_clock,omitempty"`
}

func (c jCase) carried(y, m, d int) types.Date {
	if c.Carrier == 0 {
		return types.ToDate(y, time.Month(m), d)
	}
	loc := time.Local
	switch c.Carrier {
	case 1:
		loc = time.UTC
	case 2:
		loc = time.FixedZone("", 14*3600)
	case 3:
		loc = time.FixedZone("X", -12*3600)
	case 4:
		loc = zones.Loc("Pacific/Kiritimati")
	case 5:
		loc = zones.Loc("America/Anchorage")
	}
	t := time.Date(y, time.Month(m), d, c.Clock[0], c.Clock[1], c.Clock[2], 0, loc)
	if yy, mm, dd := t.Date(); yy != y || int(mm) != m || dd != d {
		return types.ToDate(y, time.Month(m), d) // (the time of day does not exist on that day there)
	}
	return types.Date(t)
}

func try(f func()) (p any) {
	defer func() { p = recover() }()
	f()
	return nil
}

var weekdayOrder = []time.Weekday{time.Monday, time.Tuesday, time.Wednesday, time.Thursday, time.Friday, time.Saturday, time.Sunday}

func (c jCase) weekdays() types.Weekdays {
	if c.WeekMode == 2 {
		return nil
	}
	w := types.Weekdays{}
	for i, d := range weekdayOrder {
		if c.Week[i] || c.WeekMode == 0 {
			w[d] = c.Week[i]
		}
	}
	return w
}

func (c jCase) weekTruth(w types.Weekdays) string {
	s := ""
	for _, d := range weekdayOrder {
		if w[d] {
			s += "1"
		} else {
			s += "0"
		}
	}
	return s
}

func (c jCase) wantWeek() string {
	s := ""
	for i := range weekdayOrder {
		if c.Week[i] && c.WeekMode != 2 {
			s += "1"
		} else {
			s += "0"
		}
	}
	return s
}

func (c jCase) date1() types.Date {
	if c.A.Y == 0 {
		return types.Date{}
	}
	return c.carried(c.A.Y, c.A.M, c.A.D)
}
func (c jCase) date2() types.Date {
	if c.B.Y == 0 {
		return types.Date{}
	}
	return c.carried(c.B.Y, c.B.M, c.B.D)
}
func civilText(y, m, d int) string {
	if y == 0 {
		return ""
	}
	return fmt.Sprintf("%04d-%02d-%02d", y, m, d)
}
func hm(h spec.HM) types.HHmm { return types.NewHHmm(h.H, h.M) }

func (c jCase) segments() types.Segments {
	return types.Segments{1: {Start: hm(c.HM[0]), End: hm(c.HM[1])}, 2: {Start: hm(c.HM[2]), End: hm(c.HM[3])}, 3: {Start: hm(c.HM[4]), End: hm(c.HM[5])}}
}
func segText(s types.Segments) string {
	out := ""
	for i := uint8(1); i <= 3; i++ {
		seg, ok := s[i]
		out += fmt.Sprintf("%v-%v/%v ", seg.Start, seg.End, ok)
	}
	return out
}

// roundtrip marshals v, decodes into fresh (pointer to a zero value) and returns the JSON text.
func roundtrip(site string, v any, fresh any) (string, *rp.Fail) {
	var js []byte
	var err error
	shape := fmt.Sprintf("%#v", v) // (maps are printed in key order)
	if p := try(func() { js, err = json.Marshal(v) }); p != nil {
		return "", rp.Failf(site+".MarshalJSON/panic", "marshalling %#v panicked: %v", v, p)
	}
	if after := fmt.Sprintf("%#v", v); after != shape {
		return "", rp.Failf(site+".MarshalJSON/modifies-the-value", "marshalling changed the value (its maps are the caller's):\n  before %s\n  after  %s", shape, after)
	}
	if err != nil {
		return "", rp.Failf(site+".MarshalJSON/error", "marshalling an in-domain value failed: %v", err)
	}
	document := string(js)
	if p := try(func() { err = json.Unmarshal(js, fresh) }); p != nil {
		return string(js), rp.Failf(site+".UnmarshalJSON/panic", "decoding %s into a fresh zero value panicked: %v", js, p)
	}
	if string(js) != document {
		return document, rp.Failf(site+".UnmarshalJSON/modifies-the-document", "decoding changed the caller's JSON document from %s to %s", document, js)
	}
	if err != nil {
		return string(js), rp.Failf(site+".UnmarshalJSON/rejects-own-encoding", "decoding %s failed: %v", js, err)
	}
	// the document's bytes belong to the caller (a read buffer that is reused): the decoded value - which the callers of this
	// function compare afterwards - must not refer to them
	text := string(js)
	for i := range js {
		js[i] = 0xa5
	}
	return text, nil
}

func numericAbbrev(js string) bool {
	// date-time JSON ends in a zone abbreviation; numeric ones look like +0330 / -03 / +1245
	i := strings.LastIndex(js, " ")
	if i < 0 {
		return false
	}
	z := strings.Trim(js[i+1:], `"`)
	return len(z) > 0 && (z[0] == '+' || z[0] == '-')
}

func decide(c jCase) *rp.Fail {
	if c.Reject {
		return decideReject(c)
	}
	var fail *rp.Fail
	run := func() {
		switch c.Type {
		case "Date":
			var got types.Date
			js, f := roundtrip("types.Date", c.date1(), &got)
			if f != nil {
				fail = f
			} else if api.DateText(got) != civilText(c.A.Y, c.A.M, c.A.D) {
				fail = rp.Failf("types.Date/roundtrip", "zone %s: %s decoded as %q", c.Zone, js, api.DateText(got))
			} else if s := c.date1().String(); s != "" {
				if back, err := types.ParseDate(s); err != nil || api.DateText(back) != s {
					fail = rp.Failf("types.ParseDate/roundtrip", "zone %s: ParseDate(%q) = %v, %v", c.Zone, s, api.DateText(back), err)
				}
			}
		case "DateTime":
			v := types.DateTime{}
			if c.A.Y != 0 {
				t := time.Date(c.A.Y, time.Month(c.A.M), c.A.D, c.A.H, c.A.Mi, c.A.S, 0, time.Local)
				if c.InUTC {
					t = time.Date(c.A.Y, time.Month(c.A.M), c.A.D, c.A.H, c.A.Mi, c.A.S, 0, time.UTC)
				} else if other, ok := otherOccurrence(t); ok && c.Later && other.After(t) {
					t = other
				}
				v = types.DateTime(t)
			}
			var got types.DateTime
			js, f := roundtrip("types.DateTime", v, &got)
			if f != nil {
				if numericAbbrev(js) && strings.HasSuffix(f.Fingerprint, "rejects-own-encoding") {
					f.Fingerprint = "types.DateTime.UnmarshalJSON/numeric-zone-abbreviation"
				}
				fail = f
				return
			}
			if c.InUTC {
				// the text carries 'UTC': the decoded value must be the same instant
				if c.A.Y != 0 && !time.Time(got).Equal(time.Time(v)) {
					fail = rp.Failf("types.DateTime/roundtrip-instant", "zone %s: %s (a UTC value) decoded to another instant (%v vs %v)", c.Zone, js, time.Time(got).UTC(), time.Time(v).UTC())
				}
				return
			}
			if api.DateTimeText(got) != api.DateTimeText(v) {
				fail = rp.Failf("types.DateTime/roundtrip", "zone %s: %s decoded as %q", c.Zone, js, api.DateTimeText(got))
			} else if c.A.Y != 0 && disambiguated(time.Time(v)) && !time.Time(got).Equal(time.Time(v)) {
				fail = rp.Failf("types.DateTime/roundtrip-instant", "zone %s: %s decoded to another instant (%v vs %v)", c.Zone, js, time.Time(got).UTC(), time.Time(v).UTC())
			}
		case "HHmm":
			var got types.HHmm
			js, f := roundtrip("types.HHmm", hm(c.HM[0]), &got)
			if f != nil {
				fail = f
			} else if !got.Equals(hm(c.HM[0])) || got.String() != c.HM[0].String() {
				fail = rp.Failf("types.HHmm/roundtrip", "%s decoded as %v", js, got)
			} else if back, err := types.HHmmFromString(c.HM[0].String()); err != nil || back == nil || !back.Equals(hm(c.HM[0])) {
				fail = rp.Failf("types.HHmmFromString/roundtrip", "HHmmFromString(%q) = %v, %v", c.HM[0].String(), back, err)
			}
		case "SystemTime":
			s := fmt.Sprintf("%02d:%02d:%02d", c.A.H, c.A.Mi, c.A.S)
			st, err := types.TimeFromString(s)
			if err != nil || st == nil {
				fail = rp.Failf("types.TimeFromString/rejects-valid", "TimeFromString(%q): %v", s, err)
			} else if st.String() != s {
				fail = rp.Failf("types.TimeFromString/roundtrip", "TimeFromString(%q).String() = %q", s, st.String())
			} else if back, err := types.TimeFromString(st.String()); err != nil || back.String() != s {
				fail = rp.Failf("types.TimeFromString/roundtrip", "second pass of %q: %v %v", s, back, err)
			}
		case "PIN":
			var got types.PIN
			js, f := roundtrip("types.PIN", types.PIN(c.U), &got)
			if f != nil {
				fail = f
			} else if uint64(got) != c.U {
				fail = rp.Failf("types.PIN/roundtrip", "%s decoded as %v, want %v", js, got, c.U)
			}
		case "Card":
			card := types.Card{CardNumber: uint32(c.U), From: c.date1(), To: c.date2(), PIN: types.PIN(c.CardPIN)}
			if !c.DoorsNil {
				card.Doors = map[uint8]uint8{}
				for i := 0; i < 4; i++ {
					if c.DoorsMissing&(1<<uint(i)) == 0 {
						card.Doors[uint8(i+1)] = c.Doors[i]
					}
				}
				if c.DoorsMissing&0x0f != 0 {
					ev.Class("card/door-map-without-all-four-doors", 1)
				}
			}
			var got types.Card
			js, f := roundtrip("types.Card", card, &got)
			if f != nil {
				fail = f
				return
			}
			gc := got
			hold("Card", func() string { return api.CardRec(gc).String() })
			want := api.CardRec(card)
			if c.DoorsNil {
				want["door1"], want["door2"], want["door3"], want["door4"] = "0", "0", "0", "0"
			} else {
				for i := 0; i < 4; i++ {
					if c.DoorsMissing&(1<<uint(i)) != 0 {
						want[fmt.Sprintf("door%d", i+1)] = "0"
					}
				}
			}
			if g := api.CardRec(got); g.String() != want.String() {
				fail = rp.Failf("types.Card/roundtrip", "%s decoded as %v, want %v", js, g, want)
			}
		case "TimeProfile":
			if c.N[3]%4 == 0 {
				// an unrelated, smaller profile decoded just before (its segments must not leak into the next decode)
				var other types.TimeProfile
				json.Unmarshal([]byte(`{"id":7,"segments":[{"start":"01:23","end":"04:56"}]}`), &other)
			}
			p := types.TimeProfile{ID: c.N[0], LinkedProfileID: c.N[1], From: c.date1(), To: c.date2(), Weekdays: c.weekdays(), Segments: c.segments()}
			var got types.TimeProfile
			js, f := roundtrip("types.TimeProfile", p, &got)
			if f != nil {
				fail = f
				return
			}
			gp := got
			hold("TimeProfile", func() string { return fmt.Sprint(gp.ID, c.weekTruth(gp.Weekdays), segText(gp.Segments)) })
			if got.ID != p.ID || got.LinkedProfileID != p.LinkedProfileID || api.DateText(got.From) != api.DateText(p.From) || api.DateText(got.To) != api.DateText(p.To) ||
				c.weekTruth(got.Weekdays) != c.wantWeek() || segText(got.Segments) != segText(p.Segments) {
				fail = rp.Failf("types.TimeProfile/roundtrip", "%s decoded as %+v (weekdays %s, segments %s)", js, got, c.weekTruth(got.Weekdays), segText(got.Segments))
			}
		case "Weekdays":
			var got types.Weekdays // fresh zero value: a nil map
			js, f := roundtrip("types.Weekdays", c.weekdays(), &got)
			if f != nil {
				fail = f
			} else if c.weekTruth(got) != c.wantWeek() {
				fail = rp.Failf("types.Weekdays/roundtrip", "%s decoded as %v", js, got)
			}
		case "Segments":
			var got types.Segments
			js, f := roundtrip("types.Segments", c.segments(), &got)
			if f != nil {
				fail = f
			} else if segText(got) != segText(c.segments()) {
				fail = rp.Failf("types.Segments/roundtrip", "%s decoded as %s", js, segText(got))
			}
		case "Task":
			task := types.Task{Task: types.TaskType(c.N[0] % 13), Door: c.N[1], From: c.date1(), To: c.date2(), Weekdays: c.weekdays(), Start: hm(c.HM[0]), Cards: c.N[2]}
			var got types.Task
			js, f := roundtrip("types.Task", task, &got)
			if f != nil {
				fail = f
				return
			}
			gt := got
			hold("Task", func() string { return fmt.Sprint(gt.Task, gt.Door, c.weekTruth(gt.Weekdays), gt.Start) })
			if got.Task != task.Task || got.Door != task.Door || api.DateText(got.From) != api.DateText(task.From) || api.DateText(got.To) != api.DateText(task.To) ||
				c.weekTruth(got.Weekdays) != c.wantWeek() || !got.Start.Equals(task.Start) || got.Cards != task.Cards {
				fail = rp.Failf("types.Task/roundtrip", "%s decoded as %+v", js, got)
			}
		case "TaskType":
			tt := types.TaskType(c.N[0] % 13)
			var got types.TaskType = 99
			js, f := roundtrip("types.TaskType", tt, &got)
			if f != nil {
				fail = f
				return
			}
			if got != tt {
				fail = rp.Failf("types.TaskType/roundtrip", "%s decoded as %d, want %d", js, got, tt)
				return
			}
			var z types.TaskType
			if v, err := z.UnmarshalTSV(tt.String()); err != nil || v != tt {
				fail = rp.Failf("types.TaskType.UnmarshalTSV/name", "UnmarshalTSV(%q) = %v, %v", tt.String(), v, err)
			} else if v, err := z.UnmarshalTSV(fmt.Sprint(int(tt) + 1)); err != nil || v != tt {
				fail = rp.Failf("types.TaskType.UnmarshalTSV/number", "UnmarshalTSV(%q) = %v, %v; want %d", fmt.Sprint(int(tt)+1), v, err, tt)
			} else if err := json.Unmarshal([]byte(fmt.Sprint(int(tt)+1)), &got); err != nil || got != tt {
				fail = rp.Failf("types.TaskType.UnmarshalJSON/number", "JSON number %d decoded as %v, %v", int(tt)+1, got, err)
			} else {
				// the number written with leading zeros (a fixed-width column in a TSV file): a deviating notation that may be accepted
				// or refused - but an accepted one is the DECIMAL number it shows, and only 1..13 are task types
				for _, n := range []int{int(tt) + 1, int(c.N[1]) % 25} {
					for _, width := range []string{"%02d", "%03d", "%05d"} {
						text := fmt.Sprintf(width, n)
						if text == fmt.Sprint(n) {
							continue
						}
						v, err := z.UnmarshalTSV(text)
						if tv, ok := v.(types.TaskType); err == nil && ok && (n < 1 || n > 13 || int(tv) != n-1) {
							fail = rp.Failf("types.TaskType.UnmarshalTSV/zero-padded-number", "UnmarshalTSV(%q) = %d (%v): the text shows the number %d", text, int(tv)+1, tv, n)
							return
						}
					}
				}
			}
		case "ControlState":
			cs := types.ControlState(1 + c.N[0]%3)
			var got types.ControlState
			js, f := roundtrip("types.ControlState", cs, &got)
			if f != nil {
				fail = f
			} else if got != cs {
				fail = rp.Failf("types.ControlState/roundtrip", "%s decoded as %d", js, got)
			}
		case "Version":
			var got types.Version
			js, f := roundtrip("types.Version", types.Version(c.U), &got)
			if f != nil {
				fail = f
			} else if uint64(got) != c.U {
				fail = rp.Failf("types.Version/roundtrip", "%s decoded as %04x, want %04x", js, uint16(got), c.U)
			}
		case "MacAddress":
			// 6 octets (what controllers have), or the other lengths a hardware address can have (EUI-64: 8, InfiniBand: 20) - a
			// MacAddress is a net.HardwareAddr
			mac := types.MacAddress(c.MAC[:])
			switch c.N[3] % 8 {
			case 6:
				mac = append(append(types.MacAddress{}, c.MAC[:3]...), 0xff, 0xfe, c.MAC[3], c.MAC[4], c.MAC[5])
				ev.Class("mac/8-octets", 1)
			case 7:
				mac = append(append(append(append(types.MacAddress{}, c.MAC[:]...), c.IP[:]...), c.MAC[:]...), c.IP[:]...)
				ev.Class("mac/20-octets", 1)
			}
			var got types.MacAddress
			js, f := roundtrip("types.MacAddress", mac, &got)
			if f != nil {
				fail = f
			} else if net.HardwareAddr(got).String() != net.HardwareAddr(mac).String() {
				fail = rp.Failf("types.MacAddress/roundtrip", "%s decoded as %v (%d octets; encoded value: %v, %d octets)", js, got, len(got), net.HardwareAddr(mac), len(mac))
			}
		case "CardFormat":
			cf := types.CardFormat(c.N[0] % 2)
			if got, err := types.CardFormatFromString(cf.String()); err != nil || got != cf {
				fail = rp.Failf("types.CardFormatFromString/roundtrip", "CardFormatFromString(%q) = %v, %v", cf.String(), got, err)
			}
		case "BindAddr", "BroadcastAddr", "ListenAddr", "ControllerAddr":
			ap := netip.AddrPortFrom(netip.AddrFrom4(c.IP), c.Port)
			var js string
			var f *rp.Fail
			var got netip.AddrPort
			switch c.Type {
			case "BindAddr":
				var g types.BindAddr
				js, f = roundtrip("types.BindAddr", types.BindAddrFrom(ap.Addr(), ap.Port()), &g)
				got = g.AddrPort
			case "BroadcastAddr":
				var g types.BroadcastAddr
				js, f = roundtrip("types.BroadcastAddr", types.BroadcastAddrFrom(ap.Addr(), ap.Port()), &g)
				got = g.AddrPort
			case "ListenAddr":
				var g types.ListenAddr
				js, f = roundtrip("types.ListenAddr", types.ListenAddrFrom(ap.Addr(), ap.Port()), &g)
				got = g.AddrPort
			default:
				var g types.ControllerAddr
				js, f = roundtrip("types.ControllerAddr", types.ControllerAddrFrom(ap.Addr(), ap.Port()), &g)
				got = g.AddrPort
			}
			if f != nil {
				fail = f
			} else if got != ap {
				fail = rp.Failf("types."+c.Type+"/roundtrip", "%s decoded as %v, want %v", js, got, ap)
			}
		default:
			fail = rp.Failf("harness/type", "unknown type %q", c.Type)
		}
	}
	if c.Zone != "" {
		zones.With(zones.Loc(c.Zone), run)
	} else {
		run()
	}
	return fail
}

// otherOccurrence returns the other instant with the same civil fields as t in time.Local (clock set back: the
// civil time occurs twice), if there is one.
func otherOccurrence(t time.Time) (time.Time, bool) {
	y, m, d := t.Date()
	h, mi, s := t.Clock()
	for _, delta := range []time.Duration{-3 * time.Hour, -2 * time.Hour, -90 * time.Minute, -time.Hour, -30 * time.Minute, 30 * time.Minute, time.Hour, 90 * time.Minute, 2 * time.Hour, 3 * time.Hour} {
		u := t.Add(delta)
		if yy, mm, dd := u.Date(); yy == y && mm == m && dd == d {
			if hh, mmi, ss := u.Clock(); hh == h && mmi == mi && ss == s {
				return u, true
			}
		}
	}
	return time.Time{}, false
}

// disambiguated: does the JSON text (civil time + zone abbreviation) identify the instant? Yes when the civil time
// occurs once, or when its two occurrences carry different abbreviations (EDT / EST).
func disambiguated(t time.Time) bool {
	other, twice := otherOccurrence(t)
	if !twice {
		return true
	}
	a, _ := t.Zone()
	b, _ := other.Zone()
	return a != b
}

func decideReject(c jCase) *rp.Fail {
	var err error
	var got string
	js, _ := json.Marshal(c.Text)
	site := "types." + c.Type
	p := try(func() {
		switch c.Type {
		case "Date":
			var v types.Date
			err = json.Unmarshal(js, &v)
			got = api.DateText(v)
			if err != nil {
				if _, e2 := types.ParseDate(c.Text); e2 == nil {
					err, site = nil, "types.ParseDate"
				}
			}
		case "DateTime":
			var v types.DateTime
			err = json.Unmarshal(js, &v)
			got = api.DateTimeText(v)
		case "HHmm":
			var v types.HHmm
			err = json.Unmarshal(js, &v)
			got = v.String()
			if err != nil {
				if h, e2 := types.HHmmFromString(c.Text); e2 == nil {
					err, site, got = nil, "types.HHmmFromString", h.String()
				}
			}
		case "SystemTime":
			var v *types.SystemTime
			v, err = types.TimeFromString(c.Text)
			if err == nil {
				got = v.String()
			}
		case "PIN":
			var v types.PIN
			err = json.Unmarshal(js, &v)
			got = fmt.Sprint(v)
		case "PINNumber": // the PIN as a JSON number
			var v types.PIN
			err = json.Unmarshal([]byte(c.Text), &v)
			got = fmt.Sprint(v)
			site = "types.PIN"
		case "ControlState":
			var v types.ControlState
			err = json.Unmarshal(js, &v)
			got = fmt.Sprint(int(v))
		case "TaskType":
			var v types.TaskType
			raw := js
			if c.U == 1 { // numeric JSON
				raw = []byte(c.Text)
			}
			err = json.Unmarshal(raw, &v)
			got = fmt.Sprint(int(v))
			if err != nil {
				if x, e2 := v.UnmarshalTSV(c.Text); e2 == nil {
					err, site, got = nil, "types.TaskType.UnmarshalTSV", fmt.Sprint(x)
				}
			}
		case "BindAddr":
			var v types.BindAddr
			err = json.Unmarshal(js, &v)
			got = fmt.Sprint(v.AddrPort)
		case "BroadcastAddr":
			var v types.BroadcastAddr
			err = json.Unmarshal(js, &v)
			got = fmt.Sprint(v.AddrPort)
		case "ListenAddr":
			var v types.ListenAddr
			err = json.Unmarshal(js, &v)
			got = fmt.Sprint(v.AddrPort)
		case "ControllerAddr":
			var v types.ControllerAddr
			err = json.Unmarshal(js, &v)
			got = fmt.Sprint(v.AddrPort)
		default:
			panic("HARNESS: unknown reject type " + c.Type)
		}
	})
	if p != nil {
		return rp.Failf(site+"/reject-panic", "decoding %q panicked: %v", c.Text, p)
	}
	if err == nil {
		return rp.Failf(site+"/accepts-out-of-domain", "out-of-domain text %q was accepted as %s", c.Text, got)
	}
	return nil
}

// held results: values decoded earlier must not change when later values are decoded (shared maps, pooled buffers)
type heldValue struct {
	what  string
	canon func() string
	was   string
}

var held []heldValue

func hold(what string, canon func() string) {
	if len(held) >= 32 {
		held = held[1:]
	}
	held = append(held, heldValue{what, canon, canon()})
}

func recheckHeld() *rp.Fail {
	for _, h := range held {
		if now := h.canon(); now != h.was {
			held = nil
			return rp.Failf("types/decoded-value-changed-later", "a %s decoded earlier changed when later values were decoded:\n  then: %s\n  now:  %s", h.what, h.was, now)
		}
	}
	return nil
}

func check(c jCase) *rp.Fail {
	if f := checkInner(c); f != nil {
		return f
	}
	return recheckHeld()
}

func checkInner(c jCase) *rp.Fail {
	class := "roundtrip/" + c.Type
	nt := true
	if c.Reject {
		class = "reject/" + c.Type
	} else if c.U == 0 && c.A.Y == 0 && c.HM[0] == (spec.HM{}) && c.Port == 0 {
		nt = c.Type == "Card" || c.Type == "TimeProfile" || c.Type == "Task"
	}
	ev.Case(class, nt, fmt.Sprintf("%+v", c))
	if c.Zone != "" && c.Zone != "UTC" {
		ev.Class("zone/non-utc", 1)
	}
	if c.Carrier != 0 && !c.Reject {
		ev.Class("date/wraps-a-time-of-day-in-another-location", 1)
	}
	if c.Type == "DateTime" && !c.Reject && c.A.Y != 0 {
		zones.With(zones.Loc(orUTC(c.Zone)), func() {
			if _, twice := otherOccurrence(time.Date(c.A.Y, time.Month(c.A.M), c.A.D, c.A.H, c.A.Mi, c.A.S, 0, time.Local)); twice {
				ev.Class("datetime/civil-time-occurs-twice", 1)
			}
		})
		if c.InUTC {
			ev.Class("datetime/utc-value-in-other-zone", 1)
		}
	}
	if ev.WantSample(class) {
		ev.Sample(class, c)
	}
	return decide(c)
}

var roundtripTypes = []string{"Date", "DateTime", "HHmm", "SystemTime", "PIN", "Card", "TimeProfile", "Weekdays", "Segments", "Task", "TaskType", "ControlState", "Version", "MacAddress", "CardFormat",
	"BindAddr", "BroadcastAddr", "ListenAddr", "ControllerAddr"}

// fixed zones as a host without a tz database entry has them: no abbreviation at all, or a numeric one
var fixedZones = []string{"Fixed//19800", "Fixed//0", "Fixed/+0530/19800", "Fixed/-03/-10800", "Fixed//-34200"}

func zoneList() []string {
	if ev.Thorough() {
		return append(append(append([]string(nil), zones.Names()...), zones.Synthetic), fixedZones...)
	}
	return append(append(zones.Spread(40), zones.Synthetic), fixedZones...)
}

func existingDay(t *rapid.T, loc *time.Location, label string) spec.Civil {
	for i := 0; i < 4; i++ {
		c := gen.Civil(t, label)
		if zones.DayExists(loc, c.Y, c.M, c.D) {
			return c
		}
	}
	return spec.Civil{Y: 2024, M: 6, D: 15}
}

func genCase(t *rapid.T) jCase {
	c := jCase{Type: rapid.SampledFrom(roundtripTypes).Draw(t, "type")}
	zl := zoneList()
	loc := time.UTC
	switch c.Type {
	case "Date", "DateTime", "Card", "TimeProfile", "Task":
		c.Zone = zl[rapid.IntRange(0, len(zl)-1).Draw(t, "zone")]
		loc = zones.Loc(c.Zone)
	}
	a := existingDay(t, loc, "a")
	if gaps := zones.MidnightGaps(orUTC(c.Zone), 1950, 2050); c.Type == "Date" && len(gaps) > 0 && rapid.IntRange(0, 3).Draw(t, "gapday") == 0 {
		g := gaps[rapid.IntRange(0, len(gaps)-1).Draw(t, "gap")]
		if zones.DayExists(loc, g.Y, g.M, g.D) {
			a = spec.Civil{Y: g.Y, M: g.M, D: g.D}
		}
	}
	c.A = spec.CivilDT{Y: a.Y, M: a.M, D: a.D}
	c.B = existingDay(t, loc, "b")
	switch c.Type {
	case "Date", "Card", "TimeProfile", "Task":
		if rapid.IntRange(0, 2).Draw(t, "carried") == 0 {
			c.Carrier = rapid.IntRange(1, 6).Draw(t, "carrier")
			c.Clock = [3]int{rapid.SampledFrom([]int{0, 0, 23, 12, 1, 11, 13, 22}).Draw(t, "carrier.h"), rapid.SampledFrom([]int{0, 59, 30}).Draw(t, "carrier.mi"), rapid.SampledFrom([]int{0, 59}).Draw(t, "carrier.s")}
		}
	}
	switch c.Type {
	case "Date":
		if rapid.IntRange(0, 9).Draw(t, "zero") == 0 {
			c.A = spec.CivilDT{}
		}
	case "DateTime":
		c.A.H, c.A.Mi, c.A.S = rapid.IntRange(0, 23).Draw(t, "h"), rapid.IntRange(0, 59).Draw(t, "mi"), rapid.IntRange(0, 59).Draw(t, "s")
		if !zones.CivilExists(loc, c.A.Y, c.A.M, c.A.D, c.A.H, c.A.Mi, c.A.S) {
			c.A.H = 12
			if !zones.CivilExists(loc, c.A.Y, c.A.M, c.A.D, c.A.H, c.A.Mi, c.A.S) {
				c.A = spec.CivilDT{Y: 2024, M: 6, D: 15, H: 12}
			}
		}
		if rapid.IntRange(0, 9).Draw(t, "zero") == 0 {
			c.A = spec.CivilDT{}
		}
		c.InUTC = rapid.IntRange(0, 5).Draw(t, "in.utc") == 0
		c.Later = rapid.Bool().Draw(t, "later")
		// steer a share of the cases into the hour that occurs twice when clocks are set back
		if trs := zones.Transitions(orUTC(c.Zone), 1970, 2040); len(trs) > 0 && rapid.IntRange(0, 3).Draw(t, "overlap") == 0 && c.A.Y != 0 {
			tr := trs[rapid.IntRange(0, len(trs)-1).Draw(t, "transition")]
			w := tr.In(loc).Add(time.Duration(rapid.IntRange(-3600, 3600).Draw(t, "offset.s")) * time.Second)
			c.A = spec.CivilDT{Y: w.Year(), M: int(w.Month()), D: w.Day(), H: w.Hour(), Mi: w.Minute(), S: w.Second()}
			c.InUTC = false
		}
	case "SystemTime":
		c.A.H, c.A.Mi, c.A.S = rapid.IntRange(0, 23).Draw(t, "h"), rapid.IntRange(0, 59).Draw(t, "mi"), rapid.IntRange(0, 59).Draw(t, "s")
	case "TimeProfile", "Task":
		if rapid.IntRange(0, 5).Draw(t, "zero-dates") == 0 {
			c.A, c.B = spec.CivilDT{}, spec.Civil{}
		}
	}
	for i := range c.HM {
		c.HM[i] = gen.HM(t, "hm")
	}
	switch c.Type {
	case "PIN":
		c.U = uint64(genPIN(t))
	case "Version":
		c.U = uint64(rapid.IntRange(0, 65535).Draw(t, "version"))
	case "Card":
		c.U = uint64(gen.U32(t, "card"))
		c.CardPIN = genPIN(t)
	}
	for i := range c.Doors {
		c.Doors[i] = gen.U8(t, "door")
	}
	c.DoorsNil = rapid.IntRange(0, 5).Draw(t, "doors.nil") == 0
	if rapid.IntRange(0, 2).Draw(t, "doors.partial") == 0 {
		c.DoorsMissing = uint8(rapid.IntRange(1, 15).Draw(t, "doors.missing"))
	}
	for i := range c.Week {
		c.Week[i] = rapid.Bool().Draw(t, "weekday")
	}
	c.WeekMode = rapid.IntRange(0, 2).Draw(t, "week.mode")
	for i := range c.N {
		c.N[i] = gen.U8(t, "n")
	}
	for i := range c.MAC {
		c.MAC[i] = rapid.Byte().Draw(t, "mac")
	}
	if rapid.IntRange(0, 5).Draw(t, "mac.special") == 0 {
		// the addresses that mean something: all zeroes (unset), broadcast, a multicast group, locally administered, ones that end or
		// start in zeroes
		c.MAC = rapid.SampledFrom([][6]byte{{}, {}, {0xff, 0xff, 0xff, 0xff, 0xff, 0xff}, {0x01, 0x00, 0x5e, 0, 0, 1}, {0x02, 0, 0, 0, 0, 0}, {0, 0, 0, 0, 0, 1}, {0x00, 0x66, 0x19, 0, 0, 0}}).Draw(t, "mac.value")
	}
	c.IP = gen.IPv4(t, "ip")
	c.Port = gen.Port(t, "port")
	switch c.Type {
	case "BindAddr":
		if rapid.IntRange(0, 2).Draw(t, "bind.port0") == 0 {
			c.Port = 0
		}
		if c.Port == 60000 {
			c.Port = 60001
		}
	case "ListenAddr":
		if c.Port == 60000 {
			c.Port = 60001
		}
	case "BroadcastAddr", "ControllerAddr":
		if rapid.IntRange(0, 2).Draw(t, "default.port") == 0 {
			c.Port = 60000
		}
	}
	return c
}

// genPIN draws a PIN 0..999999 with the ends of the range (and the digit-count boundaries) well represented
func genPIN(t *rapid.T) uint32 {
	switch rapid.IntRange(0, 3).Draw(t, "pin.kind") {
	case 0:
		return rapid.SampledFrom([]uint32{0, 1, 9, 10, 99999, 100000, 999998, 999999, 65535, 65536}).Draw(t, "pin.edge")
	case 1:
		if v := uint32(gen.DictInt(t, "pin", 999999)); true {
			return v
		}
	}
	return uint32(rapid.IntRange(0, 999999).Draw(t, "pin"))
}

func orUTC(z string) string {
	if z == "" {
		return "UTC"
	}
	return z
}

// the reject side: exactly the classes the statement lists
func rejectCases() []jCase {
	var out []jCase
	add := func(typ string, texts ...string) {
		for _, s := range texts {
			out = append(out, jCase{Type: typ, Reject: true, Text: s})
		}
	}
	var dates []string
	for _, y := range []int{1900, 2023, 2024, 2100} {
		for m := 0; m <= 13; m++ {
			for d := 0; d <= 32; d++ {
				if !spec.ValidDate(y, m, d) {
					dates = append(dates, fmt.Sprintf("%04d-%02d-%02d", y, m, d))
				}
			}
		}
	}
	add("Date", dates...)
	for _, d := range dates {
		if strings.HasSuffix(d, "-00") || strings.Contains(d, "-02-3") || strings.Contains(d, "-13-") || strings.Contains(d, "-00-1") || strings.HasSuffix(d, "-32") || strings.Contains(d, "-04-31") || strings.Contains(d, "-02-29") {
			add("DateTime", d+" 12:00:00", d+" 12:00:00 UTC")
		}
	}
	for _, tm := range []string{"24:00:00", "25:00:00", "99:00:00", "23:60:00", "23:99:00", "23:59:60", "23:59:99", "24:01:00"} {
		add("DateTime", "2024-02-29 "+tm, "2024-02-29 "+tm+" UTC")
		add("SystemTime", tm)
	}
	for h := 0; h <= 99; h++ {
		for m := 0; m <= 99; m++ {
			if !spec.ValidHM(h, m) && (h <= 26 || m <= 1 || h == 99) && (m <= 61 || m == 99 || h == 24) {
				add("HHmm", fmt.Sprintf("%02d:%02d", h, m))
			}
		}
	}
	add("PIN", "1000000", "0000000", "9999999", "12345678", "123456789012", "0000001", "99999999999999999999")
	// numbers that are congruent to an in-domain value modulo 2^8, 2^16, 2^32 or 2^64 (an unchecked accumulator wraps)
	for _, k := range []string{"1", "7", "13"} {
		kk, _ := new(big.Int).SetString(k, 10)
		for _, bits := range []uint{8, 16, 32, 64} {
			for _, m := range []int64{1, 3} {
				v := new(big.Int).Add(new(big.Int).Mul(big.NewInt(m), new(big.Int).Lsh(big.NewInt(1), bits)), kk)
				out = append(out, jCase{Type: "TaskType", Reject: true, Text: v.String(), U: 1})
				add("TaskType", v.String())
			}
		}
	}
	for _, bits := range []uint{32, 64} {
		v := new(big.Int).Add(new(big.Int).Lsh(big.NewInt(1), bits), big.NewInt(7531))
		add("PIN", v.String())
		out = append(out, jCase{Type: "PINNumber", Reject: true, Text: v.String()})
	}
	// digits of other scripts (they ARE digits to unicode.IsDigit, and short enough in bytes): no PIN, no date, no time of day
	add("PIN", "٣", "١٢٣", "1٠", "１２", "१२", "٠", "９", "12٣", "๑๒")
	add("HHmm", "١٢:٣٠", "12:٣0", "１２:３０")
	add("Date", "٢٠٢٤-٠١-٠١", "2024-0١-01")
	// PINs of more than six digits written as bare JSON numbers (whatever a decoder makes of in-range numbers, these are no PINs)
	for _, n := range []string{"1000000", "1234567", "98765432", "999999999", "4294967295", "4294967296", "10000000000"} {
		out = append(out, jCase{Type: "PINNumber", Reject: true, Text: n})
	}
	add("ControlState", "", "open", "locked", "normally-open", "Normally Open", "CONTROLLED", "unknown", "3", "normally  open", " controlled")
	for _, n := range []string{"0", "14", "15", "99", "256", "00", "1000000"} {
		out = append(out, jCase{Type: "TaskType", Reject: true, Text: n, U: 1})
	}
	add("TaskType", "", "bogus", "control", "door", "unlock", "lock the door", "enable", "trigger twice", "0", "14")
	for _, ip := range []string{"192.168.1.100", "0.0.0.0", "10.0.0.1"} {
		add("BindAddr", ip+":60000")
		add("BroadcastAddr", ip+":0")
		add("ListenAddr", ip, ip+":0", ip+":60000")
		add("ControllerAddr", ip+":0")
		// port numbers beyond 65535 are no port numbers - in particular not the one they are congruent to modulo 2^16 (60001, 1, 0
		// and the default port among them), however many digits they have
		for _, port := range []string{"65536", "65537", "70000", "99999", "125536", "125537", "131072", "655360", "4294967296", "4295027297", "18446744073709551617"} {
			for _, typ := range []string{"BindAddr", "BroadcastAddr", "ListenAddr", "ControllerAddr"} {
				add(typ, ip+":"+port)
			}
		}
	}
	return out
}

func sweep(yield func(jCase) bool) {
	for i, c := range rejectCases() {
		if ev.Mine(i) && !yield(c) {
			return
		}
	}
	// all in-domain values of the small types
	idx := 0
	for n := 0; n < 13; n++ {
		if ev.Mine(idx) && !yield(jCase{Type: "TaskType", N: [4]uint8{uint8(n)}}) {
			return
		}
		idx++
	}
	for n := 0; n < 3; n++ {
		if ev.Mine(idx) && !yield(jCase{Type: "ControlState", N: [4]uint8{uint8(n)}}) {
			return
		}
		idx++
	}
	for h := 0; h <= 24; h++ {
		for m := 0; m < 60; m++ {
			if spec.ValidHM(h, m) {
				if ev.Mine(idx) && !yield(jCase{Type: "HHmm", HM: [7]spec.HM{{H: h, M: m}}}) {
					return
				}
				idx++
			}
		}
	}
	// text forms must not depend on the date they are parsed on: every time of day (and the days of this week) in a zone
	// whose clock springs forward and falls back TODAY (and on every day of the current week)
	for h := 0; h < 24; h++ {
		for m := 0; m < 60; m++ {
			for _, sec := range []int{0, 59} {
				if ev.Mine(idx) && !yield(jCase{Type: "SystemTime", Zone: zones.Synthetic, A: spec.CivilDT{H: h, Mi: m, S: sec}}) {
					return
				}
				idx++
			}
			if ev.Mine(idx) && !yield(jCase{Type: "HHmm", Zone: zones.Synthetic, HM: [7]spec.HM{{H: h, M: m}}}) {
				return
			}
			idx++
		}
	}
	{
		now := time.Now().UTC()
		for d := -3; d <= 4; d++ {
			day := now.AddDate(0, 0, d)
			a := spec.CivilDT{Y: day.Year(), M: int(day.Month()), D: day.Day()}
			if ev.Mine(idx) && !yield(jCase{Type: "Date", Zone: zones.Synthetic, A: a, B: spec.Civil{Y: a.Y, M: a.M, D: a.D}}) {
				return
			}
			idx++
			for h := 0; h < 24; h++ {
				dt := a
				dt.H, dt.Mi, dt.S = h, 30, 15
				if h == 2 {
					continue // does not exist in this zone
				}
				for _, later := range []bool{false, true} {
					if ev.Mine(idx) && !yield(jCase{Type: "DateTime", Zone: zones.Synthetic, A: dt, B: spec.Civil{Y: a.Y, M: a.M, D: a.D}, Later: later}) {
						return
					}
					idx++
				}
			}
		}
	}
	// fresh nil maps: weekdays / segments, every weekday subset
	for mask := 0; mask < 128; mask++ {
		for mode := 0; mode < 3; mode++ {
			c := jCase{Type: "Weekdays", WeekMode: mode}
			for i := 0; i < 7; i++ {
				c.Week[i] = mask&(1<<i) != 0
			}
			if ev.Mine(idx) && !yield(c) {
				return
			}
			idx++
		}
	}
	// date-times in every zone of the list: one summer and one winter time (zone abbreviations)
	for _, z := range zoneList() {
		for _, a := range []spec.CivilDT{{Y: 2024, M: 1, D: 15, H: 12, Mi: 30, S: 45}, {Y: 2024, M: 7, D: 15, H: 12, Mi: 30, S: 45}, {Y: 1985, M: 4, D: 12, H: 8}, {Y: 2051, M: 11, D: 5, H: 23, Mi: 59, S: 59}} {
			if ev.Mine(idx) && !yield(jCase{Type: "DateTime", Zone: z, A: a}) {
				return
			}
			idx++
		}
	}
}

func props() []rp.Prop {
	return []rp.Prop{rp.P[jCase]{Name: "json", Checks: ev.Pick(60000, 15000000) / ev.Shards(), Gen: genCase, Sweep: sweep, Check: check}}
}

func TestC14(t *testing.T)    { rp.RunAll(t, append(props(), badProps()...)...) }
func TestReplay(t *testing.T) { rp.ReplayAll(t, append(props(), badProps()...)...) }
