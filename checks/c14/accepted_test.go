package c14

import (
	"encoding/json"
	"fmt"
	"reflect"
	"time"

	"pgregory.net/rapid"

	"github.com/uhppoted/uhppote-core/types"

	"verif/harness/ev"
	"verif/harness/rp"
)

// Whatever text a JSON decoder ACCEPTS has become a value of the type, and that value is then subject to the round-trip
// half of the property: its JSON encoding decodes to an equal value. A decoder that turns decorated text (fractional
// seconds, a 'T' separator, surplus blanks, numeric zones ...) into a value that its own encoding cannot reproduce has
// produced a value outside the type's domain instead of rejecting the text (or normalising it, which is what it does today).
type acceptedCase struct {
	Type string `json:"type"`
	Text string `json:"text"`
}

var decorations = []string{".789", ",5", ".000000001", ".999999999", ".5", ",999", ".0", ".000", ".123456789", ".1234567891", ". 5", ".-5"}

func genAccepted(t *rapid.T) acceptedCase {
	typ := rapid.SampledFrom([]string{"DateTime", "DateTime", "DateTime", "Date", "HHmm", "SystemTime"}).Draw(t, "type")
	s := validText(t, typ)
	switch typ {
	case "DateTime":
		body, zone := s[:19], s[19:]
		if rapid.IntRange(0, 3).Draw(t, "local.zone") == 0 {
			zone = " " + time.Now().Format("MST")
		}
		frac := ""
		if rapid.IntRange(0, 4).Draw(t, "decorated") != 0 {
			frac = rapid.SampledFrom(decorations).Draw(t, "fraction")
		}
		s = body + frac + zone
	default:
		if rapid.Bool().Draw(t, "decorated") {
			s += rapid.SampledFrom(decorations).Draw(t, "fraction")
		}
	}
	if rapid.IntRange(0, 5).Draw(t, "mutated") == 0 {
		s = mutateText(t, s)
	}
	return acceptedCase{typ, s}
}

func checkAccepted(c acceptedCase) *rp.Fail {
	js, _ := json.Marshal(c.Text)
	var fail *rp.Fail
	accepted := false
	p := try(func() {
		switch c.Type {
		case "DateTime":
			var v, v2 types.DateTime
			if json.Unmarshal(js, &v) != nil {
				return
			}
			accepted = true
			out, err := json.Marshal(v)
			if err != nil {
				fail = rp.Failf("types.DateTime/accepted-text/value-cannot-be-encoded", "%s was accepted, the value (%v) cannot be encoded: %v", js, time.Time(v), err)
				return
			}
			if err := json.Unmarshal(out, &v2); err != nil {
				fail = rp.Failf("types.DateTime/accepted-text/rejects-own-encoding", "%s was accepted; the JSON form of the value, %s, is rejected: %v", js, out, err)
				return
			}
			if ns := time.Time(v).Nanosecond(); ns != 0 && !time.Time(v2).Equal(time.Time(v)) {
				fail = rp.Failf("types.DateTime/accepted-text/value-outside-domain", "%s was accepted as a date-time with %d ns beyond the whole second: its JSON form %s decodes to a different value (%v vs %v)", js, ns, out, time.Time(v2).UTC(), time.Time(v).UTC())
				return
			}
			if disambiguated(time.Time(v)) && !time.Time(v2).Equal(time.Time(v)) && !time.Time(v).IsZero() {
				// (a text with a foreign abbreviation or a numeric offset yields a value in a fabricated zone whose encoding is
				// read in the process zone: only values in the process zone or UTC are required to keep their instant)
				if loc := time.Time(v).Location(); loc == time.Local || loc == time.UTC {
					fail = rp.Failf("types.DateTime/accepted-text/roundtrip-instant", "%s was accepted as %v; its JSON form %s decodes to another instant (%v)", js, time.Time(v), out, time.Time(v2))
				}
			}
		case "Date":
			var v, v2 types.Date
			if json.Unmarshal(js, &v) != nil {
				return
			}
			accepted = true
			out, _ := json.Marshal(v)
			if err := json.Unmarshal(out, &v2); err != nil || !reflect.DeepEqual(v, v2) && !time.Time(v).Equal(time.Time(v2)) {
				fail = rp.Failf("types.Date/accepted-text/value-outside-domain", "%s was accepted; the JSON form of the value, %s, decodes to a different value (%v vs %v, %v)", js, out, time.Time(v2), time.Time(v), err)
			}
		case "HHmm":
			var v, v2 types.HHmm
			if json.Unmarshal(js, &v) != nil {
				return
			}
			accepted = true
			out, _ := json.Marshal(v)
			if err := json.Unmarshal(out, &v2); err != nil || !reflect.DeepEqual(v, v2) {
				fail = rp.Failf("types.HHmm/accepted-text/value-outside-domain", "%s was accepted; the JSON form of the value, %s, decodes to a different value (%v)", js, out, err)
			}
		case "SystemTime":
			v, err := types.TimeFromString(c.Text)
			if err != nil || v == nil {
				return
			}
			accepted = true
			v2, err := types.TimeFromString(v.String())
			// (nothing in the library says that a system time is a whole number of seconds - DateTime, by contrast, truncates
			// explicitly - so a fraction that is carried along invisibly is not judged: the text forms must agree)
			if err != nil || v2 == nil || v2.String() != v.String() {
				fail = rp.Failf("types.SystemTime/accepted-text/value-outside-domain", "%q was accepted as %v; its own text %q reads as a different value (%v, %v)", c.Text, time.Time(*v), v.String(), v2, err)
			}
		}
	})
	if p != nil {
		return rp.Failf("types."+c.Type+"/panic-on-bad-text", "decoding %s panicked: %v", js, p)
	}
	class := fmt.Sprintf("accepted-text/%s/%s", c.Type, map[bool]string{true: "accepted", false: "rejected"}[accepted])
	ev.Case(class, accepted, c.Type+c.Text)
	if ev.WantSample(class) {
		ev.Sample(class, c)
	}
	return fail
}

func sweepAccepted(yield func(acceptedCase) bool) {
	idx := 0
	for _, body := range []string{"2021-02-28 12:34:56", "2024-02-29 23:59:59", "1999-12-31 00:00:00"} {
		for _, zone := range []string{"", " UTC", " " + time.Now().Format("MST"), " +0330"} {
			for _, d := range append([]string{""}, decorations...) {
				idx++
				if ev.Mine(idx) && !yield(acceptedCase{"DateTime", body + d + zone}) {
					return
				}
			}
		}
	}
	for _, d := range decorations {
		for _, c := range []acceptedCase{{"Date", "2024-02-29" + d}, {"HHmm", "12:30" + d}, {"SystemTime", "12:30:45" + d}} {
			idx++
			if ev.Mine(idx) && !yield(c) {
				return
			}
		}
	}
}
