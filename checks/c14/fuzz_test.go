package c14

import (
	"os"
	"strings"
	"testing"
)

// FuzzText (thorough tier): coverage-guided search over the texts handed to every parser. Oracle: the ordinary malformed-text
// rule (no panic; a text without a digit or a known name never becomes a value) plus idempotence of acceptance: whatever
// text a parser accepts, the text form of the value it produced is accepted too and yields the same text again - a parser
// that reads one text as the value of another without being able to read its own output has produced a different value.
func FuzzText(f *testing.F) {
	if os.Getenv("VERIF_FUZZ") == "" {
		f.Skip("native fuzzing runs in the thorough tier only")
	}
	seeds := map[string][]string{
		"Date": {"2024-02-29", "", "2023-02-29", "0001-01-01"}, "DateTime": {"2024-06-01 12:34:56 UTC", "2024-06-01 12:34:56", "2024-06-01 24:00:00 +0330", "2024-06-01 12:34:56.789 UTC", "2024-06-01 12:34:56,5", "0001-01-01 0:00:00 +0030", "0001-01-02 00:00:00 +0030"},
		"HHmm": {"08:30", "24:00", "23:60"}, "SystemTime": {"23:59:59"}, "PIN": {"0", "999999", "1000000"}, "ControlState": {"normally open", "controlled"},
		"TaskType": {"control door", "13", "0"}, "CardFormat": {"any", "Wiegand-26"}, "Version": {"v8.92", "0892"}, "MacAddress": {"00:66:19:39:55:2d"},
		"BindAddr": {"0.0.0.0:0", "192.168.1.100:60001"}, "BroadcastAddr": {"255.255.255.255:60000"}, "ListenAddr": {"0.0.0.0:60001"}, "ControllerAddr": {"192.168.1.100:60000"},
	}
	for i, typ := range scalarTypes {
		for _, s := range seeds[typ] {
			f.Add(uint8(i), s, false)
		}
	}
	for i := range structuredTypes {
		f.Add(uint8(len(scalarTypes)+i), `{"card-number":8165538,"start-date":"2024-01-01","end-date":"2024-12-31","doors":{"1":1,"2":0,"3":29,"4":0},"PIN":7531}`, true)
		f.Add(uint8(len(scalarTypes)+i), `{"id":29,"start-date":"2024-01-01","end-date":"2024-12-31","weekdays":"Monday,Friday","segments":[{"start":"08:30","end":"17:00"}],"linked-profile-id":3}`, true)
		f.Add(uint8(len(scalarTypes)+i), `"Monday,Tuesday"`, true)
	}
	all := append(append([]string(nil), scalarTypes...), structuredTypes...)
	f.Fuzz(func(t *testing.T, typIx uint8, text string, raw bool) {
		typ := all[int(typIx)%len(all)]
		if int(typIx)%len(all) >= len(scalarTypes) {
			raw = true
		}
		if x := checkBad(badCase{Type: typ, Text: text, Raw: raw}); x != nil {
			t.Fatalf("[%s] %s", x.Fingerprint, x.Msg)
		}
		if raw {
			return
		}
		switch typ {
		case "DateTime", "Date", "HHmm", "SystemTime":
			// ... and at the level of values: an accepted text has become a value that survives its own JSON form
			if x := checkAccepted(acceptedCase{typ, text}); x != nil {
				t.Fatalf("[%s] %s", x.Fingerprint, x.Msg)
			}
		}
		for _, as := range []string{typ, map[string]string{"Date": "ParseDate", "HHmm": "HHmmFromString"}[typ]} {
			if as == "" {
				continue
			}
			got, err, pnc := parseAs(as, text)
			if pnc != nil {
				t.Fatalf("[%s/panic] parsing %q panicked: %v", as, text, pnc)
			}
			if err != nil || got == "" {
				continue
			}
			if strings.HasPrefix(got, "0001-01-01") || strings.HasPrefix(got, "0000-") || strings.HasPrefix(got, "-") {
				// (a value on the first day of the year 1, read in some zone, may BE the zero instant when its text is read in the
				// process zone - the library's 'no value', which prints as the empty string: section 3 rule 1 places these outside the
				// judged domain)
				continue
			}
			again, err2, pnc2 := parseAs(as, got)
			if pnc2 != nil || err2 != nil || again != got {
				t.Fatalf("[%s/own-text-not-accepted] %q was accepted as %q, but %q itself reads as %q (%v %v)", as, text, got, got, again, err2, pnc2)
			}
		}
	})
}
