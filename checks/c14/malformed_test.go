package c14

import (
	"encoding/json"
	"fmt"
	"net/netip"
	"strings"
	"time"
	"unicode"

	"github.com/uhppoted/uhppote-core/types"
	"pgregory.net/rapid"

	"verif/harness/collide"
	"verif/harness/ev"
	"verif/harness/gen"
	"verif/harness/rp"
	"verif/harness/spec"
)

// Bad text is rejected - whatever it looks like. A text parser (ParseDate, HHmmFromString, TimeFromString, UnmarshalTSV,
// CardFormatFromString, every UnmarshalJSON) that is handed a string that is not of its type's form, or a JSON value of
// the wrong shape, returns an error: it does not panic, and a text without a single digit or known name never becomes a
// value. Texts that merely deviate from the documented layout (one-digit hours, surrounding blanks ...) may be accepted
// or rejected; they are only required not to crash the parser.
type badCase struct {
	Type string `json:"type"`
	Text string `json:"text"` // for scalar types: the text; for structured types: the complete JSON document
	Raw  bool   `json:"raw"`  // Text is a JSON document (not a string to be quoted)
	// MustReject: the document differs from a valid one in exactly one way that the statement names - an impossible date, a
	// time beyond 24:00 or with minutes above 59 in one of its fields, or (for the types whose JSON form is a string) a JSON
	// value that is no string at all
	MustReject string `json:"must_reject,omitempty"`
}

var stringFormed = map[string]bool{"Date": true, "DateTime": true, "HHmm": true, "ControlState": true, "Version": true, "MacAddress": true, "BindAddr": true, "BroadcastAddr": true, "ListenAddr": true, "ControllerAddr": true}

var scalarTypes = []string{"Date", "DateTime", "HHmm", "SystemTime", "PIN", "ControlState", "TaskType", "CardFormat", "Version", "MacAddress", "BindAddr", "BroadcastAddr", "ListenAddr", "ControllerAddr"}
var structuredTypes = []string{"Card", "TimeProfile", "Task", "Weekdays", "Segments", "Segment"}

func validText(t *rapid.T, typ string) string {
	switch typ {
	case "Date":
		return fmt.Sprintf("%04d-%02d-%02d", rapid.IntRange(2, 9999).Draw(t, "y"), rapid.IntRange(1, 12).Draw(t, "m"), rapid.IntRange(1, 28).Draw(t, "d"))
	case "DateTime":
		return fmt.Sprintf("%04d-%02d-%02d %02d:%02d:%02d%s", rapid.IntRange(2, 9999).Draw(t, "y"), rapid.IntRange(1, 12).Draw(t, "m"), rapid.IntRange(1, 28).Draw(t, "d"),
			rapid.IntRange(0, 23).Draw(t, "h"), rapid.IntRange(0, 59).Draw(t, "mi"), rapid.IntRange(0, 59).Draw(t, "s"), rapid.SampledFrom([]string{"", " UTC", " PDT", " +0330", " CEST"}).Draw(t, "zone"))
	case "HHmm":
		return fmt.Sprintf("%02d:%02d", rapid.IntRange(0, 23).Draw(t, "h"), rapid.IntRange(0, 59).Draw(t, "mi"))
	case "SystemTime":
		return fmt.Sprintf("%02d:%02d:%02d", rapid.IntRange(0, 23).Draw(t, "h"), rapid.IntRange(0, 59).Draw(t, "mi"), rapid.IntRange(0, 59).Draw(t, "s"))
	case "PIN":
		return fmt.Sprintf("%d", rapid.IntRange(0, 999999).Draw(t, "pin"))
	case "ControlState":
		return rapid.SampledFrom([]string{"normally open", "normally closed", "controlled"}).Draw(t, "state")
	case "TaskType":
		return rapid.SampledFrom([]string{"control door", "unlock door", "lock door", "disable time profile", "enable time profile", "enable card, no password", "enable card+IN password",
			"enable card+password", "enable more cards", "disable more cards", "trigger once", "disable pushbutton", "enable pushbutton", "1", "7", "13"}).Draw(t, "task")
	case "CardFormat":
		return rapid.SampledFrom([]string{"any", "Wiegand-26", "wiegand-26"}).Draw(t, "format")
	case "Version":
		return fmt.Sprintf("v%d.%02d", rapid.IntRange(0, 9).Draw(t, "major"), rapid.IntRange(0, 99).Draw(t, "minor"))
	case "MacAddress":
		return fmt.Sprintf("%02x:%02x:%02x:%02x:%02x:%02x", rapid.Byte().Draw(t, "a"), rapid.Byte().Draw(t, "b"), rapid.Byte().Draw(t, "c"), rapid.Byte().Draw(t, "d"), rapid.Byte().Draw(t, "e"), rapid.Byte().Draw(t, "f"))
	}
	return fmt.Sprintf("%d.%d.%d.%d:%d", rapid.IntRange(1, 254).Draw(t, "a"), rapid.IntRange(0, 255).Draw(t, "b"), rapid.IntRange(0, 255).Draw(t, "c"), rapid.IntRange(1, 254).Draw(t, "d"), rapid.IntRange(1, 59999).Draw(t, "port"))
}

var hostile = []string{":", ";", "<", "=", ">", "?", "@", "A", "B", "I", "/", ".", "*", "", " ", "\t", "\x00", "-", "+", ":", ".", "/", "T", "Z", "x", "é", "٣", "１", "\u200b", "\"", "\\", "{", "[", "null", "9", "99", "0", "00", "-1", "1e3", "0x10", "१२"}

func mutateText(t *rapid.T, s string) string {
	n := rapid.IntRange(1, 3).Draw(t, "mutations")
	for i := 0; i < n; i++ {
		r := []rune(s)
		pos := 0
		if len(r) > 0 {
			pos = rapid.IntRange(0, len(r)).Draw(t, "pos")
		}
		ins := []rune(rapid.SampledFrom(hostile).Draw(t, "ins"))
		if rapid.IntRange(0, 7).Draw(t, "ins.dict") == 0 {
			ins = []rune(gen.DictString(t, "ins")) // a string literal from the library's own source
		}
		switch rapid.IntRange(0, 6).Draw(t, "kind") {
		case 0: // insert
			r = append(r[:pos:pos], append(ins, r[pos:]...)...)
		case 1: // delete one
			if pos < len(r) {
				r = append(r[:pos:pos], r[pos+1:]...)
			}
		case 2: // replace one
			if pos < len(r) {
				r = append(r[:pos:pos], append(ins, r[pos+1:]...)...)
			}
		case 3: // truncate
			r = r[:pos]
		case 4: // drop the head
			r = r[pos:]
		case 5: // duplicate the tail
			r = append(r, r[pos:]...)
		default: // replace every separator
			s2 := strings.NewReplacer(":", string(ins), "-", string(ins), ".", string(ins)).Replace(string(r))
			r = []rune(s2)
		}
		s = string(r)
	}
	return s
}

func genBad(t *rapid.T) badCase {
	if rapid.IntRange(0, 2).Draw(t, "structured") == 0 {
		return genBadStructured(t)
	}
	typ := rapid.SampledFrom(scalarTypes).Draw(t, "type")
	c := badCase{Type: typ}
	switch rapid.IntRange(0, 5).Draw(t, "source") {
	case 0: // arbitrary short string
		c.Text = rapid.StringN(0, 12, 40).Draw(t, "text")
	case 1: // a JSON value of another shape
		c.Raw = true
		c.Text = rapid.SampledFrom([]string{"null", "true", "0", "-1", "12.5", "1e400", "[]", "{}", "[\"10:30\"]", "{\"a\":1}", "\"\"", "99999999999999999999999", "\"\\u0000\"", "[1,2,3]", "\"\\ud800\"", "false", "5", "20230220", "1030"}).Draw(t, "json")
		if first := c.Text[0]; stringFormed[typ] && first != 'n' && first != '"' {
			c.MustReject = "a JSON value that is not a string"
		} else if typ == "PIN" && (first == 't' || first == 'f' || first == '[' || first == '{' || first == '-' || c.Text == "12.5") {
			c.MustReject = "a JSON value that is neither a string of digits nor a non-negative integer"
		}
	default:
		c.Text = mutateText(t, validText(t, typ))
	}
	if typ == "TaskType" && rapid.IntRange(0, 3).Draw(t, "fraction") == 0 {
		// a JSON number that is no whole number, next to a valid code: there is no task type 2.5 (truncating or rounding it
		// would produce a different, valid value)
		k := rapid.IntRange(1, 13).Draw(t, "code")
		c.Raw, c.MustReject = true, "a JSON number that is not a whole number"
		c.Text = []string{fmt.Sprintf("%d.5", k), fmt.Sprintf("%d.999", k), fmt.Sprintf("%d.0000001", k), fmt.Sprintf("0.%d5e1", k%10), fmt.Sprintf("%d.25", k), fmt.Sprintf("%d5e-1", k)}[rapid.IntRange(0, 5).Draw(t, "fraction.form")]
	}
	return c
}

// structured types: a valid document with one leaf replaced by a value of another shape or a mutated text
func genBadStructured(t *rapid.T) badCase {
	typ := rapid.SampledFrom(structuredTypes).Draw(t, "type")
	var v any
	d1, d2 := types.ToDate(2024, time.January, 1+rapid.IntRange(0, 27).Draw(t, "d1")), types.ToDate(2025, time.December, 1+rapid.IntRange(0, 27).Draw(t, "d2"))
	seg := types.Segment{Start: types.NewHHmm(8, 30), End: types.NewHHmm(17, 45)}
	segs := types.Segments{1: seg, 2: {Start: types.NewHHmm(0, 0), End: types.NewHHmm(24, 0)}, 3: {}}
	week := types.Weekdays{time.Monday: true, time.Tuesday: false, time.Wednesday: true, time.Thursday: true, time.Friday: false, time.Saturday: true, time.Sunday: false}
	switch typ {
	case "Card":
		v = types.Card{CardNumber: 8165538, From: d1, To: d2, Doors: map[uint8]uint8{1: 1, 2: 0, 3: 29, 4: 1}, PIN: 7531}
	case "TimeProfile":
		v = types.TimeProfile{ID: 29, LinkedProfileID: 3, From: d1, To: d2, Weekdays: week, Segments: segs}
	case "Task":
		v = types.Task{Task: types.EnableTimeProfile, Door: 3, From: d1, To: d2, Weekdays: week, Start: types.NewHHmm(8, 30), Cards: 13}
	case "Weekdays":
		v = week
	case "Segments":
		v = segs
	default:
		v = seg
	}
	js, err := json.Marshal(v)
	if err != nil {
		return badCase{Type: typ, Raw: true, Text: "{}"}
	}
	var doc any
	json.Unmarshal(js, &doc)
	// collect paths to leaves
	type leaf struct {
		set func(any)
		val any
	}
	var leaves []leaf
	var walk func(node any, set func(any))
	walk = func(node any, set func(any)) {
		switch x := node.(type) {
		case map[string]any:
			for _, k := range sortedKeys(x) {
				k := k
				walk(x[k], func(nv any) { x[k] = nv })
			}
			leaves = append(leaves, leaf{set, node})
		case []any:
			for i := range x {
				i := i
				walk(x[i], func(nv any) { x[i] = nv })
			}
			leaves = append(leaves, leaf{set, node})
		default:
			leaves = append(leaves, leaf{set, node})
		}
	}
	root := doc
	walk(doc, func(nv any) { root = nv })
	l := leaves[rapid.IntRange(0, len(leaves)-1).Draw(t, "leaf")]
	var nv any
	mustReject := ""
	if s, ok := l.val.(string); ok && rapid.Bool().Draw(t, "listed.reject") {
		// the leaf is a date or a time of day: replace it by a text that the statement lists as outside the domain
		isDate := len(s) == 10 && s[4] == '-' && s[7] == '-'
		isTime := len(s) == 5 && s[2] == ':'
		if isDate {
			l.set(rapid.SampledFrom([]string{"2023-02-30", "2023-13-01", "2023-00-10", "2023-04-31", "2023-06-00", "2100-02-29", "2023-02-29"}).Draw(t, "bad.date"))
			mustReject = "an impossible date in a date field"
		} else if isTime {
			l.set(rapid.SampledFrom([]string{"24:01", "23:60", "25:00", "12:99", "99:00", "24:30"}).Draw(t, "bad.time"))
			mustReject = "a time beyond 24:00 or with minutes above 59 in a time field"
		}
		if mustReject != "" {
			out, _ := json.Marshal(root)
			return badCase{Type: typ, Raw: true, Text: string(out), MustReject: mustReject}
		}
	}
	if str, ok := l.val.(string); ok && strings.Contains(str, "day") && rapid.IntRange(0, 2).Draw(t, "day.tokens") == 0 {
		// a list of weekday names written the way people write them: ranges in either direction, other separators, abbreviations
		days := []string{"Monday", "Tuesday", "Wednesday", "Thursday", "Friday", "Saturday", "Sunday"}
		a, b := days[rapid.IntRange(0, 6).Draw(t, "day.a")], days[rapid.IntRange(0, 6).Draw(t, "day.b")]
		sep := rapid.SampledFrom([]string{"-", "-", "..", " to ", "/", "–", ":", "+"}).Draw(t, "day.sep")
		tok := a + sep + b
		switch rapid.IntRange(0, 4).Draw(t, "day.form") {
		case 0:
			tok = strings.ToLower(tok)
		case 1:
			tok = a[:3] + sep + b[:3]
		case 2:
			tok = "Monday," + tok + ",Sunday"
		case 3:
			tok = tok + "," + tok
		}
		l.set(tok)
		out, _ := json.Marshal(root)
		return badCase{Type: typ, Raw: true, Text: string(out)}
	}
	switch rapid.IntRange(0, 3).Draw(t, "replacement") {
	case 0:
		nv = rapid.SampledFrom([]any{nil, true, 0.0, -1.0, 1e10, 12.5, "", "x", []any{}, map[string]any{}, []any{1.0, "a"}, map[string]any{"start": 5.0}, "24:01", "2023-02-30", "99", 256.0, 1000000.0, 4294967296.0}).Draw(t, "value")
	case 1:
		if s, ok := l.val.(string); ok {
			nv = mutateText(t, s)
		} else {
			nv = fmt.Sprint(l.val)
		}
	case 2:
		if f, ok := l.val.(float64); ok {
			nv = []any{-f, f + 0.5, f * 1e6, -1.0}[rapid.IntRange(0, 3).Draw(t, "num")]
		} else {
			nv = 7.0
		}
	default:
		nv = []any{l.val}
	}
	l.set(nv)
	out, err := json.Marshal(root)
	if err != nil {
		out = []byte("{}")
	}
	return badCase{Type: typ, Raw: true, Text: string(out)}
}

func sortedKeys(m map[string]any) []string {
	ks := make([]string, 0, len(m))
	for k := range m {
		ks = append(ks, k)
	}
	for i := range ks {
		for j := i + 1; j < len(ks); j++ {
			if ks[j] < ks[i] {
				ks[i], ks[j] = ks[j], ks[i]
			}
		}
	}
	return ks
}

func hasDigitOrName(s string) bool {
	for _, r := range s {
		if unicode.IsDigit(r) || unicode.IsLetter(r) {
			return true
		}
	}
	return false
}

func checkBad(c badCase) *rp.Fail {
	ev.Case("malformed/"+c.Type, true, c.Type+"|"+c.Text)
	if ev.WantSample("malformed/" + c.Type) {
		ev.Sample("malformed/"+c.Type, c)
	}
	js := []byte(c.Text)
	if !c.Raw {
		js, _ = json.Marshal(c.Text)
	}
	type attempt struct {
		site string
		err  error
		got  string
	}
	var attempts []attempt
	add := func(site string, err error, got any) {
		attempts = append(attempts, attempt{site, err, fmt.Sprint(got)})
	}
	site := "types." + c.Type
	p := try(func() {
		switch c.Type {
		case "Date":
			var v types.Date
			add(site+".UnmarshalJSON", json.Unmarshal(js, &v), v)
			if !c.Raw {
				x, err := types.ParseDate(c.Text)
				add("types.ParseDate", err, x)
			}
		case "DateTime":
			var v types.DateTime
			add(site+".UnmarshalJSON", json.Unmarshal(js, &v), v)
		case "HHmm":
			var v types.HHmm
			add(site+".UnmarshalJSON", json.Unmarshal(js, &v), v)
			if !c.Raw {
				x, err := types.HHmmFromString(c.Text)
				add("types.HHmmFromString", err, x)
			}
		case "SystemTime":
			if !c.Raw {
				x, err := types.TimeFromString(c.Text)
				add("types.TimeFromString", err, x)
			}
		case "PIN":
			var v types.PIN
			add(site+".UnmarshalJSON", json.Unmarshal(js, &v), v)
		case "ControlState":
			var v types.ControlState
			add(site+".UnmarshalJSON", json.Unmarshal(js, &v), int(v))
		case "TaskType":
			var v types.TaskType
			add(site+".UnmarshalJSON", json.Unmarshal(js, &v), int(v))
			if !c.Raw {
				x, err := v.UnmarshalTSV(c.Text)
				add(site+".UnmarshalTSV", err, x)
			}
		case "CardFormat":
			if !c.Raw {
				x, err := types.CardFormatFromString(c.Text)
				add("types.CardFormatFromString", err, x)
			}
			var v types.CardFormat
			add(site+".UnmarshalJSON", json.Unmarshal(js, &v), int(v))
		case "Version":
			var v types.Version
			add(site+".UnmarshalJSON", json.Unmarshal(js, &v), v)
		case "MacAddress":
			var v types.MacAddress
			add(site+".UnmarshalJSON", json.Unmarshal(js, &v), v)
		case "BindAddr":
			var v types.BindAddr
			add(site+".UnmarshalJSON", json.Unmarshal(js, &v), netip.AddrPort(v.AddrPort))
		case "BroadcastAddr":
			var v types.BroadcastAddr
			add(site+".UnmarshalJSON", json.Unmarshal(js, &v), netip.AddrPort(v.AddrPort))
		case "ListenAddr":
			var v types.ListenAddr
			add(site+".UnmarshalJSON", json.Unmarshal(js, &v), netip.AddrPort(v.AddrPort))
		case "ControllerAddr":
			var v types.ControllerAddr
			add(site+".UnmarshalJSON", json.Unmarshal(js, &v), netip.AddrPort(v.AddrPort))
		case "Card":
			var v types.Card
			add(site+".UnmarshalJSON", json.Unmarshal(js, &v), "")
		case "TimeProfile":
			var v types.TimeProfile
			add(site+".UnmarshalJSON", json.Unmarshal(js, &v), "")
		case "Task":
			var v types.Task
			add(site+".UnmarshalJSON", json.Unmarshal(js, &v), "")
		case "Weekdays":
			var v types.Weekdays
			add(site+".UnmarshalJSON", json.Unmarshal(js, &v), "")
		case "Segments":
			var v types.Segments
			add(site+".UnmarshalJSON", json.Unmarshal(js, &v), "")
		case "Segment":
			var v types.Segment
			add(site+".UnmarshalJSON", json.Unmarshal(js, &v), "")
		}
	})
	if p != nil {
		return rp.Failf(site+"/panic-on-bad-text", "parsing %s text %q panicked: %v", c.Type, c.Text, p)
	}
	if c.MustReject != "" {
		ev.Class("malformed/must-reject/"+c.MustReject, 1)
		for _, a := range attempts {
			if a.err == nil && strings.HasSuffix(a.site, "UnmarshalJSON") {
				return rp.Failf(a.site+"/accepts-out-of-domain", "%s accepted %s (%s)", a.site, c.Text, c.MustReject)
			}
		}
	}
	// a text without a single digit or letter is no value of any of these types
	// (the empty text is the JSON form of 'no date' / 'no value' for several types and is not judged)
	if !c.Raw && !hasDigitOrName(c.Text) && c.Type != "CardFormat" && strings.TrimSpace(c.Text) != "" {
		for _, a := range attempts {
			if a.err == nil {
				return rp.Failf(a.site+"/accepts-out-of-domain", "%s accepted the text %q (as %s)", a.site, c.Text, a.got)
			}
		}
	}
	return nil
}

func badProps() []rp.Prop {
	return []rp.Prop{
		rp.P[badCase]{Name: "malformed", Checks: ev.Pick(60000, 6000000) / ev.Shards(), Gen: genBad, Sweep: sweepLeaves, Check: checkBad},
		rp.P[aliasCase]{Name: "carry-alias", Checks: ev.Pick(20000, 2000000) / ev.Shards(), Gen: genAlias, Sweep: sweepAliases, Check: checkAlias},
		rp.P[textPair]{Name: "colliding-pairs", Sweep: sweepTextPairs, Check: checkTextPair},
		rp.P[concCase]{Name: "concurrent-dates", Checks: ev.Pick(80, 8000) / ev.Shards(), Gen: genConc, Sweep: sweepConc, Check: checkConc},
		rp.P[acceptedCase]{Name: "accepted-text", Checks: ev.Pick(20000, 2000000) / ev.Shards(), Gen: genAccepted, Sweep: sweepAccepted, Check: checkAccepted},
	}
}

// carry aliases: a cache keyed on digits packed without validating them ('key = key<<4 + c-'0”, 'key = key*10 + c-'0”)
// maps "2023-02-1@" (or "2023-02-1:") to the key of "2023-02-20". The valid text is parsed first (so that it is in any
// cache), then the alias - a text with a non-digit where a digit belongs, which must be rejected - then the valid text again.
type aliasCase struct {
	Type  string `json:"type"`
	Valid string `json:"valid"`
	Alias string `json:"alias"`
}

func aliasesOf(valid string) []string {
	var out []string
	b := []byte(valid)
	isD := func(c byte) bool { return c >= '0' && c <= '9' }
	for i := 0; i+1 < len(b); i++ {
		// the next digit position after i (separators in between are skipped by such packers)
		j := i + 1
		for j < len(b) && !isD(b[j]) {
			j++
		}
		if !isD(b[i]) || j >= len(b) || b[i] == '0' {
			continue
		}
		for _, base := range []byte{16, 10} {
			a := append([]byte(nil), b...)
			a[i]--
			a[j] += base
			out = append(out, string(a))
		}
	}
	// and the other direction: digit+1, next digit 'minus base' (characters below '0')
	for i := 0; i+1 < len(b); i++ {
		j := i + 1
		for j < len(b) && !isD(b[j]) {
			j++
		}
		if !isD(b[i]) || j >= len(b) || b[i] == '9' {
			continue
		}
		for _, base := range []byte{16, 10} {
			a := append([]byte(nil), b...)
			a[i]++
			a[j] -= base
			out = append(out, string(a))
		}
	}
	return out
}

func parseAs(typ, text string) (got string, err error, pnc any) {
	js, _ := json.Marshal(text)
	pnc = try(func() {
		switch typ {
		case "Date":
			var v types.Date
			if err = json.Unmarshal(js, &v); err == nil {
				got = v.String()
			}
		case "ParseDate":
			var v types.Date
			if v, err = types.ParseDate(text); err == nil {
				got = v.String()
			}
		case "DateTime":
			var v types.DateTime
			if err = json.Unmarshal(js, &v); err == nil {
				got = v.String()
			}
		case "HHmm":
			var v types.HHmm
			if err = json.Unmarshal(js, &v); err == nil {
				got = v.String()
			}
		case "HHmmFromString":
			var v *types.HHmm
			if v, err = types.HHmmFromString(text); err == nil {
				got = v.String()
			}
		case "SystemTime":
			var v *types.SystemTime
			if v, err = types.TimeFromString(text); err == nil {
				got = v.String()
			}
		case "PIN":
			var v types.PIN
			if err = json.Unmarshal(js, &v); err == nil {
				got = fmt.Sprint(uint32(v))
			}
		case "Card":
			var v types.Card
			doc := fmt.Sprintf(`{"card-number":8165538,"start-date":%s,"end-date":"2099-12-31","doors":{"1":1,"2":0,"3":0,"4":0}}`, js)
			if err = json.Unmarshal([]byte(doc), &v); err == nil {
				got = v.From.String()
			}
		}
	})
	return
}

func checkAlias(c aliasCase) *rp.Fail {
	ev.Case("carry-alias/"+c.Type, true, c.Type+c.Valid+c.Alias)
	if ev.WantSample("carry-alias/" + c.Type) {
		ev.Sample("carry-alias/"+c.Type, c)
	}
	want := c.Valid
	if c.Type == "PIN" {
		want = strings.TrimLeft(c.Valid, "0")
		if want == "" {
			want = "0"
		}
	}
	for step, text := range []string{c.Valid, c.Alias, c.Valid} {
		got, err, p := parseAs(c.Type, text)
		if p != nil {
			return rp.Failf("types."+c.Type+"/panic-on-bad-text", "parsing %q panicked: %v", text, p)
		}
		if step == 1 {
			// a blank, a sign or a point where a digit belongs is a layout deviation that a lenient parser may read as a number
			// (" 1" for "01"): such aliases are only required not to disturb the parser; every other non-digit must be rejected
			lenient := false
			for i := 0; i < len(text) && i < len(c.Valid); i++ {
				if text[i] != c.Valid[i] && strings.ContainsRune(" +-.", rune(text[i])) {
					lenient = true
				}
			}
			if err == nil && !lenient {
				return rp.Failf("types."+c.Type+"/accepts-out-of-domain", "%q (a non-digit where a digit belongs) was accepted as %s right after %q had been parsed", text, got, c.Valid)
			}
			continue
		}
		if err != nil || !strings.HasPrefix(got, want) {
			return rp.Failf("types."+c.Type+"/roundtrip", "step %d: %q parsed as %q, %v (sequence: valid text, carry alias %q, valid text)", step, text, got, err, c.Alias)
		}
	}
	return nil
}

func sweepAliases(yield func(aliasCase) bool) {
	idx := 0
	emit := func(typ, valid string) bool {
		for _, a := range aliasesOf(valid) {
			idx++
			if ev.Mine(idx) && !yield(aliasCase{typ, valid, a}) {
				return false
			}
		}
		return true
	}
	for _, d := range []string{"2023-02-20", "2024-10-31", "2030-06-15", "1999-12-31", "2000-01-01", "2024-02-29", "2021-11-20", "2010-10-10"} {
		for _, typ := range []string{"Date", "ParseDate", "Card"} {
			if !emit(typ, d) {
				return
			}
		}
		if !emit("DateTime", d+" 12:30:45") {
			return
		}
	}
	for _, tm := range []string{"08:30", "12:20", "23:59", "10:10", "20:00"} {
		for _, typ := range []string{"HHmm", "HHmmFromString"} {
			if !emit(typ, tm) {
				return
			}
		}
		if !emit("SystemTime", tm+":20") {
			return
		}
	}
	for _, pin := range []string{"7531", "120000", "999999", "102030"} {
		if !emit("PIN", pin) {
			return
		}
	}
}

func genAlias(t *rapid.T) aliasCase {
	typ := rapid.SampledFrom([]string{"Date", "ParseDate", "Card", "DateTime", "HHmm", "HHmmFromString", "SystemTime", "PIN"}).Draw(t, "type")
	base := map[string]string{"ParseDate": "Date", "Card": "Date", "HHmmFromString": "HHmm"}[typ]
	if base == "" {
		base = typ
	}
	valid := validText(t, base)
	if typ == "DateTime" {
		valid = valid[:19]
	}
	as := aliasesOf(valid)
	if len(as) == 0 {
		valid = map[string]string{"Date": "2023-02-20", "DateTime": "2023-02-20 12:30:45", "HHmm": "12:20", "SystemTime": "12:20:30", "PIN": "120000"}[base]
		as = aliasesOf(valid)
	}
	return aliasCase{typ, valid, as[rapid.IntRange(0, len(as)-1).Draw(t, "alias")]}
}

// hash-colliding texts: pairs of valid texts (and of a valid text with an impossible one) that collide under the usual
// 32-bit hashes are parsed one after the other - a parse cache keyed on a hash of the text confuses them
type textPair struct {
	Hash string `json:"hash"`
	Type string `json:"type"`
	A    string `json:"a"`
	B    string `json:"b"`
}

func textValid(typ, s string) bool {
	var y, m, d, h, mi, sec int
	switch typ {
	case "Date", "ParseDate":
		if n, _ := fmt.Sscanf(s, "%04d-%02d-%02d", &y, &m, &d); n != 3 {
			return false
		}
		return spec.ValidDate(y, m, d)
	case "DateTime":
		if n, _ := fmt.Sscanf(s, "%04d-%02d-%02d %02d:%02d:%02d", &y, &m, &d, &h, &mi, &sec); n != 6 {
			return false
		}
		return spec.ValidDate(y, m, d) && h < 24 && mi < 60 && sec < 60
	case "SystemTime":
		if n, _ := fmt.Sscanf(s, "%02d:%02d:%02d", &h, &mi, &sec); n != 3 {
			return false
		}
		return h < 24 && mi < 60 && sec < 60
	}
	return false
}

func sweepTextPairs(yield func(textPair) bool) {
	var dates, dts, times []string
	for y := 1600; y < 2400; y++ {
		if !ev.Thorough() && y%2 == 1 && (y < 1990 || y > 2040) {
			continue
		}
		for m := 1; m <= 12; m++ {
			for d := 1; d <= 31; d++ { // days 29..31 of short months are the impossible dates of the reject side
				dates = append(dates, fmt.Sprintf("%04d-%02d-%02d", y, m, d))
			}
		}
	}
	n := 0
	for y := 2020; y <= 2026; y++ {
		for m := 1; m <= 12; m++ {
			for d := 1; d <= 30; d += 1 {
				for h := 0; h < 24; h += 1 {
					for mi := (d + h) % 11; mi < 60; mi += 11 {
						n++
						dts = append(dts, fmt.Sprintf("%04d-%02d-%02d %02d:%02d:%02d", y, m, d, h, mi, (d*h+mi)%60))
					}
				}
			}
		}
	}
	for h := 0; h < 25; h++ {
		for mi := 0; mi < 61; mi++ {
			for s := 0; s < 60; s++ {
				times = append(times, fmt.Sprintf("%02d:%02d:%02d", h, mi, s))
			}
		}
	}
	idx := 0
	for _, set := range []struct {
		typ   string
		cands []string
	}{{"Date", dates}, {"ParseDate", dates}, {"DateTime", dts}, {"SystemTime", times}} {
		for _, p := range collide.Pairs(set.cands, ev.Pick(3, 25)) {
			idx++
			if ev.Mine(idx) && !yield(textPair{p.Hash, set.typ, p.A, p.B}) {
				return
			}
		}
	}
}

func checkTextPair(c textPair) *rp.Fail {
	ev.Case("hash-colliding-pair/"+c.Type, true, c.Hash+c.Type+c.A+"|"+c.B)
	for _, order := range [][2]string{{c.A, c.B}, {c.B, c.A}} {
		for _, text := range []string{order[0], order[1], order[0]} {
			got, err, p := parseAs(c.Type, text)
			if p != nil {
				return rp.Failf("types."+c.Type+"/panic-on-bad-text", "parsing %q panicked: %v", text, p)
			}
			seq := fmt.Sprintf("(in the sequence %q, %q, %q - the two collide under %s)", order[0], order[1], order[0], c.Hash)
			if !textValid(c.Type, text) {
				if err == nil {
					return rp.Failf("types."+c.Type+"/accepts-out-of-domain/after-colliding-input", "%q was accepted as %s %s", text, got, seq)
				}
				continue
			}
			if err != nil || !strings.HasPrefix(got, text) {
				return rp.Failf("types."+c.Type+"/roundtrip/after-colliding-input", "%q parsed as %q, %v %s", text, got, err, seq)
			}
		}
	}
	return nil
}
