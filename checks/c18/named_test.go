package c18

import (
	"bytes"
	"fmt"
	"net"
	"net/netip"
	"reflect"
	"sync"
	"testing"

	codec "github.com/uhppoted/uhppote-core/encoding/UTO311-L0x"
	"github.com/uhppoted/uhppote-core/types"
	"pgregory.net/rapid"

	"verif/harness/ev"
	"verif/harness/rp"
)

// Declared (named) layouts. A layout is identified by its Go type, not by the type's name: function-local types in
// different functions print the same "c18.message" / "c18.reply" and have the same field names, but are different
// types with different offsets and function codes. Used in one process, in any order, each must be encoded and decoded
// by its own tags.
type named struct {
	Label string
	make  func() (filled any, blank any) // pointers
	want  func() []byte
}

// offsets of fixed-value bytes per layout: a message with another byte there must be rejected
var fixedOffsets = map[string][]int{"embedded/unexported-type-with-function-code": {8}}

func le32(b []byte, off int, v uint32) {
	b[off], b[off+1], b[off+2], b[off+3] = byte(v), byte(v>>8), byte(v>>16), byte(v>>24)
}

func namedLayouts() []named {
	var out []named
	// group 1: "message", two fields, different offsets and codes
	out = append(out, func() named {
		type message struct {
			MsgType types.MsgType      `uhppote:"value:0x80"`
			Serial  types.SerialNumber `uhppote:"offset:4"`
			Door    uint8              `uhppote:"offset:8"`
		}
		return named{"message/A", func() (any, any) { return &message{Serial: 405419896, Door: 3}, &message{} }, func() []byte {
			b := make([]byte, 64)
			b[0], b[1] = 0x17, 0x80
			le32(b, 4, 405419896)
			b[8] = 3
			return b
		}}
	}())
	out = append(out, func() named {
		type message struct {
			MsgType types.MsgType      `uhppote:"value:0x82"`
			Serial  types.SerialNumber `uhppote:"offset:40"`
			Door    uint8              `uhppote:"offset:63"`
		}
		return named{"message/B", func() (any, any) { return &message{Serial: 303986753, Door: 0xfe}, &message{} }, func() []byte {
			b := make([]byte, 64)
			b[0], b[1] = 0x17, 0x82
			le32(b, 40, 303986753)
			b[63] = 0xfe
			return b
		}}
	}())
	out = append(out, func() named {
		// same name again, more fields than the others
		type message struct {
			MsgType types.MsgType      `uhppote:"value:130"`
			Serial  types.SerialNumber `uhppote:"offset:12"`
			Door    uint8              `uhppote:"offset:9"`
			Card    uint32             `uhppote:"offset:20"`
			Ok      bool               `uhppote:"offset:30"`
			Delay   uint16             `uhppote:"offset:62"`
		}
		return named{"message/C", func() (any, any) {
			return &message{Serial: 1, Door: 4, Card: 8165538, Ok: true, Delay: 0xa1b2}, &message{}
		}, func() []byte {
			b := make([]byte, 64)
			b[0], b[1] = 0x17, 130
			le32(b, 12, 1)
			b[9] = 4
			le32(b, 20, 8165538)
			b[30] = 1
			b[62], b[63] = 0xb2, 0xa1
			return b
		}}
	}())
	// group 2: "reply", same field names and types, same code, different offsets only
	out = append(out, func() named {
		type reply struct {
			MsgType types.MsgType  `uhppote:"value:0x94"`
			Addr    netip.AddrPort `uhppote:"offset:8"`
			Index   uint32         `uhppote:"offset:16"`
		}
		return named{"reply/A", func() (any, any) {
			return &reply{Addr: netip.MustParseAddrPort("192.168.1.100:60001"), Index: 77}, &reply{}
		}, func() []byte {
			b := make([]byte, 64)
			b[0], b[1] = 0x17, 0x94
			copy(b[8:], []byte{192, 168, 1, 100, 0x61, 0xea})
			le32(b, 16, 77)
			return b
		}}
	}())
	out = append(out, func() named {
		type reply struct {
			MsgType types.MsgType  `uhppote:"value:0x94"`
			Addr    netip.AddrPort `uhppote:"offset:58"`
			Index   uint32         `uhppote:"offset:8"`
		}
		return named{"reply/B", func() (any, any) {
			return &reply{Addr: netip.MustParseAddrPort("10.0.0.1:1"), Index: 0xfffffffe}, &reply{}
		}, func() []byte {
			b := make([]byte, 64)
			b[0], b[1] = 0x17, 0x94
			copy(b[58:], []byte{10, 0, 0, 1, 1, 0})
			le32(b, 8, 0xfffffffe)
			return b
		}}
	}())
	// group 3: same name, same shape, fixed-value byte differs
	out = append(out, func() named {
		type request struct {
			MsgType types.MsgType `uhppote:"value:0x5a"`
			Magic   uint8         `uhppote:"offset:8, value:0x55"`
			N       uint32        `uhppote:"offset:9"`
		}
		return named{"request/A", func() (any, any) { return &request{N: 0x01020304}, &request{} }, func() []byte {
			b := make([]byte, 64)
			b[0], b[1], b[8] = 0x17, 0x5a, 0x55
			le32(b, 9, 0x01020304)
			return b
		}}
	}())
	out = append(out, func() named {
		type request struct {
			MsgType types.MsgType `uhppote:"value:0x5a"`
			Magic   uint8         `uhppote:"offset:8, value:170"`
			N       uint32        `uhppote:"offset:9"`
		}
		return named{"request/B", func() (any, any) { return &request{N: 0x0a0b0c0d}, &request{} }, func() []byte {
			b := make([]byte, 64)
			b[0], b[1], b[8] = 0x17, 0x5a, 170
			le32(b, 9, 0x0a0b0c0d)
			return b
		}}
	}())
	// group 4: fields that are not part of the message (no codec tag), one of them unexported, between tagged fields
	out = append(out, func() named {
		type record struct {
			MsgType types.MsgType `uhppote:"value:0xb0"`
			note    string
			Serial  types.SerialNumber `uhppote:"offset:4"`
			Comment string             `json:"comment"`
			Index   uint32             `uhppote:"offset:8"`
			seen    int
			Granted bool  `uhppote:"offset:13"`
			Door    uint8 `uhppote:"offset:14"`
		}
		return named{"record/untagged+unexported", func() (any, any) {
			return &record{note: "n", Serial: 405419896, Comment: "c", Index: 70, seen: 3, Granted: true, Door: 4}, &record{note: "n", Comment: "c", seen: 3}
		}, func() []byte {
			b := make([]byte, 64)
			b[0], b[1] = 0x17, 0xb0
			le32(b, 4, 405419896)
			le32(b, 8, 70)
			b[13], b[14] = 1, 4
			return b
		}}
	}())
	// group 5: the embedded struct is of an UNEXPORTED type (declared in the user's own package, lower-case name); its tagged
	// fields are exported and are part of the message like those of any other embedded struct, in both directions
	out = append(out, func() named {
		return named{"embedded/unexported-type", func() (any, any) {
			return &msgWithHeader{header: header{Serial: 405419896, Door: 3}, Card: 8165538}, &msgWithHeader{}
		}, func() []byte {
			b := make([]byte, 64)
			b[0], b[1] = 0x17, 0x5a
			le32(b, 4, 405419896)
			b[8] = 3
			le32(b, 12, 8165538)
			return b
		}}
	}())
	// group 6: the function code and a fixed-value byte are declared INSIDE an embedded struct of an unexported type: emitted on
	// encode and enforced on decode like anywhere else
	out = append(out, func() named {
		return named{"embedded/unexported-type-with-function-code", func() (any, any) {
			return &msgWithCodedHeader{codedHeader: codedHeader{Serial: 405419896}, Card: 8165538}, &msgWithCodedHeader{}
		}, func() []byte {
			b := make([]byte, 64)
			b[0], b[1] = 0x17, 0x96
			le32(b, 4, 405419896)
			b[8] = 0x55
			le32(b, 12, 8165538)
			return b
		}}
	}())
	return out
}

type codedHeader struct {
	MsgType types.MsgType      `uhppote:"value:0x96"`
	Serial  types.SerialNumber `uhppote:"offset:4"`
	Magic   uint8              `uhppote:"offset:8, value:0x55"`
}

type msgWithCodedHeader struct {
	codedHeader
	Card uint32 `uhppote:"offset:12"`
}

type header struct {
	Serial types.SerialNumber `uhppote:"offset:4"`
	Door   uint8              `uhppote:"offset:8"`
}

type msgWithHeader struct {
	MsgType types.MsgType `uhppote:"value:0x5a"`
	header
	Card uint32 `uhppote:"offset:12"`
}

type namedCase struct {
	Order []int `json:"order"` // indices into namedLayouts(), with repeats
}

func checkNamed(c namedCase) *rp.Fail {
	ls := namedLayouts()
	for step, i := range c.Order {
		l := ls[i%len(ls)]
		filled, blank := l.make()
		want := l.want()
		ev.Class("named/"+l.Label, 1)
		var enc []byte
		var err error
		if p := try(func() { enc, err = codec.Marshal(filled) }); p != nil || err != nil {
			return rp.Failf("codec.Marshal/declared-type", "step %d: Marshal of the declared layout %s (%T) failed: %v %v", step, l.Label, filled, p, err)
		}
		if !bytes.Equal(enc, want) {
			return rp.Failf("codec.Marshal/wrong-bytes/declared-type", "step %d of %v: declared layout %s (%T): encoding is not what its own tags say\n  got  %x\n  want %x", step, c.Order, l.Label, filled, enc, want)
		}
		if p := try(func() { err = codec.Unmarshal(append([]byte(nil), want...), blank) }); p != nil || err != nil {
			return rp.Failf("codec.Unmarshal/rejects-own-encoding/declared-type", "step %d of %v: declared layout %s (%T): Unmarshal of its own encoding failed: %v %v", step, c.Order, l.Label, blank, p, err)
		}
		// the function code is set by the decoder, the fixed byte too: compare everything but those through re-encoding
		re, err := codec.Marshal(blank)
		if err != nil || !bytes.Equal(re, want) {
			return rp.Failf("codec.Unmarshal/wrong-value/declared-type", "step %d of %v: declared layout %s: decoded value re-encodes as %x (%v), want %x; decoded %+v", step, c.Order, l.Label, re, err, want, reflect.ValueOf(blank).Elem().Interface())
		}
		fv, bv := reflect.ValueOf(filled).Elem(), reflect.ValueOf(blank).Elem()
		for k := 0; k < fv.NumField(); k++ {
			if n := fv.Type().Field(k).Name; n != "MsgType" && n != "Magic" && fv.Type().Field(k).IsExported() && !reflect.DeepEqual(fv.Field(k).Interface(), bv.Field(k).Interface()) {
				return rp.Failf("codec.Unmarshal/wrong-value/declared-type", "step %d of %v: declared layout %s: field %s decoded as %v, want %v", step, c.Order, l.Label, n, bv.Field(k).Interface(), fv.Field(k).Interface())
			}
		}
		bad := append([]byte(nil), want...)
		bad[1] ^= 0x02
		if err := codec.Unmarshal(bad, blank); err == nil {
			return rp.Failf("codec.Unmarshal/function-code-not-enforced/declared-type", "step %d of %v: declared layout %s accepted function code %02x", step, c.Order, l.Label, bad[1])
		}
		for _, off := range fixedOffsets[l.Label] {
			bad := append([]byte(nil), want...)
			bad[off] ^= 0xff
			if err := codec.Unmarshal(bad, blank); err == nil {
				return rp.Failf("codec.Unmarshal/fixed-value-not-enforced/declared-type", "step %d of %v: declared layout %s accepted %02x at offset %d, where its tag fixes %02x", step, c.Order, l.Label, bad[off], off, want[off])
			}
			if as, err := codec.UnmarshalAs(bad, reflect.ValueOf(blank).Elem().Interface()); err == nil {
				return rp.Failf("codec.UnmarshalAs/fixed-value-not-enforced/declared-type", "step %d of %v: declared layout %s: UnmarshalAs accepted %02x at offset %d (%+v)", step, c.Order, l.Label, bad[off], off, as)
			}
		}
	}
	ev.Case("named/sequence", true, fmt.Sprint(c.Order))
	return nil
}

func genNamed(t *rapid.T) namedCase {
	return namedCase{Order: rapid.SliceOfN(rapid.IntRange(0, 9), 2, 14).Draw(t, "order")}
}

// concurrent first use of a layout: a freshly built struct type (new to every per-type cache) is encoded and decoded by
// several goroutines at the same moment; each must see the complete layout.
type concCase struct {
	Layout  layoutCase `json:"layout"`
	Workers int        `json:"workers"`
}

func checkConcurrent(c concCase) *rp.Fail {
	fails := make([]*rp.Fail, c.Workers)
	var wg sync.WaitGroup
	start := make(chan struct{})
	for w := 0; w < c.Workers; w++ {
		wg.Add(1)
		go func(w int) {
			defer wg.Done()
			<-start
			fails[w] = decide(c.Layout)
		}(w)
	}
	close(start)
	wg.Wait()
	ev.Case("layout/concurrent-first-use", true, fmt.Sprintf("%+v", c.Layout))
	for _, f := range fails {
		if f != nil {
			f.Fingerprint += "/concurrent-first-use"
			return f
		}
	}
	return nil
}

func genConcurrent(t *rapid.T) concCase {
	return concCase{Layout: genLayout(t), Workers: rapid.IntRange(2, 8).Draw(t, "workers")}
}

func namedProps() []rp.Prop {
	return []rp.Prop{
		rp.P[namedCase]{Name: "named", Checks: ev.Pick(300, 20000) / ev.Shards(), Gen: genNamed, Check: checkNamed},
		rp.P[concCase]{Name: "concurrent", Checks: ev.Pick(4000, 200000) / ev.Shards(), Gen: genConcurrent, Check: checkConcurrent},
		rp.P[macCase]{Name: "odd-length-mac", Sweep: sweepOddMAC, Check: checkOddMAC},
	}
}

// TestAAANamed runs first: the declared layouts meet a cold codec.
func TestAAANamed(t *testing.T) { rp.RunAll(t, namedProps()...) }

// A raw MAC field (net.HardwareAddr) occupies 6 bytes of the message whatever the length of the value it holds (net.ParseMAC
// also returns 8-byte EUI-64 and 20-byte InfiniBand addresses): the encoding never writes outside the field - every other
// byte is what the other fields put there, or zero - and never panics.
type macCase struct {
	Off   int    `json:"off"`
	Len   int    `json:"len"`
	After bool   `json:"neighbour_declared_first"` // the field that follows the MAC in the message is declared BEFORE it in the struct
	Value uint32 `json:"neighbour"`
}

func checkOddMAC(c macCase) *rp.Fail {
	ev.Case("rawmac/odd-length", c.Len != 6, fmt.Sprintf("%+v", c))
	mac := make([]byte, c.Len)
	for i := range mac {
		mac[i] = byte(0x61 + i)
	}
	fields := []reflect.StructField{{Name: "MsgType", Type: reflect.TypeOf(types.MsgType(0)), Tag: `uhppote:"value:0x94"`}}
	macField := reflect.StructField{Name: "MAC", Type: reflect.TypeOf(net.HardwareAddr{}), Tag: reflect.StructTag(fmt.Sprintf(`uhppote:"offset:%d"`, c.Off))}
	nOff := c.Off + 6
	hasNeighbour := nOff+4 <= 64
	nField := reflect.StructField{Name: "Next", Type: reflect.TypeOf(uint32(0)), Tag: reflect.StructTag(fmt.Sprintf(`uhppote:"offset:%d"`, nOff))}
	switch {
	case hasNeighbour && c.After:
		fields = append(fields, nField, macField)
	case hasNeighbour:
		fields = append(fields, macField, nField)
	default:
		fields = append(fields, macField)
	}
	v := reflect.New(reflect.StructOf(fields))
	v.Elem().FieldByName("MAC").Set(reflect.ValueOf(net.HardwareAddr(mac)))
	want := make([]byte, 64)
	want[0], want[1] = 0x17, 0x94
	if hasNeighbour {
		v.Elem().FieldByName("Next").SetUint(uint64(c.Value))
		le32(want, nOff, c.Value)
	}
	var enc []byte
	var err error
	if p := try(func() { enc, err = codec.Marshal(v.Interface()) }); p != nil {
		return rp.Failf("codec.Marshal/panic", "a %d-byte MAC value at offset %d: Marshal panicked: %v", c.Len, c.Off, p)
	}
	if err != nil {
		return nil // refusing the value is fine
	}
	for i := range enc {
		if i >= c.Off && i < c.Off+6 {
			continue // what a value of another length than 6 leaves inside its own field is not judged
		}
		if enc[i] != want[i] {
			return rp.Failf("codec.Marshal/writes-outside-fields", "a %d-byte MAC value in the field at offset %d..%d: byte %d of the encoding is %02x, want %02x\n  %x", c.Len, c.Off, c.Off+5, i, enc[i], want[i], enc)
		}
	}
	return nil
}

func sweepOddMAC(yield func(macCase) bool) {
	idx := 0
	for _, n := range []int{0, 1, 5, 6, 7, 8, 20, 64, 100} {
		for off := 2; off+6 <= 64; off++ {
			for _, after := range []bool{false, true} {
				idx++
				if ev.Mine(idx) && !yield(macCase{Off: off, Len: n, After: after, Value: 0xa1b2c3d4}) {
					return
				}
			}
		}
	}
}
