// C18 - the codec is generic over message layouts, not only right for the shipped messages.
package c18

import (
	"fmt"
	"os"
	"reflect"
	"strings"
	"testing"
	"time"
	"verif/harness/guard"

	codec "github.com/uhppoted/uhppote-core/encoding/UTO311-L0x"
	"pgregory.net/rapid"

	"verif/harness/batch"
	"verif/harness/ev"
	"verif/harness/fv"
	"verif/harness/rp"
)

func TestMain(m *testing.M) {
	time.Local = time.UTC
	ev.Describe("declared layouts: function-local named struct types that share their printed name and field names but differ in offsets, function code or fixed value, used in random order in one process; concurrent first use: a freshly built layout encoded and decoded by 2..8 goroutines at once; struct types are built at run time with reflect.StructOf from the tag grammar: a function-code tag (decimal / 0x / 0X / upper-case hex), optionally a start-of-message tag, and 1..12 fields from 19 kinds (u8, fixed-value u8, u16, u32, bool, IPv4, AddrPort, raw MAC, MacAddress, SerialNumber, Date, DateTime, SystemDate, SystemTime, HHmm, PIN, Version, and *Date/*DateTime/*HHmm) at non-overlapping offsets packed at random in 2..63, optionally moved into one embedded struct; EVERY (kind, offset) at which the field fits is enumerated as a single-field layout. Oracle: a reference encoder per kind - the encoding must equal the reference bytes at [offset, offset+width), carry the protocol id (0x17 or the tag) and function code, and be zero in every other byte; decoding must return the values; neither may panic; a wrong function code or fixed value must be rejected on decode; scribbling over the input buffer after decoding must not change the decoded value. Non-trivial = layout with >= 2 fields or a field ending at byte 63; distinct = distinct (layout, values).",
		"process zone pinned to UTC; field values from the in-domain generators of C05",
		"a start-of-message tag of 0x19 is only generated together with function code 0x20 (the only combination the protocol defines)")
	ev.Main(m, "C18")
}

type kind struct {
	name  string
	typ   reflect.Type
	width int
}

var kinds = []kind{
	{"u8", fv.TU8, 1}, {"u8fixed", fv.TU8, 1}, {"u16", fv.TU16, 2}, {"u32", fv.TU32, 4}, {"bool", fv.TBool, 1}, {"ipv4", fv.TIP, 4}, {"addrport", fv.TAddrPort, 6},
	{"rawmac", fv.TRawMAC, 6}, {"mac", fv.TMAC, 6}, {"serial", fv.TSerial, 4}, {"date", fv.TDate, 4}, {"datetime", fv.TDateTime, 7}, {"sysdate", fv.TSysDate, 3},
	{"systime", fv.TSysTime, 3}, {"hhmm", fv.THHmm, 2}, {"pin", fv.TPIN, 3}, {"version", fv.TVersion, 2}, {"*date", fv.TDatePtr, 4}, {"*datetime", fv.TDateTimePtr, 7}, {"*hhmm", fv.THHmmPtr, 2},
}

func kindByName(n string) kind {
	for _, k := range kinds {
		if k.name == n {
			return k
		}
	}
	panic("HARNESS: kind " + n)
}

type lField struct {
	Kind     string `json:"kind"`
	Off      int    `json:"off"`
	Embedded bool   `json:"embedded,omitempty"`
	Val      fv.FV  `json:"val"`
	Tag      string `json:"tag,omitempty"` // u8fixed: the literal after value: ("32", "0x20", "0X2A", "0xfe")
	// OffFmt: how the (decimal) offset is written in the tag - 0 "8", 1 "08", 2 "008", 3 " 8" (blank after the colon): the tag
	// grammar is offset:\s*[0-9]+ and the digits are decimal however many leading zeros they carry
	OffFmt uint8 `json:"offset_format,omitempty"`
	// TagForm: how the struct tag is laid out around the two items - 0 `uhppote:"offset:N, value:V"`, 1 the value item first,
	// 2 no blank after the comma, 3 / 4 another key (json) before / after the uhppote key in the same struct tag
	TagForm uint8 `json:"tag_form,omitempty"`
}

func (f lField) offText() string {
	switch f.OffFmt % 4 {
	case 1:
		return fmt.Sprintf("%02d", f.Off)
	case 2:
		return fmt.Sprintf("%03d", f.Off)
	case 3:
		return fmt.Sprintf(" %d", f.Off)
	}
	return fmt.Sprintf("%d", f.Off)
}

type layoutCase struct {
	Code    byte     `json:"code"`
	CodeTag string   `json:"code_tag"` // literal after value: in the MsgType tag
	SOM     string   `json:"som,omitempty"`
	CodeEmb bool     `json:"code_embedded,omitempty"` // the MsgType field lives inside the embedded struct
	Shadow  bool     `json:"shadow,omitempty"`        // embedded fields carry the same Go names as outer fields (legal: the outer ones shadow them)
	Fields  []lField `json:"fields"`
	// Extra untagged exported fields (int, string, []byte, map) interleaved with the tagged ones: not part of the message,
	// the codec must step over them in both directions
	Extra int `json:"extra_untagged,omitempty"`
}

func parseLiteral(s string) (uint64, bool) {
	var v uint64
	var err error
	if strings.HasPrefix(s, "0x") || strings.HasPrefix(s, "0X") {
		_, err = fmt.Sscanf(s[2:], "%x", &v)
	} else {
		_, err = fmt.Sscanf(s, "%d", &v)
	}
	return v, err == nil
}

// fieldName: outer fields are F0, F1 ... in their own numbering; embedded fields are E<i>, or - with Shadow - F0, F1 ...
// in THEIR own numbering, so that they collide with outer names.
func (c layoutCase) fieldName(i int) string {
	n := 0
	for j := 0; j < i; j++ {
		if c.Fields[j].Embedded == c.Fields[i].Embedded {
			n++
		}
	}
	if c.Fields[i].Embedded && !c.Shadow {
		return fmt.Sprintf("E%d", n)
	}
	return fmt.Sprintf("F%d", n)
}

// locate returns the reflect value of field i inside v (a value of the built type).
func (c layoutCase) locate(v reflect.Value, i int) reflect.Value {
	if c.Fields[i].Embedded {
		return v.FieldByName("Inner").FieldByName(c.fieldName(i))
	}
	for k := 0; k < v.NumField(); k++ {
		if !v.Type().Field(k).Anonymous && v.Type().Field(k).Name == c.fieldName(i) {
			return v.Field(k)
		}
	}
	panic("HARNESS: field not found")
}

func (c layoutCase) build() (reflect.Type, bool) {
	var top, emb []reflect.StructField
	hasEmb := false
	for _, f := range c.Fields {
		if f.Embedded {
			hasEmb = true
		}
	}
	msg := reflect.StructField{Name: "MsgType", Type: fv.TMsgType, Tag: reflect.StructTag(fmt.Sprintf(`uhppote:"value:%s"`, c.CodeTag))}
	if c.SOM != "" {
		top = append(top, reflect.StructField{Name: "SOM", Type: fv.TSOM, Tag: reflect.StructTag(fmt.Sprintf(`uhppote:"value:%s"`, c.SOM))})
	}
	if c.CodeEmb && hasEmb {
		emb = append(emb, msg)
	} else {
		top = append(top, msg)
	}
	embAt := -1
	for i, f := range c.Fields {
		k := kindByName(f.Kind)
		tag := fmt.Sprintf(`uhppote:"offset:%s"`, f.offText())
		if f.Kind == "u8fixed" {
			tag = fmt.Sprintf(`uhppote:"offset:%s, value:%s"`, f.offText(), f.Tag)
			switch f.TagForm % 5 {
			case 1:
				tag = fmt.Sprintf(`uhppote:"value:%s, offset:%s"`, f.Tag, f.offText())
			case 2:
				tag = fmt.Sprintf(`uhppote:"offset:%s,value:%s"`, f.offText(), f.Tag)
			}
		}
		switch f.TagForm % 5 {
		case 3:
			tag = fmt.Sprintf(`json:"f%d,omitempty" %s`, i, tag)
		case 4:
			tag = fmt.Sprintf(`%s json:"f%d"`, tag, i)
		}
		sf := reflect.StructField{Name: c.fieldName(i), Type: k.typ, Tag: reflect.StructTag(tag)}
		if f.Embedded {
			if embAt < 0 {
				embAt = len(top)
				top = append(top, reflect.StructField{}) // placeholder
			}
			emb = append(emb, sf)
		} else {
			top = append(top, sf)
		}
	}
	if hasEmb {
		if embAt < 0 {
			embAt = len(top)
			top = append(top, reflect.StructField{})
		}
		top[embAt] = reflect.StructField{Name: "Inner", Type: reflect.StructOf(emb), Anonymous: true}
	}
	for j := 0; j < c.Extra; j++ {
		typ := []reflect.Type{reflect.TypeOf(0), reflect.TypeOf(""), reflect.TypeOf([]byte(nil)), reflect.TypeOf(map[string]int(nil)), reflect.TypeOf(false), reflect.TypeOf(uint32(0))}[j%6]
		tag := reflect.StructTag("")
		if j%3 == 1 {
			tag = `json:"note,omitempty"`
		}
		at := (j*7 + 3) % (len(top) + 1)
		top = append(top[:at:at], append([]reflect.StructField{{Name: fmt.Sprintf("X%d", j), Type: typ, Tag: tag}}, top[at:]...)...)
	}
	var typ reflect.Type
	ok := true
	func() {
		defer func() {
			if recover() != nil {
				ok = false
			}
		}()
		typ = reflect.StructOf(top)
	}()
	return typ, ok
}

func try(f func()) (p any) {
	defer func() { p = recover() }()
	f()
	return nil
}

func describe(c layoutCase) string {
	var sb strings.Builder
	fmt.Fprintf(&sb, "{code value:%s", c.CodeTag)
	if c.SOM != "" {
		fmt.Fprintf(&sb, " som value:%s", c.SOM)
	}
	for _, f := range c.Fields {
		fmt.Fprintf(&sb, "; %s@%q", f.Kind, f.offText())
		if f.Tag != "" {
			fmt.Fprintf(&sb, " value:%s", f.Tag)
		}
		if f.Embedded {
			sb.WriteString(" (embedded)")
		}
	}
	if c.Extra > 0 {
		fmt.Fprintf(&sb, "; +%d untagged fields", c.Extra)
	}
	sb.WriteString("}")
	return sb.String()
}

func decide(c layoutCase) *rp.Fail {
	typ, ok := c.build()
	if !ok {
		return rp.Failf("harness/structof", "reflect.StructOf cannot build %s", describe(c))
	}
	pv := reflect.New(typ)
	v := pv.Elem()
	ls := fv.Leaves(v)
	if len(ls) != len(c.Fields) {
		return rp.Failf("harness/leaves", "%d leaves for %d fields", len(ls), len(c.Fields))
	}
	if c.Shadow {
		ev.Class("layout/embedded-field-names-shadowed-by-outer-fields", 1)
	}
	want := make([]byte, 64)
	want[0] = 0x17
	if c.SOM != "" {
		s, _ := parseLiteral(c.SOM)
		want[0] = byte(s)
	}
	want[1] = c.Code
	for i, f := range c.Fields {
		k := kindByName(f.Kind)
		fld := c.locate(v, i)
		val := f.Val
		if f.Kind == "u8fixed" {
			x, _ := parseLiteral(f.Tag)
			val = fv.FV{U: x}
			// the struct field itself is left at a different value: the tag is what must be emitted
			fld.SetUint(uint64(byte(x) ^ 0x5a))
		} else {
			fv.Fill(fld, val)
		}
		copy(want[f.Off:], fv.Ref(k.typ, val))
	}
	site := "codec.Marshal"
	var enc []byte
	var err error
	if p := try(func() { enc, err = codec.Marshal(pv.Interface()) }); p != nil {
		return rp.Failf(site+"/panic", "Marshal of layout %s panicked: %v", describe(c), p)
	}
	if err != nil {
		return rp.Failf(site+"/error", "Marshal of layout %s failed: %v", describe(c), err)
	}
	if len(enc) != 64 {
		return rp.Failf(site+"/length", "Marshal of layout %s gave %d bytes", describe(c), len(enc))
	}
	for i := range want {
		if enc[i] != want[i] {
			where := "a byte that belongs to no field"
			for _, f := range c.Fields {
				if i >= f.Off && i < f.Off+kindByName(f.Kind).width {
					where = fmt.Sprintf("field %s@%d", f.Kind, f.Off)
				}
			}
			if i < 2 {
				where = "the header"
			}
			cls := "wrong-bytes"
			if where == "a byte that belongs to no field" {
				cls = "writes-outside-fields"
			} else if i < 2 {
				cls = "header"
			}
			return rp.Failf(site+"/"+cls, "layout %s: encoding differs from the reference at offset %d (%s)\n  got  %x\n  want %x", describe(c), i, where, enc, want)
		}
	}
	// decode
	site = "codec.Unmarshal"
	buf := append(make([]byte, 0, 80), enc...)
	out := reflect.New(typ)
	if p := try(func() { err = codec.Unmarshal(buf, out.Interface()) }); p != nil {
		return rp.Failf(site+"/panic", "Unmarshal into layout %s panicked: %v (message %x)", describe(c), p, enc)
	}
	if err != nil {
		return rp.Failf(site+"/rejects-own-encoding", "Unmarshal into layout %s failed: %v (message %x)", describe(c), err, enc)
	}
	gotV := out.Elem()
	check := func(stage string) *rp.Fail {
		for i, f := range c.Fields {
			k := kindByName(f.Kind)
			val := f.Val
			if f.Kind == "u8fixed" {
				x, _ := parseLiteral(f.Tag)
				val = fv.FV{U: x}
			}
			if g, w := fv.Canon(c.locate(gotV, i)), fv.Want(k.typ, val); g != w {
				cls := "wrong-value"
				if stage != "" {
					cls = "aliases-input-buffer"
				}
				return rp.Failf(site+"/"+cls, "layout %s: field %s@%d decoded as %s, want %s%s (message %x)", describe(c), f.Kind, f.Off, g, w, stage, enc)
			}
		}
		return nil
	}
	if f := check(""); f != nil {
		return f
	}
	// the same 64 bytes flush against unreadable memory: a field that ends on the last byte is decoded without reading past it
	for i := 0; i < 2 && guard.Available(); i++ {
		placed, release := guard.Place(enc, i == 0)
		g := reflect.New(typ)
		var gerr error
		p := guard.Do(func() { gerr = codec.Unmarshal(placed, g.Interface()) })
		release()
		if p != nil || gerr != nil {
			return rp.Failf(site+"/reads-beyond-the-message", "layout %s: decoding %x placed at the %s of a readable page failed: %v %v", describe(c), enc, []string{"end", "start"}[i], p, gerr)
		}
		if d := fv.FirstDiff(fv.CanonAll(out.Elem()), fv.CanonAll(g.Elem())); d != "" {
			return rp.Failf(site+"/reads-beyond-the-message", "layout %s: %x decodes differently when it is placed against an unreadable page: %s", describe(c), enc, d)
		}
	}
	// decoded values share no memory with the input buffer
	full := buf[:cap(buf)]
	for i := range full {
		full[i] = 0xa5
	}
	if f := check(" after the input buffer was overwritten"); f != nil {
		return f
	}
	// dirty target: decoding into a variable that already holds OTHER values returns the encoded values all the same
	// (value kinds; a nil-tolerant pointer field whose bytes are 'no value' keeps what it had and is not judged)
	{
		zeroMsg := make([]byte, 64)
		zeroMsg[0], zeroMsg[1] = enc[0], enc[1]
		for _, f := range c.Fields {
			if f.Kind == "u8fixed" {
				zeroMsg[f.Off] = enc[f.Off]
			}
		}
		fresh := reflect.New(typ)
		if err := codec.Unmarshal(append([]byte(nil), zeroMsg...), fresh.Interface()); err == nil {
			dirty := reflect.New(typ)
			if err := codec.Unmarshal(append([]byte(nil), enc...), dirty.Interface()); err == nil {
				// (a copy of the struct is how a caller keeps a decoded value while the variable is used for the next message)
				kept := reflect.New(typ).Elem()
				kept.Set(dirty.Elem())
				keptBefore := fv.CanonAll(kept)
				if p := try(func() { err = codec.Unmarshal(append([]byte(nil), zeroMsg...), dirty.Interface()) }); p != nil || err != nil {
					return rp.Failf(site+"/dirty-target", "layout %s: decoding the all-zero message into a variable that held other values failed: %v %v", describe(c), p, err)
				}
				if d := fv.FirstDiff(keptBefore, fv.CanonAll(kept)); d != "" {
					return rp.Failf(site+"/earlier-result-changed-by-next-decode", "layout %s: a copy of the decoded value changed when the next message (all-zero payload) was decoded into the same variable: %s", describe(c), d)
				}
				for i, f := range c.Fields {
					if f.Kind[0] == '*' {
						continue
					}
					if g, w := fv.Canon(c.locate(dirty.Elem(), i)), fv.Canon(c.locate(fresh.Elem(), i)); g != w {
						return rp.Failf(site+"/wrong-value/dirty-target", "layout %s: field %s@%d of the all-zero message decodes as %s into a fresh variable but as %s into a variable that held %s before", describe(c), f.Kind, f.Off, w, g, fv.Want(kindByName(f.Kind).typ, f.Val))
					}
				}
				// and back: the message over the zero values
				if err = codec.Unmarshal(append([]byte(nil), enc...), dirty.Interface()); err != nil {
					return rp.Failf(site+"/dirty-target", "layout %s: decoding into a used variable failed: %v", describe(c), err)
				}
				keep := gotV
				gotV = dirty.Elem()
				if f := check(" (decoded into a variable that had been used before)"); f != nil {
					f.Fingerprint = site + "/wrong-value/dirty-target"
					return f
				}
				gotV = keep
			}
		}
	}
	// decoded values are the caller's own: writing through the pointer fields of one decoded value changes neither another
	// decoded value nor what any later decoding returns (variables that were used before, blank values on the wire)
	{
		zeroMsg := make([]byte, 64)
		zeroMsg[0], zeroMsg[1] = enc[0], enc[1]
		for _, f := range c.Fields {
			if f.Kind == "u8fixed" {
				zeroMsg[f.Off] = enc[f.Off]
			}
		}
		used := func() reflect.Value {
			v := reflect.New(typ)
			if codec.Unmarshal(append([]byte(nil), enc...), v.Interface()) != nil || codec.Unmarshal(append([]byte(nil), zeroMsg...), v.Interface()) != nil {
				return reflect.Value{}
			}
			return v
		}
		a, b := used(), used()
		if a.IsValid() && b.IsValid() {
			before := fv.CanonAll(b.Elem())
			wrote := 0
			for i, f := range c.Fields {
				if f.Kind[0] != '*' {
					continue
				}
				if pa, src := c.locate(a.Elem(), i), c.locate(out.Elem(), i); pa.Kind() == reflect.Ptr && !pa.IsNil() && src.Kind() == reflect.Ptr && !src.IsNil() {
					pa.Elem().Set(src.Elem())
					wrote++
				}
			}
			if wrote > 0 {
				ev.Class("decoded-values/written-through-pointer-fields", 1)
				if d := fv.FirstDiff(before, fv.CanonAll(b.Elem())); d != "" {
					return rp.Failf(site+"/decoded-values-share-memory", "layout %s: writing through the pointer fields of one decoded value changed another decoded value: %s", describe(c), d)
				}
				again := used()
				if again.IsValid() {
					if d := fv.FirstDiff(before, fv.CanonAll(again.Elem())); d != "" {
						return rp.Failf(site+"/decoded-values-share-memory", "layout %s: after a caller wrote through the pointer fields of an earlier decoded value, the same messages decode differently: %s", describe(c), d)
					}
				}
				fresh := reflect.New(typ)
				if codec.Unmarshal(append([]byte(nil), enc...), fresh.Interface()) == nil {
					keep := gotV
					gotV = fresh.Elem()
					f := check(" (after a caller wrote through the pointer fields of an earlier decoded value)")
					gotV = keep
					if f != nil {
						f.Fingerprint = site + "/decoded-values-share-memory"
						return f
					}
				}
			}
		}
	}
	// ... and so are the address fields: appending to a decoded IP / MAC address (or to the 4-byte form of an IP) touches no
	// other field of the same value
	{
		v := reflect.New(typ)
		if codec.Unmarshal(append([]byte(nil), enc...), v.Interface()) == nil {
			before := fv.CanonAll(v.Elem())
			if fv.AppendAll(v.Elem()) > 0 {
				ev.Class("decoded-values/appended-to-address-fields", 1)
				if d := fv.FirstDiff(before, fv.CanonAll(v.Elem())); d != "" {
					return rp.Failf(site+"/decoded-fields-share-capacity", "layout %s: appending to the decoded address fields of a value changed another field of the same value: %s", describe(c), d)
				}
			}
		}
	}
	// UnmarshalAs
	var as any
	if p := try(func() { as, err = codec.UnmarshalAs(append([]byte(nil), enc...), reflect.New(typ).Elem().Interface()) }); p != nil || err != nil {
		return rp.Failf("codec.UnmarshalAs/error", "layout %s: UnmarshalAs failed: %v %v", describe(c), p, err)
	}
	asv := reflect.New(typ).Elem()
	asv.Set(reflect.ValueOf(as))
	gotV = asv
	site = "codec.UnmarshalAs"
	if f := check(""); f != nil {
		return f
	}
	// batches: UnmarshalArray / UnmarshalArrayElement decode every element on its own (nothing carried over from the
	// previous element): [v, zero, v] where zero is the all-zero-payload message of the same layout
	zero := make([]byte, 64)
	zero[0], zero[1] = enc[0], enc[1]
	for _, f := range c.Fields {
		if f.Kind == "u8fixed" {
			zero[f.Off] = enc[f.Off]
		}
	}
	wantZero := fv.CanonAll(func() reflect.Value {
		z := reflect.New(typ)
		if err := codec.Unmarshal(append([]byte(nil), zero...), z.Interface()); err != nil {
			return reflect.New(typ).Elem()
		}
		return z.Elem()
	}())
	arr := reflect.New(reflect.SliceOf(typ))
	if p := try(func() {
		err = codec.UnmarshalArray([][]byte{append([]byte(nil), enc...), append([]byte(nil), zero...), append([]byte(nil), enc...)}, arr.Interface())
	}); p != nil {
		return rp.Failf("codec.UnmarshalArray/panic", "layout %s: UnmarshalArray panicked: %v", describe(c), p)
	}
	if err == nil && arr.Elem().Len() == 3 {
		first, second, third := fv.CanonAll(arr.Elem().Index(0)), fv.CanonAll(arr.Elem().Index(1)), fv.CanonAll(arr.Elem().Index(2))
		if d := fv.FirstDiff(first, third); d != "" {
			return rp.Failf("codec.UnmarshalArray/element-depends-on-neighbours", "layout %s: elements 0 and 2 of a batch [m, zero, m] differ: %s", describe(c), d)
		}
		if d := fv.FirstDiff(wantZero, second); d != "" {
			return rp.Failf("codec.UnmarshalArray/element-depends-on-neighbours", "layout %s: the all-zero message decoded inside a batch [m, zero, m] differs from decoding it alone: %s", describe(c), d)
		}
		// pointer fields: nil-ness too
		for i := 0; i < arr.Elem().Index(1).NumField(); i++ {
			if f := arr.Elem().Index(1).Field(i); f.Kind() == reflect.Ptr {
				alone := reflect.New(typ)
				codec.Unmarshal(append([]byte(nil), zero...), alone.Interface())
				if f.IsNil() != alone.Elem().Field(i).IsNil() {
					return rp.Failf("codec.UnmarshalArray/element-depends-on-neighbours", "layout %s: pointer field %d of the all-zero message is nil=%v when decoded alone but nil=%v inside a batch after another message", describe(c), i, alone.Elem().Field(i).IsNil(), f.IsNil())
				}
			}
		}
	} else if err != nil {
		return rp.Failf("codec.UnmarshalArray/error", "layout %s: UnmarshalArray of [m, zero, m] failed: %v", describe(c), err)
	}
	// ... elements share no memory, and a batch decoded earlier stays the caller's when the next one is decoded into the same
	// variable or into an empty window of a larger array (harness/batch)
	if f := batch.Check(typ, [][]byte{enc, zero}, "layout "+describe(c)); f != nil {
		return f
	}
	// wrong function code / wrong fixed value must be rejected
	site = "codec.Unmarshal"
	bad := append([]byte(nil), enc...)
	bad[1] ^= 0x01
	if c.SOM != "" && bad[1] != 0x20 && enc[0] == 0x19 {
		bad[0] = 0x17 // keep the header itself acceptable so that the function-code check is what decides
	}
	if p := try(func() { err = codec.Unmarshal(bad, reflect.New(typ).Interface()) }); p != nil {
		return rp.Failf(site+"/panic", "layout %s: Unmarshal of a message with a wrong function code panicked: %v", describe(c), p)
	} else if err == nil {
		return rp.Failf(site+"/function-code-not-enforced", "layout %s: a message with function code %02x was accepted (message %x)", describe(c), bad[1], bad)
	}
	for _, f := range c.Fields {
		if f.Kind != "u8fixed" {
			continue
		}
		bad := append([]byte(nil), enc...)
		bad[f.Off] ^= 0x80
		if p := try(func() { err = codec.Unmarshal(bad, reflect.New(typ).Interface()) }); p != nil {
			return rp.Failf(site+"/panic", "layout %s: Unmarshal of a message with a wrong fixed value panicked: %v", describe(c), p)
		} else if err == nil {
			return rp.Failf(site+"/fixed-value-not-enforced", "layout %s: byte %02x at offset %d (fixed value %s) was accepted", describe(c), bad[f.Off], f.Off, f.Tag)
		}
	}
	return nil
}

func check(c layoutCase) *rp.Fail {
	nt := len(c.Fields) >= 2
	class := "layout/multi-field"
	if len(c.Fields) == 1 {
		class = "layout/single-field"
	}
	last := false
	for _, f := range c.Fields {
		if f.Off+kindByName(f.Kind).width == 64 {
			last = true
		}
		ev.Class(fmt.Sprintf("kind/%s/offset-band-%d", f.Kind, f.Off/16), 1)
		if f.Embedded {
			ev.Class("layout/has-embedded-field", 1)
		}
	}
	if last {
		nt = true
		ev.Class("layout/field-ends-on-byte-63", 1)
	}
	ev.Case(class, nt, fmt.Sprintf("%+v", c))
	if ev.WantSample(class) {
		ev.Sample(class, map[string]any{"layout": describe(c), "case": c})
	}
	return decide(c)
}

func codeTag(t *rapid.T, code byte) string {
	switch rapid.IntRange(0, 3).Draw(t, "code.form") {
	case 0:
		return fmt.Sprintf("%d", code)
	case 1:
		return fmt.Sprintf("0x%02x", code)
	case 2:
		return fmt.Sprintf("0X%02X", code)
	}
	return fmt.Sprintf("0x%02X", code)
}

func genLayout(t *rapid.T) layoutCase {
	code := byte(rapid.IntRange(1, 255).Draw(t, "code"))
	c := layoutCase{Code: code, CodeTag: codeTag(t, code)}
	switch rapid.IntRange(0, 5).Draw(t, "som") {
	case 0:
		c.SOM = "0x17"
	case 1:
		c.SOM = "23"
	case 2:
		c.Code, c.CodeTag, c.SOM = 0x20, codeTag(t, 0x20), rapid.SampledFrom([]string{"0x19", "25", "0X19"}).Draw(t, "som19")
	}
	n := rapid.IntRange(1, 12).Draw(t, "fields")
	wide := rapid.IntRange(0, 7).Draw(t, "wide") == 0
	if wide {
		// a wide layout: as many fields as the 62 payload bytes hold (the struct then has more fields than a machine word has bits)
		n = rapid.IntRange(30, 62).Draw(t, "fields.wide")
	}
	used := make([]bool, 64)
	embed := rapid.IntRange(0, 2).Draw(t, "embed") == 0
	for i := 0; i < n; i++ {
		k := kinds[rapid.IntRange(0, len(kinds)-1).Draw(t, "kind")]
		if wide && i > 3 {
			// (mostly one-byte kinds, so that the fields fit)
			for _, cand := range kinds {
				if cand.width == 1 && rapid.IntRange(0, 2).Draw(t, "narrow") != 0 {
					k = cand
					if rapid.Bool().Draw(t, "narrow.pick") {
						break
					}
				}
			}
		}
		// place at a random free offset (construction, a few attempts, then first fit)
		off := -1
		for try := 0; try < 6 && off < 0; try++ {
			o := rapid.IntRange(2, 64-k.width).Draw(t, "off")
			if rapid.IntRange(0, 7).Draw(t, "off.last") == 0 {
				o = 64 - k.width
			}
			free := true
			for j := o; j < o+k.width; j++ {
				if used[j] {
					free = false
				}
			}
			if free {
				off = o
			}
		}
		if off < 0 && wide {
			for o := 2; o+k.width <= 64 && off < 0; o++ { // first fit
				free := true
				for j := o; j < o+k.width; j++ {
					if used[j] {
						free = false
					}
				}
				if free {
					off = o
				}
			}
		}
		if off < 0 {
			continue
		}
		for j := off; j < off+k.width; j++ {
			used[j] = true
		}
		f := lField{Kind: k.name, Off: off, Embedded: embed && rapid.Bool().Draw(t, "embedded")}
		if rapid.IntRange(0, 3).Draw(t, "offset.form") == 0 {
			f.OffFmt = uint8(rapid.IntRange(1, 3).Draw(t, "offset.fmt"))
			f.TagForm = uint8(rapid.IntRange(0, 4).Draw(t, "tag.form"))
		}
		if k.name == "u8fixed" {
			x := rapid.IntRange(0, 255).Draw(t, "fixed")
			f.Tag = []string{fmt.Sprintf("%d", x), fmt.Sprintf("0x%02x", x), fmt.Sprintf("0X%02X", x), fmt.Sprintf("0x%02X", x)}[rapid.IntRange(0, 3).Draw(t, "fixed.form")]
		} else {
			f.Val = fv.Gen(t, k.typ, "UTC")
		}
		c.Fields = append(c.Fields, f)
	}
	if len(c.Fields) == 0 {
		c.Fields = []lField{{Kind: "u32", Off: 4, Val: fv.FV{U: 405419896}}}
	}
	if rapid.IntRange(0, 2).Draw(t, "untagged") == 0 {
		c.Extra = rapid.IntRange(1, 4).Draw(t, "untagged.n")
	}
	c.CodeEmb = embed && rapid.Bool().Draw(t, "code.embedded")
	c.Shadow = embed && rapid.IntRange(0, 2).Draw(t, "shadow") == 0
	return c
}

// every (kind, offset) that fits, as single-field layouts, with boundary values
func sweepSingle(yield func(layoutCase) bool) {
	idx := 0
	samples := func(k kind) []lField {
		switch k.name {
		case "u8fixed":
			return []lField{{Tag: "32"}, {Tag: "0x20"}, {Tag: "0XFE"}, {Tag: "255"}, {Tag: "0"}, {Tag: "0x0a"}, {Tag: "9"}, {Tag: "10"}}
		case "date", "*date":
			return []lField{{Val: fv.FV{Y: 2024, M: 12, D: 31}}, {Val: fv.FV{Zero: true}}, {Val: fv.FV{Nil: k.name[0] == '*', Zero: true}}, {Val: fv.FV{Y: 1999, M: 10, D: 9}}, {Val: fv.FV{Y: 2000, M: 2, D: 29}}, {Val: fv.FV{Y: 2400, M: 2, D: 29}}, {Val: fv.FV{Y: 1, M: 1, D: 2}}, {Val: fv.FV{Y: 9999, M: 12, D: 31}}}
		case "datetime", "*datetime":
			return []lField{{Val: fv.FV{Y: 2024, M: 12, D: 31, H: 23, Mi: 59, S: 58}}, {Val: fv.FV{Zero: true}}, {Val: fv.FV{Nil: k.name[0] == '*', Zero: true}}, {Val: fv.FV{Y: 2000, M: 2, D: 29, H: 0, Mi: 0, S: 1}}, {Val: fv.FV{Y: 2000, M: 1, D: 1}}}
		case "sysdate":
			return []lField{{Val: fv.FV{Y: 2024, M: 12, D: 31}}, {Val: fv.FV{Y: 2000, M: 1, D: 1}}}
		case "systime":
			return []lField{{Val: fv.FV{H: 23, Mi: 59, S: 58}}, {Val: fv.FV{}}}
		case "hhmm", "*hhmm":
			return []lField{{Val: fv.FV{H: 24}}, {Val: fv.FV{H: 9, Mi: 59}}, {Val: fv.FV{Nil: k.name[0] == '*'}}}
		case "bool":
			return []lField{{Val: fv.FV{U: 1}}, {Val: fv.FV{U: 0}}}
		case "u8":
			return []lField{{Val: fv.FV{U: 0xa5}}, {Val: fv.FV{U: 0xff}}}
		case "u16", "version":
			return []lField{{Val: fv.FV{U: 0xa1b2}}, {Val: fv.FV{U: 0xffff}}, {Val: fv.FV{U: 1}}}
		case "pin":
			return []lField{{Val: fv.FV{U: 999999}}, {Val: fv.FV{U: 1}}}
		case "addrport":
			return []lField{{Val: fv.FV{U: 0x6401a8c0 | 60001<<32}}, {Val: fv.FV{U: 0xffffffffffff}}}
		case "mac", "rawmac":
			return []lField{{Val: fv.FV{U: 0x2d5539196600}}, {Val: fv.FV{U: 0xffffffffffff}}}
		}
		return []lField{{Val: fv.FV{U: 0xa1b2c3d4}}, {Val: fv.FV{U: 0xffffffff}}, {Val: fv.FV{U: 1}}}
	}
	for _, k := range kinds {
		for off := 2; off+k.width <= 64; off++ {
			for vi, s := range samples(k) {
				for _, emb := range []bool{false, true} {
					if emb && vi != 0 {
						continue
					}
					idx++
					if !ev.Mine(idx) {
						continue
					}
					f := s
					f.Kind, f.Off, f.Embedded = k.name, off, emb
					f.OffFmt = uint8((off + vi) % 4)
					f.TagForm = uint8((off/4 + vi) % 5)
					code := byte(0x5f + off)
					c := layoutCase{Code: code, CodeTag: []string{fmt.Sprintf("0x%02x", code), fmt.Sprintf("%d", code), fmt.Sprintf("0X%02X", code)}[off%3], Fields: []lField{f}, CodeEmb: emb && off%2 == 0}
					if !yield(c) {
						return
					}
					if vi == 0 && !emb {
						// the same field between two sentinel bytes: the one that FOLLOWS it in the message is declared (and so
						// written) before it, the one that precedes it after it - a field that writes or reads one byte too many
						// in either direction destroys a sentinel
						var fs []lField
						if off+k.width < 64 {
							fs = append(fs, lField{Kind: "u8", Off: off + k.width, Val: fv.FV{U: 0xff}})
						}
						fs = append(fs, f)
						if off-1 >= 2 {
							fs = append(fs, lField{Kind: "u8", Off: off - 1, Val: fv.FV{U: 0xff}})
						}
						c2 := c
						c2.Fields = fs
						if !yield(c2) {
							return
						}
					}
				}
			}
		}
	}
}

func props() []rp.Prop {
	return []rp.Prop{rp.P[layoutCase]{Name: "layout", Checks: ev.Pick(12000, 400000) / ev.Shards(), Gen: genLayout, Sweep: sweepSingle, Check: check}}
}

func TestC18(t *testing.T)    { rp.RunAll(t, props()...) }
func TestReplay(t *testing.T) { rp.ReplayAll(t, append(props(), namedProps()...)...) }

func FuzzLayout(f *testing.F) {
	if os.Getenv("VERIF_FUZZ") == "" {
		f.Skip("native fuzzing runs in the thorough tier only")
	}
	f.Add([]byte{0x5f, 2, 4, 0, 1, 2, 3, 10, 8, 9, 9, 9})
	f.Add([]byte{0x20, 11, 57, 20, 24, 12, 31, 23, 59, 58})
	f.Add([]byte{0x94, 7, 58, 1, 2, 3, 4, 5, 6, 2, 62, 0xff, 0xff})
	f.Fuzz(func(t *testing.T, b []byte) {
		// bytes -> layout: code, then (kind, offset, 6 value bytes) triples; overlapping fields are dropped
		if len(b) < 3 {
			return
		}
		c := layoutCase{Code: b[0] | 1, CodeTag: fmt.Sprintf("0x%02x", b[0]|1)}
		used := make([]bool, 64)
		for p := 1; p+2 <= len(b) && len(c.Fields) < 12; p += 8 {
			k := kinds[int(b[p])%len(kinds)]
			off := 2 + int(b[p+1])%(63-k.width)
			if int(b[p+1])%5 == 0 {
				off = 64 - k.width
			}
			free := true
			for j := off; j < off+k.width; j++ {
				if used[j] {
					free = false
				}
			}
			if !free {
				continue
			}
			for j := off; j < off+k.width; j++ {
				used[j] = true
			}
			var raw [6]byte
			copy(raw[:], b[min(p+2, len(b)):])
			fl := lField{Kind: k.name, Off: off, Embedded: raw[5]&1 == 1}
			u := uint64(raw[0]) | uint64(raw[1])<<8 | uint64(raw[2])<<16 | uint64(raw[3])<<24
			switch k.name {
			case "u8fixed":
				fl.Tag = []string{fmt.Sprintf("%d", raw[0]), fmt.Sprintf("0x%02x", raw[0]), fmt.Sprintf("0X%02X", raw[0])}[int(raw[1])%3]
			case "u8":
				fl.Val.U = u & 0xff
			case "bool":
				fl.Val.U = u & 1
			case "u16", "version":
				fl.Val.U = u & 0xffff
			case "pin":
				fl.Val.U = u % 1000000
			case "addrport", "mac", "rawmac":
				fl.Val.U = u | uint64(raw[4])<<32 | uint64(raw[5])<<40
			case "date", "*date", "datetime", "*datetime", "sysdate":
				fl.Val = fv.FV{Y: 2000 + int(raw[0])%69, M: 1 + int(raw[1])%12, D: 1 + int(raw[2])%28, H: int(raw[3]) % 24, Mi: int(raw[4]) % 60, S: int(raw[5]) % 60}
				if raw[0] == 0xff && k.name != "sysdate" {
					fl.Val = fv.FV{Zero: true, Nil: k.name[0] == '*'}
				}
			case "systime":
				fl.Val = fv.FV{H: int(raw[3]) % 24, Mi: int(raw[4]) % 60, S: int(raw[5]) % 60}
			case "hhmm", "*hhmm":
				fl.Val = fv.FV{H: int(raw[3]) % 24, Mi: int(raw[4]) % 60}
			default:
				fl.Val.U = u
			}
			c.Fields = append(c.Fields, fl)
		}
		if len(c.Fields) == 0 {
			return
		}
		if x := decide(c); x != nil && !strings.HasPrefix(x.Fingerprint, "harness/") {
			t.Fatalf("[%s] %s", x.Fingerprint, x.Msg)
		}
	})
}
