package c13

import (
	"fmt"
	"os"
	"sync"
	"testing"
	"time"

	"github.com/uhppoted/uhppote-core/types"

	"verif/harness/api"
	"verif/harness/ev"
)

// TestAAAConcurrentDecoding runs first: several goroutines decode THEIR OWN date / date-time over and over in a tight loop
// (pollers that read the same timestamps again and again, each its own): what a goroutine reads is the civil value of its own
// bytes, never what another goroutine decoded at that moment. The process zone stays fixed during this test.
func TestAAAConcurrentDecoding(t *testing.T) {
	if ev.Replaying() || os.Getenv("VERIF_CHILD_CASES") != "" {
		t.Skip()
	}
	type job struct {
		wire []byte
		want string
		kind string
	}
	var jobs []job
	for i := 0; i < 8; i++ {
		y, m, d, h, mi, s := 2019+i, 1+(i*5)%12, 1+(i*7)%28, (i*3)%24, (i*11)%60, (i*13)%60
		jobs = append(jobs, job{[]byte{0x20, bcd(y % 100), bcd(m), bcd(d), bcd(h), bcd(mi), bcd(s), 0, 0}, fmt.Sprintf("%04d-%02d-%02d %02d:%02d:%02d", y, m, d, h, mi, s), "datetime"})
		jobs = append(jobs, job{[]byte{0x20, bcd(y % 100), bcd(m), bcd(d), 0, 0}, fmt.Sprintf("%04d-%02d-%02d", y, m, d), "date"})
	}
	iters := ev.Pick(150000, 3000000)
	var mu sync.Mutex
	var first string
	var wg sync.WaitGroup
	start := make(chan struct{})
	for _, j := range jobs {
		wg.Add(1)
		go func(j job) {
			defer wg.Done()
			<-start
			for i := 0; i < iters; i++ {
				got := ""
				switch j.kind {
				case "datetime":
					var dt types.DateTime
					out, err := dt.UnmarshalUT0311L0x(j.wire)
					if p, ok := out.(*types.DateTime); err == nil && ok && p != nil {
						got = api.DateTimeText(*p)
					} else {
						got = fmt.Sprint("error: ", err)
					}
				default:
					var dd types.Date
					out, err := dd.UnmarshalUT0311L0x(j.wire)
					if p, ok := out.(*types.Date); err == nil && ok && p != nil {
						got = api.DateText(*p)
					} else {
						got = fmt.Sprint("error: ", err)
					}
				}
				if got != j.want {
					mu.Lock()
					if first == "" {
						first = fmt.Sprintf("a goroutine decoding the %s bytes %x over and over read %q (its own value is %q) while other goroutines were decoding theirs (iteration %d)", j.kind, j.wire, got, j.want, i)
					}
					mu.Unlock()
					return
				}
				if i%4096 == 0 {
					mu.Lock()
					stop := first != ""
					mu.Unlock()
					if stop {
						return
					}
				}
			}
		}(j)
	}
	t0 := time.Now()
	close(start)
	wg.Wait()
	ev.Bulk("concurrent/own-timestamp-decoded-repeatedly", int64(len(jobs))*int64(iters), int64(len(jobs))*int64(iters))
	ev.Note("concurrent_decoding_seconds", time.Since(t0).Seconds())
	if first != "" && ev.Failure("civil", "types/concurrent-decoding/wrong-fields", first, dCase{Zone: "UTC", Kind: "datetime"}) {
		t.Errorf("%s", first)
	}
}
