// C13 - calendar dates and times keep their civil value in every time zone.
package c13

import (
	"bytes"
	"encoding/json"
	"fmt"
	"os"
	"os/exec"
	"runtime"
	"strings"
	"sync"
	"testing"
	"time"

	"github.com/uhppoted/uhppote-core/types"
	"pgregory.net/rapid"

	"verif/harness/api"
	"verif/harness/ev"
	"verif/harness/gen"
	"verif/harness/hook"
	"verif/harness/rp"
	"verif/harness/spec"
	"verif/harness/zones"
)

func TestMain(m *testing.M) {
	if os.Getenv("VERIF_CHILD_CASES") != "" {
		os.Exit(child())
	}
	time.Local = time.UTC
	ev.Describe("every zone of the tz database as process-local zone x {every day 1900-2100 whose local midnight does not exist in that zone (found by the harness: offset-change scan + bisection) and its neighbours, month/year/leap boundaries, rapid-drawn days 0001-01-02..9999-12-31}: the Date obtained from wire bytes (direct decoder and through GetCardByIndex/GetDevice replies), from ParseDate, from ToDate and from JSON must report exactly (y, m, d), print as yyyy-mm-dd and encode back to the same BCD digits; days with no instant in the zone (Pacific/Apia 2011-12-30) are exempt and counted. Date-times: civil times inside, at the edges of and around every offset transition 1970-2040 of the zone plus random ones - whenever the civil time exists in the zone (time.Date returns it unchanged) the decoded DateTime (direct, GetTime, GetEvent) and the status system date+time (GetStatus, listener event) must report exactly the six fields. Non-trivial = the zone's UTC offset changes within +-1 day of the date; distinct = distinct (zone, kind, civil value).",
		"Go's time package (zone arithmetic, time.Date normalisation) is the trusted base for 'exists in the zone'",
		"time.Local is switched in-process; a sample of (zone, day) pairs is re-checked in child processes started with a real TZ= environment (quick: 6 zones, thorough: every zone with a midnight gap)",
		"the tz database of this image defines which (zone, day) pairs are interesting")
	ev.Main(m, "C13")
}

type dCase struct {
	Zone string `json:"zone"`
	Kind string `json:"kind"` // date | datetime
	Y    int    `json:"y"`
	M    int    `json:"m"`
	D    int    `json:"d"`
	H    int    `json:"h"`
	Mi   int    `json:"mi"`
	S    int    `json:"s"`
	// DevTZ: the controller is configured with this time zone (the civil time lies in a gap of THAT zone, not of the process
	// zone): what a controller sends is read in the process zone whatever zone it is configured with
	DevTZ string `json:"device_tz,omitempty"`
}

func bcd(v int) byte { return byte((v/10)<<4 | v%10) }

func try(f func()) (p any) {
	defer func() { p = recover() }()
	f()
	return nil
}

func offsetChangesNear(loc *time.Location, y, m, d int) bool {
	_, a := time.Date(y, time.Month(m), d-1, 0, 0, 0, 0, time.UTC).Add(-12 * time.Hour).In(loc).Zone()
	_, b := time.Date(y, time.Month(m), d+2, 0, 0, 0, 0, time.UTC).Add(12 * time.Hour).In(loc).Zone()
	if a != b {
		return true
	}
	_, c := time.Date(y, time.Month(m), d, 12, 0, 0, 0, time.UTC).In(loc).Zone()
	return c != a
}

// checkDateCore verifies one (y,m,d) under the current time.Local; returns "" or a description.
func checkDateCore(y, m, d int) (site, msg string) {
	text := fmt.Sprintf("%04d-%02d-%02d", y, m, d)
	wire := []byte{bcd(y / 100), bcd(y % 100), bcd(m), bcd(d)}
	verify := func(site string, v types.Date) (string, string) {
		t := time.Time(v)
		if yy, mm, dd := t.Date(); yy != y || int(mm) != m || dd != d {
			return site + "/wrong-day", fmt.Sprintf("%s of %s reports %04d-%02d-%02d", site, text, yy, int(mm), dd)
		}
		if s := v.String(); s != text {
			return site + "/string", fmt.Sprintf("%s of %s prints as %q", site, text, s)
		}
		enc, err := v.MarshalUT0311L0x()
		if err != nil || !bytes.Equal(enc, wire) {
			return site + "/re-encode", fmt.Sprintf("%s of %s encodes back to %x (%v), want %x", site, text, enc, err, wire)
		}
		js, err := json.Marshal(v)
		if err != nil || string(js) != `"`+text+`"` {
			return site + "/json", fmt.Sprintf("%s of %s marshals to %s (%v)", site, text, js, err)
		}
		return "", ""
	}
	// from the wire
	var dd types.Date
	out, err := dd.UnmarshalUT0311L0x(append(wire, 0, 0, 0, 0))
	if err != nil {
		return "types.Date.UnmarshalUT0311L0x/error", fmt.Sprintf("decoding %x failed: %v", wire, err)
	}
	if p, ok := out.(*types.Date); !ok || p == nil {
		return "types.Date.UnmarshalUT0311L0x/nil", fmt.Sprintf("decoding %x gave %T", wire, out)
	} else if s, msg := verify("types.Date.UnmarshalUT0311L0x", *p); s != "" {
		return s, msg
	}
	// parsed from text
	if v, err := types.ParseDate(text); err != nil {
		return "types.ParseDate/error", fmt.Sprintf("ParseDate(%q) failed: %v", text, err)
	} else if s, msg := verify("types.ParseDate", v); s != "" {
		return s, msg
	}
	// constructed
	if s, msg := verify("types.ToDate", types.ToDate(y, time.Month(m), d)); s != "" {
		return s, msg
	}
	// JSON
	var j types.Date
	if err := json.Unmarshal([]byte(`"`+text+`"`), &j); err != nil {
		return "types.Date.UnmarshalJSON/error", fmt.Sprintf("UnmarshalJSON(%q) failed: %v", text, err)
	} else if s, msg := verify("types.Date.UnmarshalJSON", j); s != "" {
		return s, msg
	}
	// the application also handles the very instant at which this day starts as a Date in ANOTHER location (a controller's
	// zone, UTC), where it falls on another calendar day: whatever that value encodes to, the date made here keeps its digits
	v := types.ToDate(y, time.Month(m), d)
	for _, foreign := range foreignLocations() {
		f := types.Date(time.Time(v).In(foreign))
		// (a few other dates first, so that this day is no longer among the most recently handled ones)
		for k := 1; k <= 4; k++ {
			o := types.Date(time.Date(2001+k, time.Month(k), 10+k, 0, 0, 0, 0, time.UTC))
			o.MarshalUT0311L0x()
			_ = o.String()
			json.Marshal(o)
		}
		if p := try(func() { f.MarshalUT0311L0x(); _ = f.String(); json.Marshal(f) }); p != nil {
			continue // (a Date wrapping a time in another location is the application's own construction: not judged)
		}
		if s, msg := verify("types.ToDate", v); s != "" {
			return s + "/after-same-instant-in-other-location", msg + fmt.Sprintf(" (right after a Date wrapping the same instant in %v had been encoded)", foreign)
		}
		if s, msg := verify("types.Date.UnmarshalUT0311L0x", *out.(*types.Date)); s != "" {
			return s + "/after-same-instant-in-other-location", msg + fmt.Sprintf(" (right after a Date wrapping the same instant in %v had been encoded)", foreign)
		}
	}
	return "", ""
}

var foreignLocs []*time.Location

func foreignLocations() []*time.Location {
	if foreignLocs == nil {
		foreignLocs = []*time.Location{time.UTC, time.FixedZone("", 14*3600), time.FixedZone("X", -12*3600), zones.Loc("Asia/Tokyo"), zones.Loc("America/New_York")}
	}
	return foreignLocs
}

var apiCounter int

// apiCfg cycles through client configurations that must not matter to any decoded date: unconfigured / configured
// controller (with and without address, literal or NewDevice), every kind of configured controller time zone, debug output.
func apiCfg() hook.ClientCfg {
	apiCounter++
	k := apiCounter
	tz := []string{"", "nil", "Local", "UTC", "+03:00", "-08:00", "+05:45", "Asia/Tokyo", "America/New_York", "Pacific/Apia", "America/Santiago"}[k%11]
	cfg := hook.ClientCfg{Debug: k%5 == 0}
	switch k % 3 {
	case 1:
		cfg.Devices = []hook.DeviceCfg{{Name: "A", Serial: 405419896, HasAddr: true, IP: [4]byte{10, 0, 0, 1}, Port: 60000, Protocol: "udp", TZ: tz, ViaNew: k%2 == 0}}
	case 2:
		cfg.Devices = []hook.DeviceCfg{{Name: "A", Serial: 405419896, TZ: tz, ViaNew: k%2 == 0}}
	}
	return cfg
}

func checkDateAPI(y, m, d int) (site, msg string) {
	text := fmt.Sprintf("%04d-%02d-%02d", y, m, d)
	u, drv := hook.Mem(apiCfg())
	l := spec.Responses["GetCardByIndex"]
	b := make([]byte, 64)
	spec.Header(b, 0x17, l.Code, 405419896)
	spec.PutLE32(b[8:], 8165537)
	spec.PutDate(b[l.Field("from").Off:], spec.Civil{Y: y, M: m, D: d})
	spec.PutDate(b[l.Field("to").Off:], spec.Civil{Y: y, M: m, D: d})
	drv.Reset(b)
	card, err := u.GetCardByIndex(405419896, 1)
	if err != nil || card == nil {
		return "uhppote.GetCardByIndex/error", fmt.Sprintf("reply with date %s: %v %v", text, card, err)
	}
	if got := api.DateText(card.From); got != text {
		return "uhppote.GetCardByIndex/wrong-day", fmt.Sprintf("card valid-from date %s came back as %s", text, got)
	}
	if got := api.DateText(card.To); got != text {
		return "uhppote.GetCardByIndex/wrong-day", fmt.Sprintf("card valid-until date %s came back as %s", text, got)
	}
	// and back out again through PutCard
	drv.Reset(okReply(0x50))
	if _, err := u.PutCard(405419896, *card); err != nil {
		return "uhppote.PutCard/error", err.Error()
	}
	req := drv.Sends()[0].Request
	want := make([]byte, 4)
	spec.PutDate(want, spec.Civil{Y: y, M: m, D: d})
	if !bytes.Equal(req[12:16], want) || !bytes.Equal(req[16:20], want) {
		return "uhppote.PutCard/re-encode", fmt.Sprintf("card dates %s were sent back as %x %x", text, req[12:16], req[16:20])
	}
	// system date in a status (years 2000..2068 only)
	if y >= 2000 && y <= 2068 {
		ls := spec.Responses["GetStatus"]
		s := make([]byte, 64)
		spec.Header(s, 0x17, 0x20, 405419896)
		off := ls.Field("system.date").Off
		s[off], s[off+1], s[off+2] = bcd(y%100), bcd(m), bcd(d)
		toff := ls.Field("system.time").Off
		s[toff], s[toff+1], s[toff+2] = 0x12, 0x34, 0x56
		if zones.CivilExists(time.Local, y, m, d, 12, 34, 56) {
			drv.Reset(s)
			st, err := u.GetStatus(405419896)
			if err != nil || st == nil {
				return "uhppote.GetStatus/error", fmt.Sprintf("status with system date %s: %v", text, err)
			}
			if got, want := api.DateTimeText(st.SystemDateTime), text+" 12:34:56"; got != want {
				return "uhppote.GetStatus/system-datetime", fmt.Sprintf("status system date+time %s came back as %s", want, got)
			}
		}
	}
	return "", ""
}

func okReply(code byte) []byte {
	b := make([]byte, 64)
	spec.Header(b, 0x17, code, 405419896)
	b[8] = 1
	return b
}

func checkDateTimeCore(c dCase) (site, msg string) {
	text := fmt.Sprintf("%04d-%02d-%02d %02d:%02d:%02d", c.Y, c.M, c.D, c.H, c.Mi, c.S)
	wire := []byte{bcd(c.Y / 100), bcd(c.Y % 100), bcd(c.M), bcd(c.D), bcd(c.H), bcd(c.Mi), bcd(c.S)}
	var dt types.DateTime
	out, err := dt.UnmarshalUT0311L0x(append(wire, 0, 0))
	if err != nil {
		return "types.DateTime.UnmarshalUT0311L0x/error", fmt.Sprintf("decoding %x failed: %v", wire, err)
	}
	p, ok := out.(*types.DateTime)
	if !ok || p == nil {
		return "types.DateTime.UnmarshalUT0311L0x/nil", fmt.Sprintf("decoding %x gave %T", wire, out)
	}
	if got := api.DateTimeText(*p); got != text {
		return "types.DateTime.UnmarshalUT0311L0x/wrong-fields", fmt.Sprintf("date-time %s decoded as %s", text, got)
	}
	if want := time.Date(c.Y, time.Month(c.M), c.D, c.H, c.Mi, c.S, 0, time.Local); !time.Time(*p).Equal(want) {
		return "types.DateTime.UnmarshalUT0311L0x/wrong-instant", fmt.Sprintf("date-time %s decoded to the instant %v; that civil time in the process zone is %v", text, time.Time(*p).UTC(), want.UTC())
	}
	if enc, err := p.MarshalUT0311L0x(); err != nil || !bytes.Equal(enc, wire) {
		return "types.DateTime.MarshalUT0311L0x/re-encode", fmt.Sprintf("date-time %s encodes back to %x", text, enc)
	}
	if s := p.String(); s != text {
		return "types.DateTime.String", fmt.Sprintf("date-time %s prints as %q", text, s)
	}
	// the same instant carried in other locations (the application converts a reading with .In(zone of the controller)) is
	// encoded with the civil time of THAT location, also right after this one was encoded and also when the other location
	// shares this zone's abbreviation and has another offset (CST is Chicago, Shanghai and Havana); this value keeps its own
	abbr, off := time.Time(*p).Zone()
	for _, l := range append(foreignLocations(), time.FixedZone(abbr, off-14*3600), time.FixedZone(abbr, off+5*3600+1800)) {
		q := time.Time(*p).In(l)
		if q.Year() < 1 || q.Year() > 9999 || q.IsZero() {
			continue
		}
		wq := []byte{bcd(q.Year() / 100), bcd(q.Year() % 100), bcd(int(q.Month())), bcd(q.Day()), bcd(q.Hour()), bcd(q.Minute()), bcd(q.Second())}
		if enc, err := types.DateTime(q).MarshalUT0311L0x(); err != nil || !bytes.Equal(enc, wq) {
			return "types.DateTime.MarshalUT0311L0x/same-instant-other-location", fmt.Sprintf("date-time %s, converted to location %v (%s), encodes as %x (%v), want %x", text, l, q.Format("2006-01-02 15:04:05 MST -0700"), enc, err, wq)
		}
		if enc, err := p.MarshalUT0311L0x(); err != nil || !bytes.Equal(enc, wire) {
			return "types.DateTime.MarshalUT0311L0x/after-other-location", fmt.Sprintf("date-time %s encodes as %x after the same instant was encoded in location %v", text, enc, l)
		}
	}
	// decoded into a variable that was used before and holds a value in ANOTHER location (the application had converted an
	// earlier reading with .In(zone of the controller)): what the controller sends is read in the process zone all the same
	usedIn := foreignLocations()
	if c.DevTZ != "" {
		usedIn = append([]*time.Location{zones.Loc(c.DevTZ)}, usedIn[0])
	}
	for _, foreign := range usedIn {
		used := types.DateTime(time.Date(2020, 6, 1, 12, 0, 0, 0, foreign))
		out, err := used.UnmarshalUT0311L0x(append(wire, 0, 0))
		p2, ok := out.(*types.DateTime)
		if err != nil || !ok || p2 == nil {
			return "types.DateTime.UnmarshalUT0311L0x/used-variable/error", fmt.Sprintf("decoding %x into a variable that held a date-time in %v: %v %T", wire, foreign, err, out)
		}
		if got := api.DateTimeText(*p2); got != text {
			return "types.DateTime.UnmarshalUT0311L0x/used-variable/wrong-fields", fmt.Sprintf("date-time %s decoded as %s into a variable that held a date-time in %v", text, got, foreign)
		}
		if !time.Time(*p2).Equal(time.Time(*p)) {
			return "types.DateTime.UnmarshalUT0311L0x/used-variable/wrong-instant", fmt.Sprintf("date-time %s decoded to the instant %v into a variable that held a date-time in %v, to %v into a fresh one", text, time.Time(*p2).UTC(), foreign, time.Time(*p).UTC())
		}
	}
	// through the API: GetTime, GetEvent and the status (event timestamp + system date/time)
	cfg := apiCfg()
	if c.DevTZ != "" {
		cfg = hook.ClientCfg{Debug: apiCounter%2 == 0, Devices: []hook.DeviceCfg{{Name: "A", Serial: 405419896, HasAddr: apiCounter%3 != 0, IP: [4]byte{10, 0, 0, 1}, Port: 60000, Protocol: "udp", TZ: c.DevTZ, ViaNew: apiCounter%4 < 2}}}
	}
	u, drv := hook.Mem(cfg)
	b := make([]byte, 64)
	spec.Header(b, 0x17, 0x32, 405419896)
	copy(b[8:], wire)
	drv.Reset(b)
	if tm, err := u.GetTime(405419896); err != nil || tm == nil {
		return "uhppote.GetTime/error", fmt.Sprintf("%s: %v", text, err)
	} else if got := api.DateTimeText(tm.DateTime); got != text {
		return "uhppote.GetTime/wrong-fields", fmt.Sprintf("controller time %s came back as %s", text, got)
	}
	e := make([]byte, 64)
	spec.Header(e, 0x17, 0xb0, 405419896)
	spec.PutLE32(e[8:], 17)
	e[12] = 1
	copy(e[20:], wire)
	drv.Reset(e)
	if evt, err := u.GetEvent(405419896, 17); err != nil || evt == nil {
		return "uhppote.GetEvent/error", fmt.Sprintf("%s: %v", text, err)
	} else if got := api.DateTimeText(evt.Timestamp); got != text {
		return "uhppote.GetEvent/wrong-fields", fmt.Sprintf("event timestamp %s came back as %s", text, got)
	}
	if c.Y >= 2000 && c.Y <= 2068 {
		ls := spec.Responses["GetStatus"]
		s := make([]byte, 64)
		spec.Header(s, 0x17, 0x20, 405419896)
		spec.PutLE32(s[8:], 99)
		copy(s[ls.Field("event.timestamp").Off:], wire)
		off := ls.Field("system.date").Off
		s[off], s[off+1], s[off+2] = bcd(c.Y%100), bcd(c.M), bcd(c.D)
		toff := ls.Field("system.time").Off
		s[toff], s[toff+1], s[toff+2] = bcd(c.H), bcd(c.Mi), bcd(c.S)
		drv.Reset(s)
		st, err := u.GetStatus(405419896)
		if err != nil || st == nil {
			return "uhppote.GetStatus/error", fmt.Sprintf("status with system date+time %s: %v", text, err)
		}
		if got := api.DateTimeText(st.SystemDateTime); got != text {
			return "uhppote.GetStatus/system-datetime", fmt.Sprintf("status system date+time %s came back as %s", text, got)
		}
		if got := api.DateTimeText(st.Event.Timestamp); got != text {
			return "uhppote.GetStatus/event-timestamp", fmt.Sprintf("status event timestamp %s came back as %s", text, got)
		}
		// the same status with the event stamped a century earlier / later (an event from 1926 in the store, a controller whose event
		// clock ran ahead): the SYSTEM date and time are combined from their own fields, the same way
		for _, delta := range []int{-100, 100} {
			y2 := c.Y + delta
			if !spec.ValidDate(y2, c.M, c.D) || !zones.CivilExists(time.Local, y2, c.M, c.D, c.H, c.Mi, c.S) {
				continue
			}
			s2 := append([]byte(nil), s...)
			toff2 := ls.Field("event.timestamp").Off
			s2[toff2], s2[toff2+1] = bcd(y2/100), bcd(y2%100)
			drv.Reset(s2)
			st2, err := u.GetStatus(405419896)
			if err != nil || st2 == nil {
				return "uhppote.GetStatus/error", fmt.Sprintf("status with system date+time %s and an event stamped in %04d: %v", text, y2, err)
			}
			if got := api.DateTimeText(st2.SystemDateTime); got != text {
				return "uhppote.GetStatus/system-datetime/event-in-another-century", fmt.Sprintf("status system date+time %s came back as %s (the event in the same record is stamped %04d-%02d-%02d %02d:%02d:%02d)", text, got, y2, c.M, c.D, c.H, c.Mi, c.S)
			}
		}
		// the listener combines system date and time the same way
		rec := &recorder{ch: make(chan struct{}, 64)}
		q := make(chan os.Signal)
		done := make(chan error, 1)
		go func() { done <- u.Listen(rec, q) }()
		for i := 0; i < 2000000 && !(rec.connected() && drv.Listening()); i++ { // (the in-memory driver accepts datagrams once the library has called its Listen)
			runtime.Gosched()
			if i > 2000 {
				time.Sleep(20 * time.Microsecond)
			}
		}
		drv.Push(s)
		rec.waitCount(1, 30*time.Second)
		// the same controller again with its clock a little less than a day back, then a little less than a day on (a clock
		// that was corrected between two events, events replayed from the store): every event is decoded on its own
		var laterTexts []string
		for k, delta := range []time.Duration{-(24*time.Hour - 60*time.Second), 24*time.Hour - 90*time.Second} {
			at := time.Date(c.Y, time.Month(c.M), c.D, c.H, c.Mi, c.S, 0, time.UTC).Add(delta)
			if at.Year() < 2000 || at.Year() > 2068 || !zones.CivilExists(time.Local, at.Year(), int(at.Month()), at.Day(), at.Hour(), at.Minute(), at.Second()) {
				break
			}
			s2 := append([]byte(nil), s...)
			s2[off], s2[off+1], s2[off+2] = bcd(at.Year()%100), bcd(int(at.Month())), bcd(at.Day())
			s2[toff], s2[toff+1], s2[toff+2] = bcd(at.Hour()), bcd(at.Minute()), bcd(at.Second())
			laterTexts = append(laterTexts, fmt.Sprintf("%04d-%02d-%02d %02d:%02d:%02d", at.Year(), int(at.Month()), at.Day(), at.Hour(), at.Minute(), at.Second()))
			drv.Push(s2)
			rec.waitCount(k+2, 30*time.Second)
		}
		close(q)
		<-done
		first, nev, errs := rec.first()
		if nev != 1+len(laterTexts) {
			return "uhppote.Listen/no-event", fmt.Sprintf("event with system date+time %s (and %d more from the same controller): %d events, errors %v", text, len(laterTexts), nev, errs)
		}
		if got := api.DateTimeText(first.SystemDateTime); got != text {
			return "uhppote.Listen/system-datetime", fmt.Sprintf("event system date+time %s came back as %s", text, got)
		}
		for k, want := range laterTexts {
			if got := api.DateTimeText(rec.at(k + 1).SystemDateTime); got != want {
				return "uhppote.Listen/system-datetime", fmt.Sprintf("event %d of the same controller: system date+time %s came back as %s (the event before it carried %s)", k+2, want, got, append([]string{text}, laterTexts...)[k])
			}
		}
	}
	return "", ""
}

func decideCase(c dCase) (fail *rp.Fail, exempt bool) {
	loc := zones.Loc(c.Zone)
	zones.With(loc, func() {
		var site, msg string
		if p := try(func() {
			switch c.Kind {
			case "date":
				if !zones.DayExists(loc, c.Y, c.M, c.D) {
					exempt = true
					return
				}
				site, msg = checkDateCore(c.Y, c.M, c.D)
				if site == "" {
					apiCounter++
					if !zones.MidnightExists(loc, c.Y, c.M, c.D) || apiCounter%8 == 0 {
						site, msg = checkDateAPI(c.Y, c.M, c.D)
					}
				}
			case "datetime":
				if !zones.CivilExists(loc, c.Y, c.M, c.D, c.H, c.Mi, c.S) {
					exempt = true
					return
				}
				site, msg = checkDateTimeCore(c)
			case "datepair":
				// two dates of the same year converted back to back, then the first one again (H = month, Mi = day of the second)
				if !zones.DayExists(loc, c.Y, c.M, c.D) || !zones.DayExists(loc, c.Y, c.H, c.Mi) {
					exempt = true
					return
				}
				for _, d := range [][2]int{{c.M, c.D}, {c.H, c.Mi}, {c.M, c.D}} {
					if site, msg = checkDateCore(c.Y, d[0], d[1]); site != "" {
						site, msg = site+"/second-of-a-pair", "(dates "+fmt.Sprintf("%04d-%02d-%02d and %04d-%02d-%02d", c.Y, c.M, c.D, c.Y, c.H, c.Mi)+" converted back to back) "+msg
						return
					}
				}
			}
		}); p != nil {
			site, msg = "panic", fmt.Sprint(p)
		}
		if site != "" {
			fail = rp.Failf(site, "zone %s: %s", c.Zone, msg)
		}
	})
	return
}

func checkCase(c dCase) *rp.Fail {
	f, exempt := decideCase(c)
	loc := zones.Loc(c.Zone)
	nt := !exempt && offsetChangesNear(loc, c.Y, c.M, c.D)
	class := c.Kind
	switch {
	case exempt && c.Kind == "date":
		class = "date/exempt-day-does-not-exist"
	case exempt:
		class = "datetime/exempt-civil-time-does-not-exist"
	case c.Kind == "date" && !zones.MidnightExists(loc, c.Y, c.M, c.D):
		class = "date/local-midnight-does-not-exist"
	case nt:
		class = c.Kind + "/offset-change-within-a-day"
	}
	ev.Case(class, nt, fmt.Sprint(c))
	if ev.WantSample(class) {
		ev.Sample(class, c)
	}
	return f
}

func myZones() []string {
	var out []string
	for i, z := range zones.Names() {
		if ev.Mine(i) {
			out = append(out, z)
		}
	}
	return out
}

// systematic part: per zone all midnight-gap days with neighbours, boundaries, transitions
func sweep(yield func(dCase) bool) {
	// civil times that do not exist in the zone the CONTROLLER is configured with (its spring-forward hour) while the process
	// runs in another zone, where they do exist
	if ev.Shard() == 1%ev.Shards() {
		for _, dz := range []string{"America/New_York", "Europe/Berlin", "Australia/Sydney", "America/Santiago", "Australia/Lord_Howe", "Asia/Tehran", "Africa/Cairo"} {
			for _, tr := range zones.Transitions(dz, 2015, 2026) {
				loc := zones.Loc(dz)
				_, before := tr.Add(-time.Second).In(loc).Zone()
				_, after := tr.In(loc).Zone()
				if after <= before {
					continue // clocks went back: no gap
				}
				// wall clock just before the jump, plus 1 s / half the jump: inside the gap
				w := tr.Add(-time.Second).In(loc)
				for _, add := range []time.Duration{time.Second, time.Duration(after-before) * time.Second / 2, time.Duration(after-before)*time.Second - time.Second} {
					g := time.Date(w.Year(), w.Month(), w.Day(), w.Hour(), w.Minute(), w.Second(), 0, time.UTC).Add(add)
					for _, pz := range []string{"UTC", "Asia/Tokyo", "America/Phoenix"} {
						if !yield(dCase{Zone: pz, Kind: "datetime", Y: g.Year(), M: int(g.Month()), D: g.Day(), H: g.Hour(), Mi: g.Minute(), S: g.Second(), DevTZ: dz}) {
							return
						}
					}
				}
			}
		}
	}
	// nothing may depend on the date the library is asked on: the days of the current week, hour by hour, in the synthetic
	// zone whose clock springs forward and falls back on every one of them
	if ev.Shard() == 0 {
		now := time.Now().UTC()
		for d := -3; d <= 4; d++ {
			day := now.AddDate(0, 0, d)
			if !yield(dCase{Zone: zones.Synthetic, Kind: "date", Y: day.Year(), M: int(day.Month()), D: day.Day()}) {
				return
			}
			for h := 0; h < 24; h++ {
				for _, mi := range []int{0, 30, 59} {
					if !yield(dCase{Zone: zones.Synthetic, Kind: "datetime", Y: day.Year(), M: int(day.Month()), D: day.Day(), H: h, Mi: mi, S: 7}) {
						return
					}
				}
			}
		}
	}
	// ... nor on the time of day it is asked at: zones whose clock falls back a few minutes from now / fell back a few minutes ago,
	// and the readings of the current minutes in them (the repeated hour is now)
	if ev.Shard() == 2%ev.Shards() {
		for _, minutes := range []string{"-50", "-20", "-5", "5", "20", "50"} {
			z := "Synthetic/FallsBackIn/" + minutes
			loc := zones.Loc(z)
			for delta := -150; delta <= 150; delta += 30 {
				for _, hours := range []int{0, 1, -1} {
					w := time.Now().Add(time.Duration(delta)*time.Second + time.Duration(hours)*time.Hour).In(loc)
					if !yield(dCase{Zone: z, Kind: "datetime", Y: w.Year(), M: int(w.Month()), D: w.Day(), H: w.Hour(), Mi: w.Minute(), S: w.Second()}) {
						return
					}
				}
			}
		}
	}
	// ... nor on where 'now' lies relative to the zone's clock changes: zones west of Greenwich whose NEXT change (in 1, 2, 30 days)
	// or last change (2 days ago) removes a local midnight - that day and its neighbours
	if ev.Shard() == 3%ev.Shards() {
		for _, n := range []int{1, 2, 30, -2, 0} {
			z := fmt.Sprintf("Synthetic/SkipsMidnightInDays/%d", n)
			day := time.Now().UTC().AddDate(0, 0, n)
			for delta := -1; delta <= 1; delta++ {
				w := day.AddDate(0, 0, delta)
				if !yield(dCase{Zone: z, Kind: "date", Y: w.Year(), M: int(w.Month()), D: w.Day()}) {
					return
				}
				if !yield(dCase{Zone: z, Kind: "datetime", Y: w.Year(), M: int(w.Month()), D: w.Day(), H: 1, Mi: 30, S: 0}) {
					return
				}
			}
		}
	}
	boundaries := []spec.Civil{{Y: 1, M: 1, D: 2}, {Y: 1, M: 12, D: 31}, {Y: 1582, M: 10, D: 10}, {Y: 1899, M: 12, D: 31}, {Y: 1900, M: 2, D: 28}, {Y: 1900, M: 3, D: 1}, {Y: 1970, M: 1, D: 1}, {Y: 1999, M: 12, D: 31},
		{Y: 2000, M: 1, D: 1}, {Y: 2000, M: 2, D: 29}, {Y: 2024, M: 2, D: 29}, {Y: 2024, M: 3, D: 31}, {Y: 2024, M: 10, D: 27}, {Y: 2038, M: 1, D: 19}, {Y: 2100, M: 2, D: 28}, {Y: 9999, M: 12, D: 31}}
	for _, z := range myZones() {
		loc := zones.Loc(z)
		for _, g := range zones.MidnightGaps(z, 1900, 2100) {
			for delta := -1; delta <= 1; delta++ {
				t := time.Date(g.Y, time.Month(g.M), g.D+delta, 12, 0, 0, 0, time.UTC)
				if !yield(dCase{Zone: z, Kind: "date", Y: t.Year(), M: int(t.Month()), D: t.Day()}) {
					return
				}
			}
		}
		// the zone's final rule projected to far-future years
		for _, y := range []int{2150, 2500, 3000, 9998} {
			for _, g := range zones.MidnightGaps(z, y, y) {
				if !yield(dCase{Zone: z, Kind: "date", Y: g.Y, M: g.M, D: g.D}) {
					return
				}
			}
		}
		for _, b := range boundaries {
			if !yield(dCase{Zone: z, Kind: "date", Y: b.Y, M: b.M, D: b.D}) {
				return
			}
		}
		// boundary date-times (next to the wire sentinels, ends of centuries / years / months / days)
		for _, y := range []int{1, 1900, 1970, 1999, 2000, 2001, 2038, 2100, 9999} {
			for _, md := range [][2]int{{1, 1}, {1, 2}, {2, 28}, {12, 31}} {
				for _, hms := range [][3]int{{0, 0, 0}, {0, 0, 1}, {23, 59, 59}} {
					if y == 1 && md == [2]int{1, 1} {
						continue
					}
					if !yield(dCase{Zone: z, Kind: "datetime", Y: y, M: md[0], D: md[1], H: hms[0], Mi: hms[1], S: hms[2]}) {
						return
					}
				}
			}
		}
		// the zone's own reading of the instants that mean something to a program - the zero time.Time, the Unix epoch, the ends of
		// 32-bit second counts - and their neighbours: to the controller they are civil times like any other
		for _, inst := range []time.Time{{}, time.Unix(0, 0), time.Unix(1<<31, 0), time.Unix(1<<31-1, 0), time.Unix(1<<32, 0), time.Unix(-(1 << 31), 0), time.Unix(253402300799, 0)} {
			for _, delta := range []time.Duration{0, -time.Second, time.Second} {
				w := inst.Add(delta).In(loc)
				if w.Year() < 1 || w.Year() > 9999 || w.IsZero() {
					// (the zone's reading of the ZERO instant itself - one civil second per zone, in the year 1 - is not judged: the zero
					// time.Time is the library's 'no value', its own IsZero / String / JSON cannot tell the two apart; section 3 rule 1)
					continue
				}
				if !yield(dCase{Zone: z, Kind: "datetime", Y: w.Year(), M: int(w.Month()), D: w.Day(), H: w.Hour(), Mi: w.Minute(), S: w.Second()}) {
					return
				}
			}
		}
		// civil times in and around every transition 1970-2040
		trs := zones.Transitions(z, 1970, 2040)
		step := 1
		if !ev.Thorough() && len(trs) > 24 {
			step = len(trs) / 24
		}
		for i := 0; i < len(trs); i += step {
			tr := trs[i]
			for _, delta := range []time.Duration{-2 * time.Hour, -time.Hour - time.Second, -time.Hour, -30 * time.Minute, -time.Second, 0, time.Second, 30 * time.Minute, time.Hour - time.Second, time.Hour, 2 * time.Hour} {
				// wall clocks just before the transition (old offset) and just after (new offset), shifted by delta:
				for _, base := range []time.Time{tr.Add(-time.Second).In(loc), tr.In(loc)} {
					y, m, d := base.Date()
					h, mi, s := base.Clock()
					w := time.Date(y, m, d, h, mi, s, 0, time.UTC).Add(delta) // pure wall-clock arithmetic
					c := dCase{Zone: z, Kind: "datetime", Y: w.Year(), M: int(w.Month()), D: w.Day(), H: w.Hour(), Mi: w.Minute(), S: w.Second()}
					if !yield(c) {
						return
					}
				}
			}
		}
	}
}

func genCase(t *rapid.T) dCase {
	names := zones.Names()
	z := names[rapid.IntRange(0, len(names)-1).Draw(t, "zone")]
	c := gen.Civil(t, "date")
	if rapid.IntRange(0, 3).Draw(t, "pair") == 0 {
		m2 := rapid.IntRange(1, 12).Draw(t, "m2")
		d2 := rapid.IntRange(1, spec.DaysIn(c.Y, m2)).Draw(t, "d2")
		if c.Y == 1 && m2 == 1 && d2 == 1 {
			d2 = 2 // 0001-01-01 is outside the stated domain
		}
		return dCase{Zone: z, Kind: "datepair", Y: c.Y, M: c.M, D: c.D, H: m2, Mi: d2}
	}
	if rapid.Bool().Draw(t, "datetime") {
		return dCase{Zone: z, Kind: "datetime", Y: c.Y, M: c.M, D: c.D, H: rapid.IntRange(0, 23).Draw(t, "h"), Mi: rapid.IntRange(0, 59).Draw(t, "mi"), S: rapid.IntRange(0, 59).Draw(t, "s")}
	}
	return dCase{Zone: z, Kind: "date", Y: c.Y, M: c.M, D: c.D}
}

type recorder struct {
	mu     sync.Mutex
	events []types.Status
	errs   []string
	conn   bool
	ch     chan struct{} // a token per callback (waiters do not poll)
}

func (r *recorder) signal() {
	if r.ch != nil {
		select {
		case r.ch <- struct{}{}:
		default:
		}
	}
}

// waitCount waits until at least n callbacks have been recorded (or the time is up).
func (r *recorder) waitCount(n int, limit time.Duration) {
	deadline := time.After(limit)
	for r.count() < n {
		select {
		case <-r.ch:
		case <-deadline:
			return
		}
	}
}

func (r *recorder) OnConnected() {
	r.mu.Lock()
	r.conn = true
	r.mu.Unlock()
}
func (r *recorder) OnEvent(s *types.Status) {
	r.mu.Lock()
	r.events = append(r.events, *s)
	r.mu.Unlock()
	r.signal()
}
func (r *recorder) OnError(err error) bool {
	r.mu.Lock()
	r.errs = append(r.errs, err.Error())
	r.mu.Unlock()
	r.signal()
	return true
}
func (r *recorder) connected() bool {
	r.mu.Lock()
	defer r.mu.Unlock()
	return r.conn
}
func (r *recorder) count() int {
	r.mu.Lock()
	defer r.mu.Unlock()
	return len(r.events) + len(r.errs)
}
func (r *recorder) at(i int) types.Status {
	r.mu.Lock()
	defer r.mu.Unlock()
	if i >= len(r.events) {
		return types.Status{}
	}
	return r.events[i]
}
func (r *recorder) first() (types.Status, int, []string) {
	r.mu.Lock()
	defer r.mu.Unlock()
	if len(r.events) == 0 {
		return types.Status{}, 0, r.errs
	}
	return r.events[0], len(r.events), r.errs
}

func props() []rp.Prop {
	return []rp.Prop{
		rp.P[dCase]{Name: "civil", Checks: ev.Pick(400000, 16000000) / ev.Shards(), Gen: genCase, Sweep: sweep, Check: checkCase},
		rp.P[inflightCase]{Name: "zone-changes-while-an-event-waits", Checks: ev.Pick(40, 4000) / ev.Shards(), Gen: genInflight, Check: checkInflight},
		rp.P[concCase]{Name: "concurrent-dates", Checks: ev.Pick(120, 12000) / ev.Shards(), Gen: genConc, Sweep: sweepConc, Check: checkConc},
	}
}

func TestC13(t *testing.T) { rp.RunAll(t, props()...) }

func TestReplay(t *testing.T) { rp.ReplayAll(t, props()...) }

// Child-process confirmation with a real TZ environment -----------------------------------------------

// childOut: the real standard output (the harness mutes os.Stdout once a client has been built)
var childOut = os.Stdout

func child() int {
	var cases []dCase
	if err := json.Unmarshal([]byte(os.Getenv("VERIF_CHILD_CASES")), &cases); err != nil {
		fmt.Fprintln(childOut, "CHILD-HARNESS-ERROR", err)
		return 2
	}
	bad := 0
	// two passes: as started, and after the TZ VARIABLE of the environment has been changed inside the running process
	// (os.Setenv - a configuration loader, a child-process helper): the zone of the process is what it was at start-up, the
	// variable is not read again
	for pass := 0; pass < 3; pass++ {
		if pass == 2 {
			// the same zone the way a host configured through /etc/localtime has it - a location that is NAMED "Local" - while
			// the TZ variable (still changed, see pass 1) names another zone
			if len(cases) == 0 {
				break
			}
			data, err := os.ReadFile("/usr/share/zoneinfo/" + cases[0].Zone)
			if err != nil {
				break
			}
			loc, err := time.LoadLocationFromTZData("Local", data)
			if err != nil {
				break
			}
			time.Local = loc
		}
		if pass == 1 {
			_ = time.Now().Local().String() // (the process zone is initialised by now)
			other := "Pacific/Kiritimati"
			if len(cases) > 0 && cases[0].Zone == other {
				other = "America/Anchorage"
			}
			os.Setenv("TZ", other)
		}
		bad += childPass(cases, pass)
	}
	fmt.Fprintf(childOut, "CHILD-DONE %d cases, %d failures\n", len(cases), bad)
	return 0
}

func childPass(cases []dCase, pass int) int {
	bad := 0
	for _, c := range cases {
		if time.Local.String() != "Local" && time.Local.String() != c.Zone {
			fmt.Fprintln(childOut, "CHILD-HARNESS-ERROR unexpected time.Local", time.Local)
			return 1 << 20
		}
		var site, msg string
		switch c.Kind {
		case "date":
			if !zones.DayExists(time.Local, c.Y, c.M, c.D) {
				continue
			}
			site, msg = checkDateCore(c.Y, c.M, c.D)
			if site == "" {
				site, msg = checkDateAPI(c.Y, c.M, c.D)
			}
		case "datetime":
			if !zones.CivilExists(time.Local, c.Y, c.M, c.D, c.H, c.Mi, c.S) {
				continue
			}
			site, msg = checkDateTimeCore(c)
		}
		if site != "" {
			b, _ := json.Marshal(c)
			if pass >= 1 {
				msg += " (after the TZ variable of the environment was changed inside the running process)"
			}
			if pass == 2 {
				msg += " (process zone: the same rules in a location named \"Local\", as on a host configured through /etc/localtime)"
			}
			fmt.Fprintf(childOut, "CHILD-FAIL\t%s\t%s\t%s\n", site, b, msg)
			bad++
		}
	}
	return bad
}

func TestChildTZ(t *testing.T) {
	if ev.Replaying() {
		t.Skip()
	}
	var zl []string
	if ev.Thorough() {
		for _, z := range myZones() {
			if len(zones.MidnightGaps(z, 1900, 2100)) > 0 {
				zl = append(zl, z)
			}
		}
	} else if ev.Shard() == 0 {
		zl = []string{"America/Santiago", "America/Havana", "Asia/Tehran", "Pacific/Apia", "Europe/London", "Asia/Beirut"}
	}
	for _, z := range zl {
		var cases []dCase
		gaps := zones.MidnightGaps(z, 1900, 2100)
		for i, g := range gaps {
			if i%((len(gaps)/12)+1) == 0 || g.Y >= 2015 {
				cases = append(cases, dCase{Zone: z, Kind: "date", Y: g.Y, M: g.M, D: g.D})
			}
		}
		cases = append(cases, dCase{Zone: z, Kind: "date", Y: 2024, M: 2, D: 29}, dCase{Zone: z, Kind: "date", Y: 1, M: 1, D: 2}, dCase{Zone: z, Kind: "datetime", Y: 2024, M: 7, D: 1, H: 23, Mi: 59, S: 59})
		b, _ := json.Marshal(cases)
		cmd := exec.Command(os.Args[0], "-test.run", "^$")
		cmd.Env = append(os.Environ(), "TZ="+z, "VERIF_CHILD_CASES="+string(b), "VERIF_OUT=")
		out, err := cmd.CombinedOutput()
		if err != nil || !strings.Contains(string(out), "CHILD-DONE") {
			ev.HarnessError("child process for TZ=%s failed: %v %s", z, err, out)
			continue
		}
		ev.Bulk("child-process/TZ-environment", int64(len(cases)), 0)
		for _, line := range strings.Split(string(out), "\n") {
			if strings.HasPrefix(line, "CHILD-FAIL\t") {
				parts := strings.SplitN(line, "\t", 4)
				var c dCase
				json.Unmarshal([]byte(parts[2]), &c)
				if ev.Failure("civil", parts[1], "TZ="+z+" (child process): "+parts[3], c) {
					t.Errorf("child TZ=%s: %s", z, line)
				}
			}
		}
	}
}
