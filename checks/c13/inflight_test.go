package c13

import (
	"fmt"
	"os"
	"runtime"
	"time"

	"pgregory.net/rapid"

	"github.com/uhppoted/uhppote-core/types"

	"verif/harness/api"
	"verif/harness/ev"
	"verif/harness/hook"
	"verif/harness/rp"
	"verif/harness/spec"
	"verif/harness/zones"
)

// An application re-reads its configuration and assigns a new time.Local while the listener is up and an event is waiting
// behind a busy OnEvent: the event was received (and its date and time fields read) under the old zone and is handed to the
// application under the new one. A controller's date and time are civil values: the event reports the transmitted year,
// month, day, hour, minute and second (the civil time is chosen to exist in both zones).
type inflightCase struct {
	ZoneA string       `json:"zone_at_receipt"`
	ZoneB string       `json:"zone_at_delivery"`
	T     spec.CivilDT `json:"system_date_time"`
}

type gated struct {
	recorder
	entered chan struct{}
	gate    chan struct{}
	n       int
}

func (g *gated) OnEvent(s *types.Status) {
	g.n++
	if g.n == 1 {
		g.entered <- struct{}{}
		<-g.gate
	}
	g.recorder.OnEvent(s)
}

func checkInflight(c inflightCase) *rp.Fail {
	a, b := zones.Loc(c.ZoneA), zones.Loc(c.ZoneB)
	if c.T.Y < 2000 || c.T.Y > 2068 || !zones.CivilExists(a, c.T.Y, c.T.M, c.T.D, c.T.H, c.T.Mi, c.T.S) || !zones.CivilExists(b, c.T.Y, c.T.M, c.T.D, c.T.H, c.T.Mi, c.T.S) {
		return nil
	}
	_, oa := time.Date(c.T.Y, time.Month(c.T.M), c.T.D, c.T.H, c.T.Mi, c.T.S, 0, a).Zone()
	_, ob := time.Date(c.T.Y, time.Month(c.T.M), c.T.D, c.T.H, c.T.Mi, c.T.S, 0, b).Zone()
	ev.Case("zone-changes-while-an-event-waits", oa != ob, fmt.Sprint(c))
	if ev.WantSample("zone-changes-while-an-event-waits") {
		ev.Sample("zone-changes-while-an-event-waits", c)
	}
	old := time.Local
	defer func() { time.Local = old }()
	time.Local = a
	u, drv := hook.Mem(hook.ClientCfg{})
	status := func(seq uint32) []byte {
		ls := spec.Responses["GetStatus"]
		s := make([]byte, 64)
		spec.Header(s, 0x17, 0x20, 405419896)
		spec.PutLE32(s[8:], seq)
		off, toff := ls.Field("system.date").Off, ls.Field("system.time").Off
		s[off], s[off+1], s[off+2] = bcd(c.T.Y%100), bcd(c.T.M), bcd(c.T.D)
		s[toff], s[toff+1], s[toff+2] = bcd(c.T.H), bcd(c.T.Mi), bcd(c.T.S)
		return s
	}
	rec := &gated{recorder: recorder{ch: make(chan struct{}, 64)}, entered: make(chan struct{}, 1), gate: make(chan struct{})}
	q := make(chan os.Signal)
	done := make(chan error, 1)
	go func() { done <- u.Listen(rec, q) }()
	for i := 0; i < 2000000 && !(rec.connected() && drv.Listening()); i++ {
		runtime.Gosched()
		if i > 2000 {
			time.Sleep(20 * time.Microsecond)
		}
	}
	if !drv.Listening() {
		close(q)
		return nil
	}
	drv.Push(status(1))
	select {
	case <-rec.entered:
	case <-time.After(30 * time.Second):
		close(rec.gate)
		close(q)
		return nil
	}
	pushed := make(chan struct{})
	go func() { drv.Push(status(2)); close(pushed) }() // received and read under zone A; waits for the busy dispatcher
	time.Sleep(30 * time.Millisecond)
	time.Local = b
	close(rec.gate)
	<-pushed
	rec.waitCount(2, 30*time.Second)
	close(q)
	<-done
	want := fmt.Sprintf("%04d-%02d-%02d %02d:%02d:%02d", c.T.Y, c.T.M, c.T.D, c.T.H, c.T.Mi, c.T.S)
	if rec.count() < 2 {
		return nil // (not delivered in time on this machine: nothing to judge)
	}
	second := rec.at(1)
	t := time.Time(second.SystemDateTime)
	got := fmt.Sprintf("%04d-%02d-%02d %02d:%02d:%02d", t.Year(), int(t.Month()), t.Day(), t.Hour(), t.Minute(), t.Second())
	if got != want {
		return rp.Failf("uhppote.Listen/system-datetime/zone-changed-while-the-event-waited", "an event with system date+time %s was received while time.Local was %s and delivered after it had become %s (the civil time exists in both): it reports %s", want, c.ZoneA, c.ZoneB, got)
	}
	_ = api.DateTimeText
	return nil
}

func genInflight(t *rapid.T) inflightCase {
	names := zones.Names()
	c := inflightCase{ZoneA: rapid.SampledFrom(names).Draw(t, "zone.a"), ZoneB: rapid.SampledFrom(names).Draw(t, "zone.b")}
	if rapid.Bool().Draw(t, "far.apart") {
		c.ZoneA, c.ZoneB = rapid.SampledFrom([]string{"Pacific/Auckland", "Pacific/Kiritimati", "Asia/Tokyo", "Asia/Kolkata"}).Draw(t, "east"), rapid.SampledFrom([]string{"America/New_York", "Pacific/Honolulu", "America/Santiago", "UTC"}).Draw(t, "west")
		if rapid.Bool().Draw(t, "swap") {
			c.ZoneA, c.ZoneB = c.ZoneB, c.ZoneA
		}
	}
	c.T = spec.CivilDT{Y: rapid.IntRange(2000, 2068).Draw(t, "y"), M: rapid.IntRange(1, 12).Draw(t, "m"), D: rapid.IntRange(1, 28).Draw(t, "d"), H: rapid.IntRange(0, 23).Draw(t, "h"), Mi: rapid.IntRange(0, 59).Draw(t, "mi"), S: rapid.IntRange(0, 59).Draw(t, "s")}
	return c
}
