package c08

import (
	"fmt"
	"net"
	"os"
	"testing"
	"time"

	"github.com/uhppoted/uhppote-core/types"

	"verif/harness/ev"
	"verif/harness/farm"
	"verif/harness/gen"
	"verif/harness/hook"
	"verif/harness/spec"
)

// A listener receives one event and then hears NOTHING for longer than any time constant in the library's source (a poll /
// keep-alive period would be one; capped at 40 s quick, 11 min thorough, at least 2.5 s) and is then stopped: Listen returns nil, and the race detector - this binary is built with -race - sees the shutdown. Runs
// alongside the batches.
type idleListener struct {
	events chan uint32
}

func (l *idleListener) OnConnected()       {}
func (l *idleListener) OnError(error) bool { return true }
func (l *idleListener) OnEvent(s *types.Status) {
	select {
	case l.events <- s.Event.Index:
	default:
	}
}

func idleFor() time.Duration {
	limit := 40 * time.Second
	if ev.Thorough() {
		limit = 11 * time.Minute
	}
	d := time.Second
	for _, x := range gen.DictDurations() {
		if x > d && x <= limit {
			d = x
		}
	}
	return d + 1500*time.Millisecond
}

func startIdleListener() chan string {
	out := make(chan string, 1)
	go func() {
		port, err := farm.FreePort([4]byte{127, 0, 0, 1})
		if err != nil {
			out <- ""
			return
		}
		u := hook.Real(hook.ClientCfg{HasListen: true, ListenIP: [4]byte{127, 0, 0, 1}, ListenPort: port})
		l := &idleListener{events: make(chan uint32, 4)}
		q := make(chan os.Signal, 1)
		done := make(chan error, 1)
		go func() { done <- u.Listen(l, q) }()
		idle := idleFor()
		// one event FIRST (delivered while the listener is young), then silence, then the stop signal straight out of the
		// silence: nothing that the harness does orders the listener's idle-time activity before the shutdown
		e := make([]byte, 64)
		spec.Header(e, 0x17, 0x20, 405419896)
		spec.PutLE32(e[8:], 4711)
		e[12] = 1
		msg := ""
		delivered := false
		for try := 0; try < 100 && !delivered; try++ {
			if c, err := net.DialUDP("udp4", nil, &net.UDPAddr{IP: net.IPv4(127, 0, 0, 1), Port: int(port)}); err == nil {
				c.Write(e)
				c.Close()
			}
			select {
			case ix := <-l.events:
				delivered = true
				if ix != 4711 {
					msg = fmt.Sprintf("the listener delivered event %d, 4711 was sent", ix)
				}
			case err := <-done:
				msg = fmt.Sprintf("Listen returned (%v) on its own", err)
				delivered = true
			case <-time.After(50 * time.Millisecond):
			}
		}
		if !delivered {
			msg = "an event was not delivered within 5 s"
		}
		time.Sleep(idle)
		select {
		case err := <-done:
			msg = fmt.Sprintf("Listen returned (%v) on its own after %v of silence", err, idle)
		default:
		}
		q <- os.Interrupt
		if msg == "" {
			select {
			case err := <-done:
				if err != nil {
					msg = fmt.Sprintf("Listen returned %v when stopped after %v of silence", err, idle)
				}
			case <-time.After(8 * time.Second):
				msg = fmt.Sprintf("Listen has not returned 8 s after the stop signal (after %v of silence)", idle)
			}
		}
		ev.Note("idle_listener_seconds", idle.Seconds())
		out <- msg
	}()
	return out
}

func finishIdleListener(t *testing.T, out chan string) {
	msg := <-out
	ev.Case("listener/idle-then-event-then-stop", true, "idle")
	if msg != "" && ev.Failure("idle-listener", "uhppote.Listen/after-idle", msg, map[string]any{"scenario": "idle listener"}) {
		t.Errorf("%s", msg)
	}
}
