package c08

import (
	"fmt"
	"os"
	"sync"
	"syscall"
	"testing"
	"time"
	"verif/harness/cold"

	"verif/harness/ev"
	"verif/harness/farm"
	"verif/harness/hook"
	"verif/harness/rp"
)

// A crowd: hundreds of calls to ONE controller at the same time from one client without a fixed bind port, the controller
// answering each request a while after it has seen it - so that all the calls' sockets exist side by side. Every call
// returns the reply to its own request (the card number / event index it asked for).
type crowdCase struct {
	N       int    `json:"calls"`
	DelayMs int    `json:"reply_after_ms"`
	Path    string `json:"path"` // udp | broadcast | tcp
	AnyAddr bool   `json:"bind_any,omitempty"`
	// Files: the soft limit on open files is lowered to this for the duration of the case (0 = left alone): a modest limit - 256
	// is the default on some systems - that the calls in flight fit into with room to spare
	Files int `json:"file_limit,omitempty"`
}

func runCrowd(c crowdCase, scale int) *rp.Fail {
	f := farm.New()
	defer f.Close()
	D := time.Duration(c.DelayMs*scale) * time.Millisecond
	ctrl, err := f.UDP([4]byte{127, 0, 1, 77}, 0, farm.Script(func(r farm.Received) []farm.Action {
		if len(r.Data) != 64 {
			return nil
		}
		return []farm.Action{{Delay: D, Data: reply(r.Data)}}
	}))
	if err != nil {
		return nil
	}
	serial := uint32(405419896)
	cfg := hook.ClientCfg{TimeoutMs: c.DelayMs*scale*4 + 4000, BindIP: [4]byte{127, 0, 0, 1}, HasBroadcast: true, BroadcastIP: [4]byte{127, 0, 1, 77}, BroadcastPort: ctrl.Addr.Port()}
	if c.AnyAddr {
		cfg.BindIP = [4]byte{0, 0, 0, 0}
	}
	if c.Files != 0 {
		// the controller answers every request `delay` after seeing it; the timeout is 1.3 times that plus 300 ms (what a call
		// would not survive is being SENT late with a deadline that started running earlier)
		cfg.TimeoutMs = c.DelayMs*scale*13/10 + 300
	}
	if c.Path == "udp" {
		cfg.Devices = []hook.DeviceCfg{{Serial: serial, HasAddr: true, IP: [4]byte{127, 0, 1, 77}, Port: ctrl.Addr.Port(), Protocol: "udp"}}
	}
	if c.Path == "tcp" {
		tc, err := f.TCP([4]byte{127, 0, 1, 78}, 0, func(e *farm.TCP, r farm.Received) {
			if len(r.Data) != 64 {
				r.Conn.Close()
				return
			}
			e.PlayTCP(r, []farm.Action{{Delay: D, Data: reply(r.Data)}})
		})
		if err != nil {
			return nil
		}
		cfg.Devices = []hook.DeviceCfg{{Serial: serial, HasAddr: true, IP: [4]byte{127, 0, 1, 78}, Port: tc.Addr.Port(), Protocol: "tcp"}}
	}
	u := hook.Real(cfg)
	if c.Files > 0 {
		var lim syscall.Rlimit
		if syscall.Getrlimit(syscall.RLIMIT_NOFILE, &lim) == nil && lim.Cur > uint64(c.Files) {
			if entries, err := os.ReadDir("/proc/self/fd"); err == nil && len(entries)+c.N+40 < c.Files {
				low := lim
				low.Cur = uint64(c.Files)
				if syscall.Setrlimit(syscall.RLIMIT_NOFILE, &low) == nil {
					defer syscall.Setrlimit(syscall.RLIMIT_NOFILE, &lim)
					ev.Class("crowd/with-a-modest-limit-on-open-files", 1)
				}
			}
		}
	}
	var mu sync.Mutex
	var crossed, failed []string
	var wg sync.WaitGroup
	start := make(chan struct{})
	for i := 0; i < c.N; i++ {
		wg.Add(1)
		go func(i int) {
			defer wg.Done()
			<-start
			op := []string{"GetCardByIndex", "GetEvent", "GetCardByID"}[i%3]
			err, cross := invoke(u, callSpec{Op: op, Nonce: uint32(7000000 + i)}, serial)
			mu.Lock()
			if cross != "" {
				crossed = append(crossed, cross)
			} else if err != nil {
				failed = append(failed, fmt.Sprintf("%s %d: %v", op, 7000000+i, err))
			}
			mu.Unlock()
		}(i)
	}
	close(start)
	wg.Wait()
	if len(crossed) > 0 {
		return rp.Failf("crossed-reply/"+c.Path+"/crowd", "%d of %d concurrent calls to one controller (no fixed bind port, the controller answers %v after each request) returned the reply to ANOTHER call; first: %s", len(crossed), c.N, D, crossed[0])
	}
	if len(failed) > 0 {
		return rp.Failf("call-failed/"+c.Path+"/crowd", "%d of %d concurrent calls to one controller failed although it answers every request %v after seeing it (timeout %dms); first: %s", len(failed), c.N, D, cfg.TimeoutMs, failed[0])
	}
	return nil
}

func checkCrowd(c crowdCase) *rp.Fail {
	ev.Case("crowd/"+c.Path, true, fmt.Sprint(c))
	ev.Class("calls", int64(c.N))
	f := runCrowd(c, 1)
	if f != nil {
		if f2 := runCrowd(c, 4); f2 == nil {
			ev.Inconclusive(1)
			return nil
		} else {
			f = f2
		}
	}
	return f
}

func sweepCrowd(yield func(crowdCase) bool) {
	cases := []crowdCase{{N: 240, DelayMs: 300, Path: "udp"}, {N: 160, DelayMs: 200, Path: "broadcast"}, {N: 320, DelayMs: 400, Path: "udp", AnyAddr: true}, {N: 200, DelayMs: 250, Path: "udp"}, {N: 200, DelayMs: 300, Path: "tcp"},
		{N: 160, DelayMs: 1200, Path: "broadcast", Files: 256}, {N: 150, DelayMs: 900, Path: "udp", Files: 256}}
	if ev.Thorough() {
		for i := 0; i < 12; i++ {
			cases = append(cases, crowdCase{N: 200 + 100*(i%8), DelayMs: 200 + 100*(i%4), Path: []string{"udp", "udp", "broadcast", "tcp"}[i%4], AnyAddr: i%2 == 1})
		}
	}
	for i, c := range cases {
		if ev.Mine(i) && !yield(c) {
			return
		}
	}
}

// TestColdChild (fresh child process only, see harness/cold): a process that has had a modest limit on open files from its
// very start - whatever the library sizes from that limit is sized then - makes a crowd of concurrent calls that fits into the
// limit with room to spare. Every call is answered well inside its timeout of being SENT.
func TestColdChild(t *testing.T) {
	if cold.Scenario() == "" {
		t.Skip("cold-start child only")
	}
	var lim syscall.Rlimit
	if syscall.Getrlimit(syscall.RLIMIT_NOFILE, &lim) != nil {
		cold.Done(0)
		return
	}
	low := lim
	low.Cur = 256
	if lim.Cur < 256 || syscall.Setrlimit(syscall.RLIMIT_NOFILE, &low) != nil {
		cold.Done(0)
		return
	}
	k := cold.Index()
	c := crowdCase{N: 150 + 5*(k%3), DelayMs: 900 + 300*(k%2), Path: []string{"broadcast", "udp"}[k%2], Files: -1}
	f := runCrowd(c, 1)
	if f != nil {
		if f2 := runCrowd(c, 3); f2 == nil {
			f = nil
		} else {
			f = f2
		}
	}
	if f != nil {
		cold.Report(f.Fingerprint+"/process-with-a-modest-file-limit", f.Msg+" (the process has had a soft limit of 256 open files since it started)", c)
	}
	cold.Done(c.N)
}
