package c08

import (
	"fmt"
	"sync"
	"time"

	"verif/harness/ev"
	"verif/harness/farm"
	"verif/harness/hook"
	"verif/harness/rp"
)

// A crowd: hundreds of calls to ONE controller at the same time from one client without a fixed bind port, the controller
// answering each request a while after it has seen it - so that all the calls' sockets exist side by side. Every call
// returns the reply to its own request (the card number / event index it asked for).
type crowdCase struct {
	N       int    `json:"calls"`
	DelayMs int    `json:"reply_after_ms"`
	Path    string `json:"path"` // udp | broadcast | tcp
	AnyAddr bool   `json:"bind_any,omitempty"`
}

func runCrowd(c crowdCase, scale int) *rp.Fail {
	f := farm.New()
	defer f.Close()
	D := time.Duration(c.DelayMs*scale) * time.Millisecond
	ctrl, err := f.UDP([4]byte{127, 0, 1, 77}, 0, farm.Script(func(r farm.Received) []farm.Action {
		if len(r.Data) != 64 {
			return nil
		}
		return []farm.Action{{Delay: D, Data: reply(r.Data)}}
	}))
	if err != nil {
		return nil
	}
	serial := uint32(405419896)
	cfg := hook.ClientCfg{TimeoutMs: c.DelayMs*scale*4 + 4000, BindIP: [4]byte{127, 0, 0, 1}, HasBroadcast: true, BroadcastIP: [4]byte{127, 0, 1, 77}, BroadcastPort: ctrl.Addr.Port()}
	if c.AnyAddr {
		cfg.BindIP = [4]byte{0, 0, 0, 0}
	}
	if c.Path == "udp" {
		cfg.Devices = []hook.DeviceCfg{{Serial: serial, HasAddr: true, IP: [4]byte{127, 0, 1, 77}, Port: ctrl.Addr.Port(), Protocol: "udp"}}
	}
	if c.Path == "tcp" {
		tc, err := f.TCP([4]byte{127, 0, 1, 78}, 0, func(e *farm.TCP, r farm.Received) {
			if len(r.Data) != 64 {
				r.Conn.Close()
				return
			}
			e.PlayTCP(r, []farm.Action{{Delay: D, Data: reply(r.Data)}})
		})
		if err != nil {
			return nil
		}
		cfg.Devices = []hook.DeviceCfg{{Serial: serial, HasAddr: true, IP: [4]byte{127, 0, 1, 78}, Port: tc.Addr.Port(), Protocol: "tcp"}}
	}
	u := hook.Real(cfg)
	var mu sync.Mutex
	var crossed, failed []string
	var wg sync.WaitGroup
	start := make(chan struct{})
	for i := 0; i < c.N; i++ {
		wg.Add(1)
		go func(i int) {
			defer wg.Done()
			<-start
			op := []string{"GetCardByIndex", "GetEvent", "GetCardByID"}[i%3]
			err, cross := invoke(u, callSpec{Op: op, Nonce: uint32(7000000 + i)}, serial)
			mu.Lock()
			if cross != "" {
				crossed = append(crossed, cross)
			} else if err != nil {
				failed = append(failed, fmt.Sprintf("%s %d: %v", op, 7000000+i, err))
			}
			mu.Unlock()
		}(i)
	}
	close(start)
	wg.Wait()
	if len(crossed) > 0 {
		return rp.Failf("crossed-reply/"+c.Path+"/crowd", "%d of %d concurrent calls to one controller (no fixed bind port, the controller answers %v after each request) returned the reply to ANOTHER call; first: %s", len(crossed), c.N, D, crossed[0])
	}
	if len(failed) > 0 {
		return rp.Failf("call-failed/"+c.Path+"/crowd", "%d of %d concurrent calls to one controller failed although it answers every request %v after seeing it (timeout %dms); first: %s", len(failed), c.N, D, cfg.TimeoutMs, failed[0])
	}
	return nil
}

func checkCrowd(c crowdCase) *rp.Fail {
	ev.Case("crowd/"+c.Path, true, fmt.Sprint(c))
	ev.Class("calls", int64(c.N))
	f := runCrowd(c, 1)
	if f != nil {
		if f2 := runCrowd(c, 4); f2 == nil {
			ev.Inconclusive(1)
			return nil
		} else {
			f = f2
		}
	}
	return f
}

func sweepCrowd(yield func(crowdCase) bool) {
	cases := []crowdCase{{N: 240, DelayMs: 300, Path: "udp"}, {N: 160, DelayMs: 200, Path: "broadcast"}, {N: 320, DelayMs: 400, Path: "udp", AnyAddr: true}, {N: 200, DelayMs: 250, Path: "udp"}, {N: 200, DelayMs: 300, Path: "tcp"}}
	if ev.Thorough() {
		for i := 0; i < 12; i++ {
			cases = append(cases, crowdCase{N: 200 + 100*(i%8), DelayMs: 200 + 100*(i%4), Path: []string{"udp", "udp", "broadcast", "tcp"}[i%4], AnyAddr: i%2 == 1})
		}
	}
	for i, c := range cases {
		if ev.Mine(i) && !yield(c) {
			return
		}
	}
}
