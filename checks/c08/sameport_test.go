package c08

import (
	"fmt"
	"os"
	"time"

	"verif/harness/ev"
	"verif/harness/farm"
	"verif/harness/hook"
	"verif/harness/rp"
	"verif/harness/spec"
)

// One port number for everything: the client's bind port is also its listen port, its listener is running, and while a
// directed request to a controller is in flight the same controller sends an EVENT to that port - and only then its reply.
// Whether the request can be made at all with the port taken by the listener is the library's business (today it cannot: the
// call fails with 'address already in use'); if it returns a result, the result is the reply to its own request - never the
// event.
type samePortCase struct {
	Op      string `json:"op"`
	DelayMs int    `json:"reply_after_ms"`
	AnyAddr bool   `json:"listen_on_any,omitempty"`
}

func checkSamePort(c samePortCase) *rp.Fail {
	ev.Case("bind-port-equals-listen-port/listener-running", true, fmt.Sprint(c))
	f := farm.New()
	defer f.Close()
	serial := uint32(405419896)
	port, err := farm.FreePort([4]byte{127, 0, 0, 1})
	if err != nil {
		return nil
	}
	ctrl, err := f.UDP([4]byte{127, 0, 1, 90}, 0, farm.Script(func(r farm.Received) []farm.Action {
		if len(r.Data) != 64 {
			return nil
		}
		// the event: a status record of this controller with other contents than any reply below
		evt := reply(append([]byte{0x17, 0x20, 0, 0}, r.Data[4:]...))
		spec.PutLE32(evt[8:], 1001)
		spec.PutLE32(evt[40:], 5001) // (its sequence number is not the one a status REPLY of this controller carries)
		return []farm.Action{{Data: evt}, {Delay: time.Duration(c.DelayMs) * time.Millisecond, Data: reply(r.Data)}}
	}))
	if err != nil {
		return nil
	}
	cfg := hook.ClientCfg{TimeoutMs: 1500, BindIP: [4]byte{127, 0, 0, 1}, BindPort: port, HasListen: true, ListenIP: [4]byte{127, 0, 0, 1}, ListenPort: port,
		Devices: []hook.DeviceCfg{{Serial: serial, HasAddr: true, IP: [4]byte{127, 0, 1, 90}, Port: ctrl.Addr.Port(), Protocol: "udp"}}}
	if c.AnyAddr {
		cfg.ListenIP = [4]byte{0, 0, 0, 0}
	}
	u := hook.Real(cfg)
	rec := &lrec{}
	q := make(chan os.Signal)
	done := make(chan error, 1)
	go func() { done <- u.Listen(rec, q) }()
	time.Sleep(50 * time.Millisecond)
	defer func() {
		close(q)
		select {
		case <-done:
		case <-time.After(5 * time.Second):
		}
	}()
	for i := 0; i < 3; i++ {
		cs := callSpec{Op: c.Op, Nonce: uint32(7000 + i)}
		if _, msg := invoke(u, cs, serial); msg != "" {
			return rp.Failf("crossed/event-taken-for-the-reply", "bind port = listen port %d, listener running: %s(%d) returned a result that is not the reply to its request (the controller sent an event to that port %d ms before its reply): %s", port, c.Op, serial, c.DelayMs, msg)
		}
	}
	return nil
}

func sweepSamePort(yield func(samePortCase) bool) {
	for i, c := range []samePortCase{{"GetStatus", 50, false}, {"GetTime", 30, false}, {"GetCardByID", 50, true}, {"GetStatus", 80, true}} {
		if ev.Mine(i) && !yield(c) {
			return
		}
	}
}
