package c08

import (
	"fmt"
	"sync"
	"time"

	"verif/harness/ev"
	"verif/harness/hook"
	"verif/harness/rp"
	"verif/harness/spec"
)

// Discoveries next to everything else that reads the client's configuration: a controller that is configured WITHOUT an address
// (a name, door names, a time zone - reached by broadcast) answers the discovery with a usable IP address, while other
// goroutines of the application list the configured controllers and make requests to them. The race detector watches; every
// discovery returns the controllers that answered, every request is routed by the configuration the client was built with.
type lookupCase struct {
	Rounds  int  `json:"rounds"`
	Readers int  `json:"readers"`
	Debug   bool `json:"debug,omitempty"`
}

func checkLookup(c lookupCase) *rp.Fail {
	ev.Case("discovery-next-to-configuration-lookups", true, fmt.Sprint(c))
	cfg := hook.ClientCfg{Debug: c.Debug, Devices: []hook.DeviceCfg{{Name: "gate", Serial: 405419896, Doors: []string{"in", "out"}}, {Name: "dock", Serial: 303986753, HasAddr: true, IP: [4]byte{10, 0, 0, 9}, Port: 60000, Protocol: "udp"}}}
	u, d := hook.MemConcurrent(cfg)
	l := spec.Responses["GetDevices"]
	d.Reset(spec.Sample(l, 0x17, 405419896, 1), spec.Sample(l, 0x17, 201020304, 2), spec.Sample(l, 0x17, 303986753, 3))
	d.Shared, d.Dwell = true, time.Millisecond
	d.Auto = func(req []byte) []byte {
		if len(req) != 64 {
			return nil
		}
		b := make([]byte, 64)
		spec.Header(b, 0x17, req[1], spec.LE32(req[4:]))
		return b
	}
	var mu sync.Mutex
	var fail *rp.Fail
	report := func(f *rp.Fail) {
		mu.Lock()
		if fail == nil {
			fail = f
		}
		mu.Unlock()
	}
	var wg sync.WaitGroup
	stop := make(chan struct{})
	for r := 0; r < c.Readers; r++ {
		wg.Add(1)
		go func(r int) {
			defer wg.Done()
			defer func() {
				if p := recover(); p != nil {
					report(rp.Failf("lookup/panic", "a goroutine using the client next to a discovery panicked: %v", p))
				}
			}()
			for i := 0; ; i++ {
				select {
				case <-stop:
					return
				default:
				}
				switch (r + i) % 3 {
				case 0:
					if n := len(u.DeviceList()); n != 2 {
						report(rp.Failf("lookup/device-list", "DeviceList reports %d controllers, the client was built with 2", n))
						return
					}
				case 1:
					u.GetTime(405419896)
				default:
					u.GetTime(303986753)
				}
			}
		}(r)
	}
	for i := 0; i < c.Rounds; i++ {
		list, err := u.GetDevices()
		if err != nil || len(list) != 3 {
			report(rp.Failf("lookup/discovery", "discovery %d: %d controllers, %v (3 answered)", i, len(list), err))
			break
		}
	}
	close(stop)
	wg.Wait()
	if fail != nil {
		return fail
	}
	// routing: the address-less controller is still reached by broadcast, the other one directly - whatever the discoveries heard
	for _, s := range d.Sends() {
		if len(s.Request) == 64 && s.Request[1] == 0x32 {
			serial := spec.LE32(s.Request[4:])
			if serial == 405419896 && s.Method != "BroadcastTo" {
				return rp.Failf("lookup/route-changed-by-discovery", "a request for the controller that is configured without an address went out by %s to %s after a discovery had heard its address: requests are routed by the configuration the client was built with", s.Method, s.Addr)
			}
			if serial == 303986753 && (s.Method != "SendUDP" || s.Addr != "10.0.0.9:60000") {
				return rp.Failf("lookup/route-changed-by-discovery", "a request for the controller configured at 10.0.0.9:60000 went out by %s to %s", s.Method, s.Addr)
			}
		}
	}
	return nil
}

func sweepLookup(yield func(lookupCase) bool) {
	for i, c := range []lookupCase{{Rounds: 40, Readers: 3}, {Rounds: 20, Readers: 6, Debug: true}, {Rounds: 60, Readers: 2}, {Rounds: 30, Readers: 4}} {
		if ev.Mine(i) && !yield(c) {
			return
		}
	}
}
