package c08

import (
	"fmt"
	"sort"
	"sync"
	"sync/atomic"
	"time"

	"github.com/uhppoted/uhppote-core/types"
	"pgregory.net/rapid"

	"verif/harness/ev"
	"verif/harness/farm"
	"verif/harness/hook"
	"verif/harness/rp"
	"verif/harness/spec"
)

// Concurrent discoveries (and concurrent broadcast-routed requests): every call returns the replies to ITS OWN request.
// The loopback "network" answers each discovery request with ONE reply that carries a per-request counter (in the IP
// address field) - and, for a share of the cases, with a dense stream of such replies that straddles the end of the
// collection window, so that one sweep is still receiving while another one is being decoded. Each call must see exactly the
// replies that were sent to its own socket, nothing of another call's, and every reply must decode to what was sent.
type discCase struct {
	Callers   int  `json:"callers"`
	Clients   int  `json:"clients"`
	Fixed     bool `json:"fixed_bind_port"`
	Stream    bool `json:"stream"` // replies keep coming across the deadline
	StaggerMs int  `json:"stagger_ms"`
	// Wildcard: the second client binds 0.0.0.0:P (or the IPv4-mapped form of 127.0.0.1) instead of 127.0.0.1:P - the same port
	Wildcard int `json:"wildcard,omitempty"`
	// PauseUs: the driver's result reaches the library only after this many microseconds (the real driver wrapped by a
	// pass-through that sleeps): the gap between receiving and decoding, in which other calls keep receiving, is stretched
	PauseUs int `json:"pause_us,omitempty"`
}

func runDiscovery(c discCase, scale int) *rp.Fail {
	f := farm.New()
	defer f.Close()
	T := time.Duration(150*scale) * time.Millisecond
	var counter atomic.Uint32
	owner := map[uint32]string{} // counter -> source address of the request it answered
	var mu sync.Mutex
	mk := func(n uint32) []byte {
		b := make([]byte, 64)
		spec.Header(b, 0x17, 0x94, 1000+n)
		copy(b[8:], []byte{10, byte(n >> 16), byte(n >> 8), byte(n), 255, 255, 255, 0, 10, 0, 0, 1, 0, 0x66, 0x19, byte(n >> 16), byte(n >> 8), byte(n), 0x08, 0x92, 0x20, 0x18, 0x08, 0x16})
		return b
	}
	bc, err := f.UDP([4]byte{127, 0, 7, 1}, 0, func(e *farm.UDP, r farm.Received) {
		if len(r.Data) != 64 || r.Data[1] != 0x94 {
			return
		}
		n := counter.Add(1)
		mu.Lock()
		owner[n] = r.From.String()
		mu.Unlock()
		e.Send(r.From, mk(n))
		if c.Stream {
			// more replies for the same request from just before the end of the window until just after it
			time.Sleep(T * 85 / 100)
			end := time.Now().Add(T * 30 / 100)
			for time.Now().Before(end) {
				k := counter.Add(1)
				mu.Lock()
				owner[k] = r.From.String()
				mu.Unlock()
				e.Send(r.From, mk(k))
				time.Sleep(50 * time.Microsecond)
			}
		}
	})
	if err != nil {
		ev.HarnessError("farm: %v", err)
		return nil
	}
	cfg := hook.ClientCfg{TimeoutMs: int(T / time.Millisecond), BindIP: [4]byte{127, 0, 0, 1}, HasBroadcast: true, BroadcastIP: [4]byte{127, 0, 7, 1}, BroadcastPort: bc.Addr.Port()}
	if c.Fixed {
		p, err := farm.FreePort(cfg.BindIP)
		if err != nil {
			return nil
		}
		cfg.BindPort = p
	}
	clients := make([]interface {
		GetDevices() ([]types.Device, error)
	}, c.Clients)
	for i := range clients {
		ci := cfg
		if i == 1 && c.Wildcard == 1 {
			ci.BindIP = [4]byte{0, 0, 0, 0}
		}
		if c.PauseUs > 0 {
			us := c.PauseUs
			clients[i] = hook.RealPaused(ci, func(string) { time.Sleep(time.Duration(us*scale) * time.Microsecond) })
		} else {
			clients[i] = hook.Real(ci)
		}
	}
	type result struct {
		list []types.Device
		err  error
		pn   any
	}
	results := make([]result, c.Callers)
	var wg sync.WaitGroup
	for i := 0; i < c.Callers; i++ {
		wg.Add(1)
		go func(i int) {
			defer wg.Done()
			time.Sleep(time.Duration(i*c.StaggerMs*scale) * time.Millisecond)
			defer func() { results[i].pn = recover() }()
			results[i].list, results[i].err = clients[i%len(clients)].GetDevices()
		}(i)
	}
	wg.Wait()
	time.Sleep(T * 40 / 100) // let the streams end
	seen := map[uint32]int{}
	for i, r := range results {
		if r.pn != nil {
			return rp.Failf("discovery/panic", "GetDevices panicked: %v", r.pn)
		}
		if r.err != nil {
			return rp.Failf("discovery/call-failed", "caller %d: GetDevices failed: %v", i, r.err)
		}
		if len(r.list) == 0 {
			return rp.Failf("discovery/no-reply", "caller %d of %d concurrent discoveries got no controller although its request was answered at once", i, c.Callers)
		}
		src := ""
		for _, d := range r.list {
			ip := d.Address.Addr().As4()
			n := uint32(ip[1])<<16 | uint32(ip[2])<<8 | uint32(ip[3])
			mu.Lock()
			o, known := owner[n]
			mu.Unlock()
			if !known || ip[0] != 10 || uint32(d.SerialNumber) != 1000+n {
				return rp.Failf("discovery/garbled-reply", "caller %d: GetDevices returned an entry that was never sent: %+v", i, d)
			}
			if src == "" {
				src = o
			}
			if o != src {
				return rp.Failf("discovery/crossed-replies", "caller %d: GetDevices returned replies that were sent to different requests (%s and %s)", i, src, o)
			}
			seen[n]++
			if seen[n] > 1 {
				return rp.Failf("discovery/crossed-replies", "reply %d (sent once, to %s) appears in the results of more than one call", n, o)
			}
			if mac := d.MacAddress; len(mac) != 6 || mac[3] != byte(n>>16) || mac[4] != byte(n>>8) || mac[5] != byte(n) {
				return rp.Failf("discovery/garbled-reply", "caller %d: entry %d has MAC %v", i, n, mac)
			}
		}
	}
	if !c.Stream {
		var ns []int
		for n := range seen {
			ns = append(ns, int(n))
		}
		sort.Ints(ns)
		if len(ns) != c.Callers {
			return rp.Failf("discovery/crossed-replies", "%d concurrent discoveries: %d distinct replies in the results (%v); every call gets the reply to its own request", c.Callers, len(ns), ns)
		}
	}
	return nil
}

func checkDiscovery(c discCase) *rp.Fail {
	class := "discovery/concurrent"
	if c.Stream {
		class = "discovery/concurrent-with-streams-across-the-deadline"
	}
	ev.Case(class, true, fmt.Sprintf("%+v", c))
	f := runDiscovery(c, 1)
	if f != nil {
		if f2 := runDiscovery(c, 4); f2 == nil {
			ev.Inconclusive(1)
			return nil
		} else {
			f = f2
		}
	}
	return f
}

func genDiscovery(t *rapid.T) discCase {
	return discCase{Callers: rapid.IntRange(2, 5).Draw(t, "callers"), Clients: rapid.IntRange(1, 2).Draw(t, "clients"), Fixed: rapid.Bool().Draw(t, "fixed"), Stream: rapid.Bool().Draw(t, "stream"),
		StaggerMs: rapid.SampledFrom([]int{0, 0, 20, 75, 140}).Draw(t, "stagger"), Wildcard: rapid.IntRange(0, 1).Draw(t, "wildcard"),
		PauseUs: rapid.SampledFrom([]int{0, 0, 200, 2000, 10000}).Draw(t, "pause")}
}
