// C08 - concurrent use is race-free and replies are never crossed between calls.
// (built with -race: the driver turns every race report with library frames into a violation)
package c08

import (
	"fmt"
	"net"
	"net/netip"
	"os"
	"runtime"
	"sync"
	"testing"
	"time"
	"verif/harness/cold"
	"verif/harness/zones"

	"github.com/uhppoted/uhppote-core/types"
	"github.com/uhppoted/uhppote-core/uhppote"
	"pgregory.net/rapid"

	"verif/harness/ev"
	"verif/harness/farm"
	"verif/harness/gen"
	"verif/harness/hook"
	"verif/harness/rp"
	"verif/harness/spec"
)

// the zone of the process differs per shard: UTC, two zones in which some days have no local midnight (dates on such days take
// another path through the date code - whatever that path keeps between calls is shared by all goroutines), and the synthetic one
var processZone = "UTC"
var replyDays []spec.Civil

func TestMain(m *testing.M) {
	processZone = []string{"UTC", "America/Santiago", "America/Havana", zones.Synthetic}[(ev.Shard()+ev.Shard()/4)%4]
	time.Local = zones.Loc(processZone)
	for _, g := range zones.MidnightGaps(processZone, 2000, 2037) {
		if zones.DayExists(time.Local, g.Y, g.M, g.D) {
			replyDays = append(replyDays, spec.Civil{Y: g.Y, M: g.M, D: g.D})
		}
	}
	for d := 1; d <= 28; d++ {
		replyDays = append(replyDays, spec.Civil{Y: 2024, M: 1 + d%12, D: d})
	}
	// other schedules: the shards run with different numbers of processors (all, 2, 4, 3) - fewer processors change which
	// goroutine runs between two steps of another, and whom a sync.Pool hands a recycled buffer to
	if p := []int{0, 2, 4, 3}[ev.Shard()%4]; p > 0 && p < runtime.GOMAXPROCS(0) {
		runtime.GOMAXPROCS(p)
	}
	ev.Describe("process zone per shard: UTC / America/Santiago / America/Havana / synthetic, the replies carry dates and times (card validity, profile, event timestamp, controller time, status) on ordinary days and on days without a local midnight; the shards run with GOMAXPROCS = all / 2 / 4 / 3; batches of 2..24 goroutines over 1..3 client instances in one process (bind port 0, or one fixed bind port shared by all clients), each goroutine issuing 1..3 calls of mixed operations whose replies ECHO A PER-CALL NONCE (card number, event index, profile id, door/state/delay) to the same or different controllers over broadcast, connected UDP and TCP; the loopback farm answers each request after a delay drawn per call (0..60% of the timeout, counted from the moment the request is seen); optionally a discovery (GetDevices) whose replies keep arriving until the end of its collection window, and an event listener that is started, fed with events and stopped while events are still arriving. Oracle: every call returns without error and carries its own nonce; the Go race detector (binary built with -race) must stay silent - any report whose stacks contain a library frame is a violation. Non-trivial = batch in which >= 2 calls overlapped on the same controller or the same fixed port; distinct = distinct batch.",
		"schedules are sampled under the Go scheduler, not enumerated: the race detector only reports races the executed schedule exposes",
		"a failed batch (other than a race report) is re-run once with the timeout x4")
	ev.Main(m, "C08")
}

type callSpec struct {
	Client  int    `json:"client"`
	Worker  int    `json:"worker"`
	Op      string `json:"op"`
	Ctrl    int    `json:"ctrl"` // controller index (path is a property of the controller)
	Nonce   uint32 `json:"nonce"`
	Percent int    `json:"percent"`
}

type batch struct {
	Clients   int  `json:"clients"`
	FixedPort bool `json:"fixed_port"`
	// Mapped (per client): the client's configuration spells the controller addresses as IPv4-mapped IPv6 (::ffff:a.b.c.d,
	// what netip.AddrFromSlice(net.ParseIP(..)) yields) - the same endpoints as the other clients', spelled differently
	Mapped []bool `json:"mapped_addresses,omitempty"`
	// NoBindIP (per client, with AnyAddr): the bind address has the port but no IP address at all (zero netip.Addr)
	NoBindIP  []bool     `json:"bind_without_ip,omitempty"`
	Paths     []int      `json:"paths"` // per controller: 0 broadcast, 1 udp, 2 tcp
	Calls     []callSpec `json:"calls"`
	Discovery bool       `json:"discovery"`
	Listen    bool       `json:"listen"`
	TimeoutMs int        `json:"timeout_ms"`
	AnyAddr   []bool     `json:"any_addr,omitempty"` // per client: bind to 0.0.0.0 instead of 127.0.0.1 (same port)
	// PauseUs: the real driver's results reach the library only after this pause (hook.RealPaused): receive and decode are
	// pulled apart while other calls go on receiving. Debug: the clients print their hex dumps (muted).
	PauseUs int  `json:"pause_us,omitempty"`
	Debug   bool `json:"debug,omitempty"`
	// Strays: on the broadcast path every request is first answered by this many OTHER controllers (same function, other serial
	// numbers - a broadcast reaches everybody, and some firmware answers regardless), then by its own
	Strays int `json:"stray_replies,omitempty"`
}

var ops = []string{"GetCardByID", "GetCardByIndex", "GetEvent", "GetTimeProfile", "GetDoorControlState", "SetDoorControlState", "GetStatus", "OpenDoor", "GetTime", "PutCard", "GetListener", "SetAddress"}

func reply(req []byte) []byte {
	if len(req) != 64 {
		return nil
	}
	b := make([]byte, 64)
	serial := spec.LE32(req[4:])
	spec.Header(b, 0x17, req[1], serial)
	if req[1] == 0x20 && serial%2 == 1 {
		b[0] = 0x19 // (v6.62 firmware answers a status request with this protocol id)
	}
	// dates: half of them on the days of this process zone that have no local midnight (all replies stay valid)
	day := func(k uint32) spec.Civil { return replyDays[int(k%uint32(len(replyDays)))] }
	stamp := func(p []byte, k uint32) {
		d := day(k)
		spec.PutDateTime(p, spec.CivilDT{Y: d.Y, M: d.M, D: d.D, H: 12, Mi: int(k % 60), S: int(k / 60 % 60)})
	}
	nonce := spec.LE32(req[8:])
	switch req[1] {
	case 0x5a, 0x5c: // card by id / by index: the card number is the nonce
		copy(b[8:12], req[8:12])
		spec.PutDate(b[12:], day(nonce))
		spec.PutDate(b[16:], day(nonce+1))
		b[20], b[21] = 1, 1
	case 0xb0:
		copy(b[8:12], req[8:12])
		b[12] = 1
		stamp(b[20:], nonce)
	case 0x98:
		b[8] = req[8]
		spec.PutDate(b[9:], day(uint32(req[8])))
		spec.PutDate(b[13:], day(uint32(req[8])+3))
	case 0x82:
		b[8], b[9], b[10] = req[8], 3, 7
	case 0x80:
		copy(b[8:11], req[8:11])
	case 0x20:
		spec.PutLE32(b[40:], serial*7+1)
		spec.PutLE32(b[8:], 17)
		b[12] = 1
		stamp(b[20:], serial)
		d := day(serial + 1)
		b[51], b[52], b[53] = bcd(d.Y%100), bcd(d.M), bcd(d.D)
		b[37], b[38], b[39] = 0x12, 0x34, 0x56
	case 0x94:
		copy(b[8:], []byte{192, 168, 1, 100, 255, 255, 255, 0, 192, 168, 1, 1, 0, 0x66, 0x19, 0x39, 0x55, 0x2d, 0x08, 0x92, 0x20, 0x18, 0x08, 0x16})
	case 0x32:
		stamp(b[8:], serial)
	case 0x92:
	default:
		b[8] = 1
	}
	return b
}

func bcd(v int) byte { return byte(v/10<<4 | v%10) }

func invoke(u uhppote.IUHPPOTE, c callSpec, serial uint32) (err error, echoed string) {
	defer func() {
		if r := recover(); r != nil {
			err = fmt.Errorf("PANIC: %v", r)
		}
	}()
	n8 := uint8(2 + c.Nonce%250)
	want := ""
	got := ""
	switch c.Op {
	case "GetCardByID":
		var card *types.Card
		card, err = u.GetCardByID(serial, c.Nonce)
		want = fmt.Sprint(c.Nonce)
		if card != nil {
			got = fmt.Sprint(card.CardNumber)
		}
	case "GetCardByIndex":
		var card *types.Card
		card, err = u.GetCardByIndex(serial, c.Nonce)
		want = fmt.Sprint(c.Nonce)
		if card != nil {
			got = fmt.Sprint(card.CardNumber)
		}
	case "GetEvent":
		var e *types.Event
		e, err = u.GetEvent(serial, c.Nonce)
		want = fmt.Sprint(c.Nonce)
		if e != nil {
			got = fmt.Sprint(e.Index)
		}
	case "GetTimeProfile":
		var p *types.TimeProfile
		p, err = u.GetTimeProfile(serial, n8)
		want = fmt.Sprint(n8)
		if p != nil {
			got = fmt.Sprint(p.ID)
		}
	case "GetDoorControlState":
		var d *types.DoorControlState
		d, err = u.GetDoorControlState(serial, n8)
		want = fmt.Sprint(n8)
		if d != nil {
			got = fmt.Sprint(d.Door)
		}
	case "SetDoorControlState":
		var d *types.DoorControlState
		st, delay := types.ControlState(1+c.Nonce%3), uint8(c.Nonce>>8)
		d, err = u.SetDoorControlState(serial, n8, st, delay)
		want = fmt.Sprint(n8, int(st), delay)
		if d != nil {
			got = fmt.Sprint(d.Door, int(d.ControlState), d.Delay)
		}
	case "GetStatus":
		var s *types.Status
		s, err = u.GetStatus(serial)
		want = fmt.Sprint(serial, serial*7+1)
		if s != nil {
			got = fmt.Sprint(uint32(s.SerialNumber), s.SequenceId)
		}
	case "OpenDoor":
		var r *types.Result
		r, err = u.OpenDoor(serial, n8)
		want = fmt.Sprint(serial, true)
		if r != nil {
			got = fmt.Sprint(uint32(r.SerialNumber), r.Succeeded)
		}
	case "GetTime":
		var tm *types.Time
		tm, err = u.GetTime(serial)
		want = fmt.Sprint(serial)
		if tm != nil {
			got = fmt.Sprint(uint32(tm.SerialNumber))
		}
	case "PutCard":
		var ok bool
		ok, err = u.PutCard(serial, types.Card{CardNumber: 1 + c.Nonce%99999, From: types.ToDate(2024, 1, 1), To: types.ToDate(2024, 12, 31), Doors: map[uint8]uint8{1: 1}})
		want, got = "true", fmt.Sprint(ok)
	case "GetListener":
		_, _, err = u.GetListener(serial)
	case "SetAddress":
		// (the one request controllers do not answer: it takes its turn on a shared bind port like every other request and
		// succeeds once it is sent)
		var r *types.Result
		r, err = u.SetAddress(serial, net.IPv4(192, 168, 1, byte(100+c.Nonce%100)), net.IPv4(255, 255, 255, 0), net.IPv4(192, 168, 1, 1))
		want, got = "true", fmt.Sprint(r != nil && r.Succeeded)
	}
	if err == nil && want != got {
		return nil, fmt.Sprintf("%s(controller %d, nonce %d) returned %q - its own request asks for %q", c.Op, serial, c.Nonce, got, want)
	}
	return err, ""
}

type lrec struct {
	mu     sync.Mutex
	events int
	errors int
}

func (r *lrec) OnConnected() {}
func (r *lrec) OnEvent(s *types.Status) {
	r.mu.Lock()
	r.events++
	r.mu.Unlock()
}
func (r *lrec) OnError(error) bool {
	r.mu.Lock()
	r.errors++
	r.mu.Unlock()
	return true
}

func runBatch(b batch, scale int) *rp.Fail {
	T := time.Duration(b.TimeoutMs*scale) * time.Millisecond
	f := farm.New()
	defer f.Close()
	var mu sync.Mutex
	delays := map[string]time.Duration{} // by request bytes
	type seen struct {
		at   time.Time
		ctrl uint32
	}
	var arrivals []seen
	delayOf := func(req []byte) time.Duration {
		mu.Lock()
		defer mu.Unlock()
		arrivals = append(arrivals, seen{time.Now(), spec.LE32(req[4:])})
		return delays[string(req[:16])]
	}
	udpHandler := farm.Script(func(r farm.Received) []farm.Action {
		if len(r.Data) != 64 {
			return nil
		}
		if r.Data[1] == 0x94 && spec.LE32(r.Data[4:]) == 0 {
			// discovery: three controllers answer, the last one close to the end of the window
			var a []farm.Action
			for i, at := range []time.Duration{0, T / 20, T / 20 * 2} {
				d := reply(r.Data)
				spec.PutLE32(d[4:], uint32(303986753+i))
				a = append(a, farm.Action{Delay: at, Data: d})
			}
			return a
		}
		if r.Data[1] == 0x96 {
			delayOf(r.Data)
			return nil
		}
		return []farm.Action{{Delay: delayOf(r.Data), Data: reply(r.Data)}}
	})
	tcpHandler := func(e *farm.TCP, r farm.Received) {
		if len(r.Data) != 64 {
			r.Conn.Close()
			return
		}
		if r.Data[1] == 0x96 {
			delayOf(r.Data)
			return
		}
		e.PlayTCP(r, []farm.Action{{Delay: delayOf(r.Data), Data: reply(r.Data)}})
	}
	bcastHandler := udpHandler
	if b.Strays > 0 {
		bcastHandler = func(e *farm.UDP, r farm.Received) {
			if len(r.Data) == 64 && r.Data[1] != 0x96 && !(r.Data[1] == 0x94 && spec.LE32(r.Data[4:]) == 0) {
				for i := 0; i < b.Strays; i++ {
					stray := append([]byte(nil), r.Data...)
					spec.PutLE32(stray[4:], spec.LE32(r.Data[4:])+uint32(1000+i))
					d := reply(stray)
					e.Conn.WriteToUDPAddrPort(d, r.From)
				}
			}
			udpHandler(e, r)
		}
	}
	bcast, err := f.UDP([4]byte{127, 0, 2, 1}, 0, bcastHandler)
	if err != nil {
		ev.HarnessError("farm: %v", err)
		return nil
	}
	cfg := hook.ClientCfg{TimeoutMs: b.TimeoutMs * scale, BindIP: [4]byte{127, 0, 0, 1}, HasBroadcast: true, BroadcastIP: [4]byte{127, 0, 2, 1}, BroadcastPort: bcast.Addr.Port()}
	if b.FixedPort {
		p, err := farm.FreePort(cfg.BindIP)
		if err != nil {
			ev.HarnessError("no free port: %v", err)
			return nil
		}
		cfg.BindPort = p
	}
	serials := make([]uint32, len(b.Paths))
	for i, path := range b.Paths {
		serials[i] = uint32(405419896 + i)
		ip := [4]byte{127, 0, 1, byte(10 + i)}
		switch path {
		case 1:
			e, err := f.UDP(ip, 0, udpHandler)
			if err != nil {
				ev.HarnessError("farm: %v", err)
				return nil
			}
			cfg.Devices = append(cfg.Devices, hook.DeviceCfg{Serial: serials[i], HasAddr: true, IP: ip, Port: e.Addr.Port(), Protocol: "udp"})
		case 3: // a TCP controller that is switched off: connection refused, the call must fail - and nothing else may suffer
			p, err := farm.FreePort(ip)
			if err != nil {
				ev.HarnessError("no free port: %v", err)
				return nil
			}
			cfg.Devices = append(cfg.Devices, hook.DeviceCfg{Serial: serials[i], HasAddr: true, IP: ip, Port: p, Protocol: "tcp"})
		case 2:
			e, err := f.TCP(ip, 0, tcpHandler)
			if err != nil {
				ev.HarnessError("farm: %v", err)
				return nil
			}
			cfg.Devices = append(cfg.Devices, hook.DeviceCfg{Serial: serials[i], HasAddr: true, IP: ip, Port: e.Addr.Port(), Protocol: "tcp"})
		}
	}
	clients := make([]uhppote.IUHPPOTE, b.Clients)
	var mk sync.WaitGroup
	for i := range clients {
		cc := cfg
		if i < len(b.AnyAddr) && b.AnyAddr[i] {
			cc.BindIP = [4]byte{0, 0, 0, 0}
			cc.BindNoIP = i < len(b.NoBindIP) && b.NoBindIP[i]
		}
		cc.Debug = b.Debug
		if i < len(b.Mapped) && b.Mapped[i] {
			cc.Devices = append([]hook.DeviceCfg(nil), cfg.Devices...)
			for j := range cc.Devices {
				ip := cc.Devices[j].IP
				cc.Devices[j].RawIP = fmt.Sprintf("::ffff:%d.%d.%d.%d", ip[0], ip[1], ip[2], ip[3])
			}
		}
		// (several clients coexist: they are also CREATED at the same time, by goroutines of their own - and a few short-lived
		// ones next to them)
		i := i
		mk.Add(1)
		go func() {
			defer mk.Done()
			for k := 0; k < 3; k++ {
				hook.Real(cc)
			}
			if b.PauseUs > 0 {
				us := b.PauseUs
				clients[i] = hook.RealPaused(cc, func(string) { time.Sleep(time.Duration(us) * time.Microsecond) })
			} else {
				clients[i] = hook.Real(cc)
			}
		}()
	}
	mk.Wait()
	// the farm decides the delay from the request bytes: register them (requests of one batch are distinct by nonce)
	type failure struct{ fp, msg string }
	var failures []failure
	fail := func(fp, msg string) {
		mu.Lock()
		failures = append(failures, failure{fp, msg})
		mu.Unlock()
	}
	workers := map[int][]callSpec{}
	for _, c := range b.Calls {
		workers[c.Worker] = append(workers[c.Worker], c)
	}
	var wg sync.WaitGroup
	for _, calls := range workers {
		wg.Add(1)
		go func(calls []callSpec) {
			defer wg.Done()
			for _, c := range calls {
				serial := serials[c.Ctrl%len(serials)]
				started := time.Now()
				err, crossed := invoke(clients[c.Client%len(clients)], c, serial)
				path := []string{"broadcast", "udp", "tcp", "tcp-refused"}[b.Paths[c.Ctrl%len(serials)]]
				switch {
				case path == "tcp-refused":
					if err == nil {
						fail("success-without-controller", fmt.Sprintf("%s(controller %d) succeeded although nothing listens at its address", c.Op, serial))
					}
				case crossed != "":
					fail("crossed-reply/"+path, crossed)
				case err != nil:
					fail("call-failed/"+path, fmt.Sprintf("%s(controller %d) failed after %v (timeout %v, controller answers within %d%% of it): %v", c.Op, serial, time.Since(started), T, c.Percent, err))
				}
			}
		}(calls)
	}
	// the delay table is keyed by the first 16 request bytes, which contain function code, serial and nonce
	mu.Lock()
	for _, c := range b.Calls {
		serial := serials[c.Ctrl%len(serials)]
		delays[string(requestKey(c, serial))] = T * time.Duration(c.Percent) / 100
	}
	mu.Unlock()

	if b.Discovery {
		wg.Add(1)
		go func() {
			defer wg.Done()
			dc := cfg
			dc.TimeoutMs = 120 * scale
			// (with a fixed bind port the discovery queues for the port like every other call and must still collect
			// replies for its whole window)
			u := hook.Real(dc)
			for i := 0; i < 2; i++ {
				list, err := u.GetDevices()
				if err != nil {
					fail("discovery-failed", fmt.Sprintf("GetDevices failed: %v", err))
				} else if len(list) < 1 || len(list) > 3 {
					fail("discovery-count", fmt.Sprintf("GetDevices returned %d controllers, 3 answered (the last one at 10%% of the window)", len(list)))
				}
			}
		}()
	}
	if b.Listen {
		wg.Add(1)
		go func() {
			defer wg.Done()
			port, err := farm.FreePort([4]byte{127, 0, 0, 1})
			if err != nil {
				return
			}
			lc := cfg
			lc.HasListen, lc.ListenIP, lc.ListenPort = true, [4]byte{127, 0, 0, 1}, port
			u := hook.Real(lc)
			for cycle := 0; cycle < 2; cycle++ {
				rec := &lrec{}
				q := make(chan os.Signal)
				done := make(chan error, 1)
				go func() { done <- u.Listen(rec, q) }()
				sender, err := net.DialUDP("udp4", nil, net.UDPAddrFromAddrPort(netip.AddrPortFrom(netip.AddrFrom4([4]byte{127, 0, 0, 1}), port)))
				if err != nil {
					close(q)
					<-done
					return
				}
				stop := make(chan struct{})
				var sw sync.WaitGroup
				sw.Add(1)
				go func() {
					defer sw.Done()
					evt := reply(append([]byte{0x17, 0x20, 0, 0, 1, 2, 3, 4}, make([]byte, 56)...))
					for i := 0; ; i++ {
						select {
						case <-stop:
							return
						default:
						}
						spec.PutLE32(evt[8:], uint32(i+1))
						sender.Write(evt)
						time.Sleep(200 * time.Microsecond)
					}
				}()
				time.Sleep(time.Duration(3+cycle*4) * time.Millisecond)
				close(q) // stop the listener while events are still arriving
				select {
				case err := <-done:
					if err != nil {
						fail("listen-error", fmt.Sprintf("Listen returned %v", err))
					}
				case <-time.After(5 * time.Second):
					fail("listen-does-not-stop", "Listen has not returned 5 s after the stop signal")
				}
				close(stop)
				sw.Wait()
				sender.Close()
			}
		}()
	}
	// watchdog: every call is answered within its timeout, queued calls wait at most one timeout per call in front of them
	finished := make(chan struct{})
	go func() { wg.Wait(); close(finished) }()
	select {
	case <-finished:
	case <-time.After(time.Duration(len(b.Calls)+4)*T + 10*time.Second):
		return rp.Failf("hang", "the batch has not finished %v after it was started (%d calls, timeout %v each): a call never returned", time.Duration(len(b.Calls)+4)*T+10*time.Second, len(b.Calls), T)
	}
	if len(failures) > 0 {
		return rp.Failf(failures[0].fp, "%s (%d failures in this batch)", failures[0].msg, len(failures))
	}
	return nil
}

// requestKey reproduces the first 16 bytes of the request of a call (function code, serial, nonce).
func requestKey(c callSpec, serial uint32) []byte {
	b := make([]byte, 16)
	b[0] = 0x17
	spec.PutLE32(b[4:], serial)
	n8 := uint8(2 + c.Nonce%250)
	switch c.Op {
	case "GetCardByID":
		b[1] = 0x5a
		spec.PutLE32(b[8:], c.Nonce)
	case "GetCardByIndex":
		b[1] = 0x5c
		spec.PutLE32(b[8:], c.Nonce)
	case "GetEvent":
		b[1] = 0xb0
		spec.PutLE32(b[8:], c.Nonce)
	case "GetTimeProfile":
		b[1], b[8] = 0x98, n8
	case "GetDoorControlState":
		b[1], b[8] = 0x82, n8
	case "SetDoorControlState":
		b[1], b[8], b[9], b[10] = 0x80, n8, uint8(1+c.Nonce%3), uint8(c.Nonce>>8)
	case "GetStatus":
		b[1] = 0x20
	case "OpenDoor":
		b[1], b[8] = 0x40, n8
	case "GetTime":
		b[1] = 0x32
	case "PutCard":
		b[1] = 0x50
		spec.PutLE32(b[8:], 1+c.Nonce%99999)
		copy(b[12:], []byte{0x20, 0x24, 0x01, 0x01})
	case "GetListener":
		b[1] = 0x92
	}
	return b
}

func check(b batch) *rp.Fail {
	overlap := map[string]int{}
	for _, c := range b.Calls {
		overlap[fmt.Sprint(c.Ctrl%len(b.Paths))]++
	}
	nt := b.FixedPort && len(b.Calls) >= 2
	for _, n := range overlap {
		if n >= 2 {
			nt = true
		}
	}
	class := "batch/ephemeral-ports"
	if b.FixedPort {
		class = "batch/shared-fixed-port"
	}
	ev.Case(class, nt, fmt.Sprintf("%+v", b))
	ev.Class("calls", int64(len(b.Calls)))
	if b.Discovery {
		ev.Class("batch/with-discovery", 1)
	}
	mixed := map[bool]bool{}
	for i := 0; i < b.Clients; i++ {
		mixed[i < len(b.Mapped) && b.Mapped[i]] = true
	}
	if len(mixed) == 2 {
		ev.Class("batch/clients-spell-the-same-addresses-differently", 1)
	}
	if b.Listen {
		ev.Class("batch/with-listener-start-stop", 1)
	}
	if ev.WantSample(class) {
		ev.Sample(class, b)
	}
	f := runBatch(b, 1)
	if f != nil {
		if f2 := runBatch(b, 4); f2 == nil {
			ev.Inconclusive(1)
			return nil
		} else {
			f = f2
		}
		if f.Fingerprint == "hang" && !ev.Replaying() {
			// calls that never return twice in a row, also with all times stretched: they still hold whatever they wait for (the
			// bind-port guard is process-wide), so no later case - and no shrinking - can be run in this process
			ev.Fatal("batch", f.Fingerprint, f.Msg, b)
		}
	}
	return f
}

func genBatch(t *rapid.T) batch {
	b := batch{Clients: rapid.IntRange(1, 3).Draw(t, "clients"), FixedPort: rapid.IntRange(0, 2).Draw(t, "fixed") == 0, TimeoutMs: rapid.SampledFrom([]int{400, 600, 1000}).Draw(t, "timeout"),
		Discovery: rapid.IntRange(0, 2).Draw(t, "discovery") == 0, Listen: rapid.IntRange(0, 2).Draw(t, "listen") == 0,
		PauseUs: rapid.SampledFrom([]int{0, 0, 0, 100, 1000, 5000}).Draw(t, "pause"), Debug: gen.Debug(t, "debug"), Strays: rapid.SampledFrom([]int{0, 0, 1, 3, 12}).Draw(t, "strays")}
	for i := 0; i < b.Clients; i++ {
		b.AnyAddr = append(b.AnyAddr, rapid.IntRange(0, 2).Draw(t, "bind.any") == 0)
		b.Mapped = append(b.Mapped, rapid.IntRange(0, 2).Draw(t, "mapped") == 0)
		b.NoBindIP = append(b.NoBindIP, rapid.Bool().Draw(t, "bind.no.ip"))
	}
	nc := rapid.IntRange(1, 4).Draw(t, "controllers")
	for i := 0; i < nc; i++ {
		p := rapid.IntRange(0, 2).Draw(t, "path")
		if rapid.IntRange(0, 9).Draw(t, "refused") == 0 {
			p = 3
		}
		b.Paths = append(b.Paths, p)
	}
	workers := rapid.IntRange(2, 24).Draw(t, "workers")
	maxPct := 60
	if b.FixedPort {
		// calls queue for the port: keep the batch short
		if workers > 6 {
			workers = 6
		}
		maxPct = 30
	}
	used := map[uint32]bool{}
	tcpUsed := map[int]bool{}
	for w := 0; w < workers; w++ {
		n := rapid.IntRange(1, 3).Draw(t, "calls")
		for i := 0; i < n; i++ {
			nonce := uint32(rapid.IntRange(1, 0x7ffffffe).Draw(t, "nonce"))
			for used[nonce] || used[nonce%250] && false {
				nonce++
			}
			used[nonce] = true
			ctrl := rapid.IntRange(0, nc-1).Draw(t, "ctrl")
			if b.FixedPort && b.Paths[ctrl] >= 2 {
				// a second TCP connection from the same fixed local port to the same controller hits the
				// TIME_WAIT state of the first one (connect: cannot assign requested address) before the
				// controller is even asked - an operating system limit outside the property's premise
				if tcpUsed[ctrl] {
					continue
				}
				tcpUsed[ctrl] = true
			}
			b.Calls = append(b.Calls, callSpec{Client: rapid.IntRange(0, 2).Draw(t, "client"), Worker: w, Op: rapid.SampledFrom(ops).Draw(t, "op"), Ctrl: ctrl, Nonce: nonce,
				Percent: rapid.IntRange(0, maxPct).Draw(t, "percent")})
		}
	}
	if len(b.Calls) == 0 {
		b.Calls = []callSpec{{Op: "GetStatus", Nonce: 1}}
	}
	return b
}

func props() []rp.Prop {
	return []rp.Prop{
		rp.P[batch]{Name: "batch", Checks: ev.Pick(120, 9600) / ev.Shards(), Gen: genBatch, Check: check},
		rp.P[discCase]{Name: "discovery", Checks: ev.Pick(40, 3000) / ev.Shards(), Gen: genDiscovery, Check: checkDiscovery},
		rp.P[lookupCase]{Name: "discovery-next-to-lookups", Sweep: sweepLookup, Check: checkLookup},
		rp.P[samePortCase]{Name: "bind-port-equals-listen-port", Sweep: sweepSamePort, Check: checkSamePort},
		rp.P[crowdCase]{Name: "crowd", Sweep: sweepCrowd, Check: checkCrowd},
		cold.Prop{Name: "crowd-in-a-process-with-a-modest-file-limit", Scenario: "crowd-files", N: ev.Pick(4, 48) / ev.Shards()},
	}
}

// TestAAAColdStart runs first in the process: with NO broadcast address configured, several goroutines make the
// first broadcast-routed calls of the process at the same time (lazily initialised package state must be race-free);
// nobody answers, the calls simply time out after 40 ms. Only the race detector judges this test.
func TestAAAColdStart(t *testing.T) {
	if ev.Replaying() {
		t.Skip()
	}
	var wg sync.WaitGroup
	start := make(chan struct{})
	for w := 0; w < 8; w++ {
		wg.Add(1)
		go func(w int) {
			defer wg.Done()
			u := hook.Real(hook.ClientCfg{TimeoutMs: 40, BindIP: [4]byte{127, 0, 0, 1}})
			<-start
			if w%2 == 0 {
				u.GetDevices()
			} else {
				u.GetTime(uint32(405419896 + w))
			}
			u.GetStatus(uint32(405419896 + w))
		}(w)
	}
	close(start)
	wg.Wait()
	ev.Bulk("coldstart/first-broadcast-calls-of-the-process", 16, 16)
}

func TestC08(t *testing.T) {
	var idle chan string
	if !ev.Replaying() && ev.Shard() == 0 {
		idle = startIdleListener()
	}
	rp.RunAll(t, props()...)
	if idle != nil {
		finishIdleListener(t, idle)
	}
}
func TestReplay(t *testing.T) { rp.ReplayAll(t, props()...) }
