// C11 - discovery returns exactly the controllers that answered, despite network noise.
package c11

import (
	"context"
	"fmt"
	"net"
	"os"
	"runtime"
	"strings"
	"sync"
	"syscall"
	"testing"
	"time"

	"github.com/uhppoted/uhppote-core/types"
	"pgregory.net/rapid"

	"verif/harness/api"
	"verif/harness/ev"
	"verif/harness/farm"
	"verif/harness/gen"
	"verif/harness/hook"
	"verif/harness/rp"
	"verif/harness/spec"
)

func TestMain(m *testing.M) {
	time.Local = time.UTC
	ev.Describe("0..12 incoming datagrams per discovery: valid get-device replies (all fields random, serial >= 1, some matching configured controller names, duplicates) interleaved in every order with the malformed classes {wrong length, wrong protocol id, 0x19 id, wrong function code, non-decimal nibble in the date}; broadcast address configured (any port) or default; debug output on/off; socket layer: replies sent at once or spread over up to 70% of the collection window (120 ms, now and then 1.15-1.3 s). Hook layer: the script is what the in-memory driver's Broadcast returns. Socket layer: a farm endpoint standing in for the broadcast address answers the real broadcast with the script from one socket (arrival order = send order) or from several sockets (compared as a multiset). Oracle: the expected list is the protocol decoding of the valid datagrams in order, Address = reply IP + broadcast port (60000 by default), Name from the configuration; the call never fails. Non-trivial = >= 2 valid replies with >= 1 malformed datagram in between; distinct = distinct (configuration, datagrams).",
		"replies with serial number 0 and BCD-clean but calendar-impossible dates are outside every stated domain and are not generated",
		"socket-layer failures are re-run with the collection window x4 before they count")
	ev.Main(m, "C11")
}

type discCase struct {
	Layer     string         `json:"layer"`
	Cfg       hook.ClientCfg `json:"cfg"`
	Datagrams [][]byte       `json:"datagrams"`
	Senders   []int          `json:"senders,omitempty"` // socket layer: index of the sending socket per datagram
	// socket layer: collection window (0 = 120 ms) and, per datagram, the time at which it is sent as a percentage of the
	// window after the request was seen (non-decreasing, at most 70: every datagram is sent well before the timeout)
	WindowMs int   `json:"window_ms,omitempty"`
	AtPct    []int `json:"at_pct,omitempty"`
	// socket layer: FixedPort - the client has a fixed bind port; Rival - while the discovery is collecting replies, ANOTHER
	// program on the host (another instance of an application built on the library: sockets with SO_REUSEADDR) tries to bind
	// the same address and port. Whether it is refused or not, the discovery returns the controllers that answered.
	FixedPort bool `json:"fixed_bind_port,omitempty"`
	Rival     bool `json:"rival_socket_on_bind_port,omitempty"`
	// socket layer: ListenerState - the same client's event listener has been started and stopped before the discovery (1), or is
	// running during it (2); HostSender - the replies of sender 1 come from one of this host's own interface addresses (a
	// simulator or a port-forwarded controller on the same machine) instead of a loopback address
	ListenerState int  `json:"listener_state,omitempty"`
	HostSender    bool `json:"sender_on_host_address,omitempty"`
	// hook layer: Procs - GOMAXPROCS for the duration of the case (0 = unchanged): a single-core host, a one-CPU container
	Procs int `json:"gomaxprocs,omitempty"`
}

type quietListener struct{}

func (quietListener) OnConnected()          {}
func (quietListener) OnEvent(*types.Status) {}
func (quietListener) OnError(error) bool    { return true }

func hostIPs() [][4]byte {
	var out [][4]byte
	ifs, err := net.Interfaces()
	if err != nil {
		return nil
	}
	for _, i := range ifs {
		if i.Flags&net.FlagUp == 0 || i.Flags&net.FlagLoopback != 0 {
			continue
		}
		addrs, _ := i.Addrs()
		for _, a := range addrs {
			if n, ok := a.(*net.IPNet); ok {
				if v4 := n.IP.To4(); v4 != nil {
					out = append(out, [4]byte{v4[0], v4[1], v4[2], v4[3]})
				}
			}
		}
	}
	return out
}

// rivalSocket binds a UDP socket with SO_REUSEADDR to ip:port (nil if the operating system refuses).
func rivalSocket(ip [4]byte, port uint16) net.PacketConn {
	lc := net.ListenConfig{Control: func(network, address string, rc syscall.RawConn) error {
		return rc.Control(func(fd uintptr) { syscall.SetsockoptInt(int(fd), syscall.SOL_SOCKET, syscall.SO_REUSEADDR, 1) })
	}}
	pc, err := lc.ListenPacket(context.Background(), "udp4", fmt.Sprintf("%d.%d.%d.%d:%d", ip[0], ip[1], ip[2], ip[3], port))
	if err != nil {
		return nil
	}
	return pc
}

func isValid(d []byte) bool {
	if len(d) != 64 || d[0] != 0x17 || d[1] != 0x94 {
		return false
	}
	return !spec.Decode(spec.Call{Op: "GetDevices"}, spec.Config{}, d).MayFail
}

// optionalMark prefixes the expected entry of a reply whose only flaw is an out-of-domain date (valid BCD, impossible
// calendar date): the protocol model allows the entry to be dropped or to be returned with 'no date' - never with an
// invented date.
const optionalMark = "(optional) "

func dateOnlyFlaw(d []byte) bool {
	if len(d) != 64 || d[0] != 0x17 || d[1] != 0x94 {
		return false
	}
	off := spec.Responses["GetDevices"].Field("date").Off
	for i := 0; i < 4; i++ {
		if d[off+i]>>4 > 9 || d[off+i]&0x0f > 9 {
			return false
		}
	}
	fixed := append([]byte(nil), d...)
	spec.PutDate(fixed[off:], spec.Civil{Y: 2024, M: 1, D: 1})
	return isValid(fixed)
}

func expected(c discCase, portOverride uint16) []string {
	var out []string
	for _, d := range c.Datagrams {
		optional := false
		if !isValid(d) {
			if !dateOnlyFlaw(d) {
				continue
			}
			optional = true
		}
		cfg := spec.Config{}
		if c.Cfg.HasBroadcast {
			cfg.BroadcastPort = c.Cfg.BroadcastPort
			if portOverride != 0 {
				cfg.BroadcastPort = portOverride
			}
		}
		if dev := c.Cfg.Lookup(spec.LE32(d[4:])); dev != nil {
			cfg.Name = dev.Name
		}
		e := spec.Decode(spec.Call{Op: "GetDevices"}, cfg, d).Rec.String()
		if optional {
			e = optionalMark + e
		}
		out = append(out, e)
	}
	return out
}

func actual(list []types.Device) []string {
	var out []string
	for _, d := range list {
		out = append(out, api.DeviceRec(d).String())
	}
	return out
}

func compare(site string, c discCase, want, got []string, err error, ordered bool) *rp.Fail {
	if err != nil {
		return rp.Failf(site+"/call-failed", "GetDevices failed: %v (incoming: %s)", err, describe(c))
	}
	mismatch := func() *rp.Fail {
		required := 0
		for _, w := range want {
			if !strings.HasPrefix(w, optionalMark) {
				required++
			}
		}
		if len(got) < required || len(got) > len(want) {
			return rp.Failf(site+"/wrong-count", "GetDevices returned %d controllers, %d well-formed replies arrived (%d more with an impossible date, which may be dropped or returned without date) (incoming: %s)\n got:  %v\n want: %v", len(got), required, len(want)-required, describe(c), got, want)
		}
		return rp.Failf(site+"/wrong-entry", "the entries differ (incoming: %s)\n got:  %v\n want: %v", describe(c), got, want)
	}
	if ordered {
		j := 0
		for _, w := range want {
			opt := strings.HasPrefix(w, optionalMark)
			if j < len(got) && got[j] == strings.TrimPrefix(w, optionalMark) {
				j++
			} else if !opt {
				return mismatch()
			}
		}
		if j != len(got) {
			return mismatch()
		}
		return nil
	}
	// unordered: every required entry is there, and what else is there is covered by the optional ones
	left := map[string]int{}
	for _, g := range got {
		left[g]++
	}
	for _, w := range want {
		if !strings.HasPrefix(w, optionalMark) {
			if left[w] == 0 {
				return mismatch()
			}
			left[w]--
		}
	}
	for _, w := range want {
		if strings.HasPrefix(w, optionalMark) && left[strings.TrimPrefix(w, optionalMark)] > 0 {
			left[strings.TrimPrefix(w, optionalMark)]--
		}
	}
	for _, n := range left {
		if n != 0 {
			return mismatch()
		}
	}
	return nil
}

func describe(c discCase) string {
	var cl []string
	for _, d := range c.Datagrams {
		switch {
		case isValid(d):
			cl = append(cl, "valid")
		case len(d) != 64:
			cl = append(cl, fmt.Sprintf("len%d", len(d)))
		case d[0] != 0x17:
			cl = append(cl, fmt.Sprintf("id%02x", d[0]))
		case d[1] != 0x94:
			cl = append(cl, fmt.Sprintf("code%02x", d[1]))
		case dateOnlyFlaw(d):
			cl = append(cl, "impossible-date")
		default:
			cl = append(cl, "bad-date")
		}
	}
	return strings.Join(cl, ",")
}

func runHook(c discCase) *rp.Fail {
	if c.Procs > 0 {
		ev.Class(fmt.Sprintf("hook/gomaxprocs-%d", c.Procs), 1)
		old := runtime.GOMAXPROCS(c.Procs)
		defer runtime.GOMAXPROCS(old)
	}
	u, d := hook.Mem(c.Cfg)
	d.Reset(c.Datagrams...)
	var list []types.Device
	var err error
	var pn any
	func() {
		defer func() { pn = recover() }()
		list, err = u.GetDevices()
	}()
	if pn != nil {
		return rp.Failf("hook/panic", "GetDevices panicked: %v", pn)
	}
	if f := compare("hook", c, expected(c, 0), actual(list), err, true); f != nil {
		return f
	}
	// a second discovery on the same client (datagrams in reverse order): nothing may be carried over
	rev := c
	rev.Datagrams = nil
	for i := len(c.Datagrams) - 1; i >= 0; i-- {
		rev.Datagrams = append(rev.Datagrams, c.Datagrams[i])
	}
	d.Reset(rev.Datagrams...)
	func() {
		defer func() { pn = recover() }()
		list, err = u.GetDevices()
	}()
	if pn != nil {
		return rp.Failf("hook/panic", "second GetDevices panicked: %v", pn)
	}
	if f := compare("hook/second-discovery", rev, expected(rev, 0), actual(list), err, true); f != nil {
		return f
	}
	return nil
}

func runSocket(c discCase, scale int) *rp.Fail {
	f := farm.New()
	defer f.Close()
	var extra []*farm.UDP
	for i := 0; i < 3; i++ {
		ip := [4]byte{127, 0, 4, byte(1 + i)}
		if i == 0 && c.HostSender {
			if ips := hostIPs(); len(ips) > 0 {
				ip = ips[0]
				ev.Class("socket/replies-from-one-of-the-host's-own-interface-addresses", 1)
			}
		}
		e, err := f.UDP(ip, 0, nil)
		if err != nil {
			ev.HarnessError("farm: %v", err)
			return nil
		}
		extra = append(extra, e)
	}
	multi := false
	var bindPort uint16
	var rivals []net.PacketConn
	var rivalMu sync.Mutex
	defer func() {
		rivalMu.Lock()
		for _, r := range rivals {
			r.Close()
		}
		rivalMu.Unlock()
	}()
	main, err := f.UDP([4]byte{127, 0, 2, 1}, 0, farm.Script(func(r farm.Received) []farm.Action {
		if c.Rival && bindPort != 0 {
			if pc := rivalSocket([4]byte{127, 0, 0, 1}, bindPort); pc != nil {
				rivalMu.Lock()
				rivals = append(rivals, pc)
				rivalMu.Unlock()
				ev.Class("socket/rival-socket-could-bind-the-bind-port", 1)
			} else {
				ev.Class("socket/rival-socket-was-refused", 1)
			}
		}
		var a []farm.Action
		window := 120
		if c.WindowMs != 0 {
			window = c.WindowMs
		}
		prev := 0
		for i, d := range c.Datagrams {
			act := farm.Action{Data: d}
			if i < len(c.AtPct) && c.AtPct[i] > prev {
				act.Delay = time.Duration((c.AtPct[i]-prev)*window*scale) * time.Millisecond / 100
				prev = c.AtPct[i]
			}
			if i < len(c.Senders) && c.Senders[i] > 0 {
				act.Via = extra[c.Senders[i]-1]
			}
			a = append(a, act)
		}
		return a
	}))
	if err != nil {
		ev.HarnessError("farm: %v", err)
		return nil
	}
	for _, s := range c.Senders {
		if s > 0 {
			multi = true
		}
	}
	cfg := c.Cfg
	cfg.HasBroadcast, cfg.BroadcastIP, cfg.BroadcastPort = true, [4]byte{127, 0, 2, 1}, main.Addr.Port()
	cfg.TimeoutMs = 120 * scale
	if c.WindowMs != 0 {
		cfg.TimeoutMs = c.WindowMs * scale
	}
	cfg.BindIP = [4]byte{127, 0, 0, 1}
	if c.FixedPort || c.Rival {
		if p, err := farm.FreePort(cfg.BindIP); err == nil {
			cfg.BindPort, bindPort = p, p
		}
	}
	if c.ListenerState != 0 {
		if lp, err := farm.FreePort([4]byte{127, 0, 0, 1}); err == nil {
			cfg.HasListen, cfg.ListenIP, cfg.ListenPort = true, [4]byte{127, 0, 0, 1}, lp
		}
	}
	u := hook.Real(cfg)
	if c.ListenerState != 0 && cfg.HasListen {
		q := make(chan os.Signal, 1)
		done := make(chan struct{})
		go func() {
			defer close(done)
			defer func() { recover() }()
			u.Listen(quietListener{}, q)
		}()
		time.Sleep(30 * time.Millisecond)
		stop := func() {
			q <- os.Interrupt
			select {
			case <-done:
			case <-time.After(3 * time.Second):
			}
		}
		if c.ListenerState == 1 {
			stop()
			ev.Class("socket/discovery-after-the-client's-listener-was-stopped", 1)
		} else {
			defer stop()
			ev.Class("socket/discovery-while-the-client's-listener-is-running", 1)
		}
	}
	var list []types.Device
	var pn any
	func() {
		defer func() { pn = recover() }()
		list, err = u.GetDevices()
	}()
	if pn != nil {
		return rp.Failf("socket/panic", "GetDevices panicked: %v", pn)
	}
	cc := c
	cc.Cfg = cfg
	return compare("socket", cc, expected(cc, 0), actual(list), err, !multi)
}

func check(c discCase) *rp.Fail {
	valid, malformedBetween, seenValid, pendingBad := 0, false, false, false
	for _, d := range c.Datagrams {
		if isValid(d) {
			valid++
			if seenValid && pendingBad {
				malformedBetween = true
			}
			seenValid, pendingBad = true, false
		} else if seenValid {
			pendingBad = true
		}
	}
	class := c.Layer + "/plain"
	switch {
	case valid >= 2 && malformedBetween:
		class = c.Layer + "/valid-malformed-valid"
	case valid == 0:
		class = c.Layer + "/no-valid-reply"
	}
	key := fmt.Sprintf("%+v", c.Cfg)
	for _, d := range c.Datagrams {
		key += string(d) + "|"
	}
	ev.Case(class, valid >= 2 && malformedBetween, key)
	if !c.Cfg.HasBroadcast {
		ev.Class(c.Layer+"/default-broadcast-port", 1)
	}
	if c.WindowMs > 1000 {
		ev.Class(c.Layer+"/collection-window-above-1s", 1)
	}
	if len(c.AtPct) > 0 && c.AtPct[len(c.AtPct)-1] >= 50 {
		ev.Class(c.Layer+"/replies-spread-over-the-window", 1)
	}
	if ev.WantSample(class) {
		ev.Sample(class, map[string]any{"incoming": describe(c), "broadcast_port": c.Cfg.BroadcastPort, "has_broadcast": c.Cfg.HasBroadcast, "expected_entries": valid})
	}
	if c.Layer == "hook" {
		return runHook(c)
	}
	f := runSocket(c, 1)
	if f != nil {
		// a slow machine can delay the farm's replies past the window: only a failure that persists with every time
		// scaled x4 and x16 (windows up to ~5 s) counts
		for _, scale := range []int{4, 16} {
			w := c.WindowMs
			if w == 0 {
				w = 120
			}
			if w*scale > 5500 {
				break
			}
			f2 := runSocket(c, scale)
			if f2 == nil {
				ev.Inconclusive(1)
				return nil
			}
			f = f2
		}
	}
	return f
}

// cfgName: the configured name of controller i - plain, or what people and configuration files really produce: padded with blanks,
// tabs, a trailing CR, no-break / ideographic spaces, other scripts, empty, very long. An entry carries the configured name.
func cfgName(t *rapid.T, i int) string {
	switch rapid.IntRange(0, 3).Draw(t, "name.kind") {
	case 0:
		return fmt.Sprintf("Controller %d", i)
	case 1:
		pad := []string{" ", "  ", "\t", "\r", "\n", "\r\n", "\u00a0", "\u3000", "\u2003", ""}
		return rapid.SampledFrom(pad).Draw(t, "name.lead") + fmt.Sprintf("Gate %d", i) + rapid.SampledFrom(pad).Draw(t, "name.trail")
	}
	return gen.Name(t, "name")
}

func genCase(layer string) func(t *rapid.T) discCase {
	return func(t *rapid.T) discCase {
		c := discCase{Layer: layer}
		if rapid.IntRange(0, 3).Draw(t, "broadcast.set") != 0 || layer == "socket" {
			c.Cfg.HasBroadcast, c.Cfg.BroadcastPort = true, gen.Port(t, "broadcast.port")
			c.Cfg.BroadcastIP = rapid.SampledFrom([][4]byte{{192, 168, 1, 255}, {192, 168, 1, 255}, {255, 255, 255, 255}, {0, 0, 0, 0}, {127, 0, 0, 1}, {10, 255, 255, 255}, {192, 168, 1, 100}}).Draw(t, "broadcast.ip")
		}
		if layer == "hook" && rapid.IntRange(0, 3).Draw(t, "procs.set") == 0 {
			c.Procs = rapid.SampledFrom([]int{1, 1, 2, 3}).Draw(t, "procs")
		}
		if layer == "socket" {
			c.FixedPort = rapid.IntRange(0, 3).Draw(t, "fixed.port") == 0
			c.Rival = rapid.IntRange(0, 5).Draw(t, "rival") == 0
			c.ListenerState = rapid.SampledFrom([]int{0, 0, 1, 2}).Draw(t, "listener.state")
			c.HostSender = rapid.IntRange(0, 2).Draw(t, "host.sender") == 0
		}
		l := spec.Responses["GetDevices"]
		n := rapid.IntRange(0, 12).Draw(t, "datagrams")
		var serials []uint32
		for i := 0; i < n; i++ {
			serial := gen.Serial(t)
			if len(serials) > 0 && rapid.IntRange(0, 4).Draw(t, "duplicate") == 0 {
				serial = serials[rapid.IntRange(0, len(serials)-1).Draw(t, "dup.ix")]
			}
			d := gen.Payload(t, l, 0x17, serial, 0, rapid.Bool().Draw(t, "noise"))
			// keep the date inside the stated domain (valid or zero) - gen.Payload already does
			switch rapid.IntRange(0, 9).Draw(t, "class") {
			case 0:
				d = d[:rapid.IntRange(0, 63).Draw(t, "short")]
			case 1:
				// (also longer than any receive buffer of 1024 / 2048 / 4096 bytes: what does not fit is cut off - a datagram of the
				// wrong length like any other)
				d = append(d, make([]byte, rapid.SampledFrom([]int{1, 2, 64, 960, 1984, 1985, 2500, 4032, 8000, 30000}).Draw(t, "long"))...)
			case 2:
				d[0] = rapid.SampledFrom([]byte{0x00, 0x16, 0x18, 0x19, 0xff}).Draw(t, "id")
			case 3:
				d[1] = rapid.SampledFrom([]byte{0x00, 0x20, 0x92, 0x95, 0x96, 0xff}).Draw(t, "code")
			case 4:
				off := l.Field("date").Off
				// (the non-decimal nibble sits in every kind of date: an ordinary one, the all-zero 'no date', the year 0000, the last day
				// of the last year)
				copy(d[off:off+4], rapid.SampledFrom([][]byte{{0x20, 0x24, 0x11, 0x28}, {0x20, 0x24, 0x11, 0x28}, {0, 0, 0, 0}, {0x00, 0x00, 0x01, 0x01}, {0x00, 0x00, 0x12, 0x31}, {0x99, 0x99, 0x12, 0x31}}).Draw(t, "nibble.base"))
				nib := rapid.IntRange(0, 7).Draw(t, "nibble")
				v := byte(rapid.IntRange(10, 15).Draw(t, "nibble.value"))
				if nib%2 == 0 {
					d[off+nib/2] = d[off+nib/2]&0x0f | v<<4
				} else {
					d[off+nib/2] = d[off+nib/2]&0xf0 | v
				}
			case 5:
				// valid BCD, no calendar date (month 13, 31 April, 29 February of a year that is not a leap year - century years
				// included): the entry may be dropped or come without a date, it never carries an invented one
				copy(d[l.Field("date").Off:], gen.FieldBytes(t, spec.Date, true, "impossible.date"))
				serials = append(serials, serial)
			default:
				serials = append(serials, serial)
			}
			c.Datagrams = append(c.Datagrams, d)
			sender := 0
			if layer == "socket" && rapid.IntRange(0, 5).Draw(t, "multi") == 0 {
				sender = rapid.IntRange(1, 3).Draw(t, "sender")
			}
			c.Senders = append(c.Senders, sender)
		}
		// some of the answering controllers are configured (names), some configured ones do not answer
		seen := map[uint32]bool{}
		for i, s := range serials {
			if !seen[s] && rapid.Bool().Draw(t, "configured") {
				seen[s] = true
				c.Cfg.Devices = append(c.Cfg.Devices, hook.DeviceCfg{Name: cfgName(t, i), Serial: s, HasAddr: rapid.Bool().Draw(t, "has.addr"), IP: [4]byte{10, 0, 0, byte(i)}, Port: 60000, Protocol: "udp", TZ: gen.DeviceTZ(t, "tz")})
			}
		}
		c.Cfg.Devices = append(c.Cfg.Devices, hook.DeviceCfg{Name: "Silent", Serial: 1, TZ: gen.DeviceTZ(t, "tz.silent")})
		c.Cfg.Debug = gen.Debug(t, "debug")
		if layer == "socket" && n > 0 && rapid.IntRange(0, 2).Draw(t, "spread") == 0 {
			// replies arrive spread over the window, the last one at up to 80% of it; now and then the window is longer
			// than a second
			if rapid.IntRange(0, 3).Draw(t, "long.window") == 0 {
				c.WindowMs = rapid.SampledFrom([]int{1150, 1300}).Draw(t, "window")
			}
			at := 0
			for i := 0; i < n; i++ {
				if rapid.IntRange(0, 2).Draw(t, "gap") == 0 {
					at += rapid.IntRange(1, 70).Draw(t, "gap.pct")
				}
				if at > 70 {
					at = 70
				}
				c.AtPct = append(c.AtPct, at)
			}
			if rapid.Bool().Draw(t, "last.late") {
				c.AtPct[n-1] = 70
			}
		}
		return c
	}
}

// boundary counts: n well-formed replies followed by an over-length datagram whose first 64 bytes are a well-formed reply
// (and by one more valid reply), for n around the powers of two - where fixed-size blocks of receive buffers fill up
func sweepCounts(yield func(discCase) bool) {
	l := spec.Responses["GetDevices"]
	mk := func(serial uint32) []byte {
		d := make([]byte, 64)
		spec.Header(d, 0x17, l.Code, serial)
		copy(d[8:], []byte{192, 168, 1, byte(serial), 255, 255, 255, 0, 192, 168, 1, 1, 0, 0x66, 0x19, 0x39, 0x55, byte(serial), 0x08, 0x92, 0x20, 0x18, 0x08, 0x16})
		return d
	}
	var counts []int
	if ev.Thorough() {
		for n := 0; n <= 130; n++ {
			counts = append(counts, n)
		}
	} else {
		counts = []int{0, 1, 2, 3, 4, 7, 8, 15, 16, 31, 32, 63, 64, 127, 128}
	}
	for i, n := range counts {
		if !ev.Mine(i) {
			continue
		}
		for _, extra := range []int{1, 960} {
			c := discCase{Layer: "socket", Cfg: hook.ClientCfg{HasBroadcast: true}}
			for k := 0; k < n; k++ {
				c.Datagrams = append(c.Datagrams, mk(uint32(1000+k)))
			}
			c.Datagrams = append(c.Datagrams, append(mk(77777), make([]byte, extra)...)) // over-length: must be dropped
			c.Datagrams = append(c.Datagrams, mk(88888))
			c.Senders = make([]int, len(c.Datagrams))
			if !yield(c) {
				return
			}
		}
	}
}

// sweepLarge: a discovery on a network where more than a thousand datagrams arrive within the window (a flat site network with a
// chatty neighbour): a valid reply first, noise of every malformed class, three valid replies at the very end - with various
// GOMAXPROCS settings, totals just above the powers of two and not multiples of small numbers.
func sweepLarge(yield func(discCase) bool) {
	l := spec.Responses["GetDevices"]
	i := 0
	for _, total := range []int{1023, 1025, 1026, 1027, 1029, 2051, 4099} {
		for _, procs := range []int{0, 3, 4, 7} {
			i++
			if !ev.Mine(i) || (!ev.Thorough() && (i+int(ev.Seed()))%3 != 0) {
				continue
			}
			c := discCase{Layer: "hook", Procs: procs}
			c.Datagrams = append(c.Datagrams, spec.Sample(l, 0x17, 400000001, 1))
			for k := 0; k < total-4; k++ {
				d := spec.Sample(l, 0x17, uint32(500000000+k), k%7)
				switch k % 4 {
				case 0:
					d = d[:63]
				case 1:
					d[0] = 0x18
				case 2:
					d[1] = 0x92
				default:
					d[l.Field("date").Off+1] = 0x1a
				}
				c.Datagrams = append(c.Datagrams, d)
			}
			for k := 0; k < 3; k++ {
				c.Datagrams = append(c.Datagrams, spec.Sample(l, 0x17, uint32(400000002+k), 2+k))
			}
			if !yield(c) {
				return
			}
		}
	}
}

func props() []rp.Prop {
	return []rp.Prop{
		rp.P[discCase]{Name: "hook-discovery", Checks: ev.Pick(24000, 3000000) / ev.Shards(), Gen: genCase("hook"), Sweep: sweepLarge, Check: check},
		rp.P[discCase]{Name: "socket-discovery", Checks: ev.Pick(320, 19200) / ev.Shards(), Gen: genCase("socket"), Sweep: sweepCounts, Check: check},
		rp.P[burstCase]{Name: "burst", Sweep: sweepBurst, Check: checkBurst},
		rp.P[stallCase]{Name: "debug-output-stalls", Sweep: sweepStall, Check: checkStall},
		rp.P[queuedCase]{Name: "discovery-queued-for-the-bind-port", Sweep: sweepQueued, Check: checkQueued},
		rp.P[noisyCase]{Name: "noisy-neighbour", Sweep: sweepNoisy, Check: checkNoisy},
	}
}

func TestC11(t *testing.T)    { rp.RunAll(t, props()...) }
func TestReplay(t *testing.T) { rp.ReplayAll(t, props()...) }
