package c11

import (
	"fmt"
	"io"
	"net"
	"os"
	"syscall"
	"time"

	"github.com/uhppoted/uhppote-core/types"
	"verif/harness/ev"
	"verif/harness/farm"
	"verif/harness/hook"
	"verif/harness/rp"
	"verif/harness/spec"
)

// A large installation answers a discovery at once: a burst of replies that is as large as the receive queue of an ordinary
// UDP socket on this machine allows (measured at run time, minus a margin of 20), sent back to back - while the collecting
// client is slow to pick them up because its debug output goes to a pipe that nobody reads for a while (a log pipe, a slow
// terminal). Every reply that reached the host before the timeout is returned, in order.
type burstCase struct {
	Stalled  bool `json:"debug_output_stalls"`
	Margin   int  `json:"margin"`
	WindowMs int  `json:"window_ms"`
}

// queueCapacity: how many 64-byte datagrams an ordinary UDP socket holds for a reader that is not reading.
func queueCapacity() int {
	a, err := net.ListenUDP("udp4", &net.UDPAddr{IP: net.IPv4(127, 0, 0, 1)})
	if err != nil {
		return 0
	}
	defer a.Close()
	b, err := net.DialUDP("udp4", nil, a.LocalAddr().(*net.UDPAddr))
	if err != nil {
		return 0
	}
	defer b.Close()
	msg := make([]byte, 64)
	for i := 0; i < 1200; i++ {
		b.Write(msg)
	}
	time.Sleep(20 * time.Millisecond)
	n := 0
	buf := make([]byte, 128)
	for {
		a.SetReadDeadline(time.Now().Add(30 * time.Millisecond))
		if _, _, err := a.ReadFromUDP(buf); err != nil {
			return n
		}
		n++
	}
}

func checkBurst(c burstCase) *rp.Fail {
	f := runBurst(c)
	if f != nil {
		// the queue capacity is measured, not known: a second run with three times the margin and a longer window decides
		c2 := c
		c2.Margin, c2.WindowMs = 3*c.Margin, 2*c.WindowMs
		if f2 := runBurst(c2); f2 == nil {
			ev.Inconclusive(1)
			return nil
		} else {
			f = f2
		}
	}
	return f
}

func runBurst(c burstCase) *rp.Fail {
	k := queueCapacity()
	if k < 60 {
		ev.Excluded("receive queue of a UDP socket could not be measured", 1)
		return nil
	}
	n := k - c.Margin
	ev.Case(fmt.Sprintf("burst/%s", map[bool]string{true: "debug-output-stalled", false: "plain"}[c.Stalled]), true, fmt.Sprint(c, n))
	ev.Note("burst_size", n)
	f := farm.New()
	defer f.Close()
	seen := make(chan struct{}, 4)
	main, err := f.UDP([4]byte{127, 0, 2, 9}, 0, farm.Script(func(r farm.Received) []farm.Action {
		var a []farm.Action
		for i := 0; i < n; i++ {
			d := make([]byte, 64)
			spec.Header(d, 0x17, 0x94, uint32(400000000+i))
			copy(d[8:], []byte{192, 168, byte(i >> 8), byte(i), 255, 255, 255, 0, 192, 168, 1, 1, 0, 0x66, 0x19, 0x39, byte(i >> 8), byte(i), 0x08, 0x92, 0x20, 0x18, 0x08, 0x16})
			a = append(a, farm.Action{Data: d})
		}
		select {
		case seen <- struct{}{}:
		default:
		}
		return a
	}))
	if err != nil {
		return nil
	}
	cfg := hook.ClientCfg{TimeoutMs: c.WindowMs, BindIP: [4]byte{127, 0, 0, 1}, HasBroadcast: true, BroadcastIP: [4]byte{127, 0, 2, 9}, BroadcastPort: main.Addr.Port(), Debug: c.Stalled}
	u := hook.Real(cfg) // (mutes the library's stdout; the stalled pipe is installed afterwards)
	if c.Stalled {
		r, w, err := os.Pipe()
		if err != nil {
			return nil
		}
		syscall.Syscall(syscall.SYS_FCNTL, w.Fd(), 1031 /* F_SETPIPE_SZ */, 4096)
		old := os.Stdout
		os.Stdout = w
		drained := make(chan struct{})
		go func() {
			defer close(drained)
			select {
			case <-seen:
			case <-time.After(time.Duration(c.WindowMs) * time.Millisecond / 2):
			}
			time.Sleep(time.Duration(c.WindowMs) * time.Millisecond / 6) // the burst has long been sent; nobody has read the output yet
			io.Copy(io.Discard, r)
		}()
		defer func() {
			os.Stdout = old
			w.Close()
			<-drained
			r.Close()
		}()
	}
	var list []types.Device
	var pn any
	func() {
		defer func() { pn = recover() }()
		list, err = u.GetDevices()
	}()
	if pn != nil {
		return rp.Failf("socket/panic", "GetDevices panicked: %v", pn)
	}
	if err != nil {
		return rp.Failf("socket/burst/call-failed", "GetDevices failed: %v", err)
	}
	if len(list) != n {
		return rp.Failf("socket/burst/wrong-count", "%d controllers answered at once (the receive queue of an ordinary UDP socket on this machine holds %d datagrams; debug output stalled: %v), GetDevices returned %d controllers", n, k, c.Stalled, len(list))
	}
	for i, d := range list {
		if uint32(d.SerialNumber) != uint32(400000000+i) {
			return rp.Failf("socket/burst/wrong-entry", "entry %d of %d is controller %d, the %d-th reply came from %d", i, n, d.SerialNumber, i, 400000000+i)
		}
	}
	return nil
}

func sweepBurst(yield func(burstCase) bool) {
	cases := []burstCase{{Stalled: true, Margin: 20, WindowMs: 1800}, {Stalled: false, Margin: 20, WindowMs: 600}}
	if ev.Thorough() {
		cases = append(cases, burstCase{Stalled: true, Margin: 40, WindowMs: 2500}, burstCase{Stalled: true, Margin: 90, WindowMs: 1500}, burstCase{Stalled: false, Margin: 60, WindowMs: 900})
	}
	for i, c := range cases {
		if ev.Mine(i+1) && !yield(c) {
			return
		}
	}
}
