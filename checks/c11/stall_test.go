package c11

import (
	"bytes"
	"fmt"
	"io"
	"os"
	"strings"
	"sync"
	"syscall"
	"time"

	"github.com/uhppoted/uhppote-core/types"

	"verif/harness/ev"
	"verif/harness/farm"
	"verif/harness/hook"
	"verif/harness/rp"
	"verif/harness/spec"
)

// The debug output of an application goes to a pipe whose consumer stops reading (a pager, a log shipper under back pressure):
// the discovery's debug print number At (0 = the dump of the request, 1 = the 'sent' line) blocks for StallPct % of the timeout.
// The controllers answer DelayPct % of the timeout after they have seen the request - every reply reaches the host before the
// timeout, so every one is returned, however long the debug output was held up at whatever line.
//
// How the stall is placed: the pipe holds one page; the sizes of the first prints are measured with a first, unhindered discovery
// of the same client, and the pipe is then filled with so much other output that exactly the first At prints still fit.
type stallCase struct {
	At       int `json:"stalled_print"`
	StallPct int `json:"stall_percent_of_timeout"`
	DelayPct int `json:"replies_after_percent_of_timeout"`
	WindowMs int `json:"window_ms"`
	N        int `json:"controllers"`
}

func checkStall(c stallCase) *rp.Fail {
	f := runStall(c)
	if f != nil {
		c2 := c
		c2.WindowMs = 3 * c.WindowMs
		if f2 := runStall(c2); f2 == nil {
			ev.Inconclusive(1)
			return nil
		} else {
			f = f2
		}
	}
	return f
}

func runStall(c stallCase) *rp.Fail {
	ev.Case(fmt.Sprintf("debug-output-stalls/print-%d", c.At), true, fmt.Sprint(c))
	f := farm.New()
	defer f.Close()
	W := time.Duration(c.WindowMs) * time.Millisecond
	seen := make(chan struct{}, 8)
	main, err := f.UDP([4]byte{127, 0, 2, 11}, 0, farm.Script(func(r farm.Received) []farm.Action {
		var a []farm.Action
		for i := 0; i < c.N; i++ {
			d := make([]byte, 64)
			spec.Header(d, 0x17, 0x94, uint32(410000000+i))
			copy(d[8:], []byte{192, 168, 1, byte(i + 1), 255, 255, 255, 0, 192, 168, 1, 1, 0, 0x66, 0x19, 0x39, 0, byte(i), 0x08, 0x92, 0x20, 0x18, 0x08, 0x16})
			delay := time.Duration(0)
			if i == 0 {
				delay = W * time.Duration(c.DelayPct) / 100
			}
			a = append(a, farm.Action{Delay: delay, Data: d})
		}
		select {
		case seen <- struct{}{}:
		default:
		}
		return a
	}))
	if err != nil {
		return nil
	}
	cfg := hook.ClientCfg{TimeoutMs: c.WindowMs, BindIP: [4]byte{127, 0, 0, 1}, HasBroadcast: true, BroadcastIP: [4]byte{127, 0, 2, 11}, BroadcastPort: main.Addr.Port(), Debug: true}
	u := hook.Real(cfg)
	old := os.Stdout
	defer func() { os.Stdout = old }()

	// 1. an unhindered discovery: the sizes of the first two prints
	var captured bytes.Buffer
	{
		r, w, err := os.Pipe()
		if err != nil {
			return nil
		}
		var wg sync.WaitGroup
		wg.Add(1)
		go func() { defer wg.Done(); io.Copy(&captured, r) }()
		os.Stdout = w
		list, err := u.GetDevices()
		os.Stdout = old
		w.Close()
		wg.Wait()
		r.Close()
		if err != nil || len(list) != c.N {
			return rp.Failf("socket/debug-output/plain", "debug output to a pipe that is read at once: %d controllers answered, GetDevices returned %d controllers, error %v", c.N, len(list), err)
		}
		select {
		case <-seen:
		default:
		}
	}
	out := captured.String()
	p0 := strings.Index(out, " ... sent")
	p1 := strings.Index(out, " ... received")
	if p0 <= 0 || p1 <= p0 || p1 > 2048 {
		ev.Excluded("debug output not of the form request dump / sent line / replies", 1)
		return nil
	}
	fill := 4096
	if c.At == 1 {
		fill -= p0
	}

	// 2. the same discovery with the pipe nearly full and nobody reading for a while
	r, w, err := os.Pipe()
	if err != nil {
		return nil
	}
	if _, _, e := syscall.Syscall(syscall.SYS_FCNTL, w.Fd(), 1031 /* F_SETPIPE_SZ */, 4096); e != 0 {
		ev.Excluded("pipe size cannot be set", 1)
		r.Close()
		w.Close()
		return nil
	}
	junk := bytes.Repeat([]byte{'.'}, fill)
	junk[fill-1] = '\n'
	if n, err := w.Write(junk); err != nil || n != fill {
		r.Close()
		w.Close()
		return nil
	}
	os.Stdout = w
	drained := make(chan struct{})
	started := time.Now()
	go func() {
		defer close(drained)
		if c.At == 1 {
			select {
			case <-seen:
			case <-time.After(W + 5*time.Second):
			}
		}
		time.Sleep(W * time.Duration(c.StallPct) / 100)
		io.Copy(io.Discard, r)
	}()
	var list []types.Device
	var pn any
	func() {
		defer func() { pn = recover() }()
		list, err = u.GetDevices()
	}()
	elapsed := time.Since(started)
	os.Stdout = old
	w.Close()
	<-drained
	r.Close()
	if pn != nil {
		return rp.Failf("socket/panic", "GetDevices panicked: %v", pn)
	}
	if err != nil {
		return rp.Failf("socket/debug-output/call-failed", "GetDevices failed: %v", err)
	}
	if elapsed < W*time.Duration(c.StallPct)/100 {
		ev.Excluded("the debug output did not stall (pipe semantics differ)", 1)
		return nil
	}
	if len(list) != c.N {
		return rp.Failf("socket/debug-output/wrong-count", "%d controllers answered the discovery, the first %d %% of the timeout (%v) after seeing the request and the others at once; the debug output was held up at print %d (0 = request dump, 1 = 'sent' line) for %d %% of the timeout; GetDevices returned %d controllers after %v", c.N, c.DelayPct, W, c.At, c.StallPct, len(list), elapsed)
	}
	return nil
}

func sweepStall(yield func(stallCase) bool) {
	cases := []stallCase{{At: 1, StallPct: 130, DelayPct: 0, WindowMs: 400, N: 3}, {At: 0, StallPct: 130, DelayPct: 30, WindowMs: 400, N: 2},
		{At: 1, StallPct: 60, DelayPct: 70, WindowMs: 500, N: 3}, {At: 1, StallPct: 250, DelayPct: 50, WindowMs: 300, N: 1}}
	if ev.Thorough() {
		for _, at := range []int{0, 1} {
			for _, st := range []int{40, 100, 180, 400} {
				for _, dl := range []int{0, 40, 80} {
					cases = append(cases, stallCase{At: at, StallPct: st, DelayPct: dl, WindowMs: 350, N: 1 + (st+dl)%4})
				}
			}
		}
	}
	for i, c := range cases {
		if ev.Mine(i+2) && !yield(c) {
			return
		}
	}
}

// A discovery that first has to wait for the shared fixed bind port - another call of the same application holds it for
// HoldPct % of the timeout - collects replies for its whole window once it has the port: the controllers answer DelayPct % of
// the timeout after they have seen the discovery request.
type queuedCase struct {
	WindowMs   int  `json:"window_ms"`
	HoldPct    int  `json:"port_held_for_percent_of_timeout"`
	DelayPct   int  `json:"replies_after_percent_of_timeout"`
	N          int  `json:"controllers"`
	TwoClients bool `json:"two_clients,omitempty"` // the call that holds the port is made by another client with the same bind address
}

func checkQueued(c queuedCase) *rp.Fail {
	f := runQueued(c)
	if f != nil {
		c2 := c
		c2.WindowMs = 3 * c.WindowMs
		if f2 := runQueued(c2); f2 == nil {
			ev.Inconclusive(1)
			return nil
		} else {
			f = f2
		}
	}
	return f
}

func runQueued(c queuedCase) *rp.Fail {
	ev.Case("discovery-queued-for-the-bind-port", true, fmt.Sprint(c))
	f := farm.New()
	defer f.Close()
	W := time.Duration(c.WindowMs) * time.Millisecond
	holderSeen := make(chan struct{}, 4)
	holder, err := f.UDP([4]byte{127, 0, 2, 21}, 0, farm.Script(func(r farm.Received) []farm.Action {
		if len(r.Data) != 64 {
			return nil
		}
		d := make([]byte, 64)
		spec.Header(d, 0x17, r.Data[1], spec.LE32(r.Data[4:]))
		spec.PutDateTime(d[8:], spec.CivilDT{Y: 2024, M: 6, D: 1, H: 12, Mi: 0, S: 0})
		select {
		case holderSeen <- struct{}{}:
		default:
		}
		return []farm.Action{{Delay: W * time.Duration(c.HoldPct) / 100, Data: d}}
	}))
	if err != nil {
		return nil
	}
	bcast, err := f.UDP([4]byte{127, 0, 2, 22}, 0, farm.Script(func(r farm.Received) []farm.Action {
		var a []farm.Action
		for i := 0; i < c.N; i++ {
			d := make([]byte, 64)
			spec.Header(d, 0x17, 0x94, uint32(420000000+i))
			copy(d[8:], []byte{192, 168, 1, byte(i + 1), 255, 255, 255, 0, 192, 168, 1, 1, 0, 0x66, 0x19, 0x39, 0, byte(i), 0x08, 0x92, 0x20, 0x18, 0x08, 0x16})
			delay := time.Duration(0)
			if i == 0 {
				delay = W * time.Duration(c.DelayPct) / 100
			}
			a = append(a, farm.Action{Delay: delay, Data: d})
		}
		return a
	}))
	if err != nil {
		return nil
	}
	port, err := farm.FreePort([4]byte{127, 0, 0, 1})
	if err != nil {
		return nil
	}
	cfg := hook.ClientCfg{TimeoutMs: c.WindowMs, BindIP: [4]byte{127, 0, 0, 1}, BindPort: port, HasBroadcast: true, BroadcastIP: [4]byte{127, 0, 2, 22}, BroadcastPort: bcast.Addr.Port(),
		Devices: []hook.DeviceCfg{{Serial: 405419896, HasAddr: true, IP: [4]byte{127, 0, 2, 21}, Port: holder.Addr.Port(), Protocol: "udp"}}}
	u := hook.Real(cfg)
	h := u
	if c.TwoClients {
		h = hook.Real(cfg)
	}
	held := make(chan error, 1)
	go func() {
		_, err := h.GetTime(405419896)
		held <- err
	}()
	select {
	case <-holderSeen:
	case <-time.After(W + 5*time.Second):
		return nil
	}
	started := time.Now()
	var list []types.Device
	var pn any
	func() {
		defer func() { pn = recover() }()
		list, err = u.GetDevices()
	}()
	elapsed := time.Since(started)
	<-held
	if pn != nil {
		return rp.Failf("socket/panic", "GetDevices panicked: %v", pn)
	}
	if err != nil {
		return rp.Failf("socket/queued-discovery/call-failed", "GetDevices failed: %v", err)
	}
	if len(list) != c.N {
		return rp.Failf("socket/queued-discovery/wrong-count", "a discovery that waited %d %% of the timeout (%v) for the shared bind port: %d controllers answered %d %% of the timeout after seeing its request, GetDevices returned %d controllers after %v", c.HoldPct, W, c.N, c.DelayPct, len(list), elapsed)
	}
	return nil
}

func sweepQueued(yield func(queuedCase) bool) {
	cases := []queuedCase{{WindowMs: 500, HoldPct: 80, DelayPct: 50, N: 2}, {WindowMs: 400, HoldPct: 90, DelayPct: 30, N: 3, TwoClients: true}}
	if ev.Thorough() {
		for _, hold := range []int{30, 60, 95} {
			for _, delay := range []int{10, 45, 75} {
				cases = append(cases, queuedCase{WindowMs: 450, HoldPct: hold, DelayPct: delay, N: 1 + (hold+delay)%3, TwoClients: (hold+delay)%2 == 0})
			}
		}
	}
	for i, c := range cases {
		if ev.Mine(i+1) && !yield(c) {
			return
		}
	}
}

// A noisy neighbour: during one discovery window a few hundred malformed datagrams arrive at the bind port, paced so that no
// receive queue overflows, with valid replies before, among and after them. Every valid reply is returned, in order.
type noisyCase struct {
	Noise    int `json:"malformed_datagrams"`
	PerBurst int `json:"per_burst"`
	GapMs    int `json:"gap_ms"`
	WindowMs int `json:"window_ms"`
}

func checkNoisy(c noisyCase) *rp.Fail {
	var f *rp.Fail
	for try := 0; try < 3; try++ { // (UDP may lose datagrams on a busy machine: a failure must show three times)
		if f = runNoisy(c); f == nil {
			if try > 0 {
				ev.Inconclusive(1)
			}
			return nil
		}
		c.WindowMs, c.GapMs = c.WindowMs*2, c.GapMs*2
	}
	return f
}

func runNoisy(c noisyCase) *rp.Fail {
	ev.Case("noisy-neighbour", true, fmt.Sprint(c))
	f := farm.New()
	defer f.Close()
	l := spec.Responses["GetDevices"]
	valid := func(k int) []byte { return spec.Sample(l, 0x17, uint32(430000000+k), k) }
	bcast, err := f.UDP([4]byte{127, 0, 2, 31}, 0, farm.Script(func(r farm.Received) []farm.Action {
		a := []farm.Action{{Data: valid(0)}}
		for k := 0; k < c.Noise; k++ {
			d := spec.Sample(l, 0x17, uint32(530000000+k), k%5)
			switch k % 3 {
			case 0:
				d = d[:40]
			case 1:
				d[0] = 0x18
			default:
				d[1] = 0x20
			}
			act := farm.Action{Data: d}
			if k%c.PerBurst == 0 {
				act.Delay = time.Duration(c.GapMs) * time.Millisecond
			}
			a = append(a, act)
			if k == c.Noise/2 {
				a = append(a, farm.Action{Data: valid(1)})
			}
		}
		return append(a, farm.Action{Delay: time.Duration(c.GapMs) * time.Millisecond, Data: valid(2)}, farm.Action{Data: valid(3)})
	}))
	if err != nil {
		return nil
	}
	u := hook.Real(hook.ClientCfg{TimeoutMs: c.WindowMs, BindIP: [4]byte{127, 0, 0, 1}, HasBroadcast: true, BroadcastIP: [4]byte{127, 0, 2, 31}, BroadcastPort: bcast.Addr.Port()})
	var list []types.Device
	var pn any
	func() {
		defer func() { pn = recover() }()
		list, err = u.GetDevices()
	}()
	if pn != nil {
		return rp.Failf("socket/panic", "GetDevices panicked: %v", pn)
	}
	if err != nil {
		return rp.Failf("socket/noisy-neighbour/call-failed", "GetDevices failed: %v", err)
	}
	var got []uint32
	for _, d := range list {
		got = append(got, uint32(d.SerialNumber))
	}
	if fmt.Sprint(got) != fmt.Sprint([]uint32{430000000, 430000001, 430000002, 430000003}) {
		return rp.Failf("socket/noisy-neighbour/wrong-list", "four controllers answered a discovery - the first at once, the second in the middle of %d malformed datagrams (bursts of %d, %d ms apart), two after them, all within %d ms of a %d ms window: GetDevices returned %v", c.Noise, c.PerBurst, c.GapMs, (c.Noise/c.PerBurst+2)*c.GapMs, c.WindowMs, got)
	}
	return nil
}

func sweepNoisy(yield func(noisyCase) bool) {
	cases := []noisyCase{{Noise: 300, PerBurst: 25, GapMs: 25, WindowMs: 1500}, {Noise: 600, PerBurst: 20, GapMs: 15, WindowMs: 2000}}
	if ev.Thorough() {
		cases = append(cases, noisyCase{Noise: 1200, PerBurst: 30, GapMs: 20, WindowMs: 3000}, noisyCase{Noise: 260, PerBurst: 10, GapMs: 10, WindowMs: 1200}, noisyCase{Noise: 5000, PerBurst: 40, GapMs: 15, WindowMs: 6000})
	}
	for i, c := range cases {
		if ev.Mine(i+3) && !yield(c) {
			return
		}
	}
}
