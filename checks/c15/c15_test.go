// C15 - address parsing accepts exactly IPv4[:port] under each role's port rule.
package c15

import (
	"encoding/json"
	"fmt"
	"net"
	"net/netip"
	"os"
	"strconv"
	"strings"
	"sync/atomic"
	"testing"
	"unsafe"
	"verif/harness/cold"
	"verif/harness/guard"
	"verif/harness/hook"

	"github.com/uhppoted/uhppote-core/types"
	"pgregory.net/rapid"

	"verif/harness/ev"
	"verif/harness/gen"
	"verif/harness/rp"
)

func TestMain(m *testing.M) {
	// (for the 'references' class below: names that expand to address parts in this process's environment)
	for k, v := range map[string]string{"C15_HOST": "192.168.1.100", "C15_NET": "192.168.1", "C15_DOT": ".", "C15_PORT": "60001", "C15_ADDR": "192.168.1.100:60001", "C15_OCTET": "100"} {
		os.Setenv(k, v)
	}
	ev.Describe("four roles (bind, broadcast, listen, controller) x (i) every string of length <=6 (quick) / <=7 (thorough) over the alphabet {0 1 2 5 . :}; (ii) the product of a token grammar: octet tokens {0,1,255,256,01}^4 x separator deviations x port suffix {absent, ':', ':0', ':1', ':59999', ':60000', ':60001', ':65535', ':65536', ':080', ':123456'} x prefix/suffix junk (a seeded tenth in quick, all in thorough); (iii) single-character insert/delete/replace mutations of valid addresses (rapid); (iv) all 2^16 ports on fixed addresses; (v) random IPv4 addresses and ports (rapid). Oracle: an independent strict parser that classifies each string as must-accept-with-value, must-reject (right form but the role's port rule is violated, or no dotted quad anywhere in the string) or don't-care (judged only for 'no panic'); String() of an accepted address parsed again must give the same address and port; Set and JSON must agree with Parse. Non-trivial = must-accept or must-reject; distinct = distinct (role, string).",
		"strings that contain a dotted quad but are not of the exact form a.b.c.d[:port] (e.g. '::ffff:1.2.3.4', leading-zero ports like ':080', surrounding junk) are don't-care")
	ev.Main(m, "C15")
}

var roles = []string{"bind", "broadcast", "listen", "controller"}

type aCase struct {
	Role string `json:"role"`
	S    string `json:"s"`
}

type verdict int

const (
	dontCare verdict = iota
	mustAccept
	mustReject
)

// strict parses a.b.c.d[:port]: decimal octets 0..255 without leading zeros, port 0..65535 in plain decimal.
func strict(s string) (ip [4]byte, port int, hasPort, ok bool) {
	host := s
	if i := strings.IndexByte(s, ':'); i >= 0 {
		host = s[:i]
		p := s[i+1:]
		if len(p) == 0 || len(p) > 5 || (len(p) > 1 && p[0] == '0') {
			return ip, 0, false, false
		}
		for _, ch := range []byte(p) {
			if ch < '0' || ch > '9' {
				return ip, 0, false, false
			}
		}
		port, _ = strconv.Atoi(p)
		if port > 65535 {
			return ip, 0, false, false
		}
		hasPort = true
	}
	parts := strings.Split(host, ".")
	if len(parts) != 4 {
		return ip, 0, false, false
	}
	for i, p := range parts {
		if len(p) == 0 || len(p) > 3 || (len(p) > 1 && p[0] == '0') {
			return ip, 0, false, false
		}
		for _, ch := range []byte(p) {
			if ch < '0' || ch > '9' {
				return ip, 0, false, false
			}
		}
		v, _ := strconv.Atoi(p)
		if v > 255 {
			return ip, 0, false, false
		}
		ip[i] = byte(v)
	}
	return ip, port, hasPort, true
}

// hasDottedQuad: is there any substring digits.digits.digits.digits
func hasDottedQuad(s string) bool {
	b := []byte(s)
	isD := func(c byte) bool { return c >= '0' && c <= '9' }
	for i := 0; i < len(b); i++ {
		if !isD(b[i]) {
			continue
		}
		j, groups := i, 0
		for {
			k := j
			for k < len(b) && isD(b[k]) {
				k++
			}
			if k == j {
				break
			}
			groups++
			if groups == 4 {
				return true
			}
			if k < len(b) && b[k] == '.' {
				j = k + 1
			} else {
				break
			}
		}
	}
	return false
}

func classify(role, s string) (verdict, netip.AddrPort) {
	ip, port, hasPort, ok := strict(s)
	if !ok {
		if !hasDottedQuad(s) {
			return mustReject, netip.AddrPort{}
		}
		// a dotted quad wrapped in the syntax of something ELSE - a URL (scheme://, user@, /path, ?query, #fragment), a subnet in CIDR
		// notation (/24) - is not an address in the form a.b.c.d[:port] by any reading
		if strings.ContainsAny(s, "/@?#") {
			return mustReject, netip.AddrPort{}
		}
		return dontCare, netip.AddrPort{}
	}
	switch role {
	case "bind":
		if !hasPort {
			port = 0
		}
		if port == 60000 {
			return mustReject, netip.AddrPort{}
		}
	case "broadcast", "controller":
		if !hasPort {
			port = 60000
		}
		if port == 0 {
			return mustReject, netip.AddrPort{}
		}
	case "listen":
		if !hasPort || port == 0 || port == 60000 {
			return mustReject, netip.AddrPort{}
		}
	}
	return mustAccept, netip.AddrPortFrom(netip.AddrFrom4(ip), uint16(port))
}

type parsed struct {
	ap  netip.AddrPort
	str string
	err error
}

func parse(role, s string) (p parsed, pnc any) {
	defer func() { pnc = recover() }()
	switch role {
	case "bind":
		a, err := types.ParseBindAddr(s)
		p = parsed{a.AddrPort, "", err}
		if err == nil {
			p.str = a.String()
		}
	case "broadcast":
		a, err := types.ParseBroadcastAddr(s)
		p = parsed{a.AddrPort, "", err}
		if err == nil {
			p.str = a.String()
		}
	case "listen":
		a, err := types.ParseListenAddr(s)
		p = parsed{a.AddrPort, "", err}
		if err == nil {
			p.str = a.String()
		}
	case "controller":
		a, err := types.ParseControllerAddr(s)
		p = parsed{a.AddrPort, "", err}
		if err == nil {
			p.str = a.String()
		}
	default:
		panic("HARNESS: role " + role)
	}
	return
}

// setAndJSON decodes the text with Set and UnmarshalJSON - into fresh variables, or (used) into variables that already hold
// another address with a port of its own, as a configuration struct that is loaded a second time does.
func setAndJSON(role, s string, used bool) (set parsed, js parsed, pnc any) {
	defer func() { pnc = recover() }()
	q, _ := json.Marshal(s)
	const earlier = "10.0.0.1:12345"
	switch role {
	case "bind":
		var a, b types.BindAddr
		if used {
			a.Set(earlier)
			b.Set(earlier)
		}
		set = parsed{err: a.Set(s)}
		set.ap = a.AddrPort
		js = parsed{err: json.Unmarshal(q, &b)}
		js.ap = b.AddrPort
	case "broadcast":
		var a, b types.BroadcastAddr
		if used {
			a.Set(earlier)
			b.Set(earlier)
		}
		set = parsed{err: a.Set(s)}
		set.ap = a.AddrPort
		js = parsed{err: json.Unmarshal(q, &b)}
		js.ap = b.AddrPort
	case "listen":
		var a, b types.ListenAddr
		if used {
			a.Set(earlier)
			b.Set(earlier)
		}
		set = parsed{err: a.Set(s)}
		set.ap = a.AddrPort
		js = parsed{err: json.Unmarshal(q, &b)}
		js.ap = b.AddrPort
	case "controller":
		var a, b types.ControllerAddr
		if used {
			a.Set(earlier)
			b.Set(earlier)
		}
		set = parsed{err: a.Set(s)}
		set.ap = a.AddrPort
		js = parsed{err: json.Unmarshal(q, &b)}
		js.ap = b.AddrPort
	}
	return
}

func decide(c aCase) (*rp.Fail, verdict) {
	v, want := classify(c.Role, c.S)
	site := "types.Parse" + strings.ToUpper(c.Role[:1]) + c.Role[1:] + "Addr"
	got, pnc := parse(c.Role, c.S)
	if pnc != nil {
		return rp.Failf(site+"/panic", "%s(%q) panicked: %v", site, c.S, pnc), v
	}
	// the same text ending exactly where a readable page ends: the parser reads the string and nothing after it
	if n := len(c.S); n > 0 && n <= 512 && (n+int(c.S[0])+int(c.S[n-1]))%3 == 0 && guard.Available() {
		placed, release := guard.Place([]byte(c.S), true)
		var again parsed
		var p2 any
		p1 := guard.Do(func() { again, p2 = parse(c.Role, unsafe.String(&placed[0], len(placed))) })
		release()
		if p1 != nil || p2 != nil {
			return rp.Failf(site+"/reads-beyond-the-argument", "%s(%q) with the string ending at the end of a readable page: %v %v", site, c.S, p1, p2), v
		}
		if (again.err == nil) != (got.err == nil) || again.ap != got.ap {
			return rp.Failf(site+"/reads-beyond-the-argument", "%s(%q) gives %v, %v - and %v, %v when the string ends at the end of a readable page", site, c.S, got.ap, got.err, again.ap, again.err), v
		}
	}
	switch v {
	case mustReject:
		if got.err == nil {
			return rp.Failf(site+"/accepts-invalid", "%s(%q) = %v, want an error", site, c.S, got.ap), v
		}
	case mustAccept:
		if got.err != nil {
			return rp.Failf(site+"/rejects-valid", "%s(%q) failed: %v; want %v", site, c.S, got.err, want), v
		}
		if got.ap != want {
			return rp.Failf(site+"/wrong-value", "%s(%q) = %v, want %v", site, c.S, got.ap, want), v
		}
	}
	if got.err == nil && v == dontCare && got.ap.Addr().Is4() {
		// a string that is neither of the exact form nor free of dotted quads may be accepted or rejected - but an accepted one
		// yields what is WRITTEN in it: a port that occurs nowhere in the text (65536 + 60001 read as 60001) or an octet that
		// does not is an invented value
		def := map[string]uint16{"bind": 0, "broadcast": 60000, "controller": 60000}
		port := got.ap.Port()
		// ... and whatever the notation (a reserved port written with leading zeros, say), an address that a role's parser
		// returns obeys that role's port rule: the rule is about the address, not about its spelling
		if c.Role == "bind" && port == 60000 || c.Role == "listen" && (port == 0 || port == 60000) || (c.Role == "broadcast" || c.Role == "controller") && port == 0 {
			return rp.Failf(site+"/returns-forbidden-port", "%s(%q) = %v: a %s address may not use port %d", site, c.S, got.ap, c.Role, port), v
		}
		written := func(n uint64) bool {
			// the number occurs in the text as a maximal digit run with that value (leading zeros allowed)
			// (significant digits are counted: a run of any length that is all leading zeros plus at most 18 digits has a value)
			digits, significant := 0, 0
			var val uint64
			for i := 0; i <= len(c.S); i++ {
				if i < len(c.S) && c.S[i] >= '0' && c.S[i] <= '9' {
					if significant > 0 || c.S[i] != '0' {
						significant++
						if significant <= 18 {
							val = val*10 + uint64(c.S[i]-'0')
						}
					}
					digits++
					continue
				}
				if digits > 0 && significant <= 18 && val == n {
					return true
				}
				digits, significant, val = 0, 0, 0
			}
			return false
		}
		if d, ok := def[c.Role]; !(ok && port == d) && !written(uint64(port)) {
			return rp.Failf(site+"/invented-value", "%s(%q) = %v: the port %d is written nowhere in the text", site, c.S, got.ap, port), v
		}
		for _, o := range got.ap.Addr().As4() {
			if !written(uint64(o)) {
				return rp.Failf(site+"/invented-value", "%s(%q) = %v: the octet %d is written nowhere in the text", site, c.S, got.ap, o), v
			}
		}
	}
	if got.err == nil && v == mustAccept {
		// formatting and parsing again returns the same address and port
		again, pnc := parse(c.Role, got.str)
		if pnc != nil || again.err != nil || again.ap != got.ap {
			return rp.Failf(site+"/format-reparse", "%q parsed as %v, formats as %q, which parses as %v (%v %v)", c.S, got.ap, got.str, again.ap, again.err, pnc), v
		}
		// the text omits the default port
		def := map[string]uint16{"bind": 0, "broadcast": 60000, "controller": 60000}
		if d, ok := def[c.Role]; ok && got.ap.Port() == d && strings.Contains(got.str, ":") {
			return rp.Failf(site+"/format-default-port", "%v formats as %q (the default port should be omitted)", got.ap, got.str), v
		}
	}
	if v != dontCare {
		for _, used := range []bool{false, true} {
			set, js, pnc := setAndJSON(c.Role, c.S, used)
			into := map[bool]string{false: "", true: " (into a variable that held 10.0.0.1:12345)"}[used]
			if pnc != nil {
				return rp.Failf(site+"/set-json-panic", "Set/UnmarshalJSON(%q)%s panicked: %v", c.S, into, pnc), v
			}
			if (set.err == nil) != (got.err == nil) || (set.err == nil && set.ap != got.ap) {
				return rp.Failf(site+"/set-disagrees", "Set(%q)%s = %v, %v but Parse = %v, %v", c.S, into, set.ap, set.err, got.ap, got.err), v
			}
			if (js.err == nil) != (got.err == nil) || (js.err == nil && js.ap != got.ap) {
				return rp.Failf(site+"/json-disagrees", "UnmarshalJSON(%q)%s = %v, %v but Parse = %v, %v", c.S, into, js.ap, js.err, got.ap, got.err), v
			}
		}
	}
	return nil, v
}

func vname(v verdict) string { return [...]string{"dont-care", "must-accept", "must-reject"}[v] }

// clients come and go in a process that parses address text (a configuration is read, a client is built from it, the next
// configuration is read ...): what a parser accepts depends on the text and the role, never on which clients the process has
// created - with whatever bind, broadcast and listen ports.
var clientsMade int64

func makeAClient(k int64) {
	ports := []uint16{54321, 60001, 60000, 1, 65535, 12345, 60005, 0}
	cfg := hook.ClientCfg{BindIP: [4]byte{127, 0, 0, 1}, BindPort: ports[(k+1)%8], HasBroadcast: true, BroadcastIP: [4]byte{127, 0, 0, 1}, BroadcastPort: ports[k%7],
		HasListen: k%2 == 0, ListenIP: [4]byte{127, 0, 0, 1}, ListenPort: ports[(k+3)%7],
		Devices: []hook.DeviceCfg{{Name: "c", Serial: 405419896, HasAddr: true, IP: [4]byte{127, 0, 0, 9}, Port: ports[(k+2)%7], Protocol: "udp"}}}
	func() {
		defer func() { recover() }()
		if k%3 == 0 {
			hook.Mem(cfg)
		} else {
			hook.Real(cfg)
		}
	}()
}

func check(c aCase) *rp.Fail {
	if n := atomic.AddInt64(&clientsMade, 1); n%97 == 1 {
		makeAClient(n / 97)
		ev.Class("clients-created-between-the-parses", 1)
	}
	f, v := decide(c)
	if f == nil && v == mustAccept {
		if p, _ := parse(c.Role, c.S); p.err == nil {
			f = holdText(p.str)
		}
	}
	class := c.Role + "/" + vname(v)
	ev.Case(class, v != dontCare, c.Role+"\x00"+c.S)
	if ev.WantSample(class) {
		ev.Sample(class, c)
	}
	return f
}

// bulk: decide without hashing; distinct by construction
type bulk struct {
	t     *testing.T
	n     map[string]int64
	nt    map[string]int64
	stop  bool
	check string
}

func (b *bulk) run(role, s string) {
	f, v := decide(aCase{role, s})
	class := role + "/" + vname(v)
	b.n[class]++
	if v != dontCare {
		b.nt[class]++
	}
	if ev.WantSample(class) {
		ev.Sample(class, aCase{role, s})
	}
	if f != nil && ev.Failure(b.check, f.Fingerprint, f.Msg, aCase{role, s}) {
		b.t.Errorf("%s: [%s] %s", b.check, f.Fingerprint, f.Msg)
		b.stop = true
	}
}

func (b *bulk) flush(prefix string) {
	for k, n := range b.n {
		ev.Bulk(prefix+"/"+k, n, b.nt[k])
	}
}

func TestSweeps(t *testing.T) {
	if ev.Replaying() {
		t.Skip()
	}
	// (i) every string over a small alphabet
	{
		b := &bulk{t: t, n: map[string]int64{}, nt: map[string]int64{}, check: "addr"}
		alphabet := []byte("0125.:")
		maxLen := ev.Pick(6, 7)
		idx := 0
		var rec func(prefix []byte)
		rec = func(prefix []byte) {
			if b.stop {
				return
			}
			if ev.Mine(idx) {
				for _, r := range roles {
					b.run(r, string(prefix))
				}
			}
			idx++
			if len(prefix) == maxLen {
				return
			}
			for _, ch := range alphabet {
				rec(append(prefix, ch))
			}
		}
		rec(make([]byte, 0, 8))
		b.flush("small-alphabet")
	}
	// (ii) token grammar
	{
		b := &bulk{t: t, n: map[string]int64{}, nt: map[string]int64{}, check: "addr"}
		octets := []string{"0", "1", "255", "256", "01"}
		seps := [][3]string{{".", ".", "."}, {":", ".", "."}, {".", "..", "."}, {".", ".", ""}, {".", ":", "."}, {"", ".", "."}}
		ports := []string{"", ":", ":0", ":1", ":59999", ":60000", ":60001", ":65535", ":65536", ":080", ":123456", ":125537", ":65537", ":4295027297", ":18446744073709611617", ":0000000000000000000000001000", ":000000000000000000000000000000060001", ":060000", ":0060000", ":00", ":060001"}
		junk := []string{"", " ", "x"}
		idx := 0
		stride := ev.Pick(10, 1)
		offset := int(ev.Seed() % int64(stride))
		for _, a := range octets {
			for _, bb := range octets {
				for _, c := range octets {
					for _, d := range octets {
						for _, sp := range seps {
							for _, p := range ports {
								for _, pre := range junk {
									for _, suf := range junk {
										idx++
										if idx%stride != offset || !ev.Mine(idx/stride) || b.stop {
											continue
										}
										s := pre + a + sp[0] + bb + sp[1] + c + sp[2] + d + p + suf
										for _, r := range roles {
											b.run(r, s)
										}
									}
								}
							}
						}
					}
				}
			}
		}
		b.flush("token-grammar")
	}
	// (iv) all 2^16 ports
	{
		b := &bulk{t: t, n: map[string]int64{}, nt: map[string]int64{}, check: "addr"}
		addrs := []string{"0.0.0.0", "127.0.0.1", "255.255.255.255", "192.168.1.100"}
		if !ev.Thorough() {
			addrs = addrs[:2]
		}
		idx := 0
		for _, a := range addrs {
			for p := 0; p < 65536 && !b.stop; p++ {
				idx++
				if !ev.Mine(idx) {
					continue
				}
				for _, r := range roles {
					b.run(r, fmt.Sprintf("%s:%d", a, p))
				}
			}
		}
		b.flush("all-ports")
	}
}

func genIP(t *rapid.T) string {
	return fmt.Sprintf("%d.%d.%d.%d", rapid.IntRange(0, 255).Draw(t, "a"), rapid.IntRange(0, 255).Draw(t, "b"), rapid.IntRange(0, 255).Draw(t, "c"), rapid.IntRange(0, 255).Draw(t, "d"))
}

// other notations for an IPv4 endpoint that general-purpose parsers accept (IPv6 forms of an IPv4 address written in
// hexadecimal, integers, short dotted forms, host names ...): none of them contains a dotted quad, all must be rejected
// genReference: a valid address in which a part is written as a REFERENCE or an ESCAPE that some other notation would
// resolve - URL percent-encoding, shell / Windows environment references (the names are set in this process), HTML and
// Unicode escapes, backslashes. None of these strings contains a dotted quad as written: a parser has no business resolving them.
func genReference(t *rapid.T) string {
	a, b, c, d := rapid.IntRange(1, 255).Draw(t, "a"), rapid.IntRange(0, 255).Draw(t, "b"), rapid.IntRange(0, 255).Draw(t, "c"), rapid.IntRange(1, 254).Draw(t, "d")
	plain := fmt.Sprintf("%d.%d.%d.%d", a, b, c, d)
	port := rapid.SampledFrom([]string{"", ":60001", ":12345", ":1"}).Draw(t, "port")
	pct := func(s string, what byte) string {
		return strings.ReplaceAll(s, string(what), fmt.Sprintf("%%%02X", what))
	}
	forms := []string{
		pct(plain, '.') + port, strings.ToLower(pct(plain, '.')) + port, plain[:len(plain)-1] + fmt.Sprintf("%%%02x", plain[len(plain)-1]) + port, pct(plain+port, ':'),
		fmt.Sprintf("%%%02x", plain[0]) + plain[1:] + port, pct(pct(plain, '.'), '%') + port,
		"$C15_HOST" + port, "${C15_HOST}" + port, "${C15_NET}.100" + port, "192.168.1${C15_DOT}100" + port, "$C15_ADDR", "%C15_HOST%" + port, "192.168.1.$C15_OCTET" + port, "192.168.1.100:$C15_PORT", "192.168.1.100:${C15_PORT}",
		"$(echo 192.168.1.100)" + port, "`hostname -i`" + port, "~" + port, "{{host}}" + port,
		strings.ReplaceAll(plain, ".", "&#46;") + port, strings.ReplaceAll(plain, ".", "&period;") + port, strings.ReplaceAll(plain, ".", "\\u002e") + port, strings.ReplaceAll(plain, ".", "\\.") + port,
		strings.ReplaceAll(plain, ".", "\\x2e") + port, strings.ReplaceAll(plain, ".", "%u002E") + port, strings.ReplaceAll(plain, ".", "=2E") + port, strings.ReplaceAll(plain, ".", "+") + port,
	}
	return forms[rapid.IntRange(0, len(forms)-1).Draw(t, "form")]
}

func genOtherNotation(t *rapid.T) string {
	a, b, c, d := rapid.IntRange(0, 255).Draw(t, "a"), rapid.IntRange(0, 255).Draw(t, "b"), rapid.IntRange(0, 255).Draw(t, "c"), rapid.IntRange(0, 255).Draw(t, "d")
	v := uint32(a)<<24 | uint32(b)<<16 | uint32(c)<<8 | uint32(d)
	hi, lo := v>>16, v&0xffff
	host := rapid.SampledFrom([]string{
		fmt.Sprintf("::ffff:%x:%x", hi, lo), fmt.Sprintf("::FFFF:%X:%X", hi, lo), fmt.Sprintf("0:0:0:0:0:ffff:%x:%x", hi, lo), fmt.Sprintf("::%x:%x", hi, lo), fmt.Sprintf("64:ff9b::%x:%x", hi, lo),
		fmt.Sprintf("2002:%x:%x::1", hi, lo), "::1", "::", "fe80::1", "fe80::1%eth0", fmt.Sprintf("2001:db8::%x", lo),
		fmt.Sprintf("%d", v), fmt.Sprintf("0x%08x", v), fmt.Sprintf("0%o", v), fmt.Sprintf("%d.%d.%d", a, b, c<<8|d), fmt.Sprintf("%d.%d", a, v&0xffffff), fmt.Sprintf("%d.%d.%d", a, b, c),
		fmt.Sprintf("0x%x.0x%x.0x%x.0x%x", a, b, c, d), fmt.Sprintf("%d.%d.%d.+%d", a, b, c, d), fmt.Sprintf("%d.-%d.%d.%d", a, b, c, d), fmt.Sprintf("%d,%d,%d,%d", a, b, c, d), fmt.Sprintf("%d.%d.%d.", a, b, c),
		fmt.Sprintf("%d %d %d %d", a, b, c, d), fmt.Sprintf("%d.%d.%d.\u0664", a, b, c), "\uff11.\uff12.\uff13.\uff14", "fe80::1%eth0.100.200.qinq", "fe80::1%a.b.c.d", "::%...", "::1%1.2.3", fmt.Sprintf("fe80::%x%%%d.%d.%d.x", lo, a, b, c), fmt.Sprintf("::%%.%d.%d.", a, b), "fe80::1%.a.b.c", "localhost", "controller.local", "any", "", " ", "*", "udp", "0", "lo", "lo0", "eth0", "en0", "wlan0", "docker0", "ens3", localInterface(0), localInterface(1), localInterface(2)}).Draw(t, "host")
	switch rapid.IntRange(0, 3).Draw(t, "form") {
	case 0:
		return host
	case 1:
		return "[" + host + "]:" + rapid.SampledFrom([]string{"0", "1", "60000", "60001", "65535"}).Draw(t, "port")
	case 2:
		return host + ":" + rapid.SampledFrom([]string{"0", "1", "60000", "60001", "65535"}).Draw(t, "port")
	}
	return "[" + host + "]"
}

// localInterface returns the name of the i-th network interface of this host ("lo" when there are fewer)
func localInterface(i int) string {
	ifs, err := net.Interfaces()
	if err != nil || len(ifs) == 0 {
		return "lo"
	}
	return ifs[i%len(ifs)].Name
}

func genCase(t *rapid.T) aCase {
	role := rapid.SampledFrom(roles).Draw(t, "role")
	if rapid.IntRange(0, 7).Draw(t, "other.notation") == 0 {
		return aCase{Role: role, S: genOtherNotation(t)}
	}
	if rapid.IntRange(0, 11).Draw(t, "reference") == 0 {
		return aCase{Role: role, S: genReference(t)}
	}
	if rapid.IntRange(0, 15).Draw(t, "text") == 0 {
		// text that is no address at all, of every length and script (host names, labels, what a user types into the wrong field),
		// alone or with a port or an address attached
		s := gen.Name(t, "text")
		switch rapid.IntRange(0, 3).Draw(t, "text.with") {
		case 1:
			s += ":60000"
		case 2:
			s += " 192.168.1.100"
		case 3:
			s = "192.168.1.100 " + s
		}
		return aCase{Role: role, S: s}
	}
	if rapid.IntRange(0, 11).Draw(t, "wrapped") == 0 {
		// a valid address inside the syntax of something else: a URL with any of its parts, a subnet, an interface zone
		s := genIP(t)
		if rapid.Bool().Draw(t, "wrapped.port") {
			s += fmt.Sprintf(":%d", rapid.SampledFrom([]int{1, 60000, 60001, 12345}).Draw(t, "wrapped.p"))
		}
		pre := rapid.SampledFrom([]string{"", "", "udp://", "tcp://", "UDP://", "http://", "uhppote://", "//", "udp:", "admin@", "tcp://admin:secret@"}).Draw(t, "prefix")
		suf := rapid.SampledFrom([]string{"", "/", "/24", "/8", "/0", "/32", "/33", "/path", "?x=1", "#y", "/path?x=1#y", "%eth0", "/255.255.255.0"}).Draw(t, "suffix")
		if pre == "" && suf == "" {
			suf = "/24"
		}
		return aCase{Role: role, S: pre + s + suf}
	}
	s := genIP(t)
	switch rapid.IntRange(0, 3).Draw(t, "port") {
	case 0:
	case 1:
		s += ":" + rapid.SampledFrom([]string{"0", "1", "59999", "60000", "60001", "65535", "65536", "99999", "125537", "65616", "4295027297", "18446744073709611617", "131072"}).Draw(t, "p")
	default:
		s += fmt.Sprintf(":%d", rapid.IntRange(0, 65535).Draw(t, "p"))
	}
	// (iii) mutation of a valid address
	if rapid.IntRange(0, 2).Draw(t, "mutate") == 0 {
		n := rapid.IntRange(1, 2).Draw(t, "mutations")
		for i := 0; i < n; i++ {
			b := []byte(s)
			pos := rapid.IntRange(0, len(b)).Draw(t, "pos")
			ch := rapid.SampledFrom([]byte("0123456789.: -+x/[]%\t\x00")).Draw(t, "ch")
			if rapid.IntRange(0, 11).Draw(t, "dict") == 0 {
				s = string(b[:pos]) + gen.DictString(t, "dict.ins") + string(b[pos:]) // a string literal from the library's own source
				continue
			}
			if rapid.IntRange(0, 5).Draw(t, "invisible") == 0 {
				// characters that a 'cleaning' or normalising step may drop or fold: zero-width and format characters, no-break
				// and ideographic spaces, the full stops that IDNA maps to '.', fullwidth digits
				ins := rapid.SampledFrom([]string{"\u200b", "\ufeff", "\u00ad", "\u200d", "\u2060", "\u200e", "\u202c", "\u00a0", "\u3000", "\u3002", "\uff0e", "\uff61", "\uff11", "\u0661", "\u2024", "\u180e", "\r", "\n", "\v"}).Draw(t, "invisible.ch")
				s = string(b[:pos]) + ins + string(b[pos:])
				continue
			}
			switch rapid.IntRange(0, 2).Draw(t, "kind") {
			case 0:
				b = append(b[:pos], append([]byte{ch}, b[pos:]...)...)
			case 1:
				if pos < len(b) {
					b = append(b[:pos], b[pos+1:]...)
				}
			default:
				if pos < len(b) {
					b[pos] = ch
				}
			}
			s = string(b)
		}
	}
	return aCase{Role: role, S: s}
}

// held texts in the sequential part: formatted addresses are kept and compared with a private copy later
var heldText, heldCopy []string

func holdText(s string) *rp.Fail {
	heldText, heldCopy = append(heldText, s), append(heldCopy, strings.Clone(s))
	if len(heldText) < 48 {
		return nil
	}
	defer func() { heldText, heldCopy = nil, nil }()
	for i := range heldText {
		if heldText[i] != heldCopy[i] {
			return rp.Failf("types.Addr.String/text-changed-later", "a formatted address read %q when it was returned and reads %q after later String() calls", heldCopy[i], heldText[i])
		}
	}
	return nil
}

func props() []rp.Prop {
	return []rp.Prop{
		rp.P[aCase]{Name: "addr", Checks: ev.Pick(60000, 6000000) / ev.Shards(), Gen: genCase, Check: check},
		rp.P[addrPair]{Name: "colliding-pairs", Sweep: sweepAddrPairs, Check: checkAddrPair},
		cold.Prop{Name: "first-role-order", Scenario: "role-order", N: ev.Pick(48, 480) / ev.Shards()},
	}
}

func TestC15(t *testing.T) {
	if cold.Scenario() != "" {
		t.Skip("cold-start child")
	}
	rp.RunAll(t, props()...)
}
func TestReplay(t *testing.T) { rp.ReplayAll(t, props()...) }

func FuzzAddr(f *testing.F) {
	if os.Getenv("VERIF_FUZZ") == "" {
		f.Skip("native fuzzing runs in the thorough tier only")
	}
	for _, s := range []string{"", "0.0.0.0", "192.168.1.100:60000", "255.255.255.255:65535", "1.2.3.4:0", "1.2.3.4:", "::ffff:1.2.3.4", "[::1]:80", "1.2.3.4:080", "256.1.1.1", "1.2.3", "1.2.3.4.5:6", "0.0.0.0:0000000000000000000000001000", "1.2.3.4:00000000000000000000000000060001"} {
		f.Add(s)
	}
	f.Fuzz(func(t *testing.T, s string) {
		for _, r := range roles {
			if x, _ := decide(aCase{r, s}); x != nil {
				t.Fatalf("[%s] %s", x.Fingerprint, x.Msg)
			}
		}
	})
}
