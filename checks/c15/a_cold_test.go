package c15

import (
	"strings"
	"sync"
	"testing"

	"verif/harness/ev"
	"verif/harness/rp"
)

// TestAAAConcurrentParsing runs first in the process (cold caches): the same strings parsed at the same time under different roles (shared caches, pooled
// buffers) must still be judged per role; formatted texts must not change afterwards.
func TestAAAConcurrentParsing(t *testing.T) {
	if ev.Replaying() {
		t.Skip()
	}
	inputs := []string{"10.11.12.13", "192.168.1.100", "192.168.1.100:60000", "192.168.1.100:0", "0.0.0.0", "0.0.0.0:0", "127.0.0.1:12345", "255.255.255.255", "1.2.3.4:60001", "200.201.202.203:1"}
	var mu sync.Mutex
	var first *rp.Fail
	var firstCase aCase
	var n int64
	var wg sync.WaitGroup
	for w := 0; w < 8; w++ {
		wg.Add(1)
		go func(w int) {
			defer wg.Done()
			role := roles[w%len(roles)]
			var heldText []string
			var heldCopy []string
			for round := 0; round < ev.Pick(4000, 60000); round++ {
				// all goroutines hammer the same string for a stretch, then move on together
				s := inputs[(round/400)%len(inputs)]
				f, v := decide(aCase{role, s})
				if v == mustAccept {
					if p, _ := parse(role, s); p.err == nil {
						heldText = append(heldText, p.str)
						heldCopy = append(heldCopy, strings.Clone(p.str))
					}
				}
				mu.Lock()
				n++
				if f != nil && first == nil {
					f.Fingerprint += "/concurrent"
					first, firstCase = f, aCase{role, s}
				}
				mu.Unlock()
				if len(heldText) >= 64 {
					for i := range heldText {
						if heldText[i] != heldCopy[i] {
							mu.Lock()
							if first == nil {
								first, firstCase = rp.Failf("types."+role+".String/text-changed-later", "a formatted %s address read %q when it was returned and reads %q after later String() calls", role, heldCopy[i], heldText[i]), aCase{role, s}
							}
							mu.Unlock()
						}
					}
					heldText, heldCopy = nil, nil
				}
			}
		}(w)
	}
	wg.Wait()
	ev.Bulk("concurrent/same-strings-different-roles", n, n)
	if first != nil && ev.Failure("addr", first.Fingerprint, first.Msg, firstCase) {
		t.Errorf("[%s] %s", first.Fingerprint, first.Msg)
	}
}
