package c15

import (
	"fmt"
	"strings"
	"sync"
	"syscall"
	"testing"
	"verif/harness/cold"

	"verif/harness/ev"
	"verif/harness/rp"
)

// TestAAAConcurrentParsing runs first in the process (cold caches): the same strings parsed at the same time under different roles (shared caches, pooled
// buffers) must still be judged per role; formatted texts must not change afterwards.
func TestAAAConcurrentParsing(t *testing.T) {
	if ev.Replaying() {
		t.Skip()
	}
	inputs := []string{"10.11.12.13", "192.168.1.100", "192.168.1.100:60000", "192.168.1.100:0", "0.0.0.0", "0.0.0.0:0", "127.0.0.1:12345", "255.255.255.255", "1.2.3.4:60001", "200.201.202.203:1"}
	var mu sync.Mutex
	var first *rp.Fail
	var firstCase aCase
	var n int64
	var wg sync.WaitGroup
	for w := 0; w < 8; w++ {
		wg.Add(1)
		go func(w int) {
			defer wg.Done()
			role := roles[w%len(roles)]
			var heldText []string
			var heldCopy []string
			for round := 0; round < ev.Pick(4000, 60000); round++ {
				// all goroutines hammer the same string for a stretch, then move on together
				s := inputs[(round/400)%len(inputs)]
				f, v := decide(aCase{role, s})
				if v == mustAccept {
					if p, _ := parse(role, s); p.err == nil {
						heldText = append(heldText, p.str)
						heldCopy = append(heldCopy, strings.Clone(p.str))
					}
				}
				mu.Lock()
				n++
				if f != nil && first == nil {
					f.Fingerprint += "/concurrent"
					first, firstCase = f, aCase{role, s}
				}
				mu.Unlock()
				if len(heldText) >= 64 {
					for i := range heldText {
						if heldText[i] != heldCopy[i] {
							mu.Lock()
							if first == nil {
								first, firstCase = rp.Failf("types."+role+".String/text-changed-later", "a formatted %s address read %q when it was returned and reads %q after later String() calls", role, heldCopy[i], heldText[i]), aCase{role, s}
							}
							mu.Unlock()
						}
					}
					heldText, heldCopy = nil, nil
				}
			}
		}(w)
	}
	wg.Wait()
	ev.Bulk("concurrent/same-strings-different-roles", n, n)
	if first != nil && ev.Failure("addr", first.Fingerprint, first.Msg, firstCase) {
		t.Errorf("[%s] %s", first.Fingerprint, first.Msg)
	}
}

// TestColdChild (fresh child process only, see harness/cold): what a parser accepts does not depend on which role was parsed
// FIRST in the process. Child k makes its first parses in the k-th of the 24 orders of the four roles (one goroutine, a bare
// address and an address with port each), then judges a fixed list of texts under every role with the ordinary oracle.
func TestColdChild(t *testing.T) {
	if cold.Scenario() == "" {
		t.Skip("cold-start child only")
	}
	k := cold.Index()*ev.Shards() + ev.Shard() // (every shard starts its children at index 0)
	order := append([]string(nil), roles...)
	// k-th permutation (factorial number system)
	for i, f := 0, k%24; i < 3; i++ {
		n := len(order) - i
		j := i + f%n
		f /= n
		order[i], order[j] = order[j], order[i]
	}
	// every third child is a process of an ordinary user (the harness runs as root; the child gives its privileges up before it
	// parses anything): what a parser accepts is a matter of the text and the role, not of who runs the process
	who := "root or whoever runs the checks"
	if k%3 == 1 && syscall.Geteuid() == 0 {
		if err := syscall.Setreuid(65534, 65534); err == nil {
			who = fmt.Sprintf("an ordinary user (uid %d)", syscall.Geteuid())
		}
	}
	n := 0
	judge := func(role, s string) {
		n++
		if f, _ := decide(aCase{role, s}); f != nil {
			cold.Report(f.Fingerprint+"/first-roles-parsed-in-the-process: "+strings.Join(order, ","), f.Msg+fmt.Sprintf(" (the first parses of this process were made in the role order %v; the process runs as %s)", order, who), aCase{role, s})
		}
	}
	for _, role := range order {
		judge(role, []string{"192.168.1.100:60001", "192.168.1.100"}[k/24%2])
	}
	for _, s := range []string{"192.168.1.100", "192.168.1.100:60001", "0.0.0.0", "0.0.0.0:0", "255.255.255.255", "255.255.255.255:60000", "10.0.0.1:0", "10.0.0.1:60000", "1.2.3.4:1", "1.2.3.4:80", "1.2.3.4:443", "1.2.3.4:1023", "1.2.3.4:1024", "::1", "1.2.3", ""} {
		for _, role := range roles {
			judge(role, s)
		}
	}
	cold.Done(n)
}
