package c15

import (
	"fmt"

	"verif/harness/collide"
	"verif/harness/ev"
	"verif/harness/rp"
)

// Parsing must not depend on what was parsed before: pairs of address strings (valid ones, and valid ones against strings
// that break a port rule or are no address at all) that collide under the usual 32-bit hashes / cheap keys are parsed one
// after the other under every role, in both orders.
type addrPair struct {
	Hash string `json:"hash"`
	A    string `json:"a"`
	B    string `json:"b"`
}

func sweepAddrPairs(yield func(addrPair) bool) {
	var cands []string
	n := 0
	for a := 1; a < 255; a += 7 {
		for b := 0; b < 256; b += 5 {
			for d := 1; d < 255; d += 3 {
				n++
				ip := fmt.Sprintf("%d.%d.%d.%d", a, b, (a+b+d)%256, d)
				cands = append(cands, ip)
				switch n % 6 {
				case 0:
					cands = append(cands, ip+":60000")
				case 1:
					cands = append(cands, ip+":0")
				case 2:
					cands = append(cands, fmt.Sprintf("%s:%d", ip, 1+(n*7919)%65535))
				case 3:
					cands = append(cands, ip+":60001")
				case 4:
					cands = append(cands, fmt.Sprintf("%d.%d.%d:%d", a, b, d, 1+n%65535)) // no dotted quad
				}
			}
		}
	}
	ev.Note("colliding-pairs/candidates", len(cands))
	idx := 0
	for _, p := range collide.Pairs(cands, ev.Pick(5, 40)) {
		idx++
		if ev.Mine(idx) && !yield(addrPair{p.Hash, p.A, p.B}) {
			return
		}
	}
}

func checkAddrPair(c addrPair) *rp.Fail {
	ev.Case("hash-colliding-pair/"+c.Hash, true, c.Hash+c.A+"|"+c.B)
	for _, order := range [][2]string{{c.A, c.B}, {c.B, c.A}} {
		for _, role := range roles {
			for _, s := range []string{order[0], order[1], order[0]} {
				if f, _ := decide(aCase{role, s}); f != nil {
					f.Fingerprint += "/after-colliding-input"
					f.Msg += fmt.Sprintf("  (in the sequence %q, %q, %q - the two collide under %s)", order[0], order[1], order[0], c.Hash)
					return f
				}
			}
		}
	}
	return nil
}
