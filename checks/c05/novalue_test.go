package c05

import (
	"bytes"
	"encoding/json"
	"fmt"
	"runtime"
	"time"

	codec "github.com/uhppoted/uhppote-core/encoding/UTO311-L0x"
	"github.com/uhppoted/uhppote-core/messages"
	"github.com/uhppoted/uhppote-core/types"

	"verif/harness/ev"
	"verif/harness/rp"
	"verif/harness/zones"
)

// The 'no value' date is the zero time.Time - in whatever location it is carried (a NULL 'valid until' read from a database
// comes back as time.Time{}.Local() or .In(site zone)): it is the zero date (IsZero), it encodes as four zero bytes - alone and
// inside a message - decodes back to the zero date, and has the empty JSON form.
type noValueCase struct {
	Loc string `json:"location"` // "" = the zero value itself; "utc()", "local()", a zone name or Fixed/<abbr>/<seconds>
	PZ  string `json:"process_zone"`
}

func checkNoValue(c noValueCase) (fail *rp.Fail) {
	ev.Case("no-value-date-in-a-location", c.Loc != "", fmt.Sprint(c))
	zones.With(zones.Loc(c.PZ), func() {
		var t time.Time
		switch c.Loc {
		case "":
		case "utc()":
			t = t.UTC()
		case "local()":
			t = t.Local()
		default:
			t = t.In(zones.Loc(c.Loc))
		}
		d := types.Date(t)
		if !d.IsZero() {
			fail = rp.Failf("types.Date.IsZero/zero-in-a-location", "Date(time.Time{} in %q).IsZero() is false", c.Loc)
			return
		}
		b, err := d.MarshalUT0311L0x()
		if err != nil || !bytes.Equal(b, []byte{0, 0, 0, 0}) {
			fail = rp.Failf("types.Date.MarshalUT0311L0x/zero-in-a-location", "the zero date carried in location %q (process zone %s) encodes as %x, %v - 'no value' is four zero bytes", c.Loc, c.PZ, b, err)
			return
		}
		if js, err := json.Marshal(d); err != nil || string(js) != `""` {
			fail = rp.Failf("types.Date.MarshalJSON/zero-in-a-location", "the zero date carried in location %q has the JSON form %s, %v", c.Loc, js, err)
			return
		}
		// inside a message
		req := messages.PutCardRequest{SerialNumber: 405419896, CardNumber: 8165538, From: d, To: d, Door1: 1}
		m, err := codec.Marshal(req)
		if err != nil || len(m) != 64 || !bytes.Equal(m[12:20], make([]byte, 8)) {
			fail = rp.Failf("codec.Marshal/zero-date-in-a-location", "a put-card request whose dates are the zero date carried in location %q encodes the dates as %x, %v", c.Loc, m[12:20], err)
			return
		}
		var back messages.PutCardRequest
		if err := codec.Unmarshal(m, &back); err != nil || !back.From.IsZero() || !back.To.IsZero() {
			fail = rp.Failf("codec.Unmarshal/zero-date-in-a-location", "decode(encode(zero date in %q)) is %v / %v, %v", c.Loc, back.From, back.To, err)
		}
	})
	return fail
}

func sweepNoValue(yield func(noValueCase) bool) {
	i := 0
	for _, pz := range []string{"UTC", "America/New_York", "Asia/Kolkata", "Pacific/Kiritimati", "Pacific/Honolulu"} {
		for _, loc := range []string{"", "utc()", "local()", "America/Los_Angeles", "America/Santiago", "Asia/Tokyo", "Europe/London", "Fixed/EST/-18000", "Fixed//-28800", "Fixed/X/50400", "Fixed/W/-43200"} {
			i++
			if ev.Mine(i) && !yield(noValueCase{loc, pz}) {
				return
			}
		}
	}
}

// Two process zones that share a NAME but not their rules (sites whose administrators all called their zone "Site", a tz
// database update between two runs of a long-lived process that reloads time.Local): the same date decoded under one and
// then under the other is, each time, that calendar day in the zone that is the process zone at that moment.
type sameNameCase struct {
	Name    string `json:"zone_name"`
	Offsets [2]int `json:"offsets_seconds"`
	Y       int    `json:"y"`
	M       int    `json:"m"`
	D       int    `json:"d"`
}

func checkSameName(c sameNameCase) *rp.Fail {
	ev.Case("same-named-process-zones", c.Offsets[0] != c.Offsets[1], fmt.Sprint(c))
	wire := []byte{byte(c.Y/1000<<4 | c.Y/100%10), byte(c.Y/10%10<<4 | c.Y%10), byte(c.M/10<<4 | c.M%10), byte(c.D/10<<4 | c.D%10)}
	text := fmt.Sprintf("%04d-%02d-%02d", c.Y, c.M, c.D)
	dtWire := append(append([]byte(nil), wire...), 0x12, 0x34, 0x56)
	for round := 0; round < 6; round++ {
		// (a NEW zone object every round; the one of the round before is garbage by now and is collected: whatever the library
		// remembers about 'the zone' must not outlive it)
		runtime.GC()
		runtime.GC()
		loc := time.FixedZone(c.Name, c.Offsets[round%2])
		var fail *rp.Fail
		zones.With(loc, func() {
			var dt types.DateTime
			if out, err := dt.UnmarshalUT0311L0x(append(append([]byte(nil), dtWire...), 0, 0)); err == nil {
				if p, ok := out.(*types.DateTime); ok && p != nil {
					want := time.Date(c.Y, time.Month(c.M), c.D, 12, 34, 56, 0, loc)
					if got := time.Time(*p); !got.Equal(want) || got.In(loc).Hour() != 12 {
						fail = rp.Failf("types.DateTime/same-named-zones/wrong-instant", "%s 12:34:56 decoded under the process zone %s%+d (round %d; zones of the same name with offset %+d were the process zone before and have been collected): %v, want %v", text, c.Name, c.Offsets[round%2], round, c.Offsets[(round+1)%2], got, want)
						return
					}
				}
			}
			var d types.Date
			out, err := d.UnmarshalUT0311L0x(wire)
			p, ok := out.(*types.Date)
			if err != nil || !ok || p == nil {
				fail = rp.Failf("types.Date.UnmarshalUT0311L0x/error", "decoding %x failed: %v", wire, err)
				return
			}
			for how, v := range map[string]types.Date{"decoded from the wire": *p, "ToDate": types.ToDate(c.Y, time.Month(c.M), c.D)} {
				t := time.Time(v).In(loc)
				if y, m, dd := t.Date(); y != c.Y || int(m) != c.M || dd != c.D {
					fail = rp.Failf("types.Date/same-named-zones/wrong-day", "%s %s under the process zone %s%+d (after the same date had been handled under a zone of the same name with offset %+d): it is %s there", text, how, c.Name, c.Offsets[round%2], c.Offsets[(round+1)%2], t.Format("2006-01-02 15:04:05 -0700"))
					return
				}
				if b, err := v.MarshalUT0311L0x(); err != nil || !bytes.Equal(b, wire) {
					fail = rp.Failf("types.Date/same-named-zones/re-encode", "%s %s under the process zone %s%+d encodes as %x, %v", text, how, c.Name, c.Offsets[round%2], b, err)
					return
				}
			}
		})
		if fail != nil {
			return fail
		}
	}
	return nil
}

func sweepSameName(yield func(sameNameCase) bool) {
	i := 0
	for _, name := range []string{"Site", "", "Local", "UTC", "EST"} {
		for _, offs := range [][2]int{{10800, -18000}, {-18000, 10800}, {50400, -43200}, {3600, 7200}, {0, -3600}} {
			for _, day := range [][3]int{{2024, 3, 15}, {2024, 2, 29}, {1999, 12, 31}} {
				i++
				if ev.Mine(i) && !yield(sameNameCase{name, offs, day[0], day[1], day[2]}) {
					return
				}
			}
		}
	}
}
