package c05

import (
	"fmt"
	"reflect"
	"sort"

	"pgregory.net/rapid"

	"github.com/uhppoted/uhppote-core/messages"
	"verif/harness/ev"
	"verif/harness/fv"
	"verif/harness/rp"
	"verif/harness/spec"
)

// Wire-level metamorphic relation: a well-formed message in which any subset of the fields carries its all-zero bytes (the
// 'no value' encodings among them: no date, no date-time, no system date, 00:00, false, 0) decodes to the same result -
// the same value, or the same refusal - whatever is written into the bytes that belong to no field. (The round-trip
// property cannot reach this from the value side: some 'no value' encodings have no value that encodes to them.)
type blankCase struct {
	Kind  string `json:"kind"` // request | response
	Op    string `json:"op"`
	Salt  int    `json:"salt"`
	Blank uint32 `json:"blank_fields"` // bit i: field i of the layout is all-zero
	Noise []byte `json:"noise"`        // written into the unused offsets, in order (cyclic)
	SOM   byte   `json:"som"`
}

func blankLayout(c blankCase) (spec.Layout, bool) {
	if c.Kind == "request" {
		l, ok := spec.Requests[c.Op]
		return l, ok
	}
	l, ok := spec.Responses[c.Op]
	return l, ok
}

func checkBlank(c blankCase) *rp.Fail {
	l, ok := blankLayout(c)
	if !ok {
		return nil
	}
	som := c.SOM
	if som != 0x19 || l.Code != 0x20 {
		som = 0x17
	}
	base := spec.Sample(l, som, 405419896, c.Salt)
	blanked := 0
	for i, f := range l.Fields {
		if c.Blank&(1<<uint(i%32)) != 0 && f.Kind != spec.Serial && f.Name != "magic" {
			for j := 0; j < f.Kind.Width(); j++ {
				base[f.Off+j] = 0
			}
			blanked++
		}
	}
	noisy := append([]byte(nil), base...)
	unused := l.Unused()
	for i, off := range unused {
		if len(c.Noise) > 0 {
			noisy[off] = c.Noise[i%len(c.Noise)]
		}
	}
	decode := func(b []byte) (v any, err error, p any) {
		p = try(func() {
			if c.Kind == "request" {
				v, err = messages.UnmarshalRequest(append([]byte(nil), b...))
			} else {
				v, err = messages.UnmarshalResponse(append([]byte(nil), b...))
			}
		})
		return
	}
	ev.Case("blank-fields/"+c.Kind, blanked > 0 && len(unused) > 0, fmt.Sprintf("%s %s %x %x", c.Kind, c.Op, base, noisy))
	v1, e1, p1 := decode(base)
	v2, e2, p2 := decode(noisy)
	if p1 != nil || p2 != nil {
		return rp.Failf("messages.dispatch/panic", "%s %s: decoding %x / %x panicked: %v %v", c.Kind, c.Op, base, noisy, p1, p2)
	}
	if (e1 == nil) != (e2 == nil) {
		return rp.Failf("codec.Unmarshal/depends-on-unused-bytes", "%s %s: %x decodes with result %v, the same message with other bytes at the offsets that belong to no field (%x) with result %v", c.Kind, c.Op, base, e1, noisy, e2)
	}
	if e1 != nil || v1 == nil || v2 == nil {
		return nil
	}
	a, b := fv.CanonAll(reflect.ValueOf(v1).Elem()), fv.CanonAll(reflect.ValueOf(v2).Elem())
	if d := fv.FirstDiff(a, b); d != "" {
		return rp.Failf("codec.Unmarshal/depends-on-unused-bytes", "%s %s: %x and the same message with other bytes at the offsets that belong to no field (%x) decode to different values: %s", c.Kind, c.Op, base, noisy, d)
	}
	return nil
}

var blankOps = func() (out [][2]string) {
	for op := range spec.Requests {
		if op == "GetDevices" {
			continue // (the model's discovery request is get-device without its serial number field: no layout of its own)
		}
		out = append(out, [2]string{"request", op})
	}
	for op := range spec.Responses {
		out = append(out, [2]string{"response", op})
	}
	sort.Slice(out, func(i, j int) bool { return out[i][0]+out[i][1] < out[j][0]+out[j][1] })
	return
}()

func genBlank(t *rapid.T) blankCase {
	ko := rapid.SampledFrom(blankOps).Draw(t, "message")
	c := blankCase{Kind: ko[0], Op: ko[1], Salt: rapid.IntRange(0, 9).Draw(t, "salt"), SOM: rapid.SampledFrom([]byte{0x17, 0x19}).Draw(t, "som")}
	switch rapid.IntRange(0, 3).Draw(t, "blank.kind") {
	case 0:
		c.Blank = 1 << uint(rapid.IntRange(0, 31).Draw(t, "blank.one"))
	case 1:
		c.Blank = 0xffffffff
	default:
		c.Blank = rapid.Uint32().Draw(t, "blank.mask")
	}
	c.Noise = rapid.SliceOfN(rapid.Byte(), 1, 12).Draw(t, "noise")
	if rapid.IntRange(0, 3).Draw(t, "noise.kind") == 0 {
		c.Noise = []byte{rapid.SampledFrom([]byte{0xff, 0x01, 0x99, 0xa5}).Draw(t, "noise.byte")}
	}
	return c
}

// every message x every single field blanked (and all of them) x two noise patterns
func sweepBlank(yield func(blankCase) bool) {
	idx := 0
	for _, ko := range blankOps {
		c := blankCase{Kind: ko[0], Op: ko[1]}
		l, _ := blankLayout(c)
		masks := []uint32{0, 0xffffffff}
		for i := range l.Fields {
			masks = append(masks, 1<<uint(i%32))
		}
		for _, m := range masks {
			for _, n := range [][]byte{{0xff}, {0x01, 0x23, 0x45, 0x67, 0x89}} {
				for _, som := range []byte{0x17, 0x19} {
					if som == 0x19 && l.Code != 0x20 {
						continue
					}
					idx++
					if ev.Mine(idx) && !yield(blankCase{Kind: ko[0], Op: ko[1], Salt: idx % 7, Blank: m, Noise: n, SOM: som}) {
						return
					}
				}
			}
		}
	}
}
