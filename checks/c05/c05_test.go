// C05 - encoding and decoding are mutually inverse for every message type.
package c05

import (
	"bytes"
	"fmt"
	"os"
	"reflect"
	"sort"
	"sync"
	"testing"
	"time"
	"verif/harness/guard"
	"verif/harness/hold"

	codec "github.com/uhppoted/uhppote-core/encoding/UTO311-L0x"
	"github.com/uhppoted/uhppote-core/messages"
	"github.com/uhppoted/uhppote-core/types"
	"pgregory.net/rapid"

	"verif/harness/cold"
	"verif/harness/ev"
	"verif/harness/fv"
	"verif/harness/rp"
	"verif/harness/spec"
	"verif/harness/zones"
)

func TestMain(m *testing.M) {
	time.Local = time.UTC
	ev.Describe("cold start: fresh processes in which the first message of every type is decoded and re-encoded by 2..16 goroutines at once (canonical messages from the protocol model, decode-then-encode must give the bytes back); message types are taken from the dispatchers themselves (all 256 codes through UnmarshalRequest/UnmarshalResponse) plus the two event types; values are filled by a reflection-driven generator that draws an in-domain value per field type (any uint8/16/32, bool, valid or zero Date, existing civil DateTime or zero, SystemDate 2000..2068 or zero, SystemTime, HH:mm 00:00..24:00, PIN 0..999999, IPv4, IPv4 AddrPort, MAC, version; pointer fields set or nil), under a spread of 40 IANA zones (quick) / every zone (thorough) as process-local zone. Oracles: (1) Unmarshal(Marshal(v)) == v under civil-field equality, zero stays zero; (2) metamorphic: random noise in every byte that belongs to no protocol field leaves the decoded value unchanged; (3) the encoding is zero in those bytes and carries 0x17/0x19 + the function code; (4) dispatcher table: 256 codes x lengths 0..128 x protocol ids. Non-trivial = value with a non-zero field besides the header; distinct = distinct (zone, type, encoding).",
		"time.Local is switched in-process (the library reads it at call time); the thorough tier of C13 re-checks the zone mechanism with real TZ= child processes",
		"a nil pointer field is treated as equal to the zero value it decodes to (00:00)",
		"SystemDate years are restricted to 2000..2068 (two-digit years 69..99 have no documented century)")
	ev.Main(m, "C05")
}

var lastEnc []byte
var lastMu sync.Mutex
var sharedMsg [64]byte
var sharedMu sync.Mutex

type rtCase struct {
	Zone   string  `json:"zone"`
	Kind   string  `json:"kind"` // request | response | event | event-v6.62
	Code   byte    `json:"code"`
	Fields []fv.FV `json:"fields"`
	Noise  []byte  `json:"noise"` // bytes written over the unused offsets before the second decode
}

// prototype returns a fresh zero value (pointer to struct) of the message type for (kind, code), using the dispatchers.
func prototype(kind string, code byte) (any, spec.Layout, bool) {
	b := make([]byte, 64)
	b[0], b[1] = 0x17, code
	switch kind {
	case "request":
		v, err := messages.UnmarshalRequest(b)
		l, ok := spec.RequestByCode(code)
		if err != nil || v == nil || !ok {
			return nil, l, false
		}
		return reflect.New(reflect.TypeOf(v).Elem()).Interface(), l, true
	case "response":
		v, err := messages.UnmarshalResponse(b)
		l, ok := spec.ResponseByCode(code)
		if err != nil || v == nil || !ok {
			return nil, l, false
		}
		return reflect.New(reflect.TypeOf(v).Elem()).Interface(), l, true
	case "event":
		return &messages.Event{}, spec.EventLayout, true
	case "event-v6.62":
		return &messages.EventV6_62{}, spec.EventLayout, true
	}
	return nil, spec.Layout{}, false
}

func try(f func()) (p any) {
	defer func() { p = recover() }()
	f()
	return nil
}

var heldEncodings = &hold.Keeper{Every: 4000}

func decideRT(c rtCase) (fail *rp.Fail, key string, nontrivial bool) {
	zones.With(zones.Loc(c.Zone), func() { fail, key, nontrivial = decideRTNoZone(c) })
	return
}

// decideRTNoZone judges the case under the current process zone (safe for concurrent use).
func decideRTNoZone(c rtCase) (*rp.Fail, string, bool) {
	var fail *rp.Fail
	var key string
	nontrivial := false
	func() {
		proto, layout, ok := prototype(c.Kind, c.Code)
		if !ok {
			fail = rp.Failf("harness/prototype", "no message type for %s 0x%02x", c.Kind, c.Code)
			return
		}
		v := reflect.ValueOf(proto).Elem()
		typeName := v.Type().String()
		ls := fv.Leaves(v)
		if len(ls) != len(c.Fields) {
			fail = rp.Failf("harness/fields", "%s has %d leaves, case has %d", typeName, len(ls), len(c.Fields))
			return
		}
		for i, f := range ls {
			fv.Fill(f, c.Fields[i])
		}
		before := fv.CanonAll(v)
		// the generated primitive values themselves (not what the library's constructors made of them)
		for i, f := range ls {
			if want := fv.Want(f.Type(), c.Fields[i]); before[i] != want {
				site := "harness/fill"
				if f.Type() == fv.TDate {
					site = "types.ToDate/civil-date"
				}
				fail = rp.Failf(site, "zone %s: field %d (%v) constructed from %+v reports %s, want %s", c.Zone, i, f.Type(), c.Fields[i], before[i], want)
				return
			}
		}
		// the field types encode themselves (MarshalUT0311L0x): the bytes a field hands out are the caller's - writing into them
		// changes neither the next encoding of the same value nor that of any other value (the zero values included)
		type fieldMarshaler interface{ MarshalUT0311L0x() ([]byte, error) }
		for i, f := range ls {
			fm, ok := f.Interface().(fieldMarshaler)
			if !ok {
				continue
			}
			var b1, b2, z1, z2 []byte
			zero, _ := reflect.Zero(f.Type()).Interface().(fieldMarshaler)
			if p := try(func() {
				b1, _ = fm.MarshalUT0311L0x()
				if zero != nil {
					z1, _ = zero.MarshalUT0311L0x()
				}
			}); p != nil {
				continue // (C04's subject)
			}
			keep, keepZ := append([]byte(nil), b1...), append([]byte(nil), z1...)
			for j := range b1 {
				b1[j] = 0xee
			}
			for j := range z1 {
				z1[j] = 0x99
			}
			try(func() {
				b2, _ = fm.MarshalUT0311L0x()
				if zero != nil {
					z2, _ = zero.MarshalUT0311L0x()
				}
			})
			if !bytes.Equal(b2, keep) || !bytes.Equal(z2, keepZ) {
				fail = rp.Failf("types.MarshalUT0311L0x/result-shared-between-calls", "%s, field %d (%v): after the caller wrote into the bytes that MarshalUT0311L0x returned, the same value encodes as %x (was %x) and the zero value as %x (was %x)", typeName, i, f.Type(), b2, keep, z2, keepZ)
				return
			}
		}
		var enc []byte
		var err error
		if p := try(func() { enc, err = codec.Marshal(proto) }); p != nil {
			fail = rp.Failf("codec.Marshal/panic", "%s: Marshal panicked: %v", typeName, p)
			return
		}
		if err != nil {
			fail = rp.Failf("codec.Marshal/error", "%s: Marshal of an in-domain value failed: %v (%v)", typeName, err, before)
			return
		}
		// an encoding belongs to the caller: appending to the PREVIOUS encoding (a trailer, a batch of messages) must not reach
		// into this one, and this one has no spare capacity that the next one lives in
		{
			snapshot := append([]byte(nil), enc...)
			lastMu.Lock()
			if lastEnc != nil {
				lastEnc = append(lastEnc, 0x0d, 0x0a, 0xa5, 0x5a, 0xff, 0xff, 0xff, 0xff)
				for i := range lastEnc[:8] {
					lastEnc[i] ^= 0xff
				}
			}
			lastEnc = enc
			same := bytes.Equal(enc, snapshot)
			lastMu.Unlock()
			if !same {
				fail = rp.Failf("codec.Marshal/result-shared-between-calls", "%s: the encoding %x changed to %x when the caller appended to / wrote into the result of the PREVIOUS Marshal call", typeName, snapshot, enc)
				return
			}
			enc = snapshot // (the original is now the 'previous' one and will be scribbled over)
		}
		key = c.Zone + typeName + string(enc)
		for _, b := range enc[8:] {
			if b != 0 {
				nontrivial = true
			}
		}
		wantSOM := byte(0x17)
		if c.Kind == "event-v6.62" {
			wantSOM = 0x19
		}
		if len(enc) != 64 || enc[0] != wantSOM || enc[1] != layout.Code {
			fail = rp.Failf("codec.Marshal/header", "%s: encoding has length %d, header %x; want 64 bytes starting %02x %02x", typeName, len(enc), enc[:2], wantSOM, layout.Code)
			return
		}
		// the encoding is kept (the way a caller queues a message for sending) across garbage collections and later Marshal calls
		if kept, err := codec.Marshal(proto); err == nil {
			if msg := heldEncodings.Keep(kept, fmt.Sprintf("the encoding of a %s", typeName), func() {
				for i := 0; i < 32; i++ {
					codec.Marshal(proto)
				}
			}); msg != "" {
				fail = rp.Failf("codec.Marshal/result-changed-later", "%s", msg)
				return
			}
		}
		for _, off := range layout.Unused() {
			if enc[off] != 0 {
				fail = rp.Failf("codec.Marshal/writes-outside-fields", "%s: encoding has %02x at offset %d, which belongs to no field of the message: %x", typeName, enc[off], off, enc)
				return
			}
		}
		decode := func(b []byte) (reflect.Value, error) {
			out := reflect.New(v.Type())
			var err error
			before := string(b)
			if p := try(func() { err = codec.Unmarshal(b, out.Interface()) }); p != nil {
				return out, fmt.Errorf("PANIC: %v", p)
			}
			if err == nil && string(b) != before {
				return out, fmt.Errorf("decoding MODIFIED the caller's buffer: %x -> %x", before, b)
			}
			return out.Elem(), err
		}
		dec, err := decode(append([]byte(nil), enc...))
		if err != nil {
			fail = rp.Failf("codec.Unmarshal/rejects-own-encoding", "%s in zone %s: decoding the encoding %x failed: %v", typeName, c.Zone, enc, err)
			return
		}
		// the same 64 bytes flush against unreadable memory (they end where a readable page ends / start where one starts):
		// nothing but the message is read
		if guard.Available() {
			for i := 0; i < 2; i++ {
				placed, release := guard.Place(enc, i == 0)
				var g reflect.Value
				var gerr error
				p := guard.Do(func() { g, gerr = decode(placed) })
				release()
				if p != nil || gerr != nil {
					fail = rp.Failf("codec.Unmarshal/reads-beyond-the-message", "%s: decoding %x placed %s failed: %v %v", typeName, enc, []string{"at the end of a readable page", "at the start of a readable page"}[i], p, gerr)
					return
				} else if d := fv.FirstDiff(fv.CanonAll(dec), fv.CanonAll(g)); d != "" {
					fail = rp.Failf("codec.Unmarshal/reads-beyond-the-message", "%s: %x decodes differently when it is placed against an unreadable page: %s", typeName, enc, d)
					return
				}
			}
		}
		after := fv.CanonAll(dec)
		// a decoded date-time is that civil time in the process zone: the same instant as time.Date(.., time.Local)
		for i, f := range fv.Leaves(dec) {
			x := c.Fields[i]
			if dt, ok := f.Interface().(types.DateTime); ok && !x.Zero && !dt.IsZero() {
				if want := time.Date(x.Y, time.Month(x.M), x.D, x.H, x.Mi, x.S, 0, time.Local); !time.Time(dt).Equal(want) {
					fail = rp.Failf("codec/roundtrip-instant", "%s in zone %s: date-time leaf %d decoded to the instant %v, the civil time %v in the process zone is %v", typeName, c.Zone, i, time.Time(dt).UTC(), after[i], want.UTC())
					return
				}
			}
		}
		if d := fv.FirstDiff(before, after); d != "" {
			site := "roundtrip"
			if isZeroDateDiff(d) {
				site = "roundtrip-zero-datetime"
			}
			fail = rp.Failf("codec/"+site, "%s in zone %s: decode(encode(v)) != v: %s (encoding %x)", typeName, c.Zone, d, enc)
			return
		}
		// a message that is REJECTED half-way through a field (a non-decimal digit in the second byte of a date / time field)
		// decoded right before: whatever the decoders keep while they work, the next well-formed message decodes as always
		for _, fl := range layout.Fields {
			if (fl.Kind == spec.Date || fl.Kind == spec.DateTime || fl.Kind == spec.HHmm || fl.Kind == spec.SysDate || fl.Kind == spec.SysTime) && fl.Off+1 < 64 {
				bad := append([]byte(nil), enc...)
				bad[fl.Off+1] = 0x5a
				try(func() { codec.Unmarshal(bad, reflect.New(v.Type()).Interface()) })
				again, err := decode(append([]byte(nil), enc...))
				if err != nil {
					fail = rp.Failf("codec.Unmarshal/depends-on-an-earlier-rejected-message", "%s: %x is rejected (%v) when it is decoded right after a message with a non-decimal digit in field %s", typeName, enc, err, fl.Name)
					return
				}
				if d := fv.FirstDiff(before, fv.CanonAll(again)); d != "" {
					fail = rp.Failf("codec.Unmarshal/depends-on-an-earlier-rejected-message", "%s in zone %s: %x decodes differently right after a message that was rejected for a non-decimal digit in field %s: %s", typeName, c.Zone, enc, fl.Name, d)
					return
				}
				break
			}
		}
		// a decoded value belongs to the caller: overwriting everything that is reachable from it (the targets of pointer
		// fields, the bytes of slices) must not change what the next decode of the same bytes returns
		scribbled := 0
		for _, f := range fv.Leaves(dec) {
			switch f.Kind() {
			case reflect.Ptr:
				if !f.IsNil() && f.Elem().CanSet() {
					f.Elem().Set(reflect.Zero(f.Type().Elem()))
					scribbled++
				}
			case reflect.Slice:
				if f.Type().Elem().Kind() == reflect.Uint8 {
					for i := 0; i < f.Len(); i++ {
						f.Index(i).SetUint(uint64(0xa5 ^ byte(i)))
					}
					scribbled++
				}
			}
		}
		if scribbled > 0 {
			again, err := decode(append([]byte(nil), enc...))
			if err != nil {
				fail = rp.Failf("codec.Unmarshal/rejects-own-encoding", "%s: second decode of %x failed: %v", typeName, enc, err)
				return
			}
			if d := fv.FirstDiff(before, fv.CanonAll(again)); d != "" {
				fail = rp.Failf("codec.Unmarshal/result-shared-between-decodes", "%s in zone %s: after the caller overwrote what an earlier decoded value pointed to, decoding the same bytes %x gives another value: %s", typeName, c.Zone, enc, d)
				return
			}
		}
		// a variable that is reused: the message decoded over what an earlier decode left there gives the same value as decoded
		// into a fresh variable - in particular the all-zero message ('no date', 00:00, false, 0) over this value, and this value
		// over the all-zero message (nil-tolerant pointer fields keep what they had when the bytes say 'no value': not judged)
		{
			zeroMsg := make([]byte, 64)
			zeroMsg[0], zeroMsg[1] = enc[0], enc[1]
			for _, f := range layout.Fields {
				if f.Name == "magic" {
					copy(zeroMsg[f.Off:f.Off+4], enc[f.Off:f.Off+4])
				}
			}
			fresh, errZ := decode(append([]byte(nil), zeroMsg...))
			if errZ == nil {
				used := reflect.New(v.Type())
				if err := codec.Unmarshal(append([]byte(nil), enc...), used.Interface()); err == nil {
					// the caller keeps the decoded value the way values are kept - a copy of the struct (a list entry, a map value) - and
					// uses the variable for the next message: the kept value stays what it was
					kept := reflect.New(v.Type()).Elem()
					kept.Set(used.Elem())
					keptBefore := fv.CanonAll(kept)
					if p := try(func() { err = codec.Unmarshal(append([]byte(nil), zeroMsg...), used.Interface()) }); p == nil && err == nil {
						if d := fv.FirstDiff(keptBefore, fv.CanonAll(kept)); d != "" {
							fail = rp.Failf("codec.Unmarshal/earlier-result-changed-by-next-decode", "%s in zone %s: a copy of the value decoded from %x changed when the next message (all-zero payload) was decoded into the same variable: %s", typeName, c.Zone, enc, d)
							return
						}
						fl, ul := fv.Leaves(fresh), fv.Leaves(used.Elem())
						for i := range fl {
							if fl[i].Kind() == reflect.Ptr {
								continue
							}
							if a, b := fv.Canon(fl[i]), fv.Canon(ul[i]); a != b {
								fail = rp.Failf("codec.Unmarshal/wrong-value/dirty-target", "%s in zone %s: leaf %d of the all-zero message decodes as %s into a fresh variable but as %s into a variable that held %s", typeName, c.Zone, i, a, b, before[i])
								return
							}
						}
						if err = codec.Unmarshal(append([]byte(nil), enc...), used.Interface()); err == nil {
							if d := fv.FirstDiff(before, fv.CanonAll(used.Elem())); d != "" && !isZeroDateDiff(d) {
								// pointer leaves whose bytes say 'no value' keep the earlier (zero) target: compare the rest
								ul = fv.Leaves(used.Elem())
								for i := range ul {
									if ul[i].Kind() != reflect.Ptr && fv.Canon(ul[i]) != before[i] {
										fail = rp.Failf("codec.Unmarshal/wrong-value/dirty-target", "%s in zone %s: decoded over an earlier value: %s", typeName, c.Zone, d)
										return
									}
								}
							}
						}
					}
				}
			}
		}
		// a receive buffer that is reused: every message of the run is also decoded out of ONE 64-byte array whose contents are
		// replaced in place - the result depends on the bytes that are there at the time of the call
		sharedMu.Lock()
		copy(sharedMsg[:], enc)
		reused, err := decode(sharedMsg[:])
		var reusedCanon []string
		if err == nil {
			reusedCanon = fv.CanonAll(reused)
		}
		sharedMu.Unlock()
		if err != nil {
			fail = rp.Failf("codec.Unmarshal/rejects-own-encoding", "%s: decoding %x out of a reused buffer failed: %v", typeName, enc, err)
			return
		}
		if d := fv.FirstDiff(before, reusedCanon); d != "" {
			fail = rp.Failf("codec.Unmarshal/depends-on-earlier-buffer-contents", "%s in zone %s: the message %x decoded out of a buffer that held another message before gives another value: %s", typeName, c.Zone, enc, d)
			return
		}
		// metamorphic: noise in the bytes that belong to no field
		noisy := append([]byte(nil), enc...)
		for i, off := range layout.Unused() {
			if i < len(c.Noise) {
				noisy[off] = c.Noise[i]
			}
		}
		dec2, err := decode(noisy)
		if err != nil {
			fail = rp.Failf("codec.Unmarshal/unused-bytes-rejected", "%s: decoding failed after writing noise into unused bytes: %v (%x)", typeName, err, noisy)
			return
		}
		if d := fv.FirstDiff(before, fv.CanonAll(dec2)); d != "" {
			fail = rp.Failf("codec.Unmarshal/depends-on-unused-bytes", "%s: decoded value changed after writing noise into bytes that belong to no field: %s (%x)", typeName, d, noisy)
			return
		}
		// UnmarshalAs agrees with Unmarshal
		var as any
		if p := try(func() {
			as, err = codec.UnmarshalAs(append([]byte(nil), enc...), reflect.New(v.Type()).Elem().Interface())
		}); p != nil || err != nil {
			fail = rp.Failf("codec.UnmarshalAs/error", "%s: UnmarshalAs failed on the encoding: %v %v", typeName, p, err)
			return
		}
		if d := fv.FirstDiff(before, fv.CanonAll(reflect.ValueOf(as))); d != "" {
			fail = rp.Failf("codec.UnmarshalAs/roundtrip", "%s: UnmarshalAs(encode(v)) != v: %s", typeName, d)
			return
		}
		// the dispatchers decode the encoding to the same type and value
		if c.Kind == "request" || c.Kind == "response" {
			var m any
			if c.Kind == "request" {
				m, err = messages.UnmarshalRequest(append([]byte(nil), enc...))
			} else {
				m, err = messages.UnmarshalResponse(append([]byte(nil), enc...))
			}
			if err != nil || m == nil {
				fail = rp.Failf("messages.dispatch/rejects-own-encoding", "%s: dispatcher rejected the encoding: %v", typeName, err)
				return
			}
			if reflect.TypeOf(m).Elem() != v.Type() {
				fail = rp.Failf("messages.dispatch/wrong-type", "%s: dispatcher returned %T", typeName, m)
				return
			}
			if d := fv.FirstDiff(before, fv.CanonAll(reflect.ValueOf(m).Elem())); d != "" {
				fail = rp.Failf("messages.dispatch/roundtrip", "%s: dispatcher decoded a different value: %s", typeName, d)
				return
			}
		}
	}()
	return fail, key, nontrivial
}

func isZeroDateDiff(d string) bool {
	return len(d) > 0 && (contains(d, "datetime: vs") || contains(d, "date: vs"))
}

func contains(s, sub string) bool {
	for i := 0; i+len(sub) <= len(s); i++ {
		if s[i:i+len(sub)] == sub {
			return true
		}
	}
	return false
}

// neighbour returns the case with one field moved by one step (the next second, minute, day, unit): a value decoded right
// after a nearly equal one is what memoising decoders get wrong.
func neighbour(c rtCase) (rtCase, bool) {
	n := c
	n.Fields = append([]fv.FV(nil), c.Fields...)
	for k := 0; k < len(n.Fields); k++ {
		i := (k + int(c.Code)) % len(n.Fields)
		x := &n.Fields[i]
		switch {
		case x.Zero || x.Nil:
			continue
		case x.Y != 0 && x.S < 59 && (x.H != 0 || x.Mi != 0 || x.S != 0):
			x.S++
			return n, true
		case x.Y == 0 && x.Mi > 0 && x.Mi < 59:
			x.Mi++
			return n, true
		case x.U > 1 && x.U < 200:
			x.U++
			return n, true
		}
	}
	return n, false
}

func checkRT(c rtCase) *rp.Fail {
	f, key, nt := decideRT(c)
	if f == nil {
		if n, ok := neighbour(c); ok {
			ev.Class("value/neighbour-decoded-right-after", 1)
			if f2, _, _ := decideRT(n); f2 != nil {
				f2.Msg = "(second of two nearly equal values decoded back to back) " + f2.Msg
				f = f2
			}
		}
	}
	class := fmt.Sprintf("%s/0x%02x", c.Kind, c.Code)
	ev.Case(class, nt, key)
	if c.Zone != "UTC" {
		ev.Class("zone/non-utc", 1)
	}
	for _, x := range c.Fields {
		if x.Zero {
			ev.Class("value/zero-date-or-datetime", 1)
			break
		}
	}
	for _, x := range c.Fields {
		if x.Gap {
			ev.Class("value/date-whose-local-midnight-does-not-exist", 1)
			break
		}
	}
	if ev.WantSample(class) {
		ev.Sample(class, c)
	}
	return f
}

type target struct {
	kind string
	code byte
}

var targetsOnce []target

func targets() []target {
	if targetsOnce != nil {
		return targetsOnce
	}
	for code := 0; code < 256; code++ {
		for _, k := range []string{"request", "response"} {
			if _, _, ok := prototype(k, byte(code)); ok {
				targetsOnce = append(targetsOnce, target{k, byte(code)})
			}
		}
	}
	targetsOnce = append(targetsOnce, target{"event", 0x20}, target{"event-v6.62", 0x20})
	return targetsOnce
}

func zoneList() []string {
	if ev.Thorough() {
		return append(zones.Names(), zones.Synthetic)
	}
	return append(zones.Spread(40), zones.Synthetic)
}

func genRT(t *rapid.T) rtCase {
	ts := targets()
	tg := ts[rapid.IntRange(0, len(ts)-1).Draw(t, "type")]
	zl := zoneList()
	c := rtCase{Zone: zl[rapid.IntRange(0, len(zl)-1).Draw(t, "zone")], Kind: tg.kind, Code: tg.code}
	proto, layout, _ := prototype(tg.kind, tg.code)
	for _, f := range fv.Leaves(reflect.ValueOf(proto).Elem()) {
		c.Fields = append(c.Fields, fv.Gen(t, f.Type(), c.Zone))
	}
	c.Noise = make([]byte, len(layout.Unused()))
	for i := range c.Noise {
		c.Noise[i] = byte(rapid.IntRange(1, 255).Draw(t, "noise"))
	}
	return c
}

// sweepZero: for every type and every zone the all-zero value and the all-fields-set base value
func sweepTypesZones(yield func(rtCase) bool) {
	idx := 0
	for _, z := range zoneList() {
		for _, tg := range targets() {
			for variant := 0; variant < 2; variant++ {
				if !ev.Mine(idx) {
					idx++
					continue
				}
				idx++
				proto, layout, _ := prototype(tg.kind, tg.code)
				c := rtCase{Zone: z, Kind: tg.kind, Code: tg.code}
				for i, f := range fv.Leaves(reflect.ValueOf(proto).Elem()) {
					x := fv.FV{Zero: true, Nil: variant == 0}
					if f.Type() == fv.TSysDate {
						x = fv.FV{Y: 2000, M: 1, D: 1}
					}
					if variant == 1 {
						x = fv.FV{U: uint64(i%2) + uint64(i/2*2)*0x0101, Y: 2024, M: 6, D: 15, H: 12, Mi: 30, S: 45}
						if f.Kind() == reflect.Bool {
							x.U = uint64(i % 2)
						} else if f.Type() == fv.TPIN {
							x.U = 123456
						} else if f.Kind() == reflect.Uint8 {
							x.U &= 0xff
						} else if f.Kind() == reflect.Uint16 || f.Type() == fv.TVersion {
							x.U &= 0xffff
						}
					}
					c.Fields = append(c.Fields, x)
				}
				c.Noise = make([]byte, len(layout.Unused()))
				for i := range c.Noise {
					c.Noise[i] = 0xff
				}
				if !yield(c) {
					return
				}
			}
		}
	}
}

// dispatcher table -----------------------------------------------------------------------------

type dispCase struct {
	Kind string `json:"kind"` // request | response
	Code byte   `json:"code"`
	Len  int    `json:"len"`
	ID   byte   `json:"id"`
}

var requestNames = map[byte]string{0x20: "GetStatusRequest", 0x30: "SetTimeRequest", 0x32: "GetTimeRequest", 0x40: "OpenDoorRequest", 0x50: "PutCardRequest", 0x52: "DeleteCardRequest",
	0x54: "DeleteCardsRequest", 0x58: "GetCardsRequest", 0x5a: "GetCardByIDRequest", 0x5c: "GetCardByIndexRequest", 0x80: "SetDoorControlStateRequest", 0x82: "GetDoorControlStateRequest",
	0x88: "SetTimeProfileRequest", 0x8a: "ClearTimeProfilesRequest", 0x8c: "SetDoorPasscodesRequest", 0x8e: "RecordSpecialEventsRequest", 0x90: "SetListenerRequest", 0x92: "GetListenerRequest",
	0x94: "GetDeviceRequest", 0x96: "SetAddressRequest", 0x98: "GetTimeProfileRequest", 0xa0: "SetPCControlRequest", 0xa2: "SetInterlockRequest", 0xa4: "ActivateAccessKeypadsRequest",
	0xa6: "ClearTaskListRequest", 0xa8: "AddTaskRequest", 0xaa: "SetFirstCardRequest", 0xac: "RefreshTaskListRequest", 0xb0: "GetEventRequest", 0xb2: "SetEventIndexRequest",
	0xb4: "GetEventIndexRequest", 0xc8: "RestoreDefaultParametersRequest"}

func wantName(kind string, code byte) (string, bool) {
	n, ok := requestNames[code]
	if !ok {
		return "", false
	}
	if kind == "response" {
		if code == 0x96 {
			return "", false // set-address has no reply
		}
		return "*messages." + n[:len(n)-len("Request")] + "Response", true
	}
	return "*messages." + n, true
}

func checkDisp(c dispCase) *rp.Fail {
	b := make([]byte, c.Len)
	if c.Len > 0 {
		b[0] = c.ID
	}
	if c.Len > 1 {
		b[1] = c.Code
	}
	var v any
	var err error
	if p := try(func() {
		if c.Kind == "request" {
			v, err = messages.UnmarshalRequest(b)
		} else {
			v, err = messages.UnmarshalResponse(b)
		}
	}); p != nil {
		return rp.Failf("messages.dispatch/panic", "%+v: dispatcher panicked: %v", c, p)
	}
	name, known := wantName(c.Kind, c.Code)
	accept := c.Len == 64 && c.ID == 0x17 && known
	if !accept {
		if err == nil {
			return rp.Failf("messages.dispatch/accepts-invalid", "%s dispatcher accepted length %d, protocol id 0x%02x, function code 0x%02x as %T", c.Kind, c.Len, c.ID, c.Code, v)
		}
		return nil
	}
	if err != nil {
		return rp.Failf("messages.dispatch/rejects-valid", "%s dispatcher rejected a 64-byte message with function code 0x%02x: %v", c.Kind, c.Code, err)
	}
	if got := fmt.Sprintf("%T", v); got != name {
		return rp.Failf("messages.dispatch/wrong-type", "%s dispatcher returned %s for function code 0x%02x, want %s", c.Kind, got, c.Code, name)
	}
	return nil
}

func sweepDisp(yield func(dispCase) bool) {
	idx := 0
	ids := []byte{0x17, 0x19, 0x00, 0x16, 0x18, 0x71, 0xff}
	for _, kind := range []string{"request", "response"} {
		for code := 0; code < 256; code++ {
			for n := 0; n <= 128; n++ {
				for _, id := range ids {
					if id != 0x17 && !(n == 64 || n == 63 || n == 65 || n == 0 || n == 1) {
						continue
					}
					if !ev.Mine(idx) {
						idx++
						continue
					}
					idx++
					c := dispCase{kind, byte(code), n, id}
					_, known := wantName(kind, byte(code))
					class := "dispatch/invalid"
					if n == 64 && id == 0x17 && known {
						class = "dispatch/valid"
					}
					ev.Case(class, true, fmt.Sprint(c))
					if !yield(c) {
						return
					}
				}
			}
		}
	}
}

func props() []rp.Prop {
	return []rp.Prop{
		rp.P[rtCase]{Name: "roundtrip", Checks: ev.Pick(40000, 8000000) / ev.Shards(), Gen: genRT, Sweep: sweepTypesZones, Check: checkRT},
		rp.P[dispCase]{Name: "dispatch", Sweep: sweepDisp, Check: checkDisp},
		rp.P[noValueCase]{Name: "no-value-date-in-a-location", Sweep: sweepNoValue, Check: checkNoValue},
		rp.P[sameNameCase]{Name: "same-named-process-zones", Sweep: sweepSameName, Check: checkSameName},
		rp.P[afterPanicCase]{Name: "after-a-recovered-panic", Checks: ev.Pick(2000, 200000) / ev.Shards(), Gen: genAfterPanic, Check: checkAfterPanic},
		rp.P[batchCase]{Name: "batches", Checks: ev.Pick(6000, 600000) / ev.Shards(), Gen: genBatch, Sweep: sweepBatch, Check: checkBatch},
		rp.P[blankCase]{Name: "blank-fields", Checks: ev.Pick(20000, 2000000) / ev.Shards(), Gen: genBlank, Sweep: sweepBlank, Check: checkBlank},
		rp.P[coldCase]{Name: "canonical", Sweep: func(yield func(coldCase) bool) {
			for salt := 0; salt < 5; salt++ {
				for _, c := range coldCases(salt) {
					if !yield(c) {
						return
					}
				}
			}
		}, Check: func(c coldCase) *rp.Fail {
			ev.Case("canonical/"+c.Kind, true, c.Kind+c.Op+string(c.Msg))
			if fp, msg := coldDecide(c); fp != "" {
				return rp.Failf(fp, "%s", msg)
			}
			return nil
		}},
		cold.Prop{Name: "cold", Scenario: "messages", N: ev.Pick(24, 480) / ev.Shards()},
		collideProps()[0],
	}
}

// TestAAAConcurrentRoundTrips: the codec is used from several goroutines at once (shared scratch buffers, memo tables):
// every goroutine round-trips its own values and must get its own values back.
func TestAAAConcurrentRoundTrips(t *testing.T) {
	if ev.Replaying() || cold.Scenario() != "" {
		t.Skip()
	}
	ev.Rapid("concurrent", 1)
	var cases []rtCase
	rapid.Check(t, func(rt *rapid.T) {
		cases = nil
		for i := 0; i < 64; i++ {
			c := genRT(rt)
			c.Zone = "UTC"
			cases = append(cases, c)
		}
	})
	var wg sync.WaitGroup
	var mu sync.Mutex
	var first *rp.Fail
	var firstCase rtCase
	var n int64
	for w := 0; w < 8; w++ {
		wg.Add(1)
		go func(w int) {
			defer wg.Done()
			for round := 0; round < ev.Pick(40, 400); round++ {
				for i := w; i < len(cases); i += 8 {
					f, _, _ := decideRTNoZone(cases[i])
					mu.Lock()
					n++
					if f != nil && first == nil {
						f.Fingerprint += "/concurrent"
						first, firstCase = f, cases[i]
					}
					mu.Unlock()
				}
			}
		}(w)
	}
	wg.Wait()
	ev.Bulk("concurrent/round-trips-from-8-goroutines", n, n)
	// second phase: every goroutine decodes ITS OWN message over and over in a tight loop (pollers that read the same field
	// values again and again, each its own): a result must never be what another goroutine decoded at that moment
	{
		type own struct {
			c    rtCase
			enc  []byte
			want []string
			typ  reflect.Type
		}
		var owns []own
		for _, c := range cases {
			proto, _, ok := prototype(c.Kind, c.Code)
			if !ok {
				continue
			}
			v := reflect.ValueOf(proto).Elem()
			ls := fv.Leaves(v)
			if len(ls) != len(c.Fields) || len(ls) == 0 {
				continue
			}
			for i, f := range ls {
				fv.Fill(f, c.Fields[i])
			}
			enc, err := codec.Marshal(proto)
			if err != nil {
				continue
			}
			owns = append(owns, own{c, enc, fv.CanonAll(v), v.Type()})
		}
		var n2 int64
		var wg2 sync.WaitGroup
		iters := ev.Pick(6000, 100000)
		for w := 0; w < 8 && w < len(owns); w++ {
			wg2.Add(1)
			go func(o own) {
				defer wg2.Done()
				for i := 0; i < iters; i++ {
					out := reflect.New(o.typ)
					if err := codec.Unmarshal(o.enc, out.Interface()); err != nil {
						mu.Lock()
						if first == nil {
							first, firstCase = rp.Failf("codec.Unmarshal/rejects-own-encoding/concurrent", "decoding %x failed while other goroutines were decoding their own messages: %v", o.enc, err), o.c
						}
						mu.Unlock()
						return
					}
					if d := fv.FirstDiff(o.want, fv.CanonAll(out.Elem())); d != "" {
						mu.Lock()
						if first == nil {
							first, firstCase = rp.Failf("codec/roundtrip/concurrent", "a goroutine that decodes the same message %x over and over got another value while other goroutines were decoding theirs: %s", o.enc, d), o.c
						}
						mu.Unlock()
						return
					}
				}
				mu.Lock()
				n2 += int64(iters)
				mu.Unlock()
			}(owns[(w*7)%len(owns)])
		}
		wg2.Wait()
		ev.Bulk("concurrent/own-message-decoded-repeatedly", n2, n2)
	}
	if first != nil && ev.Failure("roundtrip", first.Fingerprint, "(8 goroutines using the codec at the same time) "+first.Msg, firstCase) {
		t.Errorf("[%s] %s", first.Fingerprint, first.Msg)
	}
}

func TestC05(t *testing.T) {
	if cold.Scenario() != "" {
		t.Skip("cold-start child")
	}
	names := []string{}
	for _, tg := range targets() {
		names = append(names, fmt.Sprintf("%s/%02x", tg.kind, tg.code))
	}
	sort.Strings(names)
	if len(targets()) < 60 {
		ev.HarnessError("only %d message types found through the dispatchers: %v", len(targets()), names)
	}
	ev.Note("message_types", len(targets()))
	rp.RunAll(t, props()...)
}

func TestReplay(t *testing.T) { rp.ReplayAll(t, props()...) }

// FuzzRoundTrip: arbitrary 64-byte messages -> decode -> encode -> decode must be stable.
func FuzzRoundTrip(f *testing.F) {
	if os.Getenv("VERIF_FUZZ") == "" {
		f.Skip("native fuzzing runs in the thorough tier only")
	}
	for _, tg := range targets() {
		b := make([]byte, 64)
		b[0], b[1] = 0x17, tg.code
		f.Add(b, tg.kind == "request")
		c := append([]byte(nil), b...)
		for i := 8; i < 64; i++ {
			c[i] = 0x01
		}
		f.Add(c, tg.kind == "request")
	}
	f.Fuzz(func(t *testing.T, b []byte, request bool) {
		var v any
		var err error
		if request {
			v, err = messages.UnmarshalRequest(b)
		} else {
			v, err = messages.UnmarshalResponse(b)
		}
		if err != nil {
			return
		}
		enc, err := codec.Marshal(v)
		if err != nil {
			t.Fatalf("decoded %x to %T but cannot re-encode: %v", b, v, err)
		}
		out := reflect.New(reflect.TypeOf(v).Elem())
		if err := codec.Unmarshal(enc, out.Interface()); err != nil {
			t.Fatalf("%T: re-encoding %x of decoded %x does not decode: %v", v, enc, b, err)
		}
		a, c := fv.CanonAll(reflect.ValueOf(v).Elem()), fv.CanonAll(out.Elem())
		for i := range a {
			// the zero system date is outside the judged domain (it has no encoding of its own)
			if a[i] == "sysdate:" && i < len(c) {
				c[i] = a[i]
			}
		}
		if d := fv.FirstDiff(a, c); d != "" {
			// values outside the in-domain range (PIN > 999999 fits 3 bytes; two-digit years) still round-trip; anything else is a violation
			t.Fatalf("%T: decode(encode(decode(%x))) differs: %s", v, b, d)
		}
	})
}
