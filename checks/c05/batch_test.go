package c05

import (
	"fmt"
	"reflect"

	"pgregory.net/rapid"

	codec "github.com/uhppoted/uhppote-core/encoding/UTO311-L0x"
	"github.com/uhppoted/uhppote-core/types"

	"verif/harness/batch"
	"verif/harness/ev"
	"verif/harness/fv"
	"verif/harness/rp"
	"verif/harness/spec"
)

// Batches: the replies to a broadcast are decoded with UnmarshalArray. For every library message type, 2..4 messages that
// differ in which fields carry a value, 'no value' (all-zero bytes) or a time of day / date that is BCD-clean but impossible
// (what the decoder tolerates as nil): every element of the batch is what its message decodes to alone, elements share no
// memory, and an earlier batch stays the caller's (harness/batch).
type batchCase struct {
	Kind   string   `json:"kind"` // request | response
	Op     string   `json:"op"`
	Salts  []int    `json:"salts"`
	Blank  []uint32 `json:"blank_fields"`    // per message, bit i: field i is all-zero
	Damage []uint32 `json:"impossible_time"` // per message, bit i: an HH:mm / date field i holds digits that are no time / date
}

func batchMessages(c batchCase) (reflect.Type, [][]byte, bool) {
	l, ok := blankLayout(blankCase{Kind: c.Kind, Op: c.Op})
	if !ok {
		return nil, nil, false
	}
	proto, _, ok := prototype(c.Kind, l.Code)
	if !ok {
		return nil, nil, false
	}
	var msgs [][]byte
	for k, salt := range c.Salts {
		m := spec.Sample(l, 0x17, 405419896, salt)
		for i, f := range l.Fields {
			if f.Kind == spec.Serial || f.Name == "magic" {
				continue
			}
			if k < len(c.Blank) && c.Blank[k]&(1<<uint(i%32)) != 0 {
				for j := 0; j < f.Kind.Width(); j++ {
					m[f.Off+j] = 0
				}
			}
			if k < len(c.Damage) && c.Damage[k]&(1<<uint(i%32)) != 0 {
				switch f.Kind {
				case spec.HHmm:
					m[f.Off], m[f.Off+1] = 0x25, 0x61
				case spec.Date:
					m[f.Off], m[f.Off+1], m[f.Off+2], m[f.Off+3] = 0x20, 0x24, 0x13, 0x45
				}
			}
		}
		msgs = append(msgs, m)
	}
	return reflect.TypeOf(proto).Elem(), msgs, true
}

func checkBatch(c batchCase) *rp.Fail {
	typ, msgs, ok := batchMessages(c)
	if !ok {
		return nil
	}
	pointers := 0
	for i := 0; i < typ.NumField(); i++ {
		if typ.Field(i).Type.Kind() == reflect.Ptr {
			pointers++
		}
	}
	class := "batch/" + c.Kind
	if pointers > 0 {
		class += "/type-with-pointer-fields"
	}
	ev.Case(class, true, fmt.Sprint(c))
	if ev.WantSample(class) {
		ev.Sample(class, c)
	}
	// (single messages too: appending to the address fields of a decoded value touches no other field of it)
	for _, m := range msgs {
		v := reflect.New(typ)
		if codec.Unmarshal(append([]byte(nil), m...), v.Interface()) == nil {
			before := fv.CanonAll(v.Elem())
			if fv.AppendAll(v.Elem()) > 0 {
				ev.Class("decoded-values/appended-to-address-fields", 1)
				if d := fv.FirstDiff(before, fv.CanonAll(v.Elem())); d != "" {
					return rp.Failf("codec.Unmarshal/decoded-fields-share-capacity", "%s %s: appending to the decoded address fields of %x changed another field of the same value: %s", c.Kind, c.Op, m, d)
				}
			}
		}
	}
	return batch.Check(typ, msgs, c.Kind+" "+c.Op)
}

func genBatch(t *rapid.T) batchCase {
	ko := rapid.SampledFrom(blankOps).Draw(t, "message")
	if rapid.Bool().Draw(t, "with.pointers") {
		ko = rapid.SampledFrom([][2]string{{"response", "GetTimeProfile"}, {"request", "SetTimeProfile"}, {"response", "GetCardByID"}, {"response", "GetCardByIndex"}, {"request", "PutCard"}, {"request", "AddTask"}}).Draw(t, "message.with.pointers")
	}
	c := batchCase{Kind: ko[0], Op: ko[1]}
	n := rapid.IntRange(2, 4).Draw(t, "messages")
	for i := 0; i < n; i++ {
		c.Salts = append(c.Salts, rapid.IntRange(0, 9).Draw(t, "salt"))
		var blank, damage uint32
		switch rapid.IntRange(0, 3).Draw(t, "blank.kind") {
		case 0:
		case 1:
			blank = 0xffffffff
		default:
			blank = rapid.Uint32().Draw(t, "blank.mask")
		}
		if rapid.IntRange(0, 2).Draw(t, "damaged") == 0 {
			damage = rapid.Uint32().Draw(t, "damage.mask")
		}
		c.Blank, c.Damage = append(c.Blank, blank), append(c.Damage, damage)
	}
	return c
}

func sweepBatch(yield func(batchCase) bool) {
	i := 0
	for _, ko := range blankOps {
		for _, second := range [][2]uint32{{0xffffffff, 0}, {0, 0xffffffff}, {0xaaaaaaaa, 0x55555555}} {
			i++
			if ev.Mine(i) && !yield(batchCase{Kind: ko[0], Op: ko[1], Salts: []int{1, 2}, Blank: []uint32{0, second[0]}, Damage: []uint32{0, second[1]}}) {
				return
			}
		}
	}
}

// provoke makes the codec panic the way it always has for a caller's mistake - a message layout with a field of a kind it does
// not know (a string) - and recovers, as an application's top-level handler would. What the codec was in the middle of must
// not colour the decodes that follow.
type unknownKind struct {
	MsgType types.MsgType `uhppote:"value:0x94"`
	Name    string        `uhppote:"offset:8"`
}

func provoke(k int) (panicked bool) {
	defer func() {
		if recover() != nil {
			panicked = true
		}
	}()
	msg := make([]byte, 64)
	msg[0], msg[1] = 0x17, 0x94
	switch k % 3 {
	case 0:
		var v unknownKind
		codec.Unmarshal(msg, &v)
	case 1:
		codec.UnmarshalAs(msg, unknownKind{})
	default:
		var list []unknownKind
		codec.UnmarshalArray([][]byte{msg, msg}, &list)
	}
	return false
}

type afterPanicCase struct {
	How   int       `json:"how"`
	Batch batchCase `json:"then_batch"`
	Disp  dispCase  `json:"then_dispatch"`
}

func checkAfterPanic(c afterPanicCase) *rp.Fail {
	if !provoke(c.How) {
		ev.Excluded("the codec did not panic for a layout with a string field", 1)
		return nil
	}
	ev.Class("decodes-right-after-a-recovered-codec-panic", 1)
	if f := checkDisp(c.Disp); f != nil {
		f.Fingerprint += "/after-a-recovered-panic"
		f.Msg += " (right after the codec had panicked, and the panic had been recovered, for a caller-defined layout with a string field)"
		return f
	}
	if f := checkBatch(c.Batch); f != nil {
		f.Fingerprint += "/after-a-recovered-panic"
		f.Msg += " (right after the codec had panicked, and the panic had been recovered, for a caller-defined layout with a string field)"
		return f
	}
	return nil
}

func genAfterPanic(t *rapid.T) afterPanicCase {
	return afterPanicCase{How: rapid.IntRange(0, 2).Draw(t, "how"), Batch: genBatch(t),
		Disp: dispCase{Kind: rapid.SampledFrom([]string{"request", "response"}).Draw(t, "kind"), Code: rapid.SampledFrom([]byte{0x94, 0x20, 0x32, 0x5a, 0xb4, 0x01}).Draw(t, "code"),
			Len: rapid.SampledFrom([]int{64, 64, 65, 63, 0, 128}).Draw(t, "len"), ID: rapid.SampledFrom([]byte{0x17, 0x17, 0x18, 0x19, 0x00}).Draw(t, "id")}}
}
