package c05

import (
	"bytes"
	"fmt"
	"sort"
	"testing"

	codec "github.com/uhppoted/uhppote-core/encoding/UTO311-L0x"
	"github.com/uhppoted/uhppote-core/messages"

	"verif/harness/cold"
	"verif/harness/spec"
)

type coldCase struct {
	Kind string `json:"kind"`
	Op   string `json:"op"`
	Msg  []byte `json:"msg"`
}

// coldDecide: decode a canonical well-formed message through the dispatcher and encode the result again - the bytes must
// come back (decode and encode are inverse; the message is the protocol model's encoding of in-domain values).
func coldDecide(c coldCase) (string, string) {
	var v any
	var err error
	if p := try(func() {
		switch c.Kind {
		case "request":
			v, err = messages.UnmarshalRequest(c.Msg)
		default:
			v, err = messages.UnmarshalResponse(c.Msg)
		}
	}); p != nil {
		return "messages.dispatch/panic", fmt.Sprintf("%s %s: decoding %x panicked: %v", c.Kind, c.Op, c.Msg, p)
	}
	if err != nil || v == nil {
		return "codec.Unmarshal/rejects-own-encoding", fmt.Sprintf("%s %s: the well-formed message %x was rejected: %v", c.Kind, c.Op, c.Msg, err)
	}
	var enc []byte
	if p := try(func() { enc, err = codec.Marshal(v) }); p != nil || err != nil {
		return "codec.Marshal/error", fmt.Sprintf("%s %s: encoding the decoded %T failed: %v %v", c.Kind, c.Op, v, p, err)
	}
	want := c.Msg
	if !bytes.Equal(enc, want) {
		return "codec/roundtrip-bytes", fmt.Sprintf("%s %s: decode then encode does not give the message back\n  message %x\n  got     %x\n  decoded %+v", c.Kind, c.Op, want, enc, v)
	}
	return "", ""
}

func coldCases(salt int) []coldCase {
	var out []coldCase
	var ops []string
	for op := range spec.Requests {
		ops = append(ops, op)
	}
	sort.Strings(ops)
	for _, op := range ops {
		if op == "GetDevices" {
			continue
		}
		out = append(out, coldCase{"request", op, spec.Sample(spec.Requests[op], 0x17, 405419896, salt)})
	}
	ops = nil
	for op := range spec.Responses {
		ops = append(ops, op)
	}
	sort.Strings(ops)
	for _, op := range ops {
		out = append(out, coldCase{"response", op, spec.Sample(spec.Responses[op], 0x17, 405419896, salt)})
	}
	return out
}

// TestColdChild (fresh child process only): the first message of every type that this process meets is decoded and
// re-encoded by a group of goroutines released together.
func TestColdChild(t *testing.T) {
	if cold.Scenario() == "" {
		t.Skip("cold-start child only")
	}
	k := cold.Index()
	g := []int{2, 3, 4, 8, 12, 16}[k%6]
	cases := coldCases(k % 5)
	n := 0
	for i := range cases {
		c := cases[(i+k)%len(cases)]
		fp, msg := make([]string, g), make([]string, g)
		cold.Release(g, func(w int) {
			cold.Stagger((w * (1 + k%5)) % 61)
			fp[w], msg[w] = coldDecide(c)
		})
		for w := range fp {
			n++
			if fp[w] != "" {
				cold.Report(fp[w], msg[w], c)
			}
		}
	}
	cold.Done(n)
}

// the same decision in a warm process, sequentially (so that a transcription error in spec.Sample or a non-canonical
// layout shows up as an ordinary, replayable failure and not only in cold children)
func checkCold(c coldCase) (string, string) { return coldDecide(c) }
