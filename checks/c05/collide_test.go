package c05

import (
	"fmt"

	"verif/harness/collide"
	"verif/harness/ev"
	"verif/harness/rp"
	"verif/harness/spec"
)

// Decoding must not depend on what was decoded before: pairs of well-formed messages whose date-time FIELD, or whose whole
// 64 BYTES, collide under the usual 32-bit hashes / cheap keys (a memo keyed on a hash instead of the bytes) are decoded one
// after the other, in both orders; each must re-encode to its own bytes.
type msgPair struct {
	Hash string `json:"hash"`
	Kind string `json:"kind"` // field | message
	A    []byte `json:"a"`
	B    []byte `json:"b"`
}

func getTimeReply(dt []byte) []byte {
	b := make([]byte, 64)
	spec.Header(b, 0x17, 0x32, 405419896)
	copy(b[8:], dt)
	return b
}

func sweepMsgPairs(yield func(msgPair) bool) {
	var fields, msgs []string
	bcd := func(v int) byte { return byte((v/10)<<4 | v%10) }
	n := 0
	for y := 2019; y <= 2026; y++ {
		for m := 1; m <= 12; m++ {
			for d := 1; d <= 28; d += 1 {
				for h := 0; h < 24; h += 1 {
					for mi := (d + h) % 7; mi < 60; mi += 7 {
						n++
						if !ev.Thorough() && n%3 != 0 {
							continue
						}
						f := []byte{0x20, bcd(y % 100), bcd(m), bcd(d), bcd(h), bcd(mi), bcd((d*h + mi) % 60)}
						fields = append(fields, string(f))
						msgs = append(msgs, string(getTimeReply(f)))
					}
				}
			}
		}
	}
	ev.Note("colliding-pairs/candidates", len(fields))
	idx := 0
	for _, p := range collide.Pairs(fields, ev.Pick(4, 30)) {
		idx++
		if ev.Mine(idx) && !yield(msgPair{p.Hash, "field", getTimeReply([]byte(p.A)), getTimeReply([]byte(p.B))}) {
			return
		}
	}
	for _, p := range collide.Pairs(msgs, ev.Pick(4, 30)) {
		idx++
		if ev.Mine(idx) && !yield(msgPair{p.Hash, "message", []byte(p.A), []byte(p.B)}) {
			return
		}
	}
}

func checkMsgPair(c msgPair) *rp.Fail {
	ev.Case("hash-colliding-pair/"+c.Kind+"/"+c.Hash, true, c.Hash+string(c.A)+string(c.B))
	for _, order := range [][2][]byte{{c.A, c.B}, {c.B, c.A}} {
		for _, x := range [][]byte{order[0], order[1], order[0]} {
			if fp, msg := coldDecide(coldCase{Kind: "response", Op: "GetTime", Msg: x}); fp != "" {
				return rp.Failf(fp+"/after-colliding-input", "%s  (in the sequence %x, %x, %x: the two date-time %ss collide under %s)", msg, order[0][8:15], order[1][8:15], order[0][8:15], c.Kind, c.Hash)
			}
		}
	}
	return nil
}

func collideProps() []rp.Prop {
	return []rp.Prop{rp.P[msgPair]{Name: "colliding-pairs", Sweep: sweepMsgPairs, Check: checkMsgPair}}
}

var _ = fmt.Sprint
