package c04

import (
	"fmt"

	codec "github.com/uhppoted/uhppote-core/encoding/UTO311-L0x"
	"github.com/uhppoted/uhppote-core/types"

	"verif/harness/ev"
	"verif/harness/rp"
	"verif/harness/spec"
)

// Applications declare message structs of their own, often as function-local types, and several of them carry the same name
// (`type reply struct{...}` in two helpers). The codec is handed values of such types one after the other, in both orders
// and in both directions; whatever it keeps per type, it never crashes on a well-formed message.
type localCase struct {
	Order int    `json:"order"`
	Msg   []byte `json:"message"`
}

func localShort(b []byte) (err error) {
	type reply struct {
		MsgType      types.MsgType      `uhppote:"value:0x94"`
		SerialNumber types.SerialNumber `uhppote:"offset:4"`
	}
	var r reply
	if err = codec.Unmarshal(b, &r); err == nil {
		_, err = codec.Marshal(r)
	}
	return
}

func localLong(b []byte) (err error) {
	type reply struct {
		MsgType      types.MsgType      `uhppote:"value:0x94"`
		SerialNumber types.SerialNumber `uhppote:"offset:4"`
		A            uint32             `uhppote:"offset:8"`
		B            uint16             `uhppote:"offset:12"`
		C            uint8              `uhppote:"offset:14"`
		D            bool               `uhppote:"offset:15"`
		Version      types.Version      `uhppote:"offset:26"`
		Date         types.Date         `uhppote:"offset:28"`
	}
	var r reply
	if err = codec.Unmarshal(b, &r); err == nil {
		_, err = codec.Marshal(r)
	}
	return
}

func localOther(b []byte) (err error) {
	type reply struct {
		SerialNumber types.SerialNumber `uhppote:"offset:4"`
		MsgType      types.MsgType      `uhppote:"value:0x94"`
		X            uint8              `uhppote:"offset:63"`
	}
	var r reply
	if err = codec.Unmarshal(b, &r); err == nil {
		_, err = codec.Marshal(&r)
	}
	return
}

func checkLocal(c localCase) *rp.Fail {
	ev.Case("same-named-local-layouts", true, fmt.Sprint(c.Order, c.Msg))
	fs := []func([]byte) error{localShort, localLong, localOther}
	names := []string{"a 2-field", "an 8-field", "a 3-field"}
	perm := [][]int{{0, 1, 2}, {1, 0, 2}, {2, 1, 0}, {0, 2, 1}, {1, 2, 0}, {2, 0, 1}}[c.Order%6]
	for _, k := range perm {
		var err error
		if p := try(func() { err = fs[k](append([]byte(nil), c.Msg...)) }); p != nil {
			return rp.Failf("codec/panic/same-named-local-layouts", "decoding / encoding %x with %s function-local `reply` struct (order %v) panicked: %v", c.Msg, names[k], perm, p)
		}
		_ = err
	}
	return nil
}

func sweepLocal(yield func(localCase) bool) {
	msg := make([]byte, 64)
	spec.Header(msg, 0x17, 0x94, 405419896)
	copy(msg[8:], []byte{192, 168, 1, 100, 255, 255, 255, 0, 192, 168, 1, 1, 0, 0x66, 0x19, 0x39, 0x55, 0x2d, 0x08, 0x92, 0x20, 0x18, 0x08, 0x16})
	for order := 0; order < 6; order++ {
		if !yield(localCase{Order: order, Msg: msg}) {
			return
		}
	}
}
