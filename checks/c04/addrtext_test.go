package c04

import (
	"encoding/json"
	"fmt"
	"strings"

	"github.com/uhppoted/uhppote-core/types"
	"pgregory.net/rapid"

	"verif/harness/ev"
	"verif/harness/gen"
	"verif/harness/guard"
	"verif/harness/rp"
)

// Configuration text is caller-supplied input too: the address strings handed to the four Parse...Addr functions, to the Set
// methods (flag values) and to the JSON decoders of the address types never crash the library, whatever they look like -
// dotted quads with octets beyond 255 or with leading zeros, ports of any size, text in any script and length, and strings
// that end exactly at the end of a readable page (nothing beyond the argument is read).
type addrText struct {
	S string `json:"text"`
}

func genAddrText(t *rapid.T) addrText {
	octet := func(label string) string {
		switch rapid.IntRange(0, 9).Draw(t, label+".kind") {
		case 0:
			return fmt.Sprintf("%03d", rapid.IntRange(0, 255).Draw(t, label)) // zero padded
		case 1:
			return fmt.Sprint(rapid.IntRange(256, 999).Draw(t, label))
		case 2:
			return rapid.SampledFrom([]string{"", "00", "0255", "1e1", "0x10", "-1", "+1", " 1", "١", "２５"}).Draw(t, label)
		case 3:
			return fmt.Sprint(rapid.Uint64().Draw(t, label))
		}
		return fmt.Sprint(rapid.IntRange(0, 255).Draw(t, label))
	}
	var s string
	switch rapid.IntRange(0, 7).Draw(t, "shape") {
	case 0:
		s = gen.Name(t, "text")
	case 1:
		s = gen.DictString(t, "dict")
	default:
		n := rapid.SampledFrom([]int{4, 4, 4, 4, 3, 5, 8}).Draw(t, "octets")
		var parts []string
		for i := 0; i < n; i++ {
			parts = append(parts, octet(fmt.Sprintf("o%d", i)))
		}
		s = strings.Join(parts, rapid.SampledFrom([]string{".", ".", ".", ".", "．", ":"}).Draw(t, "dot"))
	}
	switch rapid.IntRange(0, 4).Draw(t, "port") {
	case 0:
		s += ":" + fmt.Sprint(rapid.IntRange(0, 65535).Draw(t, "p"))
	case 1:
		s += ":" + rapid.SampledFrom([]string{"", "0", "00080", "65536", "99999999999999999999", "-1", "+80", "http", " 80", "８０"}).Draw(t, "p.odd")
	}
	if rapid.IntRange(0, 9).Draw(t, "wrap") == 0 {
		s = rapid.SampledFrom([]string{" ", "[", "\t", "\x00", "udp://"}).Draw(t, "prefix") + s + rapid.SampledFrom([]string{" ", "]", "\n", "/24", "%eth0"}).Draw(t, "suffix")
	}
	return addrText{S: s}
}

func checkAddrText(c addrText) *rp.Fail {
	ev.Case("address-text", true, c.S)
	texts := []string{c.S}
	if len(c.S) > 0 && len(c.S) <= 4096 && guard.Available() {
		texts = append(texts, guard.StringAtEnd(c.S))
	}
	for _, s := range texts {
		js, _ := json.Marshal(c.S)
		for name, f := range map[string]func(){
			"types.ParseBindAddr":                func() { types.ParseBindAddr(s) },
			"types.ParseBroadcastAddr":           func() { types.ParseBroadcastAddr(s) },
			"types.ParseListenAddr":              func() { types.ParseListenAddr(s) },
			"types.ParseControllerAddr":          func() { types.ParseControllerAddr(s) },
			"types.BindAddr.Set":                 func() { var a types.BindAddr; a.Set(s) },
			"types.BroadcastAddr.Set":            func() { var a types.BroadcastAddr; a.Set(s) },
			"types.ListenAddr.Set":               func() { var a types.ListenAddr; a.Set(s) },
			"types.ControllerAddr.Set":           func() { var a types.ControllerAddr; a.Set(s) },
			"types.BindAddr.UnmarshalJSON":       func() { var a types.BindAddr; json.Unmarshal(js, &a) },
			"types.BroadcastAddr.UnmarshalJSON":  func() { var a types.BroadcastAddr; json.Unmarshal(js, &a) },
			"types.ListenAddr.UnmarshalJSON":     func() { var a types.ListenAddr; json.Unmarshal(js, &a) },
			"types.ControllerAddr.UnmarshalJSON": func() { var a types.ControllerAddr; json.Unmarshal(js, &a) },
		} {
			if p := guard.Do(f); p != nil {
				return rp.Failf(name+"/panic", "%s(%q) panicked: %v", name, c.S, p)
			}
		}
	}
	return nil
}

// The JSON decoders of the list-like types take text that people write: weekday lists with ranges in either direction, other
// separators and abbreviations, alone and inside time-profile and task documents - a value or an error, never a crash.
type dayText struct {
	S string `json:"text"`
}

func genDayText(t *rapid.T) dayText {
	days := []string{"Monday", "Tuesday", "Wednesday", "Thursday", "Friday", "Saturday", "Sunday"}
	n := rapid.IntRange(1, 4).Draw(t, "tokens")
	var toks []string
	for i := 0; i < n; i++ {
		a, b := days[rapid.IntRange(0, 6).Draw(t, "a")], days[rapid.IntRange(0, 6).Draw(t, "b")]
		tok := a
		if rapid.Bool().Draw(t, "range") {
			tok = a + rapid.SampledFrom([]string{"-", "-", "..", " to ", "/", "–", ":", "+", "--", "-,"}).Draw(t, "sep") + b
		}
		switch rapid.IntRange(0, 5).Draw(t, "form") {
		case 0:
			tok = strings.ToLower(tok)
		case 1:
			tok = strings.ToUpper(tok)
		case 2:
			if len(tok) > 3 {
				tok = tok[:3]
			}
		case 3:
			tok = " " + tok + " "
		}
		toks = append(toks, tok)
	}
	return dayText{S: strings.Join(toks, rapid.SampledFrom([]string{",", ",", ", ", ";", " "}).Draw(t, "join"))}
}

func checkDayText(c dayText) *rp.Fail {
	ev.Case("weekday-text", true, c.S)
	js, _ := json.Marshal(c.S)
	docs := map[string]func(){
		"types.Weekdays.UnmarshalJSON":      func() { var w types.Weekdays; json.Unmarshal(js, &w) },
		"types.Weekdays.UnmarshalJSON/used": func() { w := types.Weekdays{}; json.Unmarshal(js, &w) },
		"types.TimeProfile.UnmarshalJSON": func() {
			var p types.TimeProfile
			json.Unmarshal([]byte(fmt.Sprintf(`{"id":29,"start-date":"2024-01-01","end-date":"2024-12-31","weekdays":%s,"segments":[{"start":"08:30","end":"17:00"}]}`, js)), &p)
		},
		"types.Task.UnmarshalJSON": func() {
			var k types.Task
			json.Unmarshal([]byte(fmt.Sprintf(`{"task":"unlock door","door":3,"start-date":"2024-01-01","end-date":"2024-12-31","weekdays":%s,"start":"08:30"}`, js)), &k)
		},
	}
	for name, f := range docs {
		if p := try(f); p != nil {
			return rp.Failf(name+"/panic", "%s with the weekday text %q panicked: %v", name, c.S, p)
		}
	}
	return nil
}

// Keyword text: the parsers that recognise names (card formats, task types, door control states, weekday names) are handed
// their own keywords - harvested from the library's source - wrapped in text that trips case-insensitive matching written by
// hand: letters whose lower / upper case form has another byte length (U+023A, U+023E, U+0130, U+1E9E, the Kelvin and
// Angstrom signs), invalid UTF-8, combining marks. A value or an error, never a crash.
type keywordText struct {
	S string `json:"text"`
}

var caseTraps = []string{"Ⱥ", "Ⱦ", "İ", "ẞ", "K", "Å", "ǅ", "ß", "ı", "\xff", "\xff\xfe", "\xc3", "\xe2\x82", "é", "ͅ", "ﬁ", "Σ", "ς"}

func genKeywordText(t *rapid.T) keywordText {
	kw := rapid.SampledFrom([]string{"wiegand", "Wiegand-26", "wiegand26", "any", "ANY", "normally open", "normally closed", "controlled", "control door", "unlock door", "lock door", "enable time profile",
		"disable time profile", "enable card, no password", "enable card+IN password", "enable card+password", "enable more cards", "disable more cards", "trigger once", "disable pushbutton",
		"enable pushbutton", "Monday", "Sunday", "monday,tuesday"}).Draw(t, "keyword")
	if rapid.IntRange(0, 3).Draw(t, "dict") == 0 {
		kw = gen.DictString(t, "keyword.dict")
	}
	trap := func(label string) string {
		n := rapid.IntRange(0, 3).Draw(t, label+".n")
		var b strings.Builder
		for i := 0; i < n; i++ {
			b.WriteString(rapid.SampledFrom(caseTraps).Draw(t, label))
		}
		return b.String()
	}
	s := trap("before") + kw + trap("after")
	switch rapid.IntRange(0, 5).Draw(t, "shape") {
	case 0:
		s = strings.ToUpper(s)
	case 1: // the keyword cut short, so that little follows the trap
		if len(kw) > 3 {
			s = trap("before2") + kw[:rapid.IntRange(1, len(kw)-1).Draw(t, "cut")]
		}
	case 2: // a trap inside the keyword
		if len(kw) > 2 {
			i := rapid.IntRange(1, len(kw)-1).Draw(t, "at")
			s = kw[:i] + rapid.SampledFrom(caseTraps).Draw(t, "inside") + kw[i:]
		}
	}
	return keywordText{S: s}
}

func checkKeywordText(c keywordText) *rp.Fail {
	ev.Case("keyword-text", true, c.S)
	js, _ := json.Marshal(c.S)
	raw := []byte(`"` + strings.NewReplacer(`"`, `\"`, `\`, `\\`).Replace(c.S) + `"`) // (also as JSON whose bytes are not valid UTF-8)
	for name, f := range map[string]func(){
		"types.CardFormatFromString":       func() { types.CardFormatFromString(c.S) },
		"types.CardFormat.UnmarshalConf":   func() { var f types.CardFormat; f.UnmarshalConf("format", map[string]string{"format": c.S}) },
		"types.TaskType.UnmarshalJSON":     func() { var k types.TaskType; json.Unmarshal(js, &k); k.UnmarshalJSON(raw) },
		"types.TaskType.UnmarshalTSV":      func() { var k types.TaskType; k.UnmarshalTSV(c.S) },
		"types.ControlState.UnmarshalJSON": func() { var v types.ControlState; json.Unmarshal(js, &v); v.UnmarshalJSON(raw) },
		"types.Weekdays.UnmarshalJSON":     func() { var w types.Weekdays; json.Unmarshal(js, &w); w.UnmarshalJSON(raw) },
		"types.Task.UnmarshalJSON": func() {
			var k types.Task
			json.Unmarshal([]byte(fmt.Sprintf(`{"task":%s,"door":3,"start-date":"2024-01-01","end-date":"2024-12-31","weekdays":%s,"start":"08:30"}`, js, js)), &k)
		},
	} {
		if p := try(f); p != nil {
			return rp.Failf(name+"/panic", "%s with the text %q panicked: %v", name, c.S, p)
		}
	}
	return nil
}
