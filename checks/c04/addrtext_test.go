package c04

import (
	"encoding/json"
	"fmt"
	"strings"

	"github.com/uhppoted/uhppote-core/types"
	"pgregory.net/rapid"

	"verif/harness/ev"
	"verif/harness/gen"
	"verif/harness/guard"
	"verif/harness/rp"
)

// Configuration text is caller-supplied input too: the address strings handed to the four Parse...Addr functions, to the Set
// methods (flag values) and to the JSON decoders of the address types never crash the library, whatever they look like -
// dotted quads with octets beyond 255 or with leading zeros, ports of any size, text in any script and length, and strings
// that end exactly at the end of a readable page (nothing beyond the argument is read).
type addrText struct {
	S string `json:"text"`
}

func genAddrText(t *rapid.T) addrText {
	octet := func(label string) string {
		switch rapid.IntRange(0, 9).Draw(t, label+".kind") {
		case 0:
			return fmt.Sprintf("%03d", rapid.IntRange(0, 255).Draw(t, label)) // zero padded
		case 1:
			return fmt.Sprint(rapid.IntRange(256, 999).Draw(t, label))
		case 2:
			return rapid.SampledFrom([]string{"", "00", "0255", "1e1", "0x10", "-1", "+1", " 1", "١", "２５"}).Draw(t, label)
		case 3:
			return fmt.Sprint(rapid.Uint64().Draw(t, label))
		}
		return fmt.Sprint(rapid.IntRange(0, 255).Draw(t, label))
	}
	var s string
	switch rapid.IntRange(0, 7).Draw(t, "shape") {
	case 0:
		s = gen.Name(t, "text")
	case 1:
		s = gen.DictString(t, "dict")
	default:
		n := rapid.SampledFrom([]int{4, 4, 4, 4, 3, 5, 8}).Draw(t, "octets")
		var parts []string
		for i := 0; i < n; i++ {
			parts = append(parts, octet(fmt.Sprintf("o%d", i)))
		}
		s = strings.Join(parts, rapid.SampledFrom([]string{".", ".", ".", ".", "．", ":"}).Draw(t, "dot"))
	}
	switch rapid.IntRange(0, 4).Draw(t, "port") {
	case 0:
		s += ":" + fmt.Sprint(rapid.IntRange(0, 65535).Draw(t, "p"))
	case 1:
		s += ":" + rapid.SampledFrom([]string{"", "0", "00080", "65536", "99999999999999999999", "-1", "+80", "http", " 80", "８０"}).Draw(t, "p.odd")
	}
	if rapid.IntRange(0, 9).Draw(t, "wrap") == 0 {
		s = rapid.SampledFrom([]string{" ", "[", "\t", "\x00", "udp://"}).Draw(t, "prefix") + s + rapid.SampledFrom([]string{" ", "]", "\n", "/24", "%eth0"}).Draw(t, "suffix")
	}
	return addrText{S: s}
}

func checkAddrText(c addrText) *rp.Fail {
	ev.Case("address-text", true, c.S)
	texts := []string{c.S}
	if len(c.S) > 0 && len(c.S) <= 4096 && guard.Available() {
		texts = append(texts, guard.StringAtEnd(c.S))
	}
	for _, s := range texts {
		js, _ := json.Marshal(c.S)
		for name, f := range map[string]func(){
			"types.ParseBindAddr":                func() { types.ParseBindAddr(s) },
			"types.ParseBroadcastAddr":           func() { types.ParseBroadcastAddr(s) },
			"types.ParseListenAddr":              func() { types.ParseListenAddr(s) },
			"types.ParseControllerAddr":          func() { types.ParseControllerAddr(s) },
			"types.BindAddr.Set":                 func() { var a types.BindAddr; a.Set(s) },
			"types.BroadcastAddr.Set":            func() { var a types.BroadcastAddr; a.Set(s) },
			"types.ListenAddr.Set":               func() { var a types.ListenAddr; a.Set(s) },
			"types.ControllerAddr.Set":           func() { var a types.ControllerAddr; a.Set(s) },
			"types.BindAddr.UnmarshalJSON":       func() { var a types.BindAddr; json.Unmarshal(js, &a) },
			"types.BroadcastAddr.UnmarshalJSON":  func() { var a types.BroadcastAddr; json.Unmarshal(js, &a) },
			"types.ListenAddr.UnmarshalJSON":     func() { var a types.ListenAddr; json.Unmarshal(js, &a) },
			"types.ControllerAddr.UnmarshalJSON": func() { var a types.ControllerAddr; json.Unmarshal(js, &a) },
		} {
			if p := guard.Do(f); p != nil {
				return rp.Failf(name+"/panic", "%s(%q) panicked: %v", name, c.S, p)
			}
		}
	}
	return nil
}
