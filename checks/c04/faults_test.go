package c04

import (
	"fmt"
	"net"
	"time"

	"github.com/uhppoted/uhppote-core/types"
	"pgregory.net/rapid"

	"verif/harness/api"
	"verif/harness/ev"
	"verif/harness/farm"
	"verif/harness/gen"
	"verif/harness/hook"
	"verif/harness/render"
	"verif/harness/rp"
	"verif/harness/spec"
)

// What the NETWORK supplies is not only bytes: a connection that is closed without a reply (EOF), reset, refused, a reply
// cut short, an empty or an oversize datagram, a reply in pieces. The real UDP/TCP driver meets these here; whatever it
// makes of them, the call returns a value or an error and never panics.
type faultCase struct {
	Op    string `json:"op"`
	Path  int    `json:"path"` // 0 broadcast, 1 udp, 2 tcp
	Fault string `json:"fault"`
	Debug bool   `json:"debug"`
	Len   int    `json:"len,omitempty"`
	// Timeout: "" 120 ms; "0", "1ns", "7ns", "-1s" degenerate timeouts a client can be built with
	Timeout string `json:"timeout,omitempty"`
}

func checkFault(c faultCase) *rp.Fail {
	ev.Case(fmt.Sprintf("network-fault/%s/%s", []string{"broadcast", "udp", "tcp"}[c.Path], c.Fault), true, fmt.Sprintf("%+v", c))
	f := farm.New()
	defer f.Close()
	good := func(req []byte) []byte {
		if len(req) != 64 {
			return make([]byte, 64)
		}
		b := make([]byte, 64)
		spec.Header(b, 0x17, req[1], spec.LE32(req[4:]))
		return b
	}
	shaped := func(req []byte) []byte {
		b := good(req)
		switch c.Fault {
		case "empty":
			return []byte{}
		case "short":
			return b[:c.Len%64]
		case "oversize":
			return append(b, make([]byte, 1+c.Len%1984)...)
		case "huge":
			return append(b, make([]byte, 4000)...)
		}
		return b
	}
	ip := [4]byte{127, 0, 5, 1}
	const T = 120
	cfg := hook.ClientCfg{TimeoutMs: T, BindIP: [4]byte{127, 0, 0, 1}, Debug: c.Debug, HasBroadcast: true, BroadcastIP: [4]byte{127, 0, 5, 2}, BroadcastPort: 1}
	switch c.Timeout {
	case "0":
		cfg.ZeroTimeout = true
	case "1ns":
		cfg.TimeoutNs = 1
	case "7ns":
		cfg.TimeoutNs = 7
	case "-1s":
		cfg.TimeoutNs = -1000000000
	}
	if c.Fault == "ipv6-sender" {
		cfg.BindNoIP = true // (a bind address with no IP: the request sockets are bound to <any>)
	}
	var port uint16
	switch c.Path {
	case 0, 1:
		if c.Fault == "refused" {
			port, _ = farm.FreePort(ip)
		} else {
			u, err := f.UDP(ip, 0, farm.Script(func(r farm.Received) []farm.Action {
				switch c.Fault {
				case "silence":
					return nil
				case "pieces":
					b := good(r.Data)
					return []farm.Action{{Data: b[:8]}, {Data: b[8:40]}, {Data: b[40:]}}
				case "twice":
					return []farm.Action{{Data: good(r.Data)}, {Data: good(r.Data)}}
				case "ipv6-sender":
					// the answer comes from an IPv6 socket of this host ([::1]) to the port the request came from: a client whose bind
					// address names no IP has a socket that hears both address families
					if c6, err := net.DialUDP("udp6", nil, &net.UDPAddr{IP: net.IPv6loopback, Port: int(r.From.Port())}); err == nil {
						c6.Write(good(r.Data))
						c6.Write(shaped(r.Data)[:c.Len%65])
						c6.Close()
						ev.Class("network-fault/answer-from-an-ipv6-socket", 1)
					}
					return nil
				}
				return []farm.Action{{Data: shaped(r.Data)}}
			}))
			if err != nil {
				ev.HarnessError("farm: %v", err)
				return nil
			}
			port = u.Addr.Port()
		}
	case 2:
		if c.Fault == "refused" {
			port, _ = farm.FreePort(ip)
		} else {
			t, err := f.TCP(ip, 0, func(e *farm.TCP, r farm.Received) {
				switch c.Fault {
				case "silence":
					e.PlayTCP(r, nil)
				case "close":
					e.PlayTCP(r, []farm.Action{{Close: true}})
				case "late-close":
					e.PlayTCP(r, []farm.Action{{Delay: T / 3 * time.Millisecond, Close: true}})
				case "reset":
					e.PlayTCP(r, []farm.Action{{Reset: true}})
				case "half-close":
					e.PlayTCP(r, []farm.Action{{Data: good(r.Data)[:1+c.Len%63]}, {Close: true}})
				case "half-reset":
					e.PlayTCP(r, []farm.Action{{Data: good(r.Data)[:1+c.Len%63]}, {Delay: time.Millisecond, Reset: true}})
				case "pieces":
					b := good(r.Data)
					e.PlayTCP(r, []farm.Action{{Data: b[:8]}, {Delay: 2 * time.Millisecond, Data: b[8:40]}, {Delay: 2 * time.Millisecond, Data: b[40:]}})
				case "twice":
					e.PlayTCP(r, []farm.Action{{Data: append(good(r.Data), good(r.Data)...)}})
				default:
					e.PlayTCP(r, []farm.Action{{Data: shaped(r.Data)}})
				}
			})
			if err != nil {
				ev.HarnessError("farm: %v", err)
				return nil
			}
			port = t.Addr.Port()
		}
	}
	switch c.Path {
	case 0:
		cfg.BroadcastIP, cfg.BroadcastPort = ip, port
	case 1:
		cfg.Devices = []hook.DeviceCfg{{Name: "A", Serial: serial, HasAddr: true, IP: ip, Port: port, Protocol: "udp"}}
	case 2:
		cfg.Devices = []hook.DeviceCfg{{Name: "A", Serial: serial, HasAddr: true, IP: ip, Port: port, Protocol: "tcp"}}
	}
	u := hook.Real(cfg)
	site := fmt.Sprintf("%s/%s", []string{"broadcast", "udp", "tcp"}[c.Path], c.Fault)
	if c.Op == "GetDevices" {
		var list []types.Device
		var err error
		if pn := try(func() { list, err = u.GetDevices() }); pn != nil {
			return rp.Failf("network-fault/"+site+"/panic", "GetDevices panicked: %v", pn)
		}
		if err == nil {
			for i := range list {
				if msg := render.Panics(&list[i]); msg != "" {
					return rp.Failf("render/GetDevices", "%s", msg)
				}
			}
		}
		return nil
	}
	call := spec.Call{Op: c.Op, Serial: serial, Card: 8165537, Profile: 29, Index: 7, Door: 1, From: spec.Civil{Y: 2024, M: 1, D: 1}, To: spec.Civil{Y: 2024, M: 12, D: 31},
		Address: [4]byte{10, 0, 0, 9}, Mask: [4]byte{255, 255, 255, 0}, Gateway: [4]byte{10, 0, 0, 1}}
	res := api.Invoke(u, api.Case{Call: call, V: api.Variant{WeekPresent: [7]bool{true, true, true, true, true, true, true}}})
	if res.Panic != nil {
		return rp.Failf("network-fault/"+site+"/panic", "%s (debug=%v) panicked when the network answered with '%s': %v", c.Op, c.Debug, c.Fault, res.Panic)
	}
	if res.Err == nil && res.Value != nil {
		if msg := render.Panics(res.Value); msg != "" {
			return rp.Failf("render/"+c.Op, "%s: %s", c.Op, msg)
		}
	}
	return nil
}

func genFault(t *rapid.T) faultCase {
	c := faultCase{Op: gen.Op(t, true), Path: rapid.IntRange(0, 2).Draw(t, "path"), Debug: rapid.Bool().Draw(t, "debug"), Len: rapid.IntRange(0, 4000).Draw(t, "len")}
	if c.Op == "GetDevices" {
		c.Path = 0
	}
	if c.Path == 2 {
		c.Fault = rapid.SampledFrom([]string{"close", "close", "late-close", "reset", "half-close", "half-reset", "refused", "pieces", "twice", "empty", "short", "oversize", "huge", "silence"}).Draw(t, "fault")
	} else {
		c.Fault = rapid.SampledFrom([]string{"empty", "short", "oversize", "huge", "refused", "pieces", "twice", "silence", "ipv6-sender"}).Draw(t, "fault")
		if c.Path == 0 && c.Fault == "refused" {
			c.Fault = "empty"
		}
	}
	if c.Fault == "silence" && rapid.IntRange(0, 3).Draw(t, "silence.rare") != 0 {
		c.Fault = "empty"
	}
	if rapid.IntRange(0, 5).Draw(t, "degenerate.timeout") == 0 {
		c.Timeout = rapid.SampledFrom([]string{"0", "1ns", "7ns", "-1s"}).Draw(t, "timeout")
	}
	return c
}
