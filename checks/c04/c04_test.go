// C04 - nothing the network or the caller supplies can crash the library.
package c04

import (
	"fmt"
	"os"
	"reflect"
	"runtime"
	"strings"
	"sync"
	"syscall"
	"testing"
	"time"
	"verif/harness/zones"

	codec "github.com/uhppoted/uhppote-core/encoding/UTO311-L0x"
	"github.com/uhppoted/uhppote-core/messages"
	"github.com/uhppoted/uhppote-core/types"
	"github.com/uhppoted/uhppote-core/uhppote"
	"pgregory.net/rapid"

	"verif/harness/api"
	"verif/harness/cold"
	"verif/harness/ev"
	"verif/harness/gen"
	"verif/harness/hook"
	"verif/harness/msgs"
	"verif/harness/render"
	"verif/harness/rp"
	"verif/harness/spec"
)

func TestMain(m *testing.M) {
	time.Local = time.UTC
	ev.Describe("(a) bytes: for every registered message type (32 requests, 31 replies, 2 event types) random byte strings of every length 0..2048, valid header + random payload, and the sweep 'every offset x every byte value' on a valid message - handed to codec.Unmarshal, UnmarshalAs, UnmarshalArray, UnmarshalArrayElement, messages.UnmarshalRequest/Response, to every API operation as the reply (in-memory driver, all three routes incl. GetDevices lists) and to the event listener callback; (b) arguments: every operation with nil maps, nil/0-/3-/5-/16-byte IPs, zero and IPv6/zoned listener addresses, zero and extreme dates and times (time.Time{}, year 10000, negative years, +-2^55 s), every uint8 for door/state/task/interlock/format values, hostile client configurations. Oracle: recover() around every call - a panic is a violation - and every non-error result is rendered with its String method and JSON encoding, invoked directly and recursively on nested values (fmt would swallow the panic). Non-trivial = input that passed the length and header checks (a decoder ran) or an argument tuple with a nil/extreme/out-of-range component; distinct = distinct input.",
		"panics inside library goroutines cannot be recovered: the driver reports a crashed test process with library frames on the stack as a violation")
	ev.Main(m, "C04")
}

func try(f func()) (p any) {
	defer func() { p = recover() }()
	f()
	return nil
}

// bytes through the decoding entry points --------------------------------------------------------

type bytesCase struct {
	B []byte `json:"b"`
}

func decodeAll(b []byte) *rp.Fail {
	for _, p := range msgs.All() {
		name := p.Type.String()
		if pn := try(func() { codec.Unmarshal(append([]byte(nil), b...), p.New()) }); pn != nil {
			return rp.Failf("codec.Unmarshal/panic", "Unmarshal(%x, *%s) panicked: %v", b, name, pn)
		}
		var as any
		var err error
		if pn := try(func() { as, err = codec.UnmarshalAs(append([]byte(nil), b...), reflect.New(p.Type).Elem().Interface()) }); pn != nil {
			return rp.Failf("codec.UnmarshalAs/panic", "UnmarshalAs(%x, %s) panicked: %v", b, name, pn)
		}
		if err == nil && as != nil {
			if msg := render.Panics(as); msg != "" {
				return rp.Failf("render/decoded-message", "decoded %s from %x: %s", name, b, msg)
			}
		}
		if p.Kind == "response" && (p.Code == 0x94 || p.Code == 0x20) {
			arr := reflect.New(reflect.SliceOf(p.Type))
			if pn := try(func() {
				codec.UnmarshalArray([][]byte{append([]byte(nil), b...), append([]byte(nil), b...)}, arr.Interface())
				codec.UnmarshalArrayElement(append([]byte(nil), b...), arr.Interface())
			}); pn != nil {
				return rp.Failf("codec.UnmarshalArray/panic", "UnmarshalArray(%x, []%s) panicked: %v", b, name, pn)
			}
		}
	}
	if pn := try(func() { messages.UnmarshalRequest(append([]byte(nil), b...)) }); pn != nil {
		return rp.Failf("messages.UnmarshalRequest/panic", "UnmarshalRequest(%x) panicked: %v", b, pn)
	}
	if pn := try(func() { messages.UnmarshalResponse(append([]byte(nil), b...)) }); pn != nil {
		return rp.Failf("messages.UnmarshalResponse/panic", "UnmarshalResponse(%x) panicked: %v", b, pn)
	}
	if pn := try(func() { codec.Dump(b, " ") }); pn != nil {
		return rp.Failf("codec.Dump/panic", "Dump(%x) panicked: %v", b, pn)
	}
	return nil
}

func bytesClass(b []byte) (string, bool) {
	switch {
	case len(b) != 64:
		return fmt.Sprintf("bytes/length-%s", lenBand(len(b))), false
	case b[0] != 0x17 && b[0] != 0x19:
		return "bytes/64-bad-protocol-id", false
	}
	return "bytes/64-header-ok", true
}

func lenBand(n int) string {
	switch {
	case n == 0:
		return "0"
	case n < 64:
		return "1..63"
	case n <= 128:
		return "65..128"
	}
	return "129..2048"
}

func checkBytes(c bytesCase) *rp.Fail {
	class, nt := bytesClass(c.B)
	ev.Case(class, nt, string(c.B))
	if ev.WantSample(class) {
		ev.Sample(class, fmt.Sprintf("%x", c.B))
	}
	return decodeAll(c.B)
}

func genBytes(t *rapid.T) bytesCase {
	switch rapid.IntRange(0, 3).Draw(t, "kind") {
	case 0: // any length, random content
		n := rapid.IntRange(0, 2048).Draw(t, "len")
		if rapid.Bool().Draw(t, "short") {
			n = rapid.IntRange(0, 130).Draw(t, "len.short")
		}
		b := make([]byte, n)
		fillRandom(t, b, 0)
		return bytesCase{b}
	default: // valid header of a registered type + hostile payload
		all := msgs.All()
		p := all[rapid.IntRange(0, len(all)-1).Draw(t, "type")]
		b := make([]byte, 64)
		b[0], b[1] = 0x17, p.Code
		if p.Kind == "event-v6.62" || (p.Code == 0x20 && rapid.Bool().Draw(t, "som19")) {
			b[0] = 0x19
		}
		fillRandom(t, b, 2)
		return bytesCase{b}
	}
}

var hostile = []byte{0x00, 0x01, 0x02, 0x04, 0x05, 0x09, 0x0a, 0x10, 0x12, 0x13, 0x20, 0x24, 0x25, 0x31, 0x32, 0x59, 0x60, 0x7f, 0x80, 0x99, 0x9a, 0xa0, 0xfe, 0xff}

func fillRandom(t *rapid.T, b []byte, from int) {
	mode := rapid.IntRange(0, 3).Draw(t, "fill")
	for i := from; i < len(b); i++ {
		switch mode {
		case 0:
			b[i] = rapid.Byte().Draw(t, "b")
		case 1:
			b[i] = hostile[rapid.IntRange(0, len(hostile)-1).Draw(t, "h")]
		case 2:
			b[i] = 0xff
		default:
			if rapid.IntRange(0, 5).Draw(t, "z") == 0 {
				b[i] = rapid.Byte().Draw(t, "b")
			}
		}
	}
}

// replies through every API operation + rendering ---------------------------------------------------

type replyCase struct {
	Op     string   `json:"op"`
	Route  int      `json:"route"` // 0 broadcast, 1 udp, 2 tcp
	Script [][]byte `json:"script"`
	// the environment the results are rendered in: the configured controller name (it is copied into results) and the zone of
	// the process ("" = UTC; decoded date-times carry it)
	Name string `json:"name,omitempty"`
	PZ   string `json:"process_zone,omitempty"`
	// Procs: GOMAXPROCS for the duration of the case (0 = unchanged): the host may have one processor
	Procs int `json:"gomaxprocs,omitempty"`
}

func cfgFor(route int, serial uint32, name ...string) hook.ClientCfg {
	nm := append(name, "A")[0]
	switch route {
	case 1:
		return hook.ClientCfg{Devices: []hook.DeviceCfg{{Name: nm, Serial: serial, HasAddr: true, IP: [4]byte{10, 0, 0, 1}, Port: 60000, Protocol: "udp"}}}
	case 2:
		return hook.ClientCfg{Devices: []hook.DeviceCfg{{Name: nm, Serial: serial, HasAddr: true, IP: [4]byte{10, 0, 0, 1}, Port: 60000, Protocol: "tcp"}}}
	}
	if len(name) > 0 && name[0] != "" {
		return hook.ClientCfg{Devices: []hook.DeviceCfg{{Name: nm, Serial: serial}}}
	}
	return hook.ClientCfg{}
}

func inZone(pz string, f func() *rp.Fail) (fail *rp.Fail) {
	if pz == "" {
		return f()
	}
	ev.Class("rendered-in-process-zone/"+map[bool]string{true: "fixed-zone-with-odd-abbreviation", false: "tz-database-or-synthetic"}[strings.HasPrefix(pz, "Fixed/")], 1)
	zones.With(zones.Loc(pz), func() { fail = f() })
	return fail
}

const serial = 405419896

func decideReply(c replyCase) *rp.Fail {
	return inZone(c.PZ, func() *rp.Fail { return decideReplyInner(c) })
}

func decideReplyInner(c replyCase) *rp.Fail {
	if c.Procs > 0 {
		ev.Class(fmt.Sprintf("replies/gomaxprocs-%d", c.Procs), 1)
		old := runtime.GOMAXPROCS(c.Procs)
		defer runtime.GOMAXPROCS(old)
	}
	cfg := cfgFor(c.Route, serial)
	if c.Name != "" {
		cfg = cfgFor(c.Route, serial, c.Name)
		if len([]rune(c.Name)) != len(c.Name) {
			ev.Class("configured-name/not-ascii", 1)
		}
	}
	u, d := hook.Mem(cfg)
	d.Reset(c.Script...)
	if c.Op == "GetDevices" {
		var list []types.Device
		var err error
		if pn := try(func() { list, err = u.GetDevices() }); pn != nil {
			return rp.Failf("uhppote.GetDevices/panic", "GetDevices with replies %x panicked: %v", c.Script, pn)
		}
		if err == nil {
			for i := range list {
				if msg := render.Panics(&list[i]); msg != "" {
					return rp.Failf("render/GetDevices", "GetDevices result from %x: %s", c.Script, msg)
				}
			}
		}
		return nil
	}
	call := spec.Call{Op: c.Op, Serial: serial, Card: 8165537, Profile: 29, Index: 7, Door: 1, From: spec.Civil{Y: 2024, M: 1, D: 1}, To: spec.Civil{Y: 2024, M: 12, D: 31},
		Address: [4]byte{10, 0, 0, 9}, Mask: [4]byte{255, 255, 255, 0}, Gateway: [4]byte{10, 0, 0, 1}}
	res := api.Invoke(u, api.Case{Call: call, V: api.Variant{WeekPresent: [7]bool{true, true, true, true, true, true, true}}})
	if res.Panic != nil {
		return rp.Failf("uhppote."+c.Op+"/panic", "%s with incoming datagrams %x panicked: %v", c.Op, c.Script, res.Panic)
	}
	if res.Err == nil && res.Value != nil {
		if msg := render.Panics(res.Value); msg != "" {
			return rp.Failf("render/"+c.Op, "%s returned a value (from reply %x) that cannot be rendered: %s", c.Op, c.Script, msg)
		}
	}
	return nil
}

func checkReply(c replyCase) *rp.Fail {
	nt := false
	for _, b := range c.Script {
		if len(b) == 64 && (b[0] == 0x17 || b[0] == 0x19) {
			nt = true
		}
	}
	class := "api-reply/" + c.Op
	ev.Case(class, nt, fmt.Sprint(c.Route, c.Script))
	if ev.WantSample(class) {
		ev.Sample(class, map[string]any{"op": c.Op, "route": c.Route, "script": fmt.Sprintf("%x", c.Script)})
	}
	return decideReply(c)
}

func genReply(t *rapid.T) replyCase {
	c := replyCase{Op: gen.Op(t, true), Route: rapid.IntRange(0, 2).Draw(t, "route")}
	if rapid.IntRange(0, 2).Draw(t, "named") == 0 {
		c.Name = gen.Name(t, "name")
	}
	c.PZ = gen.ProcessZone(t, "process.zone")
	n := rapid.IntRange(1, 3).Draw(t, "datagrams")
	if c.Op == "GetDevices" {
		n = rapid.IntRange(1, 7).Draw(t, "datagrams.discovery")
		if rapid.IntRange(0, 3).Draw(t, "large.site") == 0 {
			n = rapid.IntRange(8, 40).Draw(t, "datagrams.discovery.many")
		}
	}
	if rapid.IntRange(0, 4).Draw(t, "procs.set") == 0 {
		c.Procs = rapid.SampledFrom([]int{1, 1, 2, 3}).Draw(t, "procs")
	}
	for i := 0; i < n; i++ {
		var b []byte
		l, ok := spec.Responses[c.Op]
		switch k := rapid.IntRange(0, 9).Draw(t, "datagram.kind"); {
		case k <= 6 && ok: // correct header, hostile payload
			b = make([]byte, 64)
			spec.Header(b, 0x17, l.Code, serial)
			fillRandom(t, b, 8)
			if c.Op == "GetDevices" {
				spec.PutLE32(b[4:], gen.U32(t, "serial"))
				if rapid.IntRange(0, 2).Draw(t, "serial.pool") != 0 {
					// a few controllers that answer more than once, in any order, and replies without a serial number
					spec.PutLE32(b[4:], rapid.SampledFrom([]uint32{0, 405419896, 405419896, 303986753, 303986753, 201020304}).Draw(t, "serial.known"))
					if rapid.Bool().Draw(t, "serial.identical") {
						for j := 8; j < 64; j++ {
							b[j] = byte(j) // (byte-identical duplicates too)
						}
						copy(b[28:32], []byte{0x20, 0x24, 0x01, 0x31})
					}
				}
			}
		case k == 7:
			b = genBytes(t).B
		case k == 8 && ok: // in-domain reply with one hostile byte
			b = gen.Payload(t, l, 0x17, serial, 0, false)
			b[rapid.IntRange(8, 63).Draw(t, "pos")] = hostile[rapid.IntRange(0, len(hostile)-1).Draw(t, "h")]
		default:
			b = make([]byte, rapid.SampledFrom([]int{0, 1, 7, 8, 63, 65, 1024, 1025, 2048}).Draw(t, "len"))
			fillRandom(t, b, 0)
		}
		c.Script = append(c.Script, b)
	}
	return c
}

// every operation x every payload offset x every byte value on a valid all-in-domain reply
func sweepReplies(yield func(replyCase) bool) {
	idx := 0
	for _, op := range spec.ReplyOps {
		l := spec.Responses[op]
		base := make([]byte, 64)
		spec.Header(base, 0x17, l.Code, serial)
		switch op {
		case "GetCardByID":
			spec.PutLE32(base[8:], 8165537)
		case "GetTimeProfile":
			base[8] = 29
		case "GetEvent", "GetCardByIndex", "GetStatus":
			base[8] = 7
		}
		for off := 8; off < 64; off++ {
			for v := 0; v < 256; v++ {
				idx++
				if !ev.Mine(idx) {
					continue
				}
				b := append([]byte(nil), base...)
				b[off] = byte(v)
				if !yield(replyCase{Op: op, Route: idx % 3, Script: [][]byte{b}}) {
					return
				}
			}
		}
	}
}

// every registered message type x every offset x every byte value through the decoders
func TestSweepDecoders(t *testing.T) {
	if ev.Replaying() {
		t.Skip()
	}
	var n int64
	idx := 0
	for _, p := range msgs.All() {
		base := make([]byte, 64)
		base[0], base[1] = 0x17, p.Code
		if p.Kind == "event-v6.62" {
			base[0] = 0x19
		}
		for off := 0; off < 64; off++ {
			idx++
			if !ev.Mine(idx) {
				continue
			}
			for v := 0; v < 256; v++ {
				b := append([]byte(nil), base...)
				b[off] = byte(v)
				n++
				var pn any
				var as any
				var err error
				if pn = try(func() { as, err = codec.UnmarshalAs(b, reflect.New(p.Type).Elem().Interface()) }); pn == nil && err == nil {
					if msg := render.Panics(as); msg != "" {
						pn = msg
					}
				}
				if pn != nil {
					if ev.Failure("bytes", "codec.UnmarshalAs/panic", fmt.Sprintf("%s from %x: %v", p.Type, b, pn), bytesCase{b}) {
						t.Errorf("%s from %x: %v", p.Type, b, pn)
						return
					}
				}
			}
		}
	}
	ev.Bulk("sweep/decoders-every-offset-every-byte", n, n)
}

// listener callback ----------------------------------------------------------------------------------

type rec struct{ n int }

func (r *rec) OnConnected() {}
func (r *rec) OnEvent(s *types.Status) {
	r.n++
	if msg := render.Panics(s); msg != "" {
		panic("RENDER: " + msg)
	}
}
func (r *rec) OnError(error) bool { r.n++; return r.n%2 == 0 } // true and false in turn: what the callback returns never crashes the listener

func checkListen(c replyCase) *rp.Fail {
	nt := false
	for _, b := range c.Script {
		if len(b) == 64 && (b[0] == 0x17 || b[0] == 0x19) {
			nt = true
		}
	}
	ev.Case("listener", nt, fmt.Sprint(c.Script))
	if ev.WantSample("listener") {
		ev.Sample("listener", fmt.Sprintf("%x", c.Script))
	}
	return inZone(c.PZ, func() *rp.Fail { return decideListen(c.Script) })
}

func decideListen(script [][]byte) *rp.Fail {
	u, d := hook.Mem(hook.ClientCfg{HasListen: true, ListenIP: [4]byte{127, 0, 0, 1}, ListenPort: 60001})
	r := &rec{}
	q := make(chan os.Signal, 2)
	done := make(chan error, 1)
	var listenPanic any
	go func() {
		defer func() {
			if p := recover(); p != nil {
				listenPanic = p
				done <- nil
			}
		}()
		done <- u.Listen(r, q)
	}()
	for i := 0; i < 20000; i++ {
		if pn := try(func() { d.Push(nil) }); pn == nil {
			break
		}
		time.Sleep(20 * time.Microsecond)
	}
	var fail *rp.Fail
	for _, b := range script {
		if pn := try(func() { d.Push(b) }); pn != nil {
			fail = rp.Failf("uhppote.Listen/panic", "listener panicked on datagram %x: %v", b, pn)
			break
		}
	}
	// the stop is signalled in every way the channel allows: closed, one signal, two signals in a row
	total := 0
	for _, b := range script {
		total += len(b)
	}
	how := [][]os.Signal{nil, {syscall.SIGINT}, {syscall.SIGHUP, syscall.SIGTERM}, {syscall.SIGTERM, syscall.SIGINT}, {syscall.SIGHUP}, {syscall.SIGUSR1, syscall.SIGHUP}}[total%6]
	if how == nil {
		close(q)
	}
	for _, sig := range how {
		q <- sig
	}
	select {
	case <-done:
	case <-time.After(5 * time.Second):
		if how != nil {
			close(q)
		}
		if fail == nil {
			fail = rp.Failf("uhppote.Listen/hang", "Listen has not returned 5 s after the signal(s) %v", how)
		}
		<-done
	}
	if listenPanic != nil && fail == nil {
		fail = rp.Failf("uhppote.Listen/panic", "Listen panicked when it was signalled with %v: %v", how, listenPanic)
	}
	return fail
}

func genListen(t *rapid.T) replyCase {
	c := replyCase{Op: "Listen", PZ: gen.ProcessZone(t, "process.zone")}
	n := rapid.IntRange(1, 4).Draw(t, "datagrams")
	for i := 0; i < n; i++ {
		var b []byte
		switch rapid.IntRange(0, 4).Draw(t, "kind") {
		case 0:
			b = genBytes(t).B
		case 1:
			b = gen.Payload(t, spec.EventLayout, 0x17, serial, rapid.IntRange(0, 2).Draw(t, "nbad"), true)
		default:
			b = make([]byte, 64)
			spec.Header(b, rapid.SampledFrom([]byte{0x17, 0x19}).Draw(t, "som"), 0x20, gen.U32(t, "serial"))
			fillRandom(t, b, 8)
		}
		c.Script = append(c.Script, b)
	}
	return c
}

// hostile arguments ----------------------------------------------------------------------------------

func genArgs(t *rapid.T) api.Case {
	op := gen.Op(t, false)
	cs := gen.Call(t, op)
	c, v := &cs.Call, &cs.V
	if rapid.IntRange(0, 9).Draw(t, "serial0") == 0 {
		c.Serial = 0
	}
	// every argument slot gets a chance of a hostile representation
	if rapid.Bool().Draw(t, "nilmaps") {
		v.DoorsNil, v.WeekdaysNil, v.ReadersNil = rapid.Bool().Draw(t, "a"), rapid.Bool().Draw(t, "b"), rapid.Bool().Draw(t, "c")
		v.SegmentsNil = rapid.IntRange(0, 3).Draw(t, "d") == 0
	}
	if rapid.IntRange(0, 2).Draw(t, "ips") == 0 {
		pick := func() []byte {
			return rapid.SampledFrom([][]byte{nil, {}, {1}, {1, 2, 3}, {1, 2, 3, 4}, {1, 2, 3, 4, 5}, make([]byte, 15), make([]byte, 16), make([]byte, 17), make([]byte, 255),
				{0, 0, 0, 0, 0, 0, 0, 0, 0, 0, 0xff, 0xff, 9, 8, 7, 6}}).Draw(t, "ip")
		}
		v.RawIPs = [][]byte{pick(), pick(), pick()}
	}
	if rapid.IntRange(0, 2).Draw(t, "listener") == 0 {
		v.ListenerRaw = rapid.SampledFrom([]string{"invalid", "0.0.0.0:0", "[::]:0", "[::1]:1", "[fe80::1%eth0]:60001", "[::ffff:1.2.3.4]:5", "255.255.255.255:65535"}).Draw(t, "listener.raw")
	}
	ext := []string{"", "", "zero", "y10000", "negative", "max", "min"}
	v.ExtremeDate = [2]string{rapid.SampledFrom(ext).Draw(t, "from.extreme"), rapid.SampledFrom(ext).Draw(t, "to.extreme")}
	v.ExtremeTime = rapid.SampledFrom(ext).Draw(t, "time.extreme")
	if rapid.IntRange(0, 2).Draw(t, "enums") == 0 {
		c.State, c.Task, c.Interlock, c.Door = gen.U8(t, "state"), gen.U8(t, "task"), gen.U8(t, "interlock"), gen.U8(t, "door")
		v.Formats = rapid.SliceOfN(rapid.Uint8(), 0, 4).Draw(t, "formats")
	}
	if rapid.IntRange(0, 3).Draw(t, "pin") == 0 {
		c.PIN = gen.U32(t, "pin")
	}
	if rapid.IntRange(0, 3).Draw(t, "hhmm") == 0 {
		for i := range c.Segments {
			c.Segments[i] = spec.HM{H: rapid.IntRange(-100, 1000).Draw(t, "h"), M: rapid.IntRange(-100, 1000).Draw(t, "m")}
		}
		c.Start = spec.HM{H: rapid.IntRange(-100, 1000).Draw(t, "h"), M: rapid.IntRange(-100, 1000).Draw(t, "m")}
	}
	if rapid.IntRange(0, 3).Draw(t, "missing") == 0 {
		v.MissingSegments = rapid.SliceOfN(rapid.Uint8Range(0, 5), 0, 3).Draw(t, "missing.segments")
	}
	return cs
}

func checkArgs(cs api.Case) *rp.Fail {
	v := cs.V
	nt := v.DoorsNil || v.WeekdaysNil || v.ReadersNil || v.SegmentsNil || v.RawIPs != nil || v.ListenerRaw != "" || v.ExtremeDate[0] != "" || v.ExtremeDate[1] != "" || v.ExtremeTime != "" || len(v.Formats) > 0 || cs.Call.Serial == 0
	class := "args/" + cs.Call.Op
	ev.Case(class, nt, fmt.Sprintf("%+v", cs))
	if ev.WantSample(class) {
		ev.Sample(class, cs)
	}
	for route := 0; route < 3; route++ {
		u, d := hook.Mem(cfgFor(route, cs.Call.Serial))
		if l, ok := spec.Responses[cs.Call.Op]; ok {
			b := make([]byte, 64)
			spec.Header(b, 0x17, l.Code, cs.Call.Serial)
			d.Reset(b)
		}
		res := api.Invoke(u, cs)
		if res.Panic != nil {
			return rp.Failf("uhppote."+cs.Call.Op+"/argument-panic", "%s panicked on its arguments: %v", cs.Call.Op, res.Panic)
		}
		if res.Err == nil && res.Value != nil {
			if msg := render.Panics(res.Value); msg != "" {
				return rp.Failf("render/"+cs.Call.Op, "%s result cannot be rendered: %s", cs.Call.Op, msg)
			}
		}
	}
	return nil
}

// hostile client configurations: the constructors and helper methods must not panic either
type cfgCase struct {
	Cfg hook.ClientCfg `json:"cfg"`
	Nil bool           `json:"nil_devices"`
}

func checkCfg(c cfgCase) *rp.Fail {
	ev.Case("config", true, fmt.Sprintf("%+v", c))
	if pn := try(func() {
		var u uhppote.IUHPPOTE
		if c.Nil {
			c.Cfg.Devices = nil
		}
		u, d := hook.Mem(c.Cfg)
		d.Reset()
		u.DeviceList()
		u.ListenAddrList()
		u.GetDevices()
		u.GetDevice(1)
		for _, dev := range c.Cfg.Devices_() {
			dev.Clone()
			dev.IsValid()
			d.Reset()
			u.GetTime(dev.DeviceID)
		}
		var nd *uhppote.Device
		nd.ID()
	}); pn != nil {
		return rp.Failf("uhppote.NewUHPPOTE/config-panic", "client built from %+v panicked: %v", c, pn)
	}
	return nil
}

func genCfg(t *rapid.T) cfgCase {
	c := cfgCase{Nil: rapid.IntRange(0, 5).Draw(t, "nil") == 0}
	c.Cfg = hook.ClientCfg{BindIP: gen.IPv4(t, "bind"), BindPort: uint16(rapid.IntRange(0, 65535).Draw(t, "bport")), HasBroadcast: rapid.Bool().Draw(t, "hb"), BroadcastIP: gen.IPv4(t, "bc"),
		BroadcastPort: uint16(rapid.IntRange(0, 65535).Draw(t, "bcport")), HasListen: rapid.Bool().Draw(t, "hl"), ListenIP: gen.IPv4(t, "l"), ListenPort: uint16(rapid.IntRange(0, 65535).Draw(t, "lport"))}
	n := rapid.IntRange(0, 4).Draw(t, "devices")
	for i := 0; i < n; i++ {
		c.Cfg.Devices = append(c.Cfg.Devices, hook.DeviceCfg{Name: rapid.SampledFrom([]string{"", "A", "  spaced   name ", "ünï"}).Draw(t, "name"), Serial: gen.U32(t, "serial"), HasAddr: rapid.Bool().Draw(t, "ha"),
			IP: gen.IPv4(t, "ip"), Port: uint16(rapid.IntRange(0, 65535).Draw(t, "port")), Protocol: rapid.SampledFrom([]string{"", "udp", "tcp", "any", "TCP", "\x00"}).Draw(t, "proto"), ViaNew: rapid.Bool().Draw(t, "vianew"), TZ: gen.DeviceTZ(t, "tz"),
			RawIP: rapid.SampledFrom([]string{"", "", "", "::1", "fe80::1", "2001:db8::68", "::ffff:10.0.0.1", "::ffff:0.0.0.0", "::", "fe80::1%eth0", "::192.168.1.100"}).Draw(t, "rawip")})
	}
	c.Cfg.Debug = gen.Debug(t, "debug")
	return c
}

// slow consumer at shutdown: the application's event callback is still busy with one event while a second one is already
// being handed over and the stop signal is given; it finishes `hold` later. Nothing may panic (a panic in the handing-over
// goroutine is caught here; one in a library goroutine kills the process, which the driver reports).
type slowCase struct {
	HoldMs int `json:"hold_ms"`
}

type blockRec struct {
	once    sync.Once
	entered chan struct{}
	release chan struct{}
}

func (r *blockRec) OnConnected() {}
func (r *blockRec) OnEvent(s *types.Status) {
	first := false
	r.once.Do(func() { first = true })
	if first {
		close(r.entered)
		<-r.release
	}
}
func (r *blockRec) OnError(error) bool { return true }

func checkSlow(c slowCase) *rp.Fail {
	ev.Case("listener/slow-consumer-at-stop", true, fmt.Sprint(c))
	u, d := hook.Mem(hook.ClientCfg{HasListen: true, ListenIP: [4]byte{127, 0, 0, 1}, ListenPort: 60001})
	r := &blockRec{entered: make(chan struct{}), release: make(chan struct{})}
	q := make(chan os.Signal)
	done := make(chan error, 1)
	go func() { done <- u.Listen(r, q) }()
	for i := 0; i < 20000; i++ {
		if pn := try(func() { d.Push(nil) }); pn == nil {
			break
		}
		time.Sleep(20 * time.Microsecond)
	}
	evt := func(ix byte) []byte {
		b := make([]byte, 64)
		spec.Header(b, 0x17, 0x20, serial)
		b[8], b[12] = ix, 1
		return b
	}
	panics := make(chan any, 2)
	push := func(b []byte) { go func() { panics <- try(func() { d.Push(b) }) }() }
	push(evt(1))
	select {
	case <-r.entered:
	case <-time.After(5 * time.Second):
		return rp.Failf("uhppote.Listen/no-event", "no event callback within 5 s")
	}
	push(evt(2)) // blocks in the library's handler: the dispatcher is busy
	time.Sleep(5 * time.Millisecond)
	close(q)
	time.Sleep(time.Duration(c.HoldMs) * time.Millisecond)
	close(r.release)
	for i := 0; i < 2; i++ {
		select {
		case pn := <-panics:
			if pn != nil {
				return rp.Failf("uhppote.Listen/panic-at-shutdown", "stop signalled while the event callback was busy for %d ms and another event was being handed over: %v", c.HoldMs, pn)
			}
		case <-time.After(8 * time.Second):
			return rp.Failf("uhppote.Listen/stuck-at-shutdown", "event hand-over still blocked 8 s after the callback returned")
		}
	}
	select {
	case <-done:
	case <-time.After(8 * time.Second):
		return rp.Failf("uhppote.Listen/does-not-stop", "Listen has not returned 8 s after the callback returned")
	}
	return nil
}

func props() []rp.Prop {
	n := ev.Pick(30000, 3000000) / ev.Shards()
	return []rp.Prop{
		rp.P[bytesCase]{Name: "bytes", Checks: n, Gen: genBytes, Check: checkBytes},
		rp.P[replyCase]{Name: "api-reply", Checks: n, Gen: genReply, Sweep: sweepReplies, Check: checkReply},
		rp.P[replyCase]{Name: "listener", Checks: n / 6, Gen: genListen, Check: checkListen},
		rp.P[api.Case]{Name: "args", Checks: n, Gen: genArgs, Check: checkArgs},
		rp.P[cfgCase]{Name: "config", Checks: n / 10, Gen: genCfg, Check: checkCfg},
		rp.P[localCase]{Name: "local-layouts", Sweep: sweepLocal, Check: checkLocal},
		rp.P[keywordText]{Name: "keyword-text", Checks: n / 4, Gen: genKeywordText, Check: checkKeywordText},
		rp.P[dayText]{Name: "weekday-text", Checks: n / 8, Gen: genDayText, Check: checkDayText},
		rp.P[addrText]{Name: "address-text", Checks: n / 4, Gen: genAddrText, Check: checkAddrText},
		cold.Prop{Name: "aged-process", Scenario: "aged-process", N: map[bool]int{true: ev.Pick(1, 3), false: 0}[ev.Shard() == 0 || ev.Thorough() && ev.Shard() < 4]},
		rp.P[faultSeq]{Name: "fault-sequences", Checks: ev.Pick(40, 4000) / ev.Shards(), Gen: genFaultSeq, Sweep: sweepFaultSeq, Check: checkFaultSeq},
		rp.P[faultCase]{Name: "network-faults", Checks: ev.Pick(600, 40000) / ev.Shards(), Gen: genFault, Check: checkFault},
		rp.P[slowCase]{Name: "slow-consumer", Sweep: func(yield func(slowCase) bool) {
			for _, h := range []int{0, 40, 3200} {
				if (h < 1000 || ev.Shard() == 0) && !yield(slowCase{h}) {
					return
				}
			}
		}, Check: checkSlow},
	}
}

func TestC04(t *testing.T)    { rp.RunAll(t, props()...) }
func TestReplay(t *testing.T) { rp.ReplayAll(t, props()...) }

func fuzzing(f *testing.F) {
	if os.Getenv("VERIF_FUZZ") == "" {
		f.Skip("native fuzzing runs in the thorough tier only")
	}
}

func seedCorpus(f *testing.F, withOp bool) {
	for i, p := range msgs.All() {
		b := make([]byte, 64)
		b[0], b[1] = 0x17, p.Code
		spec.PutLE32(b[4:], serial)
		for _, fillv := range []byte{0x00, 0x01, 0x99, 0xa0, 0xff} {
			c := append([]byte(nil), b...)
			for j := 8; j < 64; j++ {
				c[j] = fillv
			}
			if withOp {
				f.Add(c, uint8(i))
			} else {
				f.Add(c)
			}
		}
	}
	for _, n := range []int{0, 1, 63, 65, 2048} {
		if withOp {
			f.Add(make([]byte, n), uint8(n))
		} else {
			f.Add(make([]byte, n))
		}
	}
}

func FuzzUnmarshalAll(f *testing.F) {
	fuzzing(f)
	seedCorpus(f, false)
	f.Fuzz(func(t *testing.T, b []byte) {
		if x := decodeAll(b); x != nil {
			t.Fatalf("[%s] %s", x.Fingerprint, x.Msg)
		}
	})
}

func FuzzAPIReply(f *testing.F) {
	fuzzing(f)
	seedCorpus(f, true)
	f.Fuzz(func(t *testing.T, b []byte, op uint8) {
		name := spec.Ops[int(op)%len(spec.Ops)]
		// make the datagram pass the length/serial filter most of the time so that decoders run
		if len(b) >= 8 && op&0x80 == 0 {
			if l, ok := spec.Responses[name]; ok {
				b = append([]byte(nil), b...)
				spec.Header(b, b[0], l.Code, serial)
				if b[0] != 0x19 {
					b[0] = 0x17
				}
			}
		}
		if x := decideReply(replyCase{Op: name, Route: int(op>>5) % 3, Script: [][]byte{b}}); x != nil {
			t.Fatalf("[%s] %s", x.Fingerprint, x.Msg)
		}
	})
}

func FuzzListenHandler(f *testing.F) {
	fuzzing(f)
	seedCorpus(f, false)
	f.Fuzz(func(t *testing.T, b []byte) {
		if x := decideListen([][]byte{b}); x != nil {
			t.Fatalf("[%s] %s", x.Fingerprint, x.Msg)
		}
	})
}
