package c04

import (
	"fmt"

	"pgregory.net/rapid"

	"verif/harness/api"
	"verif/harness/ev"
	"verif/harness/farm"
	"verif/harness/hook"
	"verif/harness/rp"
	"verif/harness/spec"
)

// Different kinds of network trouble met by ONE client, one after the other: a controller that stays silent (a timeout), one
// whose TCP end reads the request and closes without a word (end of file), one that refuses the connection, one whose UDP
// port is closed (ICMP), one that answers. Whatever the client remembers of the last failure, the next call fails - or
// succeeds - cleanly.
type faultSeq struct {
	Seq   []int `json:"sequence"` // 0 silent udp, 1 tcp closes, 2 tcp refused, 3 udp port closed, 4 healthy udp, 5 healthy tcp, 6 silent broadcast
	Debug bool  `json:"debug,omitempty"`
}

func checkFaultSeq(c faultSeq) *rp.Fail {
	kinds := map[int]bool{}
	for _, k := range c.Seq {
		kinds[k] = true
	}
	ev.Case("fault-sequence-on-one-client", len(kinds) >= 2, fmt.Sprint(c))
	f := farm.New()
	defer f.Close()
	reply := func(req []byte) []byte {
		if len(req) != 64 {
			return nil
		}
		return spec.Sample(spec.Responses["GetTime"], 0x17, spec.LE32(req[4:]), 1)
	}
	silent, err1 := f.UDP([4]byte{127, 0, 5, 11}, 0, farm.Script(func(r farm.Received) []farm.Action { return nil }))
	closes, err2 := f.TCP([4]byte{127, 0, 5, 12}, 0, farm.ScriptTCP(func(r farm.Received) []farm.Action { return []farm.Action{{Close: true}} }))
	okUDP, err3 := f.UDP([4]byte{127, 0, 5, 15}, 0, farm.Script(func(r farm.Received) []farm.Action { return []farm.Action{{Data: reply(r.Data)}} }))
	okTCP, err4 := f.TCP([4]byte{127, 0, 5, 16}, 0, farm.ScriptTCP(func(r farm.Received) []farm.Action { return []farm.Action{{Data: reply(r.Data)}} }))
	refusedTCP, err5 := farm.FreePort([4]byte{127, 0, 5, 13})
	closedUDP, err6 := farm.FreePort([4]byte{127, 0, 5, 14})
	bc, err7 := f.UDP([4]byte{127, 0, 5, 17}, 0, farm.Script(func(r farm.Received) []farm.Action { return nil }))
	for _, err := range []error{err1, err2, err3, err4, err5, err6, err7} {
		if err != nil {
			return nil
		}
	}
	dev := func(i int, ip byte, port uint16, proto string) hook.DeviceCfg {
		return hook.DeviceCfg{Serial: uint32(405419896 + i), HasAddr: true, IP: [4]byte{127, 0, 5, ip}, Port: port, Protocol: proto}
	}
	cfg := hook.ClientCfg{TimeoutMs: 100, BindIP: [4]byte{127, 0, 0, 1}, Debug: c.Debug, HasBroadcast: true, BroadcastIP: [4]byte{127, 0, 5, 17}, BroadcastPort: bc.Addr.Port(),
		Devices: []hook.DeviceCfg{dev(0, 11, silent.Addr.Port(), "udp"), dev(1, 12, closes.Addr.Port(), "tcp"), dev(2, 13, refusedTCP, "tcp"), dev(3, 14, closedUDP, "udp"), dev(4, 15, okUDP.Addr.Port(), "udp"), dev(5, 16, okTCP.Addr.Port(), "tcp")}}
	u := hook.Real(cfg)
	names := []string{"a silent controller (udp)", "a controller that reads the request and closes the connection (tcp)", "a controller that refuses the connection (tcp)", "a closed port (udp)", "a healthy controller (udp)", "a healthy controller (tcp)", "a silent controller (broadcast)"}
	for step, k := range c.Seq {
		res := api.Invoke(u, api.Case{Call: spec.Call{Op: "GetTime", Serial: uint32(405419896 + k)}})
		if res.Panic != nil {
			return rp.Failf("fault-sequence/panic", "call %d of %v on one client - to %s - panicked: %v", step+1, c.Seq, names[k], res.Panic)
		}
		if (k == 4 || k == 5) != (res.Err == nil) {
			return rp.Failf("fault-sequence/wrong-outcome", "call %d of %v on one client - to %s - returned %v", step+1, c.Seq, names[k], res.Err)
		}
	}
	return nil
}

func genFaultSeq(t *rapid.T) faultSeq {
	return faultSeq{Seq: rapid.SliceOfN(rapid.IntRange(0, 6), 2, 5).Draw(t, "sequence"), Debug: rapid.IntRange(0, 3).Draw(t, "debug") == 0}
}

func sweepFaultSeq(yield func(faultSeq) bool) {
	i := 0
	for a := 0; a < 7; a++ {
		for b := 0; b < 7; b++ {
			i++
			if a != b && ev.Mine(i) && (ev.Thorough() || (a+b+int(ev.Seed()))%2 == 0) && !yield(faultSeq{Seq: []int{a, b, a}}) {
				return
			}
		}
	}
}
