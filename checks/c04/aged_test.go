package c04

import (
	"fmt"
	"os"
	"sync"
	"syscall"
	"testing"
	"time"

	"verif/harness/api"
	"verif/harness/cold"
	"verif/harness/farm"
	"verif/harness/hook"
	"verif/harness/spec"
)

// TestColdChild (fresh child process only, see harness/cold), scenario 'aged-process': a daemon that has been up for months.
// It has started more than ten million goroutines (goroutine ids - never reused - have eight digits), its next descriptors are
// numbered above 1024, and only now does it talk to a controller, with debug output on and off, on all three paths. Nothing the
// process has lived through makes a call on valid arguments against a healthy controller panic or fail.
func TestColdChild(t *testing.T) {
	if cold.Scenario() != "aged-process" {
		t.Skip("cold-start child only")
	}
	// 1. goroutine ids beyond 10^7 (and, for every third child, beyond 2^24)
	burn := 10_200_000
	if cold.Index()%3 == 2 {
		burn = 17_000_000
	}
	var wg sync.WaitGroup
	for done := 0; done < burn; done += 20000 {
		wg.Add(20000)
		for j := 0; j < 20000; j++ {
			go wg.Done()
		}
		wg.Wait()
	}
	// 2. descriptor numbers beyond 1024
	var lim syscall.Rlimit
	if syscall.Getrlimit(syscall.RLIMIT_NOFILE, &lim) == nil && lim.Cur < 4096 && lim.Max >= 4096 {
		lim.Cur = 4096
		syscall.Setrlimit(syscall.RLIMIT_NOFILE, &lim)
	}
	var keep []*os.File
	for i := 0; i < 1100; i++ {
		if f, err := os.Open(os.DevNull); err == nil {
			keep = append(keep, f)
		}
	}
	defer func() {
		for _, f := range keep {
			f.Close()
		}
	}()
	// 3. the first conversations of this process
	f := farm.New()
	defer f.Close()
	serial := uint32(405419896)
	answer := func(req []byte) []byte {
		if len(req) != 64 {
			return nil
		}
		for op, l := range spec.Requests {
			if l.Code == req[1] {
				if r, ok := spec.Responses[op]; ok {
					return spec.Sample(r, 0x17, spec.LE32(req[4:]), 3)
				}
			}
		}
		return nil
	}
	udp, err1 := f.UDP([4]byte{127, 0, 9, 1}, 0, farm.Script(func(r farm.Received) []farm.Action { return []farm.Action{{Data: answer(r.Data)}} }))
	tcp, err2 := f.TCP([4]byte{127, 0, 9, 2}, 0, farm.ScriptTCP(func(r farm.Received) []farm.Action { return []farm.Action{{Data: answer(r.Data)}} }))
	bc, err3 := f.UDP([4]byte{127, 0, 9, 3}, 0, farm.Script(func(r farm.Received) []farm.Action {
		if len(r.Data) == 64 && r.Data[1] == 0x94 && spec.LE32(r.Data[4:]) == 0 {
			return []farm.Action{{Data: spec.Sample(spec.Responses["GetDevice"], 0x17, serial+2, 1)}}
		}
		return []farm.Action{{Data: answer(r.Data)}}
	}))
	if err1 != nil || err2 != nil || err3 != nil {
		cold.Done(0)
		return
	}
	judged := 0
	for _, debug := range []bool{true, false} {
		cfg := hook.ClientCfg{TimeoutMs: 4000, BindIP: [4]byte{127, 0, 0, 1}, Debug: debug, HasBroadcast: true, BroadcastIP: [4]byte{127, 0, 9, 3}, BroadcastPort: bc.Addr.Port(),
			Devices: []hook.DeviceCfg{{Serial: serial, HasAddr: true, IP: [4]byte{127, 0, 9, 1}, Port: udp.Addr.Port(), Protocol: "udp"}, {Serial: serial + 1, HasAddr: true, IP: [4]byte{127, 0, 9, 2}, Port: tcp.Addr.Port(), Protocol: "tcp"}}}
		u := hook.Real(cfg)
		for i, path := range []string{"udp", "tcp", "broadcast"} {
			for _, op := range []string{"GetTime", "GetStatus", "OpenDoor", "GetDevices"} {
				if op == "GetDevices" && path != "broadcast" {
					continue
				}
				cs := api.Case{Call: spec.Call{Op: op, Serial: serial + uint32(i), Door: 1}}
				done := make(chan api.Result, 1)
				go func() { // (a goroutine of this old process: its id has eight digits)
					if cs.Call.Op == "GetDevices" {
						var r api.Result
						r.Panic = try(func() { _, r.Err = u.GetDevices() })
						done <- r
						return
					}
					done <- api.Invoke(u, cs)
				}()
				var res api.Result
				select {
				case res = <-done:
				case <-time.After(60 * time.Second):
					res.Err = fmt.Errorf("no result after 60 s")
				}
				judged++
				what := fmt.Sprintf("%s over %s (debug %v) in a process that has started %d goroutines and has %d descriptors open", op, path, debug, burn, len(keep))
				if res.Panic != nil {
					cold.Report("aged-process/panic", what+" panicked: "+fmt.Sprint(res.Panic), cs)
				} else if res.Err != nil {
					cold.Report("aged-process/call-failed", what+" failed although the controller answered at once: "+res.Err.Error(), cs)
				}
			}
		}
	}
	cold.Done(judged)
}
