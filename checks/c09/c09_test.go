// C09 - every call ends within its timeout and releases its socket and goroutines.
package c09

import (
	"fmt"
	"runtime/debug"
	"sync"
	"sync/atomic"
	"testing"
	"time"

	"pgregory.net/rapid"

	"verif/harness/api"
	"verif/harness/ev"
	"verif/harness/farm"
	"verif/harness/gen"
	"verif/harness/hook"
	"verif/harness/rp"
	"verif/harness/spec"
)

func TestMain(m *testing.M) {
	time.Local = time.UTC
	ev.Describe("two endpoint scenarios: a TCP connect that completes only on the SYN retransmission (about 1 s) with a reply before / after the deadline of the whole call, and a broadcast to an address that answers with ICMP unreachable while the addressed controller replies a little later; batches of 4..16 calls (all operations) on one client against the loopback farm, each call with a drawn delivery path (broadcast, connected UDP, TCP) and network behaviour: silence, genuine reply after a drawn fraction 0..0.8 of the timeout, flood of irrelevant datagrams that lasts 4x the timeout (with or without a genuine reply in the middle), TCP accept-and-stall, TCP reset, TCP clean close without a reply (EOF), part of a reply then close, a reply that trickles in a few bytes every 0.7 x timeout, refused port, a dense stream of datagrams that starts just before the deadline and ends just after it (discovery: well-formed replies); optionally a fixed bind port, and a closing group of 2..4 concurrent calls that have to queue for it while their controllers answer a drawn fraction of the timeout after being asked. Oracle per call: it returns (watchdog: timeout + 5 s = hang); elapsed <= 1.5 x timeout + 200 ms (k x timeout for the k-th queued call); an error exactly when no acceptable reply came; a reply sent before 0.8 x timeout after the request was seen is accepted (timeouts 80..250 ms, now and then 1.25-1.4 s with replies later than one second). Per batch (GC disabled): socket descriptors in /proc/self/fd and goroutines with a uhppote-core frame are, after a settling poll of <= 2 s, what they were before. Non-trivial = call that had to wait for its deadline or met a fault; distinct = distinct batch.",
		"time is never a verdict on its own: a failed batch is re-run with every delay and timeout scaled x4 and again x16; only a failure that persists at every scale counts, otherwise the batch is 'timing inconclusive'",
		"overruns smaller than the slack (0.5 x timeout + 200 ms) are invisible")
	ev.Main(m, "C09")
}

type callSpec struct {
	Op        string `json:"op"`
	Path      int    `json:"path"` // 0 broadcast, 1 udp, 2 tcp
	Behaviour string `json:"behaviour"`
	Percent   int    `json:"percent"` // reply delay as a percentage of the timeout
}

type batch struct {
	TimeoutMs int        `json:"timeout_ms"`
	FixedPort bool       `json:"fixed_port"`
	Calls     []callSpec `json:"calls"`
	Group     []callSpec `json:"group,omitempty"` // concurrent calls at the end (queue for the fixed port)
}

func reply(req []byte) []byte {
	if len(req) != 64 {
		return nil
	}
	for _, op := range spec.ReplyOps {
		if l := spec.Responses[op]; l.Code == req[1] {
			b := make([]byte, 64)
			spec.Header(b, 0x17, l.Code, spec.LE32(req[4:]))
			switch req[1] {
			case 0x5a:
				copy(b[8:12], req[8:12])
			case 0x98:
				b[8] = req[8]
			}
			return b
		}
	}
	return nil
}

func stray(serial uint32, code byte) []byte {
	b := make([]byte, 64)
	spec.Header(b, 0x17, code, serial^0x00010000)
	return b
}

func expectSuccess(c callSpec) bool {
	if c.Op == "SetAddress" {
		// nothing to wait for; only a TCP connection that cannot be established (refused / unanswered) fails
		return !(c.Path == 2 && (c.Behaviour == "refused" || c.Behaviour == "blackhole"))
	}
	switch c.Behaviour {
	case "reply", "flood+reply":
		return true
	}
	return false
}

type result struct {
	spec    callSpec
	err     error
	panic   any
	elapsed time.Duration
	hung    bool
	queued  int // position in the fixed-port queue (0 = not queued)
}

func call(op string, serial uint32) api.Case {
	c := spec.Call{Op: op, Serial: serial, Card: 8165538, Profile: 29, Index: 3, Door: 1, From: spec.Civil{Y: 2024, M: 1, D: 1}, To: spec.Civil{Y: 2024, M: 12, D: 31},
		Address: [4]byte{192, 168, 1, 100}, Mask: [4]byte{255, 255, 255, 0}, Gateway: [4]byte{192, 168, 1, 1}}
	return api.Case{Call: c, V: api.Variant{WeekPresent: [7]bool{true, true, true, true, true, true, true}}}
}

// runBatch executes the batch with all times multiplied by scale.
func runBatch(b batch, scale int) *rp.Fail {
	T := time.Duration(b.TimeoutMs*scale) * time.Millisecond
	f := farm.New()
	defer f.Close()

	all := append(append([]callSpec{}, b.Calls...), b.Group...)
	behaviour := map[uint32]callSpec{}
	var mu sync.Mutex
	// floods and streams end shortly after the call they were aimed at has returned (so that they do not spill into the
	// next call, which may use the same fixed bind port): returned[serial] is set 2 ms after the call came back
	returned := map[uint32]*atomic.Bool{}
	stopFor := func(serial uint32) func() bool {
		mu.Lock()
		defer mu.Unlock()
		if returned[serial] == nil {
			returned[serial] = &atomic.Bool{}
		}
		f := returned[serial]
		return f.Load
	}
	actionsFor := func(serial uint32, req []byte) []farm.Action {
		mu.Lock()
		c, ok := behaviour[serial]
		mu.Unlock()
		if !ok {
			return nil
		}
		d := T * time.Duration(c.Percent) / 100
		switch c.Behaviour {
		case "reply":
			return []farm.Action{{Delay: d, Data: reply(req)}}
		case "empty": // the controller's only answer is a datagram of length zero (then silence): no acceptable reply has arrived
			return []farm.Action{{Delay: d, Data: []byte{}}}
		case "stream": // replies (for discovery: well-formed get-device replies) arrive back to back from just before the
			// deadline until just after it - the collector must stop cleanly in the middle of the stream
			msg := reply(req)
			if serial == 0 {
				spec.PutLE32(msg[4:], 423187757)
			} else {
				msg = stray(serial, req[1])
			}
			return []farm.Action{{Delay: T * 90 / 100, Data: msg, RepeatFor: T * 20 / 100, Stop: stopFor(serial)}}
		case "flood", "flood+reply":
			var a []farm.Action
			step := T / 40
			if step < time.Millisecond {
				step = time.Millisecond
			}
			sent := false
			for at := time.Duration(0); at < 4*T; at += step {
				if c.Behaviour == "flood+reply" && !sent && at >= d {
					a = append(a, farm.Action{Delay: step, Data: reply(req)})
					sent = true
					break // the call returns; no need to keep flooding
				}
				a = append(a, farm.Action{Delay: step, Data: stray(serial, req[1]), Stop: stopFor(serial)})
			}
			return a
		}
		return nil // silence
	}
	udpHandler := farm.Script(func(r farm.Received) []farm.Action {
		if len(r.Data) != 64 {
			return nil
		}
		return actionsFor(spec.LE32(r.Data[4:]), r.Data)
	})
	tcpHandler := func(e *farm.TCP, r farm.Received) {
		if len(r.Data) != 64 {
			r.Conn.Close()
			return
		}
		serial := spec.LE32(r.Data[4:])
		mu.Lock()
		c := behaviour[serial]
		mu.Unlock()
		switch c.Behaviour {
		case "reply":
			e.PlayTCP(r, []farm.Action{{Delay: T * time.Duration(c.Percent) / 100, Data: reply(r.Data)}})
		case "reset":
			e.PlayTCP(r, []farm.Action{{Delay: T * time.Duration(c.Percent) / 100, Reset: true}})
		case "close": // reads the request, then closes the connection cleanly without a reply (the client sees EOF)
			e.PlayTCP(r, []farm.Action{{Delay: T * time.Duration(c.Percent) / 100, Close: true}})
		case "half": // part of a reply, then a clean close
			part := reply(r.Data)
			if part == nil {
				part = stray(serial, r.Data[1])
			}
			e.PlayTCP(r, []farm.Action{{Data: part[:10]}, {Delay: T * time.Duration(c.Percent) / 100, Close: true}})
		case "trickle": // the reply dribbles in, a few bytes every 0.7 x timeout, and is not complete before 3 x timeout
			var a []farm.Action
			full := reply(r.Data)
			if full == nil {
				full = stray(serial, r.Data[1])
			}
			for i := 0; i < 5; i++ {
				a = append(a, farm.Action{Delay: T * 7 / 10, Data: full[8*i : 8*i+8]})
			}
			e.PlayTCP(r, a)
		default: // stall: keep the connection open and say nothing until the client gives up
			e.PlayTCP(r, nil)
		}
	}
	bcast, err := f.UDP([4]byte{127, 0, 2, 1}, 0, udpHandler)
	if err != nil {
		ev.HarnessError("farm: %v", err)
		return nil
	}
	cfg := hook.ClientCfg{TimeoutMs: b.TimeoutMs * scale, BindIP: [4]byte{127, 0, 0, 1}, HasBroadcast: true, BroadcastIP: [4]byte{127, 0, 2, 1}, BroadcastPort: bcast.Addr.Port()}
	if b.FixedPort {
		p, err := farm.FreePort(cfg.BindIP)
		if err != nil {
			ev.HarnessError("no free port: %v", err)
			return nil
		}
		cfg.BindPort = p
	}
	serials := make([]uint32, len(all))
	for i, c := range all {
		serial := uint32(1000 + i)
		serials[i] = serial
		behaviour[serial] = c
		ip := [4]byte{127, 0, 1, byte(10 + i)}
		switch c.Path {
		case 1:
			if c.Behaviour == "refused" {
				p, _ := farm.FreePort(ip)
				cfg.Devices = append(cfg.Devices, hook.DeviceCfg{Serial: serial, HasAddr: true, IP: ip, Port: p, Protocol: "udp"})
			} else {
				e, err := f.UDP(ip, 0, udpHandler)
				if err != nil {
					ev.HarnessError("farm: %v", err)
					return nil
				}
				cfg.Devices = append(cfg.Devices, hook.DeviceCfg{Serial: serial, HasAddr: true, IP: ip, Port: e.Addr.Port(), Protocol: "udp"})
			}
		case 2:
			if c.Behaviour == "refused" {
				p, _ := farm.FreePort(ip)
				cfg.Devices = append(cfg.Devices, hook.DeviceCfg{Serial: serial, HasAddr: true, IP: ip, Port: p, Protocol: "tcp"})
			} else if c.Behaviour == "blackhole" {
				p, closer, ok := farm.Blackhole(ip)
				if !ok {
					ev.Excluded("TCP blackhole endpoint could not be produced", 1)
					p, _ = farm.FreePort(ip) // degrade to 'refused'
				} else {
					defer closer()
				}
				cfg.Devices = append(cfg.Devices, hook.DeviceCfg{Serial: serial, HasAddr: true, IP: ip, Port: p, Protocol: "tcp"})
			} else {
				e, err := f.TCP(ip, 0, tcpHandler)
				if err != nil {
					ev.HarnessError("farm: %v", err)
					return nil
				}
				cfg.Devices = append(cfg.Devices, hook.DeviceCfg{Serial: serial, HasAddr: true, IP: ip, Port: e.Addr.Port(), Protocol: "tcp"})
			}
		}
	}
	u := hook.Real(cfg)
	// a second client in the same process sharing the fixed port through the wildcard address
	cfgAny := cfg
	cfgAny.BindIP = [4]byte{0, 0, 0, 0}
	uAny := hook.Real(cfgAny)

	old := debug.SetGCPercent(-1)
	defer debug.SetGCPercent(old)
	time.Sleep(2 * time.Millisecond)
	socketsBefore := farm.Sockets()
	goroutinesBefore, _ := farm.LibraryGoroutines()

	one := func(i int, queued int) result {
		c := all[i]
		done := make(chan result, 1)
		started := time.Now()
		go func() {
			var r result
			r.spec, r.queued = c, queued
			client := u
			if queued > 0 && i%2 == 1 {
				client = uAny
			}
			if c.Op == "GetDevices" {
				mu.Lock()
				behaviour[0] = c // discovery requests carry serial number 0
				mu.Unlock()
				func() {
					defer func() { r.panic = recover() }()
					_, r.err = client.GetDevices()
				}()
			} else {
				res := api.Invoke(client, call(c.Op, serials[i]))
				r.err, r.panic = res.Err, res.Panic
			}
			r.elapsed = time.Since(started)
			if c.Behaviour == "stream" || c.Behaviour == "flood" {
				time.Sleep(2 * time.Millisecond) // the stream goes on for a moment after the call has returned, then stops
				key := serials[i]
				if c.Op == "GetDevices" {
					key = 0
				}
				stop := stopFor(key)
				_ = stop
				mu.Lock()
				returned[key].Store(true)
				mu.Unlock()
				time.Sleep(3 * time.Millisecond) // let what is in flight drain
				if c.Op == "GetDevices" {
					mu.Lock()
					returned[0] = nil // the next discovery gets a fresh flag
					mu.Unlock()
				}
			}
			done <- r
		}()
		k := time.Duration(1)
		if queued > 0 {
			k = time.Duration(queued)
		}
		select {
		case r := <-done:
			return r
		case <-time.After(k*T + 5*time.Second):
			return result{spec: c, hung: true, queued: queued, elapsed: time.Since(started)}
		}
	}
	judge := func(r result) *rp.Fail {
		site := fmt.Sprintf("%s/%s", []string{"broadcast", "udp", "tcp"}[r.spec.Path], r.spec.Behaviour)
		k := time.Duration(1)
		if r.queued > 0 {
			k = time.Duration(r.queued)
		}
		switch {
		case r.hung:
			return rp.Failf(site+"/hang", "%s has not returned %v after it was started (timeout %v)", r.spec.Op, r.elapsed, T)
		case r.panic != nil:
			return rp.Failf(site+"/panic", "%s panicked: %v", r.spec.Op, r.panic)
		case r.elapsed > k*T+T/2+200*time.Millisecond:
			return rp.Failf(site+"/overrun", "%s returned after %v; the timeout is %v (queue position %d)", r.spec.Op, r.elapsed, T, r.queued)
		}
		want := expectSuccess(r.spec)
		if r.spec.Op == "GetDevices" {
			want = true // discovery never fails on silence or noise
		}
		if want && r.err != nil {
			return rp.Failf(site+"/gave-up-early", "%s failed after %v (timeout %v) although its controller answered %d%% of the timeout after being asked: %v", r.spec.Op, r.elapsed, T, r.spec.Percent, r.err)
		}
		if !want && r.err == nil {
			return rp.Failf(site+"/success-without-reply", "%s succeeded although no acceptable reply arrived (%s)", r.spec.Op, r.spec.Behaviour)
		}
		return nil
	}
	for i := range b.Calls {
		if fail := judge(one(i, 0)); fail != nil {
			return fail
		}
	}
	if len(b.Group) > 0 {
		var wg sync.WaitGroup
		results := make([]result, len(b.Group))
		for j := range b.Group {
			wg.Add(1)
			go func(j int) {
				defer wg.Done()
				q := 0
				if b.FixedPort {
					q = len(b.Group) // any of them may be served last
				}
				results[j] = one(len(b.Calls)+j, q)
			}(j)
		}
		wg.Wait()
		for _, r := range results {
			if fail := judge(r); fail != nil {
				fail.Fingerprint = "group/" + fail.Fingerprint
				return fail
			}
		}
	}
	// resources: settle, then compare
	deadline := time.Now().Add(2*time.Second + 5*T)
	for {
		s := farm.Sockets()
		g, sample := farm.LibraryGoroutines()
		if s <= socketsBefore && g <= goroutinesBefore {
			break
		}
		if time.Now().After(deadline) {
			if s > socketsBefore {
				return rp.Failf("resources/socket-leak", "%d socket descriptors before the batch, %d after it settled", socketsBefore, s)
			}
			return rp.Failf("resources/goroutine-leak", "%d library goroutines before the batch, %d after it settled, e.g.\n%s", goroutinesBefore, g, sample)
		}
		time.Sleep(5 * time.Millisecond)
	}
	return nil
}

func check(b batch) *rp.Fail {
	nt := false
	for _, c := range append(append([]callSpec{}, b.Calls...), b.Group...) {
		if c.Behaviour != "reply" || c.Percent >= 30 {
			nt = true
		}
		ev.Class(fmt.Sprintf("call/%s/%s", []string{"broadcast", "udp", "tcp"}[c.Path], c.Behaviour), 1)
	}
	class := "batch/ephemeral-port"
	if b.FixedPort {
		class = "batch/fixed-port"
		if len(b.Group) > 0 {
			class = "batch/fixed-port-with-queue"
		}
	}
	ev.Case(class, nt, fmt.Sprintf("%+v", b))
	if b.TimeoutMs > 1000 {
		ev.Class("batch/timeout-above-1s", 1)
	}
	if ev.WantSample(class) {
		ev.Sample(class, b)
	}
	f := runBatch(b, 1)
	if f == nil {
		return nil
	}
	// a failure is reported only if it shows again with all times stretched - twice, the second time by more (a reply that is
	// due 250 ms before the deadline is late on a machine that is busy enough; stretched, the margin is seconds)
	last := false
	for _, scale := range []int{4, 16} {
		if b.TimeoutMs*scale > 10000 {
			scale, last = 10000/b.TimeoutMs, true
			if scale < 2 {
				scale = 2
			}
		}
		if f2 := runBatch(b, scale); f2 == nil {
			ev.Inconclusive(1)
			return nil
		} else {
			f = f2
		}
		if last {
			break
		}
	}
	return f
}

func genCall(t *rapid.T, group bool) callSpec {
	c := callSpec{Op: gen.Op(t, !group), Path: rapid.IntRange(0, 2).Draw(t, "path")}
	if c.Op == "GetDevices" {
		c.Path = 0
	}
	var bs []string
	switch c.Path {
	case 0:
		bs = []string{"reply", "reply", "reply", "silence", "flood", "flood+reply", "stream", "empty"}
		if c.Op == "GetDevices" {
			bs = []string{"reply", "silence", "flood", "stream", "stream"}
		}
	case 1:
		bs = []string{"reply", "reply", "reply", "silence", "refused", "flood", "empty"}
	default:
		bs = []string{"reply", "reply", "reply", "stall", "reset", "refused", "blackhole", "close", "half", "trickle"}
	}
	if group {
		bs = []string{"reply"}
	}
	c.Behaviour = rapid.SampledFrom(bs).Draw(t, "behaviour")
	c.Percent = rapid.SampledFrom([]int{0, 0, 10, 30, 50, 60, 70, 80}).Draw(t, "percent")
	if c.Behaviour == "flood" && c.Path == 1 {
		c.Percent = 0
	}
	return c
}

func genBatch(t *rapid.T) batch {
	b := batch{TimeoutMs: rapid.SampledFrom([]int{80, 120, 150, 200, 250}).Draw(t, "timeout"), FixedPort: rapid.IntRange(0, 2).Draw(t, "fixed") == 0}
	if rapid.IntRange(0, 19).Draw(t, "long.timeout") == 0 {
		// a timeout above one second, with replies that arrive more than a second after the request: short batch, no waiting calls
		b.TimeoutMs = rapid.SampledFrom([]int{1250, 1400}).Draw(t, "timeout.long")
		for i := rapid.IntRange(2, 3).Draw(t, "calls.long"); i > 0; i-- {
			c := genCall(t, false)
			c.Behaviour, c.Percent = "reply", rapid.SampledFrom([]int{0, 82, 85}).Draw(t, "percent.long")
			if c.Op == "GetDevices" {
				c.Op, c.Path = "GetTime", 0
			}
			b.Calls = append(b.Calls, c)
		}
		return b
	}
	n := rapid.IntRange(2, 8).Draw(t, "calls")
	slow := 0
	for i := 0; i < n; i++ {
		c := genCall(t, false)
		// keep batches short: at most three calls that have to wait for their deadline
		if c.Behaviour != "reply" && c.Behaviour != "flood+reply" && c.Behaviour != "refused" && c.Behaviour != "reset" && c.Behaviour != "close" && c.Behaviour != "half" {
			slow++
			if slow > 3 {
				c.Behaviour, c.Percent = "reply", 0
			}
		}
		b.Calls = append(b.Calls, c)
	}
	if rapid.IntRange(0, 1).Draw(t, "group") == 0 {
		k := rapid.IntRange(2, 4).Draw(t, "group.size")
		for i := 0; i < k; i++ {
			b.Group = append(b.Group, genCall(t, true))
		}
	}
	return b
}

func props() []rp.Prop {
	return []rp.Prop{
		rp.P[batch]{Name: "batch", Checks: ev.Pick(160, 9600) / ev.Shards(), Gen: genBatch, Check: check},
		rp.P[scenario]{Name: "scenario", Sweep: sweepScenarios, Check: checkScenario},
	}
}

func TestC09(t *testing.T)    { rp.RunAll(t, props()...) }
func TestReplay(t *testing.T) { rp.ReplayAll(t, props()...) }
