package c09

import (
	"fmt"
	"github.com/uhppoted/uhppote-core/types"
	"net"
	"os"
	"runtime/debug"
	"strings"
	"sync"
	"syscall"
	"time"

	"verif/harness/api"
	"verif/harness/ev"
	"verif/harness/farm"
	"verif/harness/hook"
	"verif/harness/rp"
	"verif/harness/spec"
)

// Two network behaviours that need an endpoint of their own:
//
// slow-connect: the controller's TCP port drops the first SYN (congested link); the connect completes on the retransmission,
// about one second after the call started. The timeout covers the WHOLE call: a reply that is sent after the deadline
// (measured from the start of the call) is too late, and the call has failed by then; a reply sent before it is accepted.
//
// unreachable-then-reply: on the broadcast path the request goes to an address where nothing listens (the host answers with
// ICMP port unreachable); the addressed controller - somewhere else on the network - answers a little later, to the bind port.
// The ICMP error is not S's reply: the call keeps waiting and accepts the reply.
type scenario struct {
	Kind      string `json:"kind"`
	Op        string `json:"op"`
	TimeoutMs int    `json:"timeout_ms"`
	ReplyPct  int    `json:"reply_pct"` // when the genuine reply is sent, in % of the timeout after the call started
	Debug     bool   `json:"debug,omitempty"`
	Path      string `json:"path,omitempty"` // late-wrong-reply: udp, tcp or broadcast
}

// late-wrong-reply: the controller's only answer is a well-formed reply to SOME OTHER request (another function code, the
// right serial number - the late answer to an earlier request, say) sent at ReplyPct % of the timeout; afterwards it is
// silent, whatever else it is sent. Whether the call fails at once or keeps waiting for the real reply, the timeout bounds it.
func runLateWrong(c scenario, scale int) *rp.Fail {
	T := time.Duration(c.TimeoutMs*scale) * time.Millisecond
	serial := uint32(405419896)
	cs := call(c.Op, serial)
	f := farm.New()
	defer f.Close()
	sentinel := strings.HasSuffix(c.Path, "+sentinel")
	c.Path = strings.TrimSuffix(c.Path, "+sentinel")
	wrong := func(req []byte) []byte {
		if sentinel {
			// a reply of the right kind that says 'nothing here': event overwritten (0xff), no such card (0), no such profile (0)
			b := make([]byte, 64)
			copy(b[:8], req[:8])
			switch c.Op {
			case "GetEvent":
				copy(b[8:12], req[8:12])
				b[12] = 0xff
			}
			return b
		}
		other := call(map[bool]string{true: "GetStatus", false: "GetTime"}[c.Op == "GetTime"], serial)
		return reply(spec.Request(other.Call))
	}
	var first sync.Once
	script := func(r farm.Received) []farm.Action {
		var a []farm.Action
		first.Do(func() { a = []farm.Action{{Delay: T * time.Duration(c.ReplyPct) / 100, Data: wrong(r.Data)}} })
		return a
	}
	cfg := hook.ClientCfg{TimeoutMs: int(T / time.Millisecond), BindIP: [4]byte{127, 0, 0, 1}, Debug: c.Debug}
	ip := [4]byte{127, 0, 8, 7}
	requests := func() int { return 0 }
	switch c.Path {
	case "tcp":
		e, err := f.TCP(ip, 0, farm.ScriptTCP(script))
		if err != nil {
			return nil
		}
		requests = func() int { return len(e.Log()) }
		cfg.Devices = []hook.DeviceCfg{{Serial: serial, HasAddr: true, IP: ip, Port: e.Addr.Port(), Protocol: "tcp"}}
	default:
		e, err := f.UDP(ip, 0, farm.Script(script))
		if err != nil {
			return nil
		}
		requests = func() int { return len(e.Log()) }
		if c.Path == "broadcast" {
			cfg.HasBroadcast, cfg.BroadcastIP, cfg.BroadcastPort = true, ip, e.Addr.Port()
		} else {
			cfg.Devices = []hook.DeviceCfg{{Serial: serial, HasAddr: true, IP: ip, Port: e.Addr.Port(), Protocol: "udp"}}
		}
	}
	u := hook.Real(cfg)
	t0 := time.Now()
	done := make(chan api.Result, 1)
	go func() { done <- api.Invoke(u, cs) }()
	select {
	case res := <-done:
		elapsed := time.Since(t0)
		if res.Panic != nil {
			return rp.Failf("late-wrong-reply/panic", "%s panicked: %v", c.Op, res.Panic)
		}
		if res.Err == nil && !sentinel {
			return rp.Failf("late-wrong-reply/success-without-reply", "%s (%s) succeeded although the only answer was the reply to another request", c.Op, c.Path)
		}
		if elapsed > T+T/4+200*time.Millisecond {
			return rp.Failf("late-wrong-reply/overrun", "%s (%s) returned after %v; the timeout is %v (the only answer, the reply to another request, came %d%% of it after the start; requests received: %d)", c.Op, c.Path, elapsed, T, c.ReplyPct, requests())
		}
	case <-time.After(2*T + 6*time.Second):
		return rp.Failf("late-wrong-reply/hang", "%s (%s) has not returned (timeout %v)", c.Op, c.Path, T)
	}
	return nil
}

// tcp-peer-holds-connection: the TCP controller answers in time and then keeps the connection open for longer than the timeout,
// whatever the client does with its side. The call has returned with the reply; its socket and whatever goroutines it started
// are gone within the settling time - not when the peer finally closes, and not when the timeout would have expired.
// generous-timeout: an application that would rather wait than fail configures a timeout of a day, a month, a year, or 'for
// ever' (the largest durations; millisecond and second counts around 2^31 and 2^32). The controller answers at once: the
// call returns its reply at once - on every path, with a fixed bind port or without - and leaves nothing behind.
// (TimeoutMs is the timeout in milliseconds and is NOT scaled; ReplyPct != 0 means 'fixed bind port'.)
func runGenerous(c scenario) *rp.Fail {
	f := farm.New()
	defer f.Close()
	ip := [4]byte{127, 0, 8, 12}
	serial := uint32(405419896)
	cfg := hook.ClientCfg{TimeoutMs: c.TimeoutMs, BindIP: [4]byte{127, 0, 0, 1}, Debug: c.Debug}
	switch c.Path {
	case "tcp":
		e, err := f.TCP(ip, 0, farm.ScriptTCP(func(r farm.Received) []farm.Action { return []farm.Action{{Data: reply(r.Data)}} }))
		if err != nil {
			return nil
		}
		cfg.Devices = []hook.DeviceCfg{{Serial: serial, HasAddr: true, IP: ip, Port: e.Addr.Port(), Protocol: "tcp"}}
	case "udp":
		e, err := f.UDP(ip, 0, farm.Script(func(r farm.Received) []farm.Action { return []farm.Action{{Data: reply(r.Data)}} }))
		if err != nil {
			return nil
		}
		cfg.Devices = []hook.DeviceCfg{{Serial: serial, HasAddr: true, IP: ip, Port: e.Addr.Port(), Protocol: "udp"}}
	default:
		e, err := f.UDP(ip, 0, farm.Script(func(r farm.Received) []farm.Action { return []farm.Action{{Data: reply(r.Data)}} }))
		if err != nil {
			return nil
		}
		cfg.HasBroadcast, cfg.BroadcastIP, cfg.BroadcastPort = true, ip, e.Addr.Port()
	}
	if c.ReplyPct != 0 {
		p, err := farm.FreePort(cfg.BindIP)
		if err != nil {
			return nil
		}
		cfg.BindPort = p
	}
	u := hook.Real(cfg)
	socketsBefore := farm.Sockets()
	done := make(chan api.Result, 1)
	t0 := time.Now()
	go func() { done <- api.Invoke(u, call(c.Op, serial)) }()
	select {
	case res := <-done:
		if res.Panic != nil || res.Err != nil {
			return rp.Failf("generous-timeout/call-failed", "%s over %s with a timeout of %v failed after %v although the controller answered at once: %v %v", c.Op, c.Path, time.Duration(c.TimeoutMs)*time.Millisecond, time.Since(t0), res.Err, res.Panic)
		}
	case <-time.After(20 * time.Second):
		return rp.Failf("generous-timeout/waited", "%s over %s with a timeout of %v has not returned 20 s after the controller answered", c.Op, c.Path, time.Duration(c.TimeoutMs)*time.Millisecond)
	}
	for i := 0; i < 40 && farm.Sockets() > socketsBefore; i++ {
		time.Sleep(25 * time.Millisecond)
	}
	if now := farm.Sockets(); now > socketsBefore {
		return rp.Failf("generous-timeout/socket-left-open", "%s over %s with a timeout of %v: %d sockets before the call, %d one second after it returned", c.Op, c.Path, time.Duration(c.TimeoutMs)*time.Millisecond, socketsBefore, now)
	}
	return nil
}

// argument-sockets: every operation with arguments that name addresses (listener 0.0.0.0:port, a listener on another host, an
// address / gateway on this host's own loopback network) against a prompt controller with a configured address, a few times
// in a row with the garbage collector switched off: when a call has returned, the process holds exactly the sockets it held
// before - a descriptor that would only be closed by a finalizer is a descriptor left behind. (Path: udp | tcp | broadcast.)
func runArgSockets(c scenario) *rp.Fail {
	f := farm.New()
	defer f.Close()
	ip := [4]byte{127, 0, 8, 14}
	serial := uint32(405419896)
	cfg := hook.ClientCfg{TimeoutMs: c.TimeoutMs, BindIP: [4]byte{127, 0, 0, 1}, Debug: c.Debug}
	switch c.Path {
	case "tcp":
		e, err := f.TCP(ip, 0, farm.ScriptTCP(func(r farm.Received) []farm.Action { return []farm.Action{{Data: reply(r.Data)}} }))
		if err != nil {
			return nil
		}
		cfg.Devices = []hook.DeviceCfg{{Serial: serial, HasAddr: true, IP: ip, Port: e.Addr.Port(), Protocol: "tcp"}}
	case "udp":
		e, err := f.UDP(ip, 0, farm.Script(func(r farm.Received) []farm.Action { return []farm.Action{{Data: reply(r.Data)}} }))
		if err != nil {
			return nil
		}
		cfg.Devices = []hook.DeviceCfg{{Serial: serial, HasAddr: true, IP: ip, Port: e.Addr.Port(), Protocol: "udp"}}
	default:
		e, err := f.UDP(ip, 0, farm.Script(func(r farm.Received) []farm.Action { return []farm.Action{{Data: reply(r.Data)}} }))
		if err != nil {
			return nil
		}
		cfg.HasBroadcast, cfg.BroadcastIP, cfg.BroadcastPort = true, ip, e.Addr.Port()
	}
	u := hook.Real(cfg)
	variants := []func(cs *api.Case){
		func(cs *api.Case) { cs.Call.Listener, cs.Call.Port = [4]byte{0, 0, 0, 0}, 60001 },
		func(cs *api.Case) { cs.Call.Listener, cs.Call.Port = [4]byte{0, 0, 0, 0}, 0 },
		func(cs *api.Case) { cs.Call.Listener, cs.Call.Port = [4]byte{127, 0, 8, 15}, 60001 },
		func(cs *api.Case) { cs.Call.Listener, cs.Call.Port = [4]byte{255, 255, 255, 255}, 60001 },
		func(cs *api.Case) {
			cs.Call.Address, cs.Call.Gateway = [4]byte{127, 0, 8, 16}, [4]byte{127, 0, 0, 1}
		},
	}
	old := debug.SetGCPercent(-1)
	defer debug.SetGCPercent(old)
	before := farm.Sockets()
	for round := 0; round < 4; round++ {
		for k, vary := range variants {
			cs := call(c.Op, serial)
			vary(&cs)
			res := api.Invoke(u, cs)
			if res.Panic != nil {
				return rp.Failf("argument-sockets/panic", "%s (argument variant %d) panicked: %v", c.Op, k, res.Panic)
			}
			// (the simulated controller's end of a TCP connection is a socket of this process too: it goes when the controller has seen
			// the client close - a moment later)
			for i := 0; i < 60 && farm.Sockets() != before; i++ {
				time.Sleep(25 * time.Millisecond)
			}
			if now := farm.Sockets(); now != before {
				return rp.Failf("argument-sockets/socket-left-open", "%s over %s with argument variant %d (0: listener 0.0.0.0:60001, 1: 0.0.0.0:0, 2: a listener on another address, 3: 255.255.255.255:60001, 4: address / gateway on the loopback network) returned (%v); the process held %d sockets before the call and holds %d 1.5 s later (garbage collector off: nothing is closed behind the call's back)", c.Op, c.Path, k, res.Err, before, now)
			}
		}
	}
	return nil
}

// self-connect: the TCP controller's configured address is the client's own fixed bind address and port, and nothing listens
// there - the kernel connects the socket to itself (TCP simultaneous open). Whatever the call returns, with the garbage
// collector off the process holds no more sockets after it than before.
func runSelfConnect(c scenario) *rp.Fail {
	port, err := farm.FreePort([4]byte{127, 0, 0, 1})
	if err != nil {
		return nil
	}
	serial := uint32(405419896)
	cfg := hook.ClientCfg{TimeoutMs: c.TimeoutMs, BindIP: [4]byte{127, 0, 0, 1}, BindPort: port, Debug: c.Debug,
		Devices: []hook.DeviceCfg{{Serial: serial, HasAddr: true, IP: [4]byte{127, 0, 0, 1}, Port: port, Protocol: "tcp"}}}
	if c.Path == "any-bind" {
		cfg.BindIP = [4]byte{0, 0, 0, 0}
	}
	u := hook.Real(cfg)
	old := debug.SetGCPercent(-1)
	defer debug.SetGCPercent(old)
	before := farm.Sockets()
	for i := 0; i < 3; i++ {
		done := make(chan api.Result, 1)
		go func() { done <- api.Invoke(u, call(c.Op, serial)) }()
		select {
		case res := <-done:
			if res.Panic != nil {
				return rp.Failf("self-connect/panic", "%s panicked: %v", c.Op, res.Panic)
			}
		case <-time.After(time.Duration(c.TimeoutMs)*time.Millisecond*2 + 3*time.Second):
			return rp.Failf("self-connect/hang", "%s to a TCP controller at the client's own bind address has not returned after twice the timeout", c.Op)
		}
		for k := 0; k < 40 && farm.Sockets() != before; k++ {
			time.Sleep(25 * time.Millisecond)
		}
		if now := farm.Sockets(); now != before {
			return rp.Failf("self-connect/socket-left-open", "call %d: %s to a TCP controller configured at the client's own bind address 127.0.0.1:%d (nothing listens there) returned; the process held %d sockets before and holds %d a second later (garbage collector off)", i+1, c.Op, port, before, now)
		}
	}
	return nil
}

// flood-already-running: datagrams stream to the client's fixed bind port BEFORE the call opens its socket and for as long as it
// lasts (controllers that were told to send their events there, a stray flood aimed at the well-known port), about two a
// millisecond. The controller answers the broadcast-path request after ReplyPct % of the timeout: the call returns its reply
// within the timeout.
func runFloodRunning(c scenario, scale int) *rp.Fail {
	T := time.Duration(c.TimeoutMs*scale) * time.Millisecond
	f := farm.New()
	defer f.Close()
	serial := uint32(405419896)
	ctrl, err := f.UDP([4]byte{127, 0, 8, 18}, 0, farm.Script(func(r farm.Received) []farm.Action {
		if len(r.Data) != 64 || spec.LE32(r.Data[4:]) != serial {
			return nil
		}
		return []farm.Action{{Delay: T * time.Duration(c.ReplyPct) / 100, Data: reply(r.Data)}}
	}))
	if err != nil {
		return nil
	}
	port, err := farm.FreePort([4]byte{127, 0, 0, 1})
	if err != nil {
		return nil
	}
	stop := make(chan struct{})
	var wg sync.WaitGroup
	for s := 0; s < 2; s++ {
		conn, err := net.DialUDP("udp4", nil, &net.UDPAddr{IP: net.IPv4(127, 0, 0, 1), Port: int(port)})
		if err != nil {
			continue
		}
		wg.Add(1)
		go func(s int) {
			defer wg.Done()
			defer conn.Close()
			junk := reply(spec.Request(call("GetTime", 303986753+uint32(s)).Call)) // a well-formed reply of ANOTHER controller
			for i := 0; ; i++ {
				select {
				case <-stop:
					return
				default:
				}
				conn.Write(junk) // (before the client has bound the port this earns an ICMP error, which the sender ignores)
				time.Sleep(time.Millisecond)
			}
		}(s)
	}
	defer func() { close(stop); wg.Wait() }()
	time.Sleep(30 * time.Millisecond)
	cfg := hook.ClientCfg{TimeoutMs: int(T / time.Millisecond), BindIP: [4]byte{127, 0, 0, 1}, BindPort: port, Debug: c.Debug, HasBroadcast: true, BroadcastIP: [4]byte{127, 0, 8, 18}, BroadcastPort: ctrl.Addr.Port()}
	u := hook.Real(cfg)
	for i := 0; i < 3; i++ {
		done := make(chan api.Result, 1)
		t0 := time.Now()
		go func() { done <- api.Invoke(u, call(c.Op, serial)) }()
		select {
		case res := <-done:
			if res.Panic != nil {
				return rp.Failf("flood-already-running/panic", "%s panicked: %v", c.Op, res.Panic)
			}
			if res.Err != nil {
				return rp.Failf("flood-already-running/call-failed", "call %d: %s on the broadcast path failed after %v (timeout %v) although its controller answered %d %% of the timeout after being asked - datagrams of other controllers were streaming to the bind port before and during the call: %v", i+1, c.Op, time.Since(t0), T, c.ReplyPct, res.Err)
			}
		case <-time.After(2*T + 3*time.Second):
			return rp.Failf("flood-already-running/hang", "call %d: %s has not returned %v after it was started (timeout %v); datagrams were streaming to the bind port before the call", i+1, c.Op, 2*T+3*time.Second, T)
		}
	}
	return nil
}

func runPeerHolds(c scenario, scale int) *rp.Fail {
	T := time.Duration(c.TimeoutMs*scale) * time.Millisecond
	f := farm.New()
	defer f.Close()
	ip := [4]byte{127, 0, 8, 8}
	protocol := "tcp"
	var port uint16
	held := 1 // descriptors of this process that belong to the controller's side of a connection that is still open
	if c.Path != "" && c.Path != "tcp" {
		// the controller is configured with another protocol string ("any", "", "UDP", "auto": everything but "tcp" is UDP): it
		// answers over UDP at once, while its TCP port accepts connections and never answers - nobody has any business there
		protocol, held = c.Path, 0
		if protocol == "(empty)" {
			protocol = ""
		}
		for try := 0; try < 20 && port == 0; try++ {
			p, err := farm.FreePort(ip)
			if err != nil {
				return nil
			}
			if _, err := f.UDP(ip, p, farm.Script(func(r farm.Received) []farm.Action { return []farm.Action{{Data: reply(r.Data)}} })); err != nil {
				continue
			}
			if _, err := f.TCP(ip, p, farm.ScriptTCP(func(r farm.Received) []farm.Action { return []farm.Action{{Hold: T + 3*time.Second}} })); err != nil {
				return nil
			}
			port = p
		}
		if port == 0 {
			return nil
		}
	} else {
		e, err := f.TCP(ip, 0, farm.ScriptTCP(func(r farm.Received) []farm.Action {
			return []farm.Action{{Data: reply(r.Data), Hold: T + 3*time.Second}}
		}))
		if err != nil {
			return nil
		}
		port = e.Addr.Port()
	}
	serial := uint32(405419896)
	cfg := hook.ClientCfg{TimeoutMs: int(T / time.Millisecond), BindIP: [4]byte{127, 0, 0, 1}, Debug: c.Debug,
		Devices: []hook.DeviceCfg{{Serial: serial, HasAddr: true, IP: ip, Port: port, Protocol: protocol}}}
	if c.ReplyPct != 0 { // (used as the flag 'fixed bind port' here)
		p, err := farm.FreePort(cfg.BindIP)
		if err != nil {
			return nil
		}
		cfg.BindPort = p
	}
	u := hook.Real(cfg)
	socketsBefore := farm.Sockets()
	goroutinesBefore, _ := farm.LibraryGoroutines()
	t0 := time.Now()
	res := api.Invoke(u, call(c.Op, serial))
	if res.Panic != nil || res.Err != nil {
		return rp.Failf("tcp-peer-holds-connection/call-failed", "%s failed although the controller answered at once: %v %v", c.Op, res.Err, res.Panic)
	}
	if el := time.Since(t0); el > T/2 {
		return rp.Failf("tcp-peer-holds-connection/waited", "%s returned after %v although the reply came at once (timeout %v)", c.Op, el, T)
	}
	// the controller's side of the connection is still open (one descriptor of this process); everything of the client is gone
	var s, g int
	var stacks string
	for deadline := time.Now().Add(1500 * time.Millisecond); ; time.Sleep(10 * time.Millisecond) {
		s = farm.Sockets()
		g, stacks = farm.LibraryGoroutines()
		if (s <= socketsBefore+held && g <= goroutinesBefore) || time.Now().After(deadline) {
			break
		}
	}
	if g > goroutinesBefore {
		return rp.Failf("resources/goroutine-leak", "1.5 s after %s returned (protocol %q, fixed bind port: %v, the controller's TCP side holds whatever connection it got) %d library goroutine(s) are running, %d before the call:\n%s", c.Op, protocol, cfg.BindPort != 0, g, goroutinesBefore, stacks)
	}
	if s > socketsBefore+held {
		return rp.Failf("resources/socket-leak", "1.5 s after %s returned (protocol %q, fixed bind port: %v, the controller's TCP side holds whatever connection it got) the process has %d socket descriptors; %d before the call plus %d for the controller's side of a connection", c.Op, protocol, cfg.BindPort != 0, s, socketsBefore, held)
	}
	return nil
}

// no-descriptors: the process has run out of file descriptors (the soft RLIMIT_NOFILE is lowered to what is open right now), so
// no socket can be created. Every operation - directed UDP, TCP, broadcast, discovery, Listen - returns an error in good time,
// without a panic; once descriptors are available again the same client works, and nothing has been left behind.
func runNoDescriptors(c scenario, scale int) *rp.Fail {
	T := time.Duration(c.TimeoutMs*scale) * time.Millisecond
	f := farm.New()
	defer f.Close()
	answerU := farm.Script(func(r farm.Received) []farm.Action { return []farm.Action{{Data: reply(r.Data)}} })
	answerT := farm.ScriptTCP(func(r farm.Received) []farm.Action { return []farm.Action{{Data: reply(r.Data)}} })
	bc, err1 := f.UDP([4]byte{127, 0, 8, 9}, 0, answerU)
	ud, err2 := f.UDP([4]byte{127, 0, 8, 10}, 0, answerU)
	tc, err3 := f.TCP([4]byte{127, 0, 8, 11}, 0, answerT)
	lp, err4 := farm.FreePort([4]byte{127, 0, 0, 1})
	if err1 != nil || err2 != nil || err3 != nil || err4 != nil {
		return nil
	}
	cfg := hook.ClientCfg{TimeoutMs: int(T / time.Millisecond), BindIP: [4]byte{127, 0, 0, 1}, Debug: c.Debug, HasBroadcast: true, BroadcastIP: [4]byte{127, 0, 8, 9}, BroadcastPort: bc.Addr.Port(),
		HasListen: true, ListenIP: [4]byte{127, 0, 0, 1}, ListenPort: lp,
		Devices: []hook.DeviceCfg{{Serial: 1002, HasAddr: true, IP: [4]byte{127, 0, 8, 10}, Port: ud.Addr.Port(), Protocol: "udp"}, {Serial: 1003, HasAddr: true, IP: [4]byte{127, 0, 8, 11}, Port: tc.Addr.Port(), Protocol: "tcp"}}}
	u := hook.Real(cfg)
	type op struct {
		name string
		f    func() (error, any)
	}
	invoke := func(serial uint32) func() (error, any) {
		return func() (error, any) { r := api.Invoke(u, call(c.Op, serial)); return r.Err, r.Panic }
	}
	ops := []op{{"broadcast", invoke(1001)}, {"udp", invoke(1002)}, {"tcp", invoke(1003)},
		{"discovery", func() (err error, p any) {
			defer func() { p = recover() }()
			_, err = u.GetDevices()
			return
		}},
		{"listen", func() (err error, p any) {
			defer func() { p = recover() }()
			q := make(chan os.Signal, 1)
			done := make(chan error, 1)
			go func() {
				defer func() {
					if r := recover(); r != nil {
						done <- fmt.Errorf("PANIC: %v", r)
					}
				}()
				done <- u.Listen(nullListener{}, q)
			}()
			select {
			case err = <-done:
			case <-time.After(300 * time.Millisecond):
				q <- os.Interrupt // (it did start: stop it again)
				select {
				case err = <-done:
				case <-time.After(5 * time.Second):
					err = fmt.Errorf("HANG")
				}
			}
			return
		}}}
	before := farm.Sockets()
	var lim syscall.Rlimit
	if syscall.Getrlimit(syscall.RLIMIT_NOFILE, &lim) != nil {
		return nil
	}
	entries, err := os.ReadDir("/proc/self/fd")
	if err != nil {
		return nil
	}
	low := lim
	low.Cur = uint64(len(entries)) - 1 // (the directory handle itself was one of them: every descriptor number below the limit is taken)
	run := func(stage string, expectError bool) *rp.Fail {
		for _, o := range ops {
			t0 := time.Now()
			type out struct {
				err error
				p   any
			}
			ch := make(chan out, 1)
			go func() { e, p := o.f(); ch <- out{e, p} }()
			select {
			case r := <-ch:
				if r.p != nil || (r.err != nil && strings.HasPrefix(r.err.Error(), "PANIC")) {
					return rp.Failf("no-descriptors/panic", "%s: %s (%s) panicked: %v %v", stage, c.Op, o.name, r.p, r.err)
				}
				if r.err != nil && r.err.Error() == "HANG" {
					return rp.Failf("no-descriptors/hang", "%s: Listen did not return after the stop signal", stage)
				}
				if el := time.Since(t0); el > T+T/4+400*time.Millisecond && o.name != "listen" {
					return rp.Failf("no-descriptors/overrun", "%s: %s (%s) returned after %v; the timeout is %v", stage, c.Op, o.name, el, T)
				}
				if expectError && r.err != nil {
					ev.Class("no-descriptors/calls-that-failed-while-no-descriptor-could-be-opened", 1)
				} else if expectError {
					ev.Class("no-descriptors/calls-that-succeeded-all-the-same", 1)
				}
				if !expectError && r.err != nil && o.name != "listen" {
					return rp.Failf("no-descriptors/does-not-recover", "%s: %s (%s) failed although descriptors are available again and the controller answers: %v", stage, c.Op, o.name, r.err)
				}
			case <-time.After(2*T + 8*time.Second):
				return rp.Failf("no-descriptors/hang", "%s: %s (%s) has not returned (timeout %v)", stage, c.Op, o.name, T)
			}
		}
		return nil
	}
	if syscall.Setrlimit(syscall.RLIMIT_NOFILE, &low) != nil {
		return nil
	}
	fail := run("while no descriptor can be opened", true)
	syscall.Setrlimit(syscall.RLIMIT_NOFILE, &lim)
	if fail != nil {
		return fail
	}
	if fail = run("after descriptors became available again", false); fail != nil {
		return fail
	}
	for deadline := time.Now().Add(2 * time.Second); ; time.Sleep(5 * time.Millisecond) {
		if s := farm.Sockets(); s <= before {
			return nil
		} else if time.Now().After(deadline) {
			return rp.Failf("resources/socket-leak", "%d socket descriptors before the descriptor shortage, %d after it and a round of successful calls", before, s)
		}
	}
}

type nullListener struct{}

func (nullListener) OnConnected()          {}
func (nullListener) OnEvent(*types.Status) {}
func (nullListener) OnError(error) bool    { return true }

// multicast-broadcast: the configured broadcast address is an IPv4 multicast group (239.255.x.y) and the client is bound to a
// specific address; nobody answers. Broadcast-routed calls and discovery end within the timeout like any other unanswered
// call, release their socket, and a second round works the same way (nothing is left locked).
func runMulticast(c scenario, scale int) *rp.Fail {
	T := time.Duration(c.TimeoutMs*scale) * time.Millisecond
	port, err := farm.FreePort([4]byte{127, 0, 0, 1})
	if err != nil {
		return nil
	}
	bind, err := farm.FreePort([4]byte{127, 0, 0, 1})
	if err != nil {
		return nil
	}
	before := farm.Sockets()
	for round, fixed := range []bool{false, true} {
		cfg := hook.ClientCfg{TimeoutMs: int(T / time.Millisecond), BindIP: [4]byte{127, 0, 0, 1}, Debug: c.Debug, HasBroadcast: true, BroadcastIP: [4]byte{239, 255, 60, 17}, BroadcastPort: port}
		if fixed {
			cfg.BindPort = bind
		}
		u := hook.Real(cfg)
		for i := 0; i < 2; i++ {
			t0 := time.Now()
			done := make(chan any, 1)
			go func() {
				defer func() { done <- recover() }()
				if c.Op == "GetDevices" {
					u.GetDevices()
				} else {
					api.Invoke(u, call(c.Op, 405419896))
				}
			}()
			select {
			case p := <-done:
				if p != nil {
					return rp.Failf("multicast-broadcast/panic", "%s panicked: %v", c.Op, p)
				}
				if el := time.Since(t0); el > T+T/4+400*time.Millisecond {
					return rp.Failf("multicast-broadcast/overrun", "%s to the multicast group 239.255.60.17 (bound to 127.0.0.1, fixed bind port: %v, call %d) returned after %v; the timeout is %v", c.Op, fixed, 2*round+i+1, el, T)
				}
			case <-time.After(2*T + 8*time.Second):
				return rp.Failf("multicast-broadcast/hang", "%s to the multicast group 239.255.60.17 (bound to 127.0.0.1, fixed bind port: %v, call %d) has not returned; the timeout is %v", c.Op, fixed, 2*round+i+1, T)
			}
		}
	}
	for deadline := time.Now().Add(2 * time.Second); ; time.Sleep(5 * time.Millisecond) {
		if s := farm.Sockets(); s <= before {
			return nil
		} else if time.Now().After(deadline) {
			return rp.Failf("resources/socket-leak", "%d socket descriptors before the calls to a multicast group, %d after them", before, s)
		}
	}
}

func runScenario(c scenario, scale int) *rp.Fail {
	T := time.Duration(c.TimeoutMs*scale) * time.Millisecond
	serial := uint32(405419896)
	cs := call(c.Op, serial)
	var cfg hook.ClientCfg
	started := make(chan time.Time, 1)
	switch c.Kind {
	case "slow-connect":
		ip := [4]byte{127, 0, 8, 1}
		port, closer, ok := farm.SlowAccept(ip, 400*time.Millisecond, func(conn net.Conn) {
			defer conn.Close()
			buf := make([]byte, 64)
			conn.SetReadDeadline(time.Now().Add(T + 3*time.Second))
			n := 0
			for n < 64 {
				k, err := conn.Read(buf[n:])
				if err != nil {
					return
				}
				n += k
			}
			t0 := <-started
			started <- t0
			if d := time.Until(t0.Add(T * time.Duration(c.ReplyPct) / 100)); d > 0 {
				time.Sleep(d)
			}
			conn.SetWriteDeadline(time.Now().Add(time.Second))
			conn.Write(reply(buf))
			time.Sleep(T / 2)
		})
		if !ok {
			ev.Excluded("slow-connect endpoint could not be produced", 1)
			return nil
		}
		defer closer()
		cfg = hook.ClientCfg{TimeoutMs: int(T / time.Millisecond), BindIP: [4]byte{127, 0, 0, 1}, Debug: c.Debug,
			Devices: []hook.DeviceCfg{{Serial: serial, HasAddr: true, IP: ip, Port: port, Protocol: "tcp"}}}
	case "unreachable-then-reply":
		closed, err := farm.FreePort([4]byte{127, 0, 8, 2})
		bind, err2 := farm.FreePort([4]byte{127, 0, 0, 1})
		if err != nil || err2 != nil {
			return nil
		}
		ctrl, err := net.ListenUDP("udp4", &net.UDPAddr{IP: net.IPv4(127, 0, 8, 3)})
		if err != nil {
			return nil
		}
		defer ctrl.Close()
		cfg = hook.ClientCfg{TimeoutMs: int(T / time.Millisecond), BindIP: [4]byte{127, 0, 0, 1}, BindPort: bind, Debug: c.Debug, HasBroadcast: true, BroadcastIP: [4]byte{127, 0, 8, 2}, BroadcastPort: closed}
		go func() {
			t0 := <-started
			started <- t0
			time.Sleep(time.Until(t0.Add(T * time.Duration(c.ReplyPct) / 100)))
			req := spec.Request(cs.Call)
			for i := 0; i < 3; i++ {
				ctrl.WriteToUDP(reply(req), &net.UDPAddr{IP: net.IPv4(127, 0, 0, 1), Port: int(bind)})
				time.Sleep(T / 10)
			}
		}()
	}
	switch c.Kind {
	case "port-released":
		return runPortReleased(c, scale)
	case "send-fails":
		return runSendFails(c, scale)
	case "late-wrong-reply":
		return runLateWrong(c, scale)
	case "tcp-peer-holds-connection":
		return runPeerHolds(c, scale)
	case "no-descriptors":
		return runNoDescriptors(c, scale)
	case "multicast-broadcast":
		return runMulticast(c, scale)
	case "generous-timeout":
		return runGenerous(c)
	case "argument-sockets":
		return runArgSockets(c)
	case "flood-already-running":
		return runFloodRunning(c, scale)
	case "self-connect":
		return runSelfConnect(c)
	}
	u := hook.Real(cfg)
	t0 := time.Now()
	started <- t0
	done := make(chan api.Result, 1)
	go func() { done <- api.Invoke(u, cs) }()
	var res api.Result
	select {
	case res = <-done:
	case <-time.After(T + 6*time.Second):
		return rp.Failf(c.Kind+"/hang", "%s has not returned %v after it was started (timeout %v)", c.Op, time.Since(t0), T)
	}
	elapsed := time.Since(t0)
	if res.Panic != nil {
		return rp.Failf(c.Kind+"/panic", "%s panicked: %v", c.Op, res.Panic)
	}
	inTime := c.ReplyPct <= 80
	switch {
	case inTime && res.Err != nil:
		return rp.Failf(c.Kind+"/gave-up-early", "%s failed after %v (timeout %v) although the controller's reply was sent %d%% of the timeout after the call started: %v", c.Op, elapsed, T, c.ReplyPct, res.Err)
	case !inTime && res.Err == nil:
		return rp.Failf(c.Kind+"/accepted-after-deadline", "%s succeeded after %v: the timeout is %v for the whole call and the reply was sent only %d%% of it after the call started", c.Op, elapsed, T, c.ReplyPct)
	case !inTime && elapsed > T+T/4+200*time.Millisecond:
		return rp.Failf(c.Kind+"/overrun", "%s returned after %v; the timeout is %v", c.Op, elapsed, T)
	}
	return nil
}

// port-released: the fixed bind port is held by a socket OUTSIDE the library when the call starts and is released at
// ReplyPct % of the timeout. Whatever the call makes of the busy port (today: an immediate 'address in use' error), the
// timeout still bounds the whole call; nobody answers.
func runPortReleased(c scenario, scale int) *rp.Fail {
	T := time.Duration(c.TimeoutMs*scale) * time.Millisecond
	bindIP := [4]byte{127, 0, 0, 1}
	port, err := farm.FreePort(bindIP)
	if err != nil {
		return nil
	}
	f := farm.New()
	defer f.Close()
	silent, err := f.UDP([4]byte{127, 0, 8, 4}, 0, nil)
	if err != nil {
		return nil
	}
	hu, err1 := net.ListenUDP("udp4", &net.UDPAddr{IP: net.IP(bindIP[:]), Port: int(port)})
	ht, err2 := net.ListenTCP("tcp4", &net.TCPAddr{IP: net.IP(bindIP[:]), Port: int(port)})
	if err1 != nil || err2 != nil {
		return nil
	}
	release := time.AfterFunc(T*time.Duration(c.ReplyPct)/100, func() { hu.Close(); ht.Close() })
	defer release.Stop()
	defer hu.Close()
	defer ht.Close()
	serial := uint32(405419896)
	cfg := hook.ClientCfg{TimeoutMs: int(T / time.Millisecond), BindIP: bindIP, BindPort: port, Debug: c.Debug, HasBroadcast: true, BroadcastIP: [4]byte{127, 0, 8, 4}, BroadcastPort: silent.Addr.Port()}
	if c.Op != "GetDevices" && c.Op != "OpenDoor" {
		cfg.Devices = []hook.DeviceCfg{{Serial: serial, HasAddr: true, IP: [4]byte{127, 0, 8, 4}, Port: silent.Addr.Port(), Protocol: "udp"}}
	}
	u := hook.Real(cfg)
	t0 := time.Now()
	done := make(chan api.Result, 1)
	go func() {
		if c.Op == "GetDevices" {
			var r api.Result
			func() {
				defer func() { r.Panic = recover() }()
				_, r.Err = u.GetDevices()
			}()
			done <- r
			return
		}
		done <- api.Invoke(u, call(c.Op, serial))
	}()
	select {
	case res := <-done:
		elapsed := time.Since(t0)
		if res.Panic != nil {
			return rp.Failf("port-released/panic", "%s panicked: %v", c.Op, res.Panic)
		}
		if elapsed > T+T/4+200*time.Millisecond {
			return rp.Failf("port-released/overrun", "%s returned after %v; the timeout is %v (the fixed bind port was held by another socket for the first %d%% of it)", c.Op, elapsed, T, c.ReplyPct)
		}
		if res.Err == nil && c.Op != "GetDevices" {
			return rp.Failf("port-released/success-without-reply", "%s succeeded although nobody answered", c.Op)
		}
	case <-time.After(2*T + 6*time.Second):
		return rp.Failf("port-released/hang", "%s has not returned (timeout %v)", c.Op, T)
	}
	return nil
}

// send-fails: three clients share one fixed bind port. The first one's request cannot be sent (its broadcast address has
// port 0); the calls of the other two, made right afterwards, must still reach their controllers and succeed, and no socket
// may be left behind.
func runSendFails(c scenario, scale int) *rp.Fail {
	T := time.Duration(c.TimeoutMs*scale) * time.Millisecond
	f := farm.New()
	defer f.Close()
	answer := farm.Script(func(r farm.Received) []farm.Action { return []farm.Action{{Data: reply(r.Data)}} })
	ctrl, err := f.UDP([4]byte{127, 0, 8, 5}, 0, answer)
	bc, err2 := f.UDP([4]byte{127, 0, 8, 6}, 0, answer)
	port, err3 := farm.FreePort([4]byte{127, 0, 0, 1})
	if err != nil || err2 != nil || err3 != nil {
		return nil
	}
	base := hook.ClientCfg{TimeoutMs: int(T / time.Millisecond), BindIP: [4]byte{127, 0, 0, 1}, BindPort: port, Debug: c.Debug}
	bad := base
	bad.HasBroadcast, bad.BroadcastIP, bad.BroadcastPort = true, [4]byte{127, 0, 8, 6}, 0
	direct := base
	direct.Devices = []hook.DeviceCfg{{Serial: 1001, HasAddr: true, IP: [4]byte{127, 0, 8, 5}, Port: ctrl.Addr.Port(), Protocol: "udp"}}
	bcast := base
	bcast.HasBroadcast, bcast.BroadcastIP, bcast.BroadcastPort = true, [4]byte{127, 0, 8, 6}, bc.Addr.Port()
	before := farm.Sockets()
	ub, ud, uc := hook.Real(bad), hook.Real(direct), hook.Real(bcast)
	for round := 0; round < 2; round++ {
		returned := make(chan struct{})
		go func() {
			defer close(returned)
			if c.Op == "GetDevices" {
				defer func() { recover() }()
				ub.GetDevices()
			} else {
				api.Invoke(ub, call(c.Op, 1003))
			}
		}()
		select {
		case <-returned:
		case <-time.After(2*T + 6*time.Second):
			return rp.Failf("send-fails/hang", "%s, whose request could not be sent (broadcast address with port 0), has not returned %v after it was started (timeout %v)", c.Op, 2*T+6*time.Second, T)
		}
		if res := api.Invoke(ud, call("GetTime", 1001)); res.Panic != nil || res.Err != nil {
			return rp.Failf("send-fails/call-failed/udp", "after another client's request on the same bind port could not be sent, GetTime (directed UDP, controller answers at once) failed: %v %v", res.Err, res.Panic)
		}
		if res := api.Invoke(uc, call("GetStatus", 1002)); res.Panic != nil || res.Err != nil {
			return rp.Failf("send-fails/call-failed/broadcast", "after another client's request on the same bind port could not be sent, GetStatus (broadcast, controller answers at once) failed: %v %v", res.Err, res.Panic)
		}
	}
	for deadline := time.Now().Add(2 * time.Second); ; time.Sleep(5 * time.Millisecond) {
		if s := farm.Sockets(); s <= before {
			return nil
		} else if time.Now().After(deadline) {
			return rp.Failf("resources/socket-leak", "%d socket descriptors before the calls, %d after them (one client's send failed each round)", before, s)
		}
	}
}

func checkScenario(c scenario) *rp.Fail {
	if c.Kind == "port-released" || c.Kind == "send-fails" || c.Kind == "late-wrong-reply" || c.Kind == "tcp-peer-holds-connection" || c.Kind == "no-descriptors" || c.Kind == "multicast-broadcast" || c.Kind == "generous-timeout" || c.Kind == "argument-sockets" || c.Kind == "flood-already-running" || c.Kind == "self-connect" {
		ev.Case("scenario/"+c.Kind, true, fmt.Sprintf("%+v", c))
	} else {
		ev.Case(fmt.Sprintf("scenario/%s/reply-%s", c.Kind, map[bool]string{true: "in-time", false: "after-deadline"}[c.ReplyPct <= 80]), true, fmt.Sprintf("%+v", c))
	}
	f := runScenario(c, 1)
	if f != nil && c.Kind != "slow-connect" { // (the slow connect is governed by the kernel's 1 s retransmission timer and cannot be scaled)
		if f2 := runScenario(c, 4); f2 == nil {
			ev.Inconclusive(1)
			return nil
		} else {
			f = f2
		}
	} else if f != nil {
		if f2 := runScenario(c, 1); f2 == nil {
			ev.Inconclusive(1)
			return nil
		}
	}
	return f
}

func sweepScenarios(yield func(scenario) bool) {
	var cases []scenario
	// the connect completes about 1.0 s after the start: with a timeout of 1.6 s the deadline is at 1.6 s; a reply at 130 % (2.08 s)
	// is too late, one at 80 % (1.28 s) is in time
	cases = append(cases, scenario{Kind: "slow-connect", Op: "GetTime", TimeoutMs: 1600, ReplyPct: 130}, scenario{Kind: "slow-connect", Op: "OpenDoor", TimeoutMs: 1600, ReplyPct: 80, Debug: true})
	for i, op := range []string{"GetTime", "GetStatus", "PutCard", "GetCardByID"} {
		cases = append(cases, scenario{Kind: "unreachable-then-reply", Op: op, TimeoutMs: 300, ReplyPct: []int{20, 40, 60, 30}[i], Debug: i == 1})
	}
	cases = append(cases, scenario{Kind: "port-released", Op: "GetDevices", TimeoutMs: 600, ReplyPct: 90}, scenario{Kind: "port-released", Op: "GetTime", TimeoutMs: 600, ReplyPct: 90},
		scenario{Kind: "port-released", Op: "OpenDoor", TimeoutMs: 500, ReplyPct: 60, Debug: true},
		scenario{Kind: "send-fails", Op: "OpenDoor", TimeoutMs: 400}, scenario{Kind: "send-fails", Op: "GetDevices", TimeoutMs: 150})
	for i, path := range []string{"udp", "tcp", "broadcast"} {
		cases = append(cases, scenario{Kind: "late-wrong-reply", Op: []string{"GetTime", "GetStatus", "OpenDoor"}[i], Path: path, TimeoutMs: 600, ReplyPct: 85, Debug: i == 2})
	}
	cases = append(cases, scenario{Kind: "tcp-peer-holds-connection", Op: "GetTime", TimeoutMs: 4000, ReplyPct: 1}, scenario{Kind: "tcp-peer-holds-connection", Op: "OpenDoor", TimeoutMs: 4000, ReplyPct: 0, Debug: true},
		scenario{Kind: "tcp-peer-holds-connection", Op: "DeleteCard", TimeoutMs: 4000, ReplyPct: 0, Path: "any"}, scenario{Kind: "tcp-peer-holds-connection", Op: "GetStatus", TimeoutMs: 4000, ReplyPct: 1, Path: "(empty)"})
	// a late reply of the right kind that says 'nothing here' (event overwritten, no such card / profile), then silence: whatever the
	// call makes of it, the timeout bounds the whole call
	for i, op := range []string{"GetEvent", "GetCardByID", "GetTimeProfile"} {
		cases = append(cases, scenario{Kind: "late-wrong-reply", Op: op, Path: []string{"udp", "tcp", "broadcast"}[i] + "+sentinel", TimeoutMs: 600, ReplyPct: 70})
	}
	cases = append(cases, scenario{Kind: "multicast-broadcast", Op: "GetTime", TimeoutMs: 400}, scenario{Kind: "multicast-broadcast", Op: "GetDevices", TimeoutMs: 300, Debug: true})
	cases = append(cases, scenario{Kind: "no-descriptors", Op: "GetTime", TimeoutMs: 300}, scenario{Kind: "no-descriptors", Op: "OpenDoor", TimeoutMs: 200, Debug: true})
	cases = append(cases, scenario{Kind: "self-connect", Op: "GetTime", TimeoutMs: 500}, scenario{Kind: "self-connect", Op: "OpenDoor", TimeoutMs: 400, Path: "any-bind", Debug: true})
	cases = append(cases, scenario{Kind: "flood-already-running", Op: "GetTime", TimeoutMs: 800, ReplyPct: 15}, scenario{Kind: "flood-already-running", Op: "OpenDoor", TimeoutMs: 600, ReplyPct: 40, Debug: true})
	for i, op := range []string{"SetListener", "SetAddress", "SetListener"} {
		cases = append(cases, scenario{Kind: "argument-sockets", Op: op, Path: []string{"udp", "tcp", "broadcast"}[i], TimeoutMs: 3000, Debug: i == 2})
	}
	// timeouts of a day .. 'for ever' with a prompt reply (milliseconds; 2^31 ms = 24.9 days, 2^32 ms = 49.7 days)
	generous := []int{86_400_000, 2_147_483_647, 2_147_483_648, 2_592_000_000, 3_888_000_000, 4_294_967_296, 4_294_967_297, 6_442_450_944, 31_536_000_000, 4_611_686_018_427, 9_223_372_036_854}
	for i, ms := range generous {
		if ev.Thorough() || (i+int(ev.Seed()))%2 == 0 {
			path := []string{"tcp", "udp", "broadcast"}[i%3]
			if ms == 2_592_000_000 || ms == 3_888_000_000 {
				path = "tcp"
			}
			cases = append(cases, scenario{Kind: "generous-timeout", Op: []string{"GetTime", "OpenDoor", "GetStatus"}[i%3], Path: path, TimeoutMs: ms, ReplyPct: i % 2, Debug: i%5 == 0})
		}
	}
	if ev.Thorough() {
		for _, ms := range generous {
			for _, path := range []string{"tcp", "udp", "broadcast"} {
				cases = append(cases, scenario{Kind: "generous-timeout", Op: "GetTime", Path: path, TimeoutMs: ms, ReplyPct: 1})
			}
		}
		for i, path := range []string{"udp", "tcp", "broadcast"} {
			cases = append(cases, scenario{Kind: "late-wrong-reply", Op: []string{"PutCard", "GetTime", "GetCardByID"}[i], Path: path, TimeoutMs: 1500, ReplyPct: 93})
		}
		for _, pct := range []int{125, 140, 70, 75} {
			cases = append(cases, scenario{Kind: "slow-connect", Op: "GetStatus", TimeoutMs: 1700, ReplyPct: pct})
		}
	}
	for i, c := range cases {
		if ev.Mine(i) && !yield(c) {
			return
		}
	}
}
