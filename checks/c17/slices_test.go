package c17

import (
	"fmt"
	"net"
	"time"

	"github.com/uhppoted/uhppote-core/types"
	"pgregory.net/rapid"

	"verif/harness/ev"
	"verif/harness/hook"
	"verif/harness/rp"
	"verif/harness/spec"
)

// Arguments that are slices (the passcode list, the card format list, the three IP addresses of SetAddress) are windows
// into storage the caller owns: neither the elements of the window nor the storage BEHIND it (spare capacity that an append
// would reach) may be written by the call.
type sliceCase struct {
	Op     string   `json:"op"`
	Before []uint32 `json:"storage"` // the caller's table (for IPs: byte values)
	From   int      `json:"from"`
	Len    int      `json:"len"`
	Door   uint8    `json:"door"`
}

func checkSlices(c sliceCase) *rp.Fail {
	ev.Case("slice-argument/"+c.Op, c.From+c.Len < len(c.Before), fmt.Sprintf("%+v", c))
	u, d := hook.Mem(hook.ClientCfg{})
	ok := make([]byte, 64)
	serial := uint32(405419896)
	var pn any
	run := func(f func()) {
		defer func() { pn = recover() }()
		f()
	}
	switch c.Op {
	case "SetDoorPasscodes":
		table := append([]uint32(nil), c.Before...)
		spec.Header(ok, 0x17, 0x8c, serial)
		ok[8] = 1
		d.Reset(ok)
		run(func() { u.SetDoorPasscodes(serial, c.Door, table[c.From:c.From+c.Len]...) })
		for i := range table {
			if table[i] != c.Before[i] {
				where := "the list that was passed"
				if i >= c.From+c.Len {
					where = "storage behind the list that was passed (its spare capacity)"
				}
				return rp.Failf("uhppote.SetDoorPasscodes/modifies-argument", "SetDoorPasscodes(door %d, table[%d:%d]...) changed element %d of the caller's table from %d to %d - %s", c.Door, c.From, c.From+c.Len, i, c.Before[i], table[i], where)
			}
		}
	case "PutCard":
		table := make([]types.CardFormat, len(c.Before))
		for i, v := range c.Before {
			// (defined formats and, one time in three, numbers that are no format: whatever the operation makes of them, the list stays
			// as the caller wrote it)
			if f := v % 6; f < 4 {
				table[i] = types.CardFormat(f % 2)
			} else {
				table[i] = types.CardFormat(v >> 3)
			}
		}
		before := append([]types.CardFormat(nil), table...)
		spec.Header(ok, 0x17, 0x50, serial)
		ok[8] = 1
		d.Reset(ok)
		card := types.Card{CardNumber: 10058400, From: types.ToDate(2024, time.January, 1), To: types.ToDate(2024, time.December, 31), Doors: map[uint8]uint8{1: 1, 2: 0, 3: 29, 4: 1}}
		run(func() { u.PutCard(serial, card, table[c.From:c.From+c.Len]...) })
		for i := range table {
			if table[i] != before[i] {
				return rp.Failf("uhppote.PutCard/modifies-argument", "PutCard(.., formats[%d:%d]...) changed element %d of the caller's format table", c.From, c.From+c.Len, i)
			}
		}
	case "SetAddress":
		// three IPs carved out of one byte table, each with spare capacity behind it
		table := make([]byte, len(c.Before))
		for i, v := range c.Before {
			table[i] = byte(v)
		}
		before := append([]byte(nil), table...)
		if len(table) < 16 {
			return nil
		}
		n := 4
		addr, mask, gw := net.IP(table[0:n]), net.IP(table[4:4+n]), net.IP(table[8:8+n])
		d.Reset()
		run(func() { u.SetAddress(serial, addr, mask, gw) })
		for i := range table {
			if table[i] != before[i] {
				return rp.Failf("uhppote.SetAddress/modifies-argument", "SetAddress changed byte %d of the storage its IP arguments were slices of", i)
			}
		}
	}
	if pn != nil {
		return rp.Failf("uhppote."+c.Op+"/panic", "%s panicked: %v", c.Op, pn)
	}
	return nil
}

func genSlices(t *rapid.T) sliceCase {
	c := sliceCase{Op: rapid.SampledFrom([]string{"SetDoorPasscodes", "SetDoorPasscodes", "PutCard", "SetAddress"}).Draw(t, "op"), Door: uint8(rapid.IntRange(1, 4).Draw(t, "door"))}
	n := rapid.IntRange(8, 16).Draw(t, "table")
	for i := 0; i < n; i++ {
		c.Before = append(c.Before, rapid.SampledFrom([]uint32{12345, 999999, 1000000, 7654321, 0, 54321, 111, 4294967295, 1}).Draw(t, "value"))
	}
	c.From = rapid.IntRange(0, 4).Draw(t, "from")
	c.Len = rapid.IntRange(0, 6).Draw(t, "len")
	if c.From+c.Len > n {
		c.Len = n - c.From
	}
	if c.Op == "SetAddress" {
		for i := range c.Before {
			c.Before[i] = uint32(rapid.IntRange(1, 254).Draw(t, "byte"))
		}
	}
	return c
}
