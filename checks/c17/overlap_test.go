package c17

import (
	"fmt"
	"sync"
	"time"

	"pgregory.net/rapid"

	"github.com/uhppoted/uhppote-core/types"

	"verif/harness/api"
	"verif/harness/ev"
	"verif/harness/hook"
	"verif/harness/rp"
	"verif/harness/spec"
)

// Discoveries that overlap in time on one client (a periodic refresh and a user's click): every caller's list is its own -
// when one caller masks the addresses of its entries in place, clears MAC addresses or sorts its list, the lists the other
// callers hold stay what they were, and stay what the replies said.
type overlapCase struct {
	Callers     int  `json:"callers"`
	Controllers int  `json:"controllers"`
	DwellMs     int  `json:"discovery_takes_ms"`
	StaggerMs   int  `json:"stagger_ms"` // caller i starts i*stagger after the first
	Debug       bool `json:"debug,omitempty"`
}

func checkOverlap(c overlapCase) *rp.Fail {
	ev.Case("overlapping-discoveries", true, fmt.Sprint(c))
	if ev.WantSample("overlapping-discoveries") {
		ev.Sample("overlapping-discoveries", c)
	}
	u, d := hook.Mem(hook.ClientCfg{Debug: c.Debug})
	var script [][]byte
	for i := 0; i < c.Controllers; i++ {
		b := validReply(spec.Call{Op: "GetDevices"}, i+1)
		spec.PutLE32(b[4:], uint32(405419896+i))
		script = append(script, b)
	}
	d.Reset(script...)
	d.Shared, d.Dwell = true, time.Duration(c.DwellMs)*time.Millisecond
	lists := make([][]types.Device, c.Callers)
	errs := make([]error, c.Callers)
	panics := make([]any, c.Callers)
	var wg sync.WaitGroup
	start := make(chan struct{})
	for i := 0; i < c.Callers; i++ {
		wg.Add(1)
		go func(i int) {
			defer wg.Done()
			defer func() { panics[i] = recover() }()
			<-start
			time.Sleep(time.Duration(i*c.StaggerMs) * time.Millisecond)
			lists[i], errs[i] = u.GetDevices()
		}(i)
	}
	close(start)
	wg.Wait()
	render := func(l []types.Device) string {
		s := ""
		for _, dv := range l {
			s += api.DeviceRec(dv).String() + "\n"
		}
		return s
	}
	want := ""
	for i := 0; i < c.Callers; i++ {
		if panics[i] != nil {
			return rp.Failf("overlap/panic", "caller %d: GetDevices panicked: %v", i, panics[i])
		}
		if errs[i] != nil || len(lists[i]) != c.Controllers {
			return rp.Failf("overlap/wrong-list", "caller %d of %d overlapping discoveries got %d controllers (error %v), %d answered every broadcast", i, c.Callers, len(lists[i]), errs[i], c.Controllers)
		}
		if i == 0 {
			want = render(lists[0])
		} else if got := render(lists[i]); got != want {
			return rp.Failf("overlap/wrong-list", "caller %d of %d overlapping discoveries got\n%s, caller 0 got\n%s (the same controllers answered every broadcast)", i, c.Callers, got, want)
		}
	}
	// caller 0 works on its list in place
	mutateValue(lists[0])
	for i := range lists[0] {
		for k := range lists[0][i].MacAddress {
			lists[0][i].MacAddress[k] = 0
		}
		lists[0][i].Name = "mine"
	}
	if len(lists[0]) > 1 {
		lists[0][0], lists[0][len(lists[0])-1] = lists[0][len(lists[0])-1], lists[0][0]
	}
	for i := 1; i < c.Callers; i++ {
		if got := render(lists[i]); got != want {
			return rp.Failf("overlap/lists-share-storage", "after caller 0 modified its list in place (addresses masked, MAC addresses cleared, first and last entry swapped) the list of caller %d changed:\n  before: %s  now:    %s", i, want, got)
		}
	}
	return nil
}

func genOverlap(t *rapid.T) overlapCase {
	return overlapCase{Callers: rapid.IntRange(2, 4).Draw(t, "callers"), Controllers: rapid.IntRange(1, 5).Draw(t, "controllers"), DwellMs: rapid.SampledFrom([]int{5, 20, 40}).Draw(t, "dwell"),
		StaggerMs: rapid.SampledFrom([]int{0, 0, 1, 3, 10}).Draw(t, "stagger"), Debug: rapid.IntRange(0, 4).Draw(t, "debug") == 0}
}
