// C17 - clients are insulated from later input changes, results from network buffers.
package c17

import (
	"fmt"
	codec "github.com/uhppoted/uhppote-core/encoding/UTO311-L0x"
	"github.com/uhppoted/uhppote-core/messages"
	"net/netip"
	"os"
	"reflect"
	"runtime"
	"sort"
	"strings"
	"sync"
	"testing"
	"time"

	"github.com/uhppoted/uhppote-core/types"
	"github.com/uhppoted/uhppote-core/uhppote"
	"pgregory.net/rapid"

	"verif/harness/api"
	"verif/harness/ev"
	"verif/harness/gen"
	"verif/harness/hook"
	"verif/harness/rp"
	"verif/harness/spec"
)

func TestMain(m *testing.M) {
	time.Local = time.UTC
	ev.Describe("histories of up to 30 steps over one client built from a caller-owned device slice: {mutate the caller's slice entries (id, address, protocol, name), overwrite its door-name slices, replace/delete/alter entries of the map returned by DeviceList, call operations with argument snapshots, overwrite every buffer the transport handed out with 0xA5 and re-read earlier results, mutate returned values and call again, push events through the listener's reused buffer, clone cards and devices and mutate either side}. Oracle: the route (driver method + destination) of every call equals the route implied by the construction-time configuration; deep copies of card/profile/task/map arguments taken before a call equal the arguments after it (nil stays nil); the canonical form of every result taken at return equals its canonical form after the buffers were overwritten; clone and original are equal and then independent. Non-trivial = a history containing a mutation followed by an observation of the mutated object's consumer; distinct = distinct history.",
		"hook layer (in-memory driver); the real listener's buffer reuse is covered by C10 on sockets")
	ev.Main(m, "C17")
}

type step struct {
	Kind string   `json:"kind"`
	I    int      `json:"i"`
	J    int      `json:"j"`
	Case api.Case `json:"case"`
}

type history struct {
	Cfg   hook.ClientCfg `json:"cfg"`
	Steps []step         `json:"steps"`
}

func validReply(c spec.Call, n int) []byte {
	l, ok := spec.Responses[c.Op]
	if !ok {
		return nil
	}
	b := make([]byte, 64)
	spec.Header(b, 0x17, l.Code, c.Serial)
	// every field non-zero and in-domain
	for i, f := range l.Fields {
		p := b[f.Off:]
		switch f.Kind {
		case spec.U8:
			p[0] = byte(3 + i + n)
		case spec.U32:
			spec.PutLE32(p, uint32(0x01020304+(i+n)*0x01010101))
		case spec.Bool:
			p[0] = byte((i + n) % 2)
		case spec.IPv4:
			copy(p, []byte{192, 168, byte(i + n), 100})
			if n%2 == 1 {
				// the addresses every program has a shared copy of (unset, broadcast, loopback, multicast groups, common masks)
				copy(p, wellKnown[(i+n/2)%len(wellKnown)])
			}
		case spec.AddrPort:
			copy(p, []byte{192, 168, byte(n), 100, 0x61, 0xea})
			if n%4 == 3 {
				copy(p, wellKnown[(i+n/4)%len(wellKnown)])
			}
		case spec.MAC:
			copy(p, []byte{0x00, 0x66, 0x19, 0x39, 0x55, byte(0x2d + n)})
		case spec.Version:
			p[0], p[1] = 0x08, 0x92
		case spec.PIN:
			copy(p, []byte{0x40, 0xe2, 0x01})
		case spec.HHmm:
			spec.PutHM(p, spec.HM{H: 8 + (i+n)%10, M: 30})
		case spec.Date:
			spec.PutDate(p, spec.Civil{Y: 2024, M: 2, D: 1 + (i+n)%28})
		case spec.DateTime:
			spec.PutDateTime(p, spec.CivilDT{Y: 2023, M: 11, D: 30, H: 13, Mi: 14, S: (15 + n) % 60})
		case spec.SysDate:
			p[0], p[1], p[2] = 0x24, 0x12, 0x31
		case spec.SysTime:
			p[0], p[1], p[2] = 0x23, 0x59, 0x58
		}
	}
	switch c.Op {
	case "GetCardByID":
		spec.PutLE32(b[8:], c.Card)
		if c.Card == 0 || c.Card == 0xffffffff {
			spec.PutLE32(b[8:], 0)
		}
	case "GetTimeProfile":
		b[8] = c.Profile
	}
	return b
}

var wellKnown = [][]byte{{0, 0, 0, 0}, {255, 255, 255, 255}, {127, 0, 0, 1}, {224, 0, 0, 1}, {224, 0, 0, 2}, {255, 255, 255, 0}, {255, 0, 0, 0}, {255, 255, 0, 0}}

type held struct {
	res   api.Result
	canon string
	what  string
}

type evRec struct {
	mu     sync.Mutex
	events []*types.Status
	ch     chan struct{}
}

func (r *evRec) OnConnected() {}
func (r *evRec) OnEvent(s *types.Status) {
	r.mu.Lock()
	r.events = append(r.events, s)
	ch := r.ch
	r.mu.Unlock()
	if ch != nil {
		select {
		case ch <- struct{}{}:
		default:
		}
	}
}

// waitCount waits (without polling) until n events have been recorded or the time is up.
func (r *evRec) waitCount(n int, limit time.Duration) {
	deadline := time.After(limit)
	for r.count() < n {
		select {
		case <-r.ch:
		case <-deadline:
			return
		}
	}
}
func (r *evRec) OnError(error) bool { return true }
func (r *evRec) count() int {
	r.mu.Lock()
	defer r.mu.Unlock()
	return len(r.events)
}
func (r *evRec) at(i int) *types.Status {
	r.mu.Lock()
	defer r.mu.Unlock()
	return r.events[i]
}

func deepArgs(cs api.Case) []any {
	card := api.Card(cs.Call, cs.V)
	prof := api.Profile(cs.Call, cs.V)
	task := api.Task(cs.Call, cs.V)
	readers := api.Readers(cs.Call, cs.V)
	return []any{card, prof, task, readers}
}

func checkHistory(h history) *rp.Fail {
	devices := h.Cfg.Devices_()
	u, d := hook.MemWith(h.Cfg, devices)
	mutated, observedAfterMutation := false, false
	var results []held
	var rec *evRec
	var q chan os.Signal
	var done chan error
	defer func() {
		if q != nil {
			close(q)
			<-done
		}
	}()
	serials := []uint32{}
	for _, dv := range h.Cfg.Devices {
		serials = append(serials, dv.Serial)
	}
	serials = append(serials, 999001, 999002, 424242) // 424242 is the entry the history may insert into a DeviceList() map
	// the configuration as the client reports it right after construction: whatever the caller does to ITS data afterwards
	// (device list, door-name slices, maps returned earlier), the client reports the same configuration
	configured := listCanon(u.DeviceList())

	recheck := func(stage string) *rp.Fail {
		for _, r := range results {
			if got := r.res.Rec.String(); got != r.canon {
				return rp.Failf("result/changed-after-return", "%s: result of %s changed %s:\n  at return: %s\n  now:       %s", stage, r.what, stage, r.canon, got)
			}
		}
		return nil
	}

	for n, s := range h.Steps {
		switch s.Kind {
		case "mutate-slice":
			if len(devices) > 0 {
				i := s.I % len(devices)
				switch s.J % 4 {
				case 0:
					devices[i].DeviceID ^= 0x55
				case 1:
					devices[i].Address = types.ControllerAddrFrom(netip.AddrFrom4([4]byte{172, 16, 0, byte(s.J)}), 54321)
				case 2:
					if devices[i].Protocol == "tcp" {
						devices[i].Protocol = "udp"
					} else {
						devices[i].Protocol = "tcp"
					}
				default:
					devices[i] = uhppote.Device{}
				}
				mutated = true
			}
		case "mutate-doors":
			if len(devices) > 0 {
				i := s.I % len(devices)
				for j := range devices[i].Doors {
					devices[i].Doors[j] = "overwritten"
				}
				mutated = true
			}
		case "mutate-devicelist":
			m := u.DeviceList()
			for k, v := range m {
				// appending to a returned door list (and writing into whatever spare capacity it has) is the caller's business only
				if s.I%3 != 1 {
					if full := v.Doors[:cap(v.Doors)]; len(full) > len(v.Doors) {
						for i := len(v.Doors); i < len(full); i++ {
							full[i] = "written into spare capacity"
						}
					}
					v.Doors = append(v.Doors, "appended by the caller", "and another")
					m[k] = v
				}
				switch s.J % 3 {
				case 0:
					delete(m, k)
				case 1:
					v.Address = types.ControllerAddrFrom(netip.AddrFrom4([4]byte{172, 16, 1, byte(s.J)}), 12345)
					v.Protocol = "tcp"
					v.DeviceID ^= 1
					m[k] = v
				default:
					m[k^1] = v
				}
				if s.I%2 == 0 {
					break
				}
			}
			m[424242] = uhppote.Device{DeviceID: 424242, Address: types.ControllerAddrFrom(netip.AddrFrom4([4]byte{1, 2, 3, 4}), 5), Protocol: "tcp"}
			mutated = true
		case "call":
			cs := s.Case
			if cs.Call.Op != "GetDevices" {
				cs.Call.Serial = serials[s.I%len(serials)]
				if s.J%3 == 0 {
					cs.Call.Serial ^= 0x55 // a serial a slice mutation may have introduced
				}
				if cs.Call.Serial == 0 {
					cs.Call.Serial = 1
				}
			}
			before := deepArgs(cs)
			// the arguments are rebuilt from the case, so keep the very objects that are passed: Invoke builds them
			// again - instead pass through and compare observable equality of a second build after the call
			d.Reset(validReply(cs.Call, n))
			var res api.Result
			wantMethod, wantAddr := h.Cfg.Route(cs.Call.Serial, cs.Call.Op == "GetDevices")
			if cs.Call.Op == "GetDevices" && s.J%2 == 0 {
				// the same controller answers twice with byte-identical replies (a multi-homed host, a bridged network), another one
				// in between: three entries, each with storage of its own
				first, other := validReply(cs.Call, n), validReply(cs.Call, n+5)
				spec.PutLE32(other[4:], cs.Call.Serial^0x0f0f)
				d.Reset(first, other, append([]byte(nil), first...))
				list, err := u.GetDevices()
				if err == nil && len(list) == 3 {
					want := api.DeviceRec(list[2]).String()
					mutateValue(list[:1])
					for i := range list[0].MacAddress {
						list[0].MacAddress[i] = 0xe0
					}
					if got := api.DeviceRec(list[2]).String(); got != want {
						return rp.Failf("result/entries-share-storage", "step %d: GetDevices returned three entries (the first and the third from byte-identical replies); modifying the addresses of the first in place changed the third:\n  before: %s\n  now:    %s", n, want, got)
					}
				}
				d.Reset(validReply(cs.Call, n))
			}
			if cs.Call.Op == "GetDevices" {
				list, err := u.GetDevices()
				res.Err = err
				res.Rec = spec.Rec{}
				for i, dv := range list {
					for k, v := range api.DeviceRec(dv) {
						res.Rec[fmt.Sprintf("%d.%s", i, k)] = v
					}
				}
				res.Value = list
			} else {
				res = invokeWithArgCheck(u, cs, before)
			}
			if res.Panic != nil {
				return rp.Failf("uhppote."+cs.Call.Op+"/panic", "step %d: %v", n, res.Panic)
			}
			if f, ok := res.Value.(*rp.Fail); ok {
				return f
			}
			sends := d.Sends()
			if len(sends) == 1 {
				if sends[0].Method != wantMethod || sends[0].Addr != wantAddr {
					return rp.Failf("route/changed-by-later-mutation", "step %d: %s for controller %d went to %s %s; the configuration the client was built with routes it to %s %s", n, cs.Call.Op, cs.Call.Serial, sends[0].Method, sends[0].Addr, wantMethod, wantAddr)
				}
				if mutated {
					observedAfterMutation = true
				}
			}
			// the values are those of the reply (whatever the caller did to earlier results)
			if res.Err == nil && !res.Nil && res.Rec != nil && len(sends) == 1 && (cs.Call.Op == "GetDevice" || cs.Call.Op == "GetDevices" || cs.Call.Op == "GetListener") {
				want := spec.Decode(cs.Call, spec.Config{}, validReply(cs.Call, n)).Rec
				for _, k := range []string{"serial", "address", "mask", "gateway", "mac", "version", "date", "listener", "interval"} {
					w, ok := want[k]
					g, ok2 := res.Rec[k]
					if cs.Call.Op == "GetDevices" {
						g, ok2 = res.Rec["0."+k]
					}
					if ok && ok2 && g != w {
						return rp.Failf("result/wrong-value-after-earlier-mutation", "step %d: %s returned %s = %q, the reply says %q (mutated earlier results: %v)", n, cs.Call.Op, k, g, w, mutated)
					}
				}
			}
			// appending to one of the returned addresses (to build a key, a log line) is the caller's business: the other values of
			// the same result stay what they were
			if dev, ok := res.Value.(*types.Device); ok && dev != nil && res.Err == nil {
				want := api.DeviceRec(*dev).String()
				_ = append(dev.IpAddress, 0xde, 0xad, 0xbe, 0xef, 1, 2, 3, 4, 5, 6, 7, 8, 9, 10, 11, 12, 13, 14, 15, 16)
				_ = append(dev.SubnetMask, 0xfe, 0xed, 0xfa, 0xce, 1, 2, 3, 4, 5, 6, 7, 8, 9, 10, 11, 12, 13, 14, 15, 16)
				_ = append(dev.MacAddress, 0xaa, 0xbb, 0xcc, 0xdd, 0xee, 0xff, 1, 2, 3, 4)
				if got := api.DeviceRec(*dev).String(); got != want {
					return rp.Failf("result/values-share-a-backing-array", "step %d: appending to the IP address / subnet mask / MAC address that %s returned changed another value of the same result:\n  before: %s\n  now:    %s", n, cs.Call.Op, want, got)
				}
			}
			if res.Err == nil && !res.Nil && res.Rec != nil && len(sends) == 1 {
				if v := reflect.ValueOf(res.Value); s.J%2 == 0 && v.Kind() == reflect.Ptr && !v.IsNil() && v.Elem().Kind() == reflect.Struct {
					// the application keeps the RECORD (`d := *device`), not the pointer it was handed: the pointer becomes garbage - the
					// record's addresses, maps and dates are still the application's
					cp := reflect.New(v.Elem().Type())
					cp.Elem().Set(v.Elem())
					res.Value = cp.Interface()
					ev.Class("results/kept-as-a-copy-of-the-struct", 1)
				}
				results = append(results, held{res, res.Rec.String(), fmt.Sprintf("%s (step %d)", cs.Call.Op, n)})
			}
		case "scribble":
			d.Scribble(0xa5)
			if len(results) > 0 {
				observedAfterMutation = true
			}
			if f := recheck("after the delivered network buffers were overwritten"); f != nil {
				return f
			}
		case "listen-addr-list":
			// the list of addresses the client listens on is handed out as the caller's own: overwriting it changes neither a list
			// handed out earlier nor the next one
			l1 := u.ListenAddrList()
			keep := append([]netip.AddrPort(nil), l1...)
			l0 := u.ListenAddrList()
			for i := range l1 {
				l1[i] = netip.AddrPortFrom(netip.AddrFrom4([4]byte{203, 0, 113, 99}), 9)
			}
			l2 := u.ListenAddrList()
			if fmt.Sprint(l2) != fmt.Sprint(keep) || fmt.Sprint(l0) != fmt.Sprint(keep) {
				return rp.Failf("result/listen-address-list-shared", "step %d: ListenAddrList() returned %v; after the caller overwrote that list in place, a list handed out at the same time reads %v and the next call returns %v", n, keep, l0, l2)
			}
			if len(keep) > 0 {
				observedAfterMutation = true
			}
		case "gc":
			// garbage collections (finalizers run in between) and a burst of other decodes: what the caller holds stays what it was
			runtime.GC()
			time.Sleep(time.Millisecond)
			runtime.GC()
			checkReusedVariable(n)
			if len(results) > 0 {
				observedAfterMutation = true
			}
			if f := recheck("after garbage collections"); f != nil {
				return f
			}
		case "mutate-returned":
			// a second call must not be influenced by what the caller did to an earlier result
			if len(results) > 0 {
				r := results[s.I%len(results)]
				mutateValue(r.res.Value)
				results = append(results[:s.I%len(results)], results[s.I%len(results)+1:]...)
				mutated = true
			}
		case "listen":
			if rec == nil {
				rec = &evRec{ch: make(chan struct{}, 64)}
				q = make(chan os.Signal)
				done = make(chan error, 1)
				go func() { done <- u.Listen(rec, q) }()
				for i := 0; i < 20000; i++ {
					var p any
					func() {
						defer func() { p = recover() }()
						d.Push(nil)
					}()
					if p == nil {
						break
					}
					time.Sleep(20 * time.Microsecond)
				}
			}
			evt := make([]byte, 64)
			copy(evt, validReply(spec.Call{Op: "GetStatus", Serial: 405419896 + uint32(n)}, n))
			have := rec.count()
			d.Push(evt)
			rec.waitCount(have+1, 800*time.Millisecond)
			if rec.count() != have+1 {
				return rp.Failf("uhppote.Listen/no-event", "step %d: pushed a valid event, got %d new callbacks", n, rec.count()-have)
			}
			st := rec.at(have)
			if s.J%3 == 0 {
				// the very same datagram again (a retransmission): the listener has meanwhile modified the status it was given
				// for the first one - the second callback gets a status of its own, with the values of the datagram
				want := api.StatusRec(*st).String()
				mutateValue(st)
				st.Event.Index ^= 0x5a5a
				st.SequenceId = 0
				d.Push(evt)
				rec.waitCount(have+2, 800*time.Millisecond)
				if rec.count() != have+2 {
					return rp.Failf("uhppote.Listen/no-event", "step %d: pushed the same valid event a second time, got %d new callbacks", n, rec.count()-have-1)
				}
				second := rec.at(have + 1)
				if second == st {
					return rp.Failf("uhppote.Listen/same-status-delivered-twice", "step %d: two consecutive byte-identical events were delivered as the very same *types.Status", n)
				}
				if got := api.StatusRec(*second).String(); got != want {
					return rp.Failf("uhppote.Listen/event-shares-storage-with-earlier-event", "step %d: the second of two byte-identical events was delivered after the listener had modified the status of the first; it carries\n  %s\nthe datagram says\n  %s", n, got, want)
				}
				st = second
			}
			results = append(results, held{api.Result{Rec: api.StatusRec(*st), Value: st}, api.StatusRec(*st).String(), fmt.Sprintf("listener event (step %d)", n)})
			// re-reading st later re-computes the record from the same object:
		case "clone":
			if f := checkClones(s); f != nil {
				return f
			}
			if f := checkReusedVariable(n); f != nil {
				return f
			}
			observedAfterMutation = true
		}
		if now := listCanon(u.DeviceList()); now != configured {
			return rp.Failf("configuration/changed-by-later-mutation", "step %d (%s): the client's configuration as reported by DeviceList() changed after the caller modified its own data:\n  at construction: %s\n  now:             %s", n, s.Kind, configured, now)
		}
		// results are re-canonicalised from the live objects
		for i := range results {
			if r := recanon(results[i].res.Value); r != nil {
				results[i].res.Rec = r
			}
		}
		if f := recheck("later"); f != nil {
			return f
		}
	}
	class := "history/no-mutation-observed"
	if observedAfterMutation {
		class = "history/mutation-then-observation"
	}
	ev.Case(class, observedAfterMutation, fmt.Sprintf("%+v", h))
	if ev.WantSample(class) {
		ev.Sample(class, h)
	}
	return nil
}

func listCanon(m map[uint32]uhppote.Device) string {
	keys := make([]uint32, 0, len(m))
	for k := range m {
		keys = append(keys, k)
	}
	sort.Slice(keys, func(i, j int) bool { return keys[i] < keys[j] })
	var b strings.Builder
	for _, k := range keys {
		d := m[k]
		tz := "<nil>"
		if d.TimeZone != nil {
			tz = d.TimeZone.String()
		}
		fmt.Fprintf(&b, "[%d: name=%q id=%d address=%v doors=%q protocol=%q tz=%s]", k, d.Name, d.DeviceID, d.Address, d.Doors, d.Protocol, tz)
	}
	return b.String()
}

// recanon recomputes the canonical record from the live returned object.
func recanon(v any) spec.Rec {
	switch x := v.(type) {
	case *types.Device:
		return api.DeviceRec(*x)
	case []types.Device:
		r := spec.Rec{}
		for i, dv := range x {
			for k, v := range api.DeviceRec(dv) {
				r[fmt.Sprintf("%d.%s", i, k)] = v
			}
		}
		return r
	case *types.Status:
		return api.StatusRec(*x)
	case *types.Card:
		return api.CardRec(*x)
	case *types.TimeProfile:
		return api.ProfileRec(*x)
	case *types.Time:
		return spec.Rec{"serial": fmt.Sprint(uint32(x.SerialNumber)), "datetime": api.DateTimeText(x.DateTime)}
	case *types.Event:
		return spec.Rec{"serial": fmt.Sprint(uint32(x.SerialNumber)), "index": fmt.Sprint(x.Index), "type": fmt.Sprint(x.Type), "granted": fmt.Sprint(x.Granted), "door": fmt.Sprint(x.Door),
			"direction": fmt.Sprint(x.Direction), "card": fmt.Sprint(x.CardNumber), "timestamp": api.DateTimeText(x.Timestamp), "reason": fmt.Sprint(x.Reason)}
	case *types.DoorControlState:
		return spec.Rec{"serial": fmt.Sprint(uint32(x.SerialNumber)), "door": fmt.Sprint(x.Door), "state": fmt.Sprint(int(x.ControlState)), "delay": fmt.Sprint(x.Delay)}
	}
	return nil // plain values (bool, uint32, netip.AddrPort): nothing that could change after return
}

func mutateValue(v any) {
	switch x := v.(type) {
	case *types.Device:
		for i := range x.IpAddress {
			x.IpAddress[i] = 0xee
		}
		for i := range x.MacAddress {
			x.MacAddress[i] = 0xee
		}
		for i := range x.SubnetMask {
			x.SubnetMask[i] = 0xed
		}
		for i := range x.Gateway {
			x.Gateway[i] = 0xec
		}
	case []types.Device:
		for _, dv := range x {
			for i := range dv.IpAddress {
				dv.IpAddress[i] = 0xee
			}
			for i := range dv.SubnetMask {
				dv.SubnetMask[i] = 0xed
			}
			for i := range dv.Gateway {
				dv.Gateway[i] = 0xec
			}
			for i := range dv.MacAddress {
				dv.MacAddress[i] = 0xeb
			}
		}
	case *types.Status:
		x.DoorState[1], x.DoorButton[4] = !x.DoorState[1], !x.DoorButton[4]
		x.DoorState[9] = true
	case *types.Card:
		x.Doors[1] = 0xee
	case *types.TimeProfile:
		x.Weekdays[time.Monday] = !x.Weekdays[time.Monday]
		x.Segments[1] = types.Segment{}
	}
}

// invokeWithArgCheck calls the operation with argument objects the harness keeps a handle on and
// verifies afterwards that the callee did not modify them.
func invokeWithArgCheck(u uhppote.IUHPPOTE, cs api.Case, _ []any) (res api.Result) {
	defer func() {
		if r := recover(); r != nil {
			res = api.Result{Panic: r}
		}
	}()
	c, v := cs.Call, cs.V
	fail := func(what string, before, after any) api.Result {
		return api.Result{Value: rp.Failf("uhppote."+c.Op+"/modifies-argument", "%s modified its %s argument: before %+v, after %+v", c.Op, what, before, after)}
	}
	switch c.Op {
	case "PutCard":
		card := api.Card(c, v)
		snapshot := api.Card(c, v)
		_, err := u.PutCard(c.Serial, card)
		if !reflect.DeepEqual(card.Doors, snapshot.Doors) || (card.Doors == nil) != (snapshot.Doors == nil) || card.CardNumber != snapshot.CardNumber || card.PIN != snapshot.PIN ||
			api.DateText(card.From) != api.DateText(snapshot.From) || api.DateText(card.To) != api.DateText(snapshot.To) {
			return fail("card", snapshot, card)
		}
		return api.Result{Err: err, Nil: true}
	case "SetTimeProfile":
		p := api.Profile(c, v)
		snapshot := api.Profile(c, v)
		_, err := u.SetTimeProfile(c.Serial, p)
		if !reflect.DeepEqual(p.Weekdays, snapshot.Weekdays) || !reflect.DeepEqual(p.Segments, snapshot.Segments) || (p.Weekdays == nil) != (snapshot.Weekdays == nil) {
			return fail("profile", snapshot, p)
		}
		return api.Result{Err: err, Nil: true}
	case "AddTask":
		task := api.Task(c, v)
		snapshot := api.Task(c, v)
		_, err := u.AddTask(c.Serial, task)
		if !reflect.DeepEqual(task.Weekdays, snapshot.Weekdays) || (task.Weekdays == nil) != (snapshot.Weekdays == nil) || task.Door != snapshot.Door || task.Task != snapshot.Task {
			return fail("task", snapshot, task)
		}
		return api.Result{Err: err, Nil: true}
	case "ActivateKeypads":
		readers := api.Readers(c, v)
		snapshot := api.Readers(c, v)
		_, err := u.ActivateKeypads(c.Serial, readers)
		if !reflect.DeepEqual(readers, snapshot) || (readers == nil) != (snapshot == nil) {
			return fail("readers", snapshot, readers)
		}
		return api.Result{Err: err, Nil: true}
	case "SetAddress":
		a, m, g := append([]byte(nil), c.Address[:]...), append([]byte(nil), c.Mask[:]...), append([]byte(nil), c.Gateway[:]...)
		_, err := u.SetAddress(c.Serial, a, m, g)
		if string(a) != string(c.Address[:]) || string(m) != string(c.Mask[:]) || string(g) != string(c.Gateway[:]) {
			return fail("address", c.Address, a)
		}
		// ... and in the other forms a net.IP / net.IPMask comes in (whether the call accepts them or not): 16 bytes IPv4-mapped,
		// the 16-byte mask of an IPv6-notation prefix (twelve 0xff bytes, then the IPv4 mask), 16 arbitrary bytes, nil - each with
		// spare capacity behind it. The caller's bytes stay what they were.
		forms := func(b [4]byte, k int) []byte {
			var x []byte
			switch k % 5 {
			case 0:
				x = append(append([]byte{0, 0, 0, 0, 0, 0, 0, 0, 0, 0, 0xff, 0xff}, b[:]...), 0x5a, 0x5a, 0x5a, 0x5a)[:16]
			case 1:
				x = append(append([]byte{0xff, 0xff, 0xff, 0xff, 0xff, 0xff, 0xff, 0xff, 0xff, 0xff, 0xff, 0xff}, b[:]...), 0x5a, 0x5a)[:16]
			case 2:
				x = append([]byte{b[0], b[1], b[2], b[3], 9, 8, 7, 6, 5, 4, 3, 2, 1, 0, b[3], b[0]}, 0x5a)[:16]
			case 3:
				x = append(append([]byte(nil), b[:]...), 0x5a, 0x5a, 0x5a, 0x5a, 0x5a, 0x5a, 0x5a, 0x5a, 0x5a, 0x5a, 0x5a, 0x5a)[:4]
			default:
				return nil
			}
			return x
		}
		for k := 0; k < 5; k++ {
			args := [3][]byte{forms(c.Address, k), forms(c.Mask, k+1), forms(c.Gateway, k+2)}
			var before [3]string
			for i, x := range args {
				before[i] = string(x[:cap(x)])
			}
			func() {
				defer func() { recover() }()
				u.SetAddress(c.Serial, args[0], args[1], args[2])
			}()
			for i, x := range args {
				if string(x[:cap(x)]) != before[i] {
					return fail([]string{"address", "subnet mask", "gateway"}[i], []byte(before[i]), x[:cap(x)])
				}
			}
		}
		return api.Result{Err: err, Nil: true}
	}
	return api.Invoke(u, cs)
}

func checkClones(s step) *rp.Fail {
	c := s.Case.Call
	v := s.Case.V
	card := api.Card(c, v)
	clone := card.Clone()
	if api.CardRec(card).String() != api.CardRec(clone).String() {
		return rp.Failf("types.Card.Clone/not-equal", "clone %v differs from original %v", api.CardRec(clone), api.CardRec(card))
	}
	before := api.CardRec(card).String()
	clone.Doors[1] ^= 0xff
	clone.Doors[3] = 77
	if api.CardRec(card).String() != before {
		return rp.Failf("types.Card.Clone/shares-storage", "mutating the clone's doors changed the original: %v -> %v", before, api.CardRec(card))
	}
	if card.Doors != nil {
		cb := api.CardRec(clone).String()
		card.Doors[2] ^= 0xff
		if api.CardRec(clone).String() != cb {
			return rp.Failf("types.Card.Clone/shares-storage", "mutating the original's doors changed the clone")
		}
	}
	dev := uhppote.Device{Name: "D", DeviceID: c.Serial, Address: types.ControllerAddrFrom(netip.AddrFrom4(c.Address), c.Port), Doors: []string{"a", "b", "c", "d", "e", "f", "g", "h", "i"}[:s.I%10], Protocol: "udp", TimeZone: time.UTC}
	dc := dev.Clone()
	if dc.Name != dev.Name || dc.DeviceID != dev.DeviceID || dc.Address != dev.Address || dc.Protocol != dev.Protocol || dc.TimeZone != dev.TimeZone || !reflect.DeepEqual(append([]string{}, dc.Doors...), append([]string{}, dev.Doors...)) {
		return rp.Failf("uhppote.Device.Clone/not-equal", "clone %+v differs from original %+v", dc, dev)
	}
	for i := range dc.Doors {
		dc.Doors[i] = "changed"
	}
	// appending to the clone's door list must not write into spare capacity of the original's backing array
	dc.Doors = append(dc.Doors, "appended-to-clone")
	if full := dev.Doors[:cap(dev.Doors)]; len(full) > len(dev.Doors) && full[len(dev.Doors)] == "appended-to-clone" {
		return rp.Failf("uhppote.Device.Clone/shares-storage", "appending to the clone's door names wrote into the original's backing array (len %d, cap %d)", len(dev.Doors), cap(dev.Doors))
	}
	for i, n := range dev.Doors {
		if n != []string{"a", "b", "c", "d", "e", "f", "g", "h", "i"}[i] {
			return rp.Failf("uhppote.Device.Clone/shares-storage", "mutating the clone's door names changed the original: %v", dev.Doors)
		}
	}
	return nil
}

// checkReusedVariable: a reply decoded into a variable that already holds an earlier reply (a receive loop with one variable)
// - the earlier value, kept as a copy of the struct, is not affected by the later decode.
func checkReusedVariable(n int) *rp.Fail {
	for _, x := range []struct {
		op string
		v  any
	}{{"GetDevice", &messages.GetDeviceResponse{}}, {"GetStatus", &messages.GetStatusResponse{}}, {"GetCardByID", &messages.GetCardByIDResponse{}},
		{"GetTimeProfile", &messages.GetTimeProfileResponse{}}, {"GetListener", &messages.GetListenerResponse{}}, {"GetTime", &messages.GetTimeResponse{}}, {"GetEvent", &messages.GetEventResponse{}}} {
		call := spec.Call{Op: x.op, Serial: 405419896, Card: 8165537, Profile: 29, Index: 17}
		first, second := validReply(call, n), validReply(call, n+3)
		if first == nil {
			continue
		}
		if err := codec.Unmarshal(append([]byte(nil), first...), x.v); err != nil {
			continue
		}
		kept := reflect.New(reflect.TypeOf(x.v).Elem()).Elem()
		kept.Set(reflect.ValueOf(x.v).Elem())
		before := fmt.Sprintf("%+v", derefAll(kept))
		if err := codec.Unmarshal(append([]byte(nil), second...), x.v); err != nil {
			continue
		}
		if now := fmt.Sprintf("%+v", derefAll(kept)); now != before {
			return rp.Failf("result/changed-by-next-decode-into-the-same-variable", "%s: a copy of the reply decoded from %x changed when the next reply %x was decoded into the same variable:\n  before: %s\n  now:    %s", x.op, first, second, before, now)
		}
	}
	return nil
}

// derefAll renders a struct with pointer fields followed (fmt prints pointers as addresses).
func derefAll(v reflect.Value) string {
	var b strings.Builder
	for i := 0; i < v.NumField(); i++ {
		f := v.Field(i)
		if !v.Type().Field(i).IsExported() {
			continue
		}
		for f.Kind() == reflect.Ptr && !f.IsNil() {
			f = f.Elem()
		}
		if f.Kind() == reflect.Struct && f.Type().PkgPath() != "time" && f.NumField() > 0 && f.Type().Field(0).IsExported() {
			fmt.Fprintf(&b, "%s:{%s} ", v.Type().Field(i).Name, derefAll(f))
			continue
		}
		fmt.Fprintf(&b, "%s:%v ", v.Type().Field(i).Name, f.Interface())
	}
	return b.String()
}

func genHistory(t *rapid.T) history {
	h := history{}
	if rapid.Bool().Draw(t, "has_broadcast") {
		h.Cfg.HasBroadcast, h.Cfg.BroadcastIP, h.Cfg.BroadcastPort = true, [4]byte{192, 168, 1, 255}, 60000
	}
	h.Cfg.HasListen, h.Cfg.ListenIP, h.Cfg.ListenPort = true, [4]byte{127, 0, 0, 1}, 60001
	if rapid.Bool().Draw(t, "listen.any") {
		h.Cfg.ListenIP = [4]byte{0, 0, 0, 0} // (every interface: ListenAddrList enumerates them)
	}
	n := rapid.IntRange(0, 4).Draw(t, "devices")
	seen := map[uint32]bool{}
	for i := 0; i < n; i++ {
		s := gen.Serial(t)
		if seen[s] || seen[s^0x55] || seen[s^1] {
			continue
		}
		seen[s] = true
		dv := hook.DeviceCfg{Name: fmt.Sprintf("dev%d", i), Serial: s, Doors: []string{"front", "back", "side", "garage", "roof", "cellar", "gate", "dock"}[:rapid.SampledFrom([]int{0, 1, 2, 3, 4, 4, 4, 5, 6, 8}).Draw(t, "doors")]}
		switch rapid.IntRange(0, 3).Draw(t, "kind") {
		case 0:
		case 1:
			dv.HasAddr, dv.IP, dv.Port, dv.Protocol = true, [4]byte{10, 0, 0, byte(10 + i)}, 60000, "udp"
		case 2:
			dv.HasAddr, dv.IP, dv.Port, dv.Protocol = true, [4]byte{10, 0, 1, byte(10 + i)}, 54321, "tcp"
		default:
			dv.HasAddr, dv.IP, dv.Port, dv.Protocol = true, [4]byte{0, 0, 0, 0}, 60000, "udp"
		}
		h.Cfg.Devices = append(h.Cfg.Devices, dv)
	}
	// a controller listed more than once (a merged configuration): the later entry is in effect
	if len(h.Cfg.Devices) > 0 && rapid.IntRange(0, 2).Draw(t, "duplicate") == 0 {
		dup := h.Cfg.Devices[rapid.IntRange(0, len(h.Cfg.Devices)-1).Draw(t, "dup.of")]
		dup.Doors = []string{"north", "south", "east", "west", "up", "down"}[:rapid.IntRange(0, 6).Draw(t, "dup.doors")]
		if rapid.Bool().Draw(t, "dup.addr") {
			dup.HasAddr, dup.IP, dup.Port, dup.Protocol = true, [4]byte{10, 0, 2, 99}, 60000, rapid.SampledFrom([]string{"udp", "tcp"}).Draw(t, "dup.protocol")
		}
		dup.Name += "-again"
		h.Cfg.Devices = append(h.Cfg.Devices, dup)
	}
	steps := rapid.IntRange(1, 30).Draw(t, "steps")
	for i := 0; i < steps; i++ {
		kind := rapid.SampledFrom([]string{"mutate-slice", "mutate-doors", "mutate-devicelist", "call", "call", "call", "call", "scribble", "scribble", "mutate-returned", "listen", "clone", "gc", "listen-addr-list"}).Draw(t, "kind")
		s := step{Kind: kind, I: rapid.IntRange(0, 50).Draw(t, "i"), J: rapid.IntRange(0, 50).Draw(t, "j")}
		if kind == "call" || kind == "clone" {
			op := gen.Op(t, true)
			if kind == "clone" {
				op = "PutCard"
			} else if rapid.IntRange(0, 2).Draw(t, "readop") == 0 {
				op = rapid.SampledFrom([]string{"GetDevice", "GetDevices", "GetStatus", "GetCardByIndex", "GetCardByID", "GetTimeProfile", "GetListener", "GetTime", "GetEvent"}).Draw(t, "read")
			}
			s.Case = gen.Call(t, op)
		}
		h.Steps = append(h.Steps, s)
	}
	return h
}

func props() []rp.Prop {
	return []rp.Prop{
		rp.P[history]{Name: "history", Checks: ev.Pick(6000, 400000) / ev.Shards(), Gen: genHistory, Check: checkHistory},
		rp.P[rebuildCase]{Name: "client-rebuilt-from-the-same-list", Checks: ev.Pick(2000, 200000) / ev.Shards(), Gen: genRebuild, Check: checkRebuild},
		rp.P[overlapCase]{Name: "overlapping-discoveries", Checks: ev.Pick(60, 6000) / ev.Shards(), Gen: genOverlap, Check: checkOverlap},
		rp.P[sliceCase]{Name: "slice-arguments", Checks: ev.Pick(4000, 400000) / ev.Shards(), Gen: genSlices, Check: checkSlices},
	}
}

func TestC17(t *testing.T)    { rp.RunAll(t, props()...) }
func TestReplay(t *testing.T) { rp.ReplayAll(t, props()...) }
