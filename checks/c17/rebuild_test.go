package c17

import (
	"fmt"
	"time"

	"pgregory.net/rapid"

	"github.com/uhppoted/uhppote-core/uhppote"

	"verif/harness/ev"
	"verif/harness/hook"
	"verif/harness/rp"
	"verif/harness/spec"
)

// An application edits its controller list IN PLACE (the protocol of one controller, its door names, its time zone, its name)
// and builds a new client from the very same slice - a configuration reload. The new client has the configuration it was built
// with: what it reports and where its requests go follow the edited list; the client built earlier keeps the earlier one.
type rebuildCase struct {
	Cfg   hook.ClientCfg `json:"cfg"`
	Edits []int          `json:"edits"` // per edit: controller index * 8 + what (0 protocol, 1 door names, 2 time zone, 3 name, 4 address port)
	Again int            `json:"rebuilds"`
}

func checkRebuild(c rebuildCase) *rp.Fail {
	if len(c.Cfg.Devices) == 0 {
		return nil
	}
	ev.Case("client-rebuilt-from-the-same-list", true, fmt.Sprint(c))
	if ev.WantSample("client-rebuilt-from-the-same-list") {
		ev.Sample("client-rebuilt-from-the-same-list", c)
	}
	devices := c.Cfg.Devices_()
	canon := func(list []uhppote.Device) string {
		m := map[uint32]uhppote.Device{}
		for _, d := range list {
			m[d.DeviceID] = d // (the last entry for an id wins, as in the client)
		}
		return listCanon(m)
	}
	u1, _ := hook.MemWith(c.Cfg, devices)
	first := listCanon(u1.DeviceList())
	for round := 0; round <= c.Again; round++ {
		for k, e := range c.Edits {
			d := &devices[(e/8+round)%len(devices)]
			switch e % 8 {
			case 0:
				if d.Protocol == "tcp" {
					d.Protocol = "udp"
				} else {
					d.Protocol = "tcp"
				}
			case 1:
				for j := range d.Doors {
					d.Doors[j] = fmt.Sprintf("renamed %d.%d", round, k)
				}
			case 2:
				d.TimeZone = time.FixedZone(fmt.Sprintf("Z%d", round), 3600*(1+k))
			case 3:
				d.Name = fmt.Sprintf("%s'", d.Name)
			default:
				d.Doors = append(d.Doors, "added")
			}
		}
		want := canon(devices)
		u2, drv := hook.MemWith(c.Cfg, devices)
		if got := listCanon(u2.DeviceList()); got != want {
			return rp.Failf("rebuilt-client/stale-configuration", "a client built from the caller's list after the list had been edited in place (rebuild %d) reports\n  %s\nthe list it was built with is\n  %s", round+1, got, want)
		}
		if got := listCanon(u1.DeviceList()); got != first {
			return rp.Failf("config/changed-by-later-mutation", "the client built BEFORE the edits reports\n  %s\nit was built with\n  %s", got, first)
		}
		// ... and its requests go where the edited list says
		for _, d := range devices {
			if d.DeviceID == 0 || !d.Address.IsValid() {
				continue
			}
			ok := make([]byte, 64)
			spec.Header(ok, 0x17, 0x32, d.DeviceID)
			spec.PutDateTime(ok[8:], spec.CivilDT{Y: 2024, M: 6, D: 1, H: 12})
			drv.Reset(ok)
			u2.GetTime(d.DeviceID)
			sends := drv.Sends()
			last := devices[0]
			for _, x := range devices {
				if x.DeviceID == d.DeviceID {
					last = x
				}
			}
			wantMethod := "SendUDP"
			if last.Protocol == "tcp" {
				wantMethod = "SendTCP"
			}
			if last.Address.Addr().IsUnspecified() {
				continue
			}
			if len(sends) == 1 && sends[0].Method != wantMethod {
				return rp.Failf("rebuilt-client/stale-route", "rebuild %d: the request for controller %d went out by %s; the list the client was built with says protocol %q", round+1, d.DeviceID, sends[0].Method, last.Protocol)
			}
		}
	}
	return nil
}

func genRebuild(t *rapid.T) rebuildCase {
	h := genHistory(t)
	c := rebuildCase{Cfg: h.Cfg, Again: rapid.IntRange(0, 2).Draw(t, "rebuilds")}
	n := rapid.IntRange(1, 3).Draw(t, "edits")
	for i := 0; i < n; i++ {
		c.Edits = append(c.Edits, rapid.IntRange(0, 3).Draw(t, "controller")*8+rapid.IntRange(0, 4).Draw(t, "what"))
	}
	return c
}
