package c06

import (
	"fmt"
	"net"
	"sync/atomic"
	"time"

	"verif/harness/api"
	"verif/harness/ev"
	"verif/harness/farm"
	"verif/harness/hook"
	"verif/harness/rp"
	"verif/harness/spec"
)

// What happened to an earlier request - of this client or of another client in the process - decides nothing about the next
// one: (a) a controller whose port was closed a moment ago (the host answered with ICMP port unreachable) is asked again
// right after it has come up - one request leaves, to its address; (b) a client without a bind address makes its request after
// a client WITH one (127.0.0.2, fixed port or not) has made a request of the same kind - its datagram does not leave from the
// other client's address.
type afterCase struct {
	Kind      string `json:"kind"` // refused-then-reachable | after-a-bound-client
	Path      string `json:"path"` // udp | tcp
	GapMs     int    `json:"gap_ms,omitempty"`
	FixedPort bool   `json:"other_client_has_fixed_port,omitempty"`
}

func answer(req []byte) []byte {
	if len(req) != 64 {
		return nil
	}
	for op, l := range spec.Requests {
		if l.Code == req[1] {
			if r, ok := spec.Responses[op]; ok {
				return spec.Sample(r, 0x17, spec.LE32(req[4:]), 2)
			}
		}
	}
	return nil
}

func checkAfter(c afterCase) *rp.Fail {
	ev.Case("earlier-requests/"+c.Kind+"/"+c.Path, true, fmt.Sprint(c))
	f := farm.New()
	defer f.Close()
	serial := uint32(405419896)
	switch c.Kind {
	case "refused-then-reachable":
		ip := [4]byte{127, 0, 3, 41}
		port, err := farm.FreePort(ip)
		if err != nil {
			return nil
		}
		u := hook.Real(hook.ClientCfg{TimeoutMs: 400, BindIP: [4]byte{127, 0, 0, 1}, Devices: []hook.DeviceCfg{{Serial: serial, HasAddr: true, IP: ip, Port: port, Protocol: c.Path}}})
		first := api.Invoke(u, api.Case{Call: spec.Call{Op: "GetTime", Serial: serial}})
		if first.Panic != nil || first.Err == nil {
			return nil // (something answers there after all: nothing to judge)
		}
		time.Sleep(time.Duration(c.GapMs) * time.Millisecond)
		count := func() int { return 0 }
		if c.Path == "tcp" {
			e, err := f.TCP(ip, port, farm.ScriptTCP(func(r farm.Received) []farm.Action { return []farm.Action{{Data: answer(r.Data)}} }))
			if err != nil {
				return nil
			}
			count = func() int { return len(e.Log()) }
		} else {
			e, err := f.UDP(ip, port, farm.Script(func(r farm.Received) []farm.Action { return []farm.Action{{Data: answer(r.Data)}} }))
			if err != nil {
				return nil
			}
			count = func() int { return len(e.Log()) }
		}
		for i := 1; i <= 2; i++ {
			res := api.Invoke(u, api.Case{Call: spec.Call{Op: "GetTime", Serial: serial}})
			time.Sleep(20 * time.Millisecond)
			if n := count(); n != i || res.Err != nil || res.Panic != nil {
				return rp.Failf("socket/"+c.Path+"/not-sent-after-a-refused-request", "the controller's port was closed (the first request was refused: %v); %d ms later it was up: call %d after that put %d request(s) in total on the wire and returned %v %v", first.Err, c.GapMs, i, n, res.Err, res.Panic)
			}
		}
	case "listen-address-is-not-a-bind-address":
		// no bind IP (none at all, or 0.0.0.0) and a listen address on another local IP: where events are received says nothing
		// about where requests leave from - a broadcast-path request to a sink on 127.0.0.1 leaves from the address the host
		// chooses for that destination, 127.0.0.1, and a directed one too
		sink, err := f.UDP([4]byte{127, 0, 0, 1}, 0, farm.Script(func(r farm.Received) []farm.Action { return []farm.Action{{Data: answer(r.Data)}} }))
		if err != nil {
			return nil
		}
		cfg := hook.ClientCfg{TimeoutMs: 1000, NoBind: !c.FixedPort, HasListen: true, ListenIP: [4]byte{127, 0, 0, 2}, ListenPort: 60001}
		if c.FixedPort { // (used as 'bind 0.0.0.0:0 instead of no bind address')
			cfg.BindIP = [4]byte{0, 0, 0, 0}
		}
		if c.Path == "udp" {
			cfg.Devices = []hook.DeviceCfg{{Serial: serial, HasAddr: true, IP: [4]byte{127, 0, 0, 1}, Port: sink.Addr.Port(), Protocol: "udp"}}
		} else {
			cfg.HasBroadcast, cfg.BroadcastIP, cfg.BroadcastPort = true, [4]byte{127, 0, 0, 1}, sink.Addr.Port()
		}
		u := hook.Real(cfg)
		res := api.Invoke(u, api.Case{Call: spec.Call{Op: "GetTime", Serial: serial}})
		time.Sleep(20 * time.Millisecond)
		log := sink.Log()
		if res.Panic != nil || len(log) != 1 {
			return rp.Failf("socket/"+c.Path+"/send-count/listen-address", "a client without a bind IP and with the listen address 127.0.0.2:60001: %d requests arrived (%v %v)", len(log), res.Err, res.Panic)
		}
		if from := log[0].From.Addr().Unmap().String(); from != "127.0.0.1" {
			return rp.Failf("socket/"+c.Path+"/wrong-source/listen-address", "a client without a bind IP (listen address 127.0.0.2:60001) sent its request to 127.0.0.1 from %s - the listen address is where events arrive, not where requests leave from", from)
		}
	case "after-a-bound-client":
		ip := [4]byte{127, 0, 3, 42}
		var froms func() []string
		var port uint16
		if c.Path == "tcp" {
			e, err := f.TCP(ip, 0, farm.ScriptTCP(func(r farm.Received) []farm.Action { return []farm.Action{{Data: answer(r.Data)}} }))
			if err != nil {
				return nil
			}
			port = e.Addr.Port()
			froms = func() (out []string) {
				for _, r := range e.Log() {
					out = append(out, r.From.Addr().String())
				}
				return
			}
		} else {
			e, err := f.UDP(ip, 0, farm.Script(func(r farm.Received) []farm.Action { return []farm.Action{{Data: answer(r.Data)}} }))
			if err != nil {
				return nil
			}
			port = e.Addr.Port()
			froms = func() (out []string) {
				for _, r := range e.Log() {
					out = append(out, r.From.Addr().String())
				}
				return
			}
		}
		dev := []hook.DeviceCfg{{Serial: serial, HasAddr: true, IP: ip, Port: port, Protocol: c.Path}}
		bound := hook.ClientCfg{TimeoutMs: 1000, BindIP: [4]byte{127, 0, 0, 2}, Devices: dev}
		if c.FixedPort {
			if p, err := farm.FreePort(bound.BindIP); err == nil {
				bound.BindPort = p
			}
		}
		p := hook.Real(bound)
		q := hook.Real(hook.ClientCfg{TimeoutMs: 1000, NoBind: true, Devices: dev}) // (no bind address at all: the zero types.BindAddr)
		for round := 0; round < 3; round++ {
			api.Invoke(p, api.Case{Call: spec.Call{Op: "GetTime", Serial: serial}})
			before := len(froms())
			res := api.Invoke(q, api.Case{Call: spec.Call{Op: "GetTime", Serial: serial}})
			time.Sleep(20 * time.Millisecond)
			got := froms()
			if res.Panic != nil {
				return rp.Failf("socket/"+c.Path+"/panic", "%v", res.Panic)
			}
			if len(got) != before+1 {
				return rp.Failf("socket/"+c.Path+"/send-count/after-a-bound-client", "round %d: the request of the client without a bind address arrived %d times (result %v)", round+1, len(got)-before, res.Err)
			}
			if got[len(got)-1] == "127.0.0.2" {
				return rp.Failf("socket/"+c.Path+"/wrong-source/after-a-bound-client", "round %d: the request of a client that has NO bind address left from 127.0.0.2 - the bind address of another client of the process, which had made a request just before", round+1)
			}
		}
	}
	return nil
}

func sweepAfter(yield func(afterCase) bool) {
	cases := []afterCase{{Kind: "refused-then-reachable", Path: "udp", GapMs: 50}, {Kind: "after-a-bound-client", Path: "udp"}, {Kind: "after-a-bound-client", Path: "tcp", FixedPort: true}, {Kind: "refused-then-reachable", Path: "tcp", GapMs: 20},
		{Kind: "refused-then-reachable", Path: "udp", GapMs: 600}, {Kind: "after-a-bound-client", Path: "udp", FixedPort: true}, {Kind: "after-a-bound-client", Path: "tcp"}, {Kind: "refused-then-reachable", Path: "udp", GapMs: 1500}}
	cases = append(cases, afterCase{Kind: "listen-address-is-not-a-bind-address", Path: "broadcast"}, afterCase{Kind: "listen-address-is-not-a-bind-address", Path: "udp"},
		afterCase{Kind: "listen-address-is-not-a-bind-address", Path: "broadcast", FixedPort: true}, afterCase{Kind: "listen-address-is-not-a-bind-address", Path: "udp", FixedPort: true})
	for i, c := range cases {
		if ev.Mine(i) && !yield(c) {
			return
		}
	}
}

// Tens of thousands of broadcast-path requests from a client bound to 127.0.0.2 with bind port 0: the kernel hands out every
// ephemeral source port in turn - the one that equals the destination port among them. Every single datagram leaves from
// the configured bind address.
type manyCase struct {
	Calls int `json:"calls"`
}

func checkMany(c manyCase) *rp.Fail {
	ev.Case("bind-address/every-ephemeral-source-port", true, fmt.Sprint(c))
	sink, err := net.ListenUDP("udp4", &net.UDPAddr{IP: net.IPv4(127, 0, 0, 1)}) // (an ephemeral port: source ports can collide with it)
	if err != nil {
		return nil
	}
	defer sink.Close()
	sink.SetReadBuffer(8 << 20)
	port := uint16(sink.LocalAddr().(*net.UDPAddr).Port)
	type bad struct {
		from string
		n    int
	}
	found := make(chan bad, 1)
	var got, samePort atomic.Int64
	go func() {
		buf := make([]byte, 2048)
		for {
			_, from, err := sink.ReadFromUDPAddrPort(buf)
			if err != nil {
				return
			}
			n := got.Add(1)
			if from.Port() == port {
				samePort.Add(1)
			}
			if from.Addr().Unmap().String() != "127.0.0.2" {
				select {
				case found <- bad{from.String(), int(n)}:
				default:
				}
			}
		}
	}()
	u := hook.Real(hook.ClientCfg{TimeoutMs: 500, BindIP: [4]byte{127, 0, 0, 2}, HasBroadcast: true, BroadcastIP: [4]byte{127, 0, 0, 1}, BroadcastPort: port})
	deadline := time.Now().Add(25 * time.Second)
	sent := 0
	for ; sent < c.Calls && time.Now().Before(deadline); sent++ {
		res := api.Invoke(u, api.Case{Call: spec.Call{Op: "SetAddress", Serial: 405419896, Address: [4]byte{192, 168, 1, 100}, Mask: [4]byte{255, 255, 255, 0}, Gateway: [4]byte{192, 168, 1, 1}}})
		if res.Panic != nil {
			return rp.Failf("socket/broadcast/panic", "SetAddress panicked: %v", res.Panic)
		}
		select {
		case b := <-found:
			return rp.Failf("socket/broadcast/wrong-source/ephemeral-port", "request %d (about) of a client bound to 127.0.0.2:0 arrived from %s (%d requests had the destination's port number %d as their source port)", b.n, b.from, samePort.Load(), port)
		default:
		}
	}
	time.Sleep(50 * time.Millisecond)
	select {
	case b := <-found:
		return rp.Failf("socket/broadcast/wrong-source/ephemeral-port", "request %d (about) of a client bound to 127.0.0.2:0 arrived from %s (%d requests had the destination's port number %d as their source port)", b.n, b.from, samePort.Load(), port)
	default:
	}
	ev.NoteAdd("requests_whose_source_port_equalled_the_destination_port", samePort.Load())
	return nil
}

func sweepMany(yield func(manyCase) bool) {
	if ev.Mine(5) || ev.Thorough() {
		yield(manyCase{Calls: ev.Pick(45000, 150000)})
	}
}
