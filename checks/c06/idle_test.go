package c06

import (
	"fmt"
	"testing"
	"time"

	"verif/harness/api"
	"verif/harness/ev"
	"verif/harness/farm"
	"verif/harness/gen"
	"verif/harness/hook"
	"verif/harness/rp"
	"verif/harness/spec"
)

// 'Each request is sent once' has a time dimension: after the calls have returned, nothing more leaves the client. Real driver,
// loopback controllers on all three paths that acknowledge everything ('succeeded'); the client puts them into the modes the
// API offers (PC control, special events, interlock, listener, keypads ...); then no call is made for longer than any time
// constant that occurs in the library's source (harvested; at least 2.5 s, at most 40 s quick / 11 min thorough) and the
// controllers must have received exactly one request per call. Runs alongside the other tests of one shard.
type idleWatch struct {
	done chan *rp.Fail
	idle time.Duration
}

func idleFor() time.Duration {
	limit := 40 * time.Second
	if ev.Thorough() {
		limit = 11 * time.Minute
	}
	d := 1 * time.Second
	for _, x := range gen.DictDurations() {
		if x > d && x <= limit {
			d = x
		}
	}
	return d + 1500*time.Millisecond
}

func startIdleWatch() *idleWatch {
	w := &idleWatch{done: make(chan *rp.Fail, 1), idle: idleFor()}
	go func() {
		f := farm.New()
		defer f.Close()
		ack := func(req []byte) []byte {
			if len(req) != 64 {
				return nil
			}
			b := make([]byte, 64)
			copy(b[:8], req[:8])
			b[8] = 1
			return b
		}
		answerU := farm.Script(func(r farm.Received) []farm.Action { return []farm.Action{{Data: ack(r.Data)}} })
		answerT := farm.ScriptTCP(func(r farm.Received) []farm.Action { return []farm.Action{{Data: ack(r.Data)}} })
		bc, err1 := f.UDP([4]byte{127, 0, 9, 1}, 0, answerU)
		ud, err2 := f.UDP([4]byte{127, 0, 9, 2}, 0, answerU)
		tc, err3 := f.TCP([4]byte{127, 0, 9, 3}, 0, answerT)
		if err1 != nil || err2 != nil || err3 != nil {
			w.done <- nil
			return
		}
		serials := []uint32{405419896, 303986753, 201020304}
		cfg := hook.ClientCfg{TimeoutMs: 800, BindIP: [4]byte{127, 0, 0, 1}, HasBroadcast: true, BroadcastIP: [4]byte{127, 0, 9, 1}, BroadcastPort: bc.Addr.Port(),
			Devices: []hook.DeviceCfg{{Name: "u", Serial: serials[1], HasAddr: true, IP: [4]byte{127, 0, 9, 2}, Port: ud.Addr.Port(), Protocol: "udp"},
				{Name: "t", Serial: serials[2], HasAddr: true, IP: [4]byte{127, 0, 9, 3}, Port: tc.Addr.Port(), Protocol: "tcp"}}}
		u := hook.Real(cfg)
		calls := 0
		for _, s := range serials {
			for _, cs := range []api.Case{
				{Call: spec.Call{Op: "SetPCControl", Serial: s, Enable: true}},
				{Call: spec.Call{Op: "RecordSpecialEvents", Serial: s, Enable: true}},
				{Call: spec.Call{Op: "SetInterlock", Serial: s, Interlock: 1}},
				{Call: spec.Call{Op: "ActivateKeypads", Serial: s, Readers: [4]bool{true, false, true, false}}, V: api.Variant{ReadPresent: [4]bool{true, true, true, true}}},
				{Call: spec.Call{Op: "SetListener", Serial: s, Listener: [4]byte{127, 0, 0, 1}, Port: 60001, Interval: 15}},
				{Call: spec.Call{Op: "SetDoorControlState", Serial: s, Door: 1, State: 3, Delay: 5}},
				{Call: spec.Call{Op: "OpenDoor", Serial: s, Door: 1}},
				{Call: spec.Call{Op: "SetEventIndex", Serial: s, Index: 17}},
			} {
				if res := api.Invoke(u, cs); res.Panic != nil {
					w.done <- rp.Failf("socket/panic", "%s panicked: %v", cs.Call.Op, res.Panic)
					return
				}
				calls++
			}
		}
		time.Sleep(50 * time.Millisecond)
		count := func() int { return len(bc.Log()) + len(ud.Log()) + len(tc.Log()) }
		before := count()
		if before != calls {
			w.done <- rp.Failf("socket/idle/send-count", "%d calls (all acknowledged) put %d requests on the network", calls, before)
			return
		}
		time.Sleep(w.idle)
		if after := count(); after != before {
			var first []byte
			for _, l := range [][]farm.Received{bc.Log(), ud.Log(), tc.Log()} {
				for _, r := range l {
					if r.At.After(time.Now().Add(-w.idle)) && first == nil {
						first = r.Data
					}
				}
			}
			w.done <- rp.Failf("socket/request-without-a-call", "%d request(s) reached the controllers during %v in which no call was made (after %d acknowledged calls); first: %x", after-before, w.idle, calls, first)
			return
		}
		w.done <- nil
	}()
	return w
}

func finishIdleWatch(t *testing.T, w *idleWatch) {
	f := <-w.done
	ev.Case("socket/idle-period-after-acknowledged-calls", true, fmt.Sprint(w.idle))
	ev.Note("idle_period_seconds", w.idle.Seconds())
	if f != nil && ev.Failure("idle", f.Fingerprint, f.Msg, map[string]any{"idle": w.idle.String()}) {
		t.Errorf("[%s] %s", f.Fingerprint, f.Msg)
	}
}
