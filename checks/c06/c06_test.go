// C06 - each request is sent once, to the right endpoint, over the right transport.
package c06

import (
	"bytes"
	"fmt"
	"net"
	"net/netip"
	"os"
	"strings"
	"testing"
	"time"

	"github.com/uhppoted/uhppote-core/types"
	"pgregory.net/rapid"

	"verif/harness/api"
	"verif/harness/ev"
	"verif/harness/farm"
	"verif/harness/gen"
	"verif/harness/hook"
	"verif/harness/rp"
	"verif/harness/spec"
)

func TestMain(m *testing.M) {
	time.Local = time.UTC
	ev.Describe("client configurations: 0..6 controllers, each {not configured, zero-value address, 0.0.0.0:port, address:0, valid address:port (also in IPv4-mapped IPv6 form)} x protocol {udp, tcp, '', any, TCP, other} (struct literal or NewDevice) x bind {0.0.0.0, 127.0.0.x} x {port 0, fixed} x broadcast {unset, set} x debug {off, on} x configured controller time zone; addressed controller {answers at once, answers late, silent, port closed (refuses)}; then a random operation on a random configured or unknown controller, or discovery. Hook layer: the recording in-memory driver must see exactly one invocation of exactly the method and destination a reference routing function prescribes (255.255.255.255:60000 when no broadcast address is configured). Socket layer: the farm opens a UDP and a TCP endpoint for every address in play plus decoys; after the call exactly the expected endpoint holds exactly one request (one datagram / one connection carrying 64 bytes equal to the protocol encoding), every other endpoint nothing, and the observed source address equals the bind address (IP when specific, port when fixed). Non-trivial = configuration with >= 2 controllers of different kinds or a fallback-to-broadcast controller; distinct = distinct (configuration, call).",
		"socket layer: controller / broadcast addresses are loopback addresses 127.0.x.y with ephemeral ports; the real limited broadcast 255.255.255.255:60000 is exercised by shard 0 when port 60000 is free (otherwise skipped and counted)")
	ev.Main(m, "C06")
}

type routeCase struct {
	Layer  string         `json:"layer"`
	Cfg    hook.ClientCfg `json:"cfg"`
	Call   api.Case       `json:"call"`
	Decoys int            `json:"decoys"`
	// Behaviour of the addressed endpoint: 0 answers at once, 1 answers after 70% of the timeout, 2 stays silent
	// (a slow or silent controller must still see exactly one request), 3 (socket layer, directed routes) nothing listens on
	// the controller's port: the datagram is refused (ICMP port unreachable) / the connection is refused - no OTHER endpoint
	// may receive anything because of that
	Behaviour int `json:"behaviour,omitempty"`
	// hook layer: further calls on the SAME client after the first one (routing must not drift with the call history)
	More []api.Case `json:"more,omitempty"`
	// socket layer: the fixed bind port is held by another socket while the call is made - nothing may leave from any
	// other port
	BindBusy bool `json:"bind_busy,omitempty"`
	// BindUnowned (socket layer): the configured bind IP (203.0.113.9) is not an address of this host (a stale DHCP lease, a VPN
	// that is down): no socket can be bound to it, so - whatever the call returns - nothing reaches any endpoint
	BindUnowned bool `json:"bind_ip_not_owned_by_host,omitempty"`
	// socket layer: the fixed bind port has the same NUMBER as the broadcast port (on another local address)
	BindEqBroadcast bool `json:"bind_port_equals_broadcast_port,omitempty"`
	// socket layer: the client's event listener is running and has just heard an event FROM THE ADDRESSED CONTROLLER'S SERIAL
	// NUMBER sent by a host that is not the configured endpoint (a decoy on another address, same port number as the broadcast
	// port): what the listener hears never changes where requests go
	ListenEvent bool `json:"listen_event,omitempty"`
}

type nullListener struct{ heard chan struct{} }

func (l nullListener) OnConnected() {}
func (l nullListener) OnEvent(*types.Status) {
	select {
	case l.heard <- struct{}{}:
	default:
	}
}
func (l nullListener) OnError(error) bool { return true }

func kinds(c routeCase) (map[string]bool, bool) {
	k := map[string]bool{}
	fallback := false
	for _, d := range c.Cfg.Devices {
		m, _ := c.Cfg.Route(d.Serial, false)
		k[m] = true
		if m == "BroadcastTo" {
			fallback = true
		}
	}
	return k, fallback
}

func validReply(c spec.Call) []byte {
	l, ok := spec.Responses[c.Op]
	if !ok {
		return nil
	}
	b := make([]byte, 64)
	spec.Header(b, 0x17, l.Code, c.Serial)
	switch c.Op {
	case "GetCardByID":
		spec.PutLE32(b[8:], c.Card)
	case "GetTimeProfile":
		b[8] = c.Profile
	}
	return b
}

func invoke(c routeCase, call func(cs api.Case) api.Result, discover func() error) (api.Result, bool) {
	if c.Call.Call.Op == "GetDevices" {
		return api.Result{Err: discover()}, true
	}
	return call(c.Call), false
}

func runHook(c routeCase) *rp.Fail {
	u, d := hook.Mem(c.Cfg)
	if r := validReply(c.Call.Call); r != nil && c.Behaviour != 2 {
		d.Reset(r)
	}
	res, discovery := invoke(c, func(cs api.Case) api.Result { return api.Invoke(u, cs) }, func() error { _, err := u.GetDevices(); return err })
	if res.Panic != nil {
		return rp.Failf("hook/panic", "%s panicked: %v", c.Call.Call.Op, res.Panic)
	}
	wantMethod, wantAddr := c.Cfg.Route(c.Call.Call.Serial, discovery)
	sends := d.Sends()
	if len(sends) != 1 {
		return rp.Failf("hook/send-count", "%s made %d transport calls, want exactly one (%v)", c.Call.Call.Op, len(sends), res)
	}
	if sends[0].Method != wantMethod || sends[0].Addr != wantAddr {
		return rp.Failf("hook/route", "%s for controller %d used %s to %s; the configuration prescribes %s to %s", c.Call.Call.Op, c.Call.Call.Serial, sends[0].Method, sends[0].Addr, wantMethod, wantAddr)
	}
	if want := spec.Request(c.Call.Call); !bytes.Equal(sends[0].Request, want) {
		return rp.Failf("hook/request-bytes", "%s sent %x, protocol encoding is %x", c.Call.Call.Op, sends[0].Request, want)
	}
	for i, cs := range c.More {
		d.Reset()
		if r := validReply(cs.Call); r != nil {
			d.Reset(r)
		}
		discovery := cs.Call.Op == "GetDevices"
		if discovery {
			u.GetDevices()
		} else if res := api.Invoke(u, cs); res.Panic != nil {
			return rp.Failf("hook/panic", "%s panicked: %v", cs.Call.Op, res.Panic)
		}
		wantMethod, wantAddr := c.Cfg.Route(cs.Call.Serial, discovery)
		sends := d.Sends()
		if len(sends) != 1 {
			return rp.Failf("hook/send-count", "call %d after %s: %s made %d transport calls", i+2, c.Call.Call.Op, cs.Call.Op, len(sends))
		}
		if sends[0].Method != wantMethod || sends[0].Addr != wantAddr {
			return rp.Failf("hook/route-after-earlier-calls", "call %d on the same client (after %s): %s for controller %d used %s to %s; the configuration prescribes %s to %s",
				i+2, c.Call.Call.Op, cs.Call.Op, cs.Call.Serial, sends[0].Method, sends[0].Addr, wantMethod, wantAddr)
		}
	}
	return nil
}

type pair struct {
	udp *farm.UDP
	tcp *farm.TCP
}

// runSocket remaps every address of the configuration to a loopback endpoint pair and observes the wire.
func runSocket(c routeCase) (fail *rp.Fail, skipped bool) {
	f := farm.New()
	defer f.Close()
	reply := func(req []byte) []byte {
		if len(req) != 64 {
			return nil
		}
		for _, op := range spec.ReplyOps {
			if l := spec.Responses[op]; l.Code == req[1] {
				b := make([]byte, 64)
				spec.Header(b, 0x17, l.Code, spec.LE32(req[4:]))
				if spec.LE32(req[4:]) == 0 {
					spec.PutLE32(b[4:], 423187757)
				}
				switch req[1] {
				case 0x5a: // echo the card number
					copy(b[8:12], req[8:12])
				case 0x98: // echo the profile id
					b[8] = req[8]
				}
				return b
			}
		}
		return nil
	}
	const timeoutMs = 400
	answer := func(req []byte) []farm.Action {
		switch c.Behaviour {
		case 1:
			return []farm.Action{{Delay: timeoutMs * 7 / 10 * time.Millisecond, Data: reply(req)}}
		case 2, 3:
			return nil
		case 4: // first a well-formed reply of ANOTHER operation from the same controller (the late reply to an earlier call), then the right one
			stale := reply(req)
			if stale != nil {
				stale = append([]byte(nil), stale...)
				stale[1] = map[bool]byte{true: 0x32, false: 0x20}[stale[1] == 0x20]
			}
			return []farm.Action{{Data: stale}, {Delay: 3 * time.Millisecond, Data: reply(req)}}
		}
		return []farm.Action{{Data: reply(req)}}
	}
	open := func(ip [4]byte) (pair, bool) {
		for try := 0; try < 20; try++ {
			port, err := farm.FreePort(ip)
			if err != nil {
				break
			}
			u, err := f.UDP(ip, port, farm.Script(func(r farm.Received) []farm.Action { return answer(r.Data) }))
			if err != nil {
				continue
			}
			t, err := f.TCP(ip, port, farm.ScriptTCP(func(r farm.Received) []farm.Action { return answer(r.Data) }))
			if err != nil {
				u.Close()
				continue
			}
			return pair{u, t}, true
		}
		return pair{}, false
	}
	cfg := c.Cfg
	cfg.Devices = append([]hook.DeviceCfg(nil), c.Cfg.Devices...)
	cfg.TimeoutMs = timeoutMs
	endpoints := map[string]pair{} // by role
	names := []string{}
	// controllers with a usable address
	for i := range cfg.Devices {
		d := &cfg.Devices[i]
		if d.HasAddr && d.Port != 0 && d.IP != [4]byte{} {
			p, ok := open([4]byte{127, 0, 1, byte(10 + i)})
			if !ok {
				ev.HarnessError("farm: cannot open endpoint pair")
				return nil, true
			}
			d.IP, d.Port = [4]byte{127, 0, 1, byte(10 + i)}, p.udp.Addr.Port()
			if d.RawIP != "" {
				d.RawIP = fmt.Sprintf("::ffff:127.0.1.%d", 10+i)
			}
			name := fmt.Sprintf("controller-%d", d.Serial)
			endpoints[name] = p
			names = append(names, name)
		}
	}
	if cfg.HasBroadcast {
		p, ok := open([4]byte{127, 0, 2, 1})
		if !ok {
			ev.HarnessError("farm: cannot open endpoint pair")
			return nil, true
		}
		cfg.BroadcastIP, cfg.BroadcastPort = [4]byte{127, 0, 2, 1}, p.udp.Addr.Port()
		endpoints["broadcast"] = p
	} else {
		// the real limited broadcast: needs the well-known port
		u, err := f.UDP([4]byte{0, 0, 0, 0}, 60000, farm.Script(func(r farm.Received) []farm.Action { return answer(r.Data) }))
		if err != nil {
			return nil, true
		}
		endpoints["broadcast"] = pair{udp: u}
	}
	names = append(names, "broadcast")
	for i := 0; i < c.Decoys; i++ {
		p, ok := open([4]byte{127, 0, 3, byte(1 + i)})
		if ok {
			name := fmt.Sprintf("decoy-%d", i)
			endpoints[name] = p
			names = append(names, name)
		}
	}
	if cfg.BindPort != 0 {
		port, err := farm.FreePort(cfg.BindIP)
		if err != nil {
			return nil, true
		}
		cfg.BindPort = port
		if c.BindEqBroadcast && cfg.HasBroadcast && cfg.BindIP != [4]byte{} {
			// same port number as the broadcast endpoint, if it is free on the bind address
			if l, err := net.ListenUDP("udp4", &net.UDPAddr{IP: net.IP(cfg.BindIP[:]), Port: int(cfg.BroadcastPort)}); err == nil {
				l.Close()
				if t, err := net.ListenTCP("tcp4", &net.TCPAddr{IP: net.IP(cfg.BindIP[:]), Port: int(cfg.BroadcastPort)}); err == nil {
					t.Close()
					cfg.BindPort = cfg.BroadcastPort
					ev.Class("socket/bind-port-equals-broadcast-port", 1)
				}
			}
		}
	}
	if c.BindBusy && cfg.BindPort != 0 {
		hu, err1 := net.ListenUDP("udp4", &net.UDPAddr{IP: net.IP(cfg.BindIP[:]), Port: int(cfg.BindPort)})
		ht, err2 := net.ListenTCP("tcp4", &net.TCPAddr{IP: net.IP(cfg.BindIP[:]), Port: int(cfg.BindPort)})
		if err1 != nil || err2 != nil {
			return nil, true
		}
		defer hu.Close()
		defer ht.Close()
	}
	if c.BindUnowned {
		cfg.BindIP = [4]byte{203, 0, 113, 9}
		if l, err := net.ListenUDP("udp4", &net.UDPAddr{IP: net.IP(cfg.BindIP[:])}); err == nil {
			l.Close()
			return nil, true // (this host does own the address, or binds non-local addresses)
		}
	}
	if c.ListenEvent && cfg.HasBroadcast {
		if lp, err := farm.FreePort([4]byte{127, 0, 0, 1}); err == nil {
			cfg.HasListen, cfg.ListenIP, cfg.ListenPort = true, [4]byte{127, 0, 0, 1}, lp
		}
	}
	refused := ""
	if c.Behaviour == 3 {
		if m, _ := cfg.Route(c.Call.Call.Serial, c.Call.Call.Op == "GetDevices"); m == "SendUDP" || m == "SendTCP" {
			refused = fmt.Sprintf("controller-%d", c.Call.Call.Serial)
			endpoints[refused].udp.Close()
			endpoints[refused].tcp.Close()
		}
	}
	u := hook.Real(cfg)
	if cfg.HasListen && c.ListenEvent {
		// a decoy on another address with the broadcast port's NUMBER sends the event
		if decoy, err := f.UDP([4]byte{127, 0, 3, 9}, cfg.BroadcastPort, nil); err == nil {
			endpoints["event-source"] = pair{udp: decoy}
			names = append(names, "event-source")
			l := nullListener{heard: make(chan struct{}, 1)}
			q := make(chan os.Signal, 1)
			done := make(chan struct{})
			go func() {
				defer close(done)
				defer func() { recover() }()
				u.Listen(l, q)
			}()
			e := make([]byte, 64)
			spec.Header(e, 0x17, 0x20, c.Call.Call.Serial)
			if c.Call.Call.Serial == 0 {
				spec.PutLE32(e[4:], 405419896)
			}
			spec.PutLE32(e[8:], 7)
			e[12] = 1
			to := netip.AddrPortFrom(netip.AddrFrom4(cfg.ListenIP), cfg.ListenPort)
			for try := 0; try < 60; try++ {
				decoy.Send(to, e)
				select {
				case <-l.heard:
					try = 1000
				case <-time.After(10 * time.Millisecond):
				}
			}
			defer func() {
				q <- os.Interrupt
				select {
				case <-done:
				case <-time.After(3 * time.Second):
				}
			}()
			ev.Class("socket/listener-heard-an-event-for-the-controller-from-elsewhere", 1)
		}
	}
	cs := c.Call
	res, discovery := invoke(c, func(cs api.Case) api.Result { return api.Invoke(u, cs) }, func() error { _, err := u.GetDevices(); return err })
	_ = cs
	if res.Panic != nil {
		return rp.Failf("socket/panic", "%s panicked: %v", c.Call.Call.Op, res.Panic), false
	}
	if !cfg.HasBroadcast && res.Err != nil && (strings.Contains(res.Err.Error(), "unreachable") || strings.Contains(res.Err.Error(), "permission")) {
		return nil, true // no route for the limited broadcast in this sandbox
	}
	time.Sleep(30 * time.Millisecond) // grace period for stray duplicates
	if c.Behaviour != 0 && c.Behaviour != 4 {
		time.Sleep(timeoutMs * time.Millisecond / 2) // a retransmission scheduled for later would still arrive now
	}
	wantMethod, _ := cfg.Route(c.Call.Call.Serial, discovery)
	wantName, wantTCP := "broadcast", false
	if wantMethod == "SendUDP" || wantMethod == "SendTCP" {
		wantName = fmt.Sprintf("controller-%d", c.Call.Call.Serial)
		wantTCP = wantMethod == "SendTCP"
	}
	wantReq := spec.Request(c.Call.Call)
	if c.BindBusy || c.BindUnowned {
		// the configured bind port cannot be used: whatever the call returns, no endpoint may have received anything
		// (a request can only leave from the configured bind address)
		for _, name := range names {
			p := endpoints[name]
			n := 0
			if p.udp != nil {
				n += len(p.udp.Log())
			}
			if p.tcp != nil {
				n += p.tcp.Connections()
			}
			if n != 0 {
				return rp.Failf("socket/sent-from-another-port", "%s (route %s): the configured bind address (port %d) could not be used (port held by another socket, or an IP this host does not own), yet endpoint %s received %d request(s) - they cannot have come from the configured bind address",
					c.Call.Call.Op, wantMethod, cfg.BindPort, name, n), false
			}
		}
		return nil, false
	}
	for _, name := range names {
		if name == refused {
			continue // closed before the call: it refused whatever was sent to it
		}
		p := endpoints[name]
		var ulog, tlog []farm.Received
		conns := 0
		if p.udp != nil {
			ulog = p.udp.Log()
			if name == "broadcast" && !cfg.HasBroadcast {
				// the well-known port 60000 on the wildcard address also hears what OTHER processes broadcast (another
				// check running at the same time): only datagrams that carry this call's request are this client's
				own := ulog[:0:0]
				for _, r := range ulog {
					if bytes.Equal(r.Data, wantReq) {
						own = append(own, r)
					}
				}
				if len(own) != len(ulog) {
					ev.Excluded("foreign datagrams heard on the shared port 60000", int64(len(ulog)-len(own)))
				}
				ulog = own
			}
		}
		if p.tcp != nil {
			tlog = p.tcp.Log()
			conns = p.tcp.Connections()
		}
		wantU, wantT := 0, 0
		if name == wantName && refused == "" {
			if wantTCP {
				wantT = 1
			} else {
				wantU = 1
			}
		}
		if len(ulog) != wantU || conns != wantT || len(tlog) != wantT {
			return rp.Failf("socket/who-received", "%s for controller %d (route %s): endpoint %s received %d datagram(s) and %d TCP connection(s); expected %d and %d (result: %v)",
				c.Call.Call.Op, c.Call.Call.Serial, wantMethod, name, len(ulog), conns, wantU, wantT, res), false
		}
		var got *farm.Received
		if wantU == 1 {
			got = &ulog[0]
		} else if wantT == 1 {
			got = &tlog[0]
		}
		if got != nil {
			if !bytes.Equal(got.Data, wantReq) {
				return rp.Failf("socket/request-bytes", "%s: endpoint %s received %x, protocol encoding is %x", c.Call.Call.Op, name, got.Data, wantReq), false
			}
			if cfg.BindIP != [4]byte{} && got.From.Addr() != netip.AddrFrom4(cfg.BindIP) {
				return rp.Failf("socket/bind-address", "%s (route %s): request came from %v, bind address is %v", c.Call.Call.Op, wantMethod, got.From, netip.AddrFrom4(cfg.BindIP)), false
			}
			if cfg.BindPort != 0 && got.From.Port() != cfg.BindPort {
				return rp.Failf("socket/bind-port", "%s (route %s): request came from port %d, bind port is %d", c.Call.Call.Op, wantMethod, got.From.Port(), cfg.BindPort), false
			}
		}
	}
	if res.Err != nil && c.Call.Call.Op != "GetDevices" && c.Behaviour < 2 {
		return rp.Failf("socket/call-failed", "%s (route %s) failed although the right endpoint answered: %v", c.Call.Call.Op, wantMethod, res.Err), false
	}
	return nil, false
}

func check(c routeCase) *rp.Fail {
	k, fallback := kinds(c)
	method, _ := c.Cfg.Route(c.Call.Call.Serial, c.Call.Call.Op == "GetDevices")
	class := c.Layer + "/" + method
	if !c.Cfg.HasBroadcast && method != "SendUDP" && method != "SendTCP" {
		class += "/default-broadcast-address"
	}
	nt := len(k) >= 2 || fallback
	ev.Case(class, nt, fmt.Sprintf("%+v", c))
	if c.Cfg.BindPort != 0 {
		ev.Class(c.Layer+"/fixed-bind-port", 1)
	}
	if c.BindBusy {
		ev.Class(c.Layer+"/fixed-bind-port-held-by-another-socket", 1)
	}
	if c.BindUnowned {
		ev.Class(c.Layer+"/bind-ip-not-owned-by-the-host", 1)
	}
	if len(c.More) > 0 {
		ev.Class(c.Layer+"/further-calls-on-the-same-client", int64(len(c.More)))
	}
	ev.Class(c.Layer+"/controller-"+[]string{"answers-at-once", "answers-late", "silent", "port-closed-refuses", "stale-reply-first"}[c.Behaviour], 1)
	if c.Cfg.Debug {
		ev.Class(c.Layer+"/client-with-debug-output", 1)
	}
	if ev.WantSample(class) {
		ev.Sample(class, c)
	}
	if c.Layer == "hook" {
		return runHook(c)
	}
	f, skipped := runSocket(c)
	if skipped {
		ev.Excluded("socket scenario skipped (port 60000 busy / no broadcast route / no free port)", 1)
		return nil
	}
	if f != nil {
		// one confirmation run: the verdict, not the trace, has to be reproducible
		if f2, sk := runSocket(c); f2 == nil && !sk {
			ev.Inconclusive(1)
			return nil
		}
	}
	return f
}

// hostIPs: the IPv4 addresses of this host's interfaces that are up (loopback excluded)
func hostIPs() [][4]byte {
	var out [][4]byte
	ifs, err := net.Interfaces()
	if err != nil {
		return nil
	}
	for _, i := range ifs {
		if i.Flags&net.FlagUp == 0 || i.Flags&net.FlagLoopback != 0 {
			continue
		}
		addrs, _ := i.Addrs()
		for _, a := range addrs {
			if n, ok := a.(*net.IPNet); ok {
				if v4 := n.IP.To4(); v4 != nil {
					out = append(out, [4]byte{v4[0], v4[1], v4[2], v4[3]})
				}
			}
		}
	}
	return out
}

// hostNetAddrs: addresses derived from this host's interfaces (loopback included) that a configuration may well name for a
// controller: the directed broadcast address and the network address of each subnet, a neighbour on the subnet, the
// interface's own address. At the hook layer nothing is sent, so any of them can be used.
func hostNetAddrs() [][4]byte {
	var out [][4]byte
	ifs, err := net.Interfaces()
	if err != nil {
		return nil
	}
	for _, i := range ifs {
		if i.Flags&net.FlagUp == 0 {
			continue
		}
		addrs, _ := i.Addrs()
		for _, a := range addrs {
			n, ok := a.(*net.IPNet)
			if !ok {
				continue
			}
			ip, mask := n.IP.To4(), n.Mask
			if ip == nil || len(mask) != 4 {
				continue
			}
			var own, network, bcast, neighbour [4]byte
			for k := 0; k < 4; k++ {
				own[k], network[k], bcast[k] = ip[k], ip[k]&mask[k], ip[k]|^mask[k]
			}
			neighbour = network
			neighbour[3] |= 1
			if neighbour == own {
				neighbour[3] ^= 3
			}
			out = append(out, bcast, network, neighbour, own)
		}
	}
	return out
}

func genCase(layer string) func(t *rapid.T) routeCase {
	return func(t *rapid.T) routeCase {
		c := routeCase{Layer: layer, Decoys: rapid.IntRange(0, 2).Draw(t, "decoys")}
		switch rapid.IntRange(0, 9).Draw(t, "behaviour") {
		case 0, 1:
			c.Behaviour = 1
		case 2:
			c.Behaviour = 2
		case 3:
			if layer == "socket" {
				c.Behaviour = 3
			}
		case 4:
			if layer == "socket" {
				c.Behaviour = 4
			}
		}
		c.Cfg.Debug = gen.Debug(t, "debug")
		if rapid.Bool().Draw(t, "bind.specific") {
			c.Cfg.BindIP = [4]byte{127, 0, 0, byte(rapid.IntRange(1, 9).Draw(t, "bind.ip"))}
			if ips := hostIPs(); layer == "hook" && len(ips) > 0 && rapid.IntRange(0, 3).Draw(t, "bind.host") == 0 {
				// the address of one of this host's real network interfaces (nothing is sent at the hook layer)
				c.Cfg.BindIP = ips[rapid.IntRange(0, len(ips)-1).Draw(t, "bind.host.ip")]
			}
		}
		if rapid.IntRange(0, 2).Draw(t, "bind.fixed") == 0 {
			c.Cfg.BindPort = uint16(rapid.IntRange(1024, 59999).Draw(t, "bind.port"))
		}
		hasB := rapid.IntRange(0, 3).Draw(t, "broadcast.set") != 0
		if layer == "socket" && ev.Shard() != 0 {
			hasB = true // only shard 0 may use the well-known port 60000
		}
		if hasB {
			c.Cfg.HasBroadcast, c.Cfg.BroadcastIP, c.Cfg.BroadcastPort = true, gen.IPv4(t, "broadcast.ip"), gen.Port(t, "broadcast.port")
			if c.Cfg.BroadcastIP == [4]byte{} && (layer == "socket" || rapid.IntRange(0, 2).Draw(t, "broadcast.unspecified") != 0) {
				// (hook layer: a broadcast address of 0.0.0.0:port is a configured address like any other)
				c.Cfg.BroadcastIP = [4]byte{192, 168, 1, 255}
			}
		}
		n := rapid.IntRange(0, 6).Draw(t, "controllers")
		seen := map[uint32]bool{}
		var serials []uint32
		for i := 0; i < n; i++ {
			s := gen.Serial(t)
			if seen[s] {
				continue
			}
			seen[s] = true
			serials = append(serials, s)
			d := hook.DeviceCfg{Name: fmt.Sprintf("c%d", i), Serial: s, ViaNew: rapid.Bool().Draw(t, "via.new"), TZ: gen.DeviceTZ(t, "tz"), Doors: gen.Doors(t, "doors"),
				Protocol: rapid.SampledFrom([]string{"udp", "tcp", "tcp", "", "any", "TCP", "Tcp", "tcp ", "udp4", "xyz"}).Draw(t, "protocol")}
			switch rapid.IntRange(0, 5).Draw(t, "address.kind") {
			case 0: // zero-value address
			case 1:
				d.HasAddr, d.IP, d.Port = true, [4]byte{0, 0, 0, 0}, gen.Port(t, "port")
			case 2:
				d.HasAddr, d.IP, d.Port = true, gen.IPv4(t, "ip"), 0
			default:
				d.HasAddr, d.IP, d.Port = true, gen.IPv4(t, "ip"), gen.Port(t, "port")
				if d.IP == [4]byte{} {
					d.IP = [4]byte{10, 0, 0, byte(1 + i)}
				}
				if nets := hostNetAddrs(); layer == "hook" && len(nets) > 0 && rapid.IntRange(0, 3).Draw(t, "host.net") == 0 {
					d.IP = nets[rapid.IntRange(0, len(nets)-1).Draw(t, "host.net.addr")]
				}
				if rapid.IntRange(0, 5).Draw(t, "mapped") == 0 {
					// the same IPv4 address held in its IPv4-mapped IPv6 form (what netip.AddrFromSlice(net.ParseIP(..)) gives)
					d.RawIP = fmt.Sprintf("::ffff:%d.%d.%d.%d", d.IP[0], d.IP[1], d.IP[2], d.IP[3])
				}
			}
			c.Cfg.Devices = append(c.Cfg.Devices, d)
		}
		op := gen.Op(t, true)
		if rapid.IntRange(0, 9).Draw(t, "set.address") == 0 {
			op = "SetAddress" // the one operation without a reply has code paths of its own on every transport
		}
		c.Call = gen.Call(t, op)
		if op != "GetDevices" && len(serials) > 0 && rapid.IntRange(0, 4).Draw(t, "configured") != 0 {
			c.Call.Call.Serial = serials[rapid.IntRange(0, len(serials)-1).Draw(t, "which")]
		}
		if layer == "hook" {
			n := rapid.IntRange(0, 3).Draw(t, "more")
			for i := 0; i < n; i++ {
				cs := gen.Call(t, gen.Op(t, true))
				if cs.Call.Op != "GetDevices" && len(serials) > 0 && rapid.IntRange(0, 4).Draw(t, "more.configured") != 0 {
					cs.Call.Serial = serials[rapid.IntRange(0, len(serials)-1).Draw(t, "more.which")]
				}
				if i == 0 && op != "GetDevices" && rapid.Bool().Draw(t, "more.same") {
					cs.Call.Serial = c.Call.Call.Serial // the same controller again
					if cs.Call.Op == "GetDevices" {
						cs = gen.Call(t, "GetTime")
						cs.Call.Serial = c.Call.Call.Serial
					}
				}
				c.More = append(c.More, cs)
			}
		}
		if layer == "socket" && c.Cfg.BindPort != 0 && c.Cfg.BindIP != [4]byte{} {
			c.BindBusy = rapid.IntRange(0, 3).Draw(t, "bind.busy") == 0
			c.BindEqBroadcast = !c.BindBusy && rapid.IntRange(0, 2).Draw(t, "bind.eq.broadcast") == 0
		}
		if layer == "socket" && !c.BindBusy && rapid.IntRange(0, 7).Draw(t, "bind.unowned") == 0 {
			c.BindUnowned, c.BindEqBroadcast = true, false
		}
		if layer == "socket" && c.Cfg.HasBroadcast {
			c.ListenEvent = rapid.IntRange(0, 3).Draw(t, "listen.event") == 0
		}
		if layer == "socket" && op == "SetTime" {
			c.Call.V.TimeLoc = "" // keep the socket-layer requests independent of zone data
			_, c.Call.Call.DateTime = api.SetTimeArg(c.Call.Call, c.Call.V)
		}
		return c
	}
}

func props() []rp.Prop {
	return []rp.Prop{
		rp.P[routeCase]{Name: "hook-route", Checks: ev.Pick(60000, 6000000) / ev.Shards(), Gen: genCase("hook"), Check: check},
		rp.P[manyCase]{Name: "every-ephemeral-source-port", Sweep: sweepMany, Check: checkMany},
		rp.P[afterCase]{Name: "earlier-requests", Sweep: sweepAfter, Check: checkAfter},
		rp.P[routeCase]{Name: "socket-route", Checks: ev.Pick(640, 24000) / ev.Shards(), Gen: genCase("socket"), Check: check},
	}
}

func TestC06(t *testing.T) {
	var w *idleWatch
	if !ev.Replaying() && ev.Shard() == 1%ev.Shards() {
		w = startIdleWatch()
	}
	rp.RunAll(t, props()...)
	if w != nil {
		finishIdleWatch(t, w)
	}
}
func TestReplay(t *testing.T) { rp.ReplayAll(t, props()...) }
