package c07

import (
	"bytes"
	"fmt"

	"pgregory.net/rapid"

	"verif/harness/api"
	"verif/harness/ev"
	"verif/harness/hook"
	"verif/harness/rp"
	"verif/harness/spec"
)

// Consecutive VALID calls on one client whose arguments refer to one another: profile A linked to B and then B linked to A (and
// longer chains back to the start), a card put, deleted and put again, a listener set, cleared and set, an address set twice.
// What a client has sent or been told before is no reason to refuse a call whose own arguments are in the accepted domain -
// every call is accepted, puts its request on the wire, and the request is the encoding of its own arguments.
type relatedCase struct {
	Kind     string  `json:"kind"` // profile-chain | card-again | listener-again
	IDs      []uint8 `json:"ids"`
	Learn    bool    `json:"links_also_learnt_from_get_replies,omitempty"`
	Listener bool    `json:"listener_running,omitempty"`
}

func checkRelated(c relatedCase) *rp.Fail {
	ev.Case("related-valid-calls/"+c.Kind, true, fmt.Sprint(c))
	u, d := hook.Mem(hook.ClientCfg{})
	var calls []spec.Call
	base := spec.Call{Serial: 405419896, From: spec.Civil{Y: 2024, M: 1, D: 1}, To: spec.Civil{Y: 2024, M: 12, D: 31}, Card: 8165538, Door: 1,
		Segments: [6]spec.HM{{H: 8, M: 30}, {H: 11, M: 30}, {}, {}, {}, {}}}
	switch c.Kind {
	case "profile-chain":
		for i, id := range c.IDs {
			p := base
			p.Op, p.Profile, p.Linked = "SetTimeProfile", id, c.IDs[(i+1)%len(c.IDs)]
			calls = append(calls, p)
		}
	case "card-again":
		put, del := base, base
		put.Op, del.Op = "PutCard", "DeleteCard"
		calls = []spec.Call{put, del, put, put}
	case "listener-again":
		on, off := base, base
		on.Op, on.Listener, on.Port = "SetListener", [4]byte{192, 168, 1, 100}, 60001
		off.Op = "SetListener"
		calls = []spec.Call{on, off, on, off, off}
	}
	for i, call := range calls {
		if c.Learn && call.Op == "SetTimeProfile" {
			// the client first reads the profile it is about to write (and is told what it is linked to at the moment)
			get := call
			get.Op = "GetTimeProfile"
			rep := spec.Sample(spec.Responses["GetTimeProfile"], 0x17, call.Serial, 1)
			rep[8] = call.Profile
			rep[spec.Responses["GetTimeProfile"].Field("linked").Off] = call.Linked
			d.Reset(rep)
			api.Invoke(u, api.Case{Call: get})
		}
		cs := api.Case{Call: call, V: api.Variant{DoorsPresent: [4]bool{true, true, true, true}, WeekPresent: [7]bool{true, true, true, true, true, true, true}}}
		if reject, _ := mustReject(cs); reject {
			return nil // (not a valid tuple after all)
		}
		d.Reset(validReply(call)...)
		res := api.Invoke(u, cs)
		sends := d.Sends()
		if res.Panic != nil {
			return rp.Failf("uhppote."+call.Op+"/panic", "call %d of %d: %v", i+1, len(calls), res.Panic)
		}
		if res.Err != nil || len(sends) != 1 {
			return rp.Failf("uhppote."+call.Op+"/rejects-valid/after-related-calls", "call %d of %d related valid calls (%s %v) was refused: %v (%d requests sent); its arguments are in the accepted domain whatever the calls before it said", i+1, len(calls), c.Kind, c.IDs, res.Err, len(sends))
		}
		if want := spec.Request(call); !bytes.Equal(sends[0].Request, want) {
			return rp.Failf("uhppote."+call.Op+"/request-bytes/after-related-calls", "call %d of %d related valid calls sent %x, the encoding of its arguments is %x", i+1, len(calls), sends[0].Request, want)
		}
	}
	return nil
}

func genRelated(t *rapid.T) relatedCase {
	c := relatedCase{Kind: rapid.SampledFrom([]string{"profile-chain", "profile-chain", "card-again", "listener-again"}).Draw(t, "kind"), Learn: rapid.Bool().Draw(t, "learn")}
	n := rapid.IntRange(2, 4).Draw(t, "chain")
	seen := map[uint8]bool{}
	for len(c.IDs) < n {
		id := uint8(rapid.IntRange(2, 254).Draw(t, "id"))
		if !seen[id] {
			seen[id] = true
			c.IDs = append(c.IDs, id)
		}
	}
	return c
}
