// C07 - invalid arguments are rejected before anything is sent.
package c07

import (
	"bytes"
	"fmt"
	"net/netip"
	"os"
	"testing"
	"time"

	"github.com/uhppoted/uhppote-core/types"
	"github.com/uhppoted/uhppote-core/uhppote"
	"pgregory.net/rapid"

	"verif/harness/api"
	"verif/harness/ev"
	"verif/harness/gen"
	"verif/harness/hook"
	"verif/harness/memdrv"
	"verif/harness/rp"
	"verif/harness/spec"
)

func TestMain(m *testing.M) {
	time.Local = time.UTC
	ev.Describe("on unconfigured clients and on clients with configured controllers / bind / broadcast / listen addresses / debug output, incl. arguments that coincide with configured values (listener = the controller's own, the bind, broadcast or listen address; card number or index = controller id): argument tuples for every operation, built from a valid call by 0..2 perturbations chosen from classes on both sides of every documented boundary: controller id 0; card numbers {0, 0xffffffff, 0x00ffffff, F*100000+N with F and N inside and just outside 255/65535, 8-, 9- and 10-digit numbers} x format lists {none, any, Wiegand-26, both}; PIN 999999/1000000/large; listener addresses {zero value, 0.0.0.0:0, IPv4:0, 0.0.0.0:port, IPv4:port, IPv6, IPv4-mapped IPv6, zone-qualified}; SetAddress IPs of length 0/3/4/5/16 (IPv6 and IPv4-mapped); doors 0..255; 0..8 passcodes around 999999; profiles with missing dates, missing segment keys, nil segment map, end before/equal/after start. Oracle: a reference predicate mustReject(op, args) - rejected => error AND zero transport calls; accepted => exactly one transport call whose bytes equal the protocol model's encoding and, with a valid reply, no error. Sweeps: card numbers F x N grid around the Wiegand-26 bounds and (thorough) every card number 0..30,000,000. Non-trivial = rejected tuple or a tuple within one step of a boundary; distinct = distinct tuple.",
		"hook layer (in-memory driver): 'nothing on the network' is observed as 'no driver invocation'")
	ev.Main(m, "C07")
}

func isV4Bytes(b []byte) bool {
	switch len(b) {
	case 4:
		return true
	case 16:
		for i := 0; i < 10; i++ {
			if b[i] != 0 {
				return false
			}
		}
		return b[10] == 0xff && b[11] == 0xff
	}
	return false
}

func wiegand26(card uint32) bool { return card/100000 <= 255 && card%100000 <= 65535 }

func before(a, b spec.HM) bool { return a.H < b.H || (a.H == b.H && a.M < b.M) }

// mustReject is the reference predicate of the property statement.
func mustReject(cs api.Case) (bool, string) {
	c, v := cs.Call, cs.V
	if c.Op != "GetDevices" && c.Serial == 0 {
		return true, "controller id 0"
	}
	switch c.Op {
	case "PutCard":
		if c.Card == 0 || c.Card == 0xffffffff || c.Card == 0x00ffffff {
			return true, "reserved card number"
		}
		if len(v.Formats) > 0 {
			match := false
			for _, f := range v.Formats {
				if f == 0 || (f == 1 && wiegand26(c.Card)) {
					match = true
				}
			}
			if !match {
				return true, "card number matches none of the formats"
			}
		}
		if c.PIN > 999999 {
			return true, "PIN above 999999"
		}
	case "SetListener":
		if v.ListenerRaw != "" {
			a, err := netip.ParseAddrPort(v.ListenerRaw)
			if v.ListenerRaw == "invalid" || err != nil {
				return true, "zero-value address"
			}
			if a.Addr().Is4() && (a.Port() != 0 || a.Addr() == netip.IPv4Unspecified()) {
				return false, ""
			}
			return true, "not an IPv4 address with a non-zero port (nor 0.0.0.0:0)"
		}
		if c.Port == 0 && c.Listener != [4]byte{} {
			return true, "IPv4 address with port 0"
		}
	case "SetAddress":
		if v.RawIPs != nil {
			for i, ip := range v.RawIPs {
				if !isV4Bytes(ip) {
					return true, fmt.Sprintf("argument %d is not an IPv4 value", i)
				}
			}
		}
	case "SetDoorPasscodes":
		if c.Door < 1 || c.Door > 4 {
			return true, "door outside 1..4"
		}
	case "SetTimeProfile":
		present := func(i int, civil spec.Civil) bool {
			if t, ok := api.Extreme(v.ExtremeDate[i]); ok {
				return !t.IsZero() // (the argument is this value, whatever the civil fields say)
			}
			return !civil.IsZero()
		}
		if !present(0, c.From) || !present(1, c.To) {
			return true, "missing date"
		}
		if v.SegmentsNil || len(v.MissingSegments) > 0 {
			for _, k := range v.MissingSegments {
				if k >= 1 && k <= 3 {
					return true, "missing segment"
				}
			}
			if v.SegmentsNil {
				return true, "missing segment"
			}
		}
		for i := 0; i < 3; i++ {
			if before(c.Segments[2*i+1], c.Segments[2*i]) {
				return true, "segment ends before it starts"
			}
		}
	}
	return false, ""
}

func validReply(c spec.Call) [][]byte {
	l, ok := spec.Responses[c.Op]
	if !ok {
		return nil
	}
	b := make([]byte, 64)
	spec.Header(b, 0x17, l.Code, c.Serial)
	switch {
	case len(l.Fields) == 2 && l.Fields[1].Name == "ok":
		b[8] = 1
	case c.Op == "GetCardByID":
		spec.PutLE32(b[8:], c.Card)
	case c.Op == "GetTimeProfile":
		b[8] = c.Profile
	}
	return [][]byte{b}
}

func decide(cs api.Case) (*rp.Fail, bool) { return decideWith(cs, hook.ClientCfg{}) }

// decideWith: the verdict depends on the arguments only - never on how the client happens to be configured.
func decideWith(cs api.Case, cfg hook.ClientCfg) (*rp.Fail, bool) {
	return decideWarm(cfgCase{Case: cs, Cfg: cfg})
}

func decideWarm(c cfgCase) (*rp.Fail, bool) {
	cs, cfg := c.Case, c.Cfg
	reject, why := mustReject(cs)
	u, d := hook.Mem(cfg)
	if c.WarmVersion != 0 {
		warmUp(u, d, c)
	}
	if c.Listening {
		ev.Class("judged-call-made-while-the-event-listener-runs", 1)
		l := quiet{up: make(chan struct{}, 1)}
		stop := make(chan os.Signal)
		done := make(chan error, 1)
		go func() { done <- u.Listen(l, stop) }()
		select {
		case <-l.up:
		case <-done:
			done <- nil
		case <-time.After(2 * time.Second):
		}
		defer func() {
			close(stop)
			select {
			case <-done:
			case <-time.After(2 * time.Second):
			}
		}()
	}
	d.Reset(validReply(cs.Call)...)
	var res api.Result
	if cs.Call.Op == "GetDevices" {
		_, res.Err = u.GetDevices()
	} else {
		res = api.Invoke(u, cs)
	}
	site := "uhppote." + cs.Call.Op
	sends := d.Sends()
	if res.Panic != nil {
		return rp.Failf(site+"/panic", "%s panicked: %v", cs.Call.Op, res.Panic), reject
	}
	if reject {
		if res.Err == nil {
			return rp.Failf(site+"/accepts-invalid", "%s must be rejected (%s) but returned %v", cs.Call.Op, why, res), reject
		}
		if len(sends) != 0 {
			return rp.Failf(site+"/sent-before-rejecting", "%s was rejected (%v) but %d request(s) reached the transport first", cs.Call.Op, res.Err, len(sends)), reject
		}
		return nil, reject
	}
	if len(sends) != 1 {
		return rp.Failf(site+"/rejects-valid", "%s with arguments in the accepted domain made %d transport calls (result %v)", cs.Call.Op, len(sends), res), reject
	}
	if _, unusual := api.Extreme(cs.V.ExtremeDate[0]); unusual || func() bool { _, u := api.Extreme(cs.V.ExtremeDate[1]); return u }() {
		// (dates outside 0001..9999 have no BCD form; what is sent in their place is not judged - only that the call is not rejected)
		return nil, reject
	}
	if want := spec.Request(cs.Call); !bytes.Equal(sends[0].Request, want) {
		return rp.Failf(site+"/request-bytes", "%s sent %x, protocol encoding is %x", cs.Call.Op, sends[0].Request, want), reject
	}
	if res.Err != nil {
		return rp.Failf(site+"/rejects-valid", "%s with arguments in the accepted domain failed: %v", cs.Call.Op, res.Err), reject
	}
	return nil, reject
}

func nearBoundary(cs api.Case) bool {
	c, v := cs.Call, cs.V
	switch c.Op {
	case "PutCard":
		f, n := c.Card/100000, c.Card%100000
		return c.PIN >= 999998 && c.PIN <= 1000001 || (len(v.Formats) > 0 && (f >= 254 && f <= 257 || n >= 65534 && n <= 65537)) || c.Card <= 1 || c.Card >= 0xfffffffe || (c.Card >= 0x00fffffe && c.Card <= 0x01000000)
	case "SetDoorPasscodes":
		for _, p := range v.RawPasscodes {
			if p >= 999998 && p <= 1000001 {
				return true
			}
		}
		return c.Door <= 1 || c.Door == 4 || c.Door == 5 || len(v.RawPasscodes) >= 4
	case "SetListener":
		return true
	case "SetAddress":
		return v.RawIPs != nil
	case "SetTimeProfile":
		for i := 0; i < 3; i++ {
			d := (c.Segments[2*i+1].H*60 + c.Segments[2*i+1].M) - (c.Segments[2*i].H*60 + c.Segments[2*i].M)
			if d >= -1 && d <= 1 {
				return true
			}
		}
	}
	return false
}

func check(cs api.Case) *rp.Fail {
	f, reject := decide(cs)
	class := "accepted/" + cs.Call.Op
	if reject {
		class = "rejected/" + cs.Call.Op
	}
	ev.Case(class, reject || nearBoundary(cs), fmt.Sprintf("%+v", cs))
	if ev.WantSample(class) {
		ev.Sample(class, cs)
	}
	return f
}

func genCase(t *rapid.T) api.Case {
	op := gen.Op(t, true)
	if rapid.IntRange(0, 1).Draw(t, "focus") == 0 {
		op = rapid.SampledFrom([]string{"PutCard", "SetListener", "SetAddress", "SetDoorPasscodes", "SetTimeProfile"}).Draw(t, "focus.op")
	}
	cs := gen.Call(t, op)
	n := rapid.IntRange(0, 2).Draw(t, "perturbations")
	for i := 0; i < n; i++ {
		perturb(t, &cs)
	}
	return cs
}

func perturb(t *rapid.T, cs *api.Case) {
	c, v := &cs.Call, &cs.V
	kinds := []string{"serial0"}
	switch c.Op {
	case "PutCard":
		kinds = append(kinds, "card", "card", "pin", "formats", "formats")
	case "SetListener":
		kinds = append(kinds, "listener", "listener", "listener")
	case "SetAddress":
		kinds = append(kinds, "ips", "ips", "ips")
	case "SetDoorPasscodes":
		kinds = append(kinds, "door", "door")
	case "SetTimeProfile":
		kinds = append(kinds, "dates", "segments", "segments", "order", "order", "odd-times")
	}
	switch rapid.SampledFrom(kinds).Draw(t, "perturb") {
	case "serial0":
		if c.Op != "GetDevices" && rapid.IntRange(0, 3).Draw(t, "serial0") == 0 {
			c.Serial = 0
		}
	case "card":
		switch rapid.IntRange(0, 3).Draw(t, "card.kind") {
		case 0:
			c.Card = rapid.SampledFrom([]uint32{0, 1, 0xffffffff, 0xfffffffe, 0x00ffffff, 0x00fffffe, 0x01000000}).Draw(t, "card")
		case 1:
			f := uint32(rapid.SampledFrom([]int{0, 1, 254, 255, 256, 257, 999, 1000, 9999, 10000, 42949}).Draw(t, "facility"))
			n := uint32(rapid.SampledFrom([]int{0, 1, 65534, 65535, 65536, 65537, 99999}).Draw(t, "number"))
			if f == 42949 && n > 67295 {
				n = 67295
			}
			c.Card = f*100000 + n
		case 2:
			c.Card = rapid.SampledFrom([]uint32{99999999, 100000000, 100000001, 165535, 25565535, 25565536, 25600000, 1000000000, 1000065535, 4294967294, 255065535}).Draw(t, "card")
		default:
			c.Card = uint32(rapid.IntRange(0, 30000000).Draw(t, "card"))
		}
	case "pin":
		c.PIN = rapid.SampledFrom([]uint32{0, 999998, 999999, 1000000, 1000001, 0xffffff, 0x1000000, 0xffffffff}).Draw(t, "pin")
	case "formats":
		v.Formats = rapid.SampledFrom([][]uint8{{0}, {1}, {1}, {0, 1}, {1, 0}, {1, 1}, {0, 0}}).Draw(t, "formats")
		if rapid.IntRange(0, 3).Draw(t, "formats.undefined") == 0 {
			// format values the library does not define (a newer caller, a cast from configuration text): they match no card number
			n := rapid.IntRange(1, 4).Draw(t, "formats.n")
			v.Formats = nil
			for i := 0; i < n; i++ {
				v.Formats = append(v.Formats, rapid.SampledFrom([]uint8{1, 1, 0, 2, 2, 3, 26, 34, 127, 128, 254, 255}).Draw(t, "format"))
			}
		}
	case "listener":
		v.ListenerRaw = rapid.SampledFrom([]string{"invalid", "0.0.0.0:0", "0.0.0.0:60001", "192.168.1.100:0", "192.168.1.100:60001", "255.255.255.255:65535", "[::1]:60001", "[::]:0", "[2001:db8::1]:60001",
			"[::ffff:192.168.1.100]:60001", "[::ffff:0.0.0.0]:0", "[fe80::1%eth0]:60001", "[fe80::1%eth0]:0", "1.2.3.4:1"}).Draw(t, "listener")
		if a, err := netip.ParseAddrPort(v.ListenerRaw); err == nil && a.Addr().Is4() {
			c.Listener, c.Port = a.Addr().As4(), a.Port()
		}
	case "ips":
		v.RawIPs = [][]byte{c.Address[:], c.Mask[:], c.Gateway[:]}
		i := rapid.IntRange(0, 2).Draw(t, "ips.which")
		src := [][4]byte{c.Address, c.Mask, c.Gateway}[i]
		switch rapid.IntRange(0, 9).Draw(t, "ips.kind") {
		case 7: // 16-byte netmask forms: twelve 0xff bytes and the IPv4 mask (what net.CIDRMask(96+n, 128) gives) - not an IPv4 value
			v.RawIPs[i] = append([]byte{0xff, 0xff, 0xff, 0xff, 0xff, 0xff, 0xff, 0xff, 0xff, 0xff, 0xff, 0xff}, src[:]...)
		case 8:
			v.RawIPs[i] = []byte{0xff, 0xff, 0xff, 0xff, 0xff, 0xff, 0xff, 0xff, 0xff, 0xff, 0xff, 0xff, 0xff, 0xff, 0xff, 0}
		case 9: // other 16-byte values that merely END in the IPv4 bytes
			pre := rapid.SampledFrom([][]byte{{0, 0, 0, 0, 0, 0, 0, 0, 0, 0, 0xff, 0xfe}, {0, 0, 0, 0, 0, 0, 0, 0, 0, 0, 0, 0xff}, {0x00, 0x64, 0xff, 0x9b, 0, 0, 0, 0, 0, 0, 0, 0}, {0x20, 0x02, 0, 0, 0, 0, 0, 0, 0, 0, 0, 0},
				{0, 0, 0, 0, 0, 0, 0, 0, 0, 1, 0xff, 0xff}, {0xfe, 0x80, 0, 0, 0, 0, 0, 0, 0, 0, 0, 0}}).Draw(t, "ips.prefix")
			v.RawIPs[i] = append(append([]byte(nil), pre...), src[:]...)
		case 0:
			v.RawIPs[i] = nil
		case 1:
			v.RawIPs[i] = []byte{}
		case 2:
			v.RawIPs[i] = []byte{1, 2, 3}
		case 3:
			v.RawIPs[i] = []byte{1, 2, 3, 4, 5}
		case 4:
			v.RawIPs[i] = []byte{0x20, 0x01, 0x0d, 0xb8, 0, 0, 0, 0, 0, 0, 0, 0, 0, 0, 0, 1}
		case 5: // IPv4-mapped 16-byte form: still an IPv4 value
			v.RawIPs[i] = append([]byte{0, 0, 0, 0, 0, 0, 0, 0, 0, 0, 0xff, 0xff}, src[:]...)
		default:
			v.RawIPs[i] = append([]byte{0, 0, 0, 0, 0, 0, 0, 0, 0, 0, 0, 0}, src[:]...) // 16 bytes, not v4-mapped
		}
	case "door":
		c.Door = rapid.SampledFrom([]uint8{0, 1, 4, 5, 6, 127, 128, 255}).Draw(t, "door")
	case "dates":
		if rapid.IntRange(0, 3).Draw(t, "unusual") == 0 {
			// dates that are present but unusual (before the common era, beyond year 9999, the ends of the time.Time range): they are
			// not missing, so they are no reason to reject the call
			rep := rapid.SampledFrom([]string{"negative", "y10000", "max", "min"}).Draw(t, "unusual.repr")
			v.ExtremeDate[rapid.IntRange(0, 1).Draw(t, "unusual.which")] = rep
			break
		}
		// a missing date: the zero Date literal, or the zero instant in another representation
		rep := rapid.SampledFrom([]string{"", "", "zero", "zero-local", "zero-unix"}).Draw(t, "zero.repr")
		if rapid.Bool().Draw(t, "from.zero") {
			c.From = spec.Civil{}
			v.ExtremeDate[0] = rep
		} else {
			c.To = spec.Civil{}
			v.ExtremeDate[1] = rep
		}
	case "segments":
		switch rapid.IntRange(0, 2).Draw(t, "segments.kind") {
		case 0:
			v.MissingSegments = []uint8{uint8(rapid.IntRange(1, 3).Draw(t, "missing"))}
		case 1:
			v.SegmentsNil = true
		default:
			v.MissingSegments = []uint8{uint8(rapid.IntRange(4, 255).Draw(t, "missing.foreign"))}
		}
	case "order":
		i := rapid.IntRange(0, 2).Draw(t, "segment")
		a := c.Segments[2*i]
		switch rapid.IntRange(0, 3).Draw(t, "order.kind") {
		case 0: // end == start
			c.Segments[2*i+1] = a
		case 1: // end one minute before start
			b := a
			if b.M > 0 {
				b.M--
			} else if b.H > 0 {
				b.H, b.M = b.H-1, 59
			}
			c.Segments[2*i+1] = b
		case 2: // swap
			c.Segments[2*i], c.Segments[2*i+1] = c.Segments[2*i+1], c.Segments[2*i]
		default: // same hour, minutes reversed
			c.Segments[2*i], c.Segments[2*i+1] = spec.HM{H: a.H % 24, M: 30}, spec.HM{H: a.H % 24, M: 29}
		}
	case "odd-times":
		// times of day that NewHHmm accepts although no clock shows them (08:75, 24:30, 25:00): the segment is in order, and an
		// odd time is none of the reasons for which a profile is rejected
		i := rapid.IntRange(0, 2).Draw(t, "segment")
		odd := rapid.SampledFrom([][2]spec.HM{{{H: 8, M: 75}, {H: 9, M: 10}}, {{H: 8, M: 0}, {H: 24, M: 30}}, {{H: 25, M: 0}, {H: 25, M: 0}}, {{H: 0, M: 60}, {H: 0, M: 99}}, {{H: 23, M: 59}, {H: 29, M: 0}}, {{H: 12, M: 61}, {H: 12, M: 62}}}).Draw(t, "odd")
		c.Segments[2*i], c.Segments[2*i+1] = odd[0], odd[1]
	}
}

// systematic sweeps ----------------------------------------------------------------------------------

func baseCard(card uint32, formats []uint8) api.Case {
	return api.Case{Call: spec.Call{Op: "PutCard", Serial: 405419896, Card: card, From: spec.Civil{Y: 2024, M: 1, D: 1}, To: spec.Civil{Y: 2024, M: 12, D: 31}}, V: api.Variant{DoorsNil: true, Formats: formats}}
}

func sweep(yield func(api.Case) bool) {
	idx := 0
	emit := func(cs api.Case) bool {
		idx++
		if !ev.Mine(idx) {
			return true
		}
		return yield(cs)
	}
	// Wiegand-26 grid: facility 0..300 (+ large) x numbers around the bounds, all format lists
	fs := []uint32{}
	for f := uint32(0); f <= 300; f++ {
		fs = append(fs, f)
	}
	fs = append(fs, 999, 1000, 1001, 2550, 2559, 9999, 10000, 10255, 25500, 42948, 42949)
	for _, f := range fs {
		for _, n := range []uint32{0, 1, 9999, 10000, 65534, 65535, 65536, 65537, 99999} {
			card := uint64(f)*100000 + uint64(n)
			if card > 0xffffffff {
				continue
			}
			for _, formats := range [][]uint8{nil, {0}, {1}, {0, 1}} {
				if !emit(baseCard(uint32(card), formats)) {
					return
				}
			}
		}
	}
	// every door for the door-taking operations, every op with id 0
	for door := 0; door < 256; door++ {
		if !emit(api.Case{Call: spec.Call{Op: "SetDoorPasscodes", Serial: 405419896, Door: uint8(door), Passcodes: [4]uint32{1, 2, 3, 0}}, V: api.Variant{RawPasscodes: []uint32{1, 2, 3, 1000000, 5}}}) {
			return
		}
	}
	for _, op := range spec.Ops {
		if op == "GetDevices" {
			continue
		}
		cs := api.Case{Call: spec.Call{Op: op, Serial: 0, Card: 8165538, Door: 1, From: spec.Civil{Y: 2024, M: 1, D: 1}, To: spec.Civil{Y: 2024, M: 12, D: 31}, Listener: [4]byte{192, 168, 1, 100}, Port: 60001,
			Address: [4]byte{192, 168, 1, 100}, Mask: [4]byte{255, 255, 255, 0}, Gateway: [4]byte{192, 168, 1, 1}}}
		if !emit(cs) {
			return
		}
	}
	// PIN boundary
	for _, pin := range []uint32{0, 1, 999998, 999999, 1000000, 1000001, 0xffffff, 0x1000000, 0xffffffff} {
		cs := baseCard(8165538, nil)
		cs.Call.PIN = pin
		if !emit(cs) {
			return
		}
	}
}

// thorough: every card number 0..30,000,000 (+ a 2^24-sized stride sample of the rest) against Wiegand-26
func TestCardNumbers(t *testing.T) {
	if ev.Replaying() {
		t.Skip()
	}
	limit := uint64(ev.Pick(300000, 30000001))
	var n, nt int64
	try := func(card uint32) bool {
		cs := baseCard(card, []uint8{1})
		f, reject := decide(cs)
		n++
		if reject || nearBoundary(cs) {
			nt++
		}
		if f != nil && ev.Failure("args", f.Fingerprint, f.Msg, cs) {
			t.Errorf("[%s] %s", f.Fingerprint, f.Msg)
			return false
		}
		return true
	}
	for card := uint64(ev.Shard()); card < limit; card += uint64(ev.Shards()) {
		if !try(uint32(card)) {
			return
		}
	}
	stride := uint64(ev.Pick(65521, 251))
	for card := limit + uint64(ev.Shard())*stride; card <= 0xffffffff; card += stride * uint64(ev.Shards()) {
		if !try(uint32(card)) {
			return
		}
	}
	ev.Bulk("sweep/card-numbers-vs-wiegand26", n, nt)
}

// configured clients: the same argument tuples on clients with configured controllers (with / without address, udp / tcp,
// any configured time zone), bind / broadcast / listen addresses and debug output - and arguments that COINCIDE with
// configured values (the listener is the controller's own address, the bind, broadcast or listen address; the new
// address is the configured one; the card number equals the controller id ...).
type cfgCase struct {
	Case api.Case       `json:"case"`
	Cfg  hook.ClientCfg `json:"cfg"`
	Same string         `json:"coincides,omitempty"`
	// Warm: before the judged call the same client has already talked to the controller - a get-device reply with this
	// firmware version (0 = no warm-up), a get-status reply, and a reply to the 'get' counterpart of the judged operation that
	// reports exactly the values the judged call is about to pass (valid or not). What a controller said earlier decides
	// nothing about whether a call is accepted.
	WarmVersion uint16 `json:"warm_version,omitempty"`
	// Listening: the client's event listener is running while the judged call is made (a daemon that listens for events and
	// manages its controllers from the same client). Whether a call is accepted is a matter of its arguments.
	Listening bool `json:"listener_running,omitempty"`
}

type quiet struct{ up chan struct{} }

func (q quiet) OnConnected() {
	select {
	case q.up <- struct{}{}:
	default:
	}
}
func (quiet) OnEvent(*types.Status) {}
func (quiet) OnError(error) bool    { return true }

var getFor = map[string]string{"PutCard": "GetCardByID", "SetTimeProfile": "GetTimeProfile", "SetListener": "GetListener", "SetDoorControlState": "GetDoorControlState",
	"SetTime": "GetTime", "SetEventIndex": "GetEventIndex"}

func warmUp(u uhppote.IUHPPOTE, d *memdrv.Driver, c cfgCase) {
	serial := c.Case.Call.Serial
	if serial == 0 {
		serial = 405419896
	}
	dev := make([]byte, 64)
	spec.Header(dev, 0x17, 0x94, serial)
	copy(dev[8:], []byte{192, 168, 1, 100, 255, 255, 255, 0, 192, 168, 1, 1, 0, 0x66, 0x19, 0x39, 0x55, 0x2d, byte(c.WarmVersion >> 8), byte(c.WarmVersion), 0x20, 0x18, 0x08, 0x16})
	func() {
		defer func() { recover() }()
		d.Reset(dev)
		u.GetDevice(serial)
		d.Reset(dev)
		u.GetDevices()
		st := make([]byte, 64)
		spec.Header(st, 0x17, 0x20, serial)
		d.Reset(st)
		u.GetStatus(serial)
		if g, ok := getFor[c.Case.Call.Op]; ok {
			rep := append([]byte(nil), spec.Request(c.Case.Call)...)
			spec.Header(rep, 0x17, spec.Responses[g].Code, serial)
			get := c.Case
			get.Call.Op = g
			get.Call.Serial = serial
			d.Reset(rep)
			api.Invoke(u, get)
		}
	}()
	d.Reset()
}

func genCfgCase(t *rapid.T) cfgCase {
	c := cfgCase{Case: genCase(t)}
	c.Listening = rapid.IntRange(0, 3).Draw(t, "listening") == 0
	if c.Listening && c.Case.Call.Op == "SetListener" && rapid.Bool().Draw(t, "events.off") {
		// 0.0.0.0:0 - 'send no events' - is a value SetListener accepts
		c.Case.V.ListenerRaw, c.Case.Call.Listener, c.Case.Call.Port = "", [4]byte{}, 0
	}
	call := &c.Case.Call
	cfg := &c.Cfg
	cfg.Debug = gen.Debug(t, "debug")
	if rapid.Bool().Draw(t, "bind") {
		cfg.BindIP, cfg.BindPort = [4]byte{192, 168, 1, 5}, uint16(rapid.SampledFrom([]int{0, 50000}).Draw(t, "bind.port"))
	}
	if rapid.Bool().Draw(t, "broadcast") {
		cfg.HasBroadcast, cfg.BroadcastIP, cfg.BroadcastPort = true, [4]byte{192, 168, 1, 255}, uint16(rapid.SampledFrom([]int{60000, 60005}).Draw(t, "broadcast.port"))
	}
	if rapid.Bool().Draw(t, "listen") {
		cfg.HasListen, cfg.ListenIP, cfg.ListenPort = true, [4]byte{192, 168, 1, 5}, 60001
	}
	ctrl := hook.DeviceCfg{Name: rapid.SampledFrom([]string{"Alpha", "", "  ", "ünï côde"}).Draw(t, "name"), Serial: call.Serial, TZ: gen.DeviceTZ(t, "tz"), ViaNew: rapid.Bool().Draw(t, "via.new"),
		Doors: [][]string{nil, {}, {"D1"}, {"D1", "D2"}, {"D1", "D2", "D3"}, {"D1", "D2", "D3", "D4"}, {"D1", "D2", "D3", "D4", "D5"}, {"", "", "", ""}}[rapid.IntRange(0, 7).Draw(t, "doors")]}
	kind := rapid.IntRange(0, 3).Draw(t, "controller")
	switch kind {
	case 1:
		ctrl.Protocol = "udp"
	case 2:
		ctrl.HasAddr, ctrl.IP, ctrl.Port, ctrl.Protocol = true, [4]byte{192, 168, 1, 100}, uint16(rapid.SampledFrom([]int{60000, 54321}).Draw(t, "controller.port")), "udp"
	case 3:
		ctrl.HasAddr, ctrl.IP, ctrl.Port, ctrl.Protocol = true, [4]byte{192, 168, 1, 100}, uint16(rapid.SampledFrom([]int{60000, 54321}).Draw(t, "controller.port")), "tcp"
	}
	if kind != 0 && call.Op != "GetDevices" {
		cfg.Devices = append(cfg.Devices, ctrl)
	}
	if rapid.Bool().Draw(t, "other") {
		cfg.Devices = append(cfg.Devices, hook.DeviceCfg{Name: "Beta", Serial: call.Serial ^ 0x10, HasAddr: true, IP: [4]byte{192, 168, 1, 101}, Port: 60000, Protocol: "udp", TZ: gen.DeviceTZ(t, "tz.other")})
	}
	if rapid.Bool().Draw(t, "warm") {
		c.WarmVersion = rapid.SampledFrom([]uint16{0x0892, 0x0662, 0x0656, 0x0663, 0x0100, 0x0999, 0xffff, 0x0608}).Draw(t, "warm.version")
		if rapid.IntRange(0, 3).Draw(t, "warm.dict") == 0 {
			if v := uint16(gen.DictInt(t, "warm.version", 0xffff)); v != 0 {
				c.WarmVersion = v
			}
		}
	}
	if rapid.IntRange(0, 2).Draw(t, "coincide") != 0 && c.Case.V.ListenerRaw == "" && c.Case.V.RawIPs == nil {
		type ap struct {
			name string
			ip   [4]byte
			port uint16
		}
		opts := []ap{{"listener = controller address", [4]byte{192, 168, 1, 100}, 60000}, {"listener = controller address", [4]byte{192, 168, 1, 100}, 54321}, {"listener = bind address", [4]byte{192, 168, 1, 5}, 50000},
			{"listener = broadcast address", [4]byte{192, 168, 1, 255}, 60000}, {"listener = listen address", [4]byte{192, 168, 1, 5}, 60001}, {"listener = other controller", [4]byte{192, 168, 1, 101}, 60000},
			{"listener = loopback", [4]byte{127, 0, 0, 1}, 60001}, {"listener = limited broadcast", [4]byte{255, 255, 255, 255}, 60000}}
		o := opts[rapid.IntRange(0, len(opts)-1).Draw(t, "coincide.which")]
		switch call.Op {
		case "SetListener":
			call.Listener, call.Port, c.Same = o.ip, o.port, o.name
		case "SetAddress":
			call.Address, c.Same = o.ip, "address = "+o.name[11:]
			if rapid.Bool().Draw(t, "gateway.too") {
				call.Gateway = o.ip
			}
		case "PutCard", "GetCardByID", "DeleteCard":
			if call.Serial != 0 && call.Serial != 0xffffffff && call.Serial != 0x00ffffff && len(c.Case.V.Formats) == 0 {
				call.Card, c.Same = call.Serial, "card number = controller id"
			}
		case "GetCardByIndex", "GetEvent", "SetEventIndex":
			call.Index, c.Same = call.Serial, "index = controller id"
		}
	}
	return c
}

func checkCfg(c cfgCase) *rp.Fail {
	f, reject := decideWarm(c)
	if c.WarmVersion != 0 {
		ev.Class("configured/after-earlier-replies-from-the-controller", 1)
	}
	class := "configured/accepted/" + c.Case.Call.Op
	if reject {
		class = "configured/rejected/" + c.Case.Call.Op
	}
	ev.Case(class, reject || nearBoundary(c.Case) || c.Same != "", fmt.Sprintf("%+v", c))
	if c.Same != "" {
		ev.Class("configured/argument-coincides-with-configuration/"+c.Same, 1)
	}
	if ev.WantSample(class) {
		ev.Sample(class, c)
	}
	return f
}

func props() []rp.Prop {
	return []rp.Prop{
		rp.P[api.Case]{Name: "args", Checks: ev.Pick(90000, 16000000) / ev.Shards(), Gen: genCase, Sweep: sweep, Check: check},
		rp.P[bulkCase]{Name: "bulk-upload", Checks: ev.Pick(6000, 600000) / ev.Shards(), Gen: genBulk, Check: checkBulk},
		rp.P[raceCase]{Name: "concurrent-validation", Checks: ev.Pick(160, 8000) / ev.Shards(), Gen: genConcurrent, Check: checkConcurrent},
		rp.P[relatedCase]{Name: "related-valid-calls", Checks: ev.Pick(400, 40000) / ev.Shards(), Gen: genRelated, Check: checkRelated},
		rp.P[bypassCase]{Name: "argument-addresses-are-not-contacted", Checks: ev.Pick(60, 6000) / ev.Shards(), Gen: genBypass, Check: checkBypass},
		rp.P[cfgCase]{Name: "args-configured", Checks: ev.Pick(60000, 8000000) / ev.Shards(), Gen: genCfgCase, Check: checkCfg},
	}
}

func TestC07(t *testing.T)    { rp.RunAll(t, props()...) }
func TestReplay(t *testing.T) { rp.ReplayAll(t, props()...) }
