package c07

import (
	"fmt"
	"sync"

	"github.com/uhppoted/uhppote-core/types"
	"pgregory.net/rapid"

	"verif/harness/api"
	"verif/harness/ev"
	"verif/harness/gen"
	"verif/harness/hook"
	"verif/harness/rp"
	"verif/harness/spec"
)

// bulk upload: an application keeps ONE format list and passes it with card after card (PutCard(id, card, formats...)). Every
// call is judged on the list as the application wrote it - the list is the application's, it is the same after each call -
// and a card that matches none of its formats is rejected whatever was uploaded before.
type bulkCase struct {
	Formats []uint8  `json:"formats"`
	Cards   []uint32 `json:"cards"`
	Debug   bool     `json:"debug,omitempty"`
	// Fresh[i]: before card i the application reuses the memory of its kept list for something else (overwrites it in place
	// with Scribble) and passes a NEW slice with the original content - the call is judged on the list it is given
	Fresh    []bool  `json:"fresh_list,omitempty"`
	Scribble []uint8 `json:"kept_list_overwritten_with,omitempty"`
}

func checkBulk(c bulkCase) *rp.Fail {
	ev.Case("bulk-upload-with-one-format-list", true, fmt.Sprint(c))
	u, d := hook.Mem(hook.ClientCfg{Debug: c.Debug})
	kept := make([]types.CardFormat, len(c.Formats), len(c.Formats)+3) // (spare capacity, as a list built with append has)
	for i, f := range c.Formats {
		kept[i] = types.CardFormat(f)
	}
	ok := make([]byte, 64)
	spec.Header(ok, 0x17, 0x50, 405419896)
	ok[8] = 1
	for i, card := range c.Cards {
		cs := api.Case{Call: spec.Call{Op: "PutCard", Serial: 405419896, Card: card, From: spec.Civil{Y: 2024, M: 1, D: 1}, To: spec.Civil{Y: 2024, M: 12, D: 31}}, V: api.Variant{DoorsNil: true, Formats: c.Formats}}
		reject, why := mustReject(cs)
		d.Reset(ok)
		var err error
		var pnc any
		pass := kept
		fresh := i < len(c.Fresh) && c.Fresh[i] && len(c.Scribble) > 0
		if fresh {
			for j := range kept {
				kept[j] = types.CardFormat(c.Scribble[j%len(c.Scribble)])
			}
			pass = make([]types.CardFormat, len(c.Formats))
			for j, f := range c.Formats {
				pass[j] = types.CardFormat(f)
			}
		}
		func() {
			defer func() { pnc = recover() }()
			_, err = u.PutCard(405419896, types.Card{CardNumber: card, From: types.ToDate(2024, 1, 1), To: types.ToDate(2024, 12, 31)}, pass...)
		}()
		if fresh {
			// (the kept list holds the original content again for the following cards)
			for j, f := range c.Formats {
				kept[j] = types.CardFormat(f)
			}
		}
		if pnc != nil {
			return rp.Failf("uhppote.PutCard/panic", "card %d of a bulk upload (%d, formats %v) panicked: %v", i+1, card, c.Formats, pnc)
		}
		for j, f := range c.Formats {
			if kept[j] != types.CardFormat(f) {
				return rp.Failf("uhppote.PutCard/modifies-argument", "card %d of a bulk upload: PutCard changed the caller's format list from %v to %v", i+1, c.Formats, kept)
			}
		}
		sends := len(d.Sends())
		if reject && (err == nil || sends != 0) {
			return rp.Failf("uhppote.PutCard/accepts-invalid", "card %d of a bulk upload with ONE kept format list %v: card number %d must be rejected (%s) but the call returned %v and %d request(s) were sent (cards so far: %v)", i+1, c.Formats, card, why, err, sends, c.Cards[:i+1])
		}
		if !reject && (err != nil || sends != 1) {
			return rp.Failf("uhppote.PutCard/rejects-valid", "card %d of a bulk upload with ONE kept format list %v: card number %d is valid but the call returned %v and %d request(s) were sent (cards so far: %v)", i+1, c.Formats, card, err, sends, c.Cards[:i+1])
		}
	}
	return nil
}

func genBulk(t *rapid.T) bulkCase {
	c := bulkCase{Debug: gen.Debug(t, "debug")}
	n := rapid.IntRange(1, 5).Draw(t, "formats")
	for i := 0; i < n; i++ {
		c.Formats = append(c.Formats, rapid.SampledFrom([]uint8{1, 1, 1, 0, 2, 255}).Draw(t, "format"))
	}
	k := rapid.IntRange(2, 6).Draw(t, "cards")
	if rapid.Bool().Draw(t, "reuse.memory") {
		c.Scribble = rapid.SampledFrom([][]uint8{{0}, {255}, {1}, {2, 0}}).Draw(t, "scribble")
		for i := 0; i < k; i++ {
			c.Fresh = append(c.Fresh, i > 0 && rapid.Bool().Draw(t, "fresh"))
		}
	}
	for i := 0; i < k; i++ {
		switch rapid.IntRange(0, 3).Draw(t, "card.kind") {
		case 0: // valid Wiegand-26
			c.Cards = append(c.Cards, uint32(rapid.IntRange(0, 255).Draw(t, "facility"))*100000+uint32(rapid.IntRange(1, 65535).Draw(t, "number")))
		case 1: // facility code or number just out of range
			c.Cards = append(c.Cards, rapid.SampledFrom([]uint32{25600001, 25565536, 10065536, 99999999, 100000000, 4294967294}).Draw(t, "card.invalid"))
		default:
			c.Cards = append(c.Cards, uint32(rapid.IntRange(1, 0x7fffffff).Draw(t, "card")))
		}
	}
	return c
}

// concurrent validation: goroutines that share one client push different argument tuples at the same time, valid and invalid
// ones; every call gets the verdict of ITS arguments (an invalid tuple is rejected and nothing is sent for it, a valid one goes
// out once), whatever the others are doing.
type raceCase struct {
	Tuples  []api.Case `json:"tuples"`
	Rounds  int        `json:"rounds"`
	Workers int        `json:"workers"`
}

func checkConcurrent(c raceCase) *rp.Fail {
	ev.Case("concurrent-validation", true, fmt.Sprint(len(c.Tuples), c.Rounds, c.Workers))
	// each tuple gets a client-independent verdict first; the shared client is then hammered
	type verdict struct {
		reject bool
		why    string
	}
	vs := make([]verdict, len(c.Tuples))
	mixed := map[bool]bool{}
	for i, cs := range c.Tuples {
		vs[i].reject, vs[i].why = mustReject(cs)
		mixed[vs[i].reject] = true
	}
	if len(mixed) == 2 {
		ev.Class("concurrent-validation/valid-and-invalid-tuples-at-once", 1)
	}
	// (two clients of one process: the even goroutines use the first, the odd ones the second - what one client is in the middle
	// of validating is none of the other's business)
	u, d := hook.MemConcurrent(hook.ClientCfg{})
	u2, d2 := hook.MemConcurrent(hook.ClientCfg{})
	var mu sync.Mutex
	var first *rp.Fail
	var wg sync.WaitGroup
	start := make(chan struct{})
	for w := 0; w < c.Workers; w++ {
		wg.Add(1)
		go func(w int) {
			defer wg.Done()
			<-start
			for r := 0; r < c.Rounds; r++ {
				i := (w + r) % len(c.Tuples)
				cs := c.Tuples[i]
				client := u
				if w%2 == 1 {
					client = u2
				}
				res := api.Invoke(client, cs)
				var f *rp.Fail
				switch {
				case res.Panic != nil:
					f = rp.Failf("uhppote."+cs.Call.Op+"/panic/concurrent", "%s panicked while other goroutines were calling the same client: %v", cs.Call.Op, res.Panic)
				case vs[i].reject && res.Err == nil:
					f = rp.Failf("uhppote."+cs.Call.Op+"/accepts-invalid/concurrent", "%s must be rejected (%s) but returned %v while other goroutines were pushing other tuples through the same client", cs.Call.Op, vs[i].why, res)
				case !vs[i].reject && res.Err != nil:
					f = rp.Failf("uhppote."+cs.Call.Op+"/rejects-valid/concurrent", "%s with valid arguments failed (%v) while other goroutines were pushing other tuples through the same client", cs.Call.Op, res.Err)
				}
				if f != nil {
					mu.Lock()
					if first == nil {
						first = f
					}
					mu.Unlock()
					return
				}
			}
		}(w)
	}
	close(start)
	wg.Wait()
	if first != nil {
		return first
	}
	// what went out: every request on the transport is the encoding of one of the VALID tuples
	valid := map[string]bool{}
	for i, cs := range c.Tuples {
		if !vs[i].reject {
			valid[string(spec.Request(cs.Call))] = true
		}
	}
	for _, s := range append(d.Sends(), d2.Sends()...) {
		if !valid[string(s.Request)] {
			return rp.Failf("uhppote/sent-invalid/concurrent", "a request that is the encoding of none of the valid tuples reached the transport while %d goroutines shared the client: %x", c.Workers, s.Request)
		}
	}
	return nil
}

func genConcurrent(t *rapid.T) raceCase {
	c := raceCase{Rounds: rapid.IntRange(50, 400).Draw(t, "rounds"), Workers: rapid.IntRange(2, 8).Draw(t, "workers")}
	op := rapid.SampledFrom([]string{"SetTimeProfile", "SetTimeProfile", "PutCard", "SetListener", "SetDoorPasscodes", "SetDoorPasscodes", "SetAddress", "AddTask", "SetDoorControlState"}).Draw(t, "op")
	n := rapid.IntRange(2, 5).Draw(t, "tuples")
	for i := 0; i < n; i++ {
		cs := gen.Call(t, op)
		cs.Call.Serial = 405419896
		if i%3 == 1 { // (two of three tuples are valid: what reaches the transport is the encoding of ONE of them, never a blend)
			for k := 0; k < 6; k++ { // an invalid variant of the same operation
				x := cs
				perturb(t, &x)
				if r, _ := mustReject(x); r {
					cs = x
					break
				}
			}
		}
		if _, unusual := api.Extreme(cs.V.ExtremeDate[0]); unusual {
			cs.V.ExtremeDate[0] = ""
		}
		if _, unusual := api.Extreme(cs.V.ExtremeDate[1]); unusual {
			cs.V.ExtremeDate[1] = ""
		}
		c.Tuples = append(c.Tuples, cs)
	}
	return c
}
