package c07

import (
	"fmt"
	"net"
	"sync/atomic"
	"time"

	"pgregory.net/rapid"

	"verif/harness/api"
	"verif/harness/ev"
	"verif/harness/hook"
	"verif/harness/rp"
	"verif/harness/spec"
)

// Addresses that appear in the ARGUMENTS (the new address and gateway of SetAddress, the listener address of SetListener) are
// data for the controller - the library has no business talking to them. The client here has the in-memory transport, and
// the harness listens on TCP and UDP ports 60000, 60001 and the argument's own port of the loopback address that is passed:
// whatever arrives there went past the transport. A rejected call sends nothing at all; a valid call is accepted whether or
// not something answers at the address it names.
type bypassCase struct {
	Op      string  `json:"op"` // SetAddress | SetListener
	Addr    [4]byte `json:"address"`
	Port    uint16  `json:"port,omitempty"`
	BadMask bool    `json:"mask_not_ipv4,omitempty"`
	BadGW   bool    `json:"gateway_not_ipv4,omitempty"`
}

func checkBypass(c bypassCase) *rp.Fail {
	ports := []int{60000, 60001}
	if c.Port != 0 && c.Port != 60000 && c.Port != 60001 {
		ports = append(ports, int(c.Port))
	}
	var inbound atomic.Int64
	var closers []func()
	defer func() {
		for _, f := range closers {
			f()
		}
	}()
	ip := net.IP(c.Addr[:])
	for _, p := range ports {
		l, err := net.ListenTCP("tcp4", &net.TCPAddr{IP: ip, Port: p})
		if err != nil {
			ev.Excluded("a port of the argument's address is taken by somebody else", 1)
			return nil
		}
		closers = append(closers, func() { l.Close() })
		go func() {
			for {
				conn, err := l.Accept()
				if err != nil {
					return
				}
				inbound.Add(1)
				conn.Close()
			}
		}()
		u, err := net.ListenUDP("udp4", &net.UDPAddr{IP: ip, Port: p})
		if err != nil {
			ev.Excluded("a port of the argument's address is taken by somebody else", 1)
			return nil
		}
		closers = append(closers, func() { u.Close() })
		go func() {
			buf := make([]byte, 2048)
			for {
				if _, _, err := u.ReadFromUDP(buf); err != nil {
					return
				}
				inbound.Add(1)
			}
		}()
	}
	cs := api.Case{Call: spec.Call{Op: c.Op, Serial: 405419896, Address: c.Addr, Mask: [4]byte{255, 255, 255, 0}, Gateway: [4]byte{c.Addr[0], c.Addr[1], c.Addr[2], 1}, Listener: c.Addr, Port: c.Port, Interval: 0}}
	if c.Op == "SetAddress" {
		if c.BadMask || c.BadGW {
			cs.V.RawIPs = [][]byte{c.Addr[:], {255, 255, 255, 0}, {c.Addr[0], c.Addr[1], c.Addr[2], 1}}
			if c.BadMask {
				cs.V.RawIPs[1] = []byte{255, 255, 255}
			}
			if c.BadGW {
				cs.V.RawIPs[2] = []byte{}
			}
		}
	}
	reject, why := mustReject(cs)
	ev.Case("argument-addresses/"+c.Op+map[bool]string{true: "/rejected", false: "/valid"}[reject], true, fmt.Sprint(c))
	u, d := hook.Mem(hook.ClientCfg{})
	d.Reset(validReply(cs.Call)...)
	res := api.Invoke(u, cs)
	time.Sleep(30 * time.Millisecond)
	sends := len(d.Sends())
	site := "uhppote." + c.Op
	if res.Panic != nil {
		return rp.Failf(site+"/panic", "%s panicked: %v", c.Op, res.Panic)
	}
	if n := inbound.Load(); n != 0 {
		return rp.Failf(site+"/contacts-the-address-in-its-arguments", "%s(%v, rejected: %v %s): %d connection(s) / datagram(s) arrived at the address that was passed as an ARGUMENT (the client has an in-memory transport: they went past it)", c.Op, c, reject, why, n)
	}
	if reject && (res.Err == nil || sends != 0) {
		return rp.Failf(site+"/accepts-invalid", "%s must be rejected (%s) but returned %v (%d requests sent)", c.Op, why, res, sends)
	}
	if !reject && (res.Err != nil || sends != 1) {
		return rp.Failf(site+"/rejects-valid", "%s with valid arguments (something listens at the address it names) failed: %v (%d requests sent)", c.Op, res.Err, sends)
	}
	return nil
}

func genBypass(t *rapid.T) bypassCase {
	c := bypassCase{Op: rapid.SampledFrom([]string{"SetAddress", "SetAddress", "SetListener"}).Draw(t, "op"),
		Addr: [4]byte{127, byte(rapid.IntRange(16, 250).Draw(t, "b")), byte(rapid.IntRange(0, 250).Draw(t, "c")), byte(rapid.IntRange(2, 250).Draw(t, "d"))}}
	if c.Op == "SetAddress" {
		c.BadMask, c.BadGW = rapid.Bool().Draw(t, "bad.mask"), rapid.Bool().Draw(t, "bad.gateway")
	} else {
		c.Port = uint16(rapid.SampledFrom([]int{0, 60000, 60001, 54321}).Draw(t, "port"))
	}
	return c
}
