package c07

import (
	"os"
	"testing"

	"pgregory.net/rapid"
)

// FuzzArgs (thorough tier): the ordinary generators driven by coverage-guided mutation of their random stream
// (rapid.MakeFuzz) - the fuzzer learns which draws lead into new branches of the argument validation.
func FuzzArgs(f *testing.F) {
	if os.Getenv("VERIF_FUZZ") == "" {
		f.Skip("native fuzzing runs in the thorough tier only")
	}
	f.Fuzz(rapid.MakeFuzz(func(t *rapid.T) {
		c := genCfgCase(t)
		if x, _ := decideWarm(c); x != nil {
			t.Fatalf("[%s] %s", x.Fingerprint, x.Msg)
		}
	}))
}
