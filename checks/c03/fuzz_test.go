package c03

import (
	"os"
	"testing"

	"verif/harness/spec"
)

// FuzzDatagrams (thorough tier): coverage-guided mutation of the datagrams that answer a call (hook layer, all three
// delivery paths). The oracle classifies the bytes itself (classify / reference), so any byte string is a legitimate input.
func FuzzDatagrams(f *testing.F) {
	if os.Getenv("VERIF_FUZZ") == "" {
		f.Skip("native fuzzing runs in the thorough tier only")
	}
	ops := append([]string{}, spec.ReplyOps...)
	for i, op := range ops {
		if op == "GetDevices" {
			continue
		}
		c := spec.Call{Op: op, Serial: 405419896, Card: 8165538, Index: 17, Profile: 29, Door: 1}
		v := validFor(c, make([]byte, 64))
		f.Add(uint8(i), uint8(i%3), v, []byte{})
		other := append([]byte(nil), v...)
		spec.PutLE32(other[4:], 303986753)
		f.Add(uint8(i), uint8(0), other, v)
		f.Add(uint8(i), uint8(1), v[:63], v)
		f.Add(uint8(i), uint8(2), append(append([]byte(nil), v...), 0), v)
	}
	f.Fuzz(func(t *testing.T, opIx, path uint8, d1, d2 []byte) {
		op := ops[int(opIx)%len(ops)]
		if op == "GetDevices" {
			op = "GetDevice"
		}
		c := seqCase{Layer: "hook", Path: int(path) % 3, Call: spec.Call{Op: op, Serial: 405419896, Card: 8165538, Index: 17, Profile: 29, Door: 1}}
		if len(d1) > 2100 || len(d2) > 2100 {
			return
		}
		c.Datagrams = [][]byte{d1}
		if len(d2) > 0 {
			c.Datagrams = append(c.Datagrams, d2)
		}
		if x := runHook(c); x != nil {
			t.Fatalf("[%s] %s", x.Fingerprint, x.Msg)
		}
	})
}
