// C03 - only a well-formed reply from the addressed controller is ever accepted.
package c03

import (
	"fmt"
	"net"
	"testing"
	"time"

	"pgregory.net/rapid"

	"verif/harness/api"
	"verif/harness/ev"
	"verif/harness/farm"
	"verif/harness/gen"
	"verif/harness/hook"
	"verif/harness/rp"
	"verif/harness/spec"
)

func TestMain(m *testing.M) {
	time.Local = time.UTC
	ev.Describe("operation x delivery path (broadcast, connected UDP, TCP) x a sequence of incoming datagrams drawn from the classes {valid, wrong length 0..63 / 65..1024, other serial, serial 0, wrong function code, wrong protocol id, 0x19 protocol id, malformed field, silence}, every datagram with its own random payload so that the datagram a result came from is identifiable. Hook layer (in-memory driver): ALL class sequences up to length 3 for six representative operations on each path, plus rapid-drawn sequences up to length 12 for every operation. Socket layer (real driver against the loopback farm): rapid-drawn sequences played by a farm endpoint (optionally junk from third-party sockets on the broadcast path). Oracle: a reference acceptor per path - broadcast: wrong-length and wrong-serial datagrams are skipped, the first remaining one decides (well-formed -> its protocol decoding, otherwise the call fails), none -> error; directed: the first datagram decides; SetAddress: success, no datagram consumed. Non-trivial = sequence with at least one non-valid datagram; distinct = distinct (operation, path, datagrams).",
		"socket-layer failures are re-run with all timeouts x4 before they count (a failure that disappears is 'timing inconclusive')",
		"TCP: a 'datagram' is one Write of the peer; only the first one is played on TCP because later writes could be coalesced by the stack")
	ev.Main(m, "C03")
}

type seqCase struct {
	Layer     string    `json:"layer"` // hook | socket
	Path      int       `json:"path"`  // 0 broadcast, 1 udp, 2 tcp
	Call      spec.Call `json:"call"`
	Datagrams [][]byte  `json:"datagrams"`
	Via       []bool    `json:"via,omitempty"` // socket layer, broadcast path: datagram sent from a third-party socket
	// Warm: a well-formed reply of the same operation from ANOTHER controller, received by another client just before this
	// call: 'the content of any other datagram never appears in a returned result' includes datagrams of earlier calls
	Warm []byte `json:"warm,omitempty"`
	// socket layer: FixedPort - the client has a fixed bind port; Prev - a call of ANOTHER operation to the same controller is
	// made (and answered properly) on the same client just before, and the class 'previous-reply' in this call's sequence is
	// an exact copy of the reply that call accepted (a duplicate that arrives late: S's serial, another function code);
	// Proto - the protocol string of a directly addressed UDP controller ("udp", "", "any", "UDP" ...: everything but "tcp"
	// means UDP) while the same address also accepts TCP connections and answers them properly
	FixedPort bool   `json:"fixed_port,omitempty"`
	Prev      []byte `json:"previous_reply,omitempty"`
	Proto     string `json:"protocol,omitempty"`
	// WarmVersion (hook layer): the same client has asked the same controller for its device record before, and the reply
	// carried this firmware version (0 = no such call). What a controller said about itself earlier changes nothing about which
	// datagrams are acceptable.
	WarmVersion uint16 `json:"warm_version,omitempty"`
	// NoListener (socket layer, SetAddress over connected UDP): nothing listens at the controller's address - the host answers
	// with ICMP port unreachable. SetAddress 'succeeds once the request is sent'; it is called three times in a row.
	NoListener bool `json:"no_listener,omitempty"`
	// HoldsOpen (socket layer, SetAddress over TCP): the controller - which owes no reply - keeps the connection open for 80 % of
	// the timeout whatever the client does with its end; SetAddress 'succeeds once the request is sent'
	HoldsOpen bool `json:"peer_holds_connection,omitempty"`
	// SamePort (socket layer, with FixedPort): the bind port is the port NUMBER of the controller / broadcast address
	SamePort bool `json:"bind_port_equals_destination_port,omitempty"`
	// BcastSame (directed paths): the client's broadcast address is the controller's own address and port (a point-to-point link,
	// a bench with one responder): the controller has a configured address - the directed path and its rules apply
	BcastSame bool `json:"broadcast_address_equals_controller_address,omitempty"`
	// OtherPort (socket layer, directed UDP): datagram i is sent from ANOTHER port of the controller's IP address (another service
	// on the same host, a look-alike): the call asked address:port - what comes from elsewhere is not an answer and is never seen
	OtherPort []bool `json:"from_another_port_of_the_controllers_address,omitempty"`
}

var classNames = []string{"valid", "short", "long", "other-serial", "serial-0", "wrong-code", "wrong-id", "id-0x19", "malformed", "malformed-strict", "two-faults", "foreign"}

// classify is the oracle's own view of a datagram (independent of how it was generated).
func classify(d []byte, c spec.Call) string {
	l := spec.Responses[c.Op]
	switch {
	case len(d) < 64:
		return "short"
	case len(d) > 64:
		return "long"
	case spec.LE32(d[4:]) == 0:
		return "serial-0"
	case spec.LE32(d[4:]) != c.Serial:
		return "other-serial"
	case d[0] == 0x19 && d[1] == 0x20 && l.Code == 0x20:
		// the v6.62 protocol id is acceptable for the status function only
	case d[0] == 0x19:
		return "id-0x19"
	case d[0] != 0x17:
		return "wrong-id"
	}
	if d[1] != l.Code {
		return "wrong-code"
	}
	if strictlyMalformed(c.Op, d) {
		return "malformed-strict"
	}
	if spec.Decode(c, spec.Config{}, d).MayFail {
		return "malformed"
	}
	return "valid"
}

// strictlyMalformed: a field that cannot be decoded at all - a boolean byte other than 0/1 or a non-decimal nibble in a BCD
// field. Such a datagram 'makes the call fail' (C03). A BCD-clean but calendar-impossible date or time, which C02 allows to
// come back as the zero value, is the weaker class 'malformed' (fail or zero); so are the optional (pointer) HH:mm
// segments of a time profile, which the library documents as nil-tolerant.
func strictlyMalformed(op string, d []byte) bool {
	for _, f := range spec.Responses[op].Fields {
		p := d[f.Off : f.Off+f.Kind.Width()]
		switch f.Kind {
		case spec.Bool:
			if p[0] > 1 {
				return true
			}
		case spec.Date, spec.DateTime, spec.SysDate, spec.SysTime, spec.HHmm:
			if f.Kind == spec.HHmm && op == "GetTimeProfile" {
				continue
			}
			for _, x := range p {
				if x>>4 > 9 || x&0x0f > 9 {
					return true
				}
			}
		}
	}
	return false
}

type verdict struct {
	kind    string // value | fail | timeout | set-address
	decider int    // index of the deciding datagram
	want    spec.Outcome
}

func reference(c seqCase) verdict {
	if c.Call.Op == "SetAddress" {
		return verdict{kind: "set-address", decider: -1}
	}
	for i, d := range c.Datagrams {
		if c.Layer == "socket" && c.Path != 0 && i < len(c.Via) && c.Via[i] {
			continue
		}
		if c.Layer == "socket" && c.Path == 2 && len(d) == 0 {
			continue // an empty write puts nothing on a TCP stream: there is no such 'datagram'
		}
		cl := classify(d, c.Call)
		if c.Path == 0 && (cl == "short" || cl == "long" || cl == "other-serial" || cl == "serial-0") {
			continue // ignored on the broadcast path: keep waiting
		}
		switch cl {
		case "valid", "malformed":
			want := spec.Decode(c.Call, spec.Config{}, d)
			want.Skip["endpoint"] = true // completed from the client configuration (ephemeral farm ports here); C02 / C11 judge it
			return verdict{kind: "value", decider: i, want: want}
		default:
			return verdict{kind: "fail", decider: i}
		}
	}
	return verdict{kind: "timeout", decider: -1}
}

const ctrlPort = 60000

func cfgFor(c seqCase, ep [4]byte, port uint16, timeoutMs int) hook.ClientCfg {
	cfg := hook.ClientCfg{TimeoutMs: timeoutMs, BindIP: [4]byte{127, 0, 0, 1}}
	if c.FixedPort && c.Layer == "socket" {
		if p, err := farm.FreePort(cfg.BindIP); err == nil {
			cfg.BindPort = p
		}
		if c.SamePort {
			// the site uses ONE port number for everything: the client binds the number its controllers listen on (another address)
			if l, err := net.ListenUDP("udp4", &net.UDPAddr{IP: net.IP(cfg.BindIP[:]), Port: int(port)}); err == nil {
				l.Close()
				cfg.BindPort = port
				ev.Class("socket/bind-port-equals-the-controllers-port", 1)
			}
		}
	}
	proto := "udp"
	if c.Proto != "" && c.Proto != "tcp" {
		proto = c.Proto
		if proto == "(empty)" {
			proto = ""
		}
	}
	switch c.Path {
	case 0:
		cfg.HasBroadcast, cfg.BroadcastIP, cfg.BroadcastPort = true, ep, port
	case 1:
		cfg.Devices = []hook.DeviceCfg{{Serial: c.Call.Serial, HasAddr: true, IP: ep, Port: port, Protocol: proto}}
	case 2:
		cfg.Devices = []hook.DeviceCfg{{Serial: c.Call.Serial, HasAddr: true, IP: ep, Port: port, Protocol: "tcp"}}
	}
	if c.BcastSame && c.Path != 0 {
		cfg.HasBroadcast, cfg.BroadcastIP, cfg.BroadcastPort = true, ep, port
		ev.Class(c.Layer+"/broadcast-address-equals-controller-address", 1)
	}
	return cfg
}

func judge(c seqCase, v verdict, res api.Result, consumed int) *rp.Fail {
	site := fmt.Sprintf("%s/%s/%s", c.Layer, []string{"broadcast", "udp", "tcp"}[c.Path], c.Call.Op)
	classes := make([]string, len(c.Datagrams))
	for i, d := range c.Datagrams {
		classes[i] = classify(d, c.Call)
	}
	if res.Panic != nil {
		return rp.Failf(site+"/panic", "%s panicked: %v", c.Call.Op, res.Panic)
	}
	switch v.kind {
	case "set-address":
		if res.Err != nil {
			return rp.Failf(site+"/set-address-failed", "SetAddress failed although the request was sent: %v", res.Err)
		}
		if consumed > 0 {
			return rp.Failf(site+"/set-address-consumed-datagram", "SetAddress consumed %d datagram(s); controllers do not reply to it", consumed)
		}
	case "timeout":
		if res.Err == nil {
			return rp.Failf(site+"/accepted-without-acceptable-datagram", "%s succeeded (%v) although no acceptable datagram arrived; incoming classes %v", c.Call.Op, res, classes)
		}
	case "fail":
		if res.Err == nil {
			return rp.Failf(site+"/accepted-bad-datagram", "%s succeeded (%v) although datagram %d (class %s) must make it fail; incoming classes %v", c.Call.Op, res, v.decider, classes[v.decider], classes)
		}
	case "value":
		if msg := api.Compare(res, v.want); msg != "" {
			return rp.Failf(site+"/wrong-result", "%s with incoming classes %v: datagram %d decides: %s", c.Call.Op, classes, v.decider, msg)
		}
	}
	return nil
}

// validFor: a well-formed all-zero-payload reply to the request (echo fields filled in)
func validFor(c spec.Call, req []byte) []byte {
	l, ok := spec.Responses[c.Op]
	if !ok || len(req) != 64 {
		return nil
	}
	b := make([]byte, 64)
	spec.Header(b, 0x17, l.Code, c.Serial)
	switch c.Op {
	case "GetCardByID":
		spec.PutLE32(b[8:], c.Card)
	case "GetTimeProfile":
		b[8] = c.Profile
	}
	return b
}

func accepted(c spec.Call) spec.Call {
	switch c.Op {
	case "SetTimeProfile":
		c.From, c.To = spec.Civil{Y: 2024, M: 1, D: 1}, spec.Civil{Y: 2024, M: 12, D: 31}
	case "PutCard":
		c.Card = 8165538
	case "SetDoorPasscodes":
		c.Door = 1
	case "SetAddress":
		c.Address, c.Mask, c.Gateway = [4]byte{192, 168, 1, 100}, [4]byte{255, 255, 255, 0}, [4]byte{192, 168, 1, 1}
	}
	return c
}

func runHook(c seqCase) *rp.Fail {
	if len(c.Warm) == 64 {
		other := c
		other.Call.Serial = spec.LE32(c.Warm[4:])
		u0, d0 := hook.Mem(cfgFor(other, [4]byte{127, 0, 0, 9}, ctrlPort, 0))
		for i := 0; i < 2; i++ {
			d0.Reset(c.Warm)
			api.Invoke(u0, api.Case{Call: accepted(other.Call), V: api.Variant{WeekPresent: [7]bool{true, true, true, true, true, true, true}}})
		}
		ev.Class("hook/after-a-reply-from-another-controller", 1)
	}
	u, d := hook.Mem(cfgFor(c, [4]byte{127, 0, 0, 2}, ctrlPort, 0))
	if c.WarmVersion != 0 {
		dev := make([]byte, 64)
		spec.Header(dev, 0x17, 0x94, c.Call.Serial)
		copy(dev[8:], []byte{192, 168, 1, 100, 255, 255, 255, 0, 192, 168, 1, 1, 0, 0x66, 0x19, 0x39, 0x55, 0x2d, byte(c.WarmVersion >> 8), byte(c.WarmVersion), 0x20, 0x18, 0x08, 0x16})
		for i := 0; i < 2; i++ {
			d.Reset(dev)
			api.Invoke(u, api.Case{Call: spec.Call{Op: "GetDevice", Serial: c.Call.Serial}})
		}
		ev.Class("hook/after-a-device-record-with-firmware-version", 1)
	}
	d.Reset(c.Datagrams...)
	res := api.Invoke(u, api.Case{Call: accepted(c.Call), V: api.Variant{WeekPresent: [7]bool{true, true, true, true, true, true, true}}})
	return judge(c, reference(c), res, d.Consumed)
}

func runSocket(c seqCase, scale int) *rp.Fail {
	v := reference(c)
	if c.Path == 1 && len(c.OtherPort) > 0 {
		seen := c
		seen.Datagrams = nil
		for i, d := range c.Datagrams {
			if !(i < len(c.OtherPort) && c.OtherPort[i]) {
				seen.Datagrams = append(seen.Datagrams, d)
			}
		}
		v = reference(seen)
		ev.Class("socket/udp/datagrams-from-another-port-of-the-controllers-address", 1)
	}
	timeout := 1500 * scale
	if v.kind == "timeout" {
		timeout = 70 * scale
	}
	f := farm.New()
	defer f.Close()
	third, err := f.UDP([4]byte{127, 0, 0, 3}, 0, nil)
	if err != nil {
		ev.HarnessError("farm: %v", err)
		return nil
	}
	var sameIP *farm.UDP
	if c.Path == 1 && len(c.OtherPort) > 0 {
		sameIP, _ = f.UDP([4]byte{127, 0, 0, 2}, 0, nil)
	}
	actions := func(r farm.Received) []farm.Action {
		var a []farm.Action
		for i, d := range c.Datagrams {
			act := farm.Action{Data: d}
			if i > 0 {
				act.Delay = 300 * time.Microsecond
			}
			if c.Path == 0 && i < len(c.Via) && c.Via[i] {
				act.Via = third
			}
			if c.Path == 1 && i < len(c.OtherPort) && c.OtherPort[i] && sameIP != nil {
				act.Via = sameIP
			}
			a = append(a, act)
		}
		return a
	}
	var ip = [4]byte{127, 0, 0, 2}
	var port uint16
	var udp *farm.UDP
	var tcp *farm.TCP
	if c.Path == 2 {
		tcp, err = f.TCP(ip, 0, farm.ScriptTCP(func(r farm.Received) []farm.Action {
			// a 'datagram' on TCP is one write of the peer: the first one decides; the later ones follow after a pause
			// each, so that they cannot be coalesced with it (the pause grows with the re-run scale)
			a := actions(r)
			for i := 1; i < len(a); i++ {
				a[i].Delay = time.Duration(40*scale) * time.Millisecond
			}
			if len(a) > 3 {
				a = a[:3]
			}
			if c.HoldsOpen {
				a = append(a, farm.Action{Hold: time.Duration(timeout) * time.Millisecond * 8 / 10})
			}
			return a
		}))
		if err == nil {
			port = tcp.Addr.Port()
		}
	} else {
		udp, err = f.UDP(ip, 0, farm.Script(actions))
		if err == nil {
			port = udp.Addr.Port()
			if c.Path == 1 {
				// the controller also accepts TCP on the same port number and would answer there properly: a call that is
				// configured for UDP has no business asking
				f.TCP(ip, port, farm.ScriptTCP(func(r farm.Received) []farm.Action {
					return []farm.Action{{Data: validFor(c.Call, r.Data)}}
				}))
			}
		}
	}
	if err != nil {
		ev.HarnessError("farm: %v", err)
		return nil
	}
	if c.NoListener && c.Path == 1 && c.Call.Op == "SetAddress" && udp != nil {
		udp.Close()
		ev.Class("socket/set-address-to-a-port-without-listener", 1)
		u := hook.Real(cfgFor(c, ip, port, timeout))
		for i := 0; i < 3; i++ {
			res := api.Invoke(u, api.Case{Call: accepted(c.Call)})
			if fail := judge(c, v, res, 0); fail != nil {
				fail.Msg += fmt.Sprintf(" (call %d of 3; nothing listens at the controller's address: the host answers with ICMP port unreachable)", i+1)
				return fail
			}
			time.Sleep(2 * time.Millisecond)
		}
		return nil
	}
	if c.HoldsOpen {
		ev.Class("socket/set-address-to-a-tcp-peer-that-holds-the-connection", 1)
	}
	u := hook.Real(cfgFor(c, ip, port, timeout))
	if len(c.Prev) == 64 && c.Path != 2 {
		prevOp := "GetTime"
		if c.Call.Op == "GetTime" {
			prevOp = "GetEventIndex"
		}
		prev := append([]byte(nil), c.Prev...)
		prev[1] = spec.Responses[prevOp].Code
		if udp != nil {
			udp.SetHandler(farm.Script(func(r farm.Received) []farm.Action { return []farm.Action{{Data: prev}} }))
			api.Invoke(u, api.Case{Call: spec.Call{Op: prevOp, Serial: c.Call.Serial}})
			udp.SetHandler(farm.Script(actions))
			udp.ClearLog()
		}
		// the copy in this call's sequence is byte-identical to what that call accepted
		for i, d := range c.Datagrams {
			if len(d) == 64 && string(d) == string(c.Prev) {
				c.Datagrams[i] = prev
			}
		}
		c.Prev = prev
	}
	started := time.Now()
	res := api.Invoke(u, api.Case{Call: accepted(c.Call), V: api.Variant{WeekPresent: [7]bool{true, true, true, true, true, true, true}}})
	elapsed := time.Since(started)
	if c.Path == 2 && len(c.Datagrams) > 3 {
		c.Datagrams = c.Datagrams[:3] // what was played
		v = reference(c)
	}
	if fail := judge(c, v, res, 0); fail != nil {
		return fail
	}
	// a result must not change when the client goes on talking to the network: issue one more (directed or broadcast) call
	// whose reply has other content, then re-read the first result
	if before := api.Recanon(res.Value); before != nil && res.Err == nil && (udp != nil || tcp != nil) {
		snapshot := before.String()
		second := spec.Call{Op: "GetDevice", Serial: c.Call.Serial}
		next := make([]byte, 64)
		spec.Header(next, 0x17, 0x94, c.Call.Serial)
		for i := 8; i < 32; i++ {
			next[i] = 0x99
		}
		if udp != nil {
			udp.SetHandler(farm.Script(func(r farm.Received) []farm.Action { return []farm.Action{{Data: next}} }))
		} else {
			tcp.SetHandler(farm.ScriptTCP(func(r farm.Received) []farm.Action { return []farm.Action{{Data: next}} }))
		}
		api.Invoke(u, api.Case{Call: second})
		if now := api.Recanon(res.Value).String(); now != snapshot {
			return rp.Failf(fmt.Sprintf("socket/%s/%s/result-changed-by-later-datagram", []string{"broadcast", "udp", "tcp"}[c.Path], c.Call.Op),
				"the result of %s changed after a later call on the same client received another datagram:\n  at return: %s\n  now:       %s", c.Call.Op, snapshot, now)
		}
	}
	if v.kind == "set-address" && elapsed > time.Duration(timeout)*time.Millisecond/2 {
		return rp.Failf(fmt.Sprintf("socket/%d/SetAddress/waited-for-reply", c.Path), "SetAddress took %v with a timeout of %dms: it must return once the request is sent", elapsed, timeout)
	}
	return nil
}

func check(c seqCase) *rp.Fail {
	nt := false
	key := fmt.Sprint(c.Layer, c.Path, c.Call.Op)
	for _, d := range c.Datagrams {
		if classify(d, c.Call) != "valid" {
			nt = true
		}
		key += string(d) + "|"
	}
	v := reference(c)
	class := fmt.Sprintf("%s/%s/%s", c.Layer, []string{"broadcast", "udp", "tcp"}[c.Path], v.kind)
	ev.Case(class, nt || len(c.Datagrams) == 0, key)
	if v.decider >= 0 {
		ev.Class(fmt.Sprintf("decider-position/%d", min(v.decider, 5)), 1)
	}
	if ev.WantSample(class) {
		cl := []string{}
		for _, d := range c.Datagrams {
			cl = append(cl, classify(d, c.Call))
		}
		ev.Sample(class, map[string]any{"op": c.Call.Op, "classes": cl, "expected": v.kind, "decider": v.decider})
	}
	if c.Layer == "hook" {
		return runHook(c)
	}
	f := runSocket(c, 1)
	if f != nil {
		// rule 3: a failure that a slow machine could explain must persist with every timeout x4
		if f2 := runSocket(c, 4); f2 == nil {
			ev.Inconclusive(1)
			return nil
		}
	}
	return f
}

// datagram construction ---------------------------------------------------------------------------------

func mkDatagram(t *rapid.T, class string, c spec.Call) []byte {
	l := spec.Responses[c.Op]
	som := byte(0x17)
	if l.Code == 0x20 && rapid.IntRange(0, 3).Draw(t, "som19") == 0 {
		som = 0x19
	}
	d := gen.Payload(t, l, som, c.Serial, 0, rapid.Bool().Draw(t, "noise"))
	// echo fields so that a valid datagram decodes to a value
	switch c.Op {
	case "GetCardByID":
		spec.PutLE32(d[8:], c.Card)
	case "GetTimeProfile":
		d[8] = c.Profile
	}
	switch class {
	case "short":
		d = d[:rapid.IntRange(0, 63).Draw(t, "len")]
	case "long":
		n := rapid.SampledFrom([]int{65, 66, 128, 1023, 1024, 1025, 2047, 2048, 2049, 2049, 3000, 3000, 8192, 9000, 65000}).Draw(t, "len")
		switch rapid.IntRange(0, 5).Draw(t, "long.kind") {
		case 0:
			// whole well-formed messages back to back (what coalesced TCP writes, or a controller that answers twice in one
			// datagram, look like): the reply 2..16 times, or the reply followed by a status message of the same controller
			k := rapid.SampledFrom([]int{2, 2, 3, 16}).Draw(t, "long.frames")
			one := append([]byte(nil), d...)
			for i := 1; i < k; i++ {
				next := append([]byte(nil), one...)
				if rapid.Bool().Draw(t, "long.status") {
					next = make([]byte, 64)
					spec.Header(next, rapid.SampledFrom([]byte{0x17, 0x19}).Draw(t, "long.status.som"), 0x20, c.Serial)
				}
				d = append(d, next...)
			}
		case 1:
			// the reply followed by a partial copy of itself
			d = append(d, d[:rapid.IntRange(1, 63).Draw(t, "long.partial")]...)
		default:
			d = append(d, make([]byte, n-64)...)
		}
	case "other-serial":
		s := c.Serial ^ (1 << rapid.IntRange(0, 31).Draw(t, "bit"))
		if s == 0 {
			s = c.Serial + 1
		}
		spec.PutLE32(d[4:], s)
	case "serial-0":
		spec.PutLE32(d[4:], 0)
	case "wrong-code":
		d[1] = byte(rapid.IntRange(0, 255).Draw(t, "code"))
		if d[1] == l.Code {
			d[1] ^= 0x02
		}
	case "wrong-id":
		d[0] = rapid.SampledFrom([]byte{0x00, 0x16, 0x18, 0x71, 0xff}).Draw(t, "id")
	case "id-0x19":
		d[0] = 0x19
		if l.Code == 0x20 {
			d[1] = 0x21 // for the status function 0x19 is legitimate: make it a 0x19 datagram of another function
		}
	case "foreign":
		// not S's and not even the protocol: 64 bytes with another serial number AND a foreign first byte / function code, or 64
		// bytes of text (what other applications broadcast on the network) - ignorable on the broadcast path like any other
		// datagram that is not S's
		switch rapid.IntRange(0, 2).Draw(t, "foreign.kind") {
		case 0:
			s := c.Serial ^ (1 << rapid.IntRange(0, 31).Draw(t, "bit"))
			if s == 0 {
				s = c.Serial + 1
			}
			spec.PutLE32(d[4:], s)
			d[0] = rapid.SampledFrom([]byte{0x18, 0x16, 0x00, 0xff, 0x4e}).Draw(t, "foreign.id")
		case 1:
			copy(d, []byte("NOTIFY * HTTP/1.1\r\nHOST: 239.255.255.250:1900\r\nCACHE-CONTROL: max-age"))
			if spec.LE32(d[4:]) == c.Serial {
				d[4] ^= 0x01
			}
		default:
			s := c.Serial ^ (1 << rapid.IntRange(0, 31).Draw(t, "bit"))
			if s == 0 {
				s = c.Serial + 1
			}
			spec.PutLE32(d[4:], s)
			d[1] = byte(rapid.IntRange(0, 255).Draw(t, "foreign.code"))
			d[0] = rapid.SampledFrom([]byte{0x19, 0x17, 0x18}).Draw(t, "foreign.id2")
		}
	case "two-faults":
		// two deviations in the header at once - in particular S's serial number under a foreign but well-known header: a
		// status / event message (0x19 or 0x17 with function 0x20), a discovery reply (0x94), another operation's reply
		d[1] = rapid.SampledFrom([]byte{0x20, 0x20, 0x94, 0x92, 0x5a, 0xb0, 0x00, 0xff}).Draw(t, "other.code")
		if d[1] == l.Code {
			d[1] ^= 0x02
		}
		d[0] = rapid.SampledFrom([]byte{0x19, 0x19, 0x17, 0x18, 0x00}).Draw(t, "other.id")
		if rapid.Bool().Draw(t, "other.body") {
			// with the body of a real message of that kind
			body := gen.Payload(t, spec.EventLayout, d[0], c.Serial, 0, false)
			copy(d[8:], body[8:])
		}
	case "malformed":
		d = gen.Payload(t, l, som, c.Serial, 1, false)
	case "malformed-strict":
		// a non-decimal nibble / bad boolean in one field that has such a thing; operations without one get a wrong function code instead
		var cands []spec.Field
		for _, f := range l.Fields {
			switch f.Kind {
			case spec.Bool, spec.Date, spec.DateTime, spec.SysDate, spec.SysTime:
				cands = append(cands, f)
			case spec.HHmm:
				if c.Op != "GetTimeProfile" {
					cands = append(cands, f)
				}
			}
		}
		if len(cands) == 0 {
			d[1] ^= 0x02
			return d
		}
		f := cands[rapid.IntRange(0, len(cands)-1).Draw(t, "strict.field")]
		if f.Kind == spec.Bool {
			d[f.Off] = byte(rapid.IntRange(2, 255).Draw(t, "strict.bool"))
		} else {
			nib := rapid.IntRange(0, 2*f.Kind.Width()-1).Draw(t, "strict.nibble")
			v := byte(rapid.IntRange(10, 15).Draw(t, "strict.value"))
			if nib%2 == 0 {
				d[f.Off+nib/2] = d[f.Off+nib/2]&0x0f | v<<4
			} else {
				d[f.Off+nib/2] = d[f.Off+nib/2]&0xf0 | v
			}
		}
	}
	return d
}

func genCall(t *rapid.T, withSetAddress bool) spec.Call {
	ops := append([]string{}, spec.ReplyOps...)
	if withSetAddress {
		ops = append(ops, "SetAddress")
	}
	op := rapid.SampledFrom(ops).Draw(t, "op")
	if op == "GetDevices" {
		op = "GetDevice"
	}
	return spec.Call{Op: op, Serial: gen.Serial(t), Card: uint32(rapid.IntRange(1, 99999999).Draw(t, "card")), Index: gen.U32(t, "index"), Profile: uint8(rapid.IntRange(2, 254).Draw(t, "profile")), Door: 1}
}

func genSeq(layer string, maxLen int) func(t *rapid.T) seqCase {
	return func(t *rapid.T) seqCase {
		c := seqCase{Layer: layer, Path: rapid.IntRange(0, 2).Draw(t, "path"), Call: genCall(t, true)}
		c.BcastSame = c.Path != 0 && rapid.IntRange(0, 3).Draw(t, "bcast.same") == 0
		n := rapid.IntRange(0, maxLen).Draw(t, "n")
		if c.Call.Op == "SetAddress" {
			// controllers do not answer; whatever arrives must stay unread
			for i := 0; i < n; i++ {
				d := make([]byte, 64)
				spec.Header(d, 0x17, 0x96, c.Call.Serial)
				c.Datagrams = append(c.Datagrams, d)
			}
			if layer == "socket" && c.Path == 1 {
				c.NoListener = rapid.IntRange(0, 2).Draw(t, "no.listener") == 0
			}
			if layer == "socket" && c.Path == 2 {
				c.HoldsOpen = rapid.Bool().Draw(t, "holds.open")
			}
			return c
		}
		for i := 0; i < n; i++ {
			cl := rapid.SampledFrom(classNames).Draw(t, "class")
			if rapid.IntRange(0, 3).Draw(t, "valid.bias") == 0 {
				cl = "valid"
			}
			c.Datagrams = append(c.Datagrams, mkDatagram(t, cl, c.Call))
			if cl == "short" && c.Path == 2 && rapid.Bool().Draw(t, "tcp.split") {
				// a valid reply split over two writes: the first (short) write must still make the call fail
				whole := mkDatagram(t, "valid", c.Call)
				cut := rapid.IntRange(1, 63).Draw(t, "tcp.cut")
				c.Datagrams[len(c.Datagrams)-1] = whole[:cut]
				c.Datagrams = append(c.Datagrams, whole[cut:])
				c.Via = append(c.Via, false)
				i++
			}
			via := false
			if layer == "socket" && c.Path == 0 {
				// on the broadcast path a datagram counts for what it carries, whichever socket it comes from
				via = rapid.IntRange(0, 2).Draw(t, "via") == 0
			}
			c.Via = append(c.Via, via)
		}
		if layer == "socket" && c.Path == 1 && c.Call.Op != "SetAddress" && len(c.Datagrams) > 0 && rapid.IntRange(0, 2).Draw(t, "other.port") == 0 {
			for range c.Datagrams {
				c.OtherPort = append(c.OtherPort, rapid.IntRange(0, 2).Draw(t, "other.port.this") != 0)
			}
		}
		if layer == "socket" && c.Call.Op != "SetAddress" {
			c.FixedPort = rapid.IntRange(0, 2).Draw(t, "fixed.port") == 0
			c.SamePort = c.FixedPort && rapid.Bool().Draw(t, "same.port")
			if c.Path == 1 {
				c.Proto = rapid.SampledFrom([]string{"udp", "udp", "any", "(empty)", "UDP", "auto"}).Draw(t, "proto")
			}
			if c.Path != 2 && len(c.Datagrams) > 0 && rapid.IntRange(0, 3).Draw(t, "previous") == 0 {
				// one datagram of the sequence becomes an exact copy of the reply a previous call (another operation) accepted
				prev := make([]byte, 64)
				spec.Header(prev, 0x17, 0x32, c.Call.Serial)
				for i := 8; i < 15; i++ {
					prev[i] = byte(0x10 + i)
				}
				prev[8] = 0x20
				c.Prev = prev
				c.Datagrams[rapid.IntRange(0, len(c.Datagrams)-1).Draw(t, "previous.at")] = prev
			}
		}
		if layer == "hook" && rapid.IntRange(0, 2).Draw(t, "warm.version") == 0 {
			c.WarmVersion = rapid.SampledFrom([]uint16{0x0892, 0x0662, 0x0662, 0x0663, 0x0656, 0x6620, 0x0100, 0xffff}).Draw(t, "version")
			if rapid.IntRange(0, 3).Draw(t, "version.dict") == 0 {
				if v := uint16(gen.DictInt(t, "version.dict.value", 0xffff)); v != 0 {
					c.WarmVersion = v
				}
			}
			// and a datagram that only differs in its protocol id from an acceptable one
			if n := len(c.Datagrams); n > 0 && rapid.Bool().Draw(t, "version.id19") {
				c.Datagrams[rapid.IntRange(0, n-1).Draw(t, "version.id19.at")] = mkDatagram(t, "id-0x19", c.Call)
			}
		}
		if layer == "hook" && rapid.Bool().Draw(t, "warm") {
			other := c.Call
			other.Serial ^= 0x00100000
			if other.Serial == 0 {
				other.Serial = 77
			}
			c.Warm = mkDatagram(t, "valid", other)
			if classify(c.Warm, other) != "valid" {
				c.Warm = nil
			}
		}
		return c
	}
}

// all class sequences up to length 3 (hook layer), for six representative operations on each path
func TestExhaustiveSequences(t *testing.T) {
	if ev.Replaying() {
		t.Skip()
	}
	ev.Rapid("exhaustive", 1)
	ops := []string{"GetStatus", "GetCardByID", "GetTime", "GetDevice", "PutCard", "GetTimeProfile"}
	var seqs [][]string
	var rec func(prefix []string)
	rec = func(prefix []string) {
		seqs = append(seqs, append([]string(nil), prefix...))
		if len(prefix) == 3 {
			return
		}
		for _, cl := range classNames {
			rec(append(prefix, cl))
		}
	}
	rec(nil)
	idx := 0
	stop := false
	// payload bytes come from rapid so that they vary with the seed; the class structure is enumerated
	rapid.Check(t, func(rt *rapid.T) {
		for _, op := range ops {
			for path := 0; path < 3 && !stop; path++ {
				for _, s := range seqs {
					idx++
					if !ev.Mine(idx) {
						continue
					}
					c := seqCase{Layer: "hook", Path: path, Call: spec.Call{Op: op, Serial: 405419896, Card: 8165537, Profile: 29, Index: 17, Door: 1}}
					for _, cl := range s {
						c.Datagrams = append(c.Datagrams, mkDatagram(rt, cl, c.Call))
					}
					if f := check(c); f != nil {
						if ev.Failure("hook-seq", f.Fingerprint, f.Msg, c) {
							stop = true
							rt.Fatalf("[%s] %s", f.Fingerprint, f.Msg)
						}
					}
				}
			}
		}
	})
	ev.Note("exhaustive_class_sequences_up_to_length_3", len(seqs))
}

// oversize datagrams in front of a valid reply, on both UDP paths, for every length class around the sizes of the usual receive
// buffers (1024, 2048, 4096, 8192, the largest UDP payload): ignored on the broadcast path, fatal on the directed one
func sweepOversize(yield func(seqCase) bool) {
	i := 0
	// SetAddress over TCP to a controller that keeps the connection open, with 0..2 datagrams sent on it first (every shard)
	for n := 0; n <= 2; n++ {
		for _, fixed := range []bool{false, true} {
			c := seqCase{Layer: "socket", Path: 2, Call: spec.Call{Op: "SetAddress", Serial: 405419896}, HoldsOpen: true, FixedPort: fixed}
			for k := 0; k < n; k++ {
				d := make([]byte, 64)
				spec.Header(d, 0x17, 0x96, c.Call.Serial)
				c.Datagrams = append(c.Datagrams, d)
			}
			if (ev.Thorough() || (n == 1) != fixed) && !yield(c) {
				return
			}
		}
	}
	for _, path := range []int{1, 0} {
		for _, n := range []int{65, 1024, 1025, 2048, 2049, 3000, 4096, 4097, 8192, 8193, 9000, 65000} {
			for _, op := range []string{"GetTime", "GetStatus", "GetCardByID"} {
				for _, twice := range []bool{false, true} {
					i++
					if !ev.Mine(i) || (!ev.Thorough() && i%3 != 0) {
						continue
					}
					call := spec.Call{Op: op, Serial: 405419896, Card: 8165538, Door: 1}
					valid := validFor(call, make([]byte, 64))
					long := append(append([]byte(nil), valid...), make([]byte, n-64)...)
					c := seqCase{Layer: "socket", Path: path, Call: call, Datagrams: [][]byte{long, valid}, Via: []bool{false, false}}
					if twice {
						c.Datagrams, c.Via = [][]byte{long, long, valid}, []bool{false, false, false}
					}
					if !yield(c) {
						return
					}
				}
			}
		}
	}
}

func props() []rp.Prop {
	return []rp.Prop{
		rp.P[seqCase]{Name: "hook-seq", Checks: ev.Pick(40000, 4000000) / ev.Shards(), Gen: genSeq("hook", 12), Check: check},
		rp.P[seqCase]{Name: "socket-seq", Checks: ev.Pick(1600, 96000) / ev.Shards(), Gen: genSeq("socket", 6), Sweep: sweepOversize, Check: check},
		rp.P[stormCase]{Name: "broadcast-storm", Sweep: sweepStorm, Check: checkStorm},
		rp.P[deadlineCase]{Name: "broadcast-deadline", Checks: ev.Pick(120, 8000) / ev.Shards(), Gen: genDeadline, Check: checkDeadline},
	}
}

func TestC03(t *testing.T)    { rp.RunAll(t, props()...) }
func TestReplay(t *testing.T) { rp.ReplayAll(t, props()...) }
