package c03

import (
	"fmt"
	"time"

	"pgregory.net/rapid"

	"verif/harness/api"
	"verif/harness/ev"
	"verif/harness/farm"
	"verif/harness/gen"
	"verif/harness/hook"
	"verif/harness/rp"
	"verif/harness/spec"
)

// "On the broadcast path ... datagrams of the wrong length or with another serial number are ignored and the call keeps
// waiting for S until its deadline": ignorable datagrams arrive SPREAD OVER TIME (every GapPct % of the timeout). They
// neither end the wait early nor extend it: S's genuine reply is accepted when it is sent by 70 % of the timeout and is too
// late when it is sent at 130 % or later (the call has then failed at its deadline, whatever arrived in between).
type deadlineCase struct {
	Call     spec.Call `json:"call"`
	Strays   [][]byte  `json:"strays"`
	GapPct   int       `json:"gap_pct"`
	Valid    []byte    `json:"valid"`
	ValidPct int       `json:"valid_pct"` // when S's reply is sent, in % of the timeout after the request was seen
}

func runDeadline(c deadlineCase, scale int) *rp.Fail {
	T := time.Duration(160*scale) * time.Millisecond
	f := farm.New()
	defer f.Close()
	ip := [4]byte{127, 0, 0, 2}
	udp, err := f.UDP(ip, 0, farm.Script(func(r farm.Received) []farm.Action {
		// merge the two time lines
		type ev struct {
			at   int
			data []byte
		}
		var evs []ev
		for i, s := range c.Strays {
			evs = append(evs, ev{(i + 1) * c.GapPct, s})
		}
		var a []farm.Action
		prev := 0
		placed := false
		for _, e := range evs {
			if !placed && c.ValidPct <= e.at {
				a = append(a, farm.Action{Delay: T * time.Duration(c.ValidPct-prev) / 100, Data: c.Valid})
				prev, placed = c.ValidPct, true
			}
			a = append(a, farm.Action{Delay: T * time.Duration(e.at-prev) / 100, Data: e.data})
			prev = e.at
		}
		if !placed {
			a = append(a, farm.Action{Delay: T * time.Duration(c.ValidPct-prev) / 100, Data: c.Valid})
		}
		return a
	}))
	if err != nil {
		ev.HarnessError("farm: %v", err)
		return nil
	}
	sc := seqCase{Layer: "socket", Path: 0, Call: c.Call}
	u := hook.Real(cfgFor(sc, ip, udp.Addr.Port(), int(T/time.Millisecond)))
	started := time.Now()
	res := api.Invoke(u, api.Case{Call: accepted(c.Call), V: api.Variant{WeekPresent: [7]bool{true, true, true, true, true, true, true}}})
	elapsed := time.Since(started)
	site := "socket/broadcast/" + c.Call.Op
	if res.Panic != nil {
		return rp.Failf(site+"/panic", "%s panicked: %v", c.Call.Op, res.Panic)
	}
	if c.ValidPct <= 70 {
		want := spec.Decode(c.Call, spec.Config{}, c.Valid)
		want.Skip["endpoint"] = true
		if msg := api.Compare(res, want); msg != "" {
			return rp.Failf(site+"/gave-up-on-ignorable-datagrams", "%s: %d ignorable datagrams arrived every %d%% of the timeout and S's reply was sent at %d%%, yet: %s (after %v, timeout %v)", c.Call.Op, len(c.Strays), c.GapPct, c.ValidPct, msg, elapsed, T)
		}
		return nil
	}
	if res.Err == nil {
		return rp.Failf(site+"/accepted-after-deadline", "%s succeeded after %v (timeout %v): S's reply was sent at %d%% of the timeout, after the deadline - ignorable datagrams (every %d%% of the timeout) must not extend the wait", c.Call.Op, elapsed, T, c.ValidPct, c.GapPct)
	}
	if elapsed > T*125/100+100*time.Millisecond {
		return rp.Failf(site+"/deadline-extended", "%s failed only after %v (timeout %v): ignorable datagrams every %d%% of the timeout must not extend the wait", c.Call.Op, elapsed, T, c.GapPct)
	}
	return nil
}

func checkDeadline(c deadlineCase) *rp.Fail {
	class := "socket/broadcast/spread-strays/reply-in-time"
	if c.ValidPct > 70 {
		class = "socket/broadcast/spread-strays/reply-after-deadline"
	}
	ev.Case(class, true, fmt.Sprintf("%+v", c))
	f := runDeadline(c, 1)
	if f != nil {
		// (three re-runs, the last with a margin of seconds: at load averages above 100 a reply that is due 0.8 s before the
		// deadline has been seen to arrive after it)
		for _, scale := range []int{4, 12, 40} {
			f2 := runDeadline(c, scale)
			if f2 == nil {
				ev.Inconclusive(1)
				return nil
			}
			f = f2
		}
	}
	return f
}

func genDeadline(t *rapid.T) deadlineCase {
	op := rapid.SampledFrom([]string{"GetTime", "GetDevice", "GetStatus", "GetCardByID", "GetListener", "OpenDoor", "GetEventIndex"}).Draw(t, "op")
	call := spec.Call{Op: op, Serial: gen.Serial(t), Card: 8165538, Door: 1}
	c := deadlineCase{Call: call, GapPct: rapid.SampledFrom([]int{15, 20, 30, 45}).Draw(t, "gap")}
	n := rapid.IntRange(2, 8).Draw(t, "strays")
	for i := 0; i < n && (i+1)*c.GapPct <= 160; i++ {
		class := rapid.SampledFrom([]string{"short", "long", "other-serial", "other-serial", "serial-0"}).Draw(t, "class")
		c.Strays = append(c.Strays, mkDatagram(t, class, call))
	}
	c.Valid = mkDatagram(t, "valid", call)
	if rapid.Bool().Draw(t, "late") {
		c.ValidPct = rapid.SampledFrom([]int{130, 140, 160}).Draw(t, "valid.at")
	} else {
		c.ValidPct = rapid.SampledFrom([]int{5, 25, 40, 55, 70}).Draw(t, "valid.at")
	}
	return c
}
