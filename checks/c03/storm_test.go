package c03

import (
	"fmt"
	"time"

	"verif/harness/api"
	"verif/harness/ev"
	"verif/harness/farm"
	"verif/harness/hook"
	"verif/harness/rp"
	"verif/harness/spec"
)

// A storm on the broadcast path: within ONE call, tens of thousands of datagrams that are to be ignored (replies of other
// controllers to the same broadcast, datagrams of the wrong length) arrive before the addressed controller's reply - more than
// 2^16 of them. The call keeps waiting for S and returns S's reply; it never returns a result that rests on no datagram.
type stormCase struct {
	Strays    int    `json:"ignorable_datagrams"`
	Op        string `json:"op"`
	TimeoutMs int    `json:"timeout_ms"`
	Short     bool   `json:"wrong_length_instead_of_wrong_serial,omitempty"`
}

func checkStorm(c stormCase) *rp.Fail {
	f := runStorm(c)
	if f != nil {
		if f2 := runStorm(c); f2 == nil {
			ev.Inconclusive(1)
			return nil
		} else {
			f = f2
		}
	}
	return f
}

func runStorm(c stormCase) *rp.Fail {
	ev.Case("broadcast/storm-of-ignorable-datagrams", true, fmt.Sprint(c))
	f := farm.New()
	defer f.Close()
	call := spec.Call{Op: c.Op, Serial: 405419896, Card: 8165538, Door: 1}
	sentAll := make(chan struct{}, 1)
	ep, err := f.UDP([4]byte{127, 0, 0, 4}, 0, func(e *farm.UDP, r farm.Received) {
		if len(r.Data) != 64 {
			return
		}
		stray := validFor(spec.Call{Op: c.Op, Serial: 303986753, Card: 8165538, Door: 1}, r.Data)
		if c.Short {
			stray = stray[:63]
		}
		for i := 0; i < c.Strays; i++ {
			e.Conn.WriteToUDPAddrPort(stray, r.From)
			if i%40 == 39 {
				time.Sleep(time.Millisecond) // (about 40 000 a second: the receive queue must not overflow - the strays are to ARRIVE)
			}
		}
		good := validFor(call, r.Data)
		for i := 0; i < 3; i++ {
			time.Sleep(20 * time.Millisecond)
			e.Conn.WriteToUDPAddrPort(good, r.From)
		}
		select {
		case sentAll <- struct{}{}:
		default:
		}
	})
	if err != nil {
		return nil
	}
	u := hook.Real(hook.ClientCfg{TimeoutMs: c.TimeoutMs, BindIP: [4]byte{127, 0, 0, 1}, HasBroadcast: true, BroadcastIP: [4]byte{127, 0, 0, 4}, BroadcastPort: ep.Addr.Port()})
	started := time.Now()
	res := api.Invoke(u, api.Case{Call: call})
	elapsed := time.Since(started)
	if res.Panic != nil {
		return rp.Failf("socket/broadcast/storm/panic", "%s panicked: %v", c.Op, res.Panic)
	}
	select {
	case <-sentAll:
	case <-time.After(time.Duration(c.TimeoutMs) * time.Millisecond):
	}
	if res.Err == nil {
		// a result: it must be S's reply
		want := spec.Decode(call, spec.Config{}, validFor(call, make([]byte, 64)))
		if msg := api.Compare(res, want); msg != "" {
			return rp.Failf("socket/broadcast/storm/result-from-no-datagram", "%s returned after %v, in the middle of %d ignorable datagrams, with a result that is not the addressed controller's reply: %s", c.Op, elapsed, c.Strays, msg)
		}
		return nil
	}
	if elapsed < time.Duration(c.TimeoutMs)*time.Millisecond*9/10 {
		return rp.Failf("socket/broadcast/storm/gave-up-early", "%s failed after %v (timeout %d ms) while ignorable datagrams were still arriving - S's reply followed them: %v", c.Op, elapsed, c.TimeoutMs, res.Err)
	}
	ev.Inconclusive(1) // (the call ran into its deadline: the machine did not get through the storm in time)
	return nil
}

func sweepStorm(yield func(stormCase) bool) {
	cases := []stormCase{{Strays: 80000, Op: "GetTime", TimeoutMs: 30000}, {Strays: 76000, Op: "GetCardByID", TimeoutMs: 30000, Short: true}}
	if ev.Thorough() {
		cases = append(cases, stormCase{Strays: 140000, Op: "GetStatus", TimeoutMs: 60000}, stormCase{Strays: 65535, Op: "GetTime", TimeoutMs: 30000}, stormCase{Strays: 65537, Op: "OpenDoor", TimeoutMs: 30000, Short: true})
	}
	for i, c := range cases {
		if ev.Mine(i+2) && !yield(c) {
			return
		}
	}
}
