package c12

import (
	"fmt"
	"runtime"
	"strings"
	"sync"

	"github.com/uhppoted/uhppote-core/encoding/bcd"

	"verif/harness/ev"
	"verif/harness/rp"
)

// Windows: the slice handed to Decode is a window into a larger buffer (a field of a received frame, a record inside a file) -
// it starts at any of the eight positions relative to an 8-byte boundary and has any length. Every digit comes out, and a
// non-decimal nibble at ANY position of the window is refused.
type windowCase struct {
	Offset int `json:"offset"` // start of the window inside an 8-byte aligned buffer
	Len    int `json:"bytes"`
}

func checkWindow(c windowCase) *rp.Fail {
	ev.Case("decode/window-into-a-larger-buffer", true, fmt.Sprint(c))
	buf := make([]byte, 256) // (allocations of this size are 8-byte aligned, and more)
	for i := range buf {
		buf[i] = byte((i%10)<<4 | (i*7+3)%10)
	}
	w := buf[c.Offset : c.Offset+c.Len : c.Offset+c.Len]
	var want strings.Builder
	for _, b := range w {
		want.WriteByte('0' + b>>4)
		want.WriteByte('0' + b&15)
	}
	got, err := bcd.Decode(w)
	if err != nil || got != want.String() {
		return rp.Failf("bcd.Decode/window", "Decode of a %d-byte window that starts %d bytes into an aligned buffer gave %q, %v; the digits are %q", c.Len, c.Offset, got, err, want.String())
	}
	for i := 0; i < c.Len; i++ {
		for _, high := range []bool{true, false} {
			old := w[i]
			if high {
				w[i] = 0xa0 | old&0x0f
			} else {
				w[i] = old&0xf0 | 0x0f
			}
			_, err := bcd.Decode(w)
			w[i] = old
			if err == nil {
				return rp.Failf("bcd.Decode/window/accepts-non-decimal-nibble", "Decode of a %d-byte window that starts %d bytes into an aligned buffer accepted a non-decimal nibble in byte %d", c.Len, c.Offset, i)
			}
		}
	}
	return nil
}

func sweepWindows(yield func(windowCase) bool) {
	i := 0
	for off := 0; off < 16; off++ {
		for n := 1; n <= 80; n++ {
			i++
			if ev.Mine(i) && !yield(windowCase{off, n}) {
				return
			}
		}
	}
}

// Transient strings: Encode is handed a string that dies right after the call; garbage collections later the allocator gives
// its memory to another string of the same length. What Encode returns is the encoding of the string it is given - whatever
// lived at that address before.
type transientCase struct {
	Digits int `json:"digits"`
	Tries  int `json:"tries"`
}

//go:noinline
func fresh(n int, seed int, bad bool) string {
	b := make([]byte, n)
	for i := range b {
		b[i] = '0' + byte((i*seed+seed)%10)
	}
	if bad {
		b[n/2] = 'x'
	}
	return string(b)
}

func checkTransient(c transientCase) *rp.Fail {
	ev.Case("encode/transient-strings-across-garbage-collections", true, fmt.Sprint(c))
	for k := 0; k < c.Tries; k++ {
		func() {
			s := fresh(c.Digits, 3+k, false)
			bcd.Encode(s)
		}()
		runtime.GC()
		runtime.GC()
		for j := 0; j < 6; j++ {
			bad := j%3 == 2
			s := fresh(c.Digits, 11+k+j, bad)
			out, err := bcd.Encode(s)
			if bad {
				if err == nil {
					return rp.Failf("bcd.Encode/accepts-non-digit/after-garbage-collection", "Encode(%q) returned no error (an earlier string of the same length had been encoded and collected)", s)
				}
				continue
			}
			if err != nil || out == nil {
				return rp.Failf("bcd.Encode/error", "Encode(%q) failed: %v", s, err)
			}
			if got, _ := bcd.Decode(*out); got != pad(s) {
				return rp.Failf("bcd.Encode/wrong-bytes/after-garbage-collection", "Encode(%q) returned %x - the digits %s (an earlier string of the same length had been encoded and collected)", s, *out, got)
			}
		}
	}
	return nil
}

func pad(s string) string {
	if len(s)%2 == 1 {
		return "0" + s
	}
	return s
}

func sweepTransient(yield func(transientCase) bool) {
	for i, n := range []int{1, 2, 7, 8, 14, 16, 17, 32, 33, 64, 100} {
		if ev.Mine(i) && !yield(transientCase{Digits: n, Tries: ev.Pick(12, 200)}) {
			return
		}
	}
}

// A rejected bulk value right before a valid one: a value of hundreds of kilobytes with one non-decimal nibble near its start
// is refused - and the very next call, on the same goroutine, decodes a valid value of the same size. Whatever the first call
// left running or lying around, the second returns every digit.
type afterRejectCase struct {
	Bytes  int `json:"bytes"`
	Rounds int `json:"rounds"`
	BadAt  int `json:"bad_byte"`
}

func checkAfterReject(c afterRejectCase) *rp.Fail {
	ev.Case("decode/bulk-value-right-after-a-rejected-one", true, fmt.Sprint(c))
	good := make([]byte, c.Bytes)
	for i := range good {
		good[i] = byte((i%10)<<4 | (i/7+3)%10)
	}
	bad := append([]byte(nil), good...)
	bad[c.BadAt%c.Bytes] = 0xfa
	var want strings.Builder
	want.Grow(2 * c.Bytes)
	for _, b := range good {
		want.WriteByte('0' + b>>4)
		want.WriteByte('0' + b&15)
	}
	w := want.String()
	for r := 0; r < c.Rounds; r++ {
		if _, err := bcd.Decode(bad); err == nil {
			return rp.Failf("bcd.Decode/accepts-non-decimal-nibble/bulk", "round %d: a %d-byte value with a non-decimal nibble in byte %d was accepted", r, c.Bytes, c.BadAt%c.Bytes)
		}
		got, err := bcd.Decode(good)
		if err != nil {
			return rp.Failf("bcd.Decode/error/after-a-rejected-bulk-value", "round %d: a valid %d-byte value decoded right after a rejected one of the same size failed: %v", r, c.Bytes, err)
		}
		if got != w {
			k := 0
			for k < len(got) && k < len(w) && got[k] == w[k] {
				k++
			}
			return rp.Failf("bcd.Decode/wrong-digits/after-a-rejected-bulk-value", "round %d: a valid %d-byte value decoded right after a rejected one of the same size: %d digits, digit %d is %q, the byte there says %q", r, c.Bytes, len(got), k, got[k:min(k+1, len(got))], w[k:k+1])
		}
	}
	return nil
}

func sweepAfterReject(yield func(afterRejectCase) bool) {
	cases := []afterRejectCase{{Bytes: 262144, Rounds: 150, BadAt: 5}, {Bytes: 65536, Rounds: 300, BadAt: 0}, {Bytes: 1 << 20, Rounds: 30, BadAt: 4097}, {Bytes: 70001, Rounds: 200, BadAt: 69999}}
	for i, c := range cases {
		if ev.Mine(i) && !yield(c) {
			return
		}
	}
}

// Many goroutines decode their OWN value of 9..64 bytes (longer than any field of the protocol, shorter than 'bulk') over and
// over, more goroutines than processors: everybody gets the digits of the value they passed.
type midCase struct {
	Bytes   int `json:"bytes"`
	Workers int `json:"workers"`
	Rounds  int `json:"rounds"`
}

func checkMid(c midCase) *rp.Fail {
	ev.Case("decode/concurrent-mid-size-values", true, fmt.Sprint(c))
	var mu sync.Mutex
	var fail *rp.Fail
	var wg sync.WaitGroup
	start := make(chan struct{})
	for w := 0; w < c.Workers; w++ {
		wg.Add(1)
		go func(w int) {
			defer wg.Done()
			in := make([]byte, c.Bytes)
			for i := range in {
				in[i] = byte(((w+i)%10)<<4 | (w*3+i)%10)
			}
			var want strings.Builder
			for _, b := range in {
				want.WriteByte('0' + b>>4)
				want.WriteByte('0' + b&15)
			}
			<-start
			for r := 0; r < c.Rounds; r++ {
				got, err := bcd.Decode(in)
				if err != nil || got != want.String() {
					mu.Lock()
					if fail == nil {
						fail = rp.Failf("bcd.Decode/concurrent/wrong-digits", "goroutine %d of %d, call %d: Decode(%x) = %q, %v while the others were decoding their own %d-byte values", w, c.Workers, r, in, got, err, c.Bytes)
					}
					mu.Unlock()
					return
				}
				if r%64 == 0 {
					mu.Lock()
					stop := fail != nil
					mu.Unlock()
					if stop {
						return
					}
				}
			}
		}(w)
	}
	close(start)
	wg.Wait()
	return fail
}

func sweepMid(yield func(midCase) bool) {
	n := runtime.GOMAXPROCS(0)
	for i, c := range []midCase{{Bytes: 24, Workers: 4 * n, Rounds: 20000}, {Bytes: 9, Workers: 3 * n, Rounds: 20000}, {Bytes: 64, Workers: 4 * n, Rounds: 10000}, {Bytes: 33, Workers: 2 * n, Rounds: 20000}} {
		if ev.Mine(i) && !yield(c) {
			return
		}
	}
}
