//go:build !(amd64 || arm64)

package c12

import "verif/harness/rp"

// (a 32-bit process cannot hold a string of 2^32 digits)
func beyond32Props() []rp.Prop { return nil }
