package c12

import (
	"fmt"

	"verif/harness/collide"
	"verif/harness/ev"
	"verif/harness/rp"
)

// A result must not depend on EARLIER calls: pairs of distinct short strings that collide under the usual 32-bit hashes (a
// memo keyed on a hash of the string instead of the string) are encoded / decoded one after the other, in both orders.
type pairCase struct {
	Hash string `json:"hash"`
	A    []byte `json:"a"`
	B    []byte `json:"b"`
	Dec  bool   `json:"decode"` // A and B are byte slices for Decode (otherwise strings for Encode)
}

func candidates() (strs []string, slices []string) {
	// all times of day, written the way field values are: hhmmss / hh:mm:ss
	for h := 0; h < 24; h++ {
		for m := 0; m < 60; m++ {
			for s := 0; s < 60; s += 1 {
				strs = append(strs, fmt.Sprintf("%02d:%02d:%02d", h, m, s))
				if s%2 == 0 {
					strs = append(strs, fmt.Sprintf("%02d%02d%02d", h, m, s))
				}
			}
		}
	}
	// dates yyyymmdd 1990..2049, every day
	for y := 1990; y < 2050; y++ {
		for m := 1; m <= 12; m++ {
			for d := 1; d <= 31; d++ {
				strs = append(strs, fmt.Sprintf("%04d%02d%02d", y, m, d))
			}
		}
	}
	// 8-digit strings spread over the whole range, and shorter ones
	for i := 0; i < 160000; i++ {
		strs = append(strs, fmt.Sprintf("%08d", (uint64(i)*7919317)%100000000))
	}
	for i := 0; i < 40000; i++ {
		strs = append(strs, fmt.Sprintf("%06d", (uint64(i)*104729)%1000000), fmt.Sprintf("%04d", i%10000))
	}
	// byte slices for Decode: 4..7 bytes of BCD (dates, date-times) and the same with one non-decimal nibble
	for i := 0; i < 120000; i++ {
		v := (uint64(i) * 7919317) % 100000000
		b := []byte{byte((v/10000000)%10<<4 | (v/1000000)%10), byte((v/100000)%10<<4 | (v/10000)%10), byte((v/1000)%10<<4 | (v/100)%10), byte((v/10)%10<<4 | v%10), byte(i % 0x60), byte((i / 7) % 0x60), byte((i / 49) % 0x60)}
		slices = append(slices, string(b[:4+i%4]))
		if i%3 == 0 {
			b[i%4] |= 0x0a
			slices = append(slices, string(b[:4+i%4]))
		}
	}
	return
}

func sweepPairs(yield func(pairCase) bool) {
	strs, slices := candidates()
	idx := 0
	for _, p := range collide.Pairs(strs, ev.Pick(6, 40)) {
		idx++
		if ev.Mine(idx) && !yield(pairCase{Hash: p.Hash, A: []byte(p.A), B: []byte(p.B)}) {
			return
		}
	}
	for _, p := range collide.Pairs(slices, ev.Pick(6, 40)) {
		idx++
		if ev.Mine(idx) && !yield(pairCase{Hash: p.Hash, A: []byte(p.A), B: []byte(p.B), Dec: true}) {
			return
		}
	}
}

func checkPair(c pairCase) *rp.Fail {
	ev.Case("hash-colliding-pair/"+c.Hash, true, c.Hash+string(c.A)+"|"+string(c.B))
	if ev.WantSample("hash-colliding-pair/" + c.Hash) {
		ev.Sample("hash-colliding-pair/"+c.Hash, fmt.Sprintf("%q %q decode=%v", c.A, c.B, c.Dec))
	}
	for _, order := range [][2][]byte{{c.A, c.B}, {c.B, c.A}} {
		for _, x := range [][]byte{order[0], order[1], order[0]} {
			var f *rp.Fail
			if c.Dec {
				f = decide(x)
			} else {
				f = checkEncQuiet(x)
			}
			if f != nil {
				f.Msg += fmt.Sprintf("  (in the sequence %q, %q, %q - the two collide under %s)", order[0], order[1], order[0], c.Hash)
				f.Fingerprint += "/after-colliding-input"
				return f
			}
		}
	}
	return nil
}
