package c12

import (
	"bytes"
	"fmt"
	"testing"

	"github.com/uhppoted/uhppote-core/encoding/bcd"

	"verif/harness/cold"
)

// TestColdChild runs only in a fresh child process (harness/cold): the very first Encode / Decode calls of the process
// are made by a group of goroutines released together (some staggered by a few microseconds), each judged by the model.
func TestColdChild(t *testing.T) {
	if cold.Scenario() == "" {
		t.Skip("cold-start child only")
	}
	k := cold.Index()
	g := []int{2, 4, 8, 12, 16}[k%5]
	decodeFirst := k%2 == 0
	inputs := [][]byte{{0x20, 0x24, 0x02, 0x29}, {0x12, 0x34, 0x56}, {0x99}, {0x00, 0x00, 0x00, 0x00}, {0x08, 0x30}, {0x23, 0x59, 0x59}, {0x19, 0x70, 0x01, 0x01, 0x00, 0x00, 0x00}, {0x90, 0x09}}
	type res struct {
		fp, msg string
		c       any
	}
	results := make([][]res, g)
	cold.Release(g, func(w int) {
		cold.Stagger((w * (1 + k%7)) % 97)
		for round := 0; round < 3; round++ {
			b := inputs[(w+round+k)%len(inputs)]
			want, _ := modelDecode(b)
			if decodeFirst == (round%2 == 0) {
				got, err := bcd.Decode(b)
				if err != nil || got != want {
					results[w] = append(results[w], res{"bcd.Decode/wrong-digits", fmt.Sprintf("Decode(%x) = %q, %v; want %q", b, got, err, want), decCase{B: b}})
				}
			} else {
				got, err := bcd.Encode(want)
				if err != nil || got == nil || !bytes.Equal(*got, b) {
					results[w] = append(results[w], res{"bcd.Encode/wrong-bytes", fmt.Sprintf("Encode(%q) = %x, %v; want %x", want, deref(got), err, b), encCase{S: []byte(want)}})
				}
			}
		}
	})
	for _, rs := range results {
		for _, r := range rs {
			cold.Report(r.fp, r.msg, r.c)
		}
	}
	cold.Done(3 * g)
}
