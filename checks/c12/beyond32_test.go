//go:build amd64 || arm64

package c12

import (
	"bufio"
	"fmt"
	"os"
	"runtime/debug"
	"strings"

	"github.com/uhppoted/uhppote-core/encoding/bcd"

	"verif/harness/ev"
	"verif/harness/rp"
)

// Lengths beyond what 32 bits count (thorough tier, one shard, 64-bit processes with enough memory): a string of 2^32 + n
// digits is encoded, a slice of 2^31 + n bytes decoded - an index or a block offset kept in a 32-bit integer is exact for
// everything smaller. The results are checked byte by byte against the repeating pattern the input was made of.
type beyondCase struct {
	Op    string `json:"op"`    // encode | decode | encode-bad
	Extra int    `json:"extra"` // digits beyond 2^32 (encode) / bytes beyond 2^31 (decode)
}

func memAvailableGiB() int {
	f, err := os.Open("/proc/meminfo")
	if err != nil {
		return 0
	}
	defer f.Close()
	sc := bufio.NewScanner(f)
	for sc.Scan() {
		var kb int
		if n, _ := fmt.Sscanf(sc.Text(), "MemAvailable: %d kB", &kb); n == 1 {
			return kb >> 20
		}
	}
	return 0
}

func checkBeyond32(c beyondCase) *rp.Fail {
	if memAvailableGiB() < 24 {
		ev.Excluded("less than 24 GiB of memory available for the 4 GiB inputs", 1)
		return nil
	}
	defer debug.FreeOSMemory()
	ev.Case("beyond-2^32/"+c.Op, true, fmt.Sprint(c))
	const pattern = "0123456789"
	switch c.Op {
	case "encode", "encode-bad":
		n := 1<<32 + c.Extra
		var sb strings.Builder
		sb.Grow(n + len(pattern))
		for sb.Len() < n {
			sb.WriteString(pattern)
		}
		s := sb.String()[:n]
		bad := -1
		if c.Op == "encode-bad" {
			bad = 1<<32 + c.Extra/2
			b := []byte(s) // (one more copy: only in this variant)
			b[bad] = 'x'
			s = string(b)
		}
		var out *[]byte
		var err error
		if p := try(func() { out, err = bcd.Encode(s) }); p != nil {
			return rp.Failf("bcd.Encode/panic", "Encode of %d digits panicked: %v", n, p)
		}
		if bad >= 0 {
			if err == nil {
				return rp.Failf("bcd.Encode/accepts-non-digit/beyond-2^32", "Encode of %d characters with an 'x' at position %d returned no error", n, bad)
			}
			return nil
		}
		if err != nil || out == nil {
			return rp.Failf("bcd.Encode/error/beyond-2^32", "Encode of %d decimal digits failed: %v", n, err)
		}
		res := *out
		if len(res) != (n+1)/2 {
			return rp.Failf("bcd.Encode/length/beyond-2^32", "Encode of %d digits returned %d bytes, want %d", n, len(res), (n+1)/2)
		}
		pad := n % 2 // an odd number of digits is left-padded with one zero digit
		digit := func(i int) byte {
			i -= pad
			if i < 0 {
				return 0
			}
			return pattern[i%len(pattern)] - '0'
		}
		for i := range res {
			if want := digit(2*i)<<4 | digit(2*i+1); res[i] != want {
				return rp.Failf("bcd.Encode/wrong-byte/beyond-2^32", "Encode of %d digits (the pattern 0123456789 repeated): byte %d is %02x, the digits there are %02x", n, i, res[i], want)
			}
		}
	case "decode":
		n := 1<<31 + c.Extra
		in := make([]byte, n)
		for i := range in {
			in[i] = byte((i%10)<<4 | (i+3)%10)
		}
		var s string
		var err error
		if p := try(func() { s, err = bcd.Decode(in) }); p != nil {
			return rp.Failf("bcd.Decode/panic", "Decode of %d bytes panicked: %v", n, p)
		}
		if err != nil {
			return rp.Failf("bcd.Decode/error/beyond-2^32", "Decode of %d bytes of decimal nibbles failed: %v", n, err)
		}
		if len(s) != 2*n {
			return rp.Failf("bcd.Decode/length/beyond-2^32", "Decode of %d bytes returned %d digits", n, len(s))
		}
		for i := 0; i < n; i++ {
			if s[2*i] != '0'+byte(i%10) || s[2*i+1] != '0'+byte((i+3)%10) {
				return rp.Failf("bcd.Decode/wrong-digit/beyond-2^32", "Decode of %d bytes: digits %d.. are %q, the byte there is %02x", n, 2*i, s[2*i:2*i+2], in[i])
			}
		}
	}
	return nil
}

func sweepBeyond32(yield func(beyondCase) bool) {
	if !ev.Thorough() || ev.Shard() != 0 {
		return
	}
	for _, c := range []beyondCase{{"encode", 200001}, {"decode", 100001}, {"encode-bad", 70000}} {
		if !yield(c) {
			return
		}
	}
}

func beyond32Props() []rp.Prop {
	return []rp.Prop{rp.P[beyondCase]{Name: "beyond-32-bit-lengths", Sweep: sweepBeyond32, Check: checkBeyond32}}
}
