// C16 - date and time comparisons form a strict total order consistent with the calendar.
package c16

import (
	"encoding/json"
	"fmt"
	"testing"
	"time"

	"github.com/uhppoted/uhppote-core/types"
	"pgregory.net/rapid"

	"verif/harness/api"
	"verif/harness/ev"
	"verif/harness/gen"
	"verif/harness/hook"
	"verif/harness/rp"
	"verif/harness/spec"
	"verif/harness/zones"
)

func TestMain(m *testing.M) {
	time.Local = time.UTC
	ev.Describe("HH:mm: all 1441^2 ordered pairs of 00:00..24:00 (exhaustive) and rapid-drawn triples; dates: every adjacent-day pair 1999-2101, month/year/century boundaries across 0001..9999, rapid-drawn pairs and triples with each value carried in its own location (UTC, fixed offsets, IANA zones) and clock time; date-times vs instants from 1970 on at +-1 ms / +-1 s around second boundaries; time profiles through the API (in-memory driver) for the segment rule. Oracle: exactly one of before/equal/after; a<b <=> b>a; transitivity; agreement with the lexicographic order on (y,m,d) / (h,m); DateTime.Before(t) <=> floor(unix seconds) smaller; SetTimeProfile accepts exactly when every segment has end >= start. Non-trivial = pair with a != b differing in exactly one field, or a triple; distinct = distinct (kind, values).")
	ev.Main(m, "C16")
}

func lexHM(a, b spec.HM) int {
	switch {
	case a.H != b.H:
		return sign(a.H - b.H)
	}
	return sign(a.M - b.M)
}

func sign(x int) int {
	switch {
	case x < 0:
		return -1
	case x > 0:
		return 1
	}
	return 0
}

func hm(h spec.HM) types.HHmm { return types.NewHHmm(h.H, h.M) }

func allHM() []spec.HM {
	var out []spec.HM
	for h := 0; h < 24; h++ {
		for m := 0; m < 60; m++ {
			out = append(out, spec.HM{H: h, M: m})
		}
	}
	return append(out, spec.HM{H: 24, M: 0})
}

type hmPair struct {
	A spec.HM `json:"a"`
	B spec.HM `json:"b"`
	// Via: how each value was made - 0 NewHHmm, 1 HHmmFromString, 2 HHmmFromTime (24:00: NewHHmm), 3 decoded from JSON, 4 decoded
	// from its two BCD bytes. A value is the same value however it came into being.
	Via [2]uint8 `json:"made_via,omitempty"`
}

var hmTables [5]map[spec.HM]types.HHmm

// hmVia makes the value through constructor `via` (memoised: the all-pairs sweep uses each value 2 x 1441 times).
func hmVia(h spec.HM, via uint8) types.HHmm {
	via %= 5
	if hmTables[via] == nil {
		hmTables[via] = map[spec.HM]types.HHmm{}
	}
	if v, ok := hmTables[via][h]; ok {
		return v
	}
	v := types.NewHHmm(h.H, h.M)
	switch via {
	case 1:
		text := fmt.Sprintf("%02d:%02d", h.H, h.M)
		if p, err := types.HHmmFromString(text); err == nil && p != nil {
			v = *p
			// the pointer that was handed out is the caller's: writing another time of day through it, then parsing the same text
			// again, gives the text's value again (the second parse is what the comparisons below use)
			*p = types.NewHHmm((h.H+7)%24, (h.M+13)%60)
			if q, err := types.HHmmFromString(text); err == nil && q != nil {
				v = *q
			}
		}
	case 2:
		if h.H < 24 {
			v = types.HHmmFromTime(time.Date(2024, 6, 15, h.H, h.M, 42, 999, time.UTC))
		}
	case 3:
		var x types.HHmm
		if json.Unmarshal([]byte(fmt.Sprintf("%q", fmt.Sprintf("%02d:%02d", h.H, h.M))), &x) == nil {
			v = x
		}
	case 4:
		var x types.HHmm
		if y, err := x.UnmarshalUT0311L0x([]byte{byte(h.H/10<<4 | h.H%10), byte(h.M/10<<4 | h.M%10)}); err == nil {
			switch z := y.(type) {
			case *types.HHmm:
				v = *z
			case types.HHmm:
				v = z
			}
		}
	}
	hmTables[via][h] = v
	return v
}

func decideHM(p hmPair) *rp.Fail {
	a, b := hmVia(p.A, p.Via[0]), hmVia(p.B, p.Via[1])
	before, after, equal := a.Before(b), a.After(b), a.Equals(b)
	want := lexHM(p.A, p.B)
	n := 0
	for _, x := range []bool{before, after, equal} {
		if x {
			n++
		}
	}
	if n != 1 {
		return rp.Failf("types.HHmm/trichotomy", "%v vs %v: before=%v equal=%v after=%v (exactly one must hold)", p.A, p.B, before, equal, after)
	}
	if before != (want < 0) || after != (want > 0) || equal != (want == 0) {
		return rp.Failf("types.HHmm/order", "%v vs %v: before=%v equal=%v after=%v disagrees with (hour, minute) order", p.A, p.B, before, equal, after)
	}
	if before != b.After(a) || after != b.Before(a) || equal != b.Equals(a) {
		return rp.Failf("types.HHmm/mirror", "%v vs %v: before/after are not mirror images", p.A, p.B)
	}
	return nil
}

func TestHHmmAllPairs(t *testing.T) {
	if ev.Replaying() {
		t.Skip()
	}
	all := allHM()
	var n, nt int64
	for i, a := range all {
		if !ev.Mine(i) {
			continue
		}
		for _, b := range all {
			n++
			if (a.H != b.H) != (a.M != b.M) {
				nt++
			}
			via := [2]uint8{uint8((i*31 + b.H*7 + b.M) % 5), uint8((i*17 + b.H*3 + b.M*5) % 5)}
			if f := decideHM(hmPair{A: a, B: b, Via: via}); f != nil {
				if ev.Failure("hhmm-pair", f.Fingerprint, f.Msg, hmPair{A: a, B: b, Via: via}) {
					t.Errorf("[%s] %s", f.Fingerprint, f.Msg)
					return
				}
			}
		}
	}
	ev.Bulk("hhmm/all-pairs", n, nt)
	ev.Sample("hhmm/all-pairs", hmPair{A: spec.HM{H: 9, M: 59}, B: spec.HM{H: 10, M: 0}})
}

// dates ------------------------------------------------------------------------------------------

type dv struct {
	C     spec.Civil `json:"c"`
	Loc   string     `json:"loc,omitempty"`
	Clock [3]int     `json:"clock"`
}

func (d dv) date() types.Date {
	if d.Loc == "" && !zones.DayExists(time.Local, d.C.Y, d.C.M, d.C.D) {
		// a calendar day that the process zone skipped altogether cannot be built locally: it arrives as a value carried in
		// another location (a cast from a UTC time.Time)
		return types.Date(time.Date(d.C.Y, time.Month(d.C.M), d.C.D, 12, 0, 0, 0, time.UTC))
	}
	if d.Loc == "" {
		return types.ToDate(d.C.Y, time.Month(d.C.M), d.C.D)
	}
	t := time.Date(d.C.Y, time.Month(d.C.M), d.C.D, d.Clock[0], d.Clock[1], d.Clock[2], 0, api.LoadLocation(d.Loc))
	if y, m, dd := t.Date(); y != d.C.Y || int(m) != d.C.M || dd != d.C.D {
		t = time.Date(d.C.Y, time.Month(d.C.M), d.C.D, 12, 0, 0, 0, time.UTC)
	}
	return types.Date(t)
}

func lexDate(a, b spec.Civil) int {
	switch {
	case a.Y != b.Y:
		return sign(a.Y - b.Y)
	case a.M != b.M:
		return sign(a.M - b.M)
	}
	return sign(a.D - b.D)
}

type dateTriple struct {
	V [3]dv `json:"v"`
	// PZ is the process-local zone while the triple is compared ("" = UTC)
	PZ string `json:"process_zone,omitempty"`
}

// days that a zone skipped altogether (the date line moved), with the zones that did so
var skippedDays = []struct {
	zone string
	day  spec.Civil
}{{"Pacific/Apia", spec.Civil{Y: 2011, M: 12, D: 30}}, {"Pacific/Fakaofo", spec.Civil{Y: 2011, M: 12, D: 30}}, {"Pacific/Kiritimati", spec.Civil{Y: 1994, M: 12, D: 31}},
	{"Pacific/Kanton", spec.Civil{Y: 1994, M: 12, D: 31}}, {"Pacific/Enderbury", spec.Civil{Y: 1994, M: 12, D: 31}}, {"Pacific/Kwajalein", spec.Civil{Y: 1993, M: 8, D: 21}},
	{"Asia/Manila", spec.Civil{Y: 1844, M: 12, D: 31}}, {"Pacific/Guam", spec.Civil{Y: 1844, M: 12, D: 31}}, {"Pacific/Saipan", spec.Civil{Y: 1844, M: 12, D: 31}}}

func decideDatePair(x, y dv) *rp.Fail {
	a, b := x.date(), y.date()
	before, after, equal := a.Before(b), a.After(b), a.Equals(b)
	want := lexDate(x.C, y.C)
	n := 0
	for _, v := range []bool{before, after, equal} {
		if v {
			n++
		}
	}
	if n != 1 {
		return rp.Failf("types.Date/trichotomy", "%v vs %v: before=%v equal=%v after=%v (exactly one must hold)", x, y, before, equal, after)
	}
	if before != (want < 0) || after != (want > 0) || equal != (want == 0) {
		return rp.Failf("types.Date/order", "%v vs %v: before=%v equal=%v after=%v disagrees with the calendar", x, y, before, equal, after)
	}
	if before != b.After(a) || after != b.Before(a) || equal != b.Equals(a) {
		return rp.Failf("types.Date/mirror", "%v vs %v: before/after are not mirror images", x, y)
	}
	return nil
}

func checkDates(tr dateTriple) (f *rp.Fail) {
	if tr.PZ == "" {
		return checkDatesZ(tr)
	}
	ev.Class("date/process-zone-not-utc", 1)
	loc, err := time.LoadLocation(tr.PZ)
	if err != nil {
		ev.Excluded("zone not in this tz database", 1)
		return nil
	}
	zones.With(loc, func() { f = checkDatesZ(tr) })
	return f
}

func checkDatesZ(tr dateTriple) *rp.Fail {
	diff := 0
	if tr.V[0].C.Y != tr.V[1].C.Y {
		diff++
	}
	if tr.V[0].C.M != tr.V[1].C.M {
		diff++
	}
	if tr.V[0].C.D != tr.V[1].C.D {
		diff++
	}
	class := "date/triple"
	if tr.V[0].Loc != "" || tr.V[1].Loc != "" || tr.V[2].Loc != "" {
		class = "date/triple-mixed-locations"
	}
	_ = diff
	ev.Case(class, true, fmt.Sprint(tr))
	if ev.WantSample(class) {
		ev.Sample(class, tr)
	}
	for i := 0; i < 3; i++ {
		for j := 0; j < 3; j++ {
			if f := decideDatePair(tr.V[i], tr.V[j]); f != nil {
				return f
			}
		}
	}
	// transitivity
	d := [3]types.Date{tr.V[0].date(), tr.V[1].date(), tr.V[2].date()}
	for i := 0; i < 3; i++ {
		for j := 0; j < 3; j++ {
			for k := 0; k < 3; k++ {
				if d[i].Before(d[j]) && d[j].Before(d[k]) && !d[i].Before(d[k]) {
					return rp.Failf("types.Date/transitivity", "%v < %v < %v but not %v < %v", tr.V[i], tr.V[j], tr.V[k], tr.V[i], tr.V[k])
				}
			}
		}
	}
	return nil
}

func genDV(t *rapid.T, label string, near *spec.Civil) dv {
	c := gen.Civil(t, label)
	if near != nil {
		switch rapid.IntRange(0, 4).Draw(t, label+".near") {
		case 0:
			c = *near
		case 1: // same year and month
			c = spec.Civil{Y: near.Y, M: near.M, D: rapid.IntRange(1, spec.DaysIn(near.Y, near.M)).Draw(t, label+".d")}
		case 2: // same year
			m := rapid.IntRange(1, 12).Draw(t, label+".m")
			d := near.D
			if d > spec.DaysIn(near.Y, m) {
				d = spec.DaysIn(near.Y, m)
			}
			c = spec.Civil{Y: near.Y, M: m, D: d}
		case 3: // same month and day, other year
			y := rapid.IntRange(1, 9999).Draw(t, label+".y")
			d := near.D
			if d > spec.DaysIn(y, near.M) {
				d = spec.DaysIn(y, near.M)
			}
			c = spec.Civil{Y: y, M: near.M, D: d}
		}
	}
	// (0001-01-01 - the zero value in UTC - is a date like any other as far as comparisons go)
	if rapid.IntRange(0, 40).Draw(t, label+".first-day") == 0 {
		c = spec.Civil{Y: 1, M: 1, D: 1}
	}
	v := dv{C: c}
	if rapid.IntRange(0, 2).Draw(t, label+".repr") == 0 {
		v.Loc = gen.ZoneName(t, label+".loc")
		v.Clock = [3]int{rapid.IntRange(0, 23).Draw(t, label+".h"), rapid.IntRange(0, 59).Draw(t, label+".mi"), rapid.IntRange(0, 59).Draw(t, label+".s")}
	}
	return v
}

func genDates(t *rapid.T) dateTriple {
	a := genDV(t, "a", nil)
	b := genDV(t, "b", &a.C)
	c := genDV(t, "c", &b.C)
	tr := dateTriple{V: [3]dv{a, b, c}}
	switch rapid.IntRange(0, 7).Draw(t, "process.zone") {
	case 6, 7:
		// ONE instant (or instants a whole number of days apart, give or take an hour) seen from three locations - among them
		// the ends of the earth, UTC+14 and UTC-12, whose clocks are 26 hours apart: the calendar dates differ although the
		// instants coincide, and coincide although the instants are more than a day apart
		base := time.Unix(rapid.Int64Range(-2000000000, 4000000000).Draw(t, "instant"), 0)
		for i := range tr.V {
			// (... and beyond them: local mean time on both sides of the old date line - Manila at -15:56, Juneau at +15:02 before
			// 1845 / 1867 - and fixed zones a day and more from Greenwich, which the time package allows)
			loc := rapid.SampledFrom([]string{"Etc/GMT-14", "Etc/GMT+12", "Pacific/Kiritimati", "Pacific/Niue", "UTC", "Asia/Tokyo", "America/New_York", "Europe/Berlin", "Australia/Sydney",
				"fixed:+1502", "fixed:-1556", "fixed:-1421", "fixed:+1800", "fixed:-2000", "fixed:+2600"}).Draw(t, "instant.loc")
			at := base.Add(time.Duration(rapid.SampledFrom([]int{0, 0, 24, -24, 25, -25, 23, 26, 48, 30, -31, 50, -52}).Draw(t, "instant.hours")) * time.Hour).Add(time.Duration(rapid.SampledFrom([]int{0, 0, 15, -15, 45}).Draw(t, "instant.minutes")) * time.Minute)
			w := at.In(api.LoadLocation(loc))
			tr.V[i] = dv{C: spec.Civil{Y: w.Year(), M: int(w.Month()), D: w.Day()}, Loc: loc, Clock: [3]int{w.Hour(), w.Minute(), w.Second()}}
		}
		if rapid.Bool().Draw(t, "instant.pz") {
			tr.PZ = gen.ZoneName(t, "pz")
		}
	case 0:
		tr.PZ = gen.ZoneName(t, "pz")
	case 1: // a zone that skipped a whole day, and that day among the values
		s := skippedDays[rapid.IntRange(0, len(skippedDays)-1).Draw(t, "skipped")]
		tr.PZ = s.zone
		day := time.Date(s.day.Y, time.Month(s.day.M), s.day.D, 12, 0, 0, 0, time.UTC)
		for i := range tr.V {
			n := day.AddDate(0, 0, rapid.IntRange(-2, 2).Draw(t, "skipped.offset"))
			tr.V[i].C = spec.Civil{Y: n.Year(), M: int(n.Month()), D: n.Day()}
		}
	}
	return tr
}

func sweepDates(yield func(dateTriple) bool) {
	idx := 0
	emit := func(a, b, c spec.Civil) bool {
		idx++
		if !ev.Mine(idx) {
			return true
		}
		return yield(dateTriple{V: [3]dv{{C: a}, {C: b}, {C: c}}})
	}
	civ := func(t time.Time) spec.Civil { return spec.Civil{Y: t.Year(), M: int(t.Month()), D: t.Day()} }
	// the day the clocks go back (25 hours long): its first and its last hour are more than a day apart, and still the same date
	for _, fb := range []struct {
		zone    string
		y, m, d int
	}{{"America/New_York", 2024, 11, 3}, {"Europe/Berlin", 2022, 10, 30}, {"Australia/Sydney", 2023, 4, 2}, {"America/Santiago", 2023, 4, 2}} {
		idx++
		if ev.Mine(idx) {
			day := spec.Civil{Y: fb.y, M: fb.m, D: fb.d}
			prev := time.Date(fb.y, time.Month(fb.m), fb.d-1, 12, 0, 0, 0, time.UTC)
			tr := dateTriple{PZ: fb.zone, V: [3]dv{{C: day, Loc: fb.zone, Clock: [3]int{0, 15, 0}}, {C: day, Loc: fb.zone, Clock: [3]int{23, 45, 0}}, {C: civ(prev), Loc: fb.zone, Clock: [3]int{23, 50, 0}}}}
			if !yield(tr) {
				return
			}
			tr.PZ = ""
			if !yield(tr) {
				return
			}
		}
	}
	// the days around a skipped day, in the zone that skipped it: local values and values carried in UTC
	for _, s := range skippedDays {
		day := time.Date(s.day.Y, time.Month(s.day.M), s.day.D, 12, 0, 0, 0, time.UTC)
		for off := -2; off <= 0; off++ {
			for _, utc := range []string{"", "UTC"} {
				idx++
				if !ev.Mine(idx) {
					continue
				}
				tr := dateTriple{PZ: s.zone}
				for i := range tr.V {
					tr.V[i] = dv{C: civ(day.AddDate(0, 0, off+i)), Loc: utc, Clock: [3]int{12, 0, 0}}
				}
				if !yield(tr) {
					return
				}
			}
		}
	}
	// every adjacent-day pair 1999..2101 (as triples d, d+1, d+2)
	for t := time.Date(1999, 1, 1, 12, 0, 0, 0, time.UTC); t.Year() <= 2101; t = t.AddDate(0, 0, 1) {
		if !emit(civ(t), civ(t.AddDate(0, 0, 1)), civ(t.AddDate(0, 0, 2))) {
			return
		}
	}
	// month / year / century boundaries across 0001..9999
	for y := 1; y <= 9998; y += 7 {
		for _, m := range []int{1, 2, 3, 12} {
			last := spec.Civil{Y: y, M: m, D: spec.DaysIn(y, m)}
			next := time.Date(y, time.Month(m), last.D+1, 12, 0, 0, 0, time.UTC)
			if !emit(last, civ(next), spec.Civil{Y: y + 1, M: 1, D: 2}) {
				return
			}
		}
	}
}

// date-time vs instant ------------------------------------------------------------------------------

type dtCase struct {
	Unix    int64  `json:"unix"`     // date-time: whole seconds since 1970
	Millis  int    `json:"millis"`   // sub-second part carried by the DateTime value (0..999)
	DeltaMs int64  `json:"delta_ms"` // instant = date-time + delta
	Loc     string `json:"loc,omitempty"`
	// InstLoc: the location the INSTANT is carried in ("=" the date-time's own; else a zone name, "UTC", or "fixed" for a
	// nameless fixed offset) - which instant is earlier does not depend on where the two values are displayed
	InstLoc string `json:"instant_loc,omitempty"`
	// SubNs: nanoseconds below the millisecond added to the date-time and to the instant (0..999999: the whole second stays)
	SubNs [2]int `json:"sub_ns,omitempty"`
}

func floorDiv(a, b int64) int64 {
	q := a / b
	if (a%b != 0) && ((a < 0) != (b < 0)) {
		q--
	}
	return q
}

func checkDT(c dtCase) *rp.Fail {
	base := time.Unix(c.Unix, int64(c.Millis)*1_000_000).In(api.LoadLocation(c.Loc))
	// (time.Duration cannot hold more than 292 years: the instant is built from seconds and milliseconds)
	ms := c.Unix*1000 + int64(c.Millis) + c.DeltaMs
	inst := time.Unix(floorDiv(ms, 1000), (ms-floorDiv(ms, 1000)*1000)*1_000_000).In(base.Location())
	switch c.InstLoc {
	case "", "=":
	case "fixed":
		inst = inst.In(time.FixedZone("", 19800))
		ev.Class("datetime/instant-in-another-location", 1)
	case "utc()":
		inst = inst.UTC()
		ev.Class("datetime/instant-in-another-location", 1)
	default:
		inst = inst.In(api.LoadLocation(c.InstLoc))
		ev.Class("datetime/instant-in-another-location", 1)
	}
	class := "datetime/far"
	if c.DeltaMs >= -2000 && c.DeltaMs <= 2000 {
		class = "datetime/within-2s"
	}
	ev.Case(class, true, fmt.Sprint(c))
	if ev.WantSample(class) {
		ev.Sample(class, c)
	}
	if inst.Unix() < 0 || base.Unix() < 0 {
		// before 1970 - the zero value, the 'no value' date-time every decoder returns, is the one that matters: with fractions of
		// a second 'the whole-second timestamp' can be read two ways there (towards zero / downwards), so only values that ARE
		// whole seconds are judged
		if c.Millis != 0 || c.DeltaMs%1000 != 0 {
			return nil
		}
		ev.Class("datetime/before-1970-whole-seconds", 1)
		if base.IsZero() {
			ev.Class("datetime/the-zero-value-against-an-instant", 1)
		}
	}
	if c.SubNs != [2]int{} && base.Unix() >= 0 && inst.Unix() >= 0 {
		// clock readings have nanoseconds: x.999999999 s is still second x
		base, inst = base.Add(time.Duration(c.SubNs[0])), inst.Add(time.Duration(c.SubNs[1]))
		ev.Class("datetime/nanoseconds-below-the-millisecond", 1)
	}
	want := floorDiv(base.UnixMilli(), 1000) < floorDiv(inst.UnixMilli(), 1000)
	if c.Unix == zeroUnix && c.Millis == 0 && c.Loc == "" {
		// (the zero value itself, not a value equal to it)
		if got := (types.DateTime{}).Before(inst); got != want {
			return rp.Failf("types.DateTime.Before/zero-value", "DateTime{}.Before(%v) = %v, want %v (whole seconds %d vs %d)", inst.UTC().Format(time.RFC3339Nano), got, want, floorDiv(base.UnixMilli(), 1000), floorDiv(inst.UnixMilli(), 1000))
		}
	}
	if got := types.DateTime(base).Before(inst); got != want {
		return rp.Failf("types.DateTime.Before", "DateTime(%v).Before(%v) = %v, want %v (whole seconds %d vs %d)", base.UTC().Format(time.RFC3339Nano), inst.UTC().Format(time.RFC3339Nano), got, want, floorDiv(base.UnixMilli(), 1000), floorDiv(inst.UnixMilli(), 1000))
	}
	return nil
}

const zeroUnix = -62135596800 // 0001-01-01 00:00:00 UTC

func genDT(t *rapid.T) dtCase {
	if rapid.IntRange(0, 11).Draw(t, "before.1970") == 0 {
		c := dtCase{Unix: zeroUnix, Loc: rapid.SampledFrom([]string{"", "", "UTC", "Asia/Kolkata", "America/New_York"}).Draw(t, "zero.loc")}
		if rapid.IntRange(0, 2).Draw(t, "not.zero") == 0 {
			c.Unix = rapid.Int64Range(zeroUnix, -1).Draw(t, "unix.early")
		}
		switch rapid.IntRange(0, 2).Draw(t, "early.delta") {
		case 0:
			c.DeltaMs = 1000 * rapid.Int64Range(-5, 5).Draw(t, "delta.s")
		case 1:
			c.DeltaMs = 1000 * (rapid.Int64Range(0, 4102444800).Draw(t, "instant.unix") - c.Unix) // an instant from 1970 on
		default:
			c.DeltaMs = 1000 * rapid.Int64Range(0, 253402300799-zeroUnix).Draw(t, "delta.any")
		}
		if rapid.Bool().Draw(t, "instant.elsewhere") {
			c.InstLoc = rapid.SampledFrom([]string{"fixed", "utc()", "UTC", "America/Santiago"}).Draw(t, "instant.loc")
		}
		return c
	}
	c := dtCase{Unix: rapid.Int64Range(0, 253402300799).Draw(t, "unix"), Millis: rapid.SampledFrom([]int{0, 0, 1, 499, 500, 999}).Draw(t, "millis"), Loc: gen.ZoneName(t, "loc")}
	if rapid.IntRange(0, 3).Draw(t, "recent") != 0 {
		c.Unix = rapid.Int64Range(0, 4102444800).Draw(t, "unix.recent")
	}
	if rapid.Bool().Draw(t, "instant.elsewhere") {
		c.InstLoc = rapid.SampledFrom([]string{"fixed", "utc()", "UTC", "America/Santiago", "Asia/Kathmandu", "Pacific/Kiritimati"}).Draw(t, "instant.loc")
		if rapid.Bool().Draw(t, "instant.zone") {
			c.InstLoc = gen.ZoneName(t, "instant.zone.name")
		}
	}
	switch rapid.IntRange(0, 3).Draw(t, "delta.kind") {
	case 0:
		c.DeltaMs = rapid.SampledFrom([]int64{-2000, -1001, -1000, -999, -501, -500, -1, 0, 1, 499, 500, 999, 1000, 1001, 2000}).Draw(t, "delta")
	case 1:
		c.DeltaMs = rapid.Int64Range(-3000, 3000).Draw(t, "delta")
	default:
		c.DeltaMs = rapid.Int64Range(-1_000_000_000, 1_000_000_000).Draw(t, "delta")
	}
	if rapid.IntRange(0, 2).Draw(t, "sub.ns") == 0 {
		ns := []int{0, 1, 500_000, 999_000, 999_900, 999_950, 999_990, 999_999}
		c.SubNs = [2]int{rapid.SampledFrom(ns).Draw(t, "sub.ns.base"), rapid.SampledFrom(ns).Draw(t, "sub.ns.instant")}
	}
	if rapid.IntRange(0, 5).Draw(t, "far.apart") == 0 {
		// centuries apart ('now' against a never-expires date such as 2999-12-31 or 9999-12-31; differences beyond 2^63 ns)
		c.Unix = rapid.Int64Range(0, 4102444800).Draw(t, "unix.far")
		years := rapid.SampledFrom([]int64{100, 291, 292, 293, 300, 584, 585, 973, 1000, 2000, 5000, 7900}).Draw(t, "years")
		c.DeltaMs = years*31_556_952_000 + rapid.Int64Range(-86_400_000, 86_400_000).Draw(t, "delta.far")
		if rapid.Bool().Draw(t, "far.back") && c.Unix > years*31_556_952+86_400 {
			c.DeltaMs = -c.DeltaMs
		}
	}
	return c
}

// time profile segment rule ----------------------------------------------------------------------------

type profCase struct {
	Segs [6]spec.HM `json:"segs"`
	// Zone / From: the process zone and the profile's start date - a day on which that zone changes its clock, with the segment
	// boundaries drawn around the change. Whether a segment ends before it starts is a matter of (hour, minute) alone.
	Zone string     `json:"zone,omitempty"`
	From spec.Civil `json:"from,omitempty"`
	// Extra: the segments map also has entries under these keys (0 from a zero-based list, 4, 200 ...), all in order: the rule is
	// about segments 1, 2 and 3
	Extra []uint8 `json:"extra_segment_keys,omitempty"`
}

func checkProfile(c profCase) (f *rp.Fail) {
	if c.Zone == "" {
		return checkProfileZ(c)
	}
	ev.Class("profile/starts-on-a-day-the-process-zone-changes-its-clock", 1)
	zones.With(zones.Loc(c.Zone), func() { f = checkProfileZ(c) })
	return f
}

func checkProfileZ(c profCase) *rp.Fail {
	accept := true
	equalEdge := false
	for i := 0; i < 3; i++ {
		if lexHM(c.Segs[2*i+1], c.Segs[2*i]) < 0 {
			accept = false
		}
		if lexHM(c.Segs[2*i+1], c.Segs[2*i]) == 0 {
			equalEdge = true
		}
	}
	class := "profile/accepted"
	if !accept {
		class = "profile/rejected"
	} else if equalEdge {
		class = "profile/accepted-end-equals-start"
	}
	ev.Case(class, true, fmt.Sprint(c))
	if ev.WantSample(class) {
		ev.Sample(class, c)
	}
	u, d := hook.Mem(hook.ClientCfg{})
	ok := make([]byte, 64)
	spec.Header(ok, 0x17, 0x88, 405419896)
	ok[8] = 1
	d.Reset(ok)
	call := spec.Call{Op: "SetTimeProfile", Serial: 405419896, Profile: 29, From: spec.Civil{Y: 2024, M: 1, D: 1}, To: spec.Civil{Y: 2024, M: 12, D: 31}, Segments: c.Segs}
	if c.From.Y != 0 {
		call.From, call.To = c.From, spec.Civil{Y: c.From.Y + 1, M: 12, D: 31}
	}
	if len(c.Extra) > 0 {
		ev.Class("profile/segments-map-with-extra-keys", 1)
	}
	res := api.Invoke(u, api.Case{Call: call, V: api.Variant{WeekPresent: [7]bool{true, true, true, true, true, true, true}, ExtraSegments: c.Extra}})
	if res.Panic != nil {
		return rp.Failf("uhppote.SetTimeProfile/panic", "%v", res.Panic)
	}
	sent := len(d.Sends())
	for _, x := range c.Segs {
		if (x.H > 24 || x.M > 59 || x.H == 24 && x.M > 0) && accept {
			// values beyond 24:00 in correctly ordered segments: whether they can be encoded at all is nobody's promise
			ev.Class("profile/ordered-segments-with-values-beyond-24:00 (not judged beyond 'no panic')", 1)
			return nil
		}
	}
	if accept && (res.Err != nil || sent != 1) {
		return rp.Failf("uhppote.SetTimeProfile/rejects-valid-segments", "segments %v (every end >= start) were rejected: %v (sent %d)", c.Segs, res.Err, sent)
	}
	if !accept && (res.Err == nil || sent != 0) {
		return rp.Failf("uhppote.SetTimeProfile/accepts-end-before-start", "segments %v contain an end before its start but the call returned %v (sent %d)", c.Segs, res, sent)
	}
	return nil
}

func genProfile(t *rapid.T) profCase {
	c := genProfilePlain(t)
	if rapid.IntRange(0, 2).Draw(t, "clock.change") == 0 {
		zone := rapid.SampledFrom(append(zones.Spread(30), "Europe/Paris", "Australia/Lord_Howe", zones.Synthetic)).Draw(t, "zone")
		loc := zones.Loc(zone)
		if trs := zones.Transitions(zone, 2010, 2035); len(trs) > 0 {
			tr := trs[rapid.IntRange(0, len(trs)-1).Draw(t, "transition")]
			before, after := tr.Add(-time.Second).In(loc), tr.In(loc)
			day := before
			if rapid.Bool().Draw(t, "day.after") {
				day = after
			}
			if zones.DayExists(loc, day.Year(), int(day.Month()), day.Day()) {
				c.Zone, c.From = zone, spec.Civil{Y: day.Year(), M: int(day.Month()), D: day.Day()}
				// boundaries within 75 minutes of the wall-clock readings on both sides of the change
				lo, hi := before.Hour()*60+before.Minute(), after.Hour()*60+after.Minute()
				if lo > hi {
					lo, hi = hi, lo
				}
				for i := range c.Segs {
					if rapid.IntRange(0, 3).Draw(t, "near") != 0 {
						m := rapid.IntRange(lo-75, hi+75).Draw(t, "minute")
						if m < 0 {
							m = 0
						}
						if m > 24*60 {
							m = 24 * 60
						}
						c.Segs[i] = spec.HM{H: m / 60, M: m % 60}
					}
				}
			}
		}
	}
	// half of the profiles are valid ones: every reversed segment is put in order (equal boundaries stay)
	if rapid.Bool().Draw(t, "valid") {
		for i := 0; i < 3; i++ {
			if lexHM(c.Segs[2*i+1], c.Segs[2*i]) < 0 {
				c.Segs[2*i], c.Segs[2*i+1] = c.Segs[2*i+1], c.Segs[2*i]
			}
		}
	}
	return c
}

func genProfilePlain(t *rapid.T) profCase {
	var c profCase
	for i := 0; i < 3; i++ {
		a := gen.HM(t, "start")
		var b spec.HM
		switch rapid.IntRange(0, 5).Draw(t, "end.kind") {
		case 0:
			b = a
		case 1: // one minute before
			b = a
			if b.M > 0 {
				b.M--
			} else if b.H > 0 {
				b.H, b.M = b.H-1, 59
			}
		case 2: // same hour, other minute
			b = spec.HM{H: a.H, M: rapid.IntRange(0, 59).Draw(t, "m")}
			if a.H == 24 {
				b.M = 0
			}
		case 3: // same minute, other hour
			b = spec.HM{H: rapid.IntRange(0, 23).Draw(t, "h"), M: a.M}
		default:
			b = gen.HM(t, "end")
		}
		c.Segs[2*i], c.Segs[2*i+1] = a, b
	}
	if rapid.IntRange(0, 3).Draw(t, "extra.keys") == 0 {
		c.Extra = rapid.SampledFrom([][]uint8{{0}, {0}, {4}, {0, 4}, {200}, {0, 255}}).Draw(t, "extra")
	}
	if rapid.IntRange(0, 5).Draw(t, "beyond.range") == 0 {
		// an application that builds its segments with NewHHmm can pass values beyond 24:00 - also minutes of three digits: a
		// segment whose end is before its start in (hour, minute) order is refused all the same
		i := rapid.IntRange(0, 2).Draw(t, "beyond.segment")
		h := rapid.IntRange(0, 98).Draw(t, "beyond.h")
		lo := spec.HM{H: h, M: rapid.SampledFrom([]int{60, 75, 99, 100, 101, 130, 159, 160, 200, 255, 999}).Draw(t, "beyond.m")}
		hi := spec.HM{H: h + 1, M: rapid.IntRange(0, 59).Draw(t, "beyond.m2")}
		if rapid.Bool().Draw(t, "beyond.reversed") {
			lo, hi = hi, lo
		}
		c.Segs[2*i], c.Segs[2*i+1] = lo, hi
	}
	return c
}

type hmTriple struct {
	V   [3]spec.HM `json:"v"`
	Via [3]uint8   `json:"made_via,omitempty"`
}

func checkHMTriple(c hmTriple) *rp.Fail {
	ev.Case("hhmm/triple", true, fmt.Sprint(c))
	for i := 0; i < 3; i++ {
		for j := 0; j < 3; j++ {
			if f := decideHM(hmPair{A: c.V[i], B: c.V[j], Via: [2]uint8{c.Via[i], c.Via[j]}}); f != nil {
				return f
			}
			for k := 0; k < 3; k++ {
				if x, y, z := hmVia(c.V[i], c.Via[i]), hmVia(c.V[j], c.Via[j]), hmVia(c.V[k], c.Via[k]); x.Before(y) && y.Before(z) && !x.Before(z) {
					return rp.Failf("types.HHmm/transitivity", "%v < %v < %v but not %v < %v", c.V[i], c.V[j], c.V[k], c.V[i], c.V[k])
				}
			}
		}
	}
	return nil
}

func props() []rp.Prop {
	n := ev.Pick(40000, 10000000) / ev.Shards()
	return []rp.Prop{
		rp.P[hmPair]{Name: "hhmm-pair", Check: decideHM},
		rp.P[hmTriple]{Name: "hhmm-triple", Checks: n, Gen: func(t *rapid.T) hmTriple {
			return hmTriple{V: [3]spec.HM{gen.HM(t, "a"), gen.HM(t, "b"), gen.HM(t, "c")},
				Via: [3]uint8{uint8(rapid.IntRange(0, 4).Draw(t, "via.a")), uint8(rapid.IntRange(0, 4).Draw(t, "via.b")), uint8(rapid.IntRange(0, 4).Draw(t, "via.c"))}}
		}, Check: checkHMTriple},
		rp.P[clockCase]{Name: "clock-readings", Sweep: sweepClock, Check: checkClock},
		rp.P[concCmpCase]{Name: "concurrent-comparisons", Checks: ev.Pick(60, 6000) / ev.Shards(), Gen: genConcCmp, Check: checkConcCmp},
		rp.P[beyondCase]{Name: "hhmm-beyond-range", Checks: n / 2, Gen: genBeyond, Sweep: sweepBeyond, Check: checkBeyond},
		rp.P[dateTriple]{Name: "dates", Checks: n, Gen: genDates, Sweep: sweepDates, Check: checkDates},
		rp.P[dtCase]{Name: "datetime", Checks: n, Gen: genDT, Check: checkDT},
		rp.P[profCase]{Name: "profile", Checks: n / 2, Gen: genProfile, Check: checkProfile},
	}
}

func TestC16(t *testing.T)    { rp.RunAll(t, props()...) }
func TestReplay(t *testing.T) { rp.ReplayAll(t, props()...) }
